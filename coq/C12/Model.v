(* C12 — model of
     crates/model/src/action/update_funding_state.rs
        UpdateFundingState::{next_funding_factor_per_second, next_funding_amount_per_size,
                             set_deltas, execute}, pack_to_funding_amount_per_size,
        unpack_to_funding_amount_delta
     crates/model/src/params/fee.rs   FundingFeeParams::change
     crates/model/src/position.rs     PositionExt::pending_funding_fees
     crates/model/src/pool/balance.rs Merged (open interest of a side = long-collateral + short-collateral)
   parametric in the bit width [w] and [unit] = 10^DECIMALS.  Definitions only.

   Error kinds (res): 1 = Error::Computation(_), 2 = UnableToGetFundingFactorEmptyOpenInterest,
                      3 = Convert, 4 = InvalidArgument("min > max"), 5 = Overflow. *)
From GV Require Import lib.Base C01.Model.
Open Scope Z_scope.

(* FundingFeeParams *)
Record fparams := FP {
  f_exp : Z;        (* exponent *)
  f_factor : Z;     (* funding_factor (fallback, non-adaptive mode) *)
  f_inc : Z;        (* increase_factor_per_second; 0 = non-adaptive mode *)
  f_dec : Z;        (* decrease_factor_per_second *)
  f_max : Z;        (* max_factor_per_second *)
  f_min : Z;        (* min_factor_per_second *)
  f_ts : Z;         (* threshold_for_stable_funding *)
  f_td : Z }.       (* threshold_for_decrease_funding *)

(* values indexed by (side is_long, collateral is_long): ll = long side / long collateral, ... *)
Record q4 := Q4 { q_ll : Z; q_ls : Z; q_sl : Z; q_ss : Z }.
Definition qget (q : q4) (is_long coll : bool) : Z :=
  if is_long then (if coll then q_ll q else q_ls q) else (if coll then q_sl q else q_ss q).
Definition qset (q : q4) (is_long coll : bool) (v : Z) : q4 :=
  if is_long then (if coll then Q4 v (q_ls q) (q_sl q) (q_ss q) else Q4 (q_ll q) v (q_sl q) (q_ss q))
  else (if coll then Q4 (q_ll q) (q_ls q) v (q_ss q) else Q4 (q_ll q) (q_ls q) (q_sl q) v).
Definition q0 : q4 := Q4 0 0 0 0.

(* projection of the market: stored funding factor per second (signed), the two open-interest
   pools, funding-amount-per-size and claimable-funding-amount-per-size pools, Funding clock *)
Record fstate := FS { s_ffps : Z; s_oi : q4; s_fa : q4; s_cfa : q4; s_clock : Z }.

Record freport := REP { r_dur : Z; r_next : Z; r_dfa : q4; r_dcfa : q4 }.

(* projection of a position *)
Record fpos := POS { p_long : bool; p_coll : bool; p_size : Z; p_fa : Z; p_cl : Z; p_cs : Z }.

Section C12.
  Variable w : Z.
  Variable unit : Z.

  (* FundingFeeParams::change : 0 = NoChange, 1 = Increase, 2 = Decrease *)
  Definition change_type (p : fparams) (cur long short dtoi : Z) : Z :=
    let same := ((0 <? cur) && (short <? long)) || ((cur <? 0) && (long <? short)) in
    if same then
      if f_ts p <? dtoi then 1 else if dtoi <? f_td p then 2 else 0
    else 1.

  (* Unsigned::bound_magnitude with this unit's error numbering *)
  Definition bm (v mn mx : Z) : res Z :=
    match bound_magnitude w v mn mx with
    | Ok x => Ok x
    | Err e => if e =? 1 then Err 4 else Err 3
    end.

  (* the stored factor after the Increase / Decrease / NoChange step, before clamping *)
  Definition changed_factor (p : fparams) (cur dur long short dtoi : Z) : res Z :=
    let mag := Z.abs cur in
    let ch := change_type p cur long short dtoi in
    if ch =? 1 then
      iv <-- of_opt 1 (x <- apply_factor w unit dtoi (f_inc p) ;; umul w x dur) ;;
      ivs <-- of_opt 3 (if long <? short then to_opposite_signed w iv else to_signed w iv) ;;
      of_opt 1 (sadd w cur ivs)
    else if (ch =? 2) && negb (mag =? 0) then
      dv <-- of_opt 1 (umul w (f_dec p) dur) ;;
      if mag <=? dv then
        ms <-- of_opt 3 (to_signed w mag) ;; of_opt 1 (sdiv w cur ms)
      else
        d <-- of_opt 1 (usub w mag dv) ;;
        of_opt 3 (if cur <? 0 then to_opposite_signed w d else to_signed w d)
    else Ok cur.

  (* UpdateFundingState::next_funding_factor_per_second
       -> (funding_factor_per_second used for the period, longs_pay_shorts, next stored factor) *)
  Definition next_ffps (p : fparams) (cur dur long short : Z) : res (Z * bool * Z) :=
    let diff := Z.abs (long - short) in
    if (diff =? 0) && (f_inc p =? 0) then Ok (0, true, 0) else
    total <-- of_opt 1 (uadd w long short) ;;
    if total =? 0 then Err 2 else
    dae <-- of_opt 1 (apply_exponent_factor w unit diff (f_exp p)) ;;
    dtoi <-- of_opt 1 (div_to_factor w unit dae total false) ;;
    if f_inc p =? 0 then
      f <-- of_opt 1 (apply_factor w unit dtoi (f_factor p)) ;;
      Ok (if f_max p <? f then f_max p else f, short <? long, 0)
    else
      nx <-- changed_factor p cur dur long short dtoi ;;
      b1 <-- bm nx 0 (f_max p) ;;
      b2 <-- bm b1 (f_min p) (f_max p) ;;
      Ok (Z.abs b2, 0 <? b2, b1).

  (* pack_to_funding_amount_per_size *)
  Definition pack (adj fv oi price : Z) (round_up : bool) : option Z :=
    if (fv =? 0) || (oi =? 0) then Some 0 else
    num <- umul w adj unit ;;
    per <- (if round_up then mul_div_ceil w fv num oi else mul_div w fv num oi) ;;
    if round_up then round_up_div w per price else udiv w per price.

  (* unpack_to_funding_amount_delta *)
  Definition unpack (adj latest posidx size : Z) (round_up : bool) : option Z :=
    d <- usub w latest posidx ;;
    a <- umul w adj unit ;;
    if round_up then mul_div_ceil w size d a else mul_div w size d a.

  (* UpdateFundingState::next_funding_amount_per_size; [pl], [ps] = max long / short token price *)
  Definition next_report (p : fparams) (adj : Z) (s : fstate) (dur pl ps : Z) : res freport :=
    let oi := s_oi s in
    long_oi <-- of_opt 5 (uadd w (q_ll oi) (q_ls oi)) ;;
    short_oi <-- of_opt 5 (uadd w (q_sl oi) (q_ss oi)) ;;
    if (long_oi =? 0) || (short_oi =? 0) then Ok (REP dur 0 q0 q0) else
    r <-- next_ffps p (s_ffps s) dur long_oi short_oi ;;
    let '(f, lps, nx) := r in
    let payer_oi := if lps then long_oi else short_oi in
    let recv_oi := if lps then short_oi else long_oi in
    ff <-- of_opt 1 (umul w dur f) ;;
    fv <-- of_opt 1 (apply_factor w unit payer_oi ff) ;;
    flc <-- of_opt 1 (mul_div w fv (qget oi lps true) payer_oi) ;;
    fsc <-- of_opt 1 (mul_div w fv (qget oi lps false) payer_oi) ;;
    (* set_deltas: long collateral first, then short collateral *)
    d1 <-- of_opt 1 (pack adj flc (qget oi lps true) pl true) ;;
    c1 <-- of_opt 1 (pack adj flc recv_oi pl false) ;;
    d2 <-- of_opt 1 (pack adj fsc (qget oi lps false) ps true) ;;
    c2 <-- of_opt 1 (pack adj fsc recv_oi ps false) ;;
    Ok (REP dur nx
            (qset (qset q0 lps true d1) lps false d2)
            (qset (qset q0 (negb lps) true c1) (negb lps) false c2)).

  (* apply_delta_to_(claimable_)funding_amount_per_size: delta.to_signed()? then pool add *)
  Definition idx_add (cur delta : Z) : res Z :=
    ds <-- of_opt 3 (to_signed w delta) ;;
    if 0 <? ds then of_opt 5 (uadd w cur ds) else of_opt 1 (usub w cur (Z.abs ds)).

  (* the MATRIX loop of execute: for (ll, ls, sl, ss): funding index, then claimable index *)
  Definition q4_add2 (fa cfa dfa dcfa : q4) : res (q4 * q4) :=
    a1 <-- idx_add (q_ll fa) (q_ll dfa) ;; c1 <-- idx_add (q_ll cfa) (q_ll dcfa) ;;
    a2 <-- idx_add (q_ls fa) (q_ls dfa) ;; c2 <-- idx_add (q_ls cfa) (q_ls dcfa) ;;
    a3 <-- idx_add (q_sl fa) (q_sl dfa) ;; c3 <-- idx_add (q_sl cfa) (q_sl dcfa) ;;
    a4 <-- idx_add (q_ss fa) (q_ss dfa) ;; c4 <-- idx_add (q_ss cfa) (q_ss dcfa) ;;
    Ok (Q4 a1 a2 a3 a4, Q4 c1 c2 c3 c4).

  Definition elapsed (s : fstate) (now : Z) : Z := Z.max 0 (now - s_clock s).

  (* UpdateFundingState::execute at time [now] *)
  Definition execute (p : fparams) (adj : Z) (s : fstate) (now pl ps : Z) : res (freport * fstate) :=
    let dur := elapsed s now in
    rep <-- next_report p adj s dur pl ps ;;
    ix <-- q4_add2 (s_fa s) (s_cfa s) (r_dfa rep) (r_dcfa rep) ;;
    Ok (rep, FS (r_next rep) (s_oi s) (fst ix) (snd ix) now).

  (* PositionExt::pending_funding_fees -> (amount, claimable long, claimable short) *)
  Definition pending_funding (adj : Z) (s : fstate) (x : fpos) : res (Z * Z * Z) :=
    a <-- of_opt 1 (unpack adj (qget (s_fa s) (p_long x) (p_coll x)) (p_fa x) (p_size x) true) ;;
    cl <-- of_opt 1 (unpack adj (qget (s_cfa s) (p_long x) true) (p_cl x) (p_size x) false) ;;
    cs <-- of_opt 1 (unpack adj (qget (s_cfa s) (p_long x) false) (p_cs x) (p_size x) false) ;;
    Ok (a, cl, cs).

  (* what IncreasePosition / DecreasePosition do to the position's funding indices
     (increase_position.rs 505-516, decrease_position/mod.rs 665-676): copy the market's *)
  Definition settle (s : fstate) (x : fpos) (new_size : Z) : fpos :=
    POS (p_long x) (p_coll x) new_size
        (qget (s_fa s) (p_long x) (p_coll x))
        (qget (s_cfa s) (p_long x) true) (qget (s_cfa s) (p_long x) false).

  (* ---- histories ---- *)
  Inductive fop :=
  | OUpd (now pl ps : Z)            (* run UpdateFundingState; a failed update changes nothing *)
  | OSetOI (oi : q4)                (* open interest changed by position actions *)
  | OSettle (i : nat) (new_size : Z). (* position i is increased/decreased: indices := market's *)

  Fixpoint upd_nth {A} (l : list A) (i : nat) (f : A -> A) : list A :=
    match l, i with
    | [], _ => []
    | x :: r, O => f x :: r
    | x :: r, S j => x :: upd_nth r j f
    end.

  Definition hstep (p : fparams) (adj : Z) (st : fstate * list fpos) (o : fop) : fstate * list fpos :=
    let '(s, ps_) := st in
    match o with
    | OUpd now pl ps => match execute p adj s now pl ps with Ok (_, s') => (s', ps_) | Err _ => (s, ps_) end
    | OSetOI oi => (FS (s_ffps s) oi (s_fa s) (s_cfa s) (s_clock s), ps_)
    | OSettle i n => (s, upd_nth ps_ i (fun x => settle s x n))
    end.
  Definition hrun (p : fparams) (adj : Z) st ops := fold_left (hstep p adj) ops st.
End C12.
