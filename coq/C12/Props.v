(* C12 — property theorems only (statements pinned; closed by lemmas of Proofs.v / History.v). *)
From GV Require Import lib.Base C01.Model C12.Model C12.Proofs C12.History.
Open Scope Z_scope.

(* [use L]: close by lemma L, dropping the section hypotheses (1 <= w, 0 < unit) L's proof did not need *)
Ltac use L := intros w Hw unit Hu;
  first [exact (L w Hw unit Hu) | exact (L w Hw unit) | exact (L w unit Hu) | exact (L w unit) | exact (L w Hw) | exact (L w)].

(* Adaptive (increase/decrease) mode: for every open interest, elapsed time, stored factor and
   parameter set for which the computation returns, the rate applied for the period is within
   [min, max] and the factor stored for the next period is within the maximum. *)
Theorem c12_adaptive_rate_in_bounds : forall w, 1 <= w -> forall unit, 0 < unit -> forall p cur dur long short m lps nx,
  wf_params p -> in_s w cur = true -> f_inc p <> 0 ->
  next_ffps w unit p cur dur long short = Ok (m, lps, nx) ->
  f_min p <= f_max p /\ f_min p <= m <= f_max p /\ Z.abs nx <= f_max p /\ in_s w nx = true.
Proof. use adaptive_rate_in_bounds. Qed.

(* Non-adaptive mode: rate within [0, max], nothing is stored, the larger side pays
   (longs_pay_shorts = (short < long)); equal sides -> rate 0. *)
Theorem c12_fallback_rate_le_max_larger_side_pays : forall w, 1 <= w -> forall unit, 0 < unit -> forall p cur dur long short m lps nx,
  f_inc p = 0 -> 0 <= f_max p ->
  next_ffps w unit p cur dur long short = Ok (m, lps, nx) ->
  0 <= m <= f_max p /\ nx = 0 /\ (long <> short -> lps = (short <? long)) /\ (long = short -> m = 0).
Proof. use fallback_rate. Qed.

(* The property's bound  min <= |rate| <= max  holds for every input outside the class of the
   known deviation (non-adaptive mode with a result below the configured minimum) ... *)
Theorem c12_rate_in_bounds_outside_class : forall w, 1 <= w -> forall unit, 0 < unit -> forall p cur dur long short m lps nx,
  wf_params p -> in_s w cur = true ->
  next_ffps w unit p cur dur long short = Ok (m, lps, nx) ->
  nonadaptive_min_class p m = false ->
  f_min p <= m <= f_max p /\ Z.abs nx <= f_max p.
Proof. use rate_in_bounds_outside_class. Qed.

(* ... and inside the class it is violated by the code: both sides open, min <= max, rate < min. *)
Theorem c12_NonAdaptiveMin_refuted :
  exists p cur dur long short m lps nx,
    0 < long /\ 0 < short /\ f_inc p = 0 /\ f_min p <= f_max p /\
    next_ffps 64 (10 ^ 9) p cur dur long short = Ok (m, lps, nx) /\ ~ (f_min p <= m).
Proof. exact fallback_min_refuted. Qed.

(* "min > max" is reported only for a mis-configured pair *)
Theorem c12_rate_err_min_gt_max : forall w, 1 <= w -> forall unit, 0 < unit -> forall p cur dur long short,
  wf_params p -> next_ffps w unit p cur dur long short = Err 4 -> f_max p < f_min p.
Proof. use rate_err_min_gt_max. Qed.

(* One executed update: every funding-per-size and claimable-funding-per-size index is >= its
   previous value (the report's deltas are unsigned), stays in the number type. *)
Theorem c12_update_indices_monotone : forall w, 1 <= w -> forall unit, 0 < unit ->
  forall p adj s now pl ps rep s', 0 <= pl -> 0 <= ps ->
  execute w unit p adj s now pl ps = Ok (rep, s') ->
  q4_le (s_fa s) (s_fa s') /\ q4_le (s_cfa s) (s_cfa s') /\ q4_in w (s_fa s') /\ q4_in w (s_cfa s') /\
  s_oi s' = s_oi s /\ s_clock s' = now /\ s_ffps s' = r_next rep.
Proof. use execute_monotone. Qed.

(* only one side pays; in non-adaptive mode it is the larger one (index level) *)
Theorem c12_update_one_payer : forall w, 1 <= w -> forall unit, 0 < unit -> forall p adj s dur pl ps rep,
  next_report w unit p adj s dur pl ps = Ok rep ->
  (q_sl (r_dfa rep) = 0 /\ q_ss (r_dfa rep) = 0 /\ q_ll (r_dcfa rep) = 0 /\ q_ls (r_dcfa rep) = 0) \/
  (q_ll (r_dfa rep) = 0 /\ q_ls (r_dfa rep) = 0 /\ q_sl (r_dcfa rep) = 0 /\ q_ss (r_dcfa rep) = 0).
Proof. use report_one_payer. Qed.

Theorem c12_fallback_larger_side_pays_indices : forall w, 1 <= w -> forall unit, 0 < unit -> forall p adj s dur pl ps rep,
  f_inc p = 0 -> 0 <= f_max p ->
  next_report w unit p adj s dur pl ps = Ok rep ->
  let lo := q_ll (s_oi s) + q_ls (s_oi s) in
  let so := q_sl (s_oi s) + q_ss (s_oi s) in
  (so < lo -> q_sl (r_dfa rep) = 0 /\ q_ss (r_dfa rep) = 0 /\ q_ll (r_dcfa rep) = 0 /\ q_ls (r_dcfa rep) = 0) /\
  (lo < so -> q_ll (r_dfa rep) = 0 /\ q_ls (r_dfa rep) = 0 /\ q_sl (r_dcfa rep) = 0 /\ q_ss (r_dcfa rep) = 0) /\
  r_next rep = 0.
Proof. use fallback_larger_side_pays_report. Qed.

(* the factor stored by an executed update (adaptive mode, both sides open) is within the maximum *)
Theorem c12_update_stored_factor_bounded : forall w, 1 <= w -> forall unit, 0 < unit -> forall p adj s now pl ps rep s',
  wf_params p -> in_s w (s_ffps s) = true -> f_inc p <> 0 ->
  0 < q_ll (s_oi s) + q_ls (s_oi s) -> 0 < q_sl (s_oi s) + q_ss (s_oi s) ->
  execute w unit p adj s now pl ps = Ok (rep, s') ->
  Z.abs (s_ffps s') <= f_max p /\ in_s w (s_ffps s') = true.
Proof. use execute_stored_factor_bounded. Qed.

(* Histories: any interleaving of updates (any times, any non-negative prices), open-interest
   changes and position settlements keeps every index >= its initial value and keeps every
   position's indices <= the market's. *)
Theorem c12_funding_indices_monotone : forall w, 1 <= w -> forall unit, 0 < unit -> forall p adj ops,
  Forall op_ok ops -> forall st, inv w st ->
  let st' := hrun w unit p adj st ops in
  inv w st' /\ q4_le (s_fa (fst st)) (s_fa (fst st')) /\ q4_le (s_cfa (fst st)) (s_cfa (fst st')).
Proof. use history_indices_monotone. Qed.

(* A position's pending funding fee (and its two claimable amounts): the index subtractions never
   fail, the amounts are the exact ceil / floor products, hence never negative; the only failure
   is an overflow of the product or of adjustment * unit. *)
Theorem c12_pending_funding_nonneg : forall w, 1 <= w -> forall unit, 0 < unit -> forall adj s x,
  q4_in w (s_fa s) -> q4_in w (s_cfa s) -> pos_ok s x -> 0 <= p_size x -> 0 <= adj ->
  match pending_funding w unit adj s x with
  | Ok (a, cl, cs) =>
      adj * unit <> 0 /\
      a = ceil_div (p_size x * (qget (s_fa s) (p_long x) (p_coll x) - p_fa x)) (adj * unit) /\
      cl = p_size x * (qget (s_cfa s) (p_long x) true - p_cl x) / (adj * unit) /\
      cs = p_size x * (qget (s_cfa s) (p_long x) false - p_cs x) / (adj * unit) /\
      0 <= a /\ 0 <= cl /\ 0 <= cs
  | Err e =>
      e = 1 /\
      (adj * unit = 0 \/ 2 ^ w <= adj * unit \/
       2 ^ w <= ceil_div (p_size x * (qget (s_fa s) (p_long x) (p_coll x) - p_fa x)) (adj * unit) \/
       2 ^ w <= p_size x * (qget (s_cfa s) (p_long x) true - p_cl x) / (adj * unit) \/
       2 ^ w <= p_size x * (qget (s_cfa s) (p_long x) false - p_cs x) / (adj * unit))
  end.
Proof. use pending_funding_nonneg. Qed.

Theorem c12_history_pending_funding_nonneg : forall w, 1 <= w -> forall unit, 0 < unit -> forall p adj ops st x,
  Forall op_ok ops -> inv w st -> 0 <= adj ->
  let st' := hrun w unit p adj st ops in
  In x (snd st') -> 0 <= p_size x ->
  match pending_funding w unit adj (fst st') x with
  | Ok (a, cl, cs) => 0 <= a /\ 0 <= cl /\ 0 <= cs
  | Err e => e = 1 /\
      (adj * unit = 0 \/ 2 ^ w <= adj * unit \/
       2 ^ w <= ceil_div (p_size x * (qget (s_fa (fst st')) (p_long x) (p_coll x) - p_fa x)) (adj * unit) \/
       2 ^ w <= p_size x * (qget (s_cfa (fst st')) (p_long x) true - p_cl x) / (adj * unit) \/
       2 ^ w <= p_size x * (qget (s_cfa (fst st')) (p_long x) false - p_cs x) / (adj * unit))
  end.
Proof. use history_pending_funding_nonneg. Qed.

(* ---- non-vacuity: a history on the default u64 test parameters ---- *)
Definition ex_params : fparams := FP (10 ^ 9) 20 10 0 10 1 50000000 0.
Definition ex_state : fstate :=
  FS 0 (Q4 (600 * 10 ^ 9) (400 * 10 ^ 9) (300 * 10 ^ 9) (200 * 10 ^ 9)) (Q4 5 0 7 0) (Q4 0 0 0 3) 1000.
Definition ex_pos : fpos := POS true true (500 * 10 ^ 9) 5 0 0.
Definition ex_ops : list (fop) := [OUpd 1100 120 1; OSettle 0%nat (700 * 10 ^ 9); OSetOI (Q4 (100 * 10 ^ 9) (100 * 10 ^ 9) (900 * 10 ^ 9) 0); OUpd 1300 125 1].

Example c12_ex_rate : next_ffps 64 (10 ^ 9) ex_params 0 100 (1000 * 10 ^ 9) (500 * 10 ^ 9) = Ok (10, true, 10).
Proof. vm_compute. reflexivity. Qed.
Example c12_ex_inv : inv 64 (ex_state, [ex_pos]).
Proof. unfold inv, q4_in, pos_ok; cbn. repeat split; try lia. repeat constructor; cbn; lia. Qed.
Example c12_ex_hist :
  hrun 64 (10 ^ 9) ex_params 10000 (ex_state, [ex_pos]) ex_ops
  = (FS (-10) (Q4 (100 * 10 ^ 9) (100 * 10 ^ 9) (900 * 10 ^ 9) 0) (Q4 83339 10000000 160007 0) (Q4 720000 0 100000 8000003) 1300,
     [POS true true (700 * 10 ^ 9) 83339 0 0]).
Proof. vm_compute. reflexivity. Qed.
Example c12_ex_pending :
  pending_funding 64 (10 ^ 9) 10000 (fst (hrun 64 (10 ^ 9) ex_params 10000 (ex_state, [ex_pos]) ex_ops)) ex_pos
  = Ok (4167, 36000, 0).
Proof. vm_compute. reflexivity. Qed.
