(* C12 — proofs: funding indices only grow; pending funding fees never negative. *)
From GV Require Import lib.Base lib.DivLemmas C01.Model C01.Proofs FB.ResLemmas C12.Model C12.Proofs.
Open Scope Z_scope.
Ltac Zify.zify_post_hook ::= Z.div_mod_to_equations.

Definition q4_le (a b : q4) : Prop :=
  q_ll a <= q_ll b /\ q_ls a <= q_ls b /\ q_sl a <= q_sl b /\ q_ss a <= q_ss b.
Definition q4_in (w : Z) (a : q4) : Prop :=
  0 <= q_ll a < 2 ^ w /\ 0 <= q_ls a < 2 ^ w /\ 0 <= q_sl a < 2 ^ w /\ 0 <= q_ss a < 2 ^ w.

Lemma q4_le_refl a : q4_le a a. Proof. unfold q4_le; lia. Qed.
Lemma q4_le_trans a b c : q4_le a b -> q4_le b c -> q4_le a c. Proof. unfold q4_le; lia. Qed.
Lemma qget_le a b l c : q4_le a b -> qget a l c <= qget b l c.
Proof. unfold q4_le, qget. destruct l, c; lia. Qed.
Lemma qget_in w a l c : q4_in w a -> 0 <= qget a l c < 2 ^ w.
Proof. unfold q4_in, qget. destruct l, c; lia. Qed.

Section H.
  Variable w : Z.
  Hypothesis Hw : 1 <= w.
  Variable unit : Z.
  Hypothesis Hunit : 0 < unit.

  Let P2 : 0 < 2 ^ w. Proof. apply pow2_pos; lia. Qed.
  Let P2' : 0 < 2 ^ (w - 1). Proof. apply pow2_pos; lia. Qed.
  Let P2'' : 2 ^ w = 2 * 2 ^ (w - 1).
  Proof. replace w with (1 + (w - 1)) at 1 by lia. rewrite Z.pow_add_r by lia. reflexivity. Qed.

  (* deltas are unsigned *)
  Lemma pack_nonneg adj fv oi price ru r : 0 <= price -> pack w unit adj fv oi price ru = Some r -> 0 <= r.
  Proof.
    intros Hp. unfold pack. destruct ((fv =? 0) || (oi =? 0)); [intros H; injection H as <-; lia|].
    intros H. apply obind_some in H. destruct H as (num & _ & H).
    apply obind_some in H. destruct H as (per & Hper & H).
    assert (0 <= per < 2 ^ w) as Hr.
    { destruct ru; [apply mul_div_ceil_range in Hper|apply mul_div_range in Hper]; exact Hper. }
    destruct ru.
    - unfold round_up_div in H. destruct (price =? 0) eqn:E0; [discriminate|].
      apply obind_some in H. destruct H as (a & Ha & H). apply uadd_some in Ha. destruct Ha as [Ha ->].
      apply obind_some in H. destruct H as (t & Ht & H). apply usub_some in Ht. destruct Ht as [Ht ->].
      unfold udiv in H. rewrite E0 in H. injection H as <-. apply div_nonneg; lia.
    - unfold udiv in H. destruct (price =? 0) eqn:E0; [discriminate|]. injection H as <-.
      apply div_nonneg; lia.
  Qed.

  Definition q4_nonneg (a : q4) : Prop := 0 <= q_ll a /\ 0 <= q_ls a /\ 0 <= q_sl a /\ 0 <= q_ss a.

  Lemma report_deltas_nonneg p adj s dur pl ps rep : 0 <= pl -> 0 <= ps ->
    next_report w unit p adj s dur pl ps = Ok rep -> q4_nonneg (r_dfa rep) /\ q4_nonneg (r_dcfa rep).
  Proof.
    intros Hpl Hps. unfold next_report. intros H.
    rstep H lo E1. rstep H so E2.
    destruct ((lo =? 0) || (so =? 0)).
    { injection H as <-. cbn. unfold q4_nonneg; cbn. lia. }
    rstep H r E3. destruct r as [[f lps] nx].
    rstep H ff E4. rstep H fv E5. rstep H flc E6. rstep H fsc E7.
    rstep H d1 E8. rstep H c1 E9. rstep H d2 E10. rstep H c2 E11.
    injection H as <-.
    apply pack_nonneg in E8, E9, E10, E11; try assumption.
    unfold q4_nonneg. destruct lps; cbn; lia.
  Qed.

  (* the side that does not pay gets no funding-index delta; the payer gets no claimable delta *)
  Lemma report_one_payer p adj s dur pl ps rep :
    next_report w unit p adj s dur pl ps = Ok rep ->
    (q_sl (r_dfa rep) = 0 /\ q_ss (r_dfa rep) = 0 /\ q_ll (r_dcfa rep) = 0 /\ q_ls (r_dcfa rep) = 0) \/
    (q_ll (r_dfa rep) = 0 /\ q_ls (r_dfa rep) = 0 /\ q_sl (r_dcfa rep) = 0 /\ q_ss (r_dcfa rep) = 0).
  Proof.
    unfold next_report. intros H.
    rstep H lo E1. rstep H so E2.
    destruct ((lo =? 0) || (so =? 0)).
    { injection H as <-. cbn. left. auto. }
    rstep H r E3. destruct r as [[f lps] nx].
    rstep H ff E4. rstep H fv E5. rstep H flc E6. rstep H fsc E7.
    rstep H d1 E8. rstep H c1 E9. rstep H d2 E10. rstep H c2 E11.
    injection H as <-. destruct lps; cbn; [left|right]; auto.
  Qed.

  (* non-adaptive mode, at the level of the indices: only the larger side's funding index moves
     (it pays), only the smaller side's claimable index moves (it receives) *)
  Lemma fallback_larger_side_pays_report p adj s dur pl ps rep :
    f_inc p = 0 -> 0 <= f_max p ->
    next_report w unit p adj s dur pl ps = Ok rep ->
    let lo := q_ll (s_oi s) + q_ls (s_oi s) in
    let so := q_sl (s_oi s) + q_ss (s_oi s) in
    (so < lo -> q_sl (r_dfa rep) = 0 /\ q_ss (r_dfa rep) = 0 /\ q_ll (r_dcfa rep) = 0 /\ q_ls (r_dcfa rep) = 0) /\
    (lo < so -> q_ll (r_dfa rep) = 0 /\ q_ls (r_dfa rep) = 0 /\ q_sl (r_dcfa rep) = 0 /\ q_ss (r_dcfa rep) = 0) /\
    r_next rep = 0.
  Proof.
    intros Hinc Hmx. unfold next_report. intros H.
    rstep H lo E1. rstep H so E2. apply uadd_some in E1, E2. destruct E1 as [_ ->], E2 as [_ ->].
    destruct ((q_ll (s_oi s) + q_ls (s_oi s) =? 0) || (q_sl (s_oi s) + q_ss (s_oi s) =? 0)).
    { injection H as <-. cbn. intuition. }
    rstep H r E3. destruct r as [[f lps] nx].
    apply fallback_rate in E3; try assumption. destruct E3 as (_ & -> & Hl & _).
    rstep H ff E4. rstep H fv E5. rstep H flc E6. rstep H fsc E7.
    rstep H d1 E8. rstep H c1 E9. rstep H d2 E10. rstep H c2 E11.
    injection H as <-. cbn.
    split; [|split; [|reflexivity]]; intros Hlt; rewrite Hl by lia.
    - replace (q_sl (s_oi s) + q_ss (s_oi s) <? q_ll (s_oi s) + q_ls (s_oi s)) with true by lia. cbn. auto.
    - replace (q_sl (s_oi s) + q_ss (s_oi s) <? q_ll (s_oi s) + q_ls (s_oi s)) with false by lia. cbn. auto.
  Qed.

  Lemma idx_add_spec cur delta r : 0 <= delta -> idx_add w cur delta = Ok r ->
    r = cur + delta /\ 0 <= r < 2 ^ w.
  Proof.
    intros Hd. unfold idx_add. intros H. rstep H ds E. apply to_signed_some in E. destruct E as [E ->].
    destruct (0 <? delta) eqn:E0; apply of_opt_ok in H.
    - apply uadd_some in H. lia.
    - apply usub_some in H. lia.
  Qed.

  Lemma q4_add2_spec fa cfa dfa dcfa fa' cfa' : q4_nonneg dfa -> q4_nonneg dcfa ->
    q4_add2 w fa cfa dfa dcfa = Ok (fa', cfa') ->
    q4_le fa fa' /\ q4_le cfa cfa' /\ q4_in w fa' /\ q4_in w cfa' /\
    fa' = Q4 (q_ll fa + q_ll dfa) (q_ls fa + q_ls dfa) (q_sl fa + q_sl dfa) (q_ss fa + q_ss dfa) /\
    cfa' = Q4 (q_ll cfa + q_ll dcfa) (q_ls cfa + q_ls dcfa) (q_sl cfa + q_sl dcfa) (q_ss cfa + q_ss dcfa).
  Proof.
    intros (A1 & A2 & A3 & A4) (B1 & B2 & B3 & B4). unfold q4_add2. intros H.
    rstep H a1 X1. rstep H c1 Y1. rstep H a2 X2. rstep H c2 Y2.
    rstep H a3 X3. rstep H c3 Y3. rstep H a4 X4. rstep H c4 Y4. injection H as <- <-.
    apply idx_add_spec in X1, X2, X3, X4, Y1, Y2, Y3, Y4; try assumption.
    unfold q4_le, q4_in; cbn.
    destruct X1 as [-> ?], X2 as [-> ?], X3 as [-> ?], X4 as [-> ?],
             Y1 as [-> ?], Y2 as [-> ?], Y3 as [-> ?], Y4 as [-> ?].
    repeat split; lia.
  Qed.

  (* ---- one executed update: indices never decrease ---- *)
  Theorem execute_monotone p adj s now pl ps rep s' : 0 <= pl -> 0 <= ps ->
    execute w unit p adj s now pl ps = Ok (rep, s') ->
    q4_le (s_fa s) (s_fa s') /\ q4_le (s_cfa s) (s_cfa s') /\
    q4_in w (s_fa s') /\ q4_in w (s_cfa s') /\
    s_oi s' = s_oi s /\ s_clock s' = now /\ s_ffps s' = r_next rep.
  Proof.
    intros Hpl Hps. unfold execute. intros H.
    rstep H rep0 E1. rstep H ix E2. injection H as <- <-. cbn.
    apply report_deltas_nonneg in E1; try assumption. destruct E1 as [N1 N2].
    destruct ix as [fa' cfa']. apply q4_add2_spec in E2; try assumption. cbn. intuition.
  Qed.

  (* stored factor after an executed update in adaptive mode with both sides open *)
  Theorem execute_stored_factor_bounded p adj s now pl ps rep s' :
    wf_params p -> in_s w (s_ffps s) = true -> f_inc p <> 0 ->
    0 < q_ll (s_oi s) + q_ls (s_oi s) -> 0 < q_sl (s_oi s) + q_ss (s_oi s) ->
    execute w unit p adj s now pl ps = Ok (rep, s') ->
    Z.abs (s_ffps s') <= f_max p /\ in_s w (s_ffps s') = true.
  Proof.
    intros Hp Hc Hinc Hl Hs. unfold execute. intros H.
    rstep H rep0 E1. rstep H ix E2. injection H as <- <-. cbn.
    unfold next_report in E1. rstep E1 lo X1. rstep E1 so X2.
    apply uadd_some in X1, X2. destruct X1 as [_ ->], X2 as [_ ->].
    replace ((q_ll (s_oi s) + q_ls (s_oi s) =? 0) || (q_sl (s_oi s) + q_ss (s_oi s) =? 0)) with false in E1
      by (symmetry; apply orb_false_iff; split; apply Z.eqb_neq; lia).
    rstep E1 r X3. destruct r as [[f lps] nx].
    apply adaptive_rate_in_bounds in X3; try assumption.
    rstep E1 ff X4. rstep E1 fv X5. rstep E1 flc X6. rstep E1 fsc X7.
    rstep E1 d1 X8. rstep E1 c1 X9. rstep E1 d2 X10. rstep E1 c2 X11. injection E1 as <-. cbn. tauto.
  Qed.

  (* ---- positions: pending funding fees ---- *)
  Definition pos_ok (s : fstate) (x : fpos) : Prop :=
    0 <= p_fa x <= qget (s_fa s) (p_long x) (p_coll x) /\
    0 <= p_cl x <= qget (s_cfa s) (p_long x) true /\
    0 <= p_cs x <= qget (s_cfa s) (p_long x) false.

  Definition inv (st : fstate * list fpos) : Prop :=
    q4_in w (s_fa (fst st)) /\ q4_in w (s_cfa (fst st)) /\ Forall (pos_ok (fst st)) (snd st).

  Definition ceil_div (n d : Z) : Z := if n mod d =? 0 then n / d else n / d + 1.

  Lemma unpack_spec adj latest idx size ru : 0 <= idx <= latest -> latest < 2 ^ w ->
    0 <= size -> 0 <= adj ->
    match unpack w unit adj latest idx size ru with
    | Some r => 0 <= r /\ adj * unit <> 0 /\
                r = (if ru then ceil_div (size * (latest - idx)) (adj * unit) else size * (latest - idx) / (adj * unit))
    | None => adj * unit = 0 \/ 2 ^ w <= adj * unit \/
              2 ^ w <= (if ru then ceil_div (size * (latest - idx)) (adj * unit) else size * (latest - idx) / (adj * unit))
    end.
  Proof.
    intros Hi Hl Hs Ha. unfold unpack.
    replace (usub w latest idx) with (Some (latest - idx)) by (symmetry; apply usub_some; lia).
    cbn [obind]. destruct (umul w adj unit) as [a|] eqn:Ea; cbn [obind].
    2:{ apply chk_u_none in Ea. right; left. nia. }
    apply umul_some in Ea. destruct Ea as [Ea ->].
    destruct ru.
    - destruct (mul_div_ceil w size (latest - idx) (adj * unit)) as [r|] eqn:E.
      + pose proof E as E'. apply mul_div_ceil_range in E'.
        unfold mul_div_ceil in E. destruct (adj * unit =? 0) eqn:E0; [discriminate|].
        apply chk_u_some in E. unfold ceil_div. split; [lia|]. split; [lia|]. lia.
      + apply mul_div_ceil_none in E; [|lia..]. unfold C01.Proofs.ceil_div in E. unfold ceil_div. lia.
    - destruct (mul_div w size (latest - idx) (adj * unit)) as [r|] eqn:E.
      + apply mul_div_exact in E; [|lia..]. assert (0 <= size * (latest - idx) / (adj * unit)) by (apply div_nonneg; nia). lia.
      + apply mul_div_none in E; [|lia..]. lia.
  Qed.

  (* under the invariant the three subtractions never fail; the amounts are the exact
     ceil / floor products (hence >= 0); the only failure is an overflow *)
  Theorem pending_funding_nonneg adj s x : q4_in w (s_fa s) -> q4_in w (s_cfa s) -> pos_ok s x ->
    0 <= p_size x -> 0 <= adj ->
    match pending_funding w unit adj s x with
    | Ok (a, cl, cs) =>
        adj * unit <> 0 /\
        a = ceil_div (p_size x * (qget (s_fa s) (p_long x) (p_coll x) - p_fa x)) (adj * unit) /\
        cl = p_size x * (qget (s_cfa s) (p_long x) true - p_cl x) / (adj * unit) /\
        cs = p_size x * (qget (s_cfa s) (p_long x) false - p_cs x) / (adj * unit) /\
        0 <= a /\ 0 <= cl /\ 0 <= cs
    | Err e =>
        e = 1 /\
        (adj * unit = 0 \/ 2 ^ w <= adj * unit \/
         2 ^ w <= ceil_div (p_size x * (qget (s_fa s) (p_long x) (p_coll x) - p_fa x)) (adj * unit) \/
         2 ^ w <= p_size x * (qget (s_cfa s) (p_long x) true - p_cl x) / (adj * unit) \/
         2 ^ w <= p_size x * (qget (s_cfa s) (p_long x) false - p_cs x) / (adj * unit))
    end.
  Proof.
    intros Hfa Hcfa (Ha & Hcl & Hcs) Hsz Hadj. unfold pending_funding.
    pose proof (qget_in w _ (p_long x) (p_coll x) Hfa) as R1.
    pose proof (qget_in w _ (p_long x) true Hcfa) as R2.
    pose proof (qget_in w _ (p_long x) false Hcfa) as R3.
    pose proof (unpack_spec adj _ _ (p_size x) true Ha ltac:(lia) Hsz Hadj) as U1.
    pose proof (unpack_spec adj _ _ (p_size x) false Hcl ltac:(lia) Hsz Hadj) as U2.
    pose proof (unpack_spec adj _ _ (p_size x) false Hcs ltac:(lia) Hsz Hadj) as U3.
    destruct (unpack w unit adj (qget (s_fa s) (p_long x) (p_coll x)) (p_fa x) (p_size x) true) as [a|]; cbn [of_opt rbind].
    2:{ split; [reflexivity|]. tauto. }
    destruct (unpack w unit adj (qget (s_cfa s) (p_long x) true) (p_cl x) (p_size x) false) as [cl|]; cbn [of_opt rbind].
    2:{ split; [reflexivity|]. tauto. }
    destruct (unpack w unit adj (qget (s_cfa s) (p_long x) false) (p_cs x) (p_size x) false) as [cs|]; cbn [of_opt rbind].
    2:{ split; [reflexivity|]. tauto. }
    intuition.
  Qed.

  (* ---- histories ---- *)
  Definition op_ok (o : fop) : Prop :=
    match o with OUpd _ pl ps => 0 <= pl /\ 0 <= ps | _ => True end.

  Lemma pos_ok_mono s s' x : q4_le (s_fa s) (s_fa s') -> q4_le (s_cfa s) (s_cfa s') -> pos_ok s x -> pos_ok s' x.
  Proof.
    intros L1 L2 (A & B & C). unfold pos_ok.
    pose proof (qget_le _ _ (p_long x) (p_coll x) L1).
    pose proof (qget_le _ _ (p_long x) true L2). pose proof (qget_le _ _ (p_long x) false L2). lia.
  Qed.

  Lemma Forall_upd_nth {A} (P : A -> Prop) l i f :
    Forall P l -> (forall x, P x -> P (f x)) -> Forall P (upd_nth l i f).
  Proof.
    intros H Hf. revert i. induction H as [|x l Hx Hl IH]; intros i; cbn.
    - destruct i; constructor.
    - destruct i; constructor; auto.
  Qed.

  Lemma hstep_inv p adj st o : op_ok o -> inv st ->
    let st' := hstep w unit p adj st o in
    inv st' /\ q4_le (s_fa (fst st)) (s_fa (fst st')) /\ q4_le (s_cfa (fst st)) (s_cfa (fst st')).
  Proof.
    intros Ho (I1 & I2 & I3). destruct st as [s xs]. cbn [fst snd] in *. unfold inv.
    destruct o as [now pl ps|oi|i n]; cbn [hstep].
    - destruct (execute w unit p adj s now pl ps) as [[rep s']|e] eqn:E.
      + destruct Ho as [Hpl Hps]. apply execute_monotone in E; try assumption.
        destruct E as (L1 & L2 & R1 & R2 & _). cbn [fst snd].
        split; [|split; assumption]. split; [exact R1|]. split; [exact R2|].
        eapply Forall_impl; [|exact I3]. intros x Hx. eapply pos_ok_mono; eassumption.
      + cbn [fst snd]. split; [|split; apply q4_le_refl]. auto.
    - cbn [fst snd]. split; [|split; apply q4_le_refl]. auto.
    - cbn [fst snd]. split; [|split; apply q4_le_refl]. split; [exact I1|]. split; [exact I2|].
      apply Forall_upd_nth; [assumption|]. intros x _. unfold pos_ok, settle; cbn.
      pose proof (qget_in w _ (p_long x) (p_coll x) I1).
      pose proof (qget_in w _ (p_long x) true I2). pose proof (qget_in w _ (p_long x) false I2). lia.
  Qed.

  (* over any history: the invariant (positions' indices <= market's, all in range) is kept and
     every funding / claimable-funding index is >= its initial value *)
  Theorem history_indices_monotone p adj ops : Forall op_ok ops -> forall st, inv st ->
    let st' := hrun w unit p adj st ops in
    inv st' /\ q4_le (s_fa (fst st)) (s_fa (fst st')) /\ q4_le (s_cfa (fst st)) (s_cfa (fst st')).
  Proof.
    induction 1 as [|o ops Ho _ IH]; intros st Hi; cbn.
    - split; [exact Hi|split; apply q4_le_refl].
    - pose proof (hstep_inv p adj st o Ho Hi) as H1. cbv zeta in H1. destruct H1 as (J & L1 & L2).
      specialize (IH _ J). cbv zeta in IH. destruct IH as (K & M1 & M2).
      unfold hrun in *. split; [exact K|split; eapply q4_le_trans; eassumption].
  Qed.

  (* ... and therefore at every point of every history the pending funding of every position
     is defined up to overflow and non-negative *)
  Theorem history_pending_funding_nonneg p adj ops st x :
    Forall op_ok ops -> inv st -> 0 <= adj ->
    let st' := hrun w unit p adj st ops in
    In x (snd st') -> 0 <= p_size x ->
    match pending_funding w unit adj (fst st') x with
    | Ok (a, cl, cs) => 0 <= a /\ 0 <= cl /\ 0 <= cs
    | Err e => e = 1 /\
        (adj * unit = 0 \/ 2 ^ w <= adj * unit \/
         2 ^ w <= ceil_div (p_size x * (qget (s_fa (fst st')) (p_long x) (p_coll x) - p_fa x)) (adj * unit) \/
         2 ^ w <= p_size x * (qget (s_cfa (fst st')) (p_long x) true - p_cl x) / (adj * unit) \/
         2 ^ w <= p_size x * (qget (s_cfa (fst st')) (p_long x) false - p_cs x) / (adj * unit))
    end.
  Proof.
    intros Ho Hi Hadj st' Hin Hsz.
    pose proof (history_indices_monotone p adj ops Ho st Hi) as H. cbv zeta in H. fold st' in H.
    destruct H as ((I1 & I2 & I3) & _ & _).
    rewrite Forall_forall in I3. specialize (I3 x Hin).
    pose proof (pending_funding_nonneg adj (fst st') x I1 I2 I3 Hsz Hadj) as HP.
    destruct (pending_funding w unit adj (fst st') x) as [[[a cl] cs]|e]; [|exact HP]. tauto.
  Qed.
End H.
