(* C12 — correspondence and oracle predicates for harness/src/bin/c12.rs.  Model.v only. *)
From GV Require Import lib.Base C01.Model.
From GV Require Export C12.Model.   (* case terms mention FP, Q4, FS, REP, POS *)
Open Scope Z_scope.

(* observed steps of a history (see c12.rs):
   Upd now pl ps r s' : market.now := now, real UpdateFundingState executed with long/short token
        max prices pl/ps; r = report or error kind (numbering of Model.v; 9 = other);
        s' = market projection read back afterwards (the driver restores its snapshot after a
        failed action = transaction atomicity, so s' = state before on Err)
   SetOI oi          : harness overwrote the two open-interest pools
   Settle i n x'     : harness did to position i what increase/decrease do to the funding indices
                       (copy of the market's) and set its size to n; x' = position read back
   Pend i r          : real PositionExt::pending_funding_fees of position i *)
Inductive obs :=
| Upd (now pl ps : Z) (r : res freport) (s' : fstate)
| SetOI (oi : q4)
| Settle (i : nat) (n : Z) (x' : fpos)
| Pend (i : nat) (r : res (Z * Z * Z)).

Inductive case :=
| Rate (w dec : Z) (p : fparams) (cur dur long short : Z) (r : res (Z * bool * Z))
| Hist (w dec : Z) (p : fparams) (adj : Z) (s0 : fstate) (ps0 : list fpos) (ops : list obs).

Definition q4_eqb (a b : q4) : bool :=
  (q_ll a =? q_ll b) && (q_ls a =? q_ls b) && (q_sl a =? q_sl b) && (q_ss a =? q_ss b).
Definition fstate_eqb (a b : fstate) : bool :=
  (s_ffps a =? s_ffps b) && q4_eqb (s_oi a) (s_oi b) && q4_eqb (s_fa a) (s_fa b)
  && q4_eqb (s_cfa a) (s_cfa b) && (s_clock a =? s_clock b).
Definition rep_eqb (a b : freport) : bool :=
  (r_dur a =? r_dur b) && (r_next a =? r_next b) && q4_eqb (r_dfa a) (r_dfa b) && q4_eqb (r_dcfa a) (r_dcfa b).
Definition fpos_eqb (a b : fpos) : bool :=
  Bool.eqb (p_long a) (p_long b) && Bool.eqb (p_coll a) (p_coll b) && (p_size a =? p_size b)
  && (p_fa a =? p_fa b) && (p_cl a =? p_cl b) && (p_cs a =? p_cs b).
Definition rate_eqb (a b : res (Z * bool * Z)) : bool :=
  match a, b with
  | Ok (m1, l1, n1), Ok (m2, l2, n2) => (m1 =? m2) && Bool.eqb l1 l2 && (n1 =? n2)
  | Err x, Err y => x =? y
  | _, _ => false
  end.
Definition z3_eqb (a b : res (Z * Z * Z)) : bool :=
  match a, b with
  | Ok (a1, a2, a3), Ok (b1, b2, b3) => (a1 =? b1) && (a2 =? b2) && (a3 =? b3)
  | Err x, Err y => x =? y
  | _, _ => false
  end.

Definition dflt_pos : fpos := POS true true 0 0 0 0.

Fixpoint corr_ops (w unit : Z) (p : fparams) (adj : Z) (s : fstate) (xs : list fpos) (ops : list obs) : bool :=
  match ops with
  | [] => true
  | Upd now pl ps r s' :: rest =>
      match execute w unit p adj s now pl ps, r with
      | Ok (rep, sm), Ok rep' => rep_eqb rep rep' && fstate_eqb sm s' && corr_ops w unit p adj sm xs rest
      | Err e, Err e' => (e =? e') && fstate_eqb s s' && corr_ops w unit p adj s xs rest
      | _, _ => false
      end
  | SetOI oi :: rest => corr_ops w unit p adj (FS (s_ffps s) oi (s_fa s) (s_cfa s) (s_clock s)) xs rest
  | Settle i n x' :: rest =>
      let xs' := upd_nth xs i (fun x => settle s x n) in
      fpos_eqb (nth i xs' dflt_pos) x' && corr_ops w unit p adj s xs' rest
  | Pend i r :: rest =>
      z3_eqb (pending_funding w unit adj s (nth i xs dflt_pos)) r && corr_ops w unit p adj s xs rest
  end.

Definition corr_b (c : case) : bool :=
  match c with
  | Rate w dec p cur dur long short r => rate_eqb (next_ffps w (10 ^ dec) p cur dur long short) r
  | Hist w dec p adj s0 ps0 ops => corr_ops w (10 ^ dec) p adj s0 ps0 ops
  end.

(* ---------------- the property, on the implementation's outputs ---------------- *)
Definition q4_le (a b : q4) : bool :=
  (q_ll a <=? q_ll b) && (q_ls a <=? q_ls b) && (q_sl a <=? q_sl b) && (q_ss a <=? q_ss b).

(* rate for the next period: min <= |rate| <= max whenever both sides have open interest;
   without adaptive funding the larger side pays *)
Definition rate_ok (p : fparams) (long short : Z) (r : res (Z * bool * Z)) : bool :=
  if (long =? 0) || (short =? 0) then true else
  match r with
  | Ok (m, lps, nx) =>
      (f_min p <=? m) && (m <=? f_max p) && (Z.abs nx <=? f_max p)
      && (if f_inc p =? 0 then (m =? 0) || Bool.eqb lps (short <? long) else true)
  | Err e => if e =? 4 then f_max p <? f_min p else negb (e =? 2)
  end.

(* the known deviation: non-adaptive mode ignores the configured minimum *)
Definition nonadaptive_min (p : fparams) (long short : Z) (r : res (Z * bool * Z)) : bool :=
  match r with
  | Ok (m, lps, nx) =>
      negb ((long =? 0) || (short =? 0)) && (f_inc p =? 0) && (m <? f_min p)
      && (m <=? f_max p) && (nx =? 0) && ((m =? 0) || Bool.eqb lps (short <? long))
  | Err _ => false
  end.

(* the rate actually applied in an update is visible through the report: recover who paid *)
Definition upd_ok (w : Z) (p : fparams) (s : fstate) (now : Z) (r : res freport) (s' : fstate) : bool :=
  match r with
  | Err _ => fstate_eqb s s'
  | Ok rep =>
      let lo := q_ll (s_oi s) + q_ls (s_oi s) in
      let so := q_sl (s_oi s) + q_ss (s_oi s) in
      (* indices never decrease, and move by exactly the reported (unsigned) deltas *)
      q4_le (s_fa s) (s_fa s') && q4_le (s_cfa s) (s_cfa s')
      && q4_eqb (s_fa s') (Q4 (q_ll (s_fa s) + q_ll (r_dfa rep)) (q_ls (s_fa s) + q_ls (r_dfa rep))
                              (q_sl (s_fa s) + q_sl (r_dfa rep)) (q_ss (s_fa s) + q_ss (r_dfa rep)))
      && q4_eqb (s_cfa s') (Q4 (q_ll (s_cfa s) + q_ll (r_dcfa rep)) (q_ls (s_cfa s) + q_ls (r_dcfa rep))
                               (q_sl (s_cfa s) + q_sl (r_dcfa rep)) (q_ss (s_cfa s) + q_ss (r_dcfa rep)))
      && q4_le q0 (r_dfa rep) && q4_le q0 (r_dcfa rep)
      && (s_ffps s' =? r_next rep) && (s_clock s' =? now) && q4_eqb (s_oi s') (s_oi s)
      && (r_dur rep =? Z.max 0 (now - s_clock s))
      (* stored factor within the maximum when both sides have open interest (adaptive), 0 otherwise *)
      && (if (lo =? 0) || (so =? 0) then (r_next rep =? 0) && q4_eqb (r_dfa rep) q0 && q4_eqb (r_dcfa rep) q0
          else if f_inc p =? 0 then r_next rep =? 0 else Z.abs (r_next rep) <=? f_max p)
      (* only one side pays, the other side only receives *)
      && (((q_sl (r_dfa rep) =? 0) && (q_ss (r_dfa rep) =? 0) && (q_ll (r_dcfa rep) =? 0) && (q_ls (r_dcfa rep) =? 0))
          || ((q_ll (r_dfa rep) =? 0) && (q_ls (r_dfa rep) =? 0) && (q_sl (r_dcfa rep) =? 0) && (q_ss (r_dcfa rep) =? 0)))
      (* without adaptive funding the larger side pays: the smaller side's funding index does not move *)
      && (if f_inc p =? 0 then
            if so <? lo then (q_sl (r_dfa rep) =? 0) && (q_ss (r_dfa rep) =? 0)
            else if lo <? so then (q_ll (r_dfa rep) =? 0) && (q_ls (r_dfa rep) =? 0)
            else q4_eqb (r_dfa rep) q0
          else true)
  end.

Definition ceil_div (n d : Z) : Z := (n + d - 1) / d.

(* pending funding of a position against the market indices: never a failed subtraction;
   amounts are the (ceil / floor) products and therefore >= 0; an error is justified only by
   an overflow of the result or of adjustment*unit *)
Definition pend_ok (w unit adj : Z) (s : fstate) (x : fpos) (r : res (Z * Z * Z)) : bool :=
  let la := qget (s_fa s) (p_long x) (p_coll x) in
  let lcl := qget (s_cfa s) (p_long x) true in
  let lcs := qget (s_cfa s) (p_long x) false in
  (p_fa x <=? la) && (p_cl x <=? lcl) && (p_cs x <=? lcs) &&
  let a := adj * unit in
  match r with
  | Ok (fa, cl, cs) =>
      (0 <=? fa) && (0 <=? cl) && (0 <=? cs) && negb (a =? 0)
      && (fa =? ceil_div (p_size x * (la - p_fa x)) a)
      && (cl =? p_size x * (lcl - p_cl x) / a) && (cs =? p_size x * (lcs - p_cs x) / a)
  | Err _ =>
      (a =? 0) || (2 ^ w <=? a) || (2 ^ w <=? ceil_div (p_size x * (la - p_fa x)) a)
      || (2 ^ w <=? p_size x * (lcl - p_cl x) / a) || (2 ^ w <=? p_size x * (lcs - p_cs x) / a)
  end.

Fixpoint replace_nth {A} (l : list A) (i : nat) (v : A) : list A :=
  match l, i with
  | [], _ => []
  | _ :: r, O => v :: r
  | x :: r, S j => x :: replace_nth r j v
  end.

Fixpoint oracle_ops (w unit : Z) (p : fparams) (adj : Z) (s : fstate) (xs : list fpos) (ops : list obs) : bool :=
  match ops with
  | [] => true
  | Upd now pl ps r s' :: rest => upd_ok w p s now r s' && oracle_ops w unit p adj s' xs rest
  | SetOI oi :: rest => oracle_ops w unit p adj (FS (s_ffps s) oi (s_fa s) (s_cfa s) (s_clock s)) xs rest
  | Settle i n x' :: rest =>
      (* a settled position carries the market's current indices *)
      (p_fa x' =? qget (s_fa s) (p_long x') (p_coll x')) && (p_cl x' =? qget (s_cfa s) (p_long x') true)
      && (p_cs x' =? qget (s_cfa s) (p_long x') false) && (p_size x' =? n)
      && oracle_ops w unit p adj s (replace_nth xs i x') rest
  | Pend i r :: rest => pend_ok w unit adj s (nth i xs dflt_pos) r && oracle_ops w unit p adj s xs rest
  end.

Definition oracle_b (c : case) : bool :=
  match c with
  | Rate w dec p cur dur long short r => rate_ok p long short r
  | Hist w dec p adj s0 ps0 ops => oracle_ops w (10 ^ dec) p adj s0 ps0 ops
  end.

(* class 1 = NonAdaptiveMin: exactly "non-adaptive mode, both sides open, result below the
   configured minimum (and otherwise as the property demands)" *)
Definition known_b (c : case) : Z :=
  match c with
  | Rate w dec p cur dur long short r => if nonadaptive_min p long short r then 1 else 0
  | Hist _ _ _ _ _ _ _ => 0
  end.
