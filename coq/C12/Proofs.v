(* C12 — proofs: bounds on the funding rate. *)
From GV Require Import lib.Base lib.DivLemmas C01.Model C01.Proofs FB.ResLemmas C12.Model.
Open Scope Z_scope.
Ltac Zify.zify_post_hook ::= Z.div_mod_to_equations.

Section P.
  Variable w : Z.
  Hypothesis Hw : 1 <= w.
  Variable unit : Z.
  Hypothesis Hunit : 0 < unit.

  Let P2 : 0 < 2 ^ w. Proof. apply pow2_pos; lia. Qed.
  Let P2' : 0 < 2 ^ (w - 1). Proof. apply pow2_pos; lia. Qed.
  Let P2'' : 2 ^ w = 2 * 2 ^ (w - 1).
  Proof. replace w with (1 + (w - 1)) at 1 by lia. rewrite Z.pow_add_r by lia. reflexivity. Qed.

  Definition wf_params (p : fparams) : Prop := 0 <= f_min p /\ 0 <= f_max p.

  (* bound_magnitude as used here *)
  Lemma bm_ok v mn mx r : 0 <= mn -> 0 <= mx -> in_s w v = true ->
    bm w v mn mx = Ok r ->
    mn <= mx /\ Z.abs r = Z.max mn (Z.min (Z.abs v) mx) /\ in_s w r = true /\
    (v < 0 -> r <= 0) /\ (0 <= v -> 0 <= r).
  Proof.
    intros Hmn Hmx Hv. unfold bm.
    destruct (bound_magnitude w v mn mx) as [x|e] eqn:E; [|destruct (e =? 1); discriminate].
    intros H. injection H as <-.
    apply bound_magnitude_spec in E; try assumption. unfold clampZ in E. intuition.
  Qed.

  Lemma bm_err4 v mn mx e : 0 <= mn -> 0 <= mx -> bm w v mn mx = Err e -> e = 4 -> mx < mn.
  Proof.
    intros Hmn Hmx. unfold bm.
    destruct (bound_magnitude w v mn mx) as [x|e0] eqn:E; [discriminate|].
    apply bound_magnitude_err in E; try assumption.
    destruct (e0 =? 1) eqn:E1; intros H; injection H as <-; intros H4; [|discriminate].
    apply Z.eqb_eq in E1. lia.
  Qed.

  (* the Increase / Decrease / NoChange step keeps the stored factor in the signed range *)
  Lemma changed_factor_range p cur dur long short dtoi nx : in_s w cur = true ->
    changed_factor w unit p cur dur long short dtoi = Ok nx -> in_s w nx = true.
  Proof.
    intros Hc. apply in_s_iff in Hc. unfold changed_factor.
    destruct (change_type p cur long short dtoi =? 1) eqn:C1.
    - intros H. rstep H iv E1. rstep H ivs E2. apply of_opt_ok in H.
      unfold sadd in H. apply chk_s_some in H. apply in_s_iff. lia.
    - destruct ((change_type p cur long short dtoi =? 2) && negb (Z.abs cur =? 0)) eqn:C2.
      + intros H. rstep H dv E1. apply umul_some in E1. destruct E1 as [E1 ->].
        destruct (Z.abs cur <=? f_dec p * dur) eqn:C3.
        * rstep H ms E2. apply of_opt_ok in H. unfold sdiv in H.
          destruct (ms =? 0); [discriminate|]. apply chk_s_some in H. apply in_s_iff. lia.
        * rstep H d E2. apply usub_some in E2. destruct E2 as [E2 ->]. apply of_opt_ok in H.
          destruct (cur <? 0).
          -- apply to_opposite_signed_some in H; [|lia]. apply in_s_iff. lia.
          -- apply to_signed_some in H. apply in_s_iff. lia.
      + intros H. injection H as <-. apply in_s_iff. lia.
  Qed.

  (* ---- adaptive mode: min <= |rate| <= max; the stored factor is within the maximum ---- *)
  Theorem adaptive_rate_in_bounds p cur dur long short m lps nx :
    wf_params p -> in_s w cur = true -> f_inc p <> 0 ->
    next_ffps w unit p cur dur long short = Ok (m, lps, nx) ->
    f_min p <= f_max p /\ f_min p <= m <= f_max p /\ Z.abs nx <= f_max p /\ in_s w nx = true.
  Proof.
    intros [Hmn Hmx] Hc Hinc. unfold next_ffps.
    replace (f_inc p =? 0) with false by lia. rewrite andb_false_r.
    intros H. rstep H total E1.
    destruct (total =? 0); [discriminate|].
    rstep H dae E2. rstep H dtoi E3.
    rstep H nx0 E4. apply changed_factor_range in E4; [|assumption].
    rstep H b1 E5. rstep H b2 E6. injection H as <- <- <-.
    apply bm_ok in E5; [|lia|lia|assumption]. destruct E5 as (_ & A1 & R1 & _).
    apply bm_ok in E6; [|lia|lia|assumption]. destruct E6 as (A2 & A3 & _).
    repeat split; try assumption; lia.
  Qed.

  (* ---- non-adaptive (fallback) mode: rate <= max, nothing stored, the larger side pays ---- *)
  Theorem fallback_rate p cur dur long short m lps nx :
    f_inc p = 0 -> 0 <= f_max p ->
    next_ffps w unit p cur dur long short = Ok (m, lps, nx) ->
    0 <= m <= f_max p /\ nx = 0 /\
    (long <> short -> lps = (short <? long)) /\ (long = short -> m = 0).
  Proof.
    intros Hinc Hmx. unfold next_ffps. rewrite Hinc. cbn [Z.eqb]. rewrite andb_true_r.
    destruct (Z.abs (long - short) =? 0) eqn:Ed.
    - intros H. injection H as <- <- <-. apply Z.eqb_eq in Ed. repeat split; lia.
    - apply Z.eqb_neq in Ed. intros H. rstep H total E1.
      destruct (total =? 0); [discriminate|].
      rstep H dae E2. rstep H dtoi E3. rstep H f E4. injection H as <- <- <-.
      apply apply_factor_range in E4.
      repeat split; try (destruct (f_max p <? f) eqn:E; lia); try lia; try reflexivity.
  Qed.

  (* the class of the known deviation, as a predicate on (parameters, resulting rate) *)
  Definition nonadaptive_min_class (p : fparams) (m : Z) : bool := (f_inc p =? 0) && (m <? f_min p).

  Theorem rate_in_bounds_outside_class p cur dur long short m lps nx :
    wf_params p -> in_s w cur = true ->
    next_ffps w unit p cur dur long short = Ok (m, lps, nx) ->
    nonadaptive_min_class p m = false ->
    f_min p <= m <= f_max p /\ Z.abs nx <= f_max p.
  Proof.
    intros Hp Hc H Hk. destruct (Z.eq_dec (f_inc p) 0) as [Hi|Hi].
    - unfold nonadaptive_min_class in Hk. rewrite Hi in Hk. cbn in Hk. apply Z.ltb_ge in Hk.
      destruct Hp as [Hmn Hmx]. apply fallback_rate in H; [|assumption..]. lia.
    - apply adaptive_rate_in_bounds in H; try assumption. lia.
  Qed.

  (* Err 4 ("min > max") really means a mis-configured pair *)
  Theorem rate_err_min_gt_max p cur dur long short :
    wf_params p -> next_ffps w unit p cur dur long short = Err 4 -> f_max p < f_min p.
  Proof.
    intros [Hmn Hmx]. unfold next_ffps.
    destruct ((Z.abs (long - short) =? 0) && (f_inc p =? 0)); [discriminate|].
    intros H. apply rbind_err in H. destruct H as [H|(total & _ & H)]; [apply of_opt_err in H; lia|].
    destruct (total =? 0); [discriminate|].
    apply rbind_err in H. destruct H as [H|(dae & _ & H)]; [apply of_opt_err in H; lia|].
    apply rbind_err in H. destruct H as [H|(dtoi & _ & H)]; [apply of_opt_err in H; lia|].
    destruct (f_inc p =? 0).
    - apply rbind_err in H. destruct H as [H|(f & _ & H)]; [apply of_opt_err in H; lia|discriminate].
    - apply rbind_err in H. destruct H as [H|(nx & E4 & H)].
      + exfalso. unfold changed_factor in H.
        repeat match type of H with
        | (if ?c then _ else _) = _ => destruct c
        | rbind _ _ = Err _ => apply rbind_err in H; destruct H as [H|(? & _ & H)]
        | of_opt _ _ = Err _ => apply of_opt_err in H; lia
        | Ok _ = Err _ => discriminate
        end.
      + apply rbind_err in H. destruct H as [H|(b1 & E5 & H)].
        * apply bm_err4 in H; try lia.
        * apply rbind_err in H. destruct H as [H|(b2 & _ & H)]; [|discriminate].
          apply bm_err4 in H; lia.
  Qed.
End P.

(* witness of the deviation (u64, 9 decimals): non-adaptive mode, both sides open,
   min = 5000, max = 10000, open interest 1000 vs 999 dollars -> rate 1000 < min *)
Definition witness_params : fparams := FP (10 ^ 9) 1000000 0 0 10000 5000 0 0.
Lemma fallback_min_refuted :
  exists p cur dur long short m lps nx,
    0 < long /\ 0 < short /\ f_inc p = 0 /\ f_min p <= f_max p /\
    next_ffps 64 (10 ^ 9) p cur dur long short = Ok (m, lps, nx) /\ ~ (f_min p <= m).
Proof.
  exists witness_params, 0, 60, (1000 * 10 ^ 9), (999 * 10 ^ 9). eexists _, _, _.
  repeat split; try (vm_compute; congruence); try reflexivity.
Qed.
