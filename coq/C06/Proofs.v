(* C06 — lemmas: minting is fair and rounded down, withdrawals pay at most the fair share,
   round trips cannot profit beyond funded positive impact (given the pool value grows by at most
   the value added), no dilution. *)
From GV Require Import lib.Base lib.DivLemmas C01.Model C01.Proofs MK.Market MK.Swap MK.Liquidity
  MK.MarketProofs MK.SwapProofs MK.LiquidityProofs.
Open Scope Z_scope.
Ltac Zify.zify_post_hook ::= Z.div_mod_to_equations.

(* ---------- quantities of a deposit (from its trace) ---------- *)
(* USD value credited to the depositor: own tokens at the minimum price, funded positive impact
   at the maximum price of the (opposite) token it is paid in *)
Definition funded_value (ps : prices) (t : deposit_trace) : Z :=
  lg_pos_amount (dt_long t) * pr_max (px_short ps) + lg_pos_amount (dt_short t) * pr_max (px_long ps).
Definition credit_value (ps : prices) (t : deposit_trace) : Z :=
  lg_amount (dt_long t) * pr_min (px_long ps) + lg_amount (dt_short t) * pr_min (px_short ps) + funded_value ps t.
Definition in_value (l sh : Z) (ps : prices) : Z := l * pr_min (px_long ps) + sh * pr_min (px_short ps).
(* tokens added to the liquidity pool *)
Definition added_long (r : deposit_report) (t : deposit_trace) : Z :=
  lg_amount (dt_long t) + f_pool (dr_fees_long r) + lg_pos_amount (dt_short t).
Definition added_short (r : deposit_report) (t : deposit_trace) : Z :=
  lg_amount (dt_short t) + f_pool (dr_fees_short r) + lg_pos_amount (dt_long t).

(* value paid out by a withdrawal at maximum prices: to the user, and including fees *)
Definition out_value (ps : prices) (r : withdraw_report) : Z :=
  wr_long_out r * pr_max (px_long ps) + wr_short_out r * pr_max (px_short ps).
Definition gross_value (ps : prices) (t : withdraw_trace) : Z :=
  wt_long_gross t * pr_max (px_long ps) + wt_short_gross t * pr_max (px_short ps).

Definition ordered (p : price) : Prop := pr_min p <= pr_max p.
Definition ordered_prices (ps : prices) : Prop :=
  ordered (px_index ps) /\ ordered (px_long ps) /\ ordered (px_short ps).

Lemma rt_arith S m P0 P1 A V X mtv : 0 <= S -> 0 < m -> 0 <= mtv ->
  (S + m) * mtv <= P1 * m -> P1 <= P0 + A -> P0 * m <= S * V -> V <= X -> A <= X -> mtv <= X.
Proof.
  intros HS Hm Hmtv H1 H2 H3 H4 H5.
  assert (P1 * m <= (P0 + A) * m) by nia.
  assert (S * V <= S * X) by nia. assert (A * m <= X * m) by nia.
  assert ((S + m) * mtv <= (S + m) * X) by nia. nia.
Qed.

Lemma dilution_arith S m P0 P1 V : 0 <= S -> 0 <= m -> P0 * m <= S * V -> P0 + V <= P1 -> P0 * (S + m) <= P1 * S.
Proof. intros. nia. Qed.

Lemma wd_dilution_arith S a P1 P2 G : 0 < S -> 0 <= a -> G * S <= P1 * a -> P1 - G <= P2 -> P1 * (S - a) <= P2 * S.
Proof. intros. nia. Qed.

Section P.
  Variable w : Z.
  Hypothesis Hw : 1 <= w.
  Variable unit : Z.
  Hypothesis Hunit : 0 < unit.
  Variable cfg : config.

  Notation in_range := (in_range w).
  Notation wf_state := (wf_state w).
  Notation wf_prices := (wf_prices w).

  (* usd_to_market_token_amount with a non-empty supply: floor(supply * usd / pool value) *)
  Lemma usd_to_mt_supply usd pv S dv r : 0 <= usd -> 0 <= pv -> 0 < S -> 0 <= dv ->
    usd_to_mt w usd pv S dv = Some r -> 0 < pv /\ pv * r <= S * usd < pv * r + pv.
  Proof.
    intros A B C D H. app usd_to_mt_cases H. destruct H as (_ & [(? & _)|[(? & _)|(_ & ? & ? & _)]]); lia.
  Qed.

  Lemma usd_to_mt_first usd dv r : 0 <= usd -> 0 <= dv ->
    usd_to_mt w usd 0 0 dv = Some r -> r = usd / dv.
  Proof.
    intros A D H. app usd_to_mt_cases H. destruct H as (_ & [(_ & _ & ->)|[(_ & ? & _)|(? & _)]]); lia.
  Qed.

  (* what one executed or skipped leg contributes *)
  Record leg_sum (s s1 : mstate) (ps : prices) (il : bool) (amount pv imp m : Z) (fs : fees) (g : deposit_leg) : Prop := {
    ls_prim_in : pamount (primary s1) il = pamount (primary s) il + lg_amount g + f_pool fs;
    ls_prim_out : pamount (primary s1) (negb il) = pamount (primary s) (negb il) + lg_pos_amount g;
    ls_imp_out : pamount (swap_impact s1) (negb il) = pamount (swap_impact s) (negb il) - lg_pos_amount g;
    ls_imp_in : pamount (swap_impact s1) il = pamount (swap_impact s) il + lg_neg_amount g;
    ls_supply : total_supply s1 = total_supply s;
    ls_dv : value_to_amount_divisor s1 = value_to_amount_divisor s;
    ls_split : lg_amount g + lg_neg_amount g + f_receiver fs + f_pool fs = amount;
    ls_nonneg : 0 <= lg_amount g /\ 0 <= lg_pos_amount g /\ 0 <= lg_neg_amount g /\ 0 <= f_pool fs /\ 0 <= f_receiver fs;
    ls_mint : m = lg_mint_impact g + lg_mint_amount g;
    ls_mint_nonneg : 0 <= lg_mint_impact g /\ 0 <= lg_mint_amount g;
    ls_pos_first : total_supply s = 0 -> lg_pos_amount g = 0 /\ lg_mint_impact g = 0;
    ls_pos_pool : lg_pos_amount g <= pamount (swap_impact s) (negb il);
    ls_fair : 0 < total_supply s ->
      pv * lg_mint_amount g <= total_supply s * (lg_amount g * pr_min (side_price ps il)) /\
      pv * lg_mint_impact g <= total_supply s * (lg_pos_amount g * pr_max (side_price ps (negb il))) /\
      (amount <> 0 -> 0 < pv /\
        total_supply s * (lg_amount g * pr_min (side_price ps il)) < pv * lg_mint_amount g + pv /\
        total_supply s * (lg_pos_amount g * pr_max (side_price ps (negb il))) < pv * lg_mint_impact g + pv);
    ls_first : total_supply s = 0 -> pv = 0 -> amount <> 0 ->
      lg_mint_amount g = lg_amount g * pr_min (side_price ps il) / value_to_amount_divisor s;
    ls_skip : amount = 0 -> lg_amount g = 0 /\ lg_pos_amount g = 0 /\ lg_mint_impact g = 0 /\ lg_mint_amount g = 0;
    ls_pos_sign : 0 < lg_pos_amount g -> 0 < imp;
    ls_neg_sign : 0 < lg_neg_amount g -> imp < 0
  }.

  Lemma leg_or_skip_sum s s1 ps il amount pv imp m fs g :
    wf_state s -> wf_prices ps -> 0 <= pv -> 0 <= value_to_amount_divisor s ->
    leg_or_skip w s s1 ps il amount pv imp m fs g -> leg_sum s s1 ps il amount pv imp m fs g.
  Proof.
    intros Hs Hps Hpv Hdv H. unfold leg_or_skip in H.
    pose proof Hs as (Hsup & _ & Himp & _). unfold MarketProofs.in_range in Hsup.
    pose proof (pamount_range w _ (negb il) Himp) as Rimp. unfold MarketProofs.in_range in Rimp.
    pose proof (side_price_wf w ps il Hps) as [[P0 _] [P1 _]].
    pose proof (side_price_wf w ps (negb il) Hps) as [[Q0 _] [Q1 _]].
    destruct (amount =? 0) eqn:Z0.
    - destruct H as (-> & -> & -> & ->). constructor; cbn; try lia; try reflexivity.
    - destruct H as (adj & F & Sp & Sn). destruct F.
      assert (Hma : 0 <= lg_mint_amount g) by (eapply usd_to_mt_nonneg; [| | | | |exact lf_mint_amount]; try lia; nia).
      assert (Hmi : 0 <= lg_mint_impact g).
      { destruct lf_mint_impact as [[_ ->]|(_ & _ & _ & U)]; [lia|]. eapply usd_to_mt_nonneg; [| | | | |exact U]; try lia; nia. }
      constructor; try lia.
      + destruct lf_rest as (E & _). congruence.
      + intros Spos. pose proof lf_mint_amount as U.
        assert (0 <= lg_amount g * pr_min (side_price ps il)) by nia.
        assert (0 <= lg_pos_amount g * pr_max (side_price ps (negb il))) by nia.
        app usd_to_mt_supply U.
        destruct lf_mint_impact as [[-> ->]|(_ & _ & _ & U2)].
        * split; [lia|]. split; [lia|]. intros _. lia.
        * app usd_to_mt_supply U2. split; [lia|]. split; [lia|]. intros _. lia.
      + intros S0 P0' _. rewrite S0, P0' in lf_mint_amount.
        assert (0 <= lg_amount g * pr_min (side_price ps il)) by nia.
        eapply usd_to_mt_first; [| |exact lf_mint_amount]; lia.
  Qed.

  (* ---------- a whole deposit ---------- *)
  Record deposit_sum (s s' : mstate) (l sh : Z) (ps : prices) (r : deposit_report) (t : deposit_trace) : Prop := {
    ds_prim_long : p_long (primary s') = p_long (primary s) + added_long r t;
    ds_prim_short : p_short (primary s') = p_short (primary s) + added_short r t;
    ds_supply : total_supply s' = total_supply s + dr_minted r;
    ds_rest : same_rest s s';
    ds_wf : wf_state s';
    ds_pv : pool_value w unit cfg s ps MaxAfterDeposit true = Ok (dt_pool_value t) /\ 0 <= dt_pool_value t;
    ds_split_long : lg_amount (dt_long t) + lg_neg_amount (dt_long t) + f_receiver (dr_fees_long r) + f_pool (dr_fees_long r) = l;
    ds_split_short : lg_amount (dt_short t) + lg_neg_amount (dt_short t) + f_receiver (dr_fees_short r) + f_pool (dr_fees_short r) = sh;
    ds_nonneg : 0 <= lg_amount (dt_long t) /\ 0 <= lg_amount (dt_short t) /\
                0 <= lg_pos_amount (dt_long t) /\ 0 <= lg_pos_amount (dt_short t) /\
                0 <= lg_neg_amount (dt_long t) /\ 0 <= lg_neg_amount (dt_short t) /\
                0 <= f_pool (dr_fees_long r) /\ 0 <= f_pool (dr_fees_short r) /\
                0 <= f_receiver (dr_fees_long r) /\ 0 <= f_receiver (dr_fees_short r) /\ 0 <= dr_minted r;
    (* positive impact is paid from the swap-impact pool of the opposite token, never beyond its balance *)
    ds_funded_long : lg_pos_amount (dt_long t) <= p_short (swap_impact s);
    ds_funded_short : lg_pos_amount (dt_short t) <= p_long (swap_impact s);
    ds_imp_long : p_long (swap_impact s') = p_long (swap_impact s) + lg_neg_amount (dt_long t) - lg_pos_amount (dt_short t);
    ds_imp_short : p_short (swap_impact s') = p_short (swap_impact s) + lg_neg_amount (dt_short t) - lg_pos_amount (dt_long t);
    (* non-empty supply: minted = credited value priced at pool value / supply, rounded down by less than 4 tokens *)
    ds_fair : 0 < total_supply s -> 0 < dt_pool_value t /\
       dt_pool_value t * dr_minted r <= total_supply s * credit_value ps t /\
       total_supply s * credit_value ps t < dt_pool_value t * (dr_minted r + 4);
    (* empty supply: no positive impact is credited *)
    ds_first_no_funded : total_supply s = 0 -> funded_value ps t = 0;
    (* first deposit into an empty pool: value / divisor per side, rounded down *)
    ds_first : total_supply s = 0 -> dt_pool_value t = 0 ->
       dr_minted r = lg_amount (dt_long t) * pr_min (px_long ps) / value_to_amount_divisor s
                   + lg_amount (dt_short t) * pr_min (px_short ps) / value_to_amount_divisor s
  }.

  Lemma deposit_summary s l sh ps s' r t :
    wf_state s -> wf_prices ps -> in_range l -> in_range sh -> 0 <= value_to_amount_divisor s ->
    deposit_exec_trace w unit cfg s l sh ps = Ok (s', r, t) ->
    deposit_sum s s' l sh ps r t.
  Proof.
    intros Hs Hps Hl Hsh Hdv H.
    assert (Hne : l <> 0 \/ sh <> 0).
    { unfold deposit_exec_trace in H. destruct (l =? 0) eqn:A, (sh =? 0) eqn:B; cbn in H; try discriminate; lia. }
    app deposit_exec_trace_ok H. destruct H as [_ _ Hsup Hmn Hrest _ Hwf [HPV Hpv] (s1 & s2 & m1 & m2 & L1 & L2 & Hm & Hm1 & Hm2 & ->)].
    pose proof L1 as LL. app leg_or_skip_ledger LL. destruct LL as (_ & _ & A3 & A4 & _ & A6 & _).
    assert (Hdv1 : 0 <= value_to_amount_divisor s1) by (destruct A4 as (<- & _); exact Hdv).
    app leg_or_skip_sum L1. app leg_or_skip_sum L2.
    destruct L1 as [a1 a2 a3 a4 a5 a6 a7 a8 a9 a10 a11 a12 a13 a14 a15 a16 a17].
    destruct L2 as [b1 b2 b3 b4 b5 b6 b7 b8 b9 b10 b11 b12 b13 b14 b15 b16 b17].
    cbn [pamount negb side_price] in *. rewrite a5 in *. rewrite a6 in *.
    pose proof Hps as (_ & [[PL0 _] [PL1 _]] & [[PS0 _] [PS1 _]]).
    destruct Hs as (Hsr & _ & [[Hil _] [His _]] & _). unfold MarketProofs.in_range in Hsr.
    constructor; unfold added_long, added_short, credit_value, funded_value; cbn [primary swap_impact set_supply].
    1-3,7-13: clear a13 b13 a14 b14 a15 b15 a11 b11; lia.
    - assumption.
    - assumption.
    - split; assumption.
    - intros Spos. destruct (a13 Spos) as (F1 & F2 & F3). destruct (b13 Spos) as (G1 & G2 & G3).
      assert (Hp : 0 < dt_pool_value t) by (destruct Hne as [N|N]; [destruct (F3 N)|destruct (G3 N)]; lia).
      split; [exact Hp|]. rewrite Hm, a9, b9.
      split; [clear - F1 F2 G1 G2; lia|].
      (* each of the four floors loses less than one token *)
      assert (T : forall amount g pmin pmax,
                 (amount <> 0 -> 0 < dt_pool_value t /\
                    total_supply s * (lg_amount g * pmin) < dt_pool_value t * lg_mint_amount g + dt_pool_value t /\
                    total_supply s * (lg_pos_amount g * pmax) < dt_pool_value t * lg_mint_impact g + dt_pool_value t) ->
                 (amount = 0 -> lg_amount g = 0 /\ lg_pos_amount g = 0 /\ lg_mint_impact g = 0 /\ lg_mint_amount g = 0) ->
                 total_supply s * (lg_amount g * pmin) < dt_pool_value t * lg_mint_amount g + dt_pool_value t /\
                 total_supply s * (lg_pos_amount g * pmax) < dt_pool_value t * lg_mint_impact g + dt_pool_value t).
      { intros amount g pmin pmax X Y. destruct (Z.eq_dec amount 0) as [Z0|N].
        - destruct (Y Z0) as (-> & -> & -> & ->). lia.
        - destruct (X N) as (_ & ? & ?). split; assumption. }
      destruct (T _ _ _ _ F3 a15) as [T1 T2]. destruct (T _ _ _ _ G3 b15) as [T3 T4]. clear - T1 T2 T3 T4. lia.
    - intros S0. destruct (a11 S0) as [-> _]. destruct (b11 S0) as [-> _]. lia.
    - intros S0 P0. rewrite Hm, a9, b9. destruct (a11 S0) as [_ ->]. destruct (b11 S0) as [_ ->].
      assert (T : forall amount g p, (amount <> 0 -> lg_mint_amount g = lg_amount g * p / value_to_amount_divisor s) ->
                 (amount = 0 -> lg_amount g = 0 /\ lg_pos_amount g = 0 /\ lg_mint_impact g = 0 /\ lg_mint_amount g = 0) ->
                 lg_mint_amount g = lg_amount g * p / value_to_amount_divisor s).
      { intros amount g p X Y. destruct (Z.eq_dec amount 0) as [Z0|N]; [|exact (X N)].
        destruct (Y Z0) as (-> & _ & _ & ->). rewrite Z.mul_0_l. destruct (value_to_amount_divisor s); reflexivity. }
      rewrite (T _ _ _ (a14 S0 P0) a15), (T _ _ _ (b14 S0 P0) b15). lia.
  Qed.

  (* ---------- withdrawal: at most the fair share ---------- *)
  Lemma withdraw_fair s a ps s' r t :
    wf_state s -> wf_prices ps -> in_range a ->
    withdraw_exec_trace w unit cfg s a ps = Ok (s', r, t) ->
    out_value ps r <= gross_value ps t /\ gross_value ps t <= wt_mtv t /\
    gross_value ps t * total_supply s <= wt_pool_value t * a /\
    0 < total_supply s /\ 0 < a <= total_supply s /\ 0 < wt_pool_value t /\ 0 <= wt_mtv t /\
    total_supply s * wt_mtv t <= wt_pool_value t * a.
  Proof.
    intros Hs Hps Ha H. app withdraw_exec_trace_ok H. destruct H.
    pose proof Hps as (_ & [[PL0 _] [PL1 _]] & [[PS0 _] [PS1 _]]).
    destruct wd_nonneg as (N1 & N2 & N3 & N4 & N5 & N6). destruct wd_pv as [_ Hpv].
    unfold out_value, gross_value in *.
    assert (out_value ps r <= gross_value ps t).
    { unfold out_value, gross_value. rewrite <- wd_long_split, <- wd_short_split. nia. }
    unfold out_value, gross_value in *.
    repeat split; try lia. nia.
  Qed.

  (* ---------- round trip at unchanged prices ---------- *)
  (* [pool value grows by at most the value added]: hypothesis G below.  It is proved for
     markets without open interest (Proofs: pool_value_growth_no_oi). *)
  Theorem round_trip_bound s l sh ps s1 rd td s2 rw tw :
    wf_state s -> wf_prices ps -> in_range l -> in_range sh -> 0 <= value_to_amount_divisor s ->
    ordered (px_long ps) -> ordered (px_short ps) ->
    deposit_exec_trace w unit cfg s l sh ps = Ok (s1, rd, td) ->
    withdraw_exec_trace w unit cfg s1 (dr_minted rd) ps = Ok (s2, rw, tw) ->
    wt_pool_value tw <= dt_pool_value td + added_long rd td * pr_min (px_long ps) + added_short rd td * pr_min (px_short ps) ->
    (0 < total_supply s -> out_value ps rw <= in_value l sh ps + funded_value ps td) /\
    (total_supply s = 0 -> out_value ps rw <= in_value l sh ps + dt_pool_value td).
  Proof.
    intros Hs Hps Hl Hsh Hdv Ol Os HD HW G.
    app deposit_summary HD. destruct HD.
    assert (Hm : in_range (dr_minted rd)).
    { destruct ds_wf0 as (R & _). unfold MarketProofs.in_range in *. destruct Hs as (R0 & _). unfold MarketProofs.in_range in R0. lia. }
    app withdraw_fair HW. destruct HW as (W1 & W2 & W3 & W4 & W5 & W6 & Hmtv & W7).
    pose proof Hps as (_ & [[PL0 _] [PL1 _]] & [[PS0 _] [PS1 _]]).
    destruct ds_nonneg0 as (n1 & n2 & n3 & n4 & n5 & n6 & n7 & n8 & n9 & n10 & n11).
    destruct ds_pv0 as [_ Hp0]. unfold ordered in *.
    destruct Hs as (R0 & _). unfold MarketProofs.in_range in R0.
    set (X := in_value l sh ps + funded_value ps td).
    assert (HV : credit_value ps td <= X).
    { unfold X, credit_value, in_value. assert (lg_amount (dt_long td) <= l) by lia. assert (lg_amount (dt_short td) <= sh) by lia. nia. }
    assert (HA : added_long rd td * pr_min (px_long ps) + added_short rd td * pr_min (px_short ps) <= X).
    { unfold X, in_value, funded_value, added_long, added_short.
      assert (lg_amount (dt_long td) + f_pool (dr_fees_long rd) <= l) by lia.
      assert (lg_amount (dt_short td) + f_pool (dr_fees_short rd) <= sh) by lia. nia. }
    rewrite ds_supply0 in *.
    split.
    - intros Spos. destruct (ds_fair0 Spos) as (P0 & F1 & _).
      assert (wt_mtv tw <= X); [|lia].
      apply (rt_arith (total_supply s) (dr_minted rd) (dt_pool_value td) (wt_pool_value tw)
               (added_long rd td * pr_min (px_long ps) + added_short rd td * pr_min (px_short ps)) (credit_value ps td));
        try lia; try assumption.
    - intros S0. pose proof (ds_first_no_funded0 S0) as F0. rewrite S0 in *.
      assert (wt_mtv tw <= wt_pool_value tw).
      { clear - W7 W5. nia. }
      unfold X in *. lia.
  Qed.
End P.
