(* C06 — pool value of a market without open positions, and how it moves under deposits / withdrawals. *)
From GV Require Import lib.Base lib.DivLemmas C01.Model C01.Proofs MK.Market MK.Swap MK.Liquidity
  MK.MarketProofs MK.SwapProofs MK.LiquidityProofs.
From GV Require Import C06.Proofs.
Open Scope Z_scope.
Ltac Zify.zify_post_hook ::= Z.div_mod_to_equations.

(* no open interest (usd and tokens, both sides) and nothing borrowed *)
Definition no_oi (s : mstate) : Prop :=
  oi_long s = mkPool 0 0 /\ oi_short s = mkPool 0 0 /\ oit_long s = mkPool 0 0 /\ oit_short s = mkPool 0 0 /\
  total_borrowing s = mkPool 0 0.

Lemma no_oi_same_rest a b : same_rest a b -> no_oi a -> no_oi b.
Proof. unfold same_rest, no_oi. intuition congruence. Qed.

Section P.
  Variable w : Z.
  Hypothesis Hw : 1 <= w.
  Variable unit : Z.
  Hypothesis Hunit : 0 < unit.
  Variable cfg : config.

  Let P2 : 0 < 2 ^ w. Proof. apply pow2_pos; lia. Qed.

  Lemma chk_u_0 : chk_u w 0 = Some 0.
  Proof. unfold chk_u, in_u. replace (0 <=? 0) with true by reflexivity. replace (0 <? 2 ^ w) with true by lia. reflexivity. Qed.

  Lemma oi_amount_no_oi s il : no_oi s -> oi_amount w s il = Ok 0.
  Proof. intros (A & B & _). unfold oi_amount, merged. destruct il; rewrite ?A, ?B; cbn; unfold uadd; cbn; rewrite chk_u_0; reflexivity. Qed.
  Lemma oit_amount_no_oi s il : no_oi s -> oit_amount w s il = Ok 0.
  Proof. intros (_ & _ & A & B & _). unfold oit_amount, merged. destruct il; rewrite ?A, ?B; cbn; unfold uadd; cbn; rewrite chk_u_0; reflexivity. Qed.

  Lemma pnl_no_oi s index il mx : no_oi s -> pnl w s index il mx = Ok 0.
  Proof. intros H. unfold pnl. rewrite oi_amount_no_oi, oit_amount_no_oi by assumption. reflexivity. Qed.

  Lemma cap_pnl_zero il pv k : cap_pnl w unit cfg il 0 pv k = Ok 0.
  Proof. reflexivity. Qed.

  Lemma reserved_value_no_oi s index il : no_oi s -> reserved_value w s index il = Ok 0.
  Proof.
    intros H. unfold reserved_value. destruct il.
    - rewrite oit_amount_no_oi by assumption. cbn. unfold umul. cbn. rewrite chk_u_0. reflexivity.
    - apply oi_amount_no_oi; assumption.
  Qed.

  Lemma tpbf_no_oi s ps il x : no_oi s -> total_pending_borrowing_fees w unit cfg s ps il = Ok x -> x = 0.
  Proof.
    intros H E. pose proof H as (_ & _ & _ & _ & TB). unfold total_pending_borrowing_fees in E.
    rewrite oi_amount_no_oi in E by assumption. cbn [rbind] in E. rinv E.
    apply obind_some in E. destruct E as (t & E1 & E2).
    app apply_factor_zero E1. subst t. rewrite TB in E2. apply usub_some in E2. destruct il; cbn in E2; lia.
  Qed.

  (* value of the position-impact pool that is deducted from the pool value *)
  Definition impact_next (s : mstate) : res (Z * Z) := pending_impact_distribution w unit cfg s (passed s (clk_impact s)).

  Lemma impact_next_same a b : same_rest a b -> impact_next a = impact_next b.
  Proof.
    unfold same_rest, impact_next, pending_impact_distribution, passed.
    intros (_ & _ & _ & _ & _ & _ & PI & _ & _ & _ & _ & _ & _ & _ & _ & _ & N & CI & _). rewrite PI, N, CI. reflexivity.
  Qed.

  Lemma impact_next_nonneg s d n : impact_next s = Ok (d, n) -> 0 <= p_long (position_impact s) -> 0 <= n.
  Proof.
    unfold impact_next, pending_impact_distribution. intros H Hp. rinv H.
    - injection H as _ <-. exact Hp.
    - injection H as _ <-. apply usub_some in E1. lia.
  Qed.

  (* pool value without open positions = liquidity value - impact pool value *)
  Lemma pool_value_no_oi s ps k mx v : no_oi s -> pool_value w unit cfg s ps k mx = Ok v ->
    exists d n, impact_next s = Ok (d, n) /\
      v = p_long (primary s) * pick (px_long ps) mx + p_short (primary s) * pick (px_short ps) mx
          - n * pick (px_index ps) (negb mx).
  Proof.
    intros H E. unfold pool_value in E.
    rinv E.
    repeat match goal with T : pnl _ _ _ _ _ = Ok _ |- _ => rewrite pnl_no_oi in T by assumption; injection T as <- end.
    repeat match goal with T : cap_pnl _ _ _ _ 0 _ _ = Ok _ |- _ => rewrite cap_pnl_zero in T; injection T as <- end.
    repeat match goal with T : total_pending_borrowing_fees _ _ _ _ _ _ = Ok _ |- _ => apply (tpbf_no_oi _ _ _ _ H) in T; subst end.
    unfold side_value in *. cbn [pamount side_price] in *.
    repeat match goal with
           | T : of_opt _ _ = Ok _ |- _ => apply of_opt_ok in T
           | T : umul _ _ _ = Some _ |- _ => apply umul_some in T; destruct T as [? ->]
           | T : uadd _ _ _ = Some _ |- _ => apply uadd_some in T; destruct T as [? ->]
           | T : sadd _ _ _ = Some _ |- _ => apply sadd_some in T; destruct T as [? ->]
           | T : ssub _ _ _ = Some _ |- _ => apply ssub_some in T; destruct T as [? ->]
           | T : to_sig _ _ = Ok _ |- _ => app to_sig_ok T; destruct T as [-> ?]
           end.
    match goal with T : obind _ _ = Some _ |- _ => apply obind_some in T; destruct T as (f & _ & T); app apply_factor_zero T; subst end.
    match goal with T : pending_impact_distribution _ _ _ _ _ = Ok ?p |- _ => destruct p as [d n]; exists d, n; cbn [snd] in *; split; [exact T|] end. lia.
  Qed.

  (* deposit direction: the minimised value after adding tokens is at most the maximised value before
     plus the added tokens at minimum prices *)
  Lemma pool_value_growth_no_oi s s1 ps P0 P1 dl ds :
    no_oi s -> same_rest s s1 -> 0 <= p_long (position_impact s) ->
    p_long (primary s1) = p_long (primary s) + dl -> p_short (primary s1) = p_short (primary s) + ds ->
    0 <= p_long (primary s) -> 0 <= p_short (primary s) ->
    ordered (px_index ps) -> ordered (px_long ps) -> ordered (px_short ps) ->
    pool_value w unit cfg s ps MaxAfterDeposit true = Ok P0 ->
    pool_value w unit cfg s1 ps MaxAfterWithdrawal false = Ok P1 ->
    P1 <= P0 + dl * pr_min (px_long ps) + ds * pr_min (px_short ps).
  Proof.
    intros H R Hpi EL ES L0 S0 Oi Ol Os E0 E1. unfold ordered in *.
    apply (pool_value_no_oi _ _ _ _ _ H) in E0. apply (pool_value_no_oi _ _ _ _ _ (no_oi_same_rest _ _ R H)) in E1.
    destruct E0 as (d0 & n0 & I0 & ->). destruct E1 as (d1 & n1 & I1 & ->).
    rewrite <- (impact_next_same _ _ R) in I1. rewrite I0 in I1. injection I1 as <- <-.
    pose proof (impact_next_nonneg _ _ _ I0 Hpi). cbn [pick negb]. rewrite EL, ES. nia.
  Qed.

  (* same valuation mode before and after: the pool value moves exactly with the liquidity *)
  Lemma pool_value_shift_no_oi s s1 ps k mx P0 P1 :
    no_oi s -> same_rest s s1 ->
    pool_value w unit cfg s ps k mx = Ok P0 -> pool_value w unit cfg s1 ps k mx = Ok P1 ->
    P1 = P0 + (p_long (primary s1) - p_long (primary s)) * pick (px_long ps) mx
            + (p_short (primary s1) - p_short (primary s)) * pick (px_short ps) mx.
  Proof.
    intros H R E0 E1.
    apply (pool_value_no_oi _ _ _ _ _ H) in E0. apply (pool_value_no_oi _ _ _ _ _ (no_oi_same_rest _ _ R H)) in E1.
    destruct E0 as (d0 & n0 & I0 & ->). destruct E1 as (d1 & n1 & I1 & ->).
    rewrite <- (impact_next_same _ _ R) in I1. rewrite I0 in I1. injection I1 as <- <-. lia.
  Qed.
End P.
