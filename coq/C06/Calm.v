(* C06 — markets WITH open interest whose borrowing fees are accrued (borrowing clock = now, as the
   store's pre_execute guarantees) and whose positive pnl stays within the pnl caps: the pool value
   moves exactly with the liquidity, so the round-trip and dilution hypotheses hold. *)
From GV Require Import lib.Base lib.DivLemmas C01.Model C01.Proofs MK.Market MK.Swap MK.Liquidity
  MK.MarketProofs MK.SwapProofs MK.LiquidityProofs.
From GV Require Import C06.Proofs C06.NoOI.
Open Scope Z_scope.
Ltac Zify.zify_post_hook ::= Z.div_mod_to_equations.

(* borrowing fees accrued up to now *)
Definition fresh (s : mstate) : Prop := passed s (clk_borrowing s) = 0.

Lemma fresh_same_rest a b : same_rest a b -> fresh a -> fresh b.
Proof.
  unfold same_rest, fresh, passed.
  intros (_ & _ & _ & _ & _ & _ & _ & _ & _ & _ & _ & _ & _ & _ & _ & _ & N & _ & CB & _). rewrite <- N, <- CB. auto.
Qed.

Section P.
  Variable w : Z.
  Hypothesis Hw : 1 <= w.
  Variable unit : Z.
  Hypothesis Hunit : 0 < unit.
  Variable cfg : config.

  (* ---------- decomposition of pool_value ---------- *)
  Lemma pool_value_decomp s ps k mx v : pool_value w unit cfg s ps k mx = Ok v ->
    exists bl bs tbp lp0 lp sp0 sp d n,
      total_pending_borrowing_fees w unit cfg s ps true = Ok bl /\
      total_pending_borrowing_fees w unit cfg s ps false = Ok bs /\
      (exists f, usub w unit (bp_receiver (c_borrowing cfg)) = Some f /\ apply_factor w unit (bl + bs) f = Some tbp) /\
      pnl w s (px_index ps) true (negb mx) = Ok lp0 /\
      cap_pnl w unit cfg true lp0 (p_long (primary s) * pick (px_long ps) mx) k = Ok lp /\
      pnl w s (px_index ps) false (negb mx) = Ok sp0 /\
      cap_pnl w unit cfg false sp0 (p_short (primary s) * pick (px_short ps) mx) k = Ok sp /\
      impact_next w unit cfg s = Ok (d, n) /\
      v = p_long (primary s) * pick (px_long ps) mx + p_short (primary s) * pick (px_short ps) mx
          + tbp - (lp + sp) - n * pick (px_index ps) (negb mx).
  Proof.
    intros E. unfold pool_value in E. rinv E.
    unfold side_value in *. cbn [pamount side_price] in *.
    repeat match goal with
           | T : of_opt _ _ = Ok _ |- _ => apply of_opt_ok in T
           | T : umul _ _ _ = Some _ |- _ => apply umul_some in T; destruct T as [? ->]
           | T : uadd _ _ _ = Some _ |- _ => apply uadd_some in T; destruct T as [? ->]
           | T : sadd _ _ _ = Some _ |- _ => apply sadd_some in T; destruct T as [? ->]
           | T : ssub _ _ _ = Some _ |- _ => apply ssub_some in T; destruct T as [? ->]
           | T : to_sig _ _ = Ok _ |- _ => app to_sig_ok T; destruct T as [-> ?]
           end.
    match goal with T : obind _ _ = Some ?t |- _ => apply obind_some in T; destruct T as (f & F1 & F2) end.
    match goal with T : pending_impact_distribution _ _ _ _ _ = Ok ?p |- _ => destruct p as [d n] end. cbn [snd] in *.
    repeat match goal with T : total_pending_borrowing_fees _ _ _ _ _ ?b = Ok ?x |- _ =>
      lazymatch b with true => rename T into TL | false => rename T into TS end end.
    repeat eexists; try eassumption; try lia.
  Qed.

  (* ---------- pending borrowing fees with an accrued clock do not depend on the liquidity ---------- *)
  Lemma tpbf_fresh_same a b ps il x y : same_rest a b -> fresh a ->
    total_pending_borrowing_fees w unit cfg a ps il = Ok x ->
    total_pending_borrowing_fees w unit cfg b ps il = Ok y -> x = y.
  Proof.
    intros R F Ea Eb. pose proof (fresh_same_rest _ _ R F) as Fb.
    unfold total_pending_borrowing_fees, next_cumulative_borrowing_factor in *. unfold fresh in *. rewrite F in Ea. rewrite Fb in Eb.
    assert (Hoi : oi_amount w a il = oi_amount w b il).
    { unfold oi_amount. destruct R as (_ & _ & O1 & O2 & _). rewrite O1, O2. reflexivity. }
    assert (Hbf : pamount (borrowing_factor a) il = pamount (borrowing_factor b) il).
    { destruct R as (_ & _ & _ & _ & _ & _ & _ & BF & _). rewrite BF. reflexivity. }
    assert (Htb : pamount (total_borrowing a) il = pamount (total_borrowing b) il).
    { destruct R as (_ & _ & _ & _ & _ & _ & _ & _ & _ & _ & _ & _ & _ & _ & _ & TB & _). rewrite TB. reflexivity. }
    rewrite Hoi, Hbf, Htb in Ea.
    rinv Ea. rinv Eb. rinv E0. rinv E2.
    repeat match goal with
           | T : umul _ _ 0 = Some _ |- _ => apply umul_some in T; destruct T as [_ ->]
           | T : uadd _ _ _ = Some _ |- _ => apply uadd_some in T; destruct T as [_ ->]
           end.
    injection E0 as <-. injection E2 as <-. cbn [fst] in *.
    rewrite !Z.mul_0_r, !Z.add_0_r in *. injection E1 as ->. rewrite Ea in Eb. congruence.
  Qed.

  (* ---------- pnl: independent of the liquidity, monotone in the index price ---------- *)
  Lemma pnl_same_rest a b index il mx : same_rest a b -> pnl w a index il mx = pnl w b index il mx.
  Proof.
    intros R. unfold same_rest in R. destruct R as (_ & _ & O1 & O2 & T1 & T2 & _). unfold pnl, oi_amount, oit_amount. rewrite O1, O2, T1, T2. reflexivity.
  Qed.

  (* minimised pnl (the one pool_value subtracts when maximising) <= maximised pnl *)
  Lemma pnl_min_le_max (s : mstate) (index : price) (il : bool) lo hi : pr_min index <= pr_max index ->
    0 <= p_long (if il then oit_long s else oit_short s) -> 0 <= p_short (if il then oit_long s else oit_short s) ->
    pnl w s index il false = Ok lo -> pnl w s index il true = Ok hi -> lo <= hi.
  Proof.
    intros Ho T1 T2 El Eh. unfold pnl in *.
    destruct (oi_amount w s il) as [oi|]; cbn [rbind] in *; [|discriminate].
    destruct (oit_amount w s il) as [oit|] eqn:EO; cbn [rbind] in *; [|discriminate].
    assert (0 <= oit).
    { unfold oit_amount, merged in EO. apply of_opt_ok, uadd_some in EO. destruct il; lia. }
    destruct ((oi =? 0) && (oit =? 0)); [injection El as <-; injection Eh as <-; lia|].
    unfold pick_for_pnl in *. destruct il; cbn [xorb] in *; rinv El; rinv Eh;
      repeat match goal with
             | T : umul _ _ _ = Some _ |- _ => apply umul_some in T; destruct T as [_ ->]
             | T : ssub _ _ _ = Some _ |- _ => apply ssub_some in T; destruct T as [_ ->]
             | T : to_sig _ _ = Ok _ |- _ => app to_sig_ok T; destruct T as [-> _]
             end; nia.
  Qed.

  (* ---------- pnl caps ---------- *)
  Lemma cap_pnl_le il p pv k c : cap_pnl w unit cfg il p pv k = Ok c -> c <= p.
  Proof.
    unfold cap_pnl. intros H. destruct (0 <? p) eqn:P; [|injection H as <-; lia].
    rinv H. app to_sig_ok E0. destruct E0 as [-> _]. destruct (x <? p) eqn:C; injection H as <-; lia.
  Qed.

  (* the cap does not bind when the pnl is within factor * pool value *)
  Lemma cap_pnl_slack il p pv k c : 0 <= pv -> 0 <= pnl_factor_config cfg k ->
    cap_pnl w unit cfg il p pv k = Ok c -> (0 < p -> p * unit <= pv * pnl_factor_config cfg k) -> c = p.
  Proof.
    unfold cap_pnl. intros Hpv Hf H S. destruct (0 <? p) eqn:P; [|injection H as <-; lia].
    rinv H. app to_sig_ok E0. destruct E0 as [-> _].
    unfold apply_factor in E. app mul_div_floor E. specialize (S ltac:(lia)).
    destruct (x <? p) eqn:C; injection H as <-; [|lia]. nia.
  Qed.

  (* ---------- calm markets ---------- *)
  (* every positive pnl (either valuation) of each side is within [f] times that side's
     minimised liquidity value: no pnl cap with factor >= f binds *)
  Definition pnl_within (s : mstate) (ps : prices) (f : Z) : Prop :=
    forall il mxp p, pnl w s (px_index ps) il mxp = Ok p -> 0 < p ->
      p * unit <= pamount (primary s) il * pr_min (side_price ps il) * f.

  Definition cap_floor : Z := Z.min (pf_deposit (c_max_pnl cfg)) (pf_withdrawal (c_max_pnl cfg)).

  Record calm (s : mstate) (ps : prices) : Prop := {
    calm_fresh : fresh s;
    calm_pnl : pnl_within s ps cap_floor;
    calm_floor : 0 <= cap_floor;
    calm_liq : 0 <= p_long (primary s) /\ 0 <= p_short (primary s);
    calm_oit : 0 <= p_long (oit_long s) /\ 0 <= p_short (oit_long s) /\ 0 <= p_long (oit_short s) /\ 0 <= p_short (oit_short s);
    calm_pi : 0 <= p_long (position_impact s)
  }.

  Definition lp_kind (k : pnl_kind) : Prop := k = MaxAfterDeposit \/ k = MaxAfterWithdrawal.

  Lemma cap_floor_le k : lp_kind k -> cap_floor <= pnl_factor_config cfg k.
  Proof. unfold cap_floor. intros [->| ->]; cbn; lia. Qed.

  (* pool value of a calm market: the caps disappear *)
  Lemma pool_value_calm s ps k mx v : calm s ps -> lp_kind k -> ordered_prices ps -> wf_prices w ps ->
    pool_value w unit cfg s ps k mx = Ok v ->
    exists bl bs tbp lp0 sp0 d n,
      total_pending_borrowing_fees w unit cfg s ps true = Ok bl /\
      total_pending_borrowing_fees w unit cfg s ps false = Ok bs /\
      (exists f, usub w unit (bp_receiver (c_borrowing cfg)) = Some f /\ apply_factor w unit (bl + bs) f = Some tbp) /\
      pnl w s (px_index ps) true (negb mx) = Ok lp0 /\
      pnl w s (px_index ps) false (negb mx) = Ok sp0 /\
      impact_next w unit cfg s = Ok (d, n) /\
      v = p_long (primary s) * pick (px_long ps) mx + p_short (primary s) * pick (px_short ps) mx
          + tbp - (lp0 + sp0) - n * pick (px_index ps) (negb mx).
  Proof.
    intros C K (Oi & Ol & Os) Hps E. destruct C as [Cf Cp C0 [CL CS] _ _].
    pose proof Hps as (_ & [[PL0 _] [PL1 _]] & [[PS0 _] [PS1 _]]). unfold ordered in *.
    apply pool_value_decomp in E.
    destruct E as (bl & bs & tbp & lp0 & lp & sp0 & sp & d & n & E1 & E2 & E3 & E4 & E5 & E6 & E7 & E8 & ->).
    pose proof (cap_floor_le k K) as Kf.
    assert (lp = lp0).
    { eapply cap_pnl_slack in E5; [exact E5| | |].
      - destruct mx; cbn [pick]; nia.
      - lia.
      - intros P. pose proof (Cp true _ _ E4 P) as B. cbn [pamount side_price] in B.
        assert (p_long (primary s) * pr_min (px_long ps) <= p_long (primary s) * pick (px_long ps) mx) by (destruct mx; cbn [pick]; nia).
        nia. }
    assert (sp = sp0).
    { eapply cap_pnl_slack in E7; [exact E7| | |].
      - destruct mx; cbn [pick]; nia.
      - lia.
      - intros P. pose proof (Cp false _ _ E6 P) as B. cbn [pamount side_price] in B.
        assert (p_short (primary s) * pr_min (px_short ps) <= p_short (primary s) * pick (px_short ps) mx) by (destruct mx; cbn [pick]; nia).
        nia. }
    subst. exists bl, bs, tbp, lp0, sp0, d, n. repeat split; try assumption.
  Qed.

  (* shared part of two calm decompositions over states that differ only in the liquidity *)
  Lemma calm_same_parts a b ps (fa fb : Z) bla bsa tbpa blb bsb tbpb :
    same_rest a b -> fresh a ->
    total_pending_borrowing_fees w unit cfg a ps true = Ok bla -> total_pending_borrowing_fees w unit cfg a ps false = Ok bsa ->
    (exists f, usub w unit (bp_receiver (c_borrowing cfg)) = Some f /\ apply_factor w unit (bla + bsa) f = Some tbpa) ->
    total_pending_borrowing_fees w unit cfg b ps true = Ok blb -> total_pending_borrowing_fees w unit cfg b ps false = Ok bsb ->
    (exists f, usub w unit (bp_receiver (c_borrowing cfg)) = Some f /\ apply_factor w unit (blb + bsb) f = Some tbpb) ->
    tbpa = tbpb.
  Proof.
    intros R F A1 A2 (f1 & U1 & T1) B1 B2 (f2 & U2 & T2).
    pose proof (tpbf_fresh_same _ _ _ _ _ _ R F A1 B1). pose proof (tpbf_fresh_same _ _ _ _ _ _ R F A2 B2). subst.
    rewrite U1 in U2. injection U2 as <-. rewrite T1 in T2. congruence.
  Qed.

  (* same valuation mode: the pool value moves exactly with the liquidity *)
  Lemma pool_value_shift_calm s s1 ps k mx P0 P1 :
    calm s ps -> calm s1 ps -> same_rest s s1 -> lp_kind k -> ordered_prices ps -> wf_prices w ps ->
    pool_value w unit cfg s ps k mx = Ok P0 -> pool_value w unit cfg s1 ps k mx = Ok P1 ->
    P1 = P0 + (p_long (primary s1) - p_long (primary s)) * pick (px_long ps) mx
            + (p_short (primary s1) - p_short (primary s)) * pick (px_short ps) mx.
  Proof.
    intros C0 C1 R K O Hps E0 E1.
    eapply pool_value_calm in E0; try eassumption. eapply pool_value_calm in E1; try eassumption.
    destruct E0 as (bl & bs & tbp & lp0 & sp0 & d & n & A1 & A2 & A3 & A4 & A5 & A6 & ->).
    destruct E1 as (bl' & bs' & tbp' & lp0' & sp0' & d' & n' & B1 & B2 & B3 & B4 & B5 & B6 & ->).
    pose proof (calm_same_parts _ _ _ 0 0 _ _ _ _ _ _ R (calm_fresh _ _ C0) A1 A2 A3 B1 B2 B3). subst tbp'.
    rewrite <- (pnl_same_rest _ _ _ _ _ R) in B4. rewrite <- (pnl_same_rest _ _ _ _ _ R) in B5. rewrite A4 in B4. rewrite A5 in B5. injection B4 as <-. injection B5 as <-.
    assert (X : impact_next w unit cfg s = impact_next w unit cfg s1) by (eapply impact_next_same; eassumption).
    rewrite <- X in B6. rewrite A6 in B6. injection B6 as <- <-. lia.
  Qed.

  (* deposit valuation before vs withdrawal valuation after adding tokens *)
  Lemma pool_value_growth_calm s s1 ps P0 P1 dl ds :
    calm s ps -> calm s1 ps -> same_rest s s1 -> ordered_prices ps -> wf_prices w ps ->
    p_long (primary s1) = p_long (primary s) + dl -> p_short (primary s1) = p_short (primary s) + ds ->
    pool_value w unit cfg s ps MaxAfterDeposit true = Ok P0 ->
    pool_value w unit cfg s1 ps MaxAfterWithdrawal false = Ok P1 ->
    P1 <= P0 + dl * pr_min (px_long ps) + ds * pr_min (px_short ps).
  Proof.
    intros C0 C1 R O Hps EL ES E0 E1. pose proof O as (Oi & Ol & Os). unfold ordered in *.
    eapply pool_value_calm in E0; try eassumption; [|left; reflexivity]. eapply pool_value_calm in E1; try eassumption; [|right; reflexivity].
    destruct E0 as (bl & bs & tbp & lp0 & sp0 & d & n & A1 & A2 & A3 & A4 & A5 & A6 & ->).
    destruct E1 as (bl' & bs' & tbp' & lp0' & sp0' & d' & n' & B1 & B2 & B3 & B4 & B5 & B6 & ->).
    pose proof (calm_same_parts _ _ _ 0 0 _ _ _ _ _ _ R (calm_fresh _ _ C0) A1 A2 A3 B1 B2 B3). subst tbp'.
    rewrite <- (pnl_same_rest _ _ _ _ _ R) in B4. rewrite <- (pnl_same_rest _ _ _ _ _ R) in B5. cbn [negb] in *.
    destruct C0 as [_ _ _ [CL CS] (T1 & T2 & T3 & T4) Cpi].
    pose proof (pnl_min_le_max s (px_index ps) true _ _ Oi T1 T2 A4 B4).
    pose proof (pnl_min_le_max s (px_index ps) false _ _ Oi T3 T4 A5 B5).
    assert (X : impact_next w unit cfg s = impact_next w unit cfg s1) by (eapply impact_next_same; eassumption).
    rewrite <- X in B6. rewrite A6 in B6. injection B6 as <- <-.
    assert (0 <= n) by (eapply impact_next_nonneg; eassumption).
    cbn [pick]. rewrite EL, ES. nia.
  Qed.
End P.
