(* C06 — final lemmas: round trip, dilution, first deposit; refutation witnesses for the two known classes. *)
From GV Require Import lib.Base lib.DivLemmas C01.Model C01.Proofs MK.Market MK.Swap MK.Liquidity
  MK.MarketProofs MK.SwapProofs MK.LiquidityProofs MK.Examples.
From GV Require Import C06.Proofs C06.NoOI.
Open Scope Z_scope.
Ltac Zify.zify_post_hook ::= Z.div_mod_to_equations.


Section P.
  Variable w : Z.
  Hypothesis Hw : 1 <= w.
  Variable unit : Z.
  Hypothesis Hunit : 0 < unit.
  Variable cfg : config.

  Notation in_range := (in_range w).
  Notation wf_state := (wf_state w).
  Notation wf_prices := (wf_prices w).

  (* ---------- markets without open positions: the growth hypothesis holds ---------- *)
  Theorem round_trip_no_oi s l sh ps s1 rd td s2 rw tw :
    wf_state s -> wf_prices ps -> in_range l -> in_range sh -> 0 <= value_to_amount_divisor s ->
    0 <= p_long (position_impact s) -> no_oi s -> ordered_prices ps ->
    deposit_exec_trace w unit cfg s l sh ps = Ok (s1, rd, td) ->
    withdraw_exec_trace w unit cfg s1 (dr_minted rd) ps = Ok (s2, rw, tw) ->
    (0 < total_supply s -> out_value ps rw <= in_value l sh ps + funded_value ps td) /\
    (total_supply s = 0 -> out_value ps rw <= in_value l sh ps + dt_pool_value td).
  Proof.
    intros Hs Hps Hl Hsh Hdv Hpi Hno (Oi & Ol & Os) HD HW.
    eapply round_trip_bound with (s1 := s1) (rd := rd) (td := td) (s2 := s2) (tw := tw); try eassumption.
    pose proof HD as HD'. app deposit_summary HD'. destruct HD' as [dpl dps dsup drest dwf dpv dsl dss dnn dfl dfs dil dis dfair dfnf dfirst].
    assert (Hm : in_range (dr_minted rd)).
    { destruct dwf as (R & _). unfold MarketProofs.in_range in *. destruct Hs as (R0 & _). unfold MarketProofs.in_range in R0.
      destruct dnn as (_ & _ & _ & _ & _ & _ & _ & _ & _ & _ & ?). lia. }
    pose proof HW as HW'. app withdraw_exec_trace_ok HW'. destruct HW' as [wdhl wdhs wdsup wdam wdrest wdvi wdwf wdpv wdmtv wdmn wdgv wdls wdss wdnn wdpl wdps wdimp wdfl wdfs].
    destruct dpv as [E0 _]. destruct wdpv as [E1 _].
    destruct Hs as (_ & [[L0 _] [S0 _]] & _).
    assert (G : wt_pool_value tw <= dt_pool_value td + added_long rd td * pr_min (px_long ps) + added_short rd td * pr_min (px_short ps)).
    { eapply pool_value_growth_no_oi with (unit := unit) (cfg := cfg) (s := s) (s1 := s1); eassumption. }
    lia.
  Qed.

  (* ---------- no dilution ---------- *)
  (* deposit, any market: if the (deposit-mode) pool value grows by at least the credited value,
     the value of one market token does not fall *)
  Theorem deposit_no_dilution s l sh ps s1 rd td P1 :
    wf_state s -> wf_prices ps -> in_range l -> in_range sh -> 0 <= value_to_amount_divisor s ->
    deposit_exec_trace w unit cfg s l sh ps = Ok (s1, rd, td) -> 0 < total_supply s ->
    dt_pool_value td + credit_value ps td <= P1 ->
    dt_pool_value td * total_supply s1 <= P1 * total_supply s.
  Proof.
    intros Hs Hps Hl Hsh Hdv HD Spos G. app deposit_summary HD. destruct HD as [dpl dps dsup drest dwf dpv dsl dss dnn dfl dfs dil dis dfair dfnf dfirst].
    destruct (dfair Spos) as (P0 & F1 & _). rewrite dsup.
    destruct dnn as (_ & _ & _ & _ & _ & _ & _ & _ & _ & _ & Mn).
    eapply dilution_arith; try eassumption; lia.
  Qed.

  Theorem deposit_no_dilution_no_oi s l sh ps s1 rd td P1 :
    wf_state s -> wf_prices ps -> in_range l -> in_range sh -> 0 <= value_to_amount_divisor s ->
    no_oi s -> ordered_prices ps ->
    deposit_exec_trace w unit cfg s l sh ps = Ok (s1, rd, td) -> 0 < total_supply s ->
    pool_value w unit cfg s1 ps MaxAfterDeposit true = Ok P1 ->
    dt_pool_value td * total_supply s1 <= P1 * total_supply s.
  Proof.
    intros Hs Hps Hl Hsh Hdv Hno (Oi & Ol & Os) HD Spos E1.
    eapply deposit_no_dilution with (l := l) (sh := sh) (rd := rd) (td := td) (ps := ps); try eassumption.
    app deposit_summary HD. destruct HD as [dpl dps dsup drest dwf dpv dsl dss dnn dfl dfs dil dis dfair dfnf dfirst]. destruct dpv as [E0 _].
    assert (X : P1 = dt_pool_value td + (p_long (primary s1) - p_long (primary s)) * pick (px_long ps) true
                     + (p_short (primary s1) - p_short (primary s)) * pick (px_short ps) true)
      by (eapply pool_value_shift_no_oi with (unit := unit) (cfg := cfg) (s := s) (s1 := s1); eassumption).
    rewrite X.
    rewrite dpl, dps. cbn [pick].
    destruct dnn as (n1 & n2 & n3 & n4 & n5 & n6 & n7 & n8 & _).
    pose proof Hps as (_ & [[PL0 _] [PL1 _]] & [[PS0 _] [PS1 _]]). unfold ordered in *.
    unfold credit_value, funded_value, added_long, added_short. nia.
  Qed.

  (* withdrawal, any market *)
  Theorem withdraw_no_dilution s a ps s2 rw tw P2 :
    wf_state s -> wf_prices ps -> in_range a ->
    withdraw_exec_trace w unit cfg s a ps = Ok (s2, rw, tw) ->
    wt_pool_value tw - gross_value ps tw <= P2 ->
    wt_pool_value tw * total_supply s2 <= P2 * total_supply s.
  Proof.
    intros Hs Hps Ha HW G. pose proof HW as HW'. app withdraw_fair HW'. destruct HW' as (W1 & W2 & W3 & W4 & W5 & W6 & _).
    app withdraw_exec_trace_ok HW. destruct HW as [wdhl wdhs wdsup wdam wdrest wdvi wdwf wdpv wdmtv wdmn wdgv wdls wdss wdnn wdpl wdps wdimp wdfl wdfs]. rewrite wdsup.
    eapply wd_dilution_arith; try eassumption; lia.
  Qed.

  Theorem withdraw_no_dilution_no_oi s a ps s2 rw tw P2 :
    wf_state s -> wf_prices ps -> in_range a -> no_oi s -> ordered_prices ps ->
    withdraw_exec_trace w unit cfg s a ps = Ok (s2, rw, tw) ->
    pool_value w unit cfg s2 ps MaxAfterWithdrawal false = Ok P2 ->
    wt_pool_value tw * total_supply s2 <= P2 * total_supply s.
  Proof.
    intros Hs Hps Ha Hno (Oi & Ol & Os) HW E2.
    eapply withdraw_no_dilution with (a := a) (rw := rw) (tw := tw) (ps := ps); try eassumption.
    app withdraw_exec_trace_ok HW. destruct HW as [wdhl wdhs wdsup wdam wdrest wdvi wdwf wdpv wdmtv wdmn wdgv wdls wdss wdnn wdpl wdps wdimp wdfl wdfs]. destruct wdpv as [E1 _].
    assert (X : P2 = wt_pool_value tw + (p_long (primary s2) - p_long (primary s)) * pick (px_long ps) false
                     + (p_short (primary s2) - p_short (primary s)) * pick (px_short ps) false)
      by (eapply pool_value_shift_no_oi with (unit := unit) (cfg := cfg) (s := s) (s1 := s2); eassumption).
    rewrite X.
    rewrite wdpl, wdps. cbn [pick]. unfold gross_value.
    rewrite <- wdls, <- wdss.
    destruct wdnn as (N1 & N2 & N3 & N4 & N5 & N6).
    pose proof Hps as (_ & [[PL0 _] [PL1 _]] & [[PS0 _] [PS1 _]]). unfold ordered in *. nia.
  Qed.
End P.

(* ---------- the two known classes are real: concrete round trips on the default u64/9 market
   with zero swap fees ---------- *)
Definition cfg64_nofee : config :=
  mkConfig (c_swap_impact cfg64) (mkFP 0 0 0 0)
    (c_position cfg64) (c_position_impact cfg64) (c_order_fee cfg64) (c_distribution cfg64)
    (c_borrowing cfg64) (c_kink cfg64) (c_funding cfg64) (c_reserve_factor cfg64) (c_oi_reserve_factor cfg64)
    (c_max_pnl cfg64) (c_min_pnl_after_adl cfg64) (c_max_pool_amount cfg64) (c_max_pool_value_for_deposit cfg64)
    (c_max_open_interest cfg64) (c_min_collateral_factor_for_oi cfg64) (c_ignore_oi_for_usage cfg64) (c_liquidation cfg64).
Definition ps120 : prices := mkPrices (mkPrice 120 120) (mkPrice 120 120) (mkPrice 1 1).

(* state after LP1 deposited 10^9 long tokens at 120 into the empty market (DESIGN.md section 7) *)
Definition rt_state1 : mstate :=
  match deposit_exec 64 (10 ^ 9) cfg64_nofee (ex_state 0 pool0 pool0 pool0) 1000000000 0 ps120 with
  | Ok r => fst r | Err _ => ex_state 0 pool0 pool0 pool0 end.

(* class 1, FundedPositiveImpact: LP2 deposits 6*10^10 short tokens (value 6*10^10), earns positive
   impact funded by the long impact pool, withdraws everything: 60000043120 > 60000000000 *)
Lemma funded_positive_impact_refuted :
  exists s1 rd td s2 rw tw,
    deposit_exec_trace 64 (10 ^ 9) cfg64_nofee rt_state1 0 60000000000 ps120 = Ok (s1, rd, td) /\
    withdraw_exec_trace 64 (10 ^ 9) cfg64_nofee s1 (dr_minted rd) ps120 = Ok (s2, rw, tw) /\
    0 < total_supply rt_state1 /\ no_oi rt_state1 /\
    funded_value ps120 td = 43200 /\
    in_value 0 60000000000 ps120 = 60000000000 /\ out_value ps120 rw = 60000043120 /\
    ~ out_value ps120 rw <= in_value 0 60000000000 ps120.
Proof.
  eexists. eexists. eexists. eexists. eexists. eexists.
  split; [vm_compute; reflexivity|]. split; [vm_compute; reflexivity|].
  vm_compute. repeat split; try reflexivity. intros H. apply H. reflexivity.
Qed.

(* class 2, ResidualValueAtZeroSupply: a market whose supply is zero but which still holds
   10^6 long tokens (e.g. fees left behind after every LP withdrew): the next depositor of 1000
   short tokens withdraws the residue as well *)
Definition residual_state : mstate := ex_state 0 (mkPool 1000000 0) pool0 pool0.
Lemma residual_value_refuted :
  exists s1 rd td s2 rw tw,
    deposit_exec_trace 64 (10 ^ 9) cfg64_nofee residual_state 0 1000 ps120 = Ok (s1, rd, td) /\
    withdraw_exec_trace 64 (10 ^ 9) cfg64_nofee s1 (dr_minted rd) ps120 = Ok (s2, rw, tw) /\
    total_supply residual_state = 0 /\ dt_pool_value td = 120000000 /\ funded_value ps120 td = 0 /\
    in_value 0 1000 ps120 = 1000 /\ out_value ps120 rw = 120001000 /\
    ~ out_value ps120 rw <= in_value 0 1000 ps120.
Proof.
  eexists. eexists. eexists. eexists. eexists. eexists.
  split; [vm_compute; reflexivity|]. split; [vm_compute; reflexivity|].
  vm_compute. repeat split; try reflexivity. intros H. apply H. reflexivity.
Qed.

(* class 3, StalePendingBorrowingFees (dilution clause of a deposit): u128/20 market with short
   open interest whose borrowing clock is 50000 s behind; a deposit enlarges the pool, lowers
   the utilisation and with it the pending-fee estimate inside pool_value: the value per market
   token falls although the deposit itself is priced fairly.  State and request are the ones
   the c06 driver produced on vmarket::TestMarket (seed 31). *)
Definition cfg128_w3 : config :=
  mkConfig (mkIP 200000000000000000000 0 0) (mkFP 0 0 0 0)
    (mkPP 100000000000000000000 100000000000000000000 1000000000000000000 None 500000000000000000 500000000000000000 250000000000000000)
    (mkIP 200000000000000000000 100000000000 200000000000) (mkFP 50000000000000000 70000000000000000 37000000000000000000 0)
    (mkDP 100000000000000000000 1000000000)
    (mkBP 37000000000000000000 100000000000000000000 100000000000000000000 2800000000000 2800000000000 true)
    (mkKP 75000000000000000000 1902587519025 4756468797564)
    (mkFuP 100000000000000000000 2000000000000 1000000000000 0 1000000000000 100000000000 5000000000000000000 0)
    100000000000000000000 100000000000000000000
    (mkPnlF 60000000000000000000 30000000000000000000 50000000000000000000 50000000000000000000) 0
    100000000000000000000000000000 10000000000000000000000 340282366920938463463374607431768211455 6024096385 false
    (mkLQ 200000000000000000 37000000000000000000).
Definition state_w3 : mstate :=
  mkState 1000001575 100000000000 10000000000 (mkPool 0 500000788) pool0 pool0 pool0
    (mkPool 90000141840000000000 0) pool0 (mkPool 7500 0) pool0 pool0 0 pool0 pool0 pool0 pool0 pool0 pool0 pool0
    1000000 None (Some 950000) None None None.
Definition prices_w3 : prices :=
  mkPrices (mkPrice 6000000000000003 6000000000000003) (mkPrice 6000000000000003 6000000000000003)
           (mkPrice 200000000000 200000000000).

Lemma stale_pending_borrowing_refuted :
  exists s1 rd td P1,
    deposit_exec_trace 128 (10 ^ 20) cfg128_w3 state_w3 1 2500787 prices_w3 = Ok (s1, rd, td) /\
    pool_value 128 (10 ^ 20) cfg128_w3 s1 prices_w3 MaxAfterDeposit true = Ok P1 /\
    0 < total_supply state_w3 /\ passed state_w3 (clk_borrowing state_w3) = 50000 /\
    dt_pool_value td = 55097104954108197016 /\ P1 = 55601571219347818588 /\
    credit_value prices_w3 td = 506157400000000003 /\
    (* the pool value grows by less than the credited value ... *)
    P1 - dt_pool_value td < credit_value prices_w3 td /\
    (* ... and the value per token falls *)
    ~ dt_pool_value td * total_supply s1 <= P1 * total_supply state_w3.
Proof.
  eexists. eexists. eexists. eexists.
  split; [vm_compute; reflexivity|]. split; [vm_compute; reflexivity|].
  vm_compute. repeat split; try reflexivity. intros H. apply H. reflexivity.
Qed.
