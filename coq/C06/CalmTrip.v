(* C06 — round trip and dilution for calm markets with open interest. *)
From GV Require Import lib.Base lib.DivLemmas C01.Model C01.Proofs MK.Market MK.Swap MK.Liquidity
  MK.MarketProofs MK.SwapProofs MK.LiquidityProofs.
From GV Require Import C06.Proofs C06.NoOI C06.RoundTrip C06.Calm.
Open Scope Z_scope.
Ltac Zify.zify_post_hook ::= Z.div_mod_to_equations.

Section P.
  Variable w : Z.
  Hypothesis Hw : 1 <= w.
  Variable unit : Z.
  Hypothesis Hunit : 0 < unit.
  Variable cfg : config.

  (* adding liquidity keeps a market calm *)
  Lemma calm_grow s s1 ps : calm w unit cfg s ps -> same_rest s s1 -> wf_prices w ps ->
    p_long (primary s) <= p_long (primary s1) -> p_short (primary s) <= p_short (primary s1) ->
    calm w unit cfg s1 ps.
  Proof.
    intros [Cf Cp C0 [CL CS] Co Cpi] R Hps GL GS.
    pose proof Hps as (_ & [[PL0 _] [PL1 _]] & [[PS0 _] [PS1 _]]).
    pose proof R as R'. unfold same_rest in R'.
    destruct R' as (_ & _ & _ & _ & T1 & T2 & PI & _).
    constructor.
    - eapply fresh_same_rest; eassumption.
    - intros il mxp p E P. rewrite <- (pnl_same_rest w _ _ _ _ _ R) in E. specialize (Cp il mxp p E P).
      destruct il; cbn [pamount side_price] in *.
      + assert (p_long (primary s) * pr_min (px_long ps) <= p_long (primary s1) * pr_min (px_long ps)) by nia.
        assert (p_long (primary s) * pr_min (px_long ps) * cap_floor cfg <= p_long (primary s1) * pr_min (px_long ps) * cap_floor cfg) by nia. lia.
      + assert (p_short (primary s) * pr_min (px_short ps) <= p_short (primary s1) * pr_min (px_short ps)) by nia.
        assert (p_short (primary s) * pr_min (px_short ps) * cap_floor cfg <= p_short (primary s1) * pr_min (px_short ps) * cap_floor cfg) by nia. lia.
    - assumption.
    - lia.
    - rewrite <- T1, <- T2. assumption.
    - rewrite <- PI. assumption.
  Qed.

  Theorem round_trip_calm s l sh ps s1 rd td s2 rw tw :
    wf_state w s -> wf_prices w ps -> in_range w l -> in_range w sh -> 0 <= value_to_amount_divisor s ->
    calm w unit cfg s ps -> ordered_prices ps ->
    deposit_exec_trace w unit cfg s l sh ps = Ok (s1, rd, td) ->
    withdraw_exec_trace w unit cfg s1 (dr_minted rd) ps = Ok (s2, rw, tw) ->
    (0 < total_supply s -> out_value ps rw <= in_value l sh ps + funded_value ps td) /\
    (total_supply s = 0 -> out_value ps rw <= in_value l sh ps + dt_pool_value td).
  Proof.
    intros Hs Hps Hl Hsh Hdv Hc Ho HD HW. pose proof Ho as (Oi & Ol & Os).
    eapply round_trip_bound with (w := w) (unit := unit) (cfg := cfg) (s1 := s1) (rd := rd) (td := td) (s2 := s2) (tw := tw); try eassumption.
    pose proof HD as HD'. eapply deposit_summary with (w := w) (unit := unit) (cfg := cfg) in HD'; try eassumption.
    destruct HD' as [dpl dps dsup drest dwf dpv dsl dss dnn dfl dfs dil dis dfair dfnf dfirst].
    assert (Hm : in_range w (dr_minted rd)).
    { destruct dwf as (R & _). unfold MarketProofs.in_range in *. destruct Hs as (R0 & _). unfold MarketProofs.in_range in R0.
      destruct dnn as (_ & _ & _ & _ & _ & _ & _ & _ & _ & _ & ?). lia. }
    pose proof HW as HW'. eapply withdraw_exec_trace_ok with (w := w) (unit := unit) (cfg := cfg) in HW'; try eassumption.
    destruct HW' as [wdhl wdhs wdsup wdam wdrest wdvi wdwf wdpv wdmtv wdmn wdgv wdls wdss wdnn wdpl wdps wdimp wdfl wdfs].
    destruct dpv as [E0 _]. destruct wdpv as [E1 _].
    destruct dnn as (n1 & n2 & n3 & n4 & n5 & n6 & n7 & n8 & _).
    assert (Hc1 : calm w unit cfg s1 ps).
    { eapply calm_grow; try eassumption; unfold added_long, added_short in *; lia. }
    eapply pool_value_growth_calm with (unit := unit) (cfg := cfg) (s := s) (s1 := s1); eassumption.
  Qed.

  Theorem deposit_no_dilution_calm s l sh ps s1 rd td P1 :
    wf_state w s -> wf_prices w ps -> in_range w l -> in_range w sh -> 0 <= value_to_amount_divisor s ->
    calm w unit cfg s ps -> ordered_prices ps ->
    deposit_exec_trace w unit cfg s l sh ps = Ok (s1, rd, td) -> 0 < total_supply s ->
    pool_value w unit cfg s1 ps MaxAfterDeposit true = Ok P1 ->
    dt_pool_value td * total_supply s1 <= P1 * total_supply s.
  Proof.
    intros Hs Hps Hl Hsh Hdv Hc Ho HD Spos E1. pose proof Ho as (Oi & Ol & Os).
    eapply deposit_no_dilution with (w := w) (unit := unit) (cfg := cfg) (l := l) (sh := sh) (rd := rd) (td := td) (ps := ps); try eassumption.
    eapply deposit_summary with (w := w) (unit := unit) (cfg := cfg) in HD; try eassumption.
    destruct HD as [dpl dps dsup drest dwf dpv dsl dss dnn dfl dfs dil dis dfair dfnf dfirst]. destruct dpv as [E0 _].
    destruct dnn as (n1 & n2 & n3 & n4 & n5 & n6 & n7 & n8 & _).
    assert (Hc1 : calm w unit cfg s1 ps).
    { eapply calm_grow; try eassumption; unfold added_long, added_short in *; lia. }
    assert (X : P1 = dt_pool_value td + (p_long (primary s1) - p_long (primary s)) * pick (px_long ps) true
                     + (p_short (primary s1) - p_short (primary s)) * pick (px_short ps) true).
    { eapply pool_value_shift_calm with (unit := unit) (cfg := cfg) (s := s) (s1 := s1) (k := MaxAfterDeposit); try eassumption. left; reflexivity. }
    rewrite X, dpl, dps. cbn [pick].
    pose proof Hps as (_ & [[PL0 _] [PL1 _]] & [[PS0 _] [PS1 _]]). unfold ordered in *.
    unfold credit_value, funded_value, added_long, added_short. nia.
  Qed.

  (* withdrawal: the market must still be calm afterwards (what validate_max_pnl enforces up to rounding) *)
  Theorem withdraw_no_dilution_calm s a ps s2 rw tw P2 :
    wf_state w s -> wf_prices w ps -> in_range w a ->
    calm w unit cfg s ps -> calm w unit cfg s2 ps -> ordered_prices ps ->
    withdraw_exec_trace w unit cfg s a ps = Ok (s2, rw, tw) ->
    pool_value w unit cfg s2 ps MaxAfterWithdrawal false = Ok P2 ->
    wt_pool_value tw * total_supply s2 <= P2 * total_supply s.
  Proof.
    intros Hs Hps Ha Hc Hc2 Ho HW E2. pose proof Ho as (Oi & Ol & Os).
    eapply withdraw_no_dilution with (w := w) (unit := unit) (cfg := cfg) (a := a) (rw := rw) (tw := tw) (ps := ps); try eassumption.
    eapply withdraw_exec_trace_ok with (w := w) (unit := unit) (cfg := cfg) in HW; try eassumption.
    destruct HW as [wdhl wdhs wdsup wdam wdrest wdvi wdwf wdpv wdmtv wdmn wdgv wdls wdss wdnn wdpl wdps wdimp wdfl wdfs].
    destruct wdpv as [E1 _].
    assert (X : P2 = wt_pool_value tw + (p_long (primary s2) - p_long (primary s)) * pick (px_long ps) false
                     + (p_short (primary s2) - p_short (primary s)) * pick (px_short ps) false).
    { eapply pool_value_shift_calm with (unit := unit) (cfg := cfg) (s := s) (s1 := s2) (k := MaxAfterWithdrawal); try eassumption. right; reflexivity. }
    rewrite X, wdpl, wdps. cbn [pick]. unfold gross_value. rewrite <- wdls, <- wdss.
    destruct wdnn as (N1 & N2 & N3 & N4 & N5 & N6).
    pose proof Hps as (_ & [[PL0 _] [PL1 _]] & [[PS0 _] [PS1 _]]). unfold ordered in *. nia.
  Qed.
End P.
