(* C06 — "Liquidity providers cannot profit from a deposit/withdraw round trip": theorems only.
   Vocabulary (C06/Proofs.v): for a deposit trace [t], [credit_value ps t] is the USD value the
   depositor is credited with (own tokens after fees and negative impact at minimum prices +
   positive impact amounts at the maximum price of the token they are paid in),
   [funded_value ps t] the positive-impact part of it (paid out of the swap-impact pools),
   [in_value l sh ps] the deposited tokens at minimum prices, [out_value ps r] what a withdrawal
   pays at maximum prices, [gross_value ps t] the same before fees.  [dt_pool_value] /
   [wt_pool_value] are the pool values the code prices market tokens with (maximised with the
   deposit pnl factor / minimised with the withdrawal pnl factor). *)
From GV Require Import lib.Base C01.Model MK.Market MK.Swap MK.Liquidity MK.MarketProofs MK.SwapProofs
  MK.LiquidityProofs MK.Examples C06.Proofs C06.NoOI C06.RoundTrip C06.Calm C06.CalmTrip.
Open Scope Z_scope.

(* ---------- minting ---------- *)
(* First deposit into an empty pool (supply 0, pool value 0): one USD — [value_to_amount_divisor]
   value units — per market token, each side rounded down; no positive impact is credited. *)
Theorem c06_first_deposit_unit_price : forall w, 1 <= w -> forall unit, 0 < unit -> forall cfg s l sh ps s' r t,
  wf_state w s -> wf_prices w ps -> in_range w l -> in_range w sh -> 0 <= value_to_amount_divisor s ->
  deposit_exec_trace w unit cfg s l sh ps = Ok (s', r, t) ->
  total_supply s = 0 -> dt_pool_value t = 0 ->
  dr_minted r = lg_amount (dt_long t) * pr_min (px_long ps) / value_to_amount_divisor s
              + lg_amount (dt_short t) * pr_min (px_short ps) / value_to_amount_divisor s /\
  funded_value ps t = 0.
Proof.
  intros w Hw unit Hu cfg s l sh ps s' r t Hs Hps Hl Hsh Hdv H S0 P0.
  eapply (deposit_summary) with (w := w) (unit := unit) (cfg := cfg) in H; try eassumption. destruct H. split; auto.
Qed.

(* Non-empty supply: minted * pool value <= supply * credited value (never rounded up), and the
   four floors lose less than four tokens in total; the credited value never exceeds the
   deposited value plus the funded positive impact; the funded amounts never exceed the
   swap-impact pool balances they are paid from. *)
Theorem c06_deposit_mint_fair : forall w, 1 <= w -> forall unit, 0 < unit -> forall cfg s l sh ps s' r t,
  wf_state w s -> wf_prices w ps -> in_range w l -> in_range w sh -> 0 <= value_to_amount_divisor s ->
  deposit_exec_trace w unit cfg s l sh ps = Ok (s', r, t) -> 0 < total_supply s ->
  0 < dt_pool_value t /\
  dt_pool_value t * dr_minted r <= total_supply s * credit_value ps t /\
  total_supply s * credit_value ps t < dt_pool_value t * (dr_minted r + 4) /\
  lg_amount (dt_long t) <= l /\ lg_amount (dt_short t) <= sh /\
  lg_pos_amount (dt_long t) <= p_short (swap_impact s) /\ lg_pos_amount (dt_short t) <= p_long (swap_impact s).
Proof.
  intros w Hw unit Hu cfg s l sh ps s' r t Hs Hps Hl Hsh Hdv H Spos.
  eapply (deposit_summary) with (w := w) (unit := unit) (cfg := cfg) in H; try eassumption. destruct H.
  destruct (ds_fair Spos) as (A & B & C). repeat split; try assumption; lia.
Qed.

(* ---------- withdrawing ---------- *)
(* value paid out (before and after fees, at maximum prices) is at most the fair share
   pool value * amount / supply of the minimised pool value *)
Theorem c06_withdraw_out_le_fair : forall w, 1 <= w -> forall unit, 0 < unit -> forall cfg s a ps s' r t,
  wf_state w s -> wf_prices w ps -> in_range w a ->
  withdraw_exec_trace w unit cfg s a ps = Ok (s', r, t) ->
  out_value ps r <= gross_value ps t /\ gross_value ps t <= wt_mtv t /\
  gross_value ps t * total_supply s <= wt_pool_value t * a /\
  0 < total_supply s /\ 0 < a <= total_supply s /\ 0 < wt_pool_value t /\ 0 <= wt_mtv t /\
  total_supply s * wt_mtv t <= wt_pool_value t * a.
Proof. intros. eapply withdraw_fair with (w := w) (unit := unit) (cfg := cfg) (s' := s'); eassumption. Qed.

(* ---------- round trip ---------- *)
(* Full statement wanted: for EVERY market state, deposit then withdraw all minted tokens at
   unchanged prices returns at most the deposited value (+ funded positive impact, class 1;
   + the residual pool value when the supply was zero, class 2).
   Proved here for every state under the explicit hypothesis that the pool value seen by the
   withdrawal exceeds the pool value seen by the deposit by at most the value of the tokens
   added to the liquidity pool (at minimum prices).  That hypothesis is discharged below for every
   market without open positions; with open interest it depends on the pending-borrowing-fee and
   capped-pnl terms of pool_value and is covered by the oracle only. *)
Theorem c06_round_trip_partial : forall w, 1 <= w -> forall unit, 0 < unit -> forall cfg s l sh ps s1 rd td s2 rw tw,
  wf_state w s -> wf_prices w ps -> in_range w l -> in_range w sh -> 0 <= value_to_amount_divisor s ->
  ordered (px_long ps) -> ordered (px_short ps) ->
  deposit_exec_trace w unit cfg s l sh ps = Ok (s1, rd, td) ->
  withdraw_exec_trace w unit cfg s1 (dr_minted rd) ps = Ok (s2, rw, tw) ->
  wt_pool_value tw <= dt_pool_value td + added_long rd td * pr_min (px_long ps) + added_short rd td * pr_min (px_short ps) ->
  (0 < total_supply s -> out_value ps rw <= in_value l sh ps + funded_value ps td) /\
  (total_supply s = 0 -> out_value ps rw <= in_value l sh ps + dt_pool_value td).
Proof. intros. eapply round_trip_bound with (w := w) (unit := unit) (cfg := cfg) (s1 := s1) (rd := rd) (td := td) (s2 := s2) (tw := tw); eassumption. Qed.

(* Markets without open positions (no open interest, nothing borrowed), any liquidity, impact
   pools, fees, position-impact pool, clocks and configuration, prices with min <= max. *)
Theorem c06_round_trip_no_open_interest : forall w, 1 <= w -> forall unit, 0 < unit -> forall cfg s l sh ps s1 rd td s2 rw tw,
  wf_state w s -> wf_prices w ps -> in_range w l -> in_range w sh -> 0 <= value_to_amount_divisor s ->
  0 <= p_long (position_impact s) -> no_oi s -> ordered_prices ps ->
  deposit_exec_trace w unit cfg s l sh ps = Ok (s1, rd, td) ->
  withdraw_exec_trace w unit cfg s1 (dr_minted rd) ps = Ok (s2, rw, tw) ->
  (0 < total_supply s -> out_value ps rw <= in_value l sh ps + funded_value ps td) /\
  (total_supply s = 0 -> out_value ps rw <= in_value l sh ps + dt_pool_value td).
Proof. intros. eapply round_trip_no_oi with (w := w) (unit := unit) (cfg := cfg) (s1 := s1) (rd := rd) (td := td) (s2 := s2) (tw := tw); eassumption. Qed.

(* The literal property outside the two known classes: no funded positive impact, and either
   other LPs exist or the pool is empty. *)
Theorem c06_round_trip_literal_no_open_interest : forall w, 1 <= w -> forall unit, 0 < unit -> forall cfg s l sh ps s1 rd td s2 rw tw,
  wf_state w s -> wf_prices w ps -> in_range w l -> in_range w sh -> 0 <= value_to_amount_divisor s ->
  0 <= p_long (position_impact s) -> no_oi s -> ordered_prices ps ->
  deposit_exec_trace w unit cfg s l sh ps = Ok (s1, rd, td) ->
  withdraw_exec_trace w unit cfg s1 (dr_minted rd) ps = Ok (s2, rw, tw) ->
  funded_value ps td = 0 -> (0 < total_supply s \/ dt_pool_value td = 0) ->
  out_value ps rw <= in_value l sh ps.
Proof.
  intros w Hw unit Hu cfg s l sh ps s1 rd td s2 rw tw Hs Hps Hl Hsh Hdv Hpi Hno Ho HD HW F C.
  destruct (round_trip_no_oi w Hw unit Hu cfg s l sh ps s1 rd td s2 rw tw Hs Hps Hl Hsh Hdv Hpi Hno Ho HD HW) as [A B].
  destruct Hs as ([S0 _] & _). destruct C as [C|C].
  - specialize (A C). lia.
  - destruct (Z.eq_dec (total_supply s) 0) as [Z0|N]; [specialize (B Z0)|specialize (A ltac:(lia))]; lia.
Qed.

(* Markets WITH open interest that are "calm" (C06/Calm.v): borrowing fees accrued up to now
   (borrowing clock = now, which the store's pre_execute establishes before every deposit /
   withdrawal), and every positive pnl within min(deposit cap, withdrawal cap) times the side's
   minimised liquidity value (so no pnl cap binds).  Any open interest, borrowing factors,
   total borrowing, impact pools, position-impact pool and its clock, fees, configuration. *)
Theorem c06_round_trip_calm : forall w, 1 <= w -> forall unit, 0 < unit -> forall cfg s l sh ps s1 rd td s2 rw tw,
  wf_state w s -> wf_prices w ps -> in_range w l -> in_range w sh -> 0 <= value_to_amount_divisor s ->
  calm w unit cfg s ps -> ordered_prices ps ->
  deposit_exec_trace w unit cfg s l sh ps = Ok (s1, rd, td) ->
  withdraw_exec_trace w unit cfg s1 (dr_minted rd) ps = Ok (s2, rw, tw) ->
  (0 < total_supply s -> out_value ps rw <= in_value l sh ps + funded_value ps td) /\
  (total_supply s = 0 -> out_value ps rw <= in_value l sh ps + dt_pool_value td).
Proof. intros. eapply round_trip_calm with (w := w) (unit := unit) (cfg := cfg) (s1 := s1) (rd := rd) (td := td) (s2 := s2) (tw := tw); eassumption. Qed.

Theorem c06_round_trip_literal_calm : forall w, 1 <= w -> forall unit, 0 < unit -> forall cfg s l sh ps s1 rd td s2 rw tw,
  wf_state w s -> wf_prices w ps -> in_range w l -> in_range w sh -> 0 <= value_to_amount_divisor s ->
  calm w unit cfg s ps -> ordered_prices ps ->
  deposit_exec_trace w unit cfg s l sh ps = Ok (s1, rd, td) ->
  withdraw_exec_trace w unit cfg s1 (dr_minted rd) ps = Ok (s2, rw, tw) ->
  funded_value ps td = 0 -> (0 < total_supply s \/ dt_pool_value td = 0) ->
  out_value ps rw <= in_value l sh ps.
Proof.
  intros w Hw unit Hu cfg s l sh ps s1 rd td s2 rw tw Hs Hps Hl Hsh Hdv Hc Ho HD HW F C.
  destruct (round_trip_calm w Hw unit Hu cfg s l sh ps s1 rd td s2 rw tw Hs Hps Hl Hsh Hdv Hc Ho HD HW) as [A B].
  destruct Hs as ([S0 _] & _). destruct C as [C|C].
  - specialize (A C). lia.
  - destruct (Z.eq_dec (total_supply s) 0) as [Z0|N]; [specialize (B Z0)|specialize (A ltac:(lia))]; lia.
Qed.

(* ---------- no dilution of the other LPs ---------- *)
(* deposit: pool value per token (deposit valuation) does not fall, provided the pool value
   grows by at least the credited value — proved for markets without open positions *)
Theorem c06_deposit_no_dilution_partial : forall w, 1 <= w -> forall unit, 0 < unit -> forall cfg s l sh ps s1 rd td P1,
  wf_state w s -> wf_prices w ps -> in_range w l -> in_range w sh -> 0 <= value_to_amount_divisor s ->
  deposit_exec_trace w unit cfg s l sh ps = Ok (s1, rd, td) -> 0 < total_supply s ->
  dt_pool_value td + credit_value ps td <= P1 ->
  dt_pool_value td * total_supply s1 <= P1 * total_supply s.
Proof. intros. eapply deposit_no_dilution with (w := w) (unit := unit) (cfg := cfg) (l := l) (sh := sh) (rd := rd) (td := td) (ps := ps); eassumption. Qed.

Theorem c06_deposit_no_dilution_no_open_interest : forall w, 1 <= w -> forall unit, 0 < unit -> forall cfg s l sh ps s1 rd td P1,
  wf_state w s -> wf_prices w ps -> in_range w l -> in_range w sh -> 0 <= value_to_amount_divisor s ->
  no_oi s -> ordered_prices ps ->
  deposit_exec_trace w unit cfg s l sh ps = Ok (s1, rd, td) -> 0 < total_supply s ->
  pool_value w unit cfg s1 ps MaxAfterDeposit true = Ok P1 ->
  dt_pool_value td * total_supply s1 <= P1 * total_supply s.
Proof. intros. eapply deposit_no_dilution_no_oi with (w := w) (unit := unit) (cfg := cfg) (l := l) (sh := sh) (rd := rd) (td := td) (ps := ps); eassumption. Qed.

Theorem c06_deposit_no_dilution_calm : forall w, 1 <= w -> forall unit, 0 < unit -> forall cfg s l sh ps s1 rd td P1,
  wf_state w s -> wf_prices w ps -> in_range w l -> in_range w sh -> 0 <= value_to_amount_divisor s ->
  calm w unit cfg s ps -> ordered_prices ps ->
  deposit_exec_trace w unit cfg s l sh ps = Ok (s1, rd, td) -> 0 < total_supply s ->
  pool_value w unit cfg s1 ps MaxAfterDeposit true = Ok P1 ->
  dt_pool_value td * total_supply s1 <= P1 * total_supply s.
Proof. intros. eapply deposit_no_dilution_calm with (w := w) (unit := unit) (cfg := cfg) (l := l) (sh := sh) (rd := rd) (td := td) (ps := ps); eassumption. Qed.

(* withdrawal: pool value per token (withdrawal valuation) does not fall, provided the pool value
   falls by at most the gross value paid — proved for markets without open positions *)
Theorem c06_withdraw_no_dilution_partial : forall w, 1 <= w -> forall unit, 0 < unit -> forall cfg s a ps s2 rw tw P2,
  wf_state w s -> wf_prices w ps -> in_range w a ->
  withdraw_exec_trace w unit cfg s a ps = Ok (s2, rw, tw) ->
  wt_pool_value tw - gross_value ps tw <= P2 ->
  wt_pool_value tw * total_supply s2 <= P2 * total_supply s.
Proof. intros. eapply withdraw_no_dilution with (w := w) (unit := unit) (cfg := cfg) (a := a) (rw := rw) (tw := tw) (ps := ps); eassumption. Qed.

Theorem c06_withdraw_no_dilution_no_open_interest : forall w, 1 <= w -> forall unit, 0 < unit -> forall cfg s a ps s2 rw tw P2,
  wf_state w s -> wf_prices w ps -> in_range w a -> no_oi s -> ordered_prices ps ->
  withdraw_exec_trace w unit cfg s a ps = Ok (s2, rw, tw) ->
  pool_value w unit cfg s2 ps MaxAfterWithdrawal false = Ok P2 ->
  wt_pool_value tw * total_supply s2 <= P2 * total_supply s.
Proof. intros. eapply withdraw_no_dilution_no_oi with (w := w) (unit := unit) (cfg := cfg) (a := a) (rw := rw) (tw := tw) (ps := ps); eassumption. Qed.

(* calm before and after (the post-state condition is what validate_max_pnl enforces up to rounding) *)
Theorem c06_withdraw_no_dilution_calm : forall w, 1 <= w -> forall unit, 0 < unit -> forall cfg s a ps s2 rw tw P2,
  wf_state w s -> wf_prices w ps -> in_range w a ->
  calm w unit cfg s ps -> calm w unit cfg s2 ps -> ordered_prices ps ->
  withdraw_exec_trace w unit cfg s a ps = Ok (s2, rw, tw) ->
  pool_value w unit cfg s2 ps MaxAfterWithdrawal false = Ok P2 ->
  wt_pool_value tw * total_supply s2 <= P2 * total_supply s.
Proof. intros. eapply withdraw_no_dilution_calm with (w := w) (unit := unit) (cfg := cfg) (a := a) (rw := rw) (tw := tw) (ps := ps); eassumption. Qed.

(* ---------- the known classes are real (the literal text fails there) ---------- *)
(* class 1 FundedPositiveImpact: +43120 on a 6*10^10 deposit (the replay of DESIGN.md section 7) *)
Theorem c06_funded_positive_impact_refuted :
  exists s1 rd td s2 rw tw,
    deposit_exec_trace 64 (10 ^ 9) cfg64_nofee rt_state1 0 60000000000 ps120 = Ok (s1, rd, td) /\
    withdraw_exec_trace 64 (10 ^ 9) cfg64_nofee s1 (dr_minted rd) ps120 = Ok (s2, rw, tw) /\
    0 < total_supply rt_state1 /\ no_oi rt_state1 /\
    funded_value ps120 td = 43200 /\
    in_value 0 60000000000 ps120 = 60000000000 /\ out_value ps120 rw = 60000043120 /\
    ~ out_value ps120 rw <= in_value 0 60000000000 ps120.
Proof. exact funded_positive_impact_refuted. Qed.

(* class 2 ResidualValueAtZeroSupply *)
Theorem c06_residual_value_refuted :
  exists s1 rd td s2 rw tw,
    deposit_exec_trace 64 (10 ^ 9) cfg64_nofee residual_state 0 1000 ps120 = Ok (s1, rd, td) /\
    withdraw_exec_trace 64 (10 ^ 9) cfg64_nofee s1 (dr_minted rd) ps120 = Ok (s2, rw, tw) /\
    total_supply residual_state = 0 /\ dt_pool_value td = 120000000 /\ funded_value ps120 td = 0 /\
    in_value 0 1000 ps120 = 1000 /\ out_value ps120 rw = 120001000 /\
    ~ out_value ps120 rw <= in_value 0 1000 ps120.
Proof. exact residual_value_refuted. Qed.

(* class 3 StalePendingBorrowingFees: a deposit made while borrowing fees are pending (the
   model-crate action does not accrue them first; the store's pre_execute does) lowers the
   pending-fee estimate and with it the value per token *)
Theorem c06_stale_pending_borrowing_refuted :
  exists s1 rd td P1,
    deposit_exec_trace 128 (10 ^ 20) cfg128_w3 state_w3 1 2500787 prices_w3 = Ok (s1, rd, td) /\
    pool_value 128 (10 ^ 20) cfg128_w3 s1 prices_w3 MaxAfterDeposit true = Ok P1 /\
    0 < total_supply state_w3 /\ passed state_w3 (clk_borrowing state_w3) = 50000 /\
    dt_pool_value td = 55097104954108197016 /\ P1 = 55601571219347818588 /\
    credit_value prices_w3 td = 506157400000000003 /\
    P1 - dt_pool_value td < credit_value prices_w3 td /\
    ~ dt_pool_value td * total_supply s1 <= P1 * total_supply state_w3.
Proof. exact stale_pending_borrowing_refuted. Qed.

(* ---------- non-vacuity ---------- *)
(* an ordinary round trip with fees on the default market: out < in *)
Example c06_ex_round_trip :
  exists s1 rd td s2 rw tw,
    deposit_exec_trace 64 (10 ^ 9) cfg64 ex_market 1000000 0 ex_prices = Ok (s1, rd, td) /\
    withdraw_exec_trace 64 (10 ^ 9) cfg64 s1 (dr_minted rd) ex_prices = Ok (s2, rw, tw) /\
    no_oi ex_market /\ 0 < total_supply ex_market /\
    in_value 1000000 0 ex_prices = 120000000 /\ out_value ex_prices rw < 120000000 /\ 0 < out_value ex_prices rw.
Proof.
  eexists. eexists. eexists. eexists. eexists. eexists.
  split; [vm_compute; reflexivity|]. split; [vm_compute; reflexivity|]. vm_compute. repeat split; reflexivity.
Qed.

(* a calm market with open interest: long OI 6*10^10 usd / 5*10^8 tokens (pnl 0 at 120, positive at
   121), cumulative borrowing factor 0.01, borrowed total booked, borrowing clock = now *)
Definition calm_market : mstate :=
  mkState 240000000000 1 10000 (mkPool 1000000000 100000000000) (mkPool 5000 7000) pool0
    (mkPool 60000000000 0) pool0 (mkPool 500000000 0) pool0 (mkPool 1000000 0) (mkPool 10000000 0) 0
    pool0 pool0 pool0 pool0 pool0 pool0 (mkPool 600000000 0) 1000 None (Some 1000) None None None.
Example c06_ex_calm : calm 64 (10 ^ 9) cfg64 calm_market ex_prices.
Proof.
  constructor; try (cbn; lia); try reflexivity.
  intros il mxp p E P. destruct il, mxp; vm_compute in E; injection E as <-; vm_compute; first [discriminate P | intros C; discriminate C].
Qed.
Example c06_ex_calm_round_trip :
  exists s1 rd td s2 rw tw,
    deposit_exec_trace 64 (10 ^ 9) cfg64 calm_market 1000000 0 ex_prices = Ok (s1, rd, td) /\
    withdraw_exec_trace 64 (10 ^ 9) cfg64 s1 (dr_minted rd) ex_prices = Ok (s2, rw, tw) /\
    0 < out_value ex_prices rw < in_value 1000000 0 ex_prices.
Proof.
  eexists. eexists. eexists. eexists. eexists. eexists.
  split; [vm_compute; reflexivity|]. split; [vm_compute; reflexivity|]. vm_compute. split; reflexivity.
Qed.
