(* C06 — correspondence and oracle over the histories printed by harness/src/bin/c06.rs
   (syntax MK/Case.v): deposits, withdrawals, swaps, direct field writes, and round trips
   (a deposit immediately followed by the withdrawal of exactly the minted amount at the
   same prices). *)
From GV Require Export lib.Base C01.Model MK.Market MK.Swap MK.Liquidity MK.Case.
Open Scope Z_scope.

Definition case := MK.Case.case.

Definition corr_b (c : case) : bool :=
  match c with Hist w dec cfg init ops => corr_ops_all w (10 ^ dec) cfg init ops end.

(* ---------- the property on the implementation's outputs ----------
   Valuation: the USD value of the pool is the market's own LiquidityMarketExt::pool_value
   (evaluated by the model function on the implementation's state; maximised with the deposit
   pnl factor for deposits, minimised with the withdrawal pnl factor for withdrawals — the modes
   the code itself uses to price market tokens).  Everything else is read off the reports and the
   pre/post states. *)
Section O.
  Variable w : Z.
  Variable unit : Z.
  Variable cfg : config.

  Definition pv_dep (s : mstate) (ps : prices) : option Z :=
    match pool_value w unit cfg s ps MaxAfterDeposit true with Ok v => Some v | Err _ => None end.
  Definition pv_wd (s : mstate) (ps : prices) : option Z :=
    match pool_value w unit cfg s ps MaxAfterWithdrawal false with Ok v => Some v | Err _ => None end.

  (* the pool's share of the pending (not yet accrued) borrowing fees that pool_value adds: an
     estimate that depends on the current pool size through the utilisation *)
  Definition pending_borrow_pool (s : mstate) (ps : prices) : option Z :=
    match total_pending_borrowing_fees w unit cfg s ps true, total_pending_borrowing_fees w unit cfg s ps false with
    | Ok a, Ok b => f <- usub w unit (bp_receiver (c_borrowing cfg)) ;; apply_factor w unit (a + b) f
    | _, _ => None
    end.

  (* amounts of a deposit read off the states: tokens credited to liquidity net of pool fees
     and of positive impact (paid in that token by the other leg), and the positive impact
     amounts = decreases of the impact pools *)
  Definition dep_pos_long (pre post : mstate) : Z := Z.max 0 (p_long (swap_impact pre) - p_long (swap_impact post)).
  Definition dep_pos_short (pre post : mstate) : Z := Z.max 0 (p_short (swap_impact pre) - p_short (swap_impact post)).
  Definition dep_amount_long (pre post : mstate) (r : deposit_report) : Z :=
    p_long (primary post) - p_long (primary pre) - f_pool (dr_fees_long r) - dep_pos_long pre post.
  Definition dep_amount_short (pre post : mstate) (r : deposit_report) : Z :=
    p_short (primary post) - p_short (primary pre) - f_pool (dr_fees_short r) - dep_pos_short pre post.
  (* USD value credited to the depositor: own tokens at the minimum price, funded positive
     impact at the maximum price of the token it is paid in *)
  Definition dep_funded_value (pre post : mstate) (ps : prices) : Z :=
    dep_pos_long pre post * pr_max (px_long ps) + dep_pos_short pre post * pr_max (px_short ps).
  Definition dep_credit_value (pre post : mstate) (ps : prices) (r : deposit_report) : Z :=
    dep_amount_long pre post r * pr_min (px_long ps) + dep_amount_short pre post r * pr_min (px_short ps)
    + dep_funded_value pre post ps.
  Definition dep_in_value (l sh : Z) (ps : prices) : Z := l * pr_min (px_long ps) + sh * pr_min (px_short ps).

  (* a price set with 0 < min <= max for all three tokens; Deposit::try_new does not validate
     prices, so the driver's malformed price sets (zero, min > max) reach execute — the dilution
     and round-trip clauses are only required for well-formed prices *)
  Definition ordered_b (ps : prices) : bool :=
    let ok p := (0 <? pr_min p) && (pr_min p <=? pr_max p) in
    ok (px_index ps) && ok (px_long ps) && ok (px_short ps).

  Definition deposit_b (pre post : mstate) (l sh : Z) (ps : prices) (r : deposit_report) : bool :=
    let S := total_supply pre in
    let m := dr_minted r in
    let V := dep_credit_value pre post ps r in
    let dv := value_to_amount_divisor pre in
    (0 <=? m) && (0 <=? dep_amount_long pre post r) && (0 <=? dep_amount_short pre post r) &&
    (* the credited value never exceeds what was deposited plus the funded impact *)
    (V <=? dep_in_value l sh ps + dep_funded_value pre post ps) &&
    match pv_dep pre ps with
    | None => false                                   (* a successful deposit priced the pool *)
    | Some pv =>
        (0 <=? pv) &&
        if S =? 0 then
          if pv =? 0 then
            (* first deposit into an empty pool: one USD (divisor value units) per market token,
               each side rounded down; no positive impact is credited *)
            (m =? dep_amount_long pre post r * pr_min (px_long ps) / dv
                  + dep_amount_short pre post r * pr_min (px_short ps) / dv) &&
            (dep_funded_value pre post ps =? 0)
          else true
        else
          (* minted tokens are priced at the pool value per token, rounded down (at most one
             token per converted term: two legs, each with an own amount and an impact amount);
             the dilution clause is [deposit_dilution_b] *)
          (m * pv <=? S * V) && (S * V <? (m + 4) * pv) &&
          (* exactly: every credited term (own amount / impact amount of each side) is converted separately *)
          (m =? S * (dep_amount_long pre post r * pr_min (px_long ps)) / pv
                + S * (dep_amount_short pre post r * pr_min (px_short ps)) / pv
                + S * (dep_pos_long pre post * pr_max (px_long ps)) / pv
                + S * (dep_pos_short pre post * pr_max (px_short ps)) / pv) &&
          true
    end.

  (* the other LPs are not diluted by a deposit: pool value per token does not fall *)
  Definition deposit_dilution_b (pre post : mstate) (ps : prices) (r : deposit_report) : bool :=
    let S := total_supply pre in
    let m := dr_minted r in
    if (S =? 0) || negb (ordered_b ps) then true else
    match pv_dep pre ps, pv_dep post ps with
    | Some pv, Some pv' => pv * (S + m) <=? pv' * S
    | _, _ => true
    end.
  (* class 3 (StalePendingBorrowingFees): the deposit ran while borrowing fees were pending
     (borrowing clock behind [now], open interest present); enlarging the pool lowers the
     utilisation and thereby the ESTIMATE of the pending fees inside pool_value.  The value per
     token does not fall once that re-estimation is added back. *)
  Definition deposit_dilution_class3 (pre post : mstate) (ps : prices) (r : deposit_report) : bool :=
    let S := total_supply pre in
    let m := dr_minted r in
    (0 <? passed pre (clk_borrowing pre)) &&
    match pv_dep pre ps, pv_dep post ps, pending_borrow_pool pre ps, pending_borrow_pool post ps with
    | Some pv, Some pv', Some b, Some b' => (b' <? b) && (pv * (S + m) <=? (pv' + (b - b')) * S)
    | _, _, _, _ => false
    end.

  Definition wd_gross_value (ps : prices) (r : withdraw_report) : Z :=
    (wr_long_out r + f_receiver (wr_fees_long r) + f_pool (wr_fees_long r)) * pr_max (px_long ps) +
    (wr_short_out r + f_receiver (wr_fees_short r) + f_pool (wr_fees_short r)) * pr_max (px_short ps).
  Definition wd_out_value (ps : prices) (r : withdraw_report) : Z :=
    wr_long_out r * pr_max (px_long ps) + wr_short_out r * pr_max (px_short ps).

  Definition withdraw_b (pre post : mstate) (a : Z) (ps : prices) (r : withdraw_report) : bool :=
    let S := total_supply pre in
    (0 <=? wr_long_out r) && (0 <=? wr_short_out r) &&
    match pv_wd pre ps with
    | None => false
    | Some pv =>
        (0 <? pv) && (0 <? S) && (a <=? S) &&
        (* value paid out (before fees), at maximum prices, is at most the fair share, and is
           the fair share up to the roundings of the three divisions *)
        (wd_gross_value ps r * S <=? pv * a) &&
        (pv * a <? (wd_gross_value ps r + pr_max (px_long ps) + pr_max (px_short ps) + 3) * S) &&
        (* the remaining LPs are not diluted *)
        match pv_wd post ps with
        | Some pv' => negb (ordered_b ps) || (pv * (S - a) <=? pv' * S)
        | None => true
        end
    end.

  (* round trip at unchanged prices: value out (max prices) vs value in (min prices) *)
  Definition rt_ok (l sh : Z) (ps : prices) (rw : withdraw_report) : bool :=
    wd_out_value ps rw <=? dep_in_value l sh ps.
  (* classes of a failing round trip (0 = unclassified):
     1 FundedPositiveImpact: other LPs exist (supply > 0) and the excess is covered by the positive
       impact the deposit was paid out of the swap-impact pools;
     2 ResidualValueAtZeroSupply: the supply was zero while the pool still had value (tokens left
       behind after every LP withdrew); the depositor becomes the sole owner, the excess is
       covered by that residual pool value
     (class 3, StalePendingBorrowingFees, concerns the dilution clause of a deposit, see above) *)
  Definition rt_class (pre mid : mstate) (l sh : Z) (ps : prices) (rw : withdraw_report) : Z :=
    if total_supply pre =? 0 then
      match pv_dep pre ps with
      | Some pv => if (0 <? pv) && (wd_out_value ps rw <=? dep_in_value l sh ps + pv) then 2 else 0
      | None => 0
      end
    else if (0 <? dep_funded_value pre mid ps) &&
            (wd_out_value ps rw <=? dep_in_value l sh ps + dep_funded_value pre mid ps) then 1 else 0.

  Definition prices_eqb (a b : prices) : bool :=
    let pe x y := (pr_min x =? pr_min y) && (pr_max x =? pr_max y) in
    pe (px_index a) (px_index b) && pe (px_long a) (px_long b) && pe (px_short a) (px_short b).

  (* walk the history; [prev] = the previous op when it was a successful deposit: (pre-state, l, sh, prices, minted).
     Returns (all literal checks hold, class): class = 0 when some failing check is unclassified,
     otherwise the class of the first failing round trip (or 0 if nothing failed). *)
  Fixpoint walk (s : mstate) (prev : option (mstate * Z * Z * prices * Z)) (ops : list op) : bool * bool * Z :=
    match ops with
    | [] => (true, true, 0)
    | o :: rest =>
        let post := op_post s o in
        (* (literal ok, classified ok, class of this op's failure, next prev) *)
        let '(ok, cok, cls, nxt) :=
          match o with
          | ODeposit l sh ps (Ok r) _ =>
              let b := deposit_b s post l sh ps r in
              if deposit_dilution_b s post ps r then (b, b, 0, Some (s, l, sh, ps, dr_minted r))
              else let c3 := deposit_dilution_class3 s post ps r in
                   (false, b && c3, if c3 then 3 else 0, Some (s, l, sh, ps, dr_minted r))
          | OWithdraw a ps (Ok r) _ =>
              let base := withdraw_b s post a ps r in
              match prev with
              | Some (s0, l, sh, ps0, m) =>
                  if (a =? m) && prices_eqb ps ps0 && ordered_b ps then
                    if rt_ok l sh ps r then (base, base, 0, None)
                    else let k := rt_class s0 s l sh ps r in (false, base && negb (k =? 0), k, None)
                  else (base, base, 0, None)
              | None => (base, base, 0, None)
              end
          | _ => (true, true, 0, None)
          end in
        let '(ok', cok', cls') := walk post nxt rest in
        (ok && ok', cok && cok', if cls =? 0 then cls' else cls)
    end.
End O.

Definition oracle_b (c : case) : bool :=
  match c with Hist w dec cfg init ops => fst (fst (walk w (10 ^ dec) cfg init None ops)) end.

(* class of the first failing round trip when every failing check of the history is a
   classified round trip; 0 = anything else *)
Definition known_b (c : case) : Z :=
  match c with Hist w dec cfg init ops =>
    let r := walk w (10 ^ dec) cfg init None ops in
    if negb (fst (fst r)) && snd (fst r) then snd r else 0
  end.
