(* C32 — property theorems only (builder fees are bounded by what the order actually produced).
   w = width of usd values, wa = width of token amounts, unit = MARKET_USD_UNIT (all generic). *)
From GV Require Import lib.Base C01.Model C32.Model C32.Proofs.
Open Scope Z_scope.

(* the fee is the executed size times the factor (floor), converted at the MINIMUM price, rounded UP *)
Theorem c32_fee_round_up : forall w unit, 1 <= w -> 0 < unit -> forall size factor pmin fee,
  0 <= size -> 0 <= factor -> 0 <= pmin ->
  compute w unit size factor pmin = Ok fee ->
  (factor = 0 /\ fee = 0) \/
  (factor <> 0 /\ pmin <> 0 /\ 0 <= fee /\ pmin * (fee - 1) < size * factor / unit <= pmin * fee).
Proof. exact fee_round_up. Qed.

Theorem c32_compute_err : forall w unit, 1 <= w -> 0 < unit -> forall size factor pmin e,
  0 <= size -> 0 <= factor -> 0 <= pmin ->
  compute w unit size factor pmin = Err e ->
  e = 2 /\ factor <> 0 /\ (pmin = 0 \/ 2 ^ w <= size * factor / unit \/ 2 ^ w <= size * factor / unit + pmin).
Proof. exact compute_err. Qed.

Theorem c32_clamp_spec : forall fee avail, clamp fee avail <= fee /\ clamp fee avail <= avail /\
  (clamp fee avail = fee \/ clamp fee avail = avail).
Proof. exact clamp_spec. Qed.

(* increase: fee + remaining collateral increment = original increment ... *)
Theorem c32_increase_split_exact : forall w wa unit incr size factor pmin after fee, 0 <= incr < 2 ^ wa ->
  charge w wa unit incr size factor pmin = Ok (after, fee) ->
  after + fee = incr /\ 0 <= after /\ 0 <= fee /\ compute w unit size factor pmin = Ok fee.
Proof. exact increase_split_exact. Qed.

(* ... or the order fails: the fee cannot be computed, does not fit a token amount, or exceeds the
   increment (no partial charge) *)
Theorem c32_increase_fails_cases : forall w wa unit, 1 <= wa -> forall incr size factor pmin e,
  0 <= incr < 2 ^ wa ->
  charge w wa unit incr size factor pmin = Err e ->
  (compute w unit size factor pmin = Err e) \/
  (exists fee, compute w unit size factor pmin = Ok fee /\
               ((e = 2 /\ (fee < 0 \/ 2 ^ wa <= fee)) \/ (e = 3 /\ incr < fee))).
Proof. exact increase_fails_cases. Qed.

Theorem c32_increase_path_ok : forall w wa unit, 1 <= wa -> forall rec incr size factor pmin after rec' routed,
  0 <= incr < 2 ^ wa -> 0 <= rec ->
  increase_path w wa unit rec incr size factor pmin = Ok (after, rec', routed) ->
  after + routed = incr /\ rec' = rec + routed /\ 0 <= routed /\ 0 <= after /\
  (factor = 0 -> routed = 0) /\ (factor <> 0 -> compute w unit size factor pmin = Ok routed).
Proof. exact increase_path_ok. Qed.

(* decrease: the recorded fee never exceeds the final output amount *)
Theorem c32_decrease_recorded_le_output : forall w wa unit, 1 <= wa -> forall rec size factor pmin output rec',
  0 <= size -> 0 <= factor -> 0 <= pmin -> 0 <= output -> 0 <= rec ->
  decrease_path w wa unit rec size factor pmin output = Ok rec' ->
  0 <= rec' - rec <= output /\
  (factor = 0 -> rec' = rec) /\
  (factor <> 0 -> exists fee, compute w unit size factor pmin = Ok fee /\ rec' - rec = Z.min fee output).
Proof. exact decrease_recorded_le_output. Qed.

(* settlement transfers at most the recorded amount and never more than the escrow holds, then
   zeroes the record *)
Theorem c32_settle_le_recorded_le_escrow : forall rec escrow, 0 <= rec -> 0 <= escrow ->
  let '(t, rec', esc') := settle rec escrow in
  0 <= t <= rec /\ t <= escrow /\ t = Z.min rec escrow /\ rec' = 0 /\ esc' = escrow - t /\ 0 <= esc'.
Proof. exact settle_spec. Qed.

(* ... so that repeating it is a no-op *)
Theorem c32_settle_idempotent : forall rec escrow,
  let '(t, rec', esc') := settle rec escrow in settle rec' esc' = (0, rec', esc').
Proof. exact settle_idempotent. Qed.

(* over a whole order life (charges routed into the escrow, other deposits, repeated settlements)
   the escrow always covers the record, and a settlement then pays the record in full *)
Theorem c32_order_life : forall wa, 1 <= wa -> forall ops, Forall wf_bop ops ->
  forall s, binv s -> binv (fold_left (bstep wa) ops s).
Proof. exact order_life. Qed.

Theorem c32_settle_pays_in_full : forall wa rec esc paid, binv (rec, esc, paid) ->
  bstep wa (rec, esc, paid) BSettle = (0, esc - rec, paid + rec).
Proof. exact settle_pays_in_full. Qed.

(* non-vacuity *)
Example c32_ex1 : compute 128 (10 ^ 20) (1000 * 10 ^ 20) (10 ^ 17) 3 = Ok 33333333333333333334
  /\ charge 128 64 (10 ^ 20) 500 (1000 * 10 ^ 20) (10 ^ 17) (10 ^ 18) = Ok (400, 100)
  /\ charge 128 64 (10 ^ 20) 99 (1000 * 10 ^ 20) (10 ^ 17) (10 ^ 18) = Err 3.
Proof. vm_compute. repeat split; reflexivity. Qed.
Example c32_ex2 : decrease_path 128 64 (10 ^ 20) 7 (1000 * 10 ^ 20) (10 ^ 17) (10 ^ 18) 60 = Ok 67
  /\ settle 67 50 = (50, 0, 0)
  /\ fold_left (bstep 64) [BCharge 5; BDeposit 100; BSettle; BSettle; BCharge 7; BSettle] (0, 0, 0) = (0, 100, 12).
Proof. vm_compute. repeat split; reflexivity. Qed.
