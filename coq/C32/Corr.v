(* C32 — correspondence and oracle for harness/src/bin/c32.rs (u128 values, u64 amounts, unit 10^20). *)
From GV Require Import lib.Base C01.Model.
From GV Require Export C32.Model.
Open Scope Z_scope.

Inductive sstep :=
| SRecord (amt : Z) (code : Z) (rec_after : Z)           (* Order::record_builder_fee *)
| SDecrease (size factor pmin output : Z) (code : Z) (rec_after : Z)   (* decrease-path replay on the Order *)
| SIncrease (incr size factor pmin : Z) (r : res (Z * Z)) (rec_after : Z)  (* increase-path: (after, fee) *)
| SSettle (escrow : Z) (transferred rec_after escrow_after : Z).     (* settlement *)

Inductive case :=
| CCompute (size factor pmin pmax : Z) (r : res Z)
| CClamp (fee avail r : Z)
| CCharge (incr size factor pmin pmax : Z) (r : res (Z * Z))
| CEstimate (wd size factor pmin pmax : Z) (st : swap_type) (r : res Z)
| COrder (steps : list sstep).

Definition W := 128. Definition WA := 64. Definition U := 10 ^ 20.

Definition reqb (a b : res Z) : bool :=
  match a, b with Ok x, Ok y => x =? y | Err x, Err y => x =? y | _, _ => false end.
Definition r2eqb (a b : res (Z * Z)) : bool :=
  match a, b with
  | Ok (x1, x2), Ok (y1, y2) => (x1 =? y1) && (x2 =? y2)
  | Err x, Err y => x =? y
  | _, _ => false
  end.
Definition code_of {A} (r : res A) : Z := match r with Ok _ => 0 | Err e => e end.

Fixpoint corr_steps (rec : Z) (l : list sstep) : bool :=
  match l with
  | [] => true
  | SRecord a code ra :: r =>
      let m := record WA rec a in
      let rec' := match m with Ok x => x | Err _ => rec end in
      (code_of m =? code) && (rec' =? ra) && corr_steps rec' r
  | SDecrease size f p out code ra :: r =>
      let m := decrease_path W WA U rec size f p out in
      let rec' := match m with Ok x => x | Err _ => rec end in
      (code_of m =? code) && (rec' =? ra) && corr_steps rec' r
  | SIncrease incr size f p x ra :: r =>
      let m := increase_path W WA U rec incr size f p in
      let rec' := match m with Ok (_, rr, _) => rr | Err _ => rec end in
      r2eqb (match m with Ok (a, _, fee) => Ok (a, fee) | Err e => Err e end) x && (rec' =? ra) && corr_steps rec' r
  | SSettle esc t ra ea :: r =>
      let '(t', r', e') := settle rec esc in
      (t' =? t) && (r' =? ra) && (e' =? ea) && corr_steps r' r
  end.

Definition corr_b (c : case) : bool :=
  match c with
  | CCompute size f pmin pmax r => reqb (compute W U size f pmin) r
  | CClamp fee avail r => clamp fee avail =? r
  | CCharge incr size f pmin pmax r => r2eqb (charge W WA U incr size f pmin) r
  | CEstimate wd size f pmin pmax st r => reqb (estimate W U wd size f pmin st) r
  | COrder steps => corr_steps 0 steps
  end.

(* ---------- the property on the implementation's outputs ---------- *)
(* fee = ceil(floor(size * factor / unit) / pmin) : executed size times factor, converted at the
   minimum price, rounded up *)
Definition fee_ok (size f pmin fee : Z) : bool :=
  if f =? 0 then fee =? 0
  else let fv := size * f / U in negb (pmin =? 0) && (pmin * (fee - 1) <? fv) && (fv <=? pmin * fee) && (0 <=? fee).

(* exact value of the fee when it exists *)
Definition fee_val (size f pmin : Z) : Z :=
  if f =? 0 then 0 else (size * f / U + pmin - 1) / pmin.

Fixpoint oracle_steps (rec : Z) (l : list sstep) : bool :=
  match l with
  | [] => true
  | SRecord a code ra :: r =>
      (if code =? 0 then ra =? rec + a else (ra =? rec) && (2 ^ WA <=? rec + a)) && oracle_steps ra r
  | SDecrease size f p out code ra :: r =>
      (if code =? 0 then
         (* the recorded fee of this execution never exceeds the final output amount, and is the
            fee clamped to it *)
         (0 <=? ra - rec) && (ra - rec <=? out) &&
         (if f =? 0 then ra =? rec else negb (p =? 0) && (ra - rec =? Z.min (fee_val size f p) out))
       else ra =? rec) && oracle_steps ra r
  | SIncrease incr size f p x ra :: r =>
      match x with
      | Ok (after, fee) =>
          (* fee + remaining increment = original increment *)
          (after + fee =? incr) && (0 <=? after) && (0 <=? fee) && fee_ok size f p fee &&
          (if f =? 0 then ra =? rec else ra =? rec + fee)
      | Err e =>
          (* the order fails instead of charging a partial amount *)
          (ra =? rec) && negb (f =? 0) &&
          (if e =? 3 then incr <? fee_val size f p else e =? 2)
      end && oracle_steps ra r
  | SSettle esc t ra ea :: r =>
      (* at most the recorded amount, never more than the escrow holds, record zeroed *)
      (0 <=? t) && (t <=? rec) && (t <=? esc) && (ra =? 0) && (ea =? esc - t) &&
      (t =? Z.min rec esc) &&
      oracle_steps ra r
  end.

Definition oracle_b (c : case) : bool :=
  match c with
  | CCompute size f pmin pmax r =>
      match r with
      | Ok fee => fee_ok size f pmin fee && (fee <? 2 ^ W)
      | Err e => (e =? 2) && negb (f =? 0) &&
                 ((pmin =? 0) || (2 ^ W <=? size * f / U) || (2 ^ W <=? size * f / U + pmin))
      end
  | CClamp fee avail r => (r <=? fee) && (r <=? avail) && ((r =? fee) || (r =? avail))
  | CCharge incr size f pmin pmax r =>
      match r with
      | Ok (after, fee) => (after + fee =? incr) && (0 <=? after) && fee_ok size f pmin fee
      | Err e => negb (f =? 0) && (if e =? 3 then incr <? fee_val size f pmin else e =? 2)
      end
  | CEstimate wd size f pmin pmax st r =>
      if f =? 0 then reqb r (Ok wd)
      else match st with
           | CollateralToPnlToken => reqb r (Err 4)
           | _ => match r with
                  | Ok x => fee_ok size f pmin (x - wd) && (x <? 2 ^ W)
                  | Err e => e =? 2
                  end
           end
  | COrder steps => oracle_steps 0 steps
  end.

Definition known_b (c : case) : Z := 0.
