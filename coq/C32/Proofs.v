(* C32 — lemmas about the builder fee model. *)
From GV Require Import lib.Base lib.DivLemmas C01.Model C01.Proofs C32.Model.
Open Scope Z_scope.
Ltac Zify.zify_post_hook ::= Z.div_mod_to_equations.

Lemma rbind_ok {A B} (a : res A) (f : A -> res B) r :
  rbind a f = Ok r <-> exists x, a = Ok x /\ f x = Ok r.
Proof.
  destruct a; simpl; split; intros H; eauto.
  - destruct H as [x [E H]]. injection E as <-. exact H.
  - discriminate.
  - destruct H as [x [E _]]; discriminate.
Qed.
Lemma of_opt_ok {A} e (o : option A) x : of_opt e o = Ok x <-> o = Some x.
Proof. destruct o; simpl; split; intros H; try discriminate; congruence. Qed.

Section P.
  Variables w wa unit : Z.
  Hypothesis Hw : 1 <= w.
  Hypothesis Hwa : 1 <= wa.
  Hypothesis Hunit : 0 < unit.

  (* the fee: executed size times factor (floor), converted at the minimum price, rounded UP *)
  Theorem fee_round_up size factor pmin fee : 0 <= size -> 0 <= factor -> 0 <= pmin ->
    compute w unit size factor pmin = Ok fee ->
    (factor = 0 /\ fee = 0) \/
    (factor <> 0 /\ pmin <> 0 /\ 0 <= fee /\
     pmin * (fee - 1) < size * factor / unit <= pmin * fee).
  Proof.
    intros Hs Hf Hp. unfold compute. destruct (factor =? 0) eqn:E.
    - intros H; injection H as <-. left. lia.
    - rewrite rbind_ok. intros (fv & H1 & H2). apply of_opt_ok in H1. apply of_opt_ok in H2.
      apply apply_factor_exact in H1; [|lia..]. destruct H1 as [-> H1].
      assert (0 <= size * factor / unit) by (apply div_nonneg; nia).
      apply round_up_div_sound in H2; [|lia..]. right. repeat split; try lia; nia.
  Qed.

  (* fails only for a zero price or an overflow of the value / the rounding sum *)
  Theorem compute_err size factor pmin e : 0 <= size -> 0 <= factor -> 0 <= pmin ->
    compute w unit size factor pmin = Err e ->
    e = 2 /\ factor <> 0 /\ (pmin = 0 \/ 2 ^ w <= size * factor / unit \/ 2 ^ w <= size * factor / unit + pmin).
  Proof.
    intros Hs Hf Hp. unfold compute. destruct (factor =? 0) eqn:E; [discriminate|].
    destruct (apply_factor w unit size factor) as [fv|] eqn:E1; cbn [of_opt rbind].
    - apply apply_factor_exact in E1; [|lia..]. destruct E1 as [-> E1].
      assert (0 <= size * factor / unit) by (apply div_nonneg; nia).
      destruct (round_up_div w (size * factor / unit) pmin) eqn:E2; [discriminate|].
      apply round_up_div_none in E2; [|lia..]. intros H0; injection H0 as <-. split; [reflexivity|]. split; [lia|]. tauto.
    - intros H0; injection H0 as <-. split; [reflexivity|]. split; [lia|].
      unfold apply_factor in E1. apply mul_div_none in E1; [|lia..]. right. left. lia.
  Qed.

  Theorem clamp_spec fee avail : clamp fee avail <= fee /\ clamp fee avail <= avail /\
    (clamp fee avail = fee \/ clamp fee avail = avail).
  Proof. unfold clamp. lia. Qed.

  (* increase: fee + remaining collateral increment = original increment, or the order fails *)
  Theorem increase_split_exact incr size factor pmin after fee : 0 <= incr < 2 ^ wa ->
    charge w wa unit incr size factor pmin = Ok (after, fee) ->
    after + fee = incr /\ 0 <= after /\ 0 <= fee /\ compute w unit size factor pmin = Ok fee.
  Proof.
    intros Hi. unfold charge. rewrite rbind_ok. intros (p & H1 & H2).
    rewrite rbind_ok in H2. destruct H2 as (p64 & H2 & H3). apply of_opt_ok in H2. apply chk_u_some in H2.
    destruct H2 as [H2 ->]. destruct (incr <? p) eqn:E; [discriminate|].
    rewrite rbind_ok in H3. destruct H3 as (a & H3 & H4). apply of_opt_ok in H3. apply chk_u_some in H3.
    destruct H3 as [H3 ->]. injection H4 as <- <-. repeat split; try lia. exact H1.
  Qed.

  Theorem increase_fails_cases incr size factor pmin e : 0 <= incr < 2 ^ wa ->
    charge w wa unit incr size factor pmin = Err e ->
    (compute w unit size factor pmin = Err e) \/
    (exists fee, compute w unit size factor pmin = Ok fee /\
                 ((e = 2 /\ (fee < 0 \/ 2 ^ wa <= fee)) \/ (e = 3 /\ incr < fee))).
  Proof.
    intros Hi. unfold charge. destruct (compute w unit size factor pmin) as [p|e0] eqn:E1; cbn [rbind].
    - intros H. right. exists p. split; [reflexivity|].
      destruct (chk_u wa p) as [p64|] eqn:E2; cbn [of_opt rbind] in H.
      + apply chk_u_some in E2. destruct E2 as [E2 ->]. destruct (incr <? p) eqn:E3.
        * injection H as <-. right. lia.
        * assert (E4 : usub wa incr p = Some (incr - p)) by (apply chk_u_some; lia).
          rewrite E4 in H. discriminate.
      + injection H as <-. apply chk_u_none in E2. left. lia.
    - intros H; injection H as <-. left. reflexivity.
  Qed.

  (* the increase path records exactly the fee it routed to the escrow *)
  Theorem increase_path_ok rec incr size factor pmin after rec' routed : 0 <= incr < 2 ^ wa -> 0 <= rec ->
    increase_path w wa unit rec incr size factor pmin = Ok (after, rec', routed) ->
    after + routed = incr /\ rec' = rec + routed /\ 0 <= routed /\ 0 <= after /\
    (factor = 0 -> routed = 0) /\ (factor <> 0 -> compute w unit size factor pmin = Ok routed).
  Proof.
    intros Hi Hr. unfold increase_path. destruct (factor =? 0) eqn:E.
    - intros H; injection H as <- <- <-. repeat split; lia.
    - rewrite rbind_ok. intros ([a f] & H1 & H2). apply increase_split_exact in H1; [|assumption].
      rewrite rbind_ok in H2. destruct H2 as (r & H2 & H3). unfold record in H2. apply of_opt_ok in H2.
      apply chk_u_some in H2. destruct H2 as [_ ->]. cbn [fst snd] in H3. injection H3 as <- <- <-.
      destruct H1 as (A & B & C & D). repeat split; try lia. intros _. exact D.
  Qed.

  (* decrease: the recorded fee of the execution never exceeds the final output amount *)
  Theorem decrease_recorded_le_output rec size factor pmin output rec' :
    0 <= size -> 0 <= factor -> 0 <= pmin -> 0 <= output -> 0 <= rec ->
    decrease_path w wa unit rec size factor pmin output = Ok rec' ->
    0 <= rec' - rec <= output /\
    (factor = 0 -> rec' = rec) /\
    (factor <> 0 -> exists fee, compute w unit size factor pmin = Ok fee /\ rec' - rec = Z.min fee output).
  Proof.
    intros Hs Hf Hp Ho Hr. unfold decrease_path. destruct (factor =? 0) eqn:E.
    - intros H; injection H as <-. repeat split; lia.
    - rewrite rbind_ok. intros (payable & H1 & H2).
      rewrite rbind_ok in H2. destruct H2 as (r64 & H2 & H3). apply of_opt_ok in H2. apply chk_u_some in H2.
      destruct H2 as [H2 ->]. unfold record in H3. apply of_opt_ok in H3. apply chk_u_some in H3. destruct H3 as [_ ->].
      unfold clamp in *. repeat split; try lia. intros _. exists payable. split; [exact H1|lia].
  Qed.

  (* settlement: at most the recorded amount, never more than the escrow holds; zeroes the record;
     repeating it is a no-op *)
  Theorem settle_spec rec escrow : 0 <= rec -> 0 <= escrow ->
    let '(t, rec', esc') := settle rec escrow in
    0 <= t <= rec /\ t <= escrow /\ t = Z.min rec escrow /\ rec' = 0 /\ esc' = escrow - t /\ 0 <= esc'.
  Proof. intros Hr He. unfold settle. destruct (rec =? 0) eqn:E; simpl; lia. Qed.

  Theorem settle_idempotent rec escrow :
    let '(t, rec', esc') := settle rec escrow in settle rec' esc' = (0, rec', esc').
  Proof. unfold settle. destruct (rec =? 0) eqn:E; simpl; [rewrite E|]; reflexivity. Qed.

  (* ---- order life: charges routed to the escrow, other deposits, settlements ---- *)
  Definition binv (s : Z * Z * Z) : Prop := let '(rec, esc, paid) := s in 0 <= rec <= esc /\ 0 <= paid.
  Definition wf_bop (o : bop) : Prop := match o with BCharge a | BDeposit a => 0 <= a | BSettle => True end.

  Lemma binv_step s o : binv s -> wf_bop o -> binv (bstep wa s o).
  Proof.
    destruct s as [[rec esc] paid]. intros (A & B) Ho. destruct o as [a|a|]; simpl in *.
    - unfold record. destruct (uadd wa rec a) as [r|] eqn:E; simpl; [|lia].
      apply chk_u_some in E. lia.
    - lia.
    - unfold settle. destruct (rec =? 0) eqn:E; simpl; lia.
  Qed.

  (* under the charging invariant (every recorded amount was routed into the escrow) the escrow
     always covers the record, every settlement pays the record in full, and the builder is never
     paid more than was charged *)
  Theorem order_life ops : Forall wf_bop ops ->
    forall s, binv s -> binv (fold_left (bstep wa) ops s).
  Proof.
    induction ops as [|o r IH]; intros Hf s Hs; simpl; [exact Hs|].
    inversion Hf; subst. apply IH; [assumption|]. apply binv_step; assumption.
  Qed.

  Theorem settle_pays_in_full rec esc paid : binv (rec, esc, paid) ->
    bstep wa (rec, esc, paid) BSettle = (0, esc - rec, paid + rec).
  Proof.
    intros (A & B). simpl. unfold settle. destruct (rec =? 0) eqn:E; simpl.
    - assert (rec = 0) by lia. subst. replace (esc - 0) with esc by lia. replace (paid + 0) with paid by lia. reflexivity.
    - rewrite Z.min_l by lia. reflexivity.
  Qed.
End P.
