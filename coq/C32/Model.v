(* C32 — builder fees: programs/store/src/ops/order.rs (compute_builder_fee_amount,
   clamp_builder_fee_amount, charge_builder_fee_on_collateral_increment,
   estimate_builder_fee_for_collateral_withdrawal, and the inline charge on the decrease path),
   states/order.rs (Order::record_builder_fee), instructions/builder_fee.rs
   (SettleBuilderFee::invoke).
   [w] = width of usd values / intermediate amounts (u128 in the code), [wa] = width of token
   amounts (u64), [unit] = MARKET_USD_UNIT.  Definitions only.

   Error codes: 2 TokenAmountOverflow, 3 BuilderFeeExceedsCollateral, 4 BuilderFeeSwapTypeNotAllowed. *)
From GV Require Import lib.Base C01.Model.
Open Scope Z_scope.

(* DecreasePositionSwapType *)
Inductive swap_type := NoSwap | PnlTokenToCollateralToken | CollateralToPnlToken.

Section BF.
  Variables w wa unit : Z.

  (* compute_builder_fee_amount(size_delta_usd, factor, price): price.pick_price(false) = min *)
  Definition compute (size factor pmin : Z) : res Z :=
    if factor =? 0 then Ok 0 else
    fv <-- of_opt 2 (apply_factor w unit size factor) ;;
    of_opt 2 (round_up_div w fv pmin).

  (* clamp_builder_fee_amount *)
  Definition clamp (fee avail : Z) : Z := Z.min fee avail.

  (* charge_builder_fee_on_collateral_increment : (increment after fee, fee) *)
  Definition charge (incr size factor pmin : Z) : res (Z * Z) :=
    p <-- compute size factor pmin ;;
    p64 <-- of_opt 2 (chk_u wa p) ;;
    if incr <? p64 then Err 3 else
    a <-- of_opt 2 (usub wa incr p64) ;;
    Ok (a, p64).

  (* estimate_builder_fee_for_collateral_withdrawal *)
  Definition estimate (wd size factor pmin : Z) (st : swap_type) : res Z :=
    if factor =? 0 then Ok wd else
    match st with
    | CollateralToPnlToken => Err 4
    | _ => e <-- compute size factor pmin ;; of_opt 2 (uadd w wd e)
    end.

  (* Order::record_builder_fee on the recorded amount [rec] *)
  Definition record (rec amt : Z) : res Z := of_opt 2 (uadd wa rec amt).

  (* increase path (execute_increase_position): charge, then record; factor = 0 leaves both untouched.
     Returns (collateral increment passed on to the position, recorded amount, amount routed to the escrow). *)
  Definition increase_path (rec incr size factor pmin : Z) : res (Z * Z * Z) :=
    if factor =? 0 then Ok (incr, rec, 0) else
    x <-- charge incr size factor pmin ;;
    r <-- record rec (snd x) ;;
    Ok (fst x, r, snd x).

  (* decrease path (execute_decrease_position): compute on the executed size at the final output
     token's price, clamp to the output amount, convert, record.  Returns the new recorded amount. *)
  Definition decrease_path (rec size factor pmin output : Z) : res Z :=
    if factor =? 0 then Ok rec else
    payable <-- compute size factor pmin ;;
    let paid := clamp payable output in
    r64 <-- of_opt 2 (chk_u wa paid) ;;
    record rec r64.

  (* SettleBuilderFee::invoke on (recorded amount, escrow balance):
     (amount transferred to the builder, new recorded amount, new escrow balance) *)
  Definition settle (rec escrow : Z) : Z * Z * Z :=
    if rec =? 0 then (0, rec, escrow)
    else let s := Z.min rec escrow in (s, 0, escrow - s).
End BF.

(* ---------- order life: charges (routed into the escrow) and settlements ---------- *)
Inductive bop :=
| BCharge (amt : Z)           (* a charge recorded on the order, the same amount routed to the escrow *)
| BDeposit (amt : Z)          (* other output routed to the escrow *)
| BSettle.

(* state: (recorded, escrow, total paid to the builder) *)
Definition bstep (wa : Z) (s : Z * Z * Z) (o : bop) : Z * Z * Z :=
  let '(rec, esc, paid) := s in
  match o with
  | BCharge a => match record wa rec a with Ok r => (r, esc + a, paid) | Err _ => s end
  | BDeposit a => (rec, esc + a, paid)
  | BSettle => let '(t, r, e) := settle rec esc in (r, e, paid + t)
  end.
