(* MK — market kernel shared by C04/C05/C06 (and usable by other properties).
   The market state exactly as harness/src/vmarket.rs::TestMarket holds it, the
   parameter records of crates/model/src/params, prices, and the base-market
   functions of crates/model/src/market/{base,utils}.rs and pool/{mod,delta,balance}.rs.
   Parametric in the bit width [w] and [unit] = 10^DECIMALS.  Definitions only. *)
From GV Require Import lib.Base C01.Model.
Open Scope Z_scope.

(* ---------- error kinds (crates/model/src/error.rs), as printed by the drivers ---------- *)
Definition E_EMPTY_SWAP : Z := 1.
Definition E_INVALID_ARG : Z := 2.
Definition E_COMP : Z := 3.          (* Error::Computation(_) *)
Definition E_OVERFLOW : Z := 4.
Definition E_CONVERT : Z := 5.
Definition E_DIV0 : Z := 6.          (* DividedByZero *)
Definition E_POW : Z := 7.           (* PowComputation *)
Definition E_MAX_POOL_AMOUNT : Z := 8.
Definition E_RESERVE : Z := 9.       (* InsufficientReserve *)
Definition E_PNL_FACTOR : Z := 10.   (* PnlFactorExceeded *)
Definition E_POOL_VALUE : Z := 11.   (* InvalidPoolValue *)
Definition E_MAX_POOL_VALUE : Z := 12.
Definition E_EMPTY_DEPOSIT : Z := 13.
Definition E_EMPTY_WITHDRAWAL : Z := 14.
Definition E_BORROW_EMPTY : Z := 15. (* UnableToGetBorrowingFactorEmptyPoolValue *)
Definition E_PANIC : Z := 99.        (* the Rust code panics (e.g. Price::mid overflow) *)

(* ---------- records ---------- *)
Record pool := mkPool { p_long : Z; p_short : Z }.
Record price := mkPrice { pr_min : Z; pr_max : Z }.
Record prices := mkPrices { px_index : price; px_long : price; px_short : price }.

Record impact_params := mkIP { ip_exponent : Z; ip_positive : Z; ip_negative : Z }.
(* FeeParams; discount_factor None is printed as 0 (FeeParams::discount_factor() does the same) *)
Record fee_params := mkFP { fp_positive : Z; fp_negative : Z; fp_receiver : Z; fp_discount : Z }.
Record position_params := mkPP {
  pp_min_size_usd : Z; pp_min_collateral_value : Z; pp_min_collateral_factor : Z;
  pp_min_collateral_factor_liq : option Z;
  pp_max_pos_impact : Z; pp_max_neg_impact : Z; pp_max_impact_liq : Z }.
Record distribution_params := mkDP { dp_distribute_factor : Z; dp_min_pool_amount : Z }.
Record borrowing_params := mkBP {
  bp_receiver : Z; bp_exp_long : Z; bp_exp_short : Z; bp_factor_long : Z; bp_factor_short : Z;
  bp_skip_smaller : bool }.
(* BorrowingFeeKinkModelParamsForOneSide (TestMarket uses the same for both sides) *)
Record kink_params := mkKP { kp_optimal_usage : Z; kp_base : Z; kp_above_optimal : Z }.
Record funding_params := mkFuP {
  fu_exponent : Z; fu_factor : Z; fu_increase : Z; fu_decrease : Z; fu_max : Z; fu_min : Z;
  fu_thr_stable : Z; fu_thr_decrease : Z }.
Record liquidation_params := mkLQ { lq_factor : Z; lq_receiver : Z }.
Record pnl_factors := mkPnlF { pf_deposit : Z; pf_withdrawal : Z; pf_trader : Z; pf_adl : Z }.

(* TestMarketConfig, field for field *)
Record config := mkConfig {
  c_swap_impact : impact_params;
  c_swap_fee : fee_params;
  c_position : position_params;
  c_position_impact : impact_params;
  c_order_fee : fee_params;
  c_distribution : distribution_params;
  c_borrowing : borrowing_params;
  c_kink : kink_params;
  c_funding : funding_params;
  c_reserve_factor : Z;
  c_oi_reserve_factor : Z;
  c_max_pnl : pnl_factors;
  c_min_pnl_after_adl : Z;
  c_max_pool_amount : Z;
  c_max_pool_value_for_deposit : Z;
  c_max_open_interest : Z;
  c_min_collateral_factor_for_oi : Z;
  c_ignore_oi_for_usage : bool;
  c_liquidation : liquidation_params }.

(* TestMarket minus config.  Clocks: None = never touched (HashMap entry absent). *)
Record mstate := mkState {
  total_supply : Z;
  value_to_amount_divisor : Z;
  funding_adj : Z;                       (* funding_amount_per_size_adjustment *)
  primary : pool;                        (* liquidity pool *)
  swap_impact : pool;
  fee : pool;                            (* claimable fee pool *)
  oi_long : pool; oi_short : pool;       (* open_interest.0 / .1 *)
  oit_long : pool; oit_short : pool;     (* open_interest_in_tokens.0 / .1 *)
  position_impact : pool;
  borrowing_factor : pool;
  funding_factor_per_second : Z;         (* signed *)
  fa_long : pool; fa_short : pool;       (* funding_amount_per_size *)
  cfa_long : pool; cfa_short : pool;     (* claimable_funding_amount_per_size *)
  cs_long : pool; cs_short : pool;       (* collateral_sum *)
  total_borrowing : pool;
  now : Z;
  clk_impact : option Z;                 (* ClockKind::PriceImpactDistribution *)
  clk_borrowing : option Z;
  clk_funding : option Z;
  vi_swaps : option pool;
  vi_positions : option pool }.

(* explicit update functions for the fields the liquidity/swap actions write *)
Definition set_primary (s : mstate) (p : pool) : mstate :=
  mkState (total_supply s) (value_to_amount_divisor s) (funding_adj s) p (swap_impact s) (fee s)
    (oi_long s) (oi_short s) (oit_long s) (oit_short s) (position_impact s) (borrowing_factor s)
    (funding_factor_per_second s) (fa_long s) (fa_short s) (cfa_long s) (cfa_short s) (cs_long s) (cs_short s)
    (total_borrowing s) (now s) (clk_impact s) (clk_borrowing s) (clk_funding s) (vi_swaps s) (vi_positions s).
Definition set_swap_impact (s : mstate) (p : pool) : mstate :=
  mkState (total_supply s) (value_to_amount_divisor s) (funding_adj s) (primary s) p (fee s)
    (oi_long s) (oi_short s) (oit_long s) (oit_short s) (position_impact s) (borrowing_factor s)
    (funding_factor_per_second s) (fa_long s) (fa_short s) (cfa_long s) (cfa_short s) (cs_long s) (cs_short s)
    (total_borrowing s) (now s) (clk_impact s) (clk_borrowing s) (clk_funding s) (vi_swaps s) (vi_positions s).
Definition set_fee (s : mstate) (p : pool) : mstate :=
  mkState (total_supply s) (value_to_amount_divisor s) (funding_adj s) (primary s) (swap_impact s) p
    (oi_long s) (oi_short s) (oit_long s) (oit_short s) (position_impact s) (borrowing_factor s)
    (funding_factor_per_second s) (fa_long s) (fa_short s) (cfa_long s) (cfa_short s) (cs_long s) (cs_short s)
    (total_borrowing s) (now s) (clk_impact s) (clk_borrowing s) (clk_funding s) (vi_swaps s) (vi_positions s).
Definition set_vi_swaps (s : mstate) (p : option pool) : mstate :=
  mkState (total_supply s) (value_to_amount_divisor s) (funding_adj s) (primary s) (swap_impact s) (fee s)
    (oi_long s) (oi_short s) (oit_long s) (oit_short s) (position_impact s) (borrowing_factor s)
    (funding_factor_per_second s) (fa_long s) (fa_short s) (cfa_long s) (cfa_short s) (cs_long s) (cs_short s)
    (total_borrowing s) (now s) (clk_impact s) (clk_borrowing s) (clk_funding s) p (vi_positions s).
Definition set_supply (s : mstate) (v : Z) : mstate :=
  mkState v (value_to_amount_divisor s) (funding_adj s) (primary s) (swap_impact s) (fee s)
    (oi_long s) (oi_short s) (oit_long s) (oit_short s) (position_impact s) (borrowing_factor s)
    (funding_factor_per_second s) (fa_long s) (fa_short s) (cfa_long s) (cfa_short s) (cs_long s) (cs_short s)
    (total_borrowing s) (now s) (clk_impact s) (clk_borrowing s) (clk_funding s) (vi_swaps s) (vi_positions s).

(* ---------- pools ---------- *)
Definition pamount (p : pool) (is_long : bool) : Z := if is_long then p_long p else p_short p.

(* token holdings of the market for one side: liquidity + swap impact + claimable fees
   (BaseMarketExt::expected_min_token_balance_excluding_collateral_amount_for_one_token_side) *)
Definition holdings (s : mstate) (is_long : bool) : Z :=
  pamount (primary s) is_long + pamount (swap_impact s) is_long + pamount (fee s) is_long.

(* PnlFactorKind *)
Inductive pnl_kind := MaxAfterDeposit | MaxAfterWithdrawal | MaxForTrader | ForAdl | MinAfterAdl.

(* pool::delta::BalanceChange *)
Inductive bchange := Improved | Worsened | Unchanged.

(* pool::delta::PoolDelta *)
Record pool_delta := mkPD {
  pd_cur_l : Z; pd_cur_s : Z; pd_next_l : Z; pd_next_s : Z;
  pd_dl : Z; pd_ds : Z; pd_lp : Z; pd_sp : Z }.

(* params::Fees *)
Record fees := mkFees { f_receiver : Z; f_pool : Z }.

Definition pnl_factor_config (cfg : config) (k : pnl_kind) : Z :=
  match k with
  | MaxAfterDeposit => pf_deposit (c_max_pnl cfg)
  | MaxAfterWithdrawal => pf_withdrawal (c_max_pnl cfg)
  | MaxForTrader => pf_trader (c_max_pnl cfg)
  | ForAdl => pf_adl (c_max_pnl cfg)
  | MinAfterAdl => c_min_pnl_after_adl cfg
  end.

(* ---------- prices (price.rs) ---------- *)
Definition pick (p : price) (maximize : bool) : Z := if maximize then pr_max p else pr_min p.
Definition pick_for_pnl (p : price) (is_long maximize : bool) : Z :=
  if xorb is_long maximize then pr_min p else pr_max p.
Definition has_zero (p : price) : bool := (pr_min p =? 0) || (pr_max p =? 0).
Definition side_price (ps : prices) (is_long : bool) : price := if is_long then px_long ps else px_short ps.

Section MK.
  Variable w : Z.
  Variable unit : Z.

  (* Price::checked_mid *)
  Definition mid (p : price) : option Z := s <- uadd w (pr_min p) (pr_max p) ;; udiv w s 2.
  Definition price_valid (p : price) : bool :=
    negb (pr_min p =? 0) && negb (pr_max p =? 0) && is_some (mid p).
  Definition prices_valid (ps : prices) : bool :=
    price_valid (px_index ps) && price_valid (px_long ps) && price_valid (px_short ps).

  (* TestPool::apply_delta_to_{long,short}_amount: add |d| when d > 0 (Overflow),
     otherwise subtract |d| (Computation) *)
  Definition apply_amt (x d : Z) : res Z :=
    if 0 <? d then of_opt E_OVERFLOW (uadd w x (Z.abs d)) else of_opt E_COMP (usub w x (Z.abs d)).

  (* Delta<&Signed> = (long : option, short : option); Pool::checked_apply_delta applies long first *)
  Definition delta := (option Z * option Z)%type.
  Definition delta_one (is_long : bool) (d : Z) : delta := if is_long then (Some d, None) else (None, Some d).
  Definition delta_both (is_long_first : bool) (a b : Z) : delta :=
    if is_long_first then (Some a, Some b) else (Some b, Some a).
  Definition pool_apply (p : pool) (d : delta) : res pool :=
    l <-- match fst d with Some x => apply_amt (p_long p) x | None => Ok (p_long p) end ;;
    s <-- match snd d with Some x => apply_amt (p_short p) x | None => Ok (p_short p) end ;;
    Ok (mkPool l s).

  (* Unsigned::to_opposite_signed: Convert, then Computation *)
  Definition to_opp (a : Z) : res Z := s <-- of_opt E_CONVERT (to_signed w a) ;; of_opt E_COMP (sneg w s).
  Definition to_sig (a : Z) : res Z := of_opt E_CONVERT (to_signed w a).

  (* ---------- pool/delta.rs ---------- *)
  Definition pool_delta_with_values (p : pool) (dl ds lp sp : Z) : res pool_delta :=
    cl <-- of_opt E_OVERFLOW (umul w (p_long p) lp) ;;
    cs <-- of_opt E_OVERFLOW (umul w (p_short p) sp) ;;
    nl <-- of_opt E_COMP (add_with_signed w cl dl) ;;
    ns <-- of_opt E_COMP (add_with_signed w cs ds) ;;
    Ok (mkPD cl cs nl ns dl ds lp sp).

  Definition pool_delta_with_amounts (p : pool) (al as_ lp sp : Z) : res pool_delta :=
    dl <-- of_opt E_COMP (mul_with_signed w lp al) ;;
    ds <-- of_opt E_COMP (mul_with_signed w sp as_) ;;
    pool_delta_with_values p dl ds lp sp.

  (* PriceImpactParams::adjusted_factors *)
  Definition adjusted_factors (ip : impact_params) : Z * Z :=
    if ip_negative ip <? ip_positive ip then (ip_negative ip, ip_negative ip)
    else (ip_positive ip, ip_negative ip).

  Definition apply_factors_e (v f e : Z) : res Z :=
    match apply_factors w unit v f e with
    | Ok x => Ok x
    | Err c => Err (if c =? 1 then E_POW else E_OVERFLOW)
    end.

  (* |a - b| as a signed value, negated unless [has_pos] *)
  Definition signed_delta (has_pos : bool) (a b : Z) : res Z :=
    d <-- to_sig (diff a b) ;;
    if has_pos then Ok d else of_opt E_COMP (sneg w d).

  Definition impact_same_side (ip : impact_params) (initial next : Z) : res Z :=
    let hp := next <? initial in
    let f := if hp then fst (adjusted_factors ip) else snd (adjusted_factors ip) in
    a <-- apply_factors_e initial f (ip_exponent ip) ;;
    b <-- apply_factors_e next f (ip_exponent ip) ;;
    signed_delta hp a b.

  Definition impact_cross_over (ip : impact_params) (initial next : Z) : res Z :=
    p <-- apply_factors_e initial (fst (adjusted_factors ip)) (ip_exponent ip) ;;
    n <-- apply_factors_e next (snd (adjusted_factors ip)) (ip_exponent ip) ;;
    signed_delta (n <? p) p n.

  Definition pd_initial (d : pool_delta) : Z := diff (pd_cur_l d) (pd_cur_s d).
  Definition pd_next (d : pool_delta) : Z := diff (pd_next_l d) (pd_next_s d).
  Definition pd_same_side (d : pool_delta) : bool :=
    Bool.eqb (pd_cur_l d <=? pd_cur_s d) (pd_next_l d <=? pd_next_s d).
  Definition pd_balance_change (d : pool_delta) : bchange :=
    if pd_next d =? pd_initial d then Unchanged
    else if pd_initial d <? pd_next d then Worsened else Improved.

  (* PoolDelta::price_impact *)
  Definition price_impact (ip : impact_params) (d : pool_delta) : res (Z * bchange) :=
    v <-- (if pd_same_side d then impact_same_side ip (pd_initial d) (pd_next d)
           else impact_cross_over ip (pd_initial d) (pd_next d)) ;;
    Ok (v, pd_balance_change d).

  (* ---------- params/fee.rs: FeeParams::apply_fees ---------- *)
  Definition fee_factor (fp : fee_params) (bc : bchange) : Z :=
    match bc with Improved => fp_positive fp | _ => fp_negative fp end.

  Definition apply_fees (fp : fee_params) (bc : bchange) (amount : Z) : option (Z * fees) :=
    f0 <- apply_factor w unit amount (fee_factor fp bc) ;;
    disc <- apply_factor w unit f0 (fp_discount fp) ;;
    f1 <- usub w f0 disc ;;
    recv <- apply_factor w unit f1 (fp_receiver fp) ;;
    fpool <- usub w f1 recv ;;
    after <- usub w amount f1 ;;
    Some (after, mkFees recv fpool).

  (* ---------- market/base.rs ---------- *)
  Section WithConfig.
    Variable cfg : config.

    Definition side_value (s : mstate) (ps : prices) (is_long maximize : bool) : res Z :=
      of_opt E_OVERFLOW (umul w (pamount (primary s) is_long) (pick (side_price ps is_long) maximize)).

    (* Merged balances: open_interest().amount(is_long) = long + short of the side's pool *)
    Definition merged (p : pool) : res Z := of_opt E_OVERFLOW (uadd w (p_long p) (p_short p)).
    Definition oi_amount (s : mstate) (is_long : bool) : res Z :=
      merged (if is_long then oi_long s else oi_short s).
    Definition oit_amount (s : mstate) (is_long : bool) : res Z :=
      merged (if is_long then oit_long s else oit_short s).

    (* BaseMarketExt::pnl *)
    Definition pnl (s : mstate) (index : price) (is_long maximize : bool) : res Z :=
      oi <-- oi_amount s is_long ;;
      oit <-- oit_amount s is_long ;;
      if (oi =? 0) && (oit =? 0) then Ok 0 else
      v <-- of_opt E_COMP (umul w oit (pick_for_pnl index is_long maximize)) ;;
      if is_long then
        vs <-- to_sig v ;; os <-- to_sig oi ;; of_opt E_COMP (ssub w vs os)
      else
        os <-- to_sig oi ;; vs <-- to_sig v ;; of_opt E_COMP (ssub w os vs).

    (* pnl_factor_with_pool_value *)
    Definition pnl_factor_with_pool_value (s : mstate) (ps : prices) (is_long maximize : bool) : res (Z * Z) :=
      pv <-- side_value s ps is_long (negb maximize) ;;
      p <-- pnl s (px_index ps) is_long maximize ;;
      f <-- of_opt E_COMP (div_to_factor_signed w unit p pv) ;;
      Ok (f, pv).

    Definition validate_pool_amount (s : mstate) (is_long : bool) : res Datatypes.unit :=
      if c_max_pool_amount cfg <? pamount (primary s) is_long then Err E_MAX_POOL_AMOUNT else Ok tt.

    Definition validate_pnl_factor (s : mstate) (ps : prices) (k : pnl_kind) (is_long : bool) : res Datatypes.unit :=
      fp <-- pnl_factor_with_pool_value s ps is_long true ;;
      if (0 <? fst fp) && (pnl_factor_config cfg k <? Z.abs (fst fp)) then Err E_PNL_FACTOR else Ok tt.

    Definition validate_max_pnl (s : mstate) (ps : prices) (kl ks : pnl_kind) : res Datatypes.unit :=
      _ <-- validate_pnl_factor s ps kl true ;;
      validate_pnl_factor s ps ks false.

    Definition reserved_value (s : mstate) (index : price) (is_long : bool) : res Z :=
      if is_long then
        t <-- oit_amount s true ;; of_opt E_OVERFLOW (umul w t (pr_max index))
      else oi_amount s false.

    Definition validate_reserve (s : mstate) (ps : prices) (is_long : bool) : res Datatypes.unit :=
      pv <-- side_value s ps is_long false ;;
      mx <-- of_opt E_COMP (apply_factor w unit pv (c_reserve_factor cfg)) ;;
      r <-- reserved_value s (px_index ps) is_long ;;
      if mx <? r then Err E_RESERVE else Ok tt.

    (* BaseMarketExt::checked_apply_delta: liquidity pool and (if present) the virtual inventory *)
    Definition market_apply_delta (s : mstate) (d : delta) : res (pool * option pool) :=
      l <-- pool_apply (primary s) d ;;
      v <-- match vi_swaps s with
            | Some p => x <-- pool_apply p d ;; Ok (Some x)
            | None => Ok None
            end ;;
      Ok (l, v).

    (* BaseMarketMutExt::apply_delta (one side), writing both pools *)
    Definition apply_delta (s : mstate) (is_long : bool) (d : Z) : res mstate :=
      lv <-- market_apply_delta s (delta_one is_long d) ;;
      let s1 := set_primary s (fst lv) in
      Ok (match snd lv with Some v => set_vi_swaps s1 (Some v) | None => s1 end).

    (* ---------- market/swap.rs ---------- *)
    (* SwapMarketExt::swap_impact_value *)
    Definition swap_impact_value (s : mstate) (d : pool_delta) (include_vi : bool) : res (Z * bchange) :=
      imp <-- price_impact (c_swap_impact cfg) d ;;
      if negb (fst imp <? 0) || negb include_vi then Ok imp else
      match vi_swaps s with
      | None => Ok imp
      | Some vi =>
          vd <-- pool_delta_with_values vi (pd_dl d) (pd_ds d) (pd_lp d) (pd_sp d) ;;
          vimp <-- price_impact (c_swap_impact cfg) vd ;;
          if fst vimp <? fst imp then Ok vimp else Ok imp
      end.

    (* SwapMarketExt::swap_impact_amount_with_cap: (signed amount, capped diff value) *)
    Definition swap_impact_amount_with_cap (s : mstate) (is_long_token : bool) (p : price) (usd : Z)
      : res (Z * Z) :=
      if has_zero p then Err E_DIV0 else
      if 0 <? usd then
        mp <-- to_sig (pr_max p) ;;
        amount <-- of_opt E_COMP (sdiv w usd mp) ;;
        mx <-- to_sig (pamount (swap_impact s) is_long_token) ;;
        if mx <? amount then
          capped <-- of_opt E_COMP (d <- ssub w amount mx ;; umul w (Z.abs d) (pr_max p)) ;;
          Ok (mx, capped)
        else Ok (amount, 0)
      else if usd <? 0 then
        pm <-- to_sig (pr_min p) ;;
        amount <-- of_opt E_COMP (a <- ssub w usd pm ;; b <- sadd w a 1 ;; sdiv w b pm) ;;
        Ok (amount, 0)
      else Ok (0, 0).

    (* SwapMarketMutExt::apply_swap_impact_value_with_cap: returns (state, |delta|) *)
    Definition apply_swap_impact_value_with_cap (s : mstate) (is_long_token : bool) (p : price) (usd : Z)
      : res (mstate * Z) :=
      ac <-- swap_impact_amount_with_cap s is_long_token p usd ;;
      d <-- of_opt E_COMP (sneg w (fst ac)) ;;
      ip <-- pool_apply (swap_impact s) (delta_one is_long_token d) ;;
      Ok (set_swap_impact s ip, Z.abs d).
  End WithConfig.
End MK.
