(* MK.Liquidity — model of crates/model/src/market/{liquidity,borrowing,position_impact,utils}.rs
   (pool_value with pending borrowing fees, capped pnl and the impact pool value) and of
   action/{deposit,withdraw}.rs.  Definitions only. *)
From GV Require Import lib.Base C01.Model MK.Market.
Open Scope Z_scope.

Record deposit_report := mkDR { dr_minted : Z; dr_impact : Z; dr_fees_long : fees; dr_fees_short : fees }.
Record withdraw_report := mkWR { wr_long_out : Z; wr_short_out : Z; wr_fees_long : fees; wr_fees_short : fees }.

(* quantities of a deposit leg exposed for the C06 statements *)
Record deposit_leg := mkLeg {
  lg_after_fees : Z;       (* amount after fees *)
  lg_amount : Z;           (* amount credited (after fees and negative impact) *)
  lg_pos_amount : Z;       (* positive impact amount moved from the opposite impact pool *)
  lg_neg_amount : Z;       (* negative impact amount moved into the impact pool *)
  lg_mint_amount : Z;      (* minted for lg_amount *)
  lg_mint_impact : Z }.    (* minted for lg_pos_amount *)
Definition leg0 : deposit_leg := mkLeg 0 0 0 0 0 0.

Section Liq.
  Variable w : Z.
  Variable unit : Z.
  Variable cfg : config.

  (* TestMarket::passed_in_seconds: now.saturating_sub(clock), absent clock = now *)
  Definition passed (s : mstate) (clk : option Z) : Z :=
    match clk with Some c => Z.max 0 (now s - c) | None => 0 end.

  (* ---------- market/utils.rs ---------- *)
  Definition usage_factor (s : mstate) (is_long : bool) (reserved pv : Z) : res Z :=
    mx <-- of_opt E_COMP (apply_factor w unit pv (c_oi_reserve_factor cfg)) ;;
    ru <-- of_opt E_COMP (div_to_factor w unit reserved mx false) ;;
    if c_ignore_oi_for_usage cfg then Ok ru else
    oi <-- oi_amount w s is_long ;;
    ou <-- of_opt E_COMP (div_to_factor w unit oi (c_max_open_interest cfg) false) ;;
    Ok (if ou <? ru then ru else ou).

  Definition cap_pnl (is_long : bool) (p pv : Z) (k : pnl_kind) : res Z :=
    if 0 <? p then
      m <-- of_opt E_COMP (apply_factor w unit pv (pnl_factor_config cfg k)) ;;
      ms <-- to_sig w m ;;
      Ok (if ms <? p then ms else p)
    else Ok p.

  (* ---------- params/fee.rs: BorrowingFeeKinkModelParams::borrowing_factor_per_second ---------- *)
  Definition kink_borrowing_factor_per_second (s : mstate) (is_long : bool) (reserved pv : Z)
    : res (option Z) :=
    let k := c_kink cfg in
    if kp_optimal_usage k =? 0 then Ok None else
    usage <-- usage_factor s is_long reserved pv ;;
    bf <-- of_opt E_COMP (apply_factor w unit usage (kp_base k)) ;;
    if (kp_optimal_usage k <? usage) && (kp_optimal_usage k <? unit) then
      diff <-- of_opt E_COMP (usub w usage (kp_optimal_usage k)) ;;
      add <-- (if kp_base k <? kp_above_optimal k
               then of_opt E_COMP (usub w (kp_above_optimal k) (kp_base k)) else Ok 0) ;;
      dv <-- of_opt E_COMP (usub w unit (kp_optimal_usage k)) ;;
      r <-- of_opt E_COMP (a <- mul_div w add diff dv ;; uadd w bf a) ;;
      Ok (Some r)
    else Ok (Some bf).

  (* ---------- market/borrowing.rs ---------- *)
  Definition bp_exponent (is_long : bool) : Z :=
    if is_long then bp_exp_long (c_borrowing cfg) else bp_exp_short (c_borrowing cfg).
  Definition bp_factor (is_long : bool) : Z :=
    if is_long then bp_factor_long (c_borrowing cfg) else bp_factor_short (c_borrowing cfg).

  Definition borrowing_factor_per_second (s : mstate) (is_long : bool) (ps : prices) : res Z :=
    reserved <-- reserved_value w s (px_index ps) is_long ;;
    if reserved =? 0 then Ok 0 else
    skip <-- (if bp_skip_smaller (c_borrowing cfg) then
                li <-- oi_amount w s true ;;
                si <-- oi_amount w s false ;;
                Ok ((is_long && (li <? si)) || (negb is_long && (si <? li)))
              else Ok false) ;;
    if skip then Ok 0 else
    pv <-- side_value w s ps is_long false ;;
    if pv =? 0 then Err E_BORROW_EMPTY else
    k <-- kink_borrowing_factor_per_second s is_long reserved pv ;;
    match k with
    | Some f => Ok f
    | None =>
        re <-- of_opt E_COMP (apply_exponent_factor w unit reserved (bp_exponent is_long)) ;;
        f <-- of_opt E_COMP (div_to_factor w unit re pv false) ;;
        of_opt E_COMP (apply_factor w unit f (bp_factor is_long))
    end.

  Definition next_cumulative_borrowing_factor (s : mstate) (is_long : bool) (ps : prices) (duration : Z)
    : res (Z * Z) :=
    f <-- borrowing_factor_per_second s is_long ps ;;
    d <-- of_opt E_COMP (umul w f duration) ;;
    n <-- of_opt E_COMP (uadd w (pamount (borrowing_factor s) is_long) d) ;;
    Ok (n, d).

  Definition total_pending_borrowing_fees (s : mstate) (ps : prices) (is_long : bool) : res Z :=
    oi <-- oi_amount w s is_long ;;
    nf <-- next_cumulative_borrowing_factor s is_long ps (passed s (clk_borrowing s)) ;;
    of_opt E_COMP (t <- apply_factor w unit oi (fst nf) ;; usub w t (pamount (total_borrowing s) is_long)).

  (* ---------- market/position_impact.rs ---------- *)
  Definition pending_impact_distribution (s : mstate) (duration : Z) : res (Z * Z) :=
    let cur := p_long (position_impact s) in
    let dp := c_distribution cfg in
    if (dp_distribute_factor dp =? 0) || (cur <=? dp_min_pool_amount dp) then Ok (0, cur) else
    mx <-- of_opt E_COMP (usub w cur (dp_min_pool_amount dp)) ;;
    d0 <-- of_opt E_COMP (apply_factor w unit duration (dp_distribute_factor dp)) ;;
    let d := if mx <? d0 then mx else d0 in
    n <-- of_opt E_COMP (usub w cur d) ;;
    Ok (d, n).

  (* ---------- market/liquidity.rs: LiquidityMarketExt::pool_value (signed) ---------- *)
  Definition pool_value (s : mstate) (ps : prices) (k : pnl_kind) (maximize : bool) : res Z :=
    lv <-- side_value w s ps true maximize ;;
    sv <-- side_value w s ps false maximize ;;
    t <-- of_opt E_OVERFLOW (uadd w lv sv) ;;
    pv0 <-- to_sig w t ;;
    bl <-- total_pending_borrowing_fees s ps true ;;
    bs <-- total_pending_borrowing_fees s ps false ;;
    tb <-- of_opt E_COMP (uadd w bl bs) ;;
    tbp <-- of_opt E_COMP (f <- usub w unit (bp_receiver (c_borrowing cfg)) ;; apply_factor w unit tb f) ;;
    tbs <-- to_sig w tbp ;;
    pv1 <-- of_opt E_COMP (sadd w pv0 tbs) ;;
    lp0 <-- pnl w s (px_index ps) true (negb maximize) ;;
    lp <-- cap_pnl true lp0 lv k ;;
    sp0 <-- pnl w s (px_index ps) false (negb maximize) ;;
    sp <-- cap_pnl false sp0 sv k ;;
    net <-- of_opt E_COMP (sadd w lp sp) ;;
    pv2 <-- of_opt E_COMP (ssub w pv1 net) ;;
    dn <-- pending_impact_distribution s (passed s (clk_impact s)) ;;
    iv <-- of_opt E_COMP (umul w (snd dn) (pick (px_index ps) (negb maximize))) ;;
    ivs <-- to_sig w iv ;;
    of_opt E_COMP (ssub w pv2 ivs).

  Definition validate_pool_value_for_deposit (s : mstate) (ps : prices) (is_long : bool) : res Datatypes.unit :=
    pv <-- side_value w s ps is_long true ;;
    if c_max_pool_value_for_deposit cfg <? pv then Err E_MAX_POOL_VALUE else Ok tt.

  (* ---------- action/deposit.rs ---------- *)
  (* Deposit::execute_deposit for one token; [supply] is total_supply at the start of the deposit *)
  Definition execute_deposit (s : mstate) (ps : prices) (is_long : bool) (amount0 : Z) (pool_value_ : Z)
             (impact : Z) (bc : bchange) : res (mstate * Z * fees * deposit_leg) :=
    let supply := total_supply s in
    if (pool_value_ =? 0) && negb (supply =? 0) then Err E_POOL_VALUE else
    let price := side_price ps is_long in
    let opp := side_price ps (negb is_long) in
    af <-- of_opt E_COMP (apply_fees w unit (c_swap_fee cfg) bc amount0) ;;
    let after := fst af in
    let fs := snd af in
    rs <-- to_sig w (f_receiver fs) ;;
    cf <-- pool_apply w (fee s) (delta_one is_long rs) ;;
    let s1 := set_fee s cf in
    let imp := if (0 <? impact) && (supply =? 0) then 0 else impact in
    st <-- (if 0 <? imp then
              sa <-- apply_swap_impact_value_with_cap w s1 (negb is_long) opp imp ;;
              let pa := snd sa in
              v <-- of_opt E_OVERFLOW (umul w pa (pr_max opp)) ;;
              m1 <-- of_opt E_COMP (usd_to_mt w v pool_value_ supply (value_to_amount_divisor s)) ;;
              m1' <-- of_opt E_OVERFLOW (uadd w 0 m1) ;;
              pas <-- to_sig w pa ;;
              s3 <-- apply_delta w (fst sa) (negb is_long) pas ;;
              _ <-- validate_pool_amount cfg s3 (negb is_long) ;;
              Ok (s3, m1', after, pa, 0)
            else if imp <? 0 then
              sa <-- apply_swap_impact_value_with_cap w s1 is_long price imp ;;
              a <-- of_opt E_COMP (usub w after (snd sa)) ;;
              Ok (fst sa, 0, a, 0, snd sa)
            else Ok (s1, 0, after, 0, 0)) ;;
    let '(s3, mint1, amount, pa, na) := st in
    v <-- of_opt E_OVERFLOW (umul w amount (pr_min price)) ;;
    m2 <-- of_opt E_COMP (usd_to_mt w v pool_value_ supply (value_to_amount_divisor s)) ;;
    mint <-- of_opt E_OVERFLOW (uadd w mint1 m2) ;;
    d <-- of_opt E_OVERFLOW (uadd w amount (f_pool fs)) ;;
    ds <-- to_sig w d ;;
    s4 <-- apply_delta w s3 is_long ds ;;
    _ <-- validate_pool_amount cfg s4 is_long ;;
    _ <-- validate_pool_value_for_deposit s4 ps is_long ;;
    Ok (s4, mint, fs, mkLeg after amount pa na m2 mint1).

  Record deposit_trace := mkDT { dt_pool_value : Z; dt_long : deposit_leg; dt_short : deposit_leg }.

  (* Deposit::try_new + execute.  The Rust action mutates the market in place; on [Err] the
     caller discards the partially written market (transaction revert), which the model
     expresses by returning no state. *)
  Definition deposit_exec_trace (s : mstate) (l sh : Z) (ps : prices)
    : res (mstate * deposit_report * deposit_trace) :=
    if (l =? 0) && (sh =? 0) then Err E_EMPTY_DEPOSIT else
    _ <-- validate_max_pnl w unit cfg s ps MaxAfterDeposit MaxAfterDeposit ;;
    la <-- to_sig w l ;;
    sa <-- to_sig w sh ;;
    mid_l <-- of_opt E_PANIC (mid w (px_long ps)) ;;
    mid_s <-- of_opt E_PANIC (mid w (px_short ps)) ;;
    d <-- pool_delta_with_amounts w (primary s) la sa mid_l mid_s ;;
    imp <-- swap_impact_value w unit cfg s d true ;;
    let ltv := Z.abs (pd_dl d) in
    let stv := Z.abs (pd_ds d) in
    pv <-- pool_value s ps MaxAfterDeposit true ;;
    if pv <? 0 then Err E_POOL_VALUE else
    r1 <-- (if l =? 0 then Ok (s, 0, mkFees 0 0, leg0) else
              tot <-- of_opt E_OVERFLOW (uadd w ltv stv) ;;
              adj <-- of_opt E_COMP (mul_div_signed w ltv (fst imp) tot) ;;
              execute_deposit s ps true l (Z.abs pv) adj (snd imp)) ;;
    let '(s1, m1, f1, g1) := r1 in
    r2 <-- (if sh =? 0 then Ok (s1, 0, mkFees 0 0, leg0) else
              tot <-- of_opt E_OVERFLOW (uadd w ltv stv) ;;
              adj <-- of_opt E_COMP (mul_div_signed w stv (fst imp) tot) ;;
              execute_deposit s1 ps false sh (Z.abs pv) adj (snd imp)) ;;
    let '(s2, m2, f2, g2) := r2 in
    m <-- of_opt E_OVERFLOW (uadd w m1 m2) ;;
    sup <-- of_opt E_OVERFLOW (uadd w (total_supply s2) m) ;;
    Ok (set_supply s2 sup, mkDR m (fst imp) f1 f2, mkDT (Z.abs pv) g1 g2).

  Definition deposit_exec (s : mstate) (l sh : Z) (ps : prices) : res (mstate * deposit_report) :=
    r <-- deposit_exec_trace s l sh ps ;; Ok (fst r).

  (* ---------- action/withdraw.rs ---------- *)
  Record withdraw_trace := mkWT { wt_pool_value : Z; wt_mtv : Z; wt_long_gross : Z; wt_short_gross : Z }.

  Definition withdraw_exec_trace (s : mstate) (amount : Z) (ps : prices)
    : res (mstate * withdraw_report * withdraw_trace) :=
    if amount =? 0 then Err E_EMPTY_WITHDRAWAL else
    if negb (prices_valid w ps) then Err E_INVALID_ARG else
    pv <-- pool_value s ps MaxAfterWithdrawal false ;;
    if pv <? 0 then Err E_POOL_VALUE else
    if pv =? 0 then Err E_POOL_VALUE else
    let pl := px_long ps in
    let psh := px_short ps in
    lval <-- of_opt E_OVERFLOW (umul w (p_long (primary s)) (pr_max pl)) ;;
    sval <-- of_opt E_OVERFLOW (umul w (p_short (primary s)) (pr_max psh)) ;;
    tot <-- of_opt E_COMP (uadd w lval sval) ;;
    mtv <-- of_opt E_COMP (mt_to_usd w amount (Z.abs pv) (total_supply s)) ;;
    la <-- of_opt E_COMP (a <- mul_div w mtv lval tot ;; udiv w a (pr_max pl)) ;;
    sa <-- of_opt E_COMP (a <- mul_div w mtv sval tot ;; udiv w a (pr_max psh)) ;;
    lf <-- of_opt E_COMP (apply_fees w unit (c_swap_fee cfg) Worsened la) ;;
    sf <-- of_opt E_COMP (apply_fees w unit (c_swap_fee cfg) Worsened sa) ;;
    rl <-- to_sig w (f_receiver (snd lf)) ;;
    cf1 <-- pool_apply w (fee s) (delta_one true rl) ;;
    rs <-- to_sig w (f_receiver (snd sf)) ;;
    cf2 <-- pool_apply w cf1 (delta_one false rs) ;;
    let s1 := set_fee s cf2 in
    dl0 <-- of_opt E_OVERFLOW (uadd w (f_receiver (snd lf)) (fst lf)) ;;
    dl <-- to_opp w dl0 ;;
    s2 <-- apply_delta w s1 true dl ;;
    ds0 <-- of_opt E_OVERFLOW (uadd w (f_receiver (snd sf)) (fst sf)) ;;
    ds <-- to_opp w ds0 ;;
    s3 <-- apply_delta w s2 false ds ;;
    _ <-- validate_reserve w unit cfg s3 ps true ;;
    _ <-- validate_reserve w unit cfg s3 ps false ;;
    _ <-- validate_max_pnl w unit cfg s3 ps MaxAfterWithdrawal MaxAfterWithdrawal ;;
    sup <-- of_opt E_COMP (usub w (total_supply s3) amount) ;;
    Ok (set_supply s3 sup, mkWR (fst lf) (fst sf) (snd lf) (snd sf), mkWT (Z.abs pv) mtv la sa).

  Definition withdraw_exec (s : mstate) (amount : Z) (ps : prices) : res (mstate * withdraw_report) :=
    r <-- withdraw_exec_trace s amount ps ;; Ok (fst r).
End Liq.
