(* MK.SwapProofs — what a successful / failed swap does to the pools (used by C04, C05). *)
From GV Require Import lib.Base lib.DivLemmas C01.Model C01.Proofs MK.Market MK.Swap MK.MarketProofs.
Open Scope Z_scope.
Ltac Zify.zify_post_hook ::= Z.div_mod_to_equations.

(* all fields a swap never writes *)
Definition same_rest (a b : mstate) : Prop :=
  value_to_amount_divisor a = value_to_amount_divisor b /\ funding_adj a = funding_adj b /\
  oi_long a = oi_long b /\ oi_short a = oi_short b /\ oit_long a = oit_long b /\ oit_short a = oit_short b /\
  position_impact a = position_impact b /\ borrowing_factor a = borrowing_factor b /\
  funding_factor_per_second a = funding_factor_per_second b /\
  fa_long a = fa_long b /\ fa_short a = fa_short b /\ cfa_long a = cfa_long b /\ cfa_short a = cfa_short b /\
  cs_long a = cs_long b /\ cs_short a = cs_short b /\ total_borrowing a = total_borrowing b /\
  now a = now b /\ clk_impact a = clk_impact b /\ clk_borrowing a = clk_borrowing b /\
  clk_funding a = clk_funding b /\ vi_positions a = vi_positions b.

Lemma same_rest_refl a : same_rest a a.
Proof. unfold same_rest. repeat split. Qed.
Lemma same_rest_trans a b c : same_rest a b -> same_rest b c -> same_rest a c.
Proof. unfold same_rest. intuition congruence. Qed.

Section P.
  Variable w : Z.
  Hypothesis Hw : 1 <= w.
  Variable unit : Z.
  Hypothesis Hunit : 0 < unit.
  Variable cfg : config.

  Notation in_range := (in_range w).
  Notation wf_pool := (wf_pool w).
  Notation wf_price := (wf_price w).

  (* the two branches of try_execute *)
  Lemma swap_amounts_ok s il pin pout after impact tin out pao pia cin ip :
    wf_price pin -> wf_price pout -> wf_pool (swap_impact s) -> 0 <= after ->
    swap_amounts w s il pin pout after impact = Ok (tin, out, pao, pia, cin, ip) ->
    pamount ip il = pamount (swap_impact s) il + after - tin /\
    pamount ip (negb il) = pamount (swap_impact s) (negb il) + pao - out /\
    wf_pool ip /\ 0 <= tin /\ 0 <= pia /\ 0 <= cin /\ 0 <= pao /\ 0 < pr_max pout /\
    pr_max pout * pao <= tin * pr_min pin < pr_max pout * pao + pr_max pout /\
    (0 < impact -> tin = after + cin /\ out = pao + pia /\
        pia <= pamount (swap_impact s) (negb il) /\ cin <= pamount (swap_impact s) il /\
        pia * pr_max pout + cin * pr_max pin <= impact) /\
    (impact <= 0 -> tin = after - pia /\ out = pao /\ cin = 0 /\ 0 < tin /\
        (impact = 0 -> pia = 0) /\
        (impact < 0 -> 0 < pr_min pin /\ pr_min pin * (pia - 1) < - impact <= pr_min pin * pia)).
  Proof.
    intros Hpin Hpout Hip Haft H. unfold swap_amounts in H.
    pose proof Hpin as [[Hin0 _] [Hin1 _]]. pose proof Hpout as [[Hout0 _] [Hout1 _]].
    destruct (0 <? impact) eqn:Himp.
    - (* positive impact *)
      rinv H. destruct x as [spa capped]. cbn [fst snd] in *.
      app swap_impact_amount_pos E.
      destruct E as (Hspa & Hc0 & Hmx & Hsum & _ & _).
      destruct x0 as [cdin tin']. cbn [fst snd] in *.
      assert (Hcd : 0 <= cdin <= pamount (swap_impact s) il /\ tin' = after + cdin /\ cdin * pr_max pin <= capped).
      { destruct (capped =? 0) eqn:C0.
        - injection E0 as <- <-. pose proof (pamount_range w _ il Hip) as R. unfold MarketProofs.in_range in R. lia.
        - rinv E0. app to_sig_ok E. destruct E as [-> _]. destruct x0 as [a2 c2]. cbn [fst snd] in *.
          app swap_impact_amount_pos E6.
          destruct E6 as (Ha2 & Hc2 & Hmx2 & Hsum2 & _ & _).
          apply uadd_some in E7. destruct E7 as [_ E7]. injection E0 as <- <-.
          rewrite Z.abs_eq in E7 by lia. nia. }
      apply sneg_some in E1. destruct E1 as [_ ->]. apply sneg_some in E2. destruct E2 as [_ ->].
      app pool_apply_both E3. rewrite Bool.negb_involutive in E3. destruct E3 as (I1 & I2 & I3).
      app mul_div_floor E4. apply uadd_some in E5. destruct E5 as [_ ->].
      injection H as <- <- <- <- <- <-.
      destruct Hcd as (Hcd1 & -> & Hcd2).
      rewrite (Z.abs_eq spa), (Z.abs_eq cdin) by lia.
      split; [lia|]. split; [lia|]. split; [exact I3|].
      repeat split; try lia; try nia.
    - (* non-positive impact *)
      rinv H. destruct x as [spa c]. cbn [fst snd] in *.
      app swap_impact_amount_nonpos E.
      destruct E as (Hspa & -> & Hz & Hn).
      apply sneg_some in E0. destruct E0 as [_ ->].
      app pool_apply_one E1. destruct E1 as (I1 & I2 & I3).
      apply usub_some in E2. destruct E2 as [R2 ->].
      app mul_div_floor E3.
      injection H as <- <- <- <- <- <-.
      rewrite (Z.abs_neq spa) in * by lia.
      assert (Hwf : wf_pool x1).
      { destruct Hip as [A B]. unfold MarketProofs.wf_pool, MarketProofs.in_range in *.
        destruct il; cbn [pamount negb] in *; lia. }
      assert (0 < pr_max pout).
      { (* a zero divisor would have made mul_div fail *) nia. }
      split; [lia|]. split; [lia|]. split; [exact Hwf|].
      repeat split; try lia; try nia.
  Qed.

  Notation wf_state := (wf_state w).
  Notation wf_prices := (wf_prices w).

  (* the virtual inventory for swaps, when present, moves exactly like the liquidity pool *)
  Definition vi_follows (a b : mstate) : Prop :=
    match vi_swaps a, vi_swaps b with
    | Some x, Some y =>
        p_long y - p_long x = p_long (primary b) - p_long (primary a) /\
        p_short y - p_short x = p_short (primary b) - p_short (primary a)
    | None, None => True
    | _, _ => False
    end.

  Lemma side_price_wf ps il : wf_prices ps -> wf_price (side_price ps il).
  Proof. intros (_ & A & B). destruct il; assumption. Qed.

  Lemma pool_apply_delta_eq p p' d x x' :
    pool_apply w p d = Ok p' -> pool_apply w x d = Ok x' ->
    p_long x' - p_long x = p_long p' - p_long p /\ p_short x' - p_short x = p_short p' - p_short p.
  Proof.
    unfold pool_apply. intros H1 H2. rinv H1. rinv H2. injection H1 as <-. injection H2 as <-. cbn.
    destruct d as [[dl|] [ds|]]; cbn [fst snd] in *;
      repeat match goal with
             | H : apply_amt _ _ _ = Ok _ |- _ => apply apply_amt_ok in H; destruct H as [H _]; subst
             | H : Ok _ = Ok _ |- _ => injection H as <-
             end; lia.
  Qed.

  Lemma pool_apply_wf p d p' : wf_pool p -> pool_apply w p d = Ok p' -> wf_pool p'.
  Proof.
    unfold pool_apply. intros [A B] H. rinv H. injection H as <-. split; cbn.
    - destruct (fst d); [apply apply_amt_ok in E; tauto | injection E as <-; exact A].
    - destruct (snd d); [apply apply_amt_ok in E0; tauto | injection E0 as <-; exact B].
  Qed.

  (* Everything a successful swap guarantees (C04 ledger + C05 value facts). *)
  Record swap_facts (s s' : mstate) (il : bool) (amount : Z) (ps : prices) (r : swap_report) (t : swap_trace) : Prop := {
    sf_hold_in : holdings s' il = holdings s il + amount;
    sf_hold_out : holdings s' (negb il) = holdings s (negb il) - sr_out r;
    sf_supply : total_supply s' = total_supply s;
    sf_rest : same_rest s s';
    sf_vi : vi_follows s s';
    sf_wf : wf_state s';
    sf_fee_in : pamount (fee s') il = pamount (fee s) il + f_receiver (sr_fees r);
    sf_fee_out : pamount (fee s') (negb il) = pamount (fee s) (negb il);
    sf_prim_in : pamount (primary s') il = pamount (primary s) il + st_token_in t + f_pool (sr_fees r);
    sf_prim_out : pamount (primary s') (negb il) = pamount (primary s) (negb il) - st_pool_out t;
    sf_imp_in : pamount (swap_impact s') il = pamount (swap_impact s) il + st_after_fees t - st_token_in t;
    sf_imp_out : pamount (swap_impact s') (negb il) = pamount (swap_impact s) (negb il) + st_pool_out t - sr_out r;
    sf_amount_pos : 0 < amount;
    sf_out_nonneg : 0 <= sr_out r;
    sf_after_nonneg : 0 <= st_after_fees t;
    sf_fpool_nonneg : 0 <= f_pool (sr_fees r);
    sf_recv_nonneg : 0 <= f_receiver (sr_fees r);
    sf_fee_split : st_after_fees t + f_receiver (sr_fees r) + f_pool (sr_fees r) = amount;
    sf_tin_nonneg : 0 <= st_token_in t;
    sf_pao_nonneg : 0 <= st_pool_out t;
    sf_pia_nonneg : 0 <= sr_impact_amount r;
    sf_cin_nonneg : 0 <= st_capped_in t;
    sf_pmax_pos : 0 < pr_max (side_price ps (negb il));
    sf_floor : pr_max (side_price ps (negb il)) * st_pool_out t <= st_token_in t * pr_min (side_price ps il)
               < pr_max (side_price ps (negb il)) * st_pool_out t + pr_max (side_price ps (negb il));
    sf_pos : 0 < sr_impact_value r ->
       st_token_in t = st_after_fees t + st_capped_in t /\ sr_out r = st_pool_out t + sr_impact_amount r /\
       sr_impact_amount r <= pamount (swap_impact s) (negb il) /\
       st_capped_in t <= pamount (swap_impact s) il /\
       sr_impact_amount r * pr_max (side_price ps (negb il)) + st_capped_in t * pr_max (side_price ps il)
         <= sr_impact_value r;
    sf_nonpos : sr_impact_value r <= 0 ->
       st_token_in t = st_after_fees t - sr_impact_amount r /\ sr_out r = st_pool_out t /\
       st_capped_in t = 0 /\ 0 < st_token_in t /\ (sr_impact_value r = 0 -> sr_impact_amount r = 0) /\
       (sr_impact_value r < 0 -> 0 < pr_min (side_price ps il) /\
          pr_min (side_price ps il) * (sr_impact_amount r - 1) < - sr_impact_value r
            <= pr_min (side_price ps il) * sr_impact_amount r)
  }.

  Theorem swap_exec_trace_ok s il amount ps s' r t :
    wf_state s -> wf_prices ps -> in_range amount ->
    swap_exec_trace w unit cfg s il amount ps = Ok (s', r, t) ->
    swap_facts s s' il amount ps r t.
  Proof.
    intros Hs Hps Ha H. unfold swap_exec_trace in H.
    destruct Hs as (Hsup & Hprim & Himpp & Hfee & Hvi).
    pose proof (side_price_wf ps il Hps) as Hpin. pose proof (side_price_wf ps (negb il) Hps) as Hpout.
    rinv H. clear E E0 E1 E2 E3 E4 E5.
    destruct x6 as [impv bc]. destruct x7 as [after fs]. cbn [fst snd] in *.
    app apply_fees_ok E7. destruct E7 as (Fsum & Faft & Fpool & Raft & Rpool & Rrecv). unfold MarketProofs.in_range in Rrecv.
    app to_sig_ok E8. destruct E8 as [-> _].
    app pool_apply_one E9. destruct E9 as (C1 & C2 & C3).
    destruct x10 as [[[[[tin out] pao] pia] cin] ip].
    app swap_amounts_ok E10.
    destruct E10 as (A1 & A2 & A3 & A4 & A5 & A6 & A7 & A8 & A9 & A10 & A11).
    rinv H.
    repeat match goal with
           | H : validate_pool_amount _ _ _ = Ok _ |- _ => clear H
           | H : validate_reserve _ _ _ _ _ _ = Ok _ |- _ => clear H
           | H : validate_max_pnl _ _ _ _ _ _ _ = Ok _ |- _ => clear H
           | H : uadd _ _ _ = Some _ |- _ => apply uadd_some in H; destruct H as [_ ->]
           | H : to_sig _ _ = Ok _ |- _ => app to_sig_ok H; destruct H as [-> _]
           | H : to_opp _ _ = Ok _ |- _ => app to_opp_ok H; destruct H as [-> _]
           end.
    match goal with H : market_apply_delta _ _ _ = Ok ?p |- _ => destruct p as [l v]; apply market_apply_delta_ok in H; destruct H as [L V] end.
    cbn [fst snd] in *.
    pose proof L as L'. app pool_apply_both L'. destruct L' as (L1 & L2 & L3).
    assert (Hfeewf : wf_pool x9).
    { destruct Hfee as [F1 F2]. unfold MarketProofs.wf_pool, MarketProofs.in_range in *.
      destruct il; cbn [pamount negb] in *; lia. }
    unfold in_range, MarketProofs.in_range in Ha.
    assert (Hap : 0 < amount) by lia.
    injection H as <- <- <-. cbn [sr_out sr_impact_value sr_impact_amount sr_fees st_after_fees st_token_in st_capped_in st_pool_out].
    assert (Hgoal : forall s2,
      s2 = match v with
           | Some vp => set_vi_swaps (set_fee (set_swap_impact (set_primary s l) ip) x9) (Some vp)
           | None => set_fee (set_swap_impact (set_primary s l) ip) x9
           end ->
      holdings s2 il = holdings s il + amount /\
      holdings s2 (negb il) = holdings s (negb il) - out /\
      total_supply s2 = total_supply s /\ same_rest s s2 /\ vi_follows s s2 /\ wf_state s2 /\
      pamount (fee s2) il = pamount (fee s) il + f_receiver fs /\
      pamount (fee s2) (negb il) = pamount (fee s) (negb il) /\
      pamount (primary s2) il = pamount (primary s) il + tin + f_pool fs /\
      pamount (primary s2) (negb il) = pamount (primary s) (negb il) - pao /\
      pamount (swap_impact s2) il = pamount (swap_impact s) il + after - tin /\
      pamount (swap_impact s2) (negb il) = pamount (swap_impact s) (negb il) + pao - out).
    { intros s2 ->. unfold vi_follows.
      destruct (vi_swaps s) as [vp0|] eqn:EV.
      - destruct V as (vx & V1 & ->). pose proof (pool_apply_delta_eq _ _ _ _ _ L V1) as [D1 D2].
        pose proof (pool_apply_wf _ _ _ Hvi V1) as Hvx.
        unfold holdings, same_rest, MarketProofs.wf_state. cbn. rewrite ?EV.
        repeat match goal with |- _ /\ _ => split end; try assumption; try reflexivity; try lia.
      - subst v. unfold holdings, same_rest, MarketProofs.wf_state. cbn. rewrite ?EV.
        repeat match goal with |- _ /\ _ => split end; try assumption; try reflexivity; try lia. }
    specialize (Hgoal _ eq_refl).
    destruct Hgoal as (G1 & G2 & G3 & G4 & G5 & G6 & G7 & G8 & G9 & G10 & G11 & G12).
    assert (0 <= out) by (destruct (Z_lt_le_dec 0 impv) as [P|P]; [destruct (A10 P)|destruct (A11 P)]; lia).
    constructor; cbn [sr_out sr_impact_value sr_impact_amount sr_fees st_after_fees st_token_in st_capped_in st_pool_out];
      try assumption; try lia.
  Qed.

  (* the fee and impact computations behind a successful swap *)
  Lemma swap_exec_trace_parts s il amount ps s' r t :
    swap_exec_trace w unit cfg s il amount ps = Ok (s', r, t) ->
    exists d bc,
      swap_impact_value w unit cfg s d true = Ok (sr_impact_value r, bc) /\
      apply_fees w unit (c_swap_fee cfg) bc amount = Some (st_after_fees t, sr_fees r).
  Proof.
    intros H. unfold swap_exec_trace in H. rinv H.
    repeat match goal with x : (_ * _)%type |- _ => destruct x end.
    cbn [fst snd] in *. rinv H.
    repeat match goal with x : (_ * _)%type |- _ => destruct x end.
    cbn [fst snd] in *. injection H as <- <- <-. cbn.
    match goal with
    | H1 : swap_impact_value _ _ _ _ ?d _ = Ok (_, ?bc), H2 : apply_fees _ _ _ _ _ = Some _ |- _ =>
        exists d, bc; split; assumption
    end.
  Qed.

  (* impact factors both zero: the price impact value is zero *)
  Lemma apply_factors_e_zero v e x : apply_factors_e w unit v 0 e = Ok x -> x = 0.
  Proof.
    unfold apply_factors_e, apply_factors. destruct (apply_exponent_factor w unit v e) as [y|]; cbn; [|discriminate].
    unfold fmul, mul_div. destruct (unit =? 0); cbn; [discriminate|].
    rewrite Z.mul_0_r, Z.div_0_l by lia. unfold chk_u. destruct (in_u w 0); cbn; [|discriminate]. congruence.
  Qed.

  Lemma price_impact_zero_factors ip d v bc : ip_positive ip = 0 -> ip_negative ip = 0 ->
    price_impact w unit ip d = Ok (v, bc) -> v = 0.
  Proof.
    intros Hp Hn H. unfold price_impact in H. rinv H. injection H as <- _.
    assert (Hadj : adjusted_factors ip = (0, 0)) by (unfold adjusted_factors; rewrite Hp, Hn; reflexivity).
    assert (Hsd : forall hp y, signed_delta w hp 0 0 = Ok y -> y = 0).
    { intros hp y Hy. unfold signed_delta in Hy. rinv Hy; app to_sig_ok E0; destruct E0 as [-> _]; cbn in *.
      - congruence.
      - apply sneg_some in Hy. lia. }
    destruct (pd_same_side d).
    - unfold impact_same_side in E. rewrite Hadj in E. cbn [fst snd] in E.
      replace (if pd_next d <? pd_initial d then 0 else 0) with 0 in E by (destruct (pd_next d <? pd_initial d); reflexivity).
      rinv E. apply apply_factors_e_zero in E0. apply apply_factors_e_zero in E1. subst. eapply Hsd; eassumption.
    - unfold impact_cross_over in E. rewrite Hadj in E. cbn [fst snd] in E.
      rinv E. apply apply_factors_e_zero in E0. apply apply_factors_e_zero in E1. subst. eapply Hsd; eassumption.
  Qed.

  Lemma swap_impact_value_zero_factors s d vi v bc :
    ip_positive (c_swap_impact cfg) = 0 -> ip_negative (c_swap_impact cfg) = 0 ->
    swap_impact_value w unit cfg s d vi = Ok (v, bc) -> v = 0.
  Proof.
    intros Hp Hn H. unfold swap_impact_value in H.
    destruct (price_impact w unit (c_swap_impact cfg) d) as [[v0 b0]|] eqn:E; cbn [rbind] in H; [|discriminate].
    apply (price_impact_zero_factors _ _ _ _ Hp Hn) in E. subst v0. cbn [fst] in H.
    replace (0 <? 0) with false in H by reflexivity. cbn in H. injection H as <- _. reflexivity.
  Qed.
End P.
