(* MK.Examples — a concrete u64/9 market used by the non-vacuity examples (definitions only). *)
From GV Require Import lib.Base C01.Model MK.Market.
Open Scope Z_scope.

(* vmarket's TestMarketConfig::<u64, 9>::default() *)
Definition cfg64 : config :=
  mkConfig (mkIP 2000000000 4 8) (mkFP 500000 700000 370000000 0)
    (mkPP 1000000000 1000000000 10000000 None 5000000 5000000 2500000) (mkIP 2000000000 1 2)
    (mkFP 500000 700000 370000000 0) (mkDP 1000000000 1000000000)
    (mkBP 370000000 1000000000 1000000000 28 28 true) (mkKP 750000000 19 47)
    (mkFuP 1000000000 20 10 0 10 1 50000000 0) 1000000000 1000000000
    (mkPnlF 600000000 300000000 500000000 500000000) 0 1000000000000000000 18446744073709551615
    18446744073709551615 0 false (mkLQ 2000000 370000000).

(* the same with zero swap fees and zero swap impact factors *)
Definition cfg64_zero : config :=
  mkConfig (mkIP 2000000000 0 0) (mkFP 0 0 370000000 0)
    (c_position cfg64) (c_position_impact cfg64) (c_order_fee cfg64) (c_distribution cfg64)
    (c_borrowing cfg64) (c_kink cfg64) (c_funding cfg64) (c_reserve_factor cfg64) (c_oi_reserve_factor cfg64)
    (c_max_pnl cfg64) (c_min_pnl_after_adl cfg64) (c_max_pool_amount cfg64) (c_max_pool_value_for_deposit cfg64)
    (c_max_open_interest cfg64) (c_min_collateral_factor_for_oi cfg64) (c_ignore_oi_for_usage cfg64) (c_liquidation cfg64).

Definition pool0 : pool := mkPool 0 0.
(* a market with only supply and the three token pools populated *)
Definition ex_state (supply : Z) (prim imp fe : pool) : mstate :=
  mkState supply 1 10000 prim imp fe pool0 pool0 pool0 pool0 pool0 pool0 0 pool0 pool0 pool0 pool0 pool0 pool0 pool0
    0 None None None None None.
(* long token 120..121, short token 1 *)
Definition ex_prices : prices := mkPrices (mkPrice 120 121) (mkPrice 120 121) (mkPrice 1 1).
Definition ex_market : mstate :=
  ex_state 240000000000 (mkPool 1000000000 100000000000) (mkPool 5000 7000) pool0.
Definition ex_market_small_impact : mstate :=
  ex_state 240000000000 (mkPool 1000000000 100000000000) (mkPool 5 7) pool0.
