(* MK.MarketProofs — inversion tactics and specification lemmas for the market kernel. *)
From GV Require Import lib.Base lib.DivLemmas C01.Model C01.Proofs MK.Market.
Open Scope Z_scope.
Ltac Zify.zify_post_hook ::= Z.div_mod_to_equations.

(* ---------- result-monad inversion ---------- *)
Lemma rbind_ok {A B} (a : res A) (f : A -> res B) r :
  rbind a f = Ok r <-> exists x, a = Ok x /\ f x = Ok r.
Proof.
  destruct a; cbn; split; intros H; try discriminate; eauto.
  - destruct H as (x & E & H). injection E as <-. exact H.
  - destruct H as (x & E & _). discriminate.
Qed.

Lemma of_opt_ok {A} e (o : option A) x : of_opt e o = Ok x <-> o = Some x.
Proof. destruct o; cbn; split; intros H; try discriminate; congruence. Qed.

(* one inversion step on a hypothesis [H : _ = Ok _] *)
Ltac rinv1 H :=
  lazymatch type of H with
  | rbind ?a _ = Ok _ =>
      let x := fresh "x" in let E := fresh "E" in
      destruct a as [x|?] eqn:E; cbn [rbind] in H; [lazymatch type of E with of_opt _ _ = Ok _ => apply of_opt_ok in E | _ => idtac end|discriminate H]
  | of_opt _ _ = Ok _ => apply of_opt_ok in H
  | (if ?c then _ else _) = Ok _ =>
      let C := fresh "C" in destruct c eqn:C; [try discriminate H | try discriminate H]
  | Err _ = Ok _ => discriminate H
  end.
Ltac rinv H := repeat (cbv zeta in H; rinv1 H).
(* apply a lemma in a hypothesis, discharging premises (wf facts, 1 <= w, ...) from the context *)
Ltac app L H := apply L in H; [|solve [assumption|lia]..].

Lemma usub_some w a b r : usub w a b = Some r <-> (0 <= a - b < 2 ^ w /\ r = a - b).
Proof. unfold usub. apply chk_u_some. Qed.
Lemma uadd_some w a b r : uadd w a b = Some r <-> (0 <= a + b < 2 ^ w /\ r = a + b).
Proof. unfold uadd. apply chk_u_some. Qed.
Lemma umul_some w a b r : umul w a b = Some r <-> (0 <= a * b < 2 ^ w /\ r = a * b).
Proof. unfold umul. apply chk_u_some. Qed.
Lemma sneg_some w a r : sneg w a = Some r <-> (- 2 ^ (w - 1) <= - a < 2 ^ (w - 1) /\ r = - a).
Proof. unfold sneg. apply chk_s_some. Qed.
Lemma ssub_some w a b r : ssub w a b = Some r <-> (- 2 ^ (w - 1) <= a - b < 2 ^ (w - 1) /\ r = a - b).
Proof. unfold ssub. apply chk_s_some. Qed.
Lemma sadd_some w a b r : sadd w a b = Some r <-> (- 2 ^ (w - 1) <= a + b < 2 ^ (w - 1) /\ r = a + b).
Proof. unfold sadd. apply chk_s_some. Qed.
Lemma sdiv_some' w a b r : sdiv w a b = Some r -> b <> 0 /\ r = Z.quot a b.
Proof. unfold sdiv. destruct (b =? 0) eqn:E; [discriminate|]. intros H. apply chk_s_some in H. lia. Qed.

Section P.
  Variable w : Z.
  Hypothesis Hw : 1 <= w.
  Variable unit : Z.
  Hypothesis Hunit : 0 < unit.

  Definition in_range (z : Z) : Prop := 0 <= z < 2 ^ w.
  Definition wf_pool (p : pool) : Prop := in_range (p_long p) /\ in_range (p_short p).
  Definition wf_price (p : price) : Prop := in_range (pr_min p) /\ in_range (pr_max p).
  Definition wf_prices (ps : prices) : Prop :=
    wf_price (px_index ps) /\ wf_price (px_long ps) /\ wf_price (px_short ps).
  Definition wf_opool (p : option pool) : Prop := match p with Some x => wf_pool x | None => True end.
  (* the unsigned fields the liquidity / swap actions read or write *)
  Definition wf_state (s : mstate) : Prop :=
    in_range (total_supply s) /\ wf_pool (primary s) /\ wf_pool (swap_impact s) /\ wf_pool (fee s) /\
    wf_opool (vi_swaps s).

  Lemma pamount_range p il : wf_pool p -> in_range (pamount p il).
  Proof. intros [A B]. destruct il; assumption. Qed.

  Lemma to_sig_ok a r : to_sig w a = Ok r -> r = a /\ a < 2 ^ (w - 1).
  Proof. unfold to_sig. intros H. apply of_opt_ok, to_signed_some in H. lia. Qed.

  Lemma to_opp_ok a r : to_opp w a = Ok r -> r = - a /\ a < 2 ^ (w - 1).
  Proof.
    unfold to_opp. intros H. rinv H. apply to_signed_some in E. apply sneg_some in H. lia.
  Qed.

  (* the pool update adds the signed delta exactly, whatever its sign *)
  Lemma apply_amt_ok x d y : apply_amt w x d = Ok y -> y = x + d /\ in_range y.
  Proof.
    unfold apply_amt, in_range. intros H. rinv H.
    - apply uadd_some in H. lia.
    - apply usub_some in H. lia.
  Qed.

  Lemma pool_apply_one p il d p' : pool_apply w p (delta_one il d) = Ok p' ->
    pamount p' il = pamount p il + d /\ pamount p' (negb il) = pamount p (negb il) /\ in_range (pamount p' il).
  Proof.
    unfold pool_apply, delta_one. intros H. destruct il; cbn [fst snd] in H; rinv H.
    - apply apply_amt_ok in E. injection H as <-. cbn. unfold in_range in *. lia.
    - apply apply_amt_ok in E0. injection E as <-. injection H as <-. cbn. unfold in_range in *. lia.
  Qed.

  Lemma pool_apply_both p il a b p' : pool_apply w p (delta_both il a b) = Ok p' ->
    pamount p' il = pamount p il + a /\ pamount p' (negb il) = pamount p (negb il) + b /\
    wf_pool p'.
  Proof.
    unfold pool_apply, delta_both, wf_pool. intros H. destruct il; cbn [fst snd] in H; rinv H;
      apply apply_amt_ok in E; apply apply_amt_ok in E0; injection H as <-; cbn; unfold in_range in *; lia.
  Qed.

  Lemma market_apply_delta_ok s d l v : market_apply_delta w s d = Ok (l, v) ->
    pool_apply w (primary s) d = Ok l /\
    match vi_swaps s with Some p => exists x, pool_apply w p d = Ok x /\ v = Some x | None => v = None end.
  Proof.
    unfold market_apply_delta. intros H. rinv H. destruct (vi_swaps s) as [p|].
    - rinv E0. injection E0 as <-. injection H as <- <-. eauto.
    - injection E0 as <-. injection H as <- <-. auto.
  Qed.

  (* ---------- fees: the split is exact ---------- *)
  Lemma apply_factor_range v f r : apply_factor w unit v f = Some r -> 0 <= r < 2 ^ w.
  Proof.
    unfold apply_factor, mul_div. destruct (unit =? 0); [discriminate|]. intros H. apply chk_u_some in H. lia.
  Qed.

  Lemma apply_fees_ok fp bc amount after fs : apply_fees w unit fp bc amount = Some (after, fs) ->
    after + f_receiver fs + f_pool fs = amount /\ 0 <= after /\ 0 <= f_pool fs /\
    in_range after /\ in_range (f_pool fs) /\ in_range (f_receiver fs).
  Proof.
    unfold apply_fees, in_range. intros H.
    apply obind_some in H. destruct H as (f0 & _ & H).
    apply obind_some in H. destruct H as (disc & _ & H).
    apply obind_some in H. destruct H as (f1 & _ & H).
    apply obind_some in H. destruct H as (recv & H0 & H).
    apply obind_some in H. destruct H as (fpool & H1 & H).
    apply obind_some in H. destruct H as (aft & H2 & H).
    injection H as <- <-. cbn. apply usub_some in H1. apply usub_some in H2.
    apply apply_factor_range in H0. lia.
  Qed.

  Lemma apply_fees_receiver_nonneg fp bc amount after fs : 0 <= amount -> 0 <= fee_factor fp bc ->
    0 <= fp_discount fp -> 0 <= fp_receiver fp ->
    apply_fees w unit fp bc amount = Some (after, fs) -> 0 <= f_receiver fs.
  Proof.
    unfold apply_fees. intros Ha Hf Hd Hr H.
    apply obind_some in H. destruct H as (f0 & E0 & H).
    apply obind_some in H. destruct H as (disc & E1 & H).
    apply obind_some in H. destruct H as (f1 & E2 & H).
    apply obind_some in H. destruct H as (recv & E3 & H).
    apply obind_some in H. destruct H as (fpool & H1 & H).
    apply obind_some in H. destruct H as (aft & H2 & H).
    injection H as <- <-. cbn.
    apply usub_some in E2. unfold apply_factor in E3. apply mul_div_floor in E3; lia.
  Qed.

  Lemma apply_factor_zero v f r : v * f = 0 -> apply_factor w unit v f = Some r -> r = 0.
  Proof.
    unfold apply_factor, mul_div. intros Hz. rewrite Hz. replace (unit =? 0) with false by lia.
    rewrite Z.div_0_l by lia. intros H. apply chk_u_some in H. lia.
  Qed.

  (* zero fee factors: nothing is charged *)
  Lemma apply_fees_zero fp bc amount after fs : fee_factor fp bc = 0 ->
    apply_fees w unit fp bc amount = Some (after, fs) -> after = amount /\ f_receiver fs = 0 /\ f_pool fs = 0.
  Proof.
    unfold apply_fees. intros Hz H. rewrite Hz in H.
    apply obind_some in H. destruct H as (f0 & E0 & H).
    apply obind_some in H. destruct H as (disc & E1 & H).
    apply obind_some in H. destruct H as (f1 & E2 & H).
    apply obind_some in H. destruct H as (recv & E3 & H).
    apply obind_some in H. destruct H as (fpool & H1 & H).
    apply obind_some in H. destruct H as (aft & H2 & H).
    injection H as <- <-. cbn.
    apply apply_factor_zero in E0; [|lia]. subst f0.
    apply apply_factor_zero in E1; [|lia]. subst disc.
    apply usub_some in E2. destruct E2 as [_ E2]. assert (f1 = 0) by lia. subst f1.
    apply apply_factor_zero in E3; [|lia]. subst recv.
    apply usub_some in H1. apply usub_some in H2. lia.
  Qed.

  (* ---------- swap impact amount ---------- *)
  Section Cfg.
    Variable cfg : config.

    (* positive impact: 0 <= amount <= pool balance, amount * max <= usd, and the capped
       remainder is the value that was not paid; negative impact: amount <= 0 and
       |amount| = ceil(|usd| / min); zero: nothing *)
    Lemma swap_impact_amount_pos s il p usd a c : wf_price p -> wf_pool (swap_impact s) -> 0 < usd ->
      swap_impact_amount_with_cap w s il p usd = Ok (a, c) ->
      0 <= a <= pamount (swap_impact s) il /\ 0 <= c /\ 0 < pr_max p /\
      a * pr_max p + c <= usd /\ (c = 0 -> a = usd / pr_max p) /\ (c <> 0 -> a = pamount (swap_impact s) il).
    Proof.
      unfold swap_impact_amount_with_cap, wf_price, in_range. intros [Hmin Hmax] Hp Hu H.
      pose proof (pamount_range _ il Hp) as Hpa. unfold in_range in Hpa.
      destruct (has_zero p) eqn:Z0; [discriminate|]. unfold has_zero in Z0.
      replace (0 <? usd) with true in H by lia.
      rinv H.
      - apply to_sig_ok in E. destruct E as [-> _]. apply sdiv_some' in E0. destruct E0 as [_ ->].
        apply to_sig_ok in E1. destruct E1 as [-> _].
        apply obind_some in E2. destruct E2 as (d & D1 & D2). apply ssub_some in D1. destruct D1 as [_ ->].
        apply umul_some in D2. destruct D2 as [_ ->]. injection H as <- <-.
        rewrite Z.quot_div_nonneg in * by lia.
        pose proof (div_floor_spec usd (pr_max p) ltac:(lia)).
        assert (0 <= usd / pr_max p) by (apply div_nonneg; lia).
        rewrite Z.abs_eq by lia. repeat split; try lia; nia.
      - apply to_sig_ok in E. destruct E as [-> _]. apply sdiv_some' in E0. destruct E0 as [_ ->].
        apply to_sig_ok in E1. destruct E1 as [-> _]. injection H as <- <-.
        rewrite Z.quot_div_nonneg in * by lia.
        pose proof (div_floor_spec usd (pr_max p) ltac:(lia)).
        assert (0 <= usd / pr_max p) by (apply div_nonneg; lia).
        repeat split; try lia.
    Qed.

    Lemma swap_impact_amount_nonpos s il p usd a c : wf_price p -> usd <= 0 ->
      swap_impact_amount_with_cap w s il p usd = Ok (a, c) ->
      a <= 0 /\ c = 0 /\ (usd = 0 -> a = 0) /\
      (usd < 0 -> 0 < pr_min p /\ pr_min p * (- a - 1) < - usd <= pr_min p * (- a)).
    Proof.
      unfold swap_impact_amount_with_cap, wf_price, in_range. intros [Hmin Hmax] Hu H.
      destruct (has_zero p) eqn:Z0; [discriminate|]. unfold has_zero in Z0.
      replace (0 <? usd) with false in H by lia.
      destruct (usd <? 0) eqn:Un.
      - rinv H. apply to_sig_ok in E. destruct E as [-> _].
        apply obind_some in E0. destruct E0 as (a1 & D1 & D2). apply ssub_some in D1. destruct D1 as [_ ->].
        apply obind_some in D2. destruct D2 as (b1 & D2 & D3). apply sadd_some in D2. destruct D2 as [_ ->].
        apply sdiv_some' in D3. destruct D3 as [_ ->]. injection H as <- <-.
        rewrite quot_neg_num by lia.
        replace (- (usd - pr_min p + 1)) with ((- usd) + pr_min p - 1) by lia.
        pose proof (ceil_spec (- usd) (pr_min p) ltac:(lia)) as HC. cbn zeta in HC.
        assert (0 <= (- usd + pr_min p - 1) / pr_min p) by (apply div_nonneg; lia).
        repeat split; try lia.
      - injection H as <- <-. repeat split; lia.
    Qed.
  End Cfg.
End P.
