(* MK.Case — syntax of the histories printed by harness/src/mkdrv.rs and boolean
   equalities on states / reports, shared by C04/C05/C06 Corr.v.  Definitions only. *)
From GV Require Import lib.Base C01.Model MK.Market MK.Swap MK.Liquidity.
Open Scope Z_scope.

(* The harness market after a call.  [PFull] prints every field.  [PUpd] prints the five
   fields a liquidity / swap action may write (supply, liquidity, swap impact, claimable fee,
   virtual inventory for swaps); the driver uses it only after comparing every other field
   of the Rust market before / after the call with `==` (otherwise it prints [PFull]). *)
Inductive post :=
| PFull (s : mstate)
| PUpd (supply : Z) (prim imp fe : pool) (vi : option pool).

Definition resolve (pre : mstate) (p : post) : mstate :=
  match p with
  | PFull s => s
  | PUpd supply prim imp fe vi =>
      set_vi_swaps (set_fee (set_swap_impact (set_primary (set_supply pre supply) prim) imp) fe) vi
  end.

(* The post-state is always the harness market after the call.  For OSwap it is whatever the
   real `execute` left behind (success or failure); for ODeposit/OWithdraw the driver restores
   the pre-state on failure (these actions mutate in place and rely on the caller's revert). *)
Inductive op :=
| OSet (s' : post)
| OSwap (is_long_in : bool) (amount : Z) (ps : prices) (r : res swap_report) (s' : post)
| ODeposit (l s : Z) (ps : prices) (r : res deposit_report) (s' : post)
| OWithdraw (amount : Z) (ps : prices) (r : res withdraw_report) (s' : post).

Inductive case := Hist (w dec : Z) (cfg : config) (init : mstate) (ops : list op).

Definition op_post (pre : mstate) (o : op) : mstate :=
  resolve pre (match o with OSet s' | OSwap _ _ _ _ s' | ODeposit _ _ _ _ s' | OWithdraw _ _ _ s' => s' end).

(* ---------- boolean equalities ---------- *)
Definition pool_eqb (a b : pool) : bool := (p_long a =? p_long b) && (p_short a =? p_short b).
Definition opool_eqb (a b : option pool) : bool :=
  match a, b with Some x, Some y => pool_eqb x y | None, None => true | _, _ => false end.
Definition fees_eqb (a b : fees) : bool := (f_receiver a =? f_receiver b) && (f_pool a =? f_pool b).

(* everything a swap / deposit / withdrawal must not touch *)
Definition rest_eqb (a b : mstate) : bool :=
  (value_to_amount_divisor a =? value_to_amount_divisor b) && (funding_adj a =? funding_adj b) &&
  pool_eqb (oi_long a) (oi_long b) && pool_eqb (oi_short a) (oi_short b) &&
  pool_eqb (oit_long a) (oit_long b) && pool_eqb (oit_short a) (oit_short b) &&
  pool_eqb (position_impact a) (position_impact b) && pool_eqb (borrowing_factor a) (borrowing_factor b) &&
  (funding_factor_per_second a =? funding_factor_per_second b) &&
  pool_eqb (fa_long a) (fa_long b) && pool_eqb (fa_short a) (fa_short b) &&
  pool_eqb (cfa_long a) (cfa_long b) && pool_eqb (cfa_short a) (cfa_short b) &&
  pool_eqb (cs_long a) (cs_long b) && pool_eqb (cs_short a) (cs_short b) &&
  pool_eqb (total_borrowing a) (total_borrowing b) && (now a =? now b) &&
  oeqb (clk_impact a) (clk_impact b) && oeqb (clk_borrowing a) (clk_borrowing b) &&
  oeqb (clk_funding a) (clk_funding b) && opool_eqb (vi_positions a) (vi_positions b).

Definition state_eqb (a b : mstate) : bool :=
  (total_supply a =? total_supply b) && pool_eqb (primary a) (primary b) &&
  pool_eqb (swap_impact a) (swap_impact b) && pool_eqb (fee a) (fee b) &&
  opool_eqb (vi_swaps a) (vi_swaps b) && rest_eqb a b.

Definition sr_eqb (a b : swap_report) : bool :=
  (sr_out a =? sr_out b) && (sr_impact_value a =? sr_impact_value b) &&
  (sr_impact_amount a =? sr_impact_amount b) && fees_eqb (sr_fees a) (sr_fees b).
Definition dr_eqb (a b : deposit_report) : bool :=
  (dr_minted a =? dr_minted b) && (dr_impact a =? dr_impact b) &&
  fees_eqb (dr_fees_long a) (dr_fees_long b) && fees_eqb (dr_fees_short a) (dr_fees_short b).
Definition wr_eqb (a b : withdraw_report) : bool :=
  (wr_long_out a =? wr_long_out b) && (wr_short_out a =? wr_short_out b) &&
  fees_eqb (wr_fees_long a) (wr_fees_long b) && fees_eqb (wr_fees_short a) (wr_fees_short b).

(* model result (new state, report) against the printed (result, state after) *)
Definition res_match {R} (eqr : R -> R -> bool) (pre : mstate) (m : res (mstate * R)) (r : res R) (post : mstate) : bool :=
  match m, r with
  | Ok (ms, mr), Ok rr => eqr mr rr && state_eqb ms post
  | Err e, Err e' => (e =? e') && state_eqb pre post
  | _, _ => false
  end.

(* the virtual inventory for swaps, when present, moves by the same deltas as the liquidity pool *)
Definition vi_tracks (a b : mstate) : bool :=
  match vi_swaps a, vi_swaps b with
  | Some x, Some y =>
      (p_long y - p_long x =? p_long (primary b) - p_long (primary a)) &&
      (p_short y - p_short x =? p_short (primary b) - p_short (primary a))
  | None, None => true
  | _, _ => false
  end.

(* model vs implementation on every action of a history (swap, deposit, withdrawal); direct
   field writes (OSet) are taken from the implementation *)
Fixpoint corr_ops_all (w unit : Z) (cfg : config) (s : mstate) (ops : list op) : bool :=
  match ops with
  | [] => true
  | o :: rest =>
      (match o with
       | OSet _ => true
       | OSwap il a ps r _ => res_match sr_eqb s (swap_exec w unit cfg s il a ps) r (op_post s o)
       | ODeposit l sh ps r _ => res_match dr_eqb s (deposit_exec w unit cfg s l sh ps) r (op_post s o)
       | OWithdraw a ps r _ => res_match wr_eqb s (withdraw_exec w unit cfg s a ps) r (op_post s o)
       end) && corr_ops_all w unit cfg (op_post s o) rest
  end.

(* index (0-based) of the first action on which model and implementation differ, for debugging *)
Fixpoint first_diff (w unit : Z) (cfg : config) (s : mstate) (ops : list op) (i : Z) : Z :=
  match ops with
  | [] => -1
  | o :: rest => if corr_ops_all w unit cfg s [o] then first_diff w unit cfg (op_post s o) rest (i + 1) else i
  end.
