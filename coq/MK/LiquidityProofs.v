(* MK.LiquidityProofs — what deposits and withdrawals do to the pools and the supply
   (ledger facts used by C04's history form and by C06). *)
From GV Require Import lib.Base lib.DivLemmas C01.Model C01.Proofs MK.Market MK.Swap MK.Liquidity MK.MarketProofs MK.SwapProofs.
Open Scope Z_scope.
Ltac Zify.zify_post_hook ::= Z.div_mod_to_equations.

Lemma gross_le mtv lval sval la0 sa0 pl ps :
  0 <= mtv -> 0 <= lval -> 0 <= sval -> 0 <= la0 -> 0 <= sa0 -> 0 < pl -> 0 < ps ->
  (lval + sval) * la0 <= mtv * lval -> (lval + sval) * sa0 <= mtv * sval -> 0 < lval + sval ->
  la0 / pl * pl + sa0 / ps * ps <= mtv.
Proof.
  intros. assert ((lval + sval) * (la0 + sa0) <= (lval + sval) * mtv) by nia.
  assert (la0 + sa0 <= mtv) by nia.
  pose proof (div_floor_spec la0 pl ltac:(lia)). pose proof (div_floor_spec sa0 ps ltac:(lia)). lia.
Qed.

Ltac norm :=
  repeat match goal with
  | H : umul _ _ _ = Some _ |- _ => apply umul_some in H; destruct H as [? ->]
  | H : uadd _ _ _ = Some _ |- _ => apply uadd_some in H; destruct H as [? ->]
  | H : usub _ _ _ = Some _ |- _ => apply usub_some in H; destruct H as [? ->]
  | H : sneg _ _ = Some _ |- _ => apply sneg_some in H; destruct H as [? ->]
  | H : to_sig _ _ = Ok _ |- _ => app to_sig_ok H; destruct H as [-> ?]
  | H : to_opp _ _ = Ok _ |- _ => app to_opp_ok H; destruct H as [-> ?]
  | H : validate_pool_amount _ _ _ = Ok _ |- _ => clear H
  | H : validate_pool_value_for_deposit _ _ _ _ _ _ = Ok _ |- _ => clear H
  | H : validate_reserve _ _ _ _ _ _ = Ok _ |- _ => clear H
  | H : validate_max_pnl _ _ _ _ _ _ _ = Ok _ |- _ => clear H
  end.

Section P.
  Variable w : Z.
  Hypothesis Hw : 1 <= w.
  Variable unit : Z.
  Hypothesis Hunit : 0 < unit.
  Variable cfg : config.

  Notation in_range := (in_range w).
  Notation wf_pool := (wf_pool w).
  Notation wf_opool := (wf_opool w).
  Notation wf_price := (wf_price w).
  Notation wf_prices := (wf_prices w).
  Notation wf_state := (wf_state w).
  Notation vi_follows := (vi_follows).

  Lemma vi_follows_refl a : vi_follows a a.
  Proof. unfold SwapProofs.vi_follows. destruct (vi_swaps a); [lia|exact I]. Qed.

  Lemma vi_follows_same a b : vi_swaps b = vi_swaps a -> primary b = primary a -> vi_follows a b.
  Proof. unfold SwapProofs.vi_follows. intros -> ->. destruct (vi_swaps a); [lia|exact I]. Qed.

  Lemma vi_follows_trans a b c : vi_follows a b -> vi_follows b c -> vi_follows a c.
  Proof.
    unfold SwapProofs.vi_follows. destruct (vi_swaps a), (vi_swaps b), (vi_swaps c); try tauto; lia.
  Qed.

  (* a step that keeps supply, impact pool and fee pool *)
  Lemma apply_delta_ok s il d s' : wf_opool (vi_swaps s) -> apply_delta w s il d = Ok s' ->
    pamount (primary s') il = pamount (primary s) il + d /\
    pamount (primary s') (negb il) = pamount (primary s) (negb il) /\
    in_range (pamount (primary s') il) /\
    swap_impact s' = swap_impact s /\ fee s' = fee s /\ total_supply s' = total_supply s /\
    same_rest s s' /\ vi_follows s s' /\ wf_opool (vi_swaps s').
  Proof.
    intros Hvi H. unfold apply_delta in H. rinv H. destruct x as [l v]. cbn [fst snd] in *.
    apply market_apply_delta_ok in E. destruct E as [L V].
    pose proof L as L'. app pool_apply_one L'. destruct L' as (L1 & L2 & L3).
    unfold SwapProofs.vi_follows.
    destruct (vi_swaps s) as [vp|] eqn:EV.
    - destruct V as (vx & V1 & ->). injection H as <-. cbn. rewrite ?EV.
      first [pose proof (pool_apply_delta_eq w Hw _ _ _ _ _ L V1) as [D1 D2] | pose proof (pool_apply_delta_eq w _ _ _ _ _ L V1) as [D1 D2]].
      first [pose proof (pool_apply_wf w Hw _ _ _ Hvi V1) | pose proof (pool_apply_wf w _ _ _ Hvi V1)].
      repeat match goal with |- _ /\ _ => split end; try assumption; try reflexivity; try lia.
      unfold same_rest; cbn; repeat split; reflexivity.
    - subst v. injection H as <-. cbn. rewrite ?EV.
      repeat match goal with |- _ /\ _ => split end; try assumption; try reflexivity; try lia.
      unfold same_rest; cbn; repeat split; reflexivity.
  Qed.

  Lemma apply_swap_impact_ok s il p usd s' amt : wf_price p -> wf_pool (swap_impact s) ->
    apply_swap_impact_value_with_cap w s il p usd = Ok (s', amt) ->
    exists a c ip, swap_impact_amount_with_cap w s il p usd = Ok (a, c) /\ amt = Z.abs a /\
      s' = set_swap_impact s ip /\
      pamount ip il = pamount (swap_impact s) il - a /\
      pamount ip (negb il) = pamount (swap_impact s) (negb il) /\ wf_pool ip.
  Proof.
    intros Hp Hip H. unfold apply_swap_impact_value_with_cap in H. rinv H. destruct x as [a c]. cbn [fst] in *.
    apply sneg_some in E0. destruct E0 as [_ ->].
    pose proof E1 as E1'. app pool_apply_one E1'. destruct E1' as (I1 & I2 & I3).
    first [pose proof (pool_apply_wf w Hw _ _ _ Hip E1) as Hwf | pose proof (pool_apply_wf w _ _ _ Hip E1) as Hwf].
    injection H as <- <-. exists a, c, x1. rewrite Z.abs_opp.
    repeat split; try assumption; try lia; apply Hwf.
  Qed.

  (* ---------- one leg of a deposit ---------- *)
  Record leg_facts (s s4 : mstate) (ps : prices) (il : bool) (amount0 pv impact mint : Z) (fs : fees)
         (g : deposit_leg) : Prop := {
    lf_hold_in : holdings s4 il = holdings s il + amount0;
    lf_hold_out : holdings s4 (negb il) = holdings s (negb il);
    lf_supply : total_supply s4 = total_supply s;
    lf_rest : same_rest s s4;
    lf_vi : vi_follows s s4;
    lf_wf : wf_state s4;
    lf_prim_in : pamount (primary s4) il = pamount (primary s) il + lg_amount g + f_pool fs;
    lf_prim_out : pamount (primary s4) (negb il) = pamount (primary s) (negb il) + lg_pos_amount g;
    lf_imp_in : pamount (swap_impact s4) il = pamount (swap_impact s) il + lg_neg_amount g;
    lf_imp_out : pamount (swap_impact s4) (negb il) = pamount (swap_impact s) (negb il) - lg_pos_amount g;
    lf_fee_in : pamount (fee s4) il = pamount (fee s) il + f_receiver fs;
    lf_fee_out : pamount (fee s4) (negb il) = pamount (fee s) (negb il);
    lf_split : lg_after_fees g + f_receiver fs + f_pool fs = amount0;
    lf_amount : lg_amount g = lg_after_fees g - lg_neg_amount g;
    lf_amount_nonneg : 0 <= lg_amount g;
    lf_pos_nonneg : 0 <= lg_pos_amount g;
    lf_neg_nonneg : 0 <= lg_neg_amount g;
    lf_fpool_nonneg : 0 <= f_pool fs;
    lf_recv_nonneg : 0 <= f_receiver fs;
    lf_pos_le_pool : lg_pos_amount g <= pamount (swap_impact s) (negb il);
    lf_excl : lg_pos_amount g = 0 \/ lg_neg_amount g = 0;
    lf_mint : mint = lg_mint_impact g + lg_mint_amount g;
    lf_mint_amount : usd_to_mt w (lg_amount g * pr_min (side_price ps il)) pv (total_supply s)
                       (value_to_amount_divisor s) = Some (lg_mint_amount g);
    lf_mint_impact : (lg_pos_amount g = 0 /\ lg_mint_impact g = 0) \/
                     (0 < impact /\ total_supply s <> 0 /\
                      lg_pos_amount g * pr_max (side_price ps (negb il)) <= impact /\
                      usd_to_mt w (lg_pos_amount g * pr_max (side_price ps (negb il))) pv (total_supply s)
                        (value_to_amount_divisor s) = Some (lg_mint_impact g));
    lf_neg_only : 0 < lg_neg_amount g -> impact < 0
  }.

  Lemma execute_deposit_ok s ps il amount0 pv impact bc s4 mint fs g :
    wf_state s -> wf_prices ps -> in_range amount0 ->
    execute_deposit w unit cfg s ps il amount0 pv impact bc = Ok (s4, mint, fs, g) ->
    leg_facts s s4 ps il amount0 pv impact mint fs g.
  Proof.
    intros (Hsup & Hprim & Himpp & Hfee & Hvi) Hps Ha H. unfold execute_deposit in H.
    pose proof (side_price_wf w ps il Hps) as Hpin. pose proof (side_price_wf w ps (negb il) Hps) as Hpout.
    pose proof Hpin as [[Hin0 _] [Hin1 _]]. pose proof Hpout as [[Hout0 _] [Hout1 _]].
    destruct ((pv =? 0) && negb (total_supply s =? 0)) eqn:C0; [discriminate|].
    destruct (apply_fees w unit (c_swap_fee cfg) bc amount0) as [[after fs0]|] eqn:EF; cbn [of_opt rbind fst snd] in H; [|discriminate].
    app apply_fees_ok EF. destruct EF as (Fsum & Faft & Fpool & Raft & Rpool & Rrecv). unfold MarketProofs.in_range in *.
    destruct (to_sig w (f_receiver fs0)) as [rs|] eqn:ER; cbn [rbind] in H; [|discriminate].
    app to_sig_ok ER. destruct ER as [-> _].
    destruct (pool_apply w (fee s) (delta_one il (f_receiver fs0))) as [cf|] eqn:EC; cbn [rbind] in H; [|discriminate].
    pose proof EC as EC'. app pool_apply_one EC'. destruct EC' as (C1 & C2 & C3).
    first [pose proof (pool_apply_wf w Hw _ _ _ Hfee EC) as Hcf | pose proof (pool_apply_wf w _ _ _ Hfee EC) as Hcf].
    set (imp := if (0 <? impact) && (total_supply s =? 0) then 0 else impact) in *.
    destruct (0 <? imp) eqn:Cpos.
    - (* positive impact: paid from the opposite token's impact pool into the opposite liquidity *)
      assert (Hi : imp = impact /\ 0 < impact /\ total_supply s <> 0).
      { subst imp. destruct ((0 <? impact) && (total_supply s =? 0)) eqn:Ci; [lia|].
        destruct (0 <? impact) eqn:Cj; cbn in Ci; lia. }
      destruct Hi as (-> & Hip & Hsup0).
      rinv H. destruct x as [[[[s3 mint1] amount] pa] na]. rinv E.
      match goal with x : (mstate * Z)%type |- _ => destruct x as [s2 pa0] end. cbn [fst snd] in *.
      match goal with H : Ok _ = Ok (s3, _, _, _, _) |- _ => injection H as ? ? ? ? ?; subst end.
      match goal with H : apply_swap_impact_value_with_cap _ _ _ _ _ = Ok _ |- _ =>
        app apply_swap_impact_ok H; destruct H as (a & c & ip & EA & -> & -> & I1 & I2 & I3) end.
      rewrite Bool.negb_involutive in I2.
      app swap_impact_amount_pos EA. destruct EA as (Ha0 & Hc0 & Hmx & Hsum & _ & _). cbn in I1, I2, Ha0.
      rewrite Z.abs_eq in * by lia.
      rinv H. norm.
      match goal with H : apply_delta _ _ (negb il) _ = Ok _ |- _ =>
        app apply_delta_ok H; rewrite Bool.negb_involutive in H;
        destruct H as (P1 & P2 & P3 & P4 & P5 & P6 & P7 & P8 & P9) end.
      match goal with H : apply_delta _ _ il _ = Ok _ |- _ =>
        app apply_delta_ok H; destruct H as (Q1 & Q2 & Q3 & Q4 & Q5 & Q6 & Q7 & Q8 & Q9) end.
      injection H as <- <- <- <-.
      cbn in P1, P2, P4, P5, P6, P7, P8.
      constructor; cbn [lg_after_fees lg_amount lg_pos_amount lg_neg_amount lg_mint_amount lg_mint_impact];
        unfold holdings; rewrite ?Q4, ?Q5, ?Q6, ?P4, ?P5, ?P6; cbn [swap_impact fee total_supply set_swap_impact set_fee]; try lia.
      + eapply same_rest_trans; [|exact Q7]. eapply same_rest_trans; [|exact P7]. unfold same_rest; cbn; repeat split; reflexivity.
      + eapply vi_follows_trans; [|exact Q8]. eapply vi_follows_trans; [|exact P8]. apply vi_follows_same; reflexivity.
      + unfold MarketProofs.wf_state. rewrite Q4, Q5, Q6, P4, P5, P6. cbn.
        repeat match goal with |- _ /\ _ => split end; try assumption.
        unfold MarketProofs.wf_pool, MarketProofs.in_range in *. destruct il; cbn [pamount negb] in *; lia.
      + assumption.
      + right. repeat split; try assumption; lia.
    - destruct (imp <? 0) eqn:Cneg.
      + (* negative impact: part of the deposit goes to the token's impact pool *)
        assert (Hi : imp = impact) by (subst imp; destruct ((0 <? impact) && (total_supply s =? 0)) eqn:Ci; lia).
        rewrite Hi in *. clear Hi.
        rinv H. destruct x as [[[[s3 mint1] amount] pa] na]. rinv E.
        match goal with x : (mstate * Z)%type |- _ => destruct x as [s2 na0] end. cbn [fst snd] in *.
        match goal with H : Ok _ = Ok (s3, _, _, _, _) |- _ => injection H as ? ? ? ? ?; subst end.
        match goal with H : apply_swap_impact_value_with_cap _ _ _ _ _ = Ok _ |- _ =>
          app apply_swap_impact_ok H; destruct H as (a & c & ip & EA & -> & -> & I1 & I2 & I3) end.
        app swap_impact_amount_nonpos EA. destruct EA as (Ha0 & _ & _ & _). cbn in I1, I2.
        rewrite Z.abs_neq in * by lia.
        rinv H. norm.
        match goal with H : apply_delta _ _ il _ = Ok _ |- _ =>
          app apply_delta_ok H; destruct H as (Q1 & Q2 & Q3 & Q4 & Q5 & Q6 & Q7 & Q8 & Q9) end.
        injection H as <- <- <- <-. cbn in Q1, Q2, Q4, Q5, Q6, Q7, Q8.
        constructor; cbn [lg_after_fees lg_amount lg_pos_amount lg_neg_amount lg_mint_amount lg_mint_impact];
          unfold holdings; rewrite ?Q4, ?Q5, ?Q6; cbn [swap_impact fee total_supply set_swap_impact set_fee]; try lia.
        all: lazymatch goal with
             | |- same_rest _ _ => eapply same_rest_trans; [|exact Q7]; unfold same_rest; cbn; repeat split; reflexivity
             | |- SwapProofs.vi_follows _ _ => eapply vi_follows_trans; [|exact Q8]; apply vi_follows_same; reflexivity
             | |- MarketProofs.wf_state _ _ =>
                 unfold MarketProofs.wf_state; rewrite Q4, Q5, Q6; cbn;
                 repeat match goal with |- _ /\ _ => split end; try assumption;
                 unfold MarketProofs.wf_pool, MarketProofs.in_range in *; destruct Hprim; destruct il; cbn [pamount negb] in *; lia
             | |- usd_to_mt _ _ _ _ _ = _ => assumption
             | |- _ \/ _ => left; split; reflexivity
             | |- _ => pose proof (pamount_range w _ (negb il) Himpp) as R; unfold MarketProofs.in_range in R; lia
             end.
      + (* no impact *)
        rinv H. destruct x as [[[[s3 mint1] amount] pa] na].
        match goal with H : Ok _ = Ok (s3, _, _, _, _) |- _ => injection H as ? ? ? ? ?; subst end.
        rinv H. norm.
        match goal with H : apply_delta _ _ il _ = Ok _ |- _ =>
          app apply_delta_ok H; destruct H as (Q1 & Q2 & Q3 & Q4 & Q5 & Q6 & Q7 & Q8 & Q9) end.
        injection H as <- <- <- <-. cbn in Q1, Q2, Q4, Q5, Q6, Q7, Q8.
        constructor; cbn [lg_after_fees lg_amount lg_pos_amount lg_neg_amount lg_mint_amount lg_mint_impact];
          unfold holdings; rewrite ?Q4, ?Q5, ?Q6; cbn [swap_impact fee total_supply set_swap_impact set_fee]; try lia.
        all: lazymatch goal with
             | |- same_rest _ _ => eapply same_rest_trans; [|exact Q7]; unfold same_rest; cbn; repeat split; reflexivity
             | |- SwapProofs.vi_follows _ _ => eapply vi_follows_trans; [|exact Q8]; apply vi_follows_same; reflexivity
             | |- MarketProofs.wf_state _ _ =>
                 unfold MarketProofs.wf_state; rewrite Q4, Q5, Q6; cbn;
                 repeat match goal with |- _ /\ _ => split end; try assumption;
                 unfold MarketProofs.wf_pool, MarketProofs.in_range in *; destruct Hprim; destruct il; cbn [pamount negb] in *; lia
             | |- usd_to_mt _ _ _ _ _ = _ => assumption
             | |- _ \/ _ => left; split; reflexivity
             | |- _ => pose proof (pamount_range w _ (negb il) Himpp) as R; unfold MarketProofs.in_range in R; lia
             end.
  Qed.

  (* ---------- whole deposit ---------- *)
  (* [imp] is the price impact value of the whole deposit; the leg's share [adj] has its sign *)
  Definition leg_or_skip (s s1 : mstate) (ps : prices) (il : bool) (amount pv imp : Z) (m : Z) (fs : fees) (g : deposit_leg) : Prop :=
    if amount =? 0 then s1 = s /\ m = 0 /\ fs = mkFees 0 0 /\ g = leg0
    else exists adj, leg_facts s s1 ps il amount pv adj m fs g /\ (0 < adj -> 0 < imp) /\ (adj < 0 -> imp < 0).

  Record deposit_facts (s s' : mstate) (l sh : Z) (ps : prices) (r : deposit_report) (t : deposit_trace) : Prop := {
    df_hold_long : holdings s' true = holdings s true + l;
    df_hold_short : holdings s' false = holdings s false + sh;
    df_supply : total_supply s' = total_supply s + dr_minted r;
    df_minted_nonneg : 0 <= dr_minted r;
    df_rest : same_rest s s';
    df_vi : vi_follows s s';
    df_wf : wf_state s';
    df_pv : pool_value w unit cfg s ps MaxAfterDeposit true = Ok (dt_pool_value t) /\ 0 <= dt_pool_value t;
    df_legs : exists s1 s2 m1 m2,
        leg_or_skip s s1 ps true l (dt_pool_value t) (dr_impact r) m1 (dr_fees_long r) (dt_long t) /\
        leg_or_skip s1 s2 ps false sh (dt_pool_value t) (dr_impact r) m2 (dr_fees_short r) (dt_short t) /\
        dr_minted r = m1 + m2 /\ 0 <= m1 /\ 0 <= m2 /\
        s' = set_supply s2 (total_supply s2 + (m1 + m2))
  }.

  Lemma usd_to_mt_nonneg usd pool supply dv r : 0 <= usd -> 0 <= pool -> 0 <= supply -> 0 <= dv ->
    usd_to_mt w usd pool supply dv = Some r -> 0 <= r.
  Proof.
    intros A B C D H. app usd_to_mt_cases H. destruct H as (Hd & [(? & ? & ->)|[(? & ? & -> & ?)|(? & ? & ? & ?)]]).
    - apply div_nonneg; lia.
    - apply div_nonneg; lia.
    - nia.
  Qed.

  Lemma leg_or_skip_ledger s s1 ps il amount pv imp m fs g :
    wf_state s -> wf_prices ps -> in_range amount -> 0 <= pv -> 0 <= value_to_amount_divisor s ->
    leg_or_skip s s1 ps il amount pv imp m fs g ->
    holdings s1 il = holdings s il + amount /\ holdings s1 (negb il) = holdings s (negb il) /\
    total_supply s1 = total_supply s /\ same_rest s s1 /\ vi_follows s s1 /\ wf_state s1 /\ 0 <= m.
  Proof.
    intros Hs Hps Ha Hpv Hdv H. unfold leg_or_skip in H. destruct (amount =? 0) eqn:Z0.
    - destruct H as (-> & -> & _ & _).
      split; [lia|]. split; [reflexivity|]. split; [reflexivity|]. split; [apply same_rest_refl|].
      split; [apply vi_follows_refl|]. split; [exact Hs|lia].
    - destruct H as (adj & F & _). destruct F.
      split; [assumption|]. split; [assumption|]. split; [assumption|]. split; [assumption|].
      split; [assumption|]. split; [assumption|].
      pose proof Hs as (Hsup & _). unfold MarketProofs.in_range in Hsup.
      pose proof (side_price_wf w ps il Hps) as [[P0 _] [P1 _]]. pose proof (side_price_wf w ps (negb il) Hps) as [[Q0 _] [Q1 _]].
      assert (0 <= lg_mint_amount g) by (eapply usd_to_mt_nonneg; [| | | |exact lf_mint_amount0]; try lia; nia).
      assert (0 <= lg_mint_impact g).
      { destruct lf_mint_impact0 as [[_ ->]|(_ & _ & _ & U)]; [lia|]. eapply usd_to_mt_nonneg; [| | | |exact U]; try lia; nia. }
      lia.
  Qed.

  Theorem deposit_exec_trace_ok s l sh ps s' r t :
    wf_state s -> wf_prices ps -> in_range l -> in_range sh -> 0 <= value_to_amount_divisor s ->
    deposit_exec_trace w unit cfg s l sh ps = Ok (s', r, t) ->
    deposit_facts s s' l sh ps r t.
  Proof.
    intros Hs Hps Hl Hsh Hdv H. unfold deposit_exec_trace in H.
    destruct ((l =? 0) && (sh =? 0)) eqn:C0; [discriminate|].
    rinv H. clear E. 
    match goal with H : pool_value _ _ _ _ _ _ _ = Ok ?p |- _ => rename H into HPV; rename p into pv end.
    assert (Hpv : 0 <= pv) by lia. rewrite (Z.abs_eq pv) in * by lia.
    match goal with x : (mstate * Z * fees * deposit_leg)%type |- _ => destruct x as [[[s1 m1] f1] g1] end.
    match goal with H : _ = Ok (s1, m1, f1, g1) |- _ => rename H into HL end.
    rinv H.
    match goal with x : (mstate * Z * fees * deposit_leg)%type |- _ => destruct x as [[[s2 m2] f2] g2] end.
    match goal with H : _ = Ok (s2, m2, f2, g2) |- _ => rename H into HS end.
    rinv H. norm. injection H as <- <- <-.
    assert (Hsign : forall a tot adj imp0, 0 <= a -> 0 <= tot -> mul_div_signed w a imp0 tot = Some adj ->
                      (0 < adj -> 0 < imp0) /\ (adj < 0 -> imp0 < 0)).
    { intros a tot adj imp0 A0 T0 M. app mul_div_signed_exact M. destruct M as (Td & Mabs & _ & Mp & Mn).
      split; intros Hadj.
      - destruct (Z_lt_le_dec 0 imp0) as [P|P]; [exact P|]. specialize (Mn P). lia.
      - destruct (Z_lt_le_dec imp0 0) as [P|P]; [exact P|].
        destruct (Z.eq_dec imp0 0) as [->|N]; [|specialize (Mp ltac:(lia)); lia].
        rewrite Z.abs_0, Z.mul_0_r, Z.div_0_l in Mabs by lia. lia. }
    assert (L1 : leg_or_skip s s1 ps true l pv (fst x5) m1 f1 g1).
    { unfold leg_or_skip. destruct (l =? 0) eqn:Zl.
      - injection HL as <- <- <- <-. auto.
      - rinv HL. app execute_deposit_ok HL.
        match goal with M : mul_div_signed _ _ _ _ = Some ?adj, U : uadd _ _ _ = Some _ |- _ =>
          exists adj; split; [exact HL|]; apply uadd_some in U; eapply Hsign; [| |exact M]; lia end. }
    pose proof (leg_or_skip_ledger _ _ _ _ _ _ _ _ _ _ Hs Hps Hl Hpv Hdv L1) as (A1 & A2 & A3 & A4 & A5 & A6 & A7).
    assert (Hdv1 : 0 <= value_to_amount_divisor s1) by (destruct A4 as (<- & _); exact Hdv).
    assert (L2 : leg_or_skip s1 s2 ps false sh pv (fst x5) m2 f2 g2).
    { unfold leg_or_skip. destruct (sh =? 0) eqn:Zs.
      - injection HS as <- <- <- <-. auto.
      - rinv HS. app execute_deposit_ok HS.
        match goal with M : mul_div_signed _ _ _ _ = Some ?adj, U : uadd _ _ _ = Some _ |- _ =>
          exists adj; split; [exact HS|]; apply uadd_some in U; eapply Hsign; [| |exact M]; lia end. }
    pose proof (leg_or_skip_ledger _ _ _ _ _ _ _ _ _ _ A6 Hps Hsh Hpv Hdv1 L2) as (B1 & B2 & B3 & B4 & B5 & B6 & B7).
    cbn [negb] in *.
    constructor; cbn [dr_minted dr_fees_long dr_fees_short dt_pool_value dt_long dt_short].
    - change (holdings s2 true = holdings s true + l). lia.
    - change (holdings s2 false = holdings s false + sh). lia.
    - cbn. lia.
    - lia.
    - eapply same_rest_trans; [exact A4|]. eapply same_rest_trans; [exact B4|]. unfold same_rest; cbn; repeat split; reflexivity.
    - eapply vi_follows_trans; [exact A5|]. eapply vi_follows_trans; [exact B5|]. apply vi_follows_same; reflexivity.
    - destruct B6 as (W1 & W2 & W3 & W4 & W5). unfold MarketProofs.wf_state, MarketProofs.in_range in *. cbn.
      repeat match goal with |- _ /\ _ => split end; try assumption; lia.
    - split; assumption.
    - exists s1, s2, m1, m2. repeat split; try assumption; try lia.
  Qed.

  (* ---------- withdrawal ---------- *)
  Record withdraw_facts (s s' : mstate) (amount : Z) (ps : prices) (r : withdraw_report) (t : withdraw_trace) : Prop := {
    wd_hold_long : holdings s' true = holdings s true - wr_long_out r;
    wd_hold_short : holdings s' false = holdings s false - wr_short_out r;
    wd_supply : total_supply s' = total_supply s - amount;
    wd_amount : 0 < amount <= total_supply s;
    wd_rest : same_rest s s';
    wd_vi : vi_follows s s';
    wd_wf : wf_state s';
    wd_pv : pool_value w unit cfg s ps MaxAfterWithdrawal false = Ok (wt_pool_value t) /\ 0 < wt_pool_value t;
    wd_mtv : total_supply s * wt_mtv t <= wt_pool_value t * amount < total_supply s * wt_mtv t + total_supply s;
    wd_mtv_nonneg : 0 <= wt_mtv t;
    wd_gross_value : wt_long_gross t * pr_max (px_long ps) + wt_short_gross t * pr_max (px_short ps) <= wt_mtv t;
    wd_long_split : wr_long_out r + f_receiver (wr_fees_long r) + f_pool (wr_fees_long r) = wt_long_gross t;
    wd_short_split : wr_short_out r + f_receiver (wr_fees_short r) + f_pool (wr_fees_short r) = wt_short_gross t;
    wd_nonneg : 0 <= wr_long_out r /\ 0 <= wr_short_out r /\ 0 <= f_pool (wr_fees_long r) /\ 0 <= f_pool (wr_fees_short r) /\
                0 <= f_receiver (wr_fees_long r) /\ 0 <= f_receiver (wr_fees_short r);
    wd_prim_long : p_long (primary s') = p_long (primary s) - (wr_long_out r + f_receiver (wr_fees_long r));
    wd_prim_short : p_short (primary s') = p_short (primary s) - (wr_short_out r + f_receiver (wr_fees_short r));
    wd_imp : swap_impact s' = swap_impact s;
    wd_fee_long : p_long (fee s') = p_long (fee s) + f_receiver (wr_fees_long r);
    wd_fee_short : p_short (fee s') = p_short (fee s) + f_receiver (wr_fees_short r)
  }.

  Theorem withdraw_exec_trace_ok s amount ps s' r t :
    wf_state s -> wf_prices ps -> in_range amount ->
    withdraw_exec_trace w unit cfg s amount ps = Ok (s', r, t) ->
    withdraw_facts s s' amount ps r t.
  Proof.
    intros Hs Hps Ha H. unfold withdraw_exec_trace in H.
    pose proof Hs as (Hsup & Hprim & Himpp & Hfee & Hvi).
    pose proof Hps as (_ & [[L0 _] [L1 _]] & [[S0 _] [S1 _]]).
    destruct Hprim as [[PL0 _] [PS0 _]]. unfold MarketProofs.in_range in *.
    rinv H.
    match goal with H : pool_value _ _ _ _ _ _ _ = Ok ?p |- _ => rename H into HPV; rename p into pv end.
    assert (Hpv : 0 < pv) by lia. rewrite (Z.abs_eq pv) in * by lia.
    match goal with H : mt_to_usd _ _ _ _ = Some ?m |- _ => rename H into HM; rename m into mtv end.
    app mt_to_usd_exact HM. destruct HM as (Hsup0 & HM).
    repeat match goal with x : (Z * fees)%type |- _ => destruct x end. cbn [fst snd] in *.
    repeat match goal with H : apply_fees _ _ _ _ _ = Some _ |- _ =>
      app apply_fees_ok H; destruct H as (? & ? & ? & ? & ? & ?) end.
    unfold MarketProofs.in_range in *.
    match goal with H : obind (mul_div _ _ _ _) _ = Some ?x, H' : obind (mul_div _ _ _ _) _ = Some ?y |- _ =>
      rename H into HLA; rename H' into HSA end.
    apply obind_some in HLA. destruct HLA as (la0 & HLA & HLA').
    apply obind_some in HSA. destruct HSA as (sa0 & HSA & HSA').
    norm.
    unfold udiv in HLA', HSA'.
    destruct (pr_max (px_long ps) =? 0) eqn:ZL; [discriminate|]. destruct (pr_max (px_short ps) =? 0) eqn:ZS; [discriminate|].
    injection HLA' as <-. injection HSA' as <-.
    assert (0 <= mtv) by nia.
    app mul_div_floor HLA. app mul_div_floor HSA.
    repeat match goal with H : pool_apply _ _ (delta_one _ _) = Ok _ |- _ =>
      let H' := fresh "FP" in pose proof H as H'; app pool_apply_one H'; destruct H' as (? & ? & ?);
      revert H end. intros F2 F1.
    match goal with H : pool_apply _ (fee s) _ = Ok _ |- _ => rename H into FA end.
    match goal with H : pool_apply _ _ (delta_one false _) = Ok _ |- _ => rename H into FB end.
    first [pose proof (pool_apply_wf w Hw _ _ _ Hfee FA) as Hcf1 | pose proof (pool_apply_wf w _ _ _ Hfee FA) as Hcf1].
    first [pose proof (pool_apply_wf w Hw _ _ _ Hcf1 FB) as Hcf2 | pose proof (pool_apply_wf w _ _ _ Hcf1 FB) as Hcf2].
    match goal with H : apply_delta _ _ true _ = Ok _ |- _ =>
      app apply_delta_ok H; destruct H as (P1 & P2 & P3 & P4 & P5 & P6 & P7 & P8 & P9) end.
    match goal with H : apply_delta _ _ false _ = Ok _ |- _ =>
      app apply_delta_ok H; destruct H as (Q1 & Q2 & Q3 & Q4 & Q5 & Q6 & Q7 & Q8 & Q9) end.
    injection H as <- <- <-.
    cbn in P1, P2, P4, P5, P6, P7, P8. cbn [pamount negb] in *.
    pose proof (div_floor_spec la0 (pr_max (px_long ps)) ltac:(lia)).
    pose proof (div_floor_spec sa0 (pr_max (px_short ps)) ltac:(lia)).
    constructor; cbn [wr_long_out wr_short_out wr_fees_long wr_fees_short wt_pool_value wt_mtv wt_long_gross wt_short_gross];
      unfold holdings; cbn [pamount set_supply primary swap_impact fee total_supply]; rewrite ?Q4, ?Q5, ?Q6, ?P4, ?P5, ?P6;
      cbn [swap_impact fee total_supply set_fee]; try lia.
    all: lazymatch goal with
         | |- same_rest _ _ => eapply same_rest_trans; [|eapply same_rest_trans; [exact P7|eapply same_rest_trans; [exact Q7|]]]; unfold same_rest; cbn; repeat split; reflexivity
         | |- SwapProofs.vi_follows _ _ => eapply vi_follows_trans; [|eapply vi_follows_trans; [exact P8|eapply vi_follows_trans; [exact Q8|]]]; apply vi_follows_same; reflexivity
         | |- MarketProofs.wf_state _ _ =>
             unfold MarketProofs.wf_state; cbn; rewrite ?Q4, ?Q5, ?Q6, ?P4, ?P5, ?P6; cbn;
             repeat match goal with |- _ /\ _ => split end; try assumption;
             unfold MarketProofs.wf_pool, MarketProofs.in_range in *; cbn [pamount negb] in *; try lia
         | |- _ /\ _ => split; [assumption|lia]
         | |- _ = _ => reflexivity
         | |- _ => idtac
         end.
    destruct HLA as [HLA ?]. destruct HSA as [HSA ?].
    match type of HLA with (?lv + ?sv) * _ <= _ < _ =>
      apply (gross_le mtv lv sv); try lia; clear - HLA HSA H22 L1 S1 PL0 PS0; nia end.
  Qed.
End P.
