(* MK.Swap — model of crates/model/src/action/swap.rs (Swap::try_new, reassign_values,
   try_execute, execute).  Definitions only. *)
From GV Require Import lib.Base C01.Model MK.Market.
Open Scope Z_scope.

(* SwapReport (the parts with public getters) *)
Record swap_report := mkSR {
  sr_out : Z;              (* token_out_amount *)
  sr_impact_value : Z;     (* price_impact (signed usd) *)
  sr_impact_amount : Z;    (* price_impact_amount *)
  sr_fees : fees }.

(* intermediate quantities of try_execute, exposed for the value-bound statements (C05) *)
Record swap_trace := mkST {
  st_after_fees : Z;       (* amount_after_fees *)
  st_token_in : Z;         (* token_in_amount that is converted *)
  st_capped_in : Z;        (* |capped_diff_token_in_amount| (0 unless positive impact was capped) *)
  st_pool_out : Z }.       (* pool_amount_out *)

Section Swap.
  Variable w : Z.
  Variable unit : Z.
  Variable cfg : config.

  (* the amounts computed by the two branches of try_execute:
     (token_in_amount, token_out_amount, pool_amount_out, price_impact_amount, capped_in, new swap impact pool) *)
  Definition swap_amounts (s : mstate) (is_long_in : bool) (pin pout : price) (after impact : Z)
    : res (Z * Z * Z * Z * Z * pool) :=
    if 0 <? impact then
      let deduct_side := negb is_long_in in
      ac <-- swap_impact_amount_with_cap w s deduct_side pout impact ;;
      let spa := fst ac in
      let capped := snd ac in
      ct <-- (if capped =? 0 then Ok (0, after) else
                cs <-- to_sig w capped ;;
                r <-- swap_impact_amount_with_cap w s is_long_in pin cs ;;
                t <-- of_opt E_COMP (uadd w after (Z.abs (fst r))) ;;
                Ok (fst r, t)) ;;
      let cdin := fst ct in
      let tin := snd ct in
      nspa <-- of_opt E_COMP (sneg w spa) ;;
      ncd <-- of_opt E_COMP (sneg w cdin) ;;
      ip <-- pool_apply w (swap_impact s) (delta_both deduct_side nspa ncd) ;;
      let pia := Z.abs spa in
      pao <-- of_opt E_COMP (mul_div w tin (pr_min pin) (pr_max pout)) ;;
      out <-- of_opt E_COMP (uadd w pao pia) ;;
      Ok (tin, out, pao, pia, Z.abs cdin, ip)
    else
      ac <-- swap_impact_amount_with_cap w s is_long_in pin impact ;;
      let spa := fst ac in
      nspa <-- of_opt E_COMP (sneg w spa) ;;
      ip <-- pool_apply w (swap_impact s) (delta_one is_long_in nspa) ;;
      let pia := Z.abs spa in
      tin <-- of_opt E_COMP (usub w after pia) ;;
      if tin =? 0 then Err E_COMP else
      out <-- of_opt E_COMP (mul_div w tin (pr_min pin) (pr_max pout)) ;;
      Ok (tin, out, out, pia, 0, ip).

  (* Swap::try_new + execute.  On [Err] the market is unchanged (the caller keeps [s]). *)
  Definition swap_exec_trace (s : mstate) (is_long_in : bool) (amount : Z) (ps : prices)
    : res (mstate * swap_report * swap_trace) :=
    if amount =? 0 then Err E_EMPTY_SWAP else
    if negb (prices_valid w ps) then Err E_INVALID_ARG else
    let pin := side_price ps is_long_in in
    let pout := side_price ps (negb is_long_in) in
    (* reassign_values *)
    mid_in <-- of_opt E_PANIC (mid w pin) ;;
    v <-- of_opt E_COMP (umul w amount mid_in) ;;
    vs <-- to_sig w v ;;
    nvs <-- of_opt E_COMP (sneg w vs) ;;
    let dl := if is_long_in then vs else nvs in
    let ds := if is_long_in then nvs else vs in
    let kl := if is_long_in then MaxAfterDeposit else MaxAfterWithdrawal in
    let ks := if is_long_in then MaxAfterWithdrawal else MaxAfterDeposit in
    (* price impact *)
    mid_l <-- of_opt E_PANIC (mid w (px_long ps)) ;;
    mid_s <-- of_opt E_PANIC (mid w (px_short ps)) ;;
    d <-- pool_delta_with_values w (primary s) dl ds mid_l mid_s ;;
    imp <-- swap_impact_value w unit cfg s d true ;;
    af <-- of_opt E_COMP (apply_fees w unit (c_swap_fee cfg) (snd imp) amount) ;;
    let after := fst af in
    let fs := snd af in
    rs <-- to_sig w (f_receiver fs) ;;
    cf <-- pool_apply w (fee s) (delta_one is_long_in rs) ;;
    am <-- swap_amounts s is_long_in pin pout after (fst imp) ;;
    let '(tin, out, pao, pia, cin, ip) := am in
    (* liquidity (and virtual inventory) *)
    a <-- of_opt E_OVERFLOW (uadd w tin (f_pool fs)) ;;
    asg <-- to_sig w a ;;
    b <-- to_opp w pao ;;
    lv <-- market_apply_delta w s (delta_both is_long_in asg b) ;;
    (* the Cache: new liquidity / swap impact / claimable fee pools over the old market *)
    let s1 := set_fee (set_swap_impact (set_primary s (fst lv)) ip) cf in
    _ <-- validate_pool_amount cfg s1 is_long_in ;;
    _ <-- validate_reserve w unit cfg s1 ps (negb is_long_in) ;;
    _ <-- validate_max_pnl w unit cfg s1 ps kl ks ;;
    let s2 := match snd lv with Some vp => set_vi_swaps s1 (Some vp) | None => s1 end in
    Ok (s2, mkSR out (fst imp) pia fs, mkST after tin cin pao).

  Definition swap_exec (s : mstate) (is_long_in : bool) (amount : Z) (ps : prices)
    : res (mstate * swap_report) :=
    r <-- swap_exec_trace s is_long_in amount ps ;; Ok (fst r).

  (* state after the call, success or not *)
  Definition swap_step (s : mstate) (is_long_in : bool) (amount : Z) (ps : prices) : mstate :=
    match swap_exec s is_long_in amount ps with Ok r => fst r | Err _ => s end.
End Swap.
