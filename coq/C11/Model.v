(* C11 — the model of PositionExt::pnl_value and the market functions it reads lives in
   PS/Model.v (shared with C07..C10); this file only re-exports it. *)
From GV Require Export lib.Base C01.Model PS.Model.
