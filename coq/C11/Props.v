(* C11 — Position profit and loss moves with the price in the right direction.
   Property theorems only; each is closed by a lemma of Proofs.v.
   The model (PS/Model.v: pnl_value, total_pnl, market_pnl, cap_pnl, size_delta_in_tokens) is the
   Gallina transcription of PositionExt::pnl_value, BaseMarketExt::pnl, MarketUtils::cap_pnl. *)
From GV Require Import lib.Base C01.Model PS.Model PS.Lemmas C11.Proofs C11.Corr C11.Sound.
Open Scope Z_scope.

(* 1. the uncapped pnl of a close is monotone in the index price (all positions, pool states, caps, widths) *)
Theorem c11_pnl_uncapped_monotone : forall w, 1 <= w -> forall unit, 0 < unit ->
  forall p m pr1 pr2 d a1 b1 c1 a2 b2 c2,
  pos_nonneg p -> prices_nonneg pr1 -> prices_nonneg pr2 -> pnl_market_nonneg m -> 0 <= d ->
  index_le_prop pr1 pr2 ->
  pnl_value w unit p m pr1 d = Ok (a1, b1, c1) ->
  pnl_value w unit p m pr2 d = Ok (a2, b2, c2) ->
  c1 = c2 /\ if is_long p then b1 <= b2 else b2 <= b1.
Proof. intros w Hw unit Hu. exact (pnl_uncapped_monotone w Hw unit Hu). Qed.

(* 2. the realised pnl is monotone outside the known class TraderCapBinding
      (class = the credited pnl differs from the uncapped pnl in one of the two evaluations) *)
Theorem c11_pnl_realised_monotone_outside_class : forall w, 1 <= w -> forall unit, 0 < unit ->
  forall p m pr1 pr2 d a1 b1 c1 a2 b2 c2,
  pos_nonneg p -> prices_nonneg pr1 -> prices_nonneg pr2 -> pnl_market_nonneg m -> 0 <= d ->
  index_le_prop pr1 pr2 ->
  pnl_value w unit p m pr1 d = Ok (a1, b1, c1) ->
  pnl_value w unit p m pr2 d = Ok (a2, b2, c2) ->
  a1 = b1 -> a2 = b2 ->
  if is_long p then a1 <= a2 else a2 <= a1.
Proof. intros w Hw unit Hu. exact (pnl_realised_monotone_uncapped w Hw unit Hu). Qed.

(* 2'. the cap does not bind (credited = uncapped) whenever the pool pnl is within pool value * trader factor *)
Theorem c11_cap_not_binding : forall w, 1 <= w -> forall unit, 0 < unit ->
  forall p m pr d a b c poolv ppnl,
  pos_nonneg p -> prices_nonneg pr -> pnl_market_nonneg m -> 0 <= d ->
  pool_value_one_side w m pr (is_long p) false = Ok poolv ->
  market_pnl w m (p_index pr) (is_long p) true = Ok ppnl ->
  ppnl <= poolv * c_max_pnl_trader (m_cfg m) / unit ->
  pnl_value w unit p m pr d = Ok (a, b, c) -> a = b.
Proof. intros w Hw unit Hu. exact (pnl_cap_not_binding w Hw unit Hu). Qed.

(* 3. the pnl credited never exceeds the uncapped pnl, keeps its sign, and losses are never reduced *)
Theorem c11_pnl_le_uncapped : forall w, 1 <= w -> forall unit, 0 < unit ->
  forall p m pr d a b c,
  pos_nonneg p -> prices_nonneg pr -> pnl_market_nonneg m -> 0 <= d ->
  pnl_value w unit p m pr d = Ok (a, b, c) ->
  a <= b /\ (b <= 0 -> a = b) /\ (0 <= b -> 0 <= a).
Proof. intros w Hw unit Hu. exact (pnl_le_uncapped w Hw unit Hu). Qed.

(* 4. exact form: both values are the truncated closed share of the total pnl at the price that is worse
      for the trader (long: min, short: max), and the closed tokens round against the trader *)
Theorem c11_pnl_value_exact : forall w, 1 <= w -> forall unit, 0 < unit ->
  forall p m pr d a b c,
  pos_nonneg p -> prices_nonneg pr -> pnl_market_nonneg m -> 0 <= d ->
  pnl_value w unit p m pr d = Ok (a, b, c) ->
  exists tc, 0 < size_tok p /\ 0 <= c /\ size_delta_in_tokens w p d = Ok c /\
    total_pnl w unit p m pr = Ok (tc, exact_total p pr) /\
    a = Z.quot (c * tc) (size_tok p) /\ b = Z.quot (c * exact_total p pr) (size_tok p) /\
    tc <= exact_total p pr /\ (exact_total p pr <= 0 -> tc = exact_total p pr) /\ (0 <= exact_total p pr -> 0 <= tc).
Proof. intros w Hw unit Hu. exact (pnl_value_spec w Hw unit Hu). Qed.

Theorem c11_size_delta_in_tokens : forall w, 1 <= w -> forall p d c, pos_nonneg p -> 0 <= d ->
  size_delta_in_tokens w p d = Ok c ->
  0 <= c /\
  ((size_usd p = d /\ c = size_tok p) \/
   (size_usd p <> d /\ 0 < size_usd p /\ is_long p = true /\
      size_usd p * (c - 1) < size_tok p * d <= size_usd p * c) \/
   (size_usd p <> d /\ 0 < size_usd p /\ is_long p = false /\
      size_usd p * c <= size_tok p * d < size_usd p * c + size_usd p)).
Proof. intros w Hw. exact (sdt_spec w Hw). Qed.

(* 5. a partial close realises the closed share of the pnl, up to rounding:
      | x - X*d/S | < 1 + |X|/T  for the credited and for the uncapped pnl *)
Theorem c11_partial_close_proportional : forall w, 1 <= w -> forall unit, 0 < unit ->
  forall p m pr d a b c A B C,
  pos_nonneg p -> prices_nonneg pr -> pnl_market_nonneg m -> 0 <= d -> 0 < size_usd p ->
  pnl_value w unit p m pr d = Ok (a, b, c) ->
  pnl_value w unit p m pr (size_usd p) = Ok (A, B, C) ->
  C = size_tok p /\
  share_close (size_tok p) (size_usd p) d a A /\ share_close (size_tok p) (size_usd p) d b B.
Proof. intros w Hw unit Hu. exact (partial_close_proportional w Hw unit Hu). Qed.

(* 6. the oracle of Corr.v evaluated on the model's own outputs: every clause holds, except the
      realised-pnl monotonicity inside the known class *)
Theorem c11_oracle_sound_one : forall w, 1 <= w -> forall unit, 0 < unit ->
  forall p m pr d,
  pos_nonneg p -> prices_nonneg pr -> pnl_market_nonneg m -> 0 <= d ->
  one_ok p pr d (pnl_value w unit p m pr d) = true.
Proof. intros w Hw unit Hu. exact (one_ok_sound w Hw unit Hu). Qed.

Theorem c11_oracle_sound_mono : forall w, 1 <= w -> forall dec,
  forall m p pr1 pr2 d, 0 < 10 ^ dec ->
  pos_nonneg p -> prices_nonneg pr1 -> prices_nonneg pr2 -> pnl_market_nonneg m -> 0 <= d ->
  let c := PnlMono w dec m p pr1 pr2 d (pnl_value w (10 ^ dec) p m pr1 d) (pnl_value w (10 ^ dec) p m pr2 d) in
  oracle_b c = true \/ known_b c = 1.
Proof. intros w Hw dec m p pr1 pr2 d Hu. exact (mono_case_sound w Hw (10 ^ dec) Hu m p pr1 pr2 d dec). Qed.

Theorem c11_oracle_sound_prop : forall w, 1 <= w -> forall unit, 0 < unit ->
  forall p m pr d,
  pos_nonneg p -> prices_nonneg pr -> pnl_market_nonneg m -> 0 <= d -> 0 < size_usd p ->
  prop_ok p d (pnl_value w unit p m pr d) (pnl_value w unit p m pr (size_usd p)) = true.
Proof. intros w Hw unit Hu. exact (prop_ok_sound w Hw unit Hu). Qed.

(* Known finding TraderCapBinding: the literal statement "realised pnl never decreases as the index price
   rises for a long" is false when the trader cap binds.  Witness (replayed on the real code, u64/9):
   a long of 139 tokens / 19121871 usd in a pool whose other longs were opened at a higher price. *)
Theorem c11_trader_cap_binding_refuted :
  exists p m pr1 pr2 d,
    pos_nonneg p /\ prices_nonneg pr1 /\ prices_nonneg pr2 /\ pnl_market_nonneg m /\ 0 <= d /\
    index_le_prop pr1 pr2 /\
    known_b (PnlMono 64 9 m p pr1 pr2 d (pnl_value 64 (10 ^ 9) p m pr1 d) (pnl_value 64 (10 ^ 9) p m pr2 d)) = 1 /\
    ~ realised_monotone 64 (10 ^ 9) p m pr1 pr2 d.
Proof. exact trader_cap_binding_witness. Qed.

(* non-vacuity: the hypotheses hold on concrete states and the functions return values there *)
Example c11_ex_uncapped :
  pnl_value 64 (10 ^ 9) wit_pos wit_market wit_pr1 19121871 = Ok (33231089, 33231089, 139).
Proof. vm_compute. reflexivity. Qed.
Example c11_ex_capped :
  pnl_value 64 (10 ^ 9) wit_pos wit_market wit_pr2 19121871 = Ok (7425677, 138469657, 139).
Proof. vm_compute. reflexivity. Qed.
Example c11_ex_partial :
  pnl_value 64 (10 ^ 9) wit_pos wit_market wit_pr1 9560935 = Ok (16735080, 16735080, 70).
Proof. vm_compute. reflexivity. Qed.
