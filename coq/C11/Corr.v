(* C11 — correspondence and oracle predicates for harness/src/bin/c11.rs.
   Depends on the models only.  Error kinds: see PS/Model.v. *)
From GV Require Export lib.Base C01.Model PS.Model.
Open Scope Z_scope.

Definition pres := res (Z * Z * Z).     (* pnl_usd, uncapped_pnl_usd, size_delta_in_tokens *)

Inductive case :=
| PnlOne (w dec : Z) (m : market) (p : position) (pr : prices) (d : Z) (r : pres)
  (* pr1, pr2 differ in the index price only, componentwise pr1 <= pr2 *)
| PnlMono (w dec : Z) (m : market) (p : position) (pr1 pr2 : prices) (d : Z) (r1 r2 : pres)
  (* r for size delta d, rfull for size delta = size_in_usd *)
| PnlProp (w dec : Z) (m : market) (p : position) (pr : prices) (d : Z) (r rfull : pres).

Definition preqb (a b : pres) : bool :=
  match a, b with
  | Ok (x1, x2, x3), Ok (y1, y2, y3) => (x1 =? y1) && (x2 =? y2) && (x3 =? y3)
  | Err x, Err y => x =? y
  | _, _ => false
  end.

Definition corr_b (c : case) : bool :=
  match c with
  | PnlOne w dec m p pr d r => preqb (pnl_value w (10 ^ dec) p m pr d) r
  | PnlMono w dec m p pr1 pr2 d r1 r2 =>
      preqb (pnl_value w (10 ^ dec) p m pr1 d) r1 && preqb (pnl_value w (10 ^ dec) p m pr2 d) r2
  | PnlProp w dec m p pr d r rf =>
      preqb (pnl_value w (10 ^ dec) p m pr d) r && preqb (pnl_value w (10 ^ dec) p m pr (size_usd p)) rf
  end.

(* ---- the property on the implementation's outputs ---- *)
Definition floor_ok (n d r : Z) : bool := (d * r <=? n) && (n <? d * r + d).
Definition ceil_ok (n d r : Z) : bool := (d * (r - 1) <? n) && (n <=? d * r).

(* a single evaluation: the credited pnl never exceeds the uncapped pnl, has its sign,
   losses are never reduced; the uncapped pnl is the (truncated) share of
   size_in_tokens * price - size_in_usd, priced at the index price that is worse for the trader;
   the closed tokens are the closed share of the tokens, rounded against the trader *)
Definition one_ok (p : position) (pr : prices) (d : Z) (r : pres) : bool :=
  match r with
  | Err _ => true
  | Ok (a, b, c) =>
      let T := size_tok p in let S := size_usd p in
      let px := if is_long p then pmin (p_index pr) else pmax (p_index pr) in
      let total := if is_long p then T * px - S else S - T * px in
      (a <=? b) && (if b <=? 0 then a =? b else 0 <=? a)
      && negb (T =? 0) && (b =? Z.quot (c * total) T)
      && (if S =? d then c =? T else if is_long p then ceil_ok (T * d) S c else floor_ok (T * d) S c)
  end.

Definition index_le (pr1 pr2 : prices) : bool :=
  (pmin (p_index pr1) <=? pmin (p_index pr2)) && (pmax (p_index pr1) <=? pmax (p_index pr2)).

(* realised pnl moves with the index price in the right direction *)
Definition mono_ok (p : position) (pr1 pr2 : prices) (r1 r2 : pres) : bool :=
  match r1, r2 with
  | Ok (a1, b1, _), Ok (a2, b2, _) =>
      if index_le pr1 pr2 then
        if is_long p then (a1 <=? a2) && (b1 <=? b2) else (a2 <=? a1) && (b2 <=? b1)
      else true
  | _, _ => true
  end.

(* |x - X*d/S| < 1 + |X|/T, in integers *)
Definition share_ok (T S d x X : Z) : bool :=
  Z.abs (x * T * S - T * d * X) <? T * S + S * Z.abs X.

Definition prop_ok (p : position) (d : Z) (r rf : pres) : bool :=
  match r, rf with
  | Ok (a, b, _), Ok (A, B, _) =>
      share_ok (size_tok p) (size_usd p) d a A && share_ok (size_tok p) (size_usd p) d b B
  | _, _ => true
  end.

Definition oracle_b (c : case) : bool :=
  match c with
  | PnlOne _ _ _ p pr d r => one_ok p pr d r
  | PnlMono _ _ _ p pr1 pr2 d r1 r2 => one_ok p pr1 d r1 && one_ok p pr2 d r2 && mono_ok p pr1 pr2 r1 r2
  | PnlProp _ _ _ p pr d r rf => one_ok p pr d r && one_ok p pr (size_usd p) rf && prop_ok p d r rf
  end.

(* Known finding, class 1 (TraderCapBinding): the only failing clause is the monotonicity of the
   realised (capped) pnl, the uncapped pnl is monotone, and the trader cap is binding in at least one of
   the two evaluations (credited pnl differs from the uncapped pnl). *)
Definition known_b (c : case) : Z :=
  match c with
  | PnlMono _ _ _ p pr1 pr2 d (Ok (a1, b1, c1)) (Ok (a2, b2, c2)) =>
      if one_ok p pr1 d (Ok (a1, b1, c1)) && one_ok p pr2 d (Ok (a2, b2, c2))
         && index_le pr1 pr2
         && (if is_long p then b1 <=? b2 else b2 <=? b1)
         && (negb (a1 =? b1) || negb (a2 =? b2))
         && negb (if is_long p then a1 <=? a2 else a2 <=? a1)
      then 1 else 0
  | _ => 0
  end.
