(* C11 — the oracle predicates of Corr.v hold on the model's outputs (outside the known class),
   and the witness of the known class. *)
From GV Require Import lib.Base lib.DivLemmas C01.Model C01.Proofs PS.Model PS.Lemmas C11.Proofs C11.Corr.
Open Scope Z_scope.
Ltac Zify.zify_post_hook ::= Z.div_mod_to_equations.

Ltac b2p := repeat first [ rewrite andb_true_iff | rewrite orb_true_iff | rewrite negb_true_iff
                          | rewrite Z.leb_le | rewrite Z.ltb_lt | rewrite Z.eqb_eq | rewrite Z.eqb_neq
                          | rewrite Z.leb_gt | rewrite Z.ltb_ge ].

Section S.
  Variable w : Z.
  Hypothesis Hw : 1 <= w.
  Variable unit : Z.
  Hypothesis Hunit : 0 < unit.

  Lemma exact_total_eq p pr :
    (if is_long p then size_tok p * (if is_long p then pmin (p_index pr) else pmax (p_index pr)) - size_usd p
     else size_usd p - size_tok p * (if is_long p then pmin (p_index pr) else pmax (p_index pr))) = exact_total p pr.
  Proof. unfold exact_total. destruct (is_long p); reflexivity. Qed.

  Lemma one_ok_sound p m pr d :
    pos_nonneg p -> prices_nonneg pr -> pnl_market_nonneg m -> 0 <= d ->
    one_ok p pr d (pnl_value w unit p m pr d) = true.
  Proof.
    intros Hp Hpr Hm Hd. destruct (pnl_value w unit p m pr d) as [[[a b] c]|e] eqn:E; [|reflexivity].
    pose proof (pnl_le_uncapped w Hw unit Hunit _ _ _ _ _ _ _ Hp Hpr Hm Hd E) as (L1 & L2 & L3).
    destruct (pnl_value_spec w Hw unit Hunit _ _ _ _ _ _ _ Hp Hpr Hm Hd E) as (tc & HT & Hc & Es & _ & _ & Hb & _).
    pose proof (sdt_spec w Hw _ _ _ Hp Hd Es) as [_ Hcase].
    unfold one_ok. cbv zeta. rewrite exact_total_eq.
    apply andb_true_intro; split; [apply andb_true_intro; split; [apply andb_true_intro; split; [apply andb_true_intro; split|]|]|].
    - apply Z.leb_le. exact L1.
    - destruct (b <=? 0) eqn:Eb; [apply Z.eqb_eq; apply L2; lia | apply Z.leb_le; apply L3; lia].
    - apply negb_true_iff. apply Z.eqb_neq. lia.
    - apply Z.eqb_eq. exact Hb.
    - destruct Hcase as [[E1 E2]|[(Hn & HS & El & Hr)|(Hn & HS & El & Hr)]].
      + rewrite E1, Z.eqb_refl. apply Z.eqb_eq. exact E2.
      + replace (size_usd p =? d) with false by (symmetry; apply Z.eqb_neq; exact Hn). rewrite El.
        unfold ceil_ok. b2p. lia.
      + replace (size_usd p =? d) with false by (symmetry; apply Z.eqb_neq; exact Hn). rewrite El.
        unfold floor_ok. b2p. lia.
  Qed.

  Lemma prop_ok_sound p m pr d :
    pos_nonneg p -> prices_nonneg pr -> pnl_market_nonneg m -> 0 <= d -> 0 < size_usd p ->
    prop_ok p d (pnl_value w unit p m pr d) (pnl_value w unit p m pr (size_usd p)) = true.
  Proof.
    intros Hp Hpr Hm Hd HS.
    destruct (pnl_value w unit p m pr d) as [[[a b] c]|e] eqn:E1; [|reflexivity].
    destruct (pnl_value w unit p m pr (size_usd p)) as [[[A B] C]|e] eqn:E2; [|reflexivity].
    pose proof (partial_close_proportional w Hw unit Hunit _ _ _ _ _ _ _ _ _ _ Hp Hpr Hm Hd HS E1 E2) as (_ & S1 & S2).
    unfold prop_ok, share_ok. unfold share_close in *. b2p. split; assumption.
  Qed.

  Lemma index_le_iff pr1 pr2 : index_le pr1 pr2 = true <-> index_le_prop pr1 pr2.
  Proof. unfold index_le, index_le_prop. b2p. reflexivity. Qed.

  Lemma mono_case_sound m p pr1 pr2 d dec :
    pos_nonneg p -> prices_nonneg pr1 -> prices_nonneg pr2 -> pnl_market_nonneg m -> 0 <= d ->
    let c := PnlMono w dec m p pr1 pr2 d (pnl_value w unit p m pr1 d) (pnl_value w unit p m pr2 d) in
    oracle_b c = true \/ known_b c = 1.
  Proof.
    intros Hp Hpr1 Hpr2 Hm Hd. cbv zeta.
    pose proof (one_ok_sound p m pr1 d Hp Hpr1 Hm Hd) as O1.
    pose proof (one_ok_sound p m pr2 d Hp Hpr2 Hm Hd) as O2.
    unfold oracle_b, known_b. rewrite O1, O2. cbn [andb].
    destruct (pnl_value w unit p m pr1 d) as [[[a1 b1] c1]|e1] eqn:E1; [|left; reflexivity].
    destruct (pnl_value w unit p m pr2 d) as [[[a2 b2] c2]|e2] eqn:E2; [|left; reflexivity].
    rewrite O1, O2. cbn [andb]. unfold mono_ok.
    destruct (index_le pr1 pr2) eqn:Ei; [|left; reflexivity].
    pose proof (proj1 (index_le_iff _ _) Ei) as Hi.
    pose proof (pnl_uncapped_monotone w Hw unit Hunit _ _ _ _ _ _ _ _ _ _ _ Hp Hpr1 Hpr2 Hm Hd Hi E1 E2) as [_ Hb].
    cbn [andb].
    destruct (is_long p) eqn:El.
    - assert (Hb' : (b1 <=? b2) = true) by (apply Z.leb_le; exact Hb). rewrite Hb'.
      destruct (a1 <=? a2) eqn:Ea; [left; reflexivity|right].
      destruct (a1 =? b1) eqn:X1; destruct (a2 =? b2) eqn:X2; try reflexivity.
      exfalso. apply Z.eqb_eq in X1, X2.
      pose proof (pnl_realised_monotone_uncapped w Hw unit Hunit _ _ _ _ _ _ _ _ _ _ _ Hp Hpr1 Hpr2 Hm Hd Hi E1 E2 X1 X2) as Hm'.
      rewrite El in Hm'. apply Z.leb_gt in Ea. lia.
    - assert (Hb' : (b2 <=? b1) = true) by (apply Z.leb_le; exact Hb). rewrite Hb'.
      destruct (a2 <=? a1) eqn:Ea; [left; rewrite andb_true_r; reflexivity|right].
      destruct (a1 =? b1) eqn:X1; destruct (a2 =? b2) eqn:X2; try reflexivity.
      exfalso. apply Z.eqb_eq in X1, X2.
      pose proof (pnl_realised_monotone_uncapped w Hw unit Hunit _ _ _ _ _ _ _ _ _ _ _ Hp Hpr1 Hpr2 Hm Hd Hi E1 E2 X1 X2) as Hm'.
      rewrite El in Hm'. apply Z.leb_gt in Ea. lia.
  Qed.
End S.

(* ---- witness of the known class (a case produced by the real code, seed 1) ---- *)
Definition wit_cfg : config :=
  MkConfig (MkPosParams 1000000000 1000000000 0 None 0 0 0) (MkImpactParams 2000000000 1 2) (MkFeeParams 0 0 0 None)
           0 0 0 1000000000 1000000000 855182266 855182266 0 1000000000 0 10.
Definition wit_market : market :=
  MkMarket wit_cfg (MkPool 172 123543) (MkPool 0 0) (MkPool 0 0) (MkPool 1079112218 497933278) (MkPool 0 0)
           (MkPool 3914 0) (MkPool 0 0) (MkPool 0 0) (MkPool 0 0) (MkPool 0 0) (MkPool 0 0) (MkPool 0 0)
           (MkPool 0 0) (MkPool 0 0) (MkPool 0 0) (MkPool 0 0) None None.
Definition wit_pos : position := MkPos true true 77612487 19121871 139 0 0 0 0.
Definition wit_pr1 : prices := MkPrices (MkPrice 376640 376640) (MkPrice 1042870 1058921) (MkPrice 1458 1477).
Definition wit_pr2 : prices := MkPrices (MkPrice 1133752 1133752) (MkPrice 1042870 1058921) (MkPrice 1458 1477).

Definition realised_monotone (w unit : Z) (p : position) (m : market) (pr1 pr2 : prices) (d : Z) : Prop :=
  forall a1 b1 c1 a2 b2 c2,
    pnl_value w unit p m pr1 d = Ok (a1, b1, c1) -> pnl_value w unit p m pr2 d = Ok (a2, b2, c2) ->
    if is_long p then a1 <= a2 else a2 <= a1.

Lemma trader_cap_binding_witness :
  exists p m pr1 pr2 d,
    pos_nonneg p /\ prices_nonneg pr1 /\ prices_nonneg pr2 /\ pnl_market_nonneg m /\ 0 <= d /\
    index_le_prop pr1 pr2 /\
    known_b (PnlMono 64 9 m p pr1 pr2 d (pnl_value 64 (10 ^ 9) p m pr1 d) (pnl_value 64 (10 ^ 9) p m pr2 d)) = 1 /\
    ~ realised_monotone 64 (10 ^ 9) p m pr1 pr2 d.
Proof.
  exists wit_pos, wit_market, wit_pr1, wit_pr2, 19121871.
  assert (E1 : pnl_value 64 (10 ^ 9) wit_pos wit_market wit_pr1 19121871 = Ok (33231089, 33231089, 139)) by (vm_compute; reflexivity).
  assert (E2 : pnl_value 64 (10 ^ 9) wit_pos wit_market wit_pr2 19121871 = Ok (7425677, 138469657, 139)) by (vm_compute; reflexivity).
  split. { unfold pos_nonneg; cbn; lia. }
  split. { unfold prices_nonneg, price_nonneg; cbn; lia. }
  split. { unfold prices_nonneg, price_nonneg; cbn; lia. }
  split. { unfold pnl_market_nonneg, pool_nonneg; cbn; lia. }
  split. { lia. }
  split. { unfold index_le_prop; cbn; lia. }
  split. { rewrite E1, E2. vm_compute. reflexivity. }
  intros H. specialize (H _ _ _ _ _ _ E1 E2). cbn in H. lia.
Qed.
