(* C11 — lemmas about PositionExt::pnl_value (PS/Model.v). *)
From GV Require Import lib.Base lib.DivLemmas C01.Model C01.Proofs PS.Model PS.Lemmas.
Open Scope Z_scope.
Ltac Zify.zify_post_hook ::= Z.div_mod_to_equations.

(* unsigned machine values are non-negative *)
Definition pool_nonneg (p : pool) := 0 <= pl p /\ 0 <= ps p.
Definition price_nonneg (p : price) := 0 <= pmin p /\ 0 <= pmax p.
Definition prices_nonneg (pr : prices) := price_nonneg (p_index pr) /\ price_nonneg (p_long pr) /\ price_nonneg (p_short pr).
Definition pnl_market_nonneg (m : market) :=
  pool_nonneg (m_primary m) /\ pool_nonneg (m_oi_long m) /\ pool_nonneg (m_oi_short m) /\
  pool_nonneg (m_oit_long m) /\ pool_nonneg (m_oit_short m) /\ 0 <= c_max_pnl_trader (m_cfg m).
Definition pos_nonneg (p : position) := 0 <= size_usd p /\ 0 <= size_tok p.

(* the exact uncapped total pnl of a position at the price picked for pnl *)
Definition exact_total (p : position) (pr : prices) : Z :=
  if is_long p then size_tok p * pmin (p_index pr) - size_usd p
  else size_usd p - size_tok p * pmax (p_index pr).

Section P.
  Variable w : Z.
  Hypothesis Hw : 1 <= w.
  Variable unit : Z.
  Hypothesis Hunit : 0 < unit.

  Lemma pool_total_ok p t : pool_nonneg p -> pool_total w p = Ok t -> t = pl p + ps p /\ 0 <= t.
  Proof. intros [H1 H2] H. unfold pool_total in H. inv_ok H. apply chk_u_some in H. lia. Qed.

  Lemma cap_pnl_spec pnl pv f r : 0 <= pv -> 0 <= f ->
    cap_pnl w unit pnl pv f = Ok r -> r <= pnl /\ (pnl <= 0 -> r = pnl) /\ (0 < pnl -> 0 <= r).
  Proof.
    intros Hpv Hf. unfold cap_pnl. destruct (0 <? pnl) eqn:E.
    - intros H. inv_ok H. apply af_ok in E0; try lia. apply rsigned_ok in E1. destruct E1 as [_ ->].
      destruct (x <? pnl) eqn:E2; subst r; lia.
    - intros H. inv_ok H. lia.
  Qed.

  Lemma market_pnl_total_spec p m pr tc tu :
    pos_nonneg p -> prices_nonneg pr -> pnl_market_nonneg m ->
    total_pnl w unit p m pr = Ok (tc, tu) ->
    tu = exact_total p pr /\ tc <= tu /\ (tu <= 0 -> tc = tu) /\ (0 <= tu -> 0 <= tc).
  Proof.
    intros [HS HT] (Hi & Hl & Hs) (Hp & _ & _ & _ & _ & Hf) H. unfold total_pnl in H.
    bind_ok H as pv Epv. apply umul_ok in Epv. destruct Epv as [Hx ->].
    bind_ok H as pvs Epvs. apply rsigned_ok in Epvs. destruct Epvs as [_ ->].
    bind_ok H as su Esu. apply rsigned_ok in Esu. destruct Esu as [_ ->].
    bind_ok H as total Etot.
    assert (Htot : total = exact_total p pr).
    { unfold exact_total, pick_for_pnl in *. destruct (is_long p); simpl in *;
        apply ssub_ok in Etot; lia. }
    clear Etot. destruct (0 <? total) eqn:Epos.
    - bind_ok H as poolv Epool. bind_ok H as ppnl Eppnl. bind_ok H as capped Ecap.
      assert (Hpv : 0 <= poolv).
      { unfold pool_value_one_side in Epool. destruct Hp as [Hp1 Hp2]. destruct Hl, Hs.
        destruct (is_long p); ok_inj Epool; apply umul_ok in Epool; unfold pick in Epool; simpl in Epool; nia. }
      pose proof (cap_pnl_spec _ _ _ _ Hpv Hf Ecap) as (Hc1 & Hc2 & Hc3).
      destruct (negb (capped =? ppnl) && (0 <=? capped) && (0 <? ppnl)) eqn:Eb.
      + bind_ok H as t Et. injection H as <- <-.
        apply andb_prop in Eb. destruct Eb as [Eb E3]. apply andb_prop in Eb. destruct Eb as [E4 E5].
        apply mds_quot in Et; try lia. destruct Et as [Hd ->].
        rewrite !Z.abs_eq by lia.
        split; [exact Htot|].
        assert (Hle : Z.quot (capped * total) ppnl <= total).
        { replace total with (Z.quot (ppnl * total) ppnl) at 2 by (rewrite Z.mul_comm; apply Z.quot_mul; lia).
          apply quot_mono; [lia|nia]. }
        assert (Hge : 0 <= Z.quot (capped * total) ppnl) by (apply quot_nonneg; [lia|nia]).
        repeat split; lia.
      + injection H as <- <-. repeat split; lia.
    - injection H as <- <-. repeat split; lia.
  Qed.

  (* closed tokens: the closed share of the tokens, rounded up for longs and down for shorts *)
  Lemma sdt_spec p d c : pos_nonneg p -> 0 <= d ->
    size_delta_in_tokens w p d = Ok c ->
    0 <= c /\
    ((size_usd p = d /\ c = size_tok p) \/
     (size_usd p <> d /\ 0 < size_usd p /\ is_long p = true /\
        size_usd p * (c - 1) < size_tok p * d <= size_usd p * c) \/
     (size_usd p <> d /\ 0 < size_usd p /\ is_long p = false /\
        size_usd p * c <= size_tok p * d < size_usd p * c + size_usd p)).
  Proof.
    intros [HS HT] Hd H. unfold size_delta_in_tokens in H.
    destruct (size_usd p =? d) eqn:E.
    - injection H as <-. split; [lia|]. left. lia.
    - destruct (is_long p) eqn:El; ok_inj H.
      + apply mul_div_ceil_exact in H; [|lia..]. assert (0 <= c) by nia. lia.
      + apply mul_div_floor in H; [|lia..]. lia.
  Qed.

  (* pnl_value = truncated share of the (capped / uncapped) total pnl *)
  Lemma pnl_value_spec p m pr d a b c :
    pos_nonneg p -> prices_nonneg pr -> pnl_market_nonneg m -> 0 <= d ->
    pnl_value w unit p m pr d = Ok (a, b, c) ->
    exists tc, 0 < size_tok p /\ 0 <= c /\ size_delta_in_tokens w p d = Ok c /\
      total_pnl w unit p m pr = Ok (tc, exact_total p pr) /\
      a = Z.quot (c * tc) (size_tok p) /\ b = Z.quot (c * exact_total p pr) (size_tok p) /\
      tc <= exact_total p pr /\ (exact_total p pr <= 0 -> tc = exact_total p pr) /\ (0 <= exact_total p pr -> 0 <= tc).
  Proof.
    intros Hp Hpr Hm Hd H. unfold pnl_value in H.
    bind_ok H as t Et. destruct t as [tc tu].
    bind_ok H as sdt Esdt. bind_ok H as a' Ea. bind_ok H as b' Eb. injection H as <- <- <-.
    pose proof (market_pnl_total_spec _ _ _ _ _ Hp Hpr Hm Et) as (-> & H1 & H2 & H3).
    pose proof (sdt_spec _ _ _ Hp Hd Esdt) as [Hc _].
    destruct Hp as [HS HT]. simpl in Ea, Eb.
    apply mds_quot in Ea; try lia. apply mds_quot in Eb; try lia.
    destruct Ea as [HT0 ->]. destruct Eb as [_ ->].
    exists tc. repeat split; try assumption; try lia.
  Qed.

  (* the credited pnl never exceeds the uncapped pnl; losses are not reduced *)
  Theorem pnl_le_uncapped p m pr d a b c :
    pos_nonneg p -> prices_nonneg pr -> pnl_market_nonneg m -> 0 <= d ->
    pnl_value w unit p m pr d = Ok (a, b, c) ->
    a <= b /\ (b <= 0 -> a = b) /\ (0 <= b -> 0 <= a).
  Proof.
    intros Hp Hpr Hm Hd H.
    destruct (pnl_value_spec _ _ _ _ _ _ _ Hp Hpr Hm Hd H) as (tc & HT & Hc & _ & _ & -> & -> & H1 & H2 & H3).
    split; [apply quot_mono; [lia|nia]|]. split.
    - intros Hb. destruct (Z_le_gt_dec (exact_total p pr) 0) as [Hle|Hgt].
      + rewrite (H2 Hle). reflexivity.
      + specialize (H3 ltac:(lia)).
        assert (0 <= Z.quot (c * exact_total p pr) (size_tok p)) by (apply quot_nonneg; [lia|nia]).
        assert (0 <= Z.quot (c * tc) (size_tok p)) by (apply quot_nonneg; [lia|nia]).
        assert (Z.quot (c * tc) (size_tok p) <= Z.quot (c * exact_total p pr) (size_tok p)) by (apply quot_mono; [lia|nia]).
        lia.
    - intros Hb. destruct (Z_le_gt_dec 0 (exact_total p pr)) as [Hle|Hgt].
      + specialize (H3 Hle). apply quot_nonneg; [lia|nia].
      + rewrite (H2 ltac:(lia)). exact Hb.
  Qed.

  Definition index_le_prop (pr1 pr2 : prices) :=
    pmin (p_index pr1) <= pmin (p_index pr2) /\ pmax (p_index pr1) <= pmax (p_index pr2).

  (* the uncapped pnl is monotone in the index price: non-decreasing for a long, non-increasing for a short *)
  Theorem pnl_uncapped_monotone p m pr1 pr2 d a1 b1 c1 a2 b2 c2 :
    pos_nonneg p -> prices_nonneg pr1 -> prices_nonneg pr2 -> pnl_market_nonneg m -> 0 <= d ->
    index_le_prop pr1 pr2 ->
    pnl_value w unit p m pr1 d = Ok (a1, b1, c1) ->
    pnl_value w unit p m pr2 d = Ok (a2, b2, c2) ->
    c1 = c2 /\ if is_long p then b1 <= b2 else b2 <= b1.
  Proof.
    intros Hp Hpr1 Hpr2 Hm Hd [Hi1 Hi2] H1 H2.
    destruct (pnl_value_spec _ _ _ _ _ _ _ Hp Hpr1 Hm Hd H1) as (tc1 & HT & Hc1 & Es1 & _ & _ & -> & _).
    destruct (pnl_value_spec _ _ _ _ _ _ _ Hp Hpr2 Hm Hd H2) as (tc2 & _ & Hc2 & Es2 & _ & _ & -> & _).
    rewrite Es1 in Es2. injection Es2 as <-. split; [reflexivity|].
    unfold exact_total. destruct Hp as [HS HT'].
    assert (size_tok p * pmin (p_index pr1) <= size_tok p * pmin (p_index pr2)) by nia.
    assert (size_tok p * pmax (p_index pr1) <= size_tok p * pmax (p_index pr2)) by nia.
    destruct (is_long p); (apply quot_mono; [lia|]); apply Z.mul_le_mono_nonneg_l; lia.
  Qed.

  (* the realised pnl is monotone whenever the trader cap does not bind in either evaluation
     (credited = uncapped): the complement of the known class TraderCapBinding *)
  Theorem pnl_realised_monotone_uncapped p m pr1 pr2 d a1 b1 c1 a2 b2 c2 :
    pos_nonneg p -> prices_nonneg pr1 -> prices_nonneg pr2 -> pnl_market_nonneg m -> 0 <= d ->
    index_le_prop pr1 pr2 ->
    pnl_value w unit p m pr1 d = Ok (a1, b1, c1) ->
    pnl_value w unit p m pr2 d = Ok (a2, b2, c2) ->
    a1 = b1 -> a2 = b2 ->
    if is_long p then a1 <= a2 else a2 <= a1.
  Proof.
    intros Hp Hpr1 Hpr2 Hm Hd Hi H1 H2 -> ->.
    exact (proj2 (pnl_uncapped_monotone _ _ _ _ _ _ _ _ _ _ _ Hp Hpr1 Hpr2 Hm Hd Hi H1 H2)).
  Qed.

  (* when the pool pnl at the evaluation price is within the trader cap the credited pnl IS the uncapped pnl *)
  Theorem pnl_cap_not_binding p m pr d a b c poolv ppnl :
    pos_nonneg p -> prices_nonneg pr -> pnl_market_nonneg m -> 0 <= d ->
    pool_value_one_side w m pr (is_long p) false = Ok poolv ->
    market_pnl w m (p_index pr) (is_long p) true = Ok ppnl ->
    ppnl <= poolv * c_max_pnl_trader (m_cfg m) / unit ->
    pnl_value w unit p m pr d = Ok (a, b, c) -> a = b.
  Proof.
    intros Hp Hpr Hm Hd Epool Eppnl Hle H.
    unfold pnl_value in H. bind_ok H as t Et. bind_ok H as sdt Es. bind_ok H as a' Ea. bind_ok H as b' Eb.
    injection H as <- <- _.
    assert (fst t = snd t); [|congruence].
    unfold total_pnl in Et.
    bind_ok Et as pv Epv. bind_ok Et as pvs Epvs. bind_ok Et as su Esu. bind_ok Et as total Etot.
    destruct (0 <? total); [|injection Et as <-; reflexivity].
    rewrite Epool, Eppnl in Et. simpl in Et. bind_ok Et as capped Ecap.
    assert (capped = ppnl).
    { unfold cap_pnl in Ecap. destruct (0 <? ppnl) eqn:E0; [|injection Ecap as <-; reflexivity].
      bind_ok Ecap as mx Emx. bind_ok Ecap as mxs Emxs. injection Ecap as <-.
      destruct Hm as ((Hp1 & Hp2) & _ & _ & _ & _ & Hf).
      assert (0 <= poolv).
      { destruct Hpr as (_ & [? ?] & [? ?]). unfold pool_value_one_side in Epool.
        destruct (is_long p); ok_inj Epool; apply umul_ok in Epool; unfold pick in Epool; simpl in Epool; nia. }
      apply af_ok in Emx; try lia. destruct Emx as [-> _]. apply rsigned_ok in Emxs. destruct Emxs as [_ ->].
      destruct (poolv * c_max_pnl_trader (m_cfg m) / unit <? ppnl) eqn:E1; lia. }
    subst capped. rewrite Z.eqb_refl in Et. simpl in Et. injection Et as <-. reflexivity.
  Qed.

  (* a partial close realises the closed share of the full-close pnl, up to rounding:
     | x - X * d / S | < 1 + |X| / T    (x partial, X full close; T tokens, S size in usd) *)
  Definition share_close (T S d x X : Z) : Prop :=
    Z.abs (x * T * S - T * d * X) < T * S + S * Z.abs X.

  Lemma share_close_of T S d c x X : 0 < T -> 0 < S -> 0 <= c ->
    (c * S = T * d \/ Z.abs (c * S - T * d) < S) ->
    x = Z.quot (c * X) T -> share_close T S d x X.
  Proof.
    intros HT HS Hc Hcs ->. unfold share_close.
    pose proof (quot_bounds (c * X) T HT) as Hq.
    set (q := Z.quot (c * X) T) in *.
    assert (Hu : Z.abs (T * q - c * X) <= T - 1) by lia.
    assert (Hv : Z.abs (c * S - T * d) <= S - 1) by lia.
    replace (q * T * S - T * d * X) with (S * (T * q - c * X) + X * (c * S - T * d)) by ring.
    assert (Z.abs (S * (T * q - c * X)) <= S * (T - 1)) by (rewrite Z.abs_mul, (Z.abs_eq S) by lia; nia).
    assert (Z.abs (X * (c * S - T * d)) <= Z.abs X * (S - 1)) by (rewrite Z.abs_mul; pose proof (Z.abs_nonneg X); nia).
    pose proof (Z.abs_triangle (S * (T * q - c * X)) (X * (c * S - T * d))).
    pose proof (Z.abs_nonneg X). nia.
  Qed.

  Theorem partial_close_proportional p m pr d a b c A B C :
    pos_nonneg p -> prices_nonneg pr -> pnl_market_nonneg m -> 0 <= d -> 0 < size_usd p ->
    pnl_value w unit p m pr d = Ok (a, b, c) ->
    pnl_value w unit p m pr (size_usd p) = Ok (A, B, C) ->
    C = size_tok p /\
    share_close (size_tok p) (size_usd p) d a A /\ share_close (size_tok p) (size_usd p) d b B.
  Proof.
    intros Hp Hpr Hm Hd HS H1 H2.
    destruct (pnl_value_spec _ _ _ _ _ _ _ Hp Hpr Hm Hd H1) as (tc1 & HT & Hc1 & Es1 & Et1 & -> & -> & _).
    destruct (pnl_value_spec _ _ _ _ _ _ _ Hp Hpr Hm (Z.lt_le_incl _ _ HS) H2) as (tc2 & _ & Hc2 & Es2 & Et2 & -> & -> & _).
    rewrite Et1 in Et2. injection Et2 as <-.
    unfold size_delta_in_tokens in Es2. rewrite Z.eqb_refl in Es2. injection Es2 as <-.
    split; [reflexivity|].
    assert (HA : Z.quot (size_tok p * tc1) (size_tok p) = tc1) by (rewrite Z.mul_comm; apply Z.quot_mul; lia).
    assert (HB : Z.quot (size_tok p * exact_total p pr) (size_tok p) = exact_total p pr) by (rewrite Z.mul_comm; apply Z.quot_mul; lia).
    rewrite HA, HB.
    pose proof (sdt_spec _ _ _ Hp Hd Es1) as [_ Hcase].
    assert (Hcs : c * size_usd p = size_tok p * d \/ Z.abs (c * size_usd p - size_tok p * d) < size_usd p).
    { destruct Hcase as [[E ->]|[(Hn & HS' & _ & Hr)|(Hn & HS' & _ & Hr)]]; [left; rewrite E; ring|right; lia|right; lia]. }
    split; apply (share_close_of _ _ _ c); auto.
  Qed.
End P.
