(* C34 — property theorems: the fixed map (sorted array + count, modelled access by
   access with an explicit panic channel) refines an ordinary finite map (std++ gmap).
   [cap] is the macro's `$len`; the only hypothesis on it is that it fits the `u32` count.
   [wf] = the representation invariant (array length = cap, count <= cap, first [count]
   keys strictly increasing, remaining slots zeroed); it holds for the zeroed map and is
   preserved by every operation (part of the refinement theorem). *)
From stdpp Require Import gmap sorting.
From GV Require lib.Base C34.Model C34.Proofs C34.Refine.
Import GV.lib.Base(res, Ok, Err, rbind, of_opt).
Import GV.C34.Model GV.C34.Proofs GV.C34.Refine.
Open Scope Z_scope.

(* the zeroed map is well-formed and is the empty map *)
Theorem c34_empty : forall (V : Type) (dv : V) cap, 0 <= cap < 2 ^ 32 ->
  wf dv cap (empty dv cap) /\ abs (empty dv cap) = ∅.
Proof. intros V dv cap H. split; [by apply wf_empty | by apply abs_empty]. Qed.

(* REFINEMENT, arbitrary op sequences: either every operation returns exactly what the
   ordinary map returns ([aruns]: get/get_mut/insert/remove/len/is_empty/entries/index,
   capacity refusal included) and the representation stays well-formed, or the run stops
   with the `expect` panic of the plain `insert` — and that happens exactly when a NEW key
   is inserted by `insert` into a FULL map ([apanics]).  No other panic (out-of-bounds
   index, slice error, count overflow/underflow) is possible. *)
Theorem c34_refines_map : forall (V : Type) (dv : V) cap (ops : list (@op V)) m,
  0 <= cap < 2 ^ 32 -> wf dv cap m -> Forall op_ok ops ->
  (exists rs m', irun dv cap ops m = Ok (rs, m') /\ wf dv cap m' /\ aruns cap (abs m) ops rs (abs m')) \/
  (irun dv cap ops m = Err P_EXPECT /\ apanics cap (abs m) ops).
Proof. intros V dv cap ops m. exact (run_refines dv cap ops m). Qed.

(* the ordinary-map semantics is a function: results and next state are determined *)
Theorem c34_spec_deterministic : forall (V : Type) cap (a : gmap Z V) o r1 a1 r2 a2,
  astep cap a o r1 a1 -> astep cap a o r2 a2 -> r1 = r2 /\ a1 = a2.
Proof. intros V cap. exact (astep_det cap). Qed.

(* without the plain `insert`, no operation sequence panics *)
Theorem c34_no_panic : forall (V : Type) (dv : V) cap (ops : list (@op V)) m,
  0 <= cap < 2 ^ 32 -> wf dv cap m -> Forall op_ok ops -> (forall k v, OpInsP k v ∉ ops) ->
  exists rs m', irun dv cap ops m = Ok (rs, m') /\ wf dv cap m' /\ aruns cap (abs m) ops rs (abs m').
Proof. intros V dv cap ops m. exact (run_no_panic dv cap ops m). Qed.

(* every array access of every operation is in bounds: the only [Err] a step can return
   is the `expect` panic, never P_OOB / P_ARITH / P_FUEL *)
Theorem c34_indices_in_bounds : forall (V : Type) (dv : V) cap m (o : @op V) e,
  0 <= cap < 2 ^ 32 -> wf dv cap m -> op_ok o ->
  istep dv cap m o = Err e -> e = P_EXPECT /\ expect_panics cap (abs m) o.
Proof. intros V dv cap m o e. exact (step_in_bounds dv cap m o e). Qed.

(* inserting a new key into a full map fails with ExceedMaxLengthLimit, map unchanged *)
Theorem c34_full_insert_fails_unchanged : forall (V : Type) (dv : V) cap m k v new,
  wf dv cap m -> abs m !! k = None -> cap <= count m ->
  insert_with_options dv cap m k v new = Ok (m, Err E_FULL).
Proof. intros V dv cap m k v new. exact (full_insert_fails_unchanged dv cap m k v new). Qed.

Theorem c34_existing_insert_new_fails_unchanged : forall (V : Type) (dv : V) cap m k v old,
  wf dv cap m -> abs m !! k = Some old ->
  insert_with_options dv cap m k v true = Ok (m, Err E_EXIST).
Proof. intros V dv cap m k v old. exact (existing_insert_new_fails_unchanged dv cap m k v old). Qed.

(* lookups are map lookups; the count is the map's size *)
Theorem c34_get_is_lookup : forall (V : Type) (dv : V) cap m k,
  wf dv cap m -> get dv m k = Ok (abs m !! k).
Proof. intros V dv cap m k. exact (get_is_lookup dv cap m k). Qed.

Theorem c34_count_is_size : forall (V : Type) (dv : V) cap m,
  wf dv cap m -> Z.of_nat (size (abs m)) = count m.
Proof. intros V dv cap m. exact (abs_size dv cap m). Qed.

(* entries() is the listing of the map in strictly increasing key order (hence no
   duplicate keys), and that listing is unique *)
Theorem c34_sorted_nodup : forall (V : Type) (dv : V) cap m,
  wf dv cap m -> is_listing (abs m) (entries m) /\ NoDup (entries m).*1.
Proof. intros V dv cap m W. split; [by apply (entries_listing dv cap) | by apply (NoDup_keys dv cap)]. Qed.

Theorem c34_listing_unique : forall (V : Type) (a : gmap Z V) l1 l2,
  is_listing a l1 -> is_listing a l2 -> l1 = l2.
Proof. intros V. exact is_listing_unique. Qed.

(* the binary search of the Rust standard library, as modelled, is correct on strictly
   sorted slices: any implementation meeting this contract gives the same results *)
Theorem c34_binary_search_contract : forall (V : Type) (dv : V) (s : list (Z * V)) k,
  sorted_upto dv s (zlen s) ->
  (exists i, slice_search dv s k = Ok (Found i) /\ 0 <= i < zlen s /\ fst (znth dv s i) = k) \/
  (exists i, slice_search dv s k = Ok (Missing i) /\ 0 <= i <= zlen s /\
     (forall j, 0 <= j -> j < i -> fst (znth dv s j) < k) /\
     (forall j, i <= j -> j < zlen s -> k < fst (znth dv s j))).
Proof. intros V dv s k. exact (slice_search_spec dv s k). Qed.

(* non-vacuity: a capacity-2 map filled, refused, removed at full capacity, re-filled *)
Example c34_ex_history :
  irun 0 2 [OpIns 5 50 true; OpIns 3 30 true; OpIns 4 40 true; OpIns 5 51 true; OpGet 5;
            OpRem 3; OpIns 9 90 false; OpEntries; OpIdx 1; OpLen] (empty 0 2)
  = Ok ([RetRes (Ok None); RetRes (Ok None); RetRes (Err E_FULL); RetRes (Err E_EXIST); RetOpt (Some 50);
         RetOpt (Some 30); RetRes (Ok None); RetList [(5, 50); (9, 90)]; RetEnt (Some (9, 90)); RetLen 2 false],
        mk [(5, 50); (9, 90)] 2).
Proof. vm_compute. reflexivity. Qed.

Example c34_ex_expect_panic :
  irun 0 1 [OpInsP 7 1; OpInsP 7 2; OpInsP 8 3] (empty 0 1) = Err P_EXPECT.
Proof. vm_compute. reflexivity. Qed.
