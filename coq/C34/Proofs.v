(* C34 — array-level lemmas about the fixed-map model (stdlib only).
   Everything is stated with Z indices: [znth d i] for 0 <= i < zlen d. *)
From GV Require Import lib.Base C34.Model.
Open Scope Z_scope.

Section FM.
  Context {V : Type}.
  Variable dv : V.
  Variable cap : Z.
  Hypothesis Hcap : 0 <= cap < 2 ^ 32.

  Notation entry := (@entry V).
  Notation fmap := (@fmap V).
  Notation dflt := (dflt dv).
  Notation znth := (znth dv).
  Notation rd := (rd dv).
  Notation key_at d i := (fst (znth d i)).

  (* ------------------------------------------------------------ list basics *)
  Lemma zlen_nonneg (d : list entry) : 0 <= zlen d.
  Proof. unfold zlen. lia. Qed.

  Lemma upd_length (d : list entry) n e : length (upd d n e) = length d.
  Proof. revert n. induction d as [|x r IH]; intros [|n]; cbn; auto. Qed.

  Lemma zlen_upd (d : list entry) n e : zlen (upd d n e) = zlen d.
  Proof. unfold zlen. now rewrite upd_length. Qed.

  Lemma nth_upd (d : list entry) n e j :
    (n < length d)%nat -> nth j (upd d n e) dflt = if Nat.eqb j n then e else nth j d dflt.
  Proof.
    revert n j. induction d as [|x r IH]; intros n j Hn; cbn in Hn; [lia|].
    destruct n as [|n]; destruct j as [|j]; cbn; auto.
    apply IH. lia.
  Qed.

  Lemma znth_upd (d : list entry) i e j :
    0 <= i < zlen d -> 0 <= j ->
    znth (upd d (Z.to_nat i) e) j = if j =? i then e else znth d j.
  Proof.
    intros Hi Hj. unfold Model.znth, zlen in *. rewrite nth_upd by lia.
    destruct (Nat.eqb_spec (Z.to_nat j) (Z.to_nat i)) as [E|E];
      destruct (Z.eqb_spec j i) as [E'|E']; auto; lia.
  Qed.

  Lemma rd_ok (d : list entry) i : 0 <= i < zlen d -> rd d i = Ok (znth d i).
  Proof.
    intros H. unfold Model.rd.
    destruct (Z.leb_spec 0 i); destruct (Z.ltb_spec i (zlen d)); cbn; auto; lia.
  Qed.

  Lemma wr_ok (d : list entry) i e : 0 <= i < zlen d -> wr d i e = Ok (upd d (Z.to_nat i) e).
  Proof.
    intros H. unfold wr.
    destruct (Z.leb_spec 0 i); destruct (Z.ltb_spec i (zlen d)); cbn; auto; lia.
  Qed.

  Lemma list_ext_z (a b : list entry) :
    zlen a = zlen b -> (forall i, 0 <= i < zlen a -> znth a i = znth b i) -> a = b.
  Proof.
    unfold zlen, Model.znth. intros Hl H.
    apply nth_ext with (d := dflt) (d' := dflt); [lia|].
    intros n Hn. specialize (H (Z.of_nat n)). rewrite Nat2Z.id in H. apply H. lia.
  Qed.

  Lemma zlen_firstn (d : list entry) n : 0 <= n <= zlen d -> zlen (firstn (Z.to_nat n) d) = n.
  Proof. unfold zlen. intros H. rewrite firstn_length. lia. Qed.

  Lemma znth_firstn (d : list entry) n i : 0 <= i < n -> znth (firstn (Z.to_nat n) d) i = znth d i.
  Proof.
    intros H. unfold Model.znth.
    rewrite <- (firstn_skipn (Z.to_nat n) d) at 2.
    destruct (Z_lt_le_dec n (zlen d)) as [L|L].
    - rewrite app_nth1; auto. rewrite firstn_length. unfold zlen in L. lia.
    - rewrite firstn_all2 by (unfold zlen in L; lia).
      rewrite skipn_all2 by (unfold zlen in L; lia). now rewrite app_nil_r.
  Qed.

  Lemma zlen_skipn (d : list entry) n : 0 <= n <= zlen d -> zlen (skipn (Z.to_nat n) d) = zlen d - n.
  Proof. unfold zlen. intros H. rewrite skipn_length. lia. Qed.

  Lemma znth_skipn (d : list entry) n i : 0 <= n -> 0 <= i -> znth (skipn (Z.to_nat n) d) i = znth d (n + i).
  Proof.
    intros Hn Hi. unfold Model.znth.
    replace (Z.to_nat (n + i)) with (Z.to_nat n + Z.to_nat i)%nat by lia.
    generalize (Z.to_nat n) as a. generalize (Z.to_nat i) as b. clear.
    intros b a. revert d. induction a as [|a IH]; intros [|x r]; cbn; auto.
    destruct b; reflexivity.
  Qed.

  Lemma zlen_app (a b : list entry) : zlen (a ++ b) = zlen a + zlen b.
  Proof. unfold zlen. rewrite app_length. lia. Qed.

  Lemma znth_app (a b : list entry) i :
    0 <= i -> znth (a ++ b) i = if i <? zlen a then znth a i else znth b (i - zlen a).
  Proof.
    intros Hi. unfold Model.znth, zlen.
    destruct (Z.ltb_spec i (Z.of_nat (length a))) as [L|L].
    - apply app_nth1. lia.
    - rewrite app_nth2 by lia. f_equal. lia.
  Qed.

  Lemma zlen_repeat (e : entry) n : zlen (repeat e n) = Z.of_nat n.
  Proof. unfold zlen. now rewrite repeat_length. Qed.

  Lemma znth_repeat n i : znth (repeat dflt n) i = dflt.
  Proof.
    unfold Model.znth. generalize (Z.to_nat i) as k. induction n as [|n IH]; intros [|k]; cbn; auto.
  Qed.

  (* ------------------------------------------------------------ zseq *)
  Lemma zseq_snoc lo n : zseq lo (S n) = zseq lo n ++ [lo + Z.of_nat n].
  Proof.
    revert lo. induction n as [|n IH]; intros lo.
    - cbn. f_equal. lia.
    - change (zseq lo (S (S n))) with (lo :: zseq (lo + 1) (S n)). rewrite IH. cbn. do 3 f_equal. lia.
  Qed.

  Lemma rev_zseq_S lo n : rev (zseq lo (S n)) = (lo + Z.of_nat n) :: rev (zseq lo n).
  Proof. rewrite zseq_snoc, rev_app_distr. reflexivity. Qed.

  (* ------------------------------------------------------------ the loops *)
  (* for i in (lo..lo+n).rev() { d[i+1] = d[i] } *)
  Lemma shift_right_spec n : forall (d : list entry) lo,
    0 <= lo -> lo + Z.of_nat n < zlen d ->
    exists d', shift_right dv d (rev (zseq lo n)) = Ok d' /\ zlen d' = zlen d /\
      forall j, 0 <= j ->
        znth d' j = if (lo + 1 <=? j) && (j <=? lo + Z.of_nat n) then znth d (j - 1) else znth d j.
  Proof.
    induction n as [|n IH]; intros d lo Hlo Hhi.
    - exists d. cbn. repeat split; auto. intros j Hj.
      destruct (Z.leb_spec (lo + 1) j); destruct (Z.leb_spec j (lo + 0)); cbn; auto; lia.
    - rewrite rev_zseq_S. cbn [shift_right].
      rewrite rd_ok by lia. cbn [rbind].
      rewrite wr_ok by lia. cbn [rbind].
      set (d1 := upd d (Z.to_nat (lo + Z.of_nat n + 1)) (znth d (lo + Z.of_nat n))).
      assert (L1 : zlen d1 = zlen d) by apply zlen_upd.
      destruct (IH d1 lo Hlo) as (d' & E & L & H); [lia|].
      exists d'. split; [exact E|]. split; [lia|].
      intros j Hj. rewrite H by auto. subst d1.
      destruct (Z.leb_spec (lo + 1) j) as [A|A]; destruct (Z.leb_spec j (lo + Z.of_nat n)) as [B|B]; cbn [andb].
      + rewrite znth_upd by lia.
        destruct (Z.eqb_spec (j - 1) (lo + Z.of_nat n + 1)); [lia|].
        destruct (Z.leb_spec j (lo + Z.of_nat (S n))); [reflexivity|lia].
      + rewrite znth_upd by lia.
        destruct (Z.eqb_spec j (lo + Z.of_nat n + 1)) as [E1|E1].
        * destruct (Z.leb_spec j (lo + Z.of_nat (S n))); [|lia]. f_equal. lia.
        * destruct (Z.leb_spec j (lo + Z.of_nat (S n))); [lia|reflexivity].
      + rewrite znth_upd by lia.
        destruct (Z.eqb_spec j (lo + Z.of_nat n + 1)); [lia|reflexivity].
      + rewrite znth_upd by lia.
        destruct (Z.eqb_spec j (lo + Z.of_nat n + 1)); [lia|reflexivity].
  Qed.

  Lemma rev_range_shift (d : list entry) lo hi :
    0 <= lo <= hi -> hi < zlen d ->
    exists d', shift_right dv d (rev_range lo hi) = Ok d' /\ zlen d' = zlen d /\
      forall j, 0 <= j -> znth d' j = if (lo + 1 <=? j) && (j <=? hi) then znth d (j - 1) else znth d j.
  Proof.
    intros H1 H2. unfold rev_range.
    destruct (shift_right_spec (Z.to_nat (hi - lo)) d lo) as (d' & E & L & H); [lia|lia|].
    exists d'. repeat split; auto. intros j Hj. rewrite H by auto.
    replace (lo + Z.of_nat (Z.to_nat (hi - lo))) with hi by lia. reflexivity.
  Qed.

  (* for i in lo..lo+n { d[i] = default } *)
  Lemma clear_loop_spec n : forall (d : list entry) lo,
    0 <= lo -> lo + Z.of_nat n <= zlen d ->
    exists d', clear_loop dv d (zseq lo n) = Ok d' /\ zlen d' = zlen d /\
      forall j, 0 <= j -> znth d' j = if (lo <=? j) && (j <? lo + Z.of_nat n) then dflt else znth d j.
  Proof.
    induction n as [|n IH]; intros d lo Hlo Hhi.
    - exists d. cbn. repeat split; auto. intros j Hj.
      destruct (Z.leb_spec lo j); destruct (Z.ltb_spec j (lo + 0)); cbn; auto; lia.
    - cbn [zseq clear_loop]. rewrite wr_ok by lia. cbn [rbind].
      set (d1 := upd d (Z.to_nat lo) dflt).
      assert (L1 : zlen d1 = zlen d) by apply zlen_upd.
      destruct (IH d1 (lo + 1)) as (d' & E & L & H); [lia|lia|].
      exists d'. split; [exact E|]. split; [lia|].
      intros j Hj. rewrite H by auto. subst d1. rewrite znth_upd by lia.
      destruct (Z.leb_spec (lo + 1) j); destruct (Z.ltb_spec j (lo + 1 + Z.of_nat n));
        destruct (Z.leb_spec lo j); destruct (Z.ltb_spec j (lo + Z.of_nat (S n)));
        destruct (Z.eqb_spec j lo); cbn [andb]; auto; lia.
  Qed.

  (* copy_within(s..e, dest) as a memmove *)
  Lemma copy_within_spec (d : list entry) s e dest :
    0 <= s <= e -> e <= zlen d -> 0 <= dest -> dest + (e - s) <= zlen d ->
    exists d', copy_within d s e dest = Ok d' /\ zlen d' = zlen d /\
      forall j, 0 <= j < zlen d ->
        znth d' j = if (dest <=? j) && (j <? dest + (e - s)) then znth d (s + (j - dest)) else znth d j.
  Proof.
    intros Hs He Hd Hde. unfold copy_within.
    replace ((0 <=? s) && (s <=? e) && (e <=? zlen d) && (0 <=? dest) && (dest <=? zlen d - (e - s))) with true.
    2:{ symmetry. repeat (apply andb_true_intro; split); apply Z.leb_le; lia. }
    eexists. split; [reflexivity|].
    assert (La : zlen (firstn (Z.to_nat dest) d) = dest) by (apply zlen_firstn; lia).
    assert (Lb : zlen (firstn (Z.to_nat (e - s)) (skipn (Z.to_nat s) d)) = e - s).
    { apply zlen_firstn. rewrite zlen_skipn by lia. lia. }
    assert (Lc : zlen (skipn (Z.to_nat (dest + (e - s))) d) = zlen d - (dest + (e - s))) by (apply zlen_skipn; lia).
    split.
    - rewrite !zlen_app. lia.
    - intros j Hj. rewrite znth_app by lia. rewrite La.
      destruct (Z.ltb_spec j dest) as [A|A].
      + rewrite znth_firstn by lia.
        destruct (Z.leb_spec dest j); [lia|reflexivity].
      + rewrite znth_app by lia. rewrite Lb.
        destruct (Z.leb_spec dest j); [|lia].
        destruct (Z.ltb_spec (j - dest) (e - s)) as [B|B]; destruct (Z.ltb_spec j (dest + (e - s))); try lia; cbn [andb].
        * rewrite znth_firstn by lia. rewrite znth_skipn by lia. reflexivity.
        * rewrite znth_skipn by lia. f_equal. lia.
  Qed.

  (* ------------------------------------------------------------ binary search *)
  Definition sorted_upto (d : list entry) (n : Z) : Prop :=
    forall i j, 0 <= i -> i < j -> j < n -> key_at d i < key_at d j.

  Lemma sorted_le (d : list entry) n i j :
    sorted_upto d n -> 0 <= i -> i <= j -> j < n -> key_at d i <= key_at d j.
  Proof.
    intros S Hi Hij Hj. destruct (Z.eq_dec i j) as [->|N]; [lia|].
    specialize (S i j Hi). lia.
  Qed.

  Lemma bs_loop_spec fuel : forall (s : list entry) k base size,
    sorted_upto s (zlen s) ->
    0 <= base -> 1 <= size -> base + size <= zlen s -> (Z.to_nat size <= fuel)%nat ->
    (base = 0 \/ key_at s base <= k) ->
    (forall j, base + size <= j -> j < zlen s -> k < key_at s j) ->
    exists b, bs_loop dv fuel s k base size = Ok b /\ 0 <= b < zlen s /\
      (b = 0 \/ key_at s b <= k) /\ (forall j, b + 1 <= j -> j < zlen s -> k < key_at s j).
  Proof.
    induction fuel as [|f IH]; intros s k base size S Hb Hs Hbs Hf Hlo Hhi.
    - exfalso. lia.
    - cbn [bs_loop]. destruct (Z.leb_spec size 1) as [L|L].
      + exists base. split; [reflexivity|]. split; [lia|]. split; [exact Hlo|].
        intros j A B. apply Hhi; lia.
      + assert (Hh : 1 <= size / 2 /\ 2 * (size / 2) <= size).
        { split; [apply Z.div_le_lower_bound; lia | apply Z.mul_div_le; lia]. }
        rewrite rd_ok by lia. cbn [rbind].
        destruct (Z.ltb_spec k (key_at s (base + size / 2))) as [G|G].
        * apply IH; auto; try lia.
          intros j A B.
          assert (key_at s (base + size / 2) <= key_at s j) by (apply (sorted_le s (zlen s)); auto; lia).
          lia.
        * apply IH; auto; try lia.
          intros j A B. apply Hhi; lia.
  Qed.

  Lemma slice_search_spec (s : list entry) k :
    sorted_upto s (zlen s) ->
    (exists i, slice_search dv s k = Ok (Found i) /\ 0 <= i < zlen s /\ key_at s i = k) \/
    (exists i, slice_search dv s k = Ok (Missing i) /\ 0 <= i <= zlen s /\
       (forall j, 0 <= j -> j < i -> key_at s j < k) /\ (forall j, i <= j -> j < zlen s -> k < key_at s j)).
  Proof.
    intros S. unfold slice_search.
    destruct (Z.eqb_spec (zlen s) 0) as [E|E].
    - right. exists 0. split; [reflexivity|]. split; [lia|]. split; intros; lia.
    - pose proof (zlen_nonneg s).
      destruct (bs_loop_spec (length s) s k 0 (zlen s)) as (b & Eb & Hb & Hlo & Hhi);
        auto; try lia; try (unfold zlen; lia); try (intros; lia).
      rewrite Eb. cbn [rbind]. rewrite rd_ok by lia. cbn [rbind].
      destruct (Z.eqb_spec (key_at s b) k) as [Ek|Ek].
      + left. exists b. auto.
      + right. destruct (Z.ltb_spec (key_at s b) k) as [Lt|Ge].
        * exists (b + 1). split; [reflexivity|]. split; [lia|]. split.
          -- intros j A B. assert (key_at s j <= key_at s b) by (apply (sorted_le s (zlen s)); auto; lia). lia.
          -- intros j A B. apply Hhi; lia.
        * assert (b = 0) by (destruct Hlo; [auto|lia]). subst b.
          exists 0. split; [f_equal; f_equal; lia|]. split; [lia|]. split; [intros; lia|].
          intros j A B. assert (key_at s 0 <= key_at s j) by (apply (sorted_le s (zlen s)); auto; lia). lia.
  Qed.

  (* ------------------------------------------------------------ well-formed maps *)
  Record wf (m : fmap) : Prop := {
    wf_len : zlen (data m) = cap;
    wf_cnt : 0 <= count m <= cap;
    wf_sorted : sorted_upto (data m) (count m);
    wf_tail : forall i, count m <= i -> i < cap -> znth (data m) i = dflt }.

  Lemma wf_empty : wf (empty dv cap).
  Proof.
    split; cbn.
    - rewrite zlen_repeat. lia.
    - lia.
    - intros i j; lia.
    - intros. apply znth_repeat.
  Qed.

  Lemma search_spec (m : fmap) k : wf m ->
    (exists i, binary_search dv m k = Ok (Found i) /\ 0 <= i < count m /\ key_at (data m) i = k) \/
    (exists i, binary_search dv m k = Ok (Missing i) /\ 0 <= i <= count m /\
       (forall j, 0 <= j -> j < i -> key_at (data m) j < k) /\
       (forall j, i <= j -> j < count m -> k < key_at (data m) j)).
  Proof.
    intros [Hl Hc Hs Ht]. unfold binary_search, slice_to, len.
    replace ((0 <=? count m) && (count m <=? zlen (data m))) with true
      by (symmetry; apply andb_true_intro; split; apply Z.leb_le; lia).
    cbn [rbind].
    set (s := firstn (Z.to_nat (count m)) (data m)).
    assert (Ls : zlen s = count m) by (apply zlen_firstn; lia).
    assert (Ns : forall i, 0 <= i < count m -> znth s i = znth (data m) i) by (intros; apply znth_firstn; lia).
    assert (Ss : sorted_upto s (zlen s)).
    { intros i j A B C. rewrite !Ns by lia. apply Hs; lia. }
    destruct (slice_search_spec s k Ss) as [(i & E & B & K)|(i & E & B & Lo & Hi)].
    - left. exists i. rewrite <- Ns by lia. split; [exact E|]. split; [lia|exact K].
    - right. exists i. split; [exact E|]. split; [lia|]. split.
      + intros j A C. rewrite <- Ns by lia. apply Lo; lia.
      + intros j A C. rewrite <- Ns by lia. apply Hi; lia.
  Qed.

  (* ------------------------------------------------------------ operations *)
  Lemma get_found (m : fmap) k i : wf m ->
    binary_search dv m k = Ok (Found i) -> 0 <= i < count m ->
    get dv m k = Ok (Some (snd (znth (data m) i))).
  Proof.
    intros W E B. unfold get. rewrite E. cbn [rbind].
    rewrite rd_ok by (destruct W; lia). reflexivity.
  Qed.

  Lemma get_missing (m : fmap) k i : binary_search dv m k = Ok (Missing i) -> get dv m k = Ok None.
  Proof. intros E. unfold get. now rewrite E. Qed.

  (* value replacement at a found index (get_mut write, or insert over an existing key) *)
  Definition replaced (m : fmap) i v : fmap :=
    mk (upd (data m) (Z.to_nat i) (key_at (data m) i, v)) (count m).

  Lemma wf_replaced (m : fmap) i v : wf m -> 0 <= i < count m -> wf (replaced m i v).
  Proof.
    intros [Hl Hc Hs Ht] B. split; unfold replaced; cbn [data count].
    - rewrite zlen_upd. exact Hl.
    - exact Hc.
    - intros a b A1 A2 A3. rewrite !znth_upd by lia.
      destruct (Z.eqb_spec a i) as [->|]; destruct (Z.eqb_spec b i) as [->|]; cbn [fst]; apply Hs; lia.
    - intros j A1 A2. rewrite znth_upd by lia. destruct (Z.eqb_spec j i); [lia|]. apply Ht; lia.
  Qed.

  Lemma set_value_found (m : fmap) k v i : wf m ->
    binary_search dv m k = Ok (Found i) -> 0 <= i < count m ->
    set_value dv m k v = Ok (replaced m i v, Some (snd (znth (data m) i))).
  Proof.
    intros W E B. unfold set_value. rewrite E. cbn [rbind].
    rewrite rd_ok by (destruct W; lia). cbn [rbind].
    rewrite wr_ok by (destruct W; lia). reflexivity.
  Qed.

  Lemma set_value_missing (m : fmap) k v i :
    binary_search dv m k = Ok (Missing i) -> set_value dv m k v = Ok (m, None).
  Proof. intros E. unfold set_value. now rewrite E. Qed.

  Lemma insert_found (m : fmap) k v new i : wf m ->
    binary_search dv m k = Ok (Found i) -> 0 <= i < count m ->
    insert_with_options dv cap m k v new =
      if new then Ok (m, Err E_EXIST) else Ok (replaced m i v, Ok (Some (snd (znth (data m) i)))).
  Proof.
    intros W E B. unfold insert_with_options. rewrite E. cbn [rbind].
    destruct new; [reflexivity|].
    rewrite rd_ok by (destruct W; lia). cbn [rbind].
    rewrite wr_ok by (destruct W; lia). reflexivity.
  Qed.

  Lemma insert_full (m : fmap) k v new i :
    binary_search dv m k = Ok (Missing i) -> cap <= count m ->
    insert_with_options dv cap m k v new = Ok (m, Err E_FULL).
  Proof.
    intros E F. unfold insert_with_options, len. rewrite E. cbn [rbind].
    destruct (Z.leb_spec cap (count m)); [reflexivity|lia].
  Qed.

  (* a new key at insertion point i *)
  Definition inserted_at (d d' : list entry) (n i k : Z) (v : V) : Prop :=
    zlen d' = zlen d /\
    forall j, 0 <= j ->
      znth d' j = if j <? i then znth d j else if j =? i then (k, v)
                  else if j <=? n then znth d (j - 1) else znth d j.

  Lemma insert_new (m : fmap) k v new i : wf m ->
    binary_search dv m k = Ok (Missing i) -> 0 <= i <= count m -> count m < cap ->
    exists d', insert_with_options dv cap m k v new = Ok (mk d' (count m + 1), Ok None) /\
               inserted_at (data m) d' (count m) i k v.
  Proof.
    intros [Hl Hc Hs Ht] E B F. unfold insert_with_options, len. rewrite E. cbn [rbind].
    destruct (Z.leb_spec cap (count m)); [lia|].
    destruct (rev_range_shift (data m) i (count m)) as (d1 & E1 & L1 & H1); [lia|lia|].
    rewrite E1. cbn [rbind]. rewrite wr_ok by lia. cbn [rbind].
    unfold uadd, chk_u, in_u.
    replace ((0 <=? count m + 1) && (count m + 1 <? 2 ^ 32)) with true.
    2:{ symmetry. apply andb_true_intro; split; [apply Z.leb_le|apply Z.ltb_lt]; lia. }
    cbn [of_opt rbind]. eexists. split; [reflexivity|].
    split; [rewrite zlen_upd; exact L1|].
    intros j Hj. rewrite znth_upd by lia. rewrite H1 by auto.
    destruct (Z.ltb_spec j i); destruct (Z.eqb_spec j i); destruct (Z.leb_spec (i + 1) j);
      destruct (Z.leb_spec j (count m)); cbn [andb]; auto; lia.
  Qed.

  Lemma wf_inserted (m : fmap) d' i k v : wf m ->
    0 <= i <= count m -> count m < cap ->
    (forall j, 0 <= j -> j < i -> key_at (data m) j < k) ->
    (forall j, i <= j -> j < count m -> k < key_at (data m) j) ->
    inserted_at (data m) d' (count m) i k v ->
    wf (mk d' (count m + 1)).
  Proof.
    intros [Hl Hc Hs Ht] B F Lo Hi [L H]. split; cbn [data count].
    - lia.
    - lia.
    - intros a b A1 A2 A3. rewrite !H by lia.
      destruct (Z.ltb_spec a i); destruct (Z.eqb_spec a i); destruct (Z.leb_spec a (count m));
        destruct (Z.ltb_spec b i); destruct (Z.eqb_spec b i); destruct (Z.leb_spec b (count m));
        cbn [fst]; try lia.
      + apply Hs; lia.
      + apply Lo; lia.
      + apply Hs; lia.
      + apply Hi; lia.
      + apply Hs; lia.
    - intros j A1 A2. rewrite H by lia.
      destruct (Z.ltb_spec j i); destruct (Z.eqb_spec j i); destruct (Z.leb_spec j (count m)); try lia.
      apply Ht; lia.
  Qed.

  (* removal of the entry at index i *)
  Definition removed_at (d d' : list entry) (n i : Z) : Prop :=
    zlen d' = zlen d /\
    forall j, 0 <= j < zlen d ->
      znth d' j = if j <? i then znth d j else if j <? n - 1 then znth d (j + 1)
                  else if j =? n - 1 then dflt else znth d j.

  Lemma remove_found (m : fmap) k i : wf m ->
    binary_search dv m k = Ok (Found i) -> 0 <= i < count m ->
    exists d', remove dv m k = Ok (mk d' (count m - 1), Some (snd (znth (data m) i))) /\
               removed_at (data m) d' (count m) i.
  Proof.
    intros [Hl Hc Hs Ht] E B. unfold remove, len. rewrite E. cbn [rbind].
    rewrite rd_ok by lia. cbn [rbind]. rewrite wr_ok by lia. cbn [rbind].
    set (d0 := upd (data m) (Z.to_nat i) (key_at (data m) i, dv)).
    assert (L0 : zlen d0 = zlen (data m)) by apply zlen_upd.
    destruct (copy_within_spec d0 (i + 1) (count m) i) as (d1 & E1 & L1 & H1); try lia.
    rewrite E1. cbn [rbind]. rewrite wr_ok by lia. cbn [rbind].
    unfold usub, chk_u, in_u.
    replace ((0 <=? count m - 1) && (count m - 1 <? 2 ^ 32)) with true.
    2:{ symmetry. apply andb_true_intro; split; [apply Z.leb_le|apply Z.ltb_lt]; lia. }
    cbn [of_opt rbind]. eexists. split; [reflexivity|].
    split; [rewrite zlen_upd; lia|].
    intros j Hj. rewrite znth_upd by lia.
    destruct (Z.eqb_spec j (count m - 1)) as [Ej|Ej].
    - destruct (Z.ltb_spec j i); [lia|]. destruct (Z.ltb_spec j (count m - 1)); [lia|reflexivity].
    - rewrite H1 by lia. subst d0.
      destruct (Z.leb_spec i j); destruct (Z.ltb_spec j (i + (count m - (i + 1))));
        destruct (Z.ltb_spec j i); destruct (Z.ltb_spec j (count m - 1)); cbn [andb]; try lia.
      + rewrite znth_upd by lia. destruct (Z.eqb_spec (i + 1 + (j - i)) i); [lia|]. f_equal. lia.
      + rewrite znth_upd by lia. destruct (Z.eqb_spec j i); [lia|reflexivity].
      + rewrite znth_upd by lia. destruct (Z.eqb_spec j i); [lia|reflexivity].
  Qed.

  Lemma wf_removed (m : fmap) d' i : wf m -> 0 <= i < count m ->
    removed_at (data m) d' (count m) i -> wf (mk d' (count m - 1)).
  Proof.
    intros [Hl Hc Hs Ht] B [L H]. split; cbn [data count].
    - lia.
    - lia.
    - intros a b A1 A2 A3. rewrite !H by lia.
      destruct (Z.ltb_spec a i); destruct (Z.ltb_spec a (count m - 1));
        destruct (Z.ltb_spec b i); destruct (Z.ltb_spec b (count m - 1)); try lia; apply Hs; lia.
    - intros j A1 A2. rewrite H by lia.
      destruct (Z.ltb_spec j i); [lia|]. destruct (Z.ltb_spec j (count m - 1)); [lia|].
      destruct (Z.eqb_spec j (count m - 1)); [reflexivity|]. apply Ht; lia.
  Qed.

  Lemma remove_missing (m : fmap) k i :
    binary_search dv m k = Ok (Missing i) -> remove dv m k = Ok (m, None).
  Proof. intros E. unfold remove. now rewrite E. Qed.

  Lemma clear_spec (m : fmap) : wf m -> clear dv m = Ok (empty dv cap).
  Proof.
    intros [Hl Hc Hs Ht]. unfold clear, len.
    destruct (clear_loop_spec (Z.to_nat (count m)) (data m) 0) as (d' & E & L & H); [lia|lia|].
    rewrite E. cbn [rbind]. unfold empty. do 2 f_equal.
    apply list_ext_z.
    - rewrite zlen_repeat. lia.
    - intros j Hj. rewrite H by lia. rewrite znth_repeat.
      destruct (Z.leb_spec 0 j); destruct (Z.ltb_spec j (0 + Z.of_nat (Z.to_nat (count m)))); cbn [andb]; auto; try lia.
      apply Ht; lia.
  Qed.

  Lemma get_entry_by_index_spec (m : fmap) idx : wf m -> 0 <= idx ->
    get_entry_by_index dv m idx = Ok (if idx <? count m then Some (znth (data m) idx) else None).
  Proof.
    intros [Hl Hc Hs Ht] Hi. unfold get_entry_by_index, len.
    destruct (Z.ltb_spec idx (count m)); [|reflexivity].
    rewrite rd_ok by lia. reflexivity.
  Qed.
End FM.
