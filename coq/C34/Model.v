(* C34 — executable model of crates/utils/src/fixed_map.rs (fixed_map! / impl_fixed_map!).
   Definitions only.

   A map is a fixed array [data] of [cap] entries plus a [count : u32].  Keys are
   fixed-size byte arrays compared lexicographically ([u8; N]::cmp); they are modelled
   by their big-endian integer value (same order for equal lengths).  Values are
   generic ([V], default [dv] = `Default::default()`).

   Every array access of the Rust code goes through [rd]/[wr]/[slice_to], which return
   [Err P_OOB] when Rust would panic with an index-out-of-bounds / slice error;
   `count += 1` / `count -= 1` are checked (debug build: overflow panics) -> [Err P_ARITH].
   So "no operation panics or reads outside its storage" is the statement that none of
   the operations returns [Err] from a well-formed map (Proofs.v).

   Outer [res] = panic channel; the inner [res] of [insert_with_options] is the Rust
   `Result` (Err E_EXIST = GeneralError::AlreadyExist, Err E_FULL = ExceedMaxLengthLimit). *)
From GV Require Import lib.Base.
Open Scope Z_scope.

Definition E_EXIST : Z := 1.
Definition E_FULL : Z := 2.
Definition P_OOB : Z := 100.     (* index / slice out of bounds *)
Definition P_ARITH : Z := 101.   (* arithmetic overflow on count *)
Definition P_FUEL : Z := 102.    (* model artefact: loop fuel exhausted (proved unreachable) *)
Definition P_EXPECT : Z := 103.  (* `insert` = insert_with_options(..).expect("must be success") *)

Inductive sres := Found (i : Z) | Missing (i : Z).

Section FixedMap.
  Context {V : Type}.
  Variable dv : V.
  Variable cap : Z.               (* $len *)

  Definition entry : Type := (Z * V)%type.
  Definition dflt : entry := (0, dv).            (* Entry::default(): zero key, default value *)

  Record fmap := mk { data : list entry; count : Z }.

  Definition zlen (d : list entry) : Z := Z.of_nat (length d).
  Definition znth (d : list entry) (i : Z) : entry := nth (Z.to_nat i) d dflt.

  Fixpoint upd (d : list entry) (n : nat) (e : entry) : list entry :=
    match d, n with
    | [], _ => []
    | _ :: r, O => e :: r
    | x :: r, S n' => x :: upd r n' e
    end.

  (* data[i] (read) *)
  Definition rd (d : list entry) (i : Z) : res entry :=
    if (0 <=? i) && (i <? zlen d) then Ok (znth d i) else Err P_OOB.
  (* data[i] = e *)
  Definition wr (d : list entry) (i : Z) (e : entry) : res (list entry) :=
    if (0 <=? i) && (i <? zlen d) then Ok (upd d (Z.to_nat i) e) else Err P_OOB.
  (* &data[..n] *)
  Definition slice_to (d : list entry) (n : Z) : res (list entry) :=
    if (0 <=? n) && (n <=? zlen d) then Ok (firstn (Z.to_nat n) d) else Err P_OOB.

  Definition empty : fmap := mk (repeat dflt (Z.to_nat cap)) 0.

  (* len(): count as usize *)
  Definition len (m : fmap) : Z := count m.
  Definition is_empty (m : fmap) : bool := count m =? 0.

  (* ---- core::slice::binary_search_by (Rust >= 1.82: branch-free loop, one final compare).
     f = |entry| entry.key.cmp(key);  cmp == Greater  <->  key < entry.key. *)
  Fixpoint bs_loop (fuel : nat) (s : list entry) (key base size : Z) : res Z :=
    if size <=? 1 then Ok base else
    match fuel with
    | O => Err P_FUEL
    | S f =>
        let half := size / 2 in
        let mid := base + half in
        e <-- rd s mid ;;
        let base' := if key <? fst e then base else mid in
        bs_loop f s key base' (size - half)
    end.

  Definition slice_search (s : list entry) (key : Z) : res sres :=
    let size := zlen s in
    if size =? 0 then Ok (Missing 0) else
    base <-- bs_loop (length s) s key 0 size ;;
    e <-- rd s base ;;
    if fst e =? key then Ok (Found base)
    else Ok (Missing (base + (if fst e <? key then 1 else 0))).

  (* self.data[..self.len()].binary_search_by(..) *)
  Definition binary_search (m : fmap) (key : Z) : res sres :=
    s <-- slice_to (data m) (len m) ;;
    slice_search s key.

  (* get *)
  Definition get (m : fmap) (key : Z) : res (option V) :=
    r <-- binary_search m key ;;
    match r with
    | Found i => e <-- rd (data m) i ;; Ok (Some (snd e))
    | Missing _ => Ok None
    end.

  (* get_mut(key).map(|p| mem::replace(p, v)) : how callers write through get_mut *)
  Definition set_value (m : fmap) (key : Z) (v : V) : res (fmap * option V) :=
    r <-- binary_search m key ;;
    match r with
    | Found i =>
        e <-- rd (data m) i ;;
        d <-- wr (data m) i (fst e, v) ;;
        Ok (mk d (count m), Some (snd e))
    | Missing _ => Ok (m, None)
    end.

  (* get_entry_by_index *)
  Definition get_entry_by_index (m : fmap) (idx : Z) : res (option entry) :=
    if idx <? len m then e <-- rd (data m) idx ;; Ok (Some e) else Ok None.

  (* for i in (index..len).rev() { data[i + 1] = data[i] } ; [idxs] is the list of i *)
  Fixpoint shift_right (d : list entry) (idxs : list Z) : res (list entry) :=
    match idxs with
    | [] => Ok d
    | i :: r =>
        e <-- rd d i ;;
        d' <-- wr d (i + 1) e ;;
        shift_right d' r
    end.

  (* [lo, lo+1, ..., lo+n-1] *)
  Fixpoint zseq (lo : Z) (n : nat) : list Z :=
    match n with O => [] | S n' => lo :: zseq (lo + 1) n' end.
  (* (lo..hi).rev() — empty when hi <= lo *)
  Definition rev_range (lo hi : Z) : list Z := rev (zseq lo (Z.to_nat (hi - lo))).

  Definition insert_with_options (m : fmap) (key : Z) (v : V) (new : bool)
    : res (fmap * res (option V)) :=
    r <-- binary_search m key ;;
    match r with
    | Found index =>
        if new then Ok (m, Err E_EXIST)
        else
          e <-- rd (data m) index ;;
          d <-- wr (data m) index (fst e, v) ;;
          Ok (mk d (count m), Ok (Some (snd e)))
    | Missing index =>
        if cap <=? len m then Ok (m, Err E_FULL)
        else
          d1 <-- shift_right (data m) (rev_range index (len m)) ;;
          d2 <-- wr d1 index (key, v) ;;
          c <-- of_opt P_ARITH (uadd 32 (count m) 1) ;;
          Ok (mk d2 c, Ok None)
    end.

  (* insert = insert_with_options(key, value, false).expect("must be success") *)
  Definition insert (m : fmap) (key : Z) (v : V) : res (fmap * option V) :=
    r <-- insert_with_options m key v false ;;
    match r with
    | (m', Ok o) => Ok (m', o)
    | (_, Err _) => Err P_EXPECT
    end.

  (* <[T]>::copy_within(src_start..src_end, dest): panics if src_start > src_end,
     src_end > len, or dest > len - (src_end - src_start); then memmove *)
  Definition copy_within (d : list entry) (s e dest : Z) : res (list entry) :=
    if (0 <=? s) && (s <=? e) && (e <=? zlen d) && (0 <=? dest) && (dest <=? zlen d - (e - s)) then
      let chunk := firstn (Z.to_nat (e - s)) (skipn (Z.to_nat s) d) in
      Ok (firstn (Z.to_nat dest) d ++ chunk ++ skipn (Z.to_nat (dest + (e - s))) d)
    else Err P_OOB.

  Definition remove (m : fmap) (key : Z) : res (fmap * option V) :=
    r <-- binary_search m key ;;
    match r with
    | Missing _ => Ok (m, None)
    | Found index =>
        e <-- rd (data m) index ;;
        d0 <-- wr (data m) index (fst e, dv) ;;          (* mem::take(&mut data[index].value) *)
        let n := len m in
        d1 <-- copy_within d0 (index + 1) n index ;;
        d2 <-- wr d1 (n - 1) dflt ;;
        c <-- of_opt P_ARITH (usub 32 (count m) 1) ;;
        Ok (mk d2 c, Some (snd e))
    end.

  (* for i in 0..len { data[i] = default } ; count = 0 *)
  Fixpoint clear_loop (d : list entry) (idxs : list Z) : res (list entry) :=
    match idxs with
    | [] => Ok d
    | i :: r => d' <-- wr d i dflt ;; clear_loop d' r
    end.
  Definition clear (m : fmap) : res fmap :=
    d <-- clear_loop (data m) (zseq 0 (Z.to_nat (len m))) ;;
    Ok (mk d 0).

  (* entries(): data.iter().take(len) *)
  Definition entries (m : fmap) : list entry := firstn (Z.to_nat (len m)) (data m).
End FixedMap.

Arguments mk {V} data count.
Arguments data {V} f.
Arguments count {V} f.

(* ---------- whole histories over a generic value type (used by the refinement theorem;
   Corr.v has its own Z-valued runner that also records implementation panics) ---------- *)
Section Hist.
  Context {V : Type}.
  Variable dv : V.
  Variable cap : Z.

  Inductive op :=
  | OpGet (k : Z)
  | OpSet (k : Z) (v : V)
  | OpIns (k : Z) (v : V) (new : bool)
  | OpInsP (k : Z) (v : V)
  | OpRem (k : Z)
  | OpIdx (i : Z)
  | OpClear
  | OpLen
  | OpEntries.

  Inductive ret :=
  | RetOpt (o : option V)
  | RetRes (r : res (option V))
  | RetEnt (e : option (Z * V))
  | RetUnit
  | RetLen (n : Z) (e : bool)
  | RetList (l : list (Z * V)).

  Definition istep (m : @fmap V) (o : op) : res (@fmap V * ret) :=
    match o with
    | OpGet k => r <-- get dv m k ;; Ok (m, RetOpt r)
    | OpSet k v => r <-- set_value dv m k v ;; Ok (fst r, RetOpt (snd r))
    | OpIns k v new => r <-- insert_with_options dv cap m k v new ;; Ok (fst r, RetRes (snd r))
    | OpInsP k v => r <-- insert dv cap m k v ;; Ok (fst r, RetOpt (snd r))
    | OpRem k => r <-- remove dv m k ;; Ok (fst r, RetOpt (snd r))
    | OpIdx i => r <-- get_entry_by_index dv m i ;; Ok (m, RetEnt r)
    | OpClear => m' <-- clear dv m ;; Ok (m', RetUnit)
    | OpLen => Ok (m, RetLen (len m) (is_empty m))
    | OpEntries => Ok (m, RetList (entries m))
    end.

  Fixpoint irun (ops : list op) (m : @fmap V) : res (list ret * @fmap V) :=
    match ops with
    | [] => Ok ([], m)
    | o :: r =>
        s <-- istep m o ;;
        t <-- irun r (fst s) ;;
        Ok (snd s :: fst t, snd t)
    end.
End Hist.
