(* C34 — correspondence + oracle for fixed maps.  One case = one whole op history on one
   map instance (capacity [cap]); values are printed as integers (little-endian value
   bytes), keys as the big-endian integer of the key bytes; [Default] = 0.

   Error numbering of RRes: Err 1 = GeneralError::AlreadyExist, Err 2 = ExceedMaxLengthLimit,
   Err 99 = any other error.  RPanic = the operation panicked (caught by the driver). *)
From GV Require Import lib.Base C34.Model.
Open Scope Z_scope.

Inductive inp :=
| IGet (k : Z)
| ISet (k v : Z)                 (* get_mut(k).map(|p| mem::replace(p, v)) *)
| IIns (k v : Z) (new : bool)    (* insert_with_options *)
| IInsP (k v : Z)                (* insert (expect) *)
| IRem (k : Z)
| IIdx (i : Z)                   (* get_entry_by_index *)
| IClear
| ILen                           (* len, is_empty *)
| IEntries                       (* entries() collected *)
| IDump.                         (* raw bytes of the whole struct: every slot + count *)

Inductive out :=
| RPanic
| ROpt (o : option Z)
| RRes (r : res (option Z))
| REnt (e : option (Z * Z))
| RUnit
| RLen (n : Z) (e : bool)
| RList (l : list (Z * Z))
| RDump (raw : list (Z * Z)) (cnt : Z).

Inductive case := Hist (cap : Z) (h : list (inp * out)).

(* ---------- equality on outputs ---------- *)
Definition pair_eqb (a b : Z * Z) : bool := (fst a =? fst b) && (snd a =? snd b).
Fixpoint plist_eqb (a b : list (Z * Z)) : bool :=
  match a, b with
  | [], [] => true
  | x :: r, y :: s => pair_eqb x y && plist_eqb r s
  | _, _ => false
  end.
Definition ores_eqb (a b : res (option Z)) : bool :=
  match a, b with
  | Ok x, Ok y => oeqb x y
  | Err x, Err y => x =? y
  | _, _ => false
  end.
Definition out_eqb (a b : out) : bool :=
  match a, b with
  | RPanic, RPanic => true
  | ROpt x, ROpt y => oeqb x y
  | RRes x, RRes y => ores_eqb x y
  | REnt None, REnt None => true
  | REnt (Some x), REnt (Some y) => pair_eqb x y
  | RUnit, RUnit => true
  | RLen n e, RLen n' e' => (n =? n') && Bool.eqb e e'
  | RList l, RList l' => plist_eqb l l'
  | RDump l c, RDump l' c' => plist_eqb l l' && (c =? c')
  | _, _ => false
  end.

(* ---------- model step (a model panic leaves the state as it was) ---------- *)
Definition fm := @fmap Z.

Definition mstep (cap : Z) (m : fm) (i : inp) : fm * out :=
  match i with
  | IGet k => match get 0 m k with Ok o => (m, ROpt o) | Err _ => (m, RPanic) end
  | ISet k v => match set_value 0 m k v with Ok (m', o) => (m', ROpt o) | Err _ => (m, RPanic) end
  | IIns k v new =>
      match insert_with_options 0 cap m k v new with Ok (m', r) => (m', RRes r) | Err _ => (m, RPanic) end
  | IInsP k v => match insert 0 cap m k v with Ok (m', o) => (m', ROpt o) | Err _ => (m, RPanic) end
  | IRem k => match remove 0 m k with Ok (m', o) => (m', ROpt o) | Err _ => (m, RPanic) end
  | IIdx i => match get_entry_by_index 0 m i with Ok e => (m, REnt e) | Err _ => (m, RPanic) end
  | IClear => match clear 0 m with Ok m' => (m', RUnit) | Err _ => (m, RPanic) end
  | ILen => (m, RLen (len m) (is_empty m))
  | IEntries => (m, RList (entries m))
  | IDump => (m, RDump (data m) (count m))
  end.

Fixpoint mrun (cap : Z) (m : fm) (h : list (inp * out)) : bool :=
  match h with
  | [] => true
  | (i, o) :: r => let '(m', o') := mstep cap m i in out_eqb o' o && mrun cap m' r
  end.

Definition corr_b (c : case) : bool :=
  match c with Hist cap h => mrun cap (empty 0 cap) h end.

(* ---------- oracle: an ordinary (unsorted association list) map, written without any
   reference to the model; capacity only enters as "a new key is refused when size = cap" ---------- *)
Definition amap := list (Z * Z).
Fixpoint afind (a : amap) (k : Z) : option Z :=
  match a with [] => None | (k', v) :: r => if k' =? k then Some v else afind r k end.
Fixpoint aset (a : amap) (k v : Z) : amap :=
  match a with [] => [] | (k', v') :: r => if k' =? k then (k', v) :: r else (k', v') :: aset r k v end.
Fixpoint adel (a : amap) (k : Z) : amap :=
  match a with [] => [] | (k', v') :: r => if k' =? k then r else (k', v') :: adel r k end.
Definition asize (a : amap) : Z := Z.of_nat (length a).
Fixpoint ains_sorted (e : Z * Z) (l : list (Z * Z)) : list (Z * Z) :=
  match l with [] => [e] | x :: r => if fst e <? fst x then e :: x :: r else x :: ains_sorted e r end.
Definition asorted (a : amap) : list (Z * Z) := fold_right ains_sorted [] a.
Definition all_zero (l : list (Z * Z)) : bool := forallb (fun e => (fst e =? 0) && (snd e =? 0)) l.

(* [tol]: tolerate the documented `expect` panic of `insert` on a full map (known class 1) *)
Definition ostep (tol : bool) (cap : Z) (a : amap) (i : inp) (o : out) : option amap :=
  match i, o with
  | IGet k, ROpt r => if oeqb r (afind a k) then Some a else None
  | ISet k v, ROpt r => if oeqb r (afind a k) then Some (aset a k v) else None
  | IIns k v new, RRes r =>
      match afind a k with
      | Some old => if new then (if ores_eqb r (Err 1) then Some a else None)
                    else (if ores_eqb r (Ok (Some old)) then Some (aset a k v) else None)
      | None => if cap <=? asize a then (if ores_eqb r (Err 2) then Some a else None)
                else (if ores_eqb r (Ok None) then Some ((k, v) :: a) else None)
      end
  | IInsP k v, ROpt r =>
      match afind a k with
      | Some old => if oeqb r (Some old) then Some (aset a k v) else None
      | None => if cap <=? asize a then None
                else (match r with None => Some ((k, v) :: a) | Some _ => None end)
      end
  | IInsP k v, RPanic =>
      match afind a k with
      | None => if tol && (cap <=? asize a) then Some a else None
      | Some _ => None
      end
  | IRem k, ROpt r => if oeqb r (afind a k) then Some (adel a k) else None
  | IIdx j, REnt e =>
      if (0 <=? j) && (j <? asize a) then
        match e with Some x => if pair_eqb x (nth (Z.to_nat j) (asorted a) (0, 0)) then Some a else None | None => None end
      else match e with None => Some a | Some _ => None end
  | IClear, RUnit => Some []
  | ILen, RLen n e => if (n =? asize a) && Bool.eqb e (asize a =? 0) then Some a else None
  | IEntries, RList l => if plist_eqb l (asorted a) then Some a else None
  | IDump, RDump raw cnt =>
      let n := Z.to_nat (asize a) in
      if (cnt =? asize a) && (Z.of_nat (length raw) =? cap)
         && plist_eqb (firstn n raw) (asorted a) && all_zero (skipn n raw)
      then Some a else None
  | _, _ => None            (* any other panic, or an output of the wrong shape *)
  end.

Fixpoint orun (tol : bool) (cap : Z) (a : amap) (h : list (inp * out)) : bool :=
  match h with
  | [] => true
  | (i, o) :: r => match ostep tol cap a i o with Some a' => orun tol cap a' r | None => false end
  end.

Definition oracle_b (c : case) : bool := match c with Hist cap h => orun false cap [] h end.

(* class 1 (InsertExpectPanicsOnFull): the history is fine except that `insert` panicked
   (expect) on a new key when the map was full *)
Definition known_b (c : case) : Z :=
  match c with Hist cap h => if negb (orun false cap [] h) && orun true cap [] h then 1 else 0 end.
