(* C34 — refinement of the array model to a finite map (std++ gmap). *)
From stdpp Require Import gmap sorting.
From GV Require lib.Base C34.Model C34.Proofs.
Import GV.lib.Base(res, Ok, Err, rbind, of_opt).
Import GV.C34.Model GV.C34.Proofs.
Open Scope Z_scope.

Lemma StronglySorted_snoc {A} (R : relation A) l x :
  StronglySorted R l → Forall (λ y, R y x) l → StronglySorted R (l ++ [x]).
Proof.
  induction 1 as [|y l S IH F]; intros Hx; simpl.
  - repeat constructor.
  - apply Forall_cons in Hx as [Hy Hx]. constructor; [by apply IH|].
    apply Forall_app. split; [done|]. by constructor.
Qed.

Section Refine.
  Context {V : Type}.
  Implicit Types (m : @fmap V) (a : gmap Z V) (d : list (Z * V)).

  (* the abstraction function: the finite map held by the first [count] slots *)
  Definition abs m : gmap Z V := list_to_map (entries m).

  Definition klt (x y : Z * V) : Prop := x.1 < y.1.
  (* [l] is the listing of [a] in strictly increasing key order *)
  Definition is_listing a (l : list (Z * V)) : Prop :=
    StronglySorted klt l ∧ ∀ k v, (k, v) ∈ l ↔ a !! k = Some v.

  Lemma lookup_znth dv d i : 0 <= i < zlen d → d !! Z.to_nat i = Some (znth dv d i).
  Proof.
    intros H. unfold znth.
    destruct (nth_lookup_or_length d (Z.to_nat i) (dflt dv)) as [E|E]; [exact E|].
    unfold zlen, entry in *. lia.
  Qed.

  Lemma entries_lookup dv cap m (i : nat) : wf dv cap m →
    entries m !! i = if decide (Z.of_nat i < count m) then Some (znth dv (data m) (Z.of_nat i)) else None.
  Proof.
    intros [Hl Hc Hs Ht]. unfold entries, len. case_decide as D.
    - rewrite lookup_take by lia. rewrite <- (Nat2Z.id i) at 1. apply lookup_znth. lia.
    - apply lookup_take_ge. lia.
  Qed.

  Lemma elem_of_entries dv cap m k v : wf dv cap m →
    (k, v) ∈ entries m ↔ ∃ i, 0 <= i < count m ∧ znth dv (data m) i = (k, v).
  Proof.
    intros W. rewrite elem_of_list_lookup. split.
    - intros [i E]. rewrite (entries_lookup dv cap) in E by done. case_decide; [|done].
      exists (Z.of_nat i). split; [lia|]. congruence.
    - intros (i & B & E). exists (Z.to_nat i). rewrite (entries_lookup dv cap) by done.
      rewrite decide_True by lia. rewrite Z2Nat.id by lia. by rewrite E.
  Qed.

  Lemma NoDup_keys dv cap m : wf dv cap m → NoDup (entries m).*1.
  Proof.
    intros W. apply NoDup_alt. intros i j x.
    rewrite !list_lookup_fmap, !(entries_lookup dv cap) by done.
    do 2 case_decide; simpl; try done. intros [= E1] [= E2].
    destruct W as [Hl Hc Hs Ht].
    destruct (Z.lt_trichotomy (Z.of_nat i) (Z.of_nat j)) as [L|[L|L]]; [|lia|].
    - pose proof (Hs (Z.of_nat i) (Z.of_nat j)). lia.
    - pose proof (Hs (Z.of_nat j) (Z.of_nat i)). lia.
  Qed.

  Lemma abs_lookup dv cap m k v : wf dv cap m →
    abs m !! k = Some v ↔ ∃ i, 0 <= i < count m ∧ znth dv (data m) i = (k, v).
  Proof.
    intros W. unfold abs. rewrite <- elem_of_list_to_map by by eapply NoDup_keys.
    by apply (elem_of_entries dv cap).
  Qed.

  Lemma abs_size dv cap m : wf dv cap m → Z.of_nat (size (abs m)) = count m.
  Proof.
    intros W. unfold size, map_size, abs.
    rewrite map_to_list_to_map by by eapply NoDup_keys.
    unfold entries, len. rewrite take_length. destruct W as [Hl Hc _ _]. unfold zlen, entry in *. lia.
  Qed.

  Lemma abs_found dv cap m k i : wf dv cap m → 0 <= i < count m → (znth dv (data m) i).1 = k →
    abs m !! k = Some (znth dv (data m) i).2.
  Proof.
    intros W B E. apply (abs_lookup dv cap); [done|]. exists i. split; [done|].
    rewrite <- E. apply surjective_pairing.
  Qed.

  Lemma abs_missing dv cap m k i : wf dv cap m →
    (∀ j, 0 <= j → j < i → (znth dv (data m) j).1 < k) →
    (∀ j, i <= j → j < count m → k < (znth dv (data m) j).1) →
    abs m !! k = None.
  Proof.
    intros W Lo Hi. apply eq_None_not_Some. intros [v E].
    apply (abs_lookup dv cap) in E as (j & B & E); [|done].
    destruct (Z_lt_le_dec j i) as [L|L].
    - specialize (Lo j). rewrite E in Lo. simpl in Lo. lia.
    - specialize (Hi j). rewrite E in Hi. simpl in Hi. lia.
  Qed.

  Lemma keys_inj dv cap m i j : wf dv cap m → 0 <= i < count m → 0 <= j < count m →
    (znth dv (data m) i).1 = (znth dv (data m) j).1 → i = j.
  Proof.
    intros [Hl Hc Hs Ht] Bi Bj E.
    destruct (Z.lt_trichotomy i j) as [L|[L|L]]; [|done|].
    - pose proof (Hs i j). lia.
    - pose proof (Hs j i). lia.
  Qed.

  Lemma abs_empty dv cap : 0 <= cap < 2 ^ 32 → abs (empty dv cap) = ∅.
  Proof. intros. unfold abs, entries, len. simpl. done. Qed.

  Lemma abs_replaced dv cap m i v : wf dv cap m → 0 <= i < count m →
    abs (replaced dv m i v) = <[(znth dv (data m) i).1 := v]> (abs m).
  Proof.
    intros W B. pose proof (wf_replaced dv cap m i v W B) as W'.
    apply map_eq. intros k'. apply option_eq. intros v'.
    rewrite (abs_lookup dv cap) by done. rewrite lookup_insert_Some.
    rewrite (abs_lookup dv cap) by done.
    assert (L : zlen (data m) = cap ∧ count m <= cap) by (destruct W; lia).
    unfold replaced; simpl. split.
    - intros (j & Bj & E). rewrite znth_upd in E by lia.
      destruct (Z.eqb_spec j i) as [->|N].
      + left. by inversion E.
      + right. split; [|by exists j]. intros <-.
        apply N. apply (keys_inj dv cap m j i W Bj B). by rewrite E.
    - intros [[<- <-]|(N & j & Bj & E)].
      + exists i. split; [done|]. rewrite znth_upd by lia. by rewrite Z.eqb_refl.
      + exists j. split; [done|]. rewrite znth_upd by lia.
        destruct (Z.eqb_spec j i) as [->|]; [|done]. rewrite E in N. done.
  Qed.

  Lemma abs_inserted dv cap m d' i k v : wf dv cap m →
    0 <= i <= count m → count m < cap →
    (∀ j, 0 <= j → j < i → (znth dv (data m) j).1 < k) →
    (∀ j, i <= j → j < count m → k < (znth dv (data m) j).1) →
    inserted_at dv (data m) d' (count m) i k v →
    abs (mk d' (count m + 1)) = <[k := v]> (abs m).
  Proof.
    intros W B F Lo Hi I.
    pose proof (wf_inserted dv cap m d' i k v W B F Lo Hi I) as W'.
    destruct I as [L H].
    apply map_eq. intros k'. apply option_eq. intros v'.
    rewrite (abs_lookup dv cap) by done. rewrite lookup_insert_Some.
    rewrite (abs_lookup dv cap) by done. simpl. split.
    - intros (j & Bj & E). rewrite H in E by lia.
      destruct (Z.ltb_spec j i) as [A|A].
      + right. split; [|exists j; split; [lia|done]].
        intros <-. specialize (Lo j). rewrite E in Lo. simpl in Lo. lia.
      + destruct (Z.eqb_spec j i) as [->|N].
        * left. by inversion E.
        * destruct (Z.leb_spec j (count m)); [|lia].
          right. split; [|exists (j - 1); split; [lia|done]].
          intros <-. specialize (Hi (j - 1)). rewrite E in Hi. simpl in Hi. lia.
    - intros [[<- <-]|(N & j & Bj & E)].
      + exists i. split; [lia|]. rewrite H by lia.
        destruct (Z.ltb_spec i i); [lia|]. by rewrite Z.eqb_refl.
      + destruct (Z_lt_le_dec j i) as [A|A].
        * exists j. split; [lia|]. rewrite H by lia. destruct (Z.ltb_spec j i); [done|lia].
        * exists (j + 1). split; [lia|]. rewrite H by lia.
          destruct (Z.ltb_spec (j + 1) i); [lia|]. destruct (Z.eqb_spec (j + 1) i); [lia|].
          destruct (Z.leb_spec (j + 1) (count m)); [|lia]. by replace (j + 1 - 1) with j by lia.
  Qed.

  Lemma abs_removed dv cap m d' i : wf dv cap m → 0 <= i < count m →
    removed_at dv (data m) d' (count m) i →
    abs (mk d' (count m - 1)) = delete (znth dv (data m) i).1 (abs m).
  Proof.
    intros W B R. pose proof (wf_removed dv cap m d' i W B R) as W'.
    destruct R as [L H].
    assert (Lc : zlen (data m) = cap ∧ count m <= cap) by (destruct W; lia).
    apply map_eq. intros k'. apply option_eq. intros v'.
    rewrite (abs_lookup dv cap) by done. rewrite lookup_delete_Some.
    rewrite (abs_lookup dv cap) by done. simpl. split.
    - intros (j & Bj & E). rewrite H in E by lia.
      destruct (Z.ltb_spec j i) as [A|A].
      + split; [|exists j; split; [lia|done]].
        intros Ek. assert (i = j); [|lia]. apply (keys_inj dv cap m i j W); [lia|lia|]. by rewrite E.
      + destruct (Z.ltb_spec j (count m - 1)); [|lia].
        split; [|exists (j + 1); split; [lia|done]].
        intros Ek. assert (i = j + 1); [|lia]. apply (keys_inj dv cap m i (j + 1) W); [lia|lia|]. by rewrite E.
    - intros (N & j & Bj & E).
      destruct (Z_lt_le_dec j i) as [A|A].
      + exists j. split; [lia|]. rewrite H by lia. destruct (Z.ltb_spec j i); [done|lia].
      + assert (j ≠ i) by (intros ->; rewrite E in N; done).
        exists (j - 1). split; [lia|]. rewrite H by lia.
        destruct (Z.ltb_spec (j - 1) i); [lia|].
        destruct (Z.ltb_spec (j - 1) (count m - 1)); [|lia]. by replace (j - 1 + 1) with j by lia.
  Qed.

  Lemma entries_listing dv cap m : wf dv cap m → is_listing (abs m) (entries m).
  Proof.
    intros W. split.
    - (* sortedness of the first [count] slots *)
      assert (G : ∀ n : nat, Z.of_nat n <= count m →
                StronglySorted klt (take n (data m))).
      { destruct W as [Hl Hc Hs Ht]. induction n as [|n IH]; intros Hn.
        - rewrite take_0. constructor.
        - assert (E : data m !! n = Some (znth dv (data m) (Z.of_nat n))).
          { rewrite <- (Nat2Z.id n) at 1. apply lookup_znth. lia. }
          rewrite (take_S_r _ _ _ E).
          apply StronglySorted_snoc; [apply IH; lia|].
          apply Forall_forall. intros x Hx.
          apply elem_of_list_lookup in Hx as [j Hj].
          assert (Jn : (j < n)%nat).
          { apply lookup_lt_Some in Hj. rewrite take_length in Hj. lia. }
          rewrite lookup_take in Hj by lia.
          assert (Some x = Some (znth dv (data m) (Z.of_nat j))) as [= ->].
          { pose proof (lookup_znth dv (data m) (Z.of_nat j)) as Q. rewrite Nat2Z.id in Q.
            etrans; [symmetry; exact Hj|]. apply Q. lia. }
          unfold klt. apply Hs; lia. }
      unfold entries, len. apply G. destruct W. lia.
    - intros k v. unfold abs. apply elem_of_list_to_map. by eapply NoDup_keys.
  Qed.
End Refine.

(* ------------------------------------------------------------------ listings are unique *)
Section Listing.
  Context {V : Type}.
  Implicit Types (a : gmap Z V) (l : list (Z * V)).

  Lemma klt_sorted_NoDup l : StronglySorted (@klt V) l → NoDup l.
  Proof.
    induction 1 as [|x l S IH F]; constructor; [|done].
    intros Hx. rewrite Forall_forall in F. specialize (F x Hx). unfold klt in F. lia.
  Qed.

  Global Instance klt_antisymm : AntiSymm (=) (@klt V).
  Proof. intros x y A B. unfold klt in *. lia. Qed.

  Lemma is_listing_unique a l1 l2 : is_listing a l1 → is_listing a l2 → l1 = l2.
  Proof.
    intros [S1 E1] [S2 E2]. apply (StronglySorted_unique (@klt V)); [done|done|].
    apply NoDup_Permutation; [by apply klt_sorted_NoDup|by apply klt_sorted_NoDup|].
    intros [k v]. by rewrite E1, E2.
  Qed.
End Listing.

(* ------------------------------------------------------------------ histories *)
Section HistRefine.
  Context {V : Type}.
  Variable dv : V.
  Variable cap : Z.
  Implicit Types (m : @fmap V) (a : gmap Z V) (o : @op V) (r : @ret V).

  (* machine-range side condition: get_entry_by_index takes a usize *)
  Definition op_ok o : Prop := match o with OpIdx i => 0 <= i | _ => True end.

  (* the one documented panic: `insert` (expect) of a new key into a full map *)
  Definition expect_panics a o : Prop :=
    match o with OpInsP k v => a !! k = None ∧ cap <= Z.of_nat (size a) | _ => False end.

  (* the ordinary-map semantics of every operation, with the capacity as the only extra rule *)
  Definition astep a o r a' : Prop :=
    match o with
    | OpGet k => r = RetOpt (a !! k) ∧ a' = a
    | OpSet k v => r = RetOpt (a !! k) ∧ a' = (if a !! k then <[k:=v]> a else a)
    | OpIns k v new =>
        match a !! k with
        | Some old => if new then r = RetRes (Err E_EXIST) ∧ a' = a
                      else r = RetRes (Ok (Some old)) ∧ a' = <[k:=v]> a
        | None => if decide (cap <= Z.of_nat (size a)) then r = RetRes (Err E_FULL) ∧ a' = a
                  else r = RetRes (Ok None) ∧ a' = <[k:=v]> a
        end
    | OpInsP k v => r = RetOpt (a !! k) ∧ a' = <[k:=v]> a
    | OpRem k => r = RetOpt (a !! k) ∧ a' = delete k a
    | OpIdx i => ∃ l, is_listing a l ∧ r = RetEnt (l !! Z.to_nat i) ∧ a' = a
    | OpClear => r = RetUnit ∧ a' = ∅
    | OpLen => r = RetLen (Z.of_nat (size a)) (bool_decide (a = ∅)) ∧ a' = a
    | OpEntries => ∃ l, is_listing a l ∧ r = RetList l ∧ a' = a
    end.

  Lemma astep_det a o r1 a1 r2 a2 : astep a o r1 a1 → astep a o r2 a2 → r1 = r2 ∧ a1 = a2.
  Proof.
    destruct o; simpl; try (intros [-> ->] [-> ->]; done).
    - destruct (a !! k); [destruct new|case_decide]; intros [-> ->] [-> ->]; done.
    - intros (l1 & L1 & -> & ->) (l2 & L2 & -> & ->). by rewrite (is_listing_unique a l1 l2).
    - intros (l1 & L1 & -> & ->) (l2 & L2 & -> & ->). by rewrite (is_listing_unique a l1 l2).
  Qed.

  Lemma is_empty_abs m : wf dv cap m → is_empty m = bool_decide (abs m = ∅).
  Proof.
    intros W. pose proof (abs_size dv cap m W) as S. unfold is_empty.
    destruct (Z.eqb_spec (count m) 0) as [E|E]; symmetry.
    - apply bool_decide_eq_true. apply map_size_empty_iff. lia.
    - apply bool_decide_eq_false. rewrite <- map_size_empty_iff. lia.
  Qed.

  Lemma step_refines m o : 0 <= cap < 2 ^ 32 → wf dv cap m → op_ok o →
    (expect_panics (abs m) o ∧ istep dv cap m o = Err P_EXPECT) ∨
    (¬ expect_panics (abs m) o ∧
     ∃ m' r, istep dv cap m o = Ok (m', r) ∧ wf dv cap m' ∧ astep (abs m) o r (abs m')).
  Proof.
    intros Hcap W Hok. pose proof (abs_size dv cap m W) as Sz.
    destruct o as [k|k v|k v new|k v|k|i| | |]; simpl in Hok.
    - (* get *) right. split; [tauto|]. exists m.
      destruct (search_spec dv cap m k W) as [(i & E & B & K)|(i & E & B & Lo & Hi)].
      + pose proof (abs_found dv cap m k i W B K) as A.
        eexists. unfold istep. rewrite (get_found dv cap m k i W E B). simpl.
        split; [done|]. split; [done|]. by rewrite A.
      + pose proof (abs_missing dv cap m k i W Lo Hi) as A.
        eexists. unfold istep. rewrite (get_missing dv m k i E). simpl.
        split; [done|]. split; [done|]. by rewrite A.
    - (* get_mut write *) right. split; [tauto|].
      destruct (search_spec dv cap m k W) as [(i & E & B & K)|(i & E & B & Lo & Hi)].
      + pose proof (abs_found dv cap m k i W B K) as A.
        do 2 eexists. unfold istep. rewrite (set_value_found dv cap m k v i W E B). simpl.
        split; [done|]. split; [by apply wf_replaced|].
        rewrite A. split; [done|]. rewrite <- K. by apply (abs_replaced dv cap).
      + pose proof (abs_missing dv cap m k i W Lo Hi) as A.
        do 2 eexists. unfold istep. rewrite (set_value_missing dv m k v i E). simpl.
        split; [done|]. split; [done|]. by rewrite A.
    - (* insert_with_options *) right. split; [tauto|].
      destruct (search_spec dv cap m k W) as [(i & E & B & K)|(i & E & B & Lo & Hi)].
      + pose proof (abs_found dv cap m k i W B K) as A.
        unfold istep. rewrite (insert_found dv cap m k v new i W E B).
        destruct new; do 2 eexists; simpl.
        * split; [done|]. split; [done|]. by rewrite A.
        * split; [done|]. split; [by apply wf_replaced|].
          rewrite A. split; [done|]. rewrite <- K. by apply (abs_replaced dv cap).
      + pose proof (abs_missing dv cap m k i W Lo Hi) as A.
        destruct (Z_le_gt_dec cap (count m)) as [F|F].
        * do 2 eexists. unfold istep. rewrite (insert_full dv cap m k v new i E F). simpl.
          split; [done|]. split; [done|]. rewrite A. rewrite decide_True by lia. done.
        * destruct (insert_new dv cap Hcap m k v new i W E B) as (d' & E' & I); [lia|].
          do 2 eexists. unfold istep. rewrite E'. simpl.
          split; [done|]. split; [by apply (wf_inserted dv cap m d' i k v); try lia|].
          rewrite A. rewrite decide_False by lia. split; [done|].
          apply (abs_inserted dv cap m d' i k v); auto; lia.
    - (* insert (expect) *)
      destruct (search_spec dv cap m k W) as [(i & E & B & K)|(i & E & B & Lo & Hi)].
      + pose proof (abs_found dv cap m k i W B K) as A. right.
        split; [simpl; rewrite A; intros [? _]; done|].
        do 2 eexists. unfold istep, Model.insert. rewrite (insert_found dv cap m k v false i W E B). simpl.
        split; [done|]. split; [by apply wf_replaced|].
        rewrite A. split; [done|]. rewrite <- K. by apply (abs_replaced dv cap).
      + pose proof (abs_missing dv cap m k i W Lo Hi) as A.
        destruct (Z_le_gt_dec cap (count m)) as [F|F].
        * left. split; [simpl; split; [done|lia]|].
          unfold istep, Model.insert. rewrite (insert_full dv cap m k v false i E F). done.
        * right. split; [simpl; intros [_ ?]; lia|].
          destruct (insert_new dv cap Hcap m k v false i W E B) as (d' & E' & I); [lia|].
          do 2 eexists. unfold istep, Model.insert. rewrite E'. simpl.
          split; [done|]. split; [by apply (wf_inserted dv cap m d' i k v); try lia|].
          rewrite A. split; [done|].
          apply (abs_inserted dv cap m d' i k v); auto; lia.
    - (* remove *) right. split; [tauto|].
      destruct (search_spec dv cap m k W) as [(i & E & B & K)|(i & E & B & Lo & Hi)].
      + pose proof (abs_found dv cap m k i W B K) as A.
        destruct (remove_found dv cap Hcap m k i W E B) as (d' & E' & R).
        do 2 eexists. unfold istep. rewrite E'. simpl.
        split; [done|]. split; [by apply (wf_removed dv cap m d' i)|].
        rewrite A. split; [done|]. rewrite <- K. by apply (abs_removed dv cap).
      + pose proof (abs_missing dv cap m k i W Lo Hi) as A.
        do 2 eexists. unfold istep. rewrite (remove_missing dv m k i E). simpl.
        split; [done|]. split; [done|]. rewrite A. split; [done|].
        symmetry. by apply delete_notin.
    - (* get_entry_by_index *) right. split; [tauto|].
      do 2 eexists. unfold istep. rewrite (get_entry_by_index_spec dv cap m i W Hok). simpl.
      split; [done|]. split; [done|].
      exists (entries m). split; [by apply (entries_listing dv cap)|]. split; [|done].
      f_equal. rewrite (entries_lookup dv cap) by done. rewrite Z2Nat.id by lia.
      destruct (Z.ltb_spec i (count m)); [by rewrite decide_True by lia|by rewrite decide_False by lia].
    - (* clear *) right. split; [tauto|].
      do 2 eexists. unfold istep. rewrite (clear_spec dv cap Hcap m W). simpl.
      split; [done|]. split; [by apply wf_empty|]. split; [done|]. by apply abs_empty.
    - (* len / is_empty *) right. split; [tauto|].
      do 2 eexists. simpl. split; [done|]. split; [done|].
      unfold len. rewrite Sz. by rewrite (is_empty_abs m W).
    - (* entries *) right. split; [tauto|].
      do 2 eexists. simpl. split; [done|]. split; [done|].
      exists (entries m). split; [by apply (entries_listing dv cap)|]. done.
  Qed.

  Inductive aruns : gmap Z V → list (@op V) → list (@ret V) → gmap Z V → Prop :=
  | aruns_nil a : aruns a [] [] a
  | aruns_cons a o r a1 ops rs a2 :
      ¬ expect_panics a o → astep a o r a1 → aruns a1 ops rs a2 → aruns a (o :: ops) (r :: rs) a2.

  Inductive apanics : gmap Z V → list (@op V) → Prop :=
  | apanics_here a o ops : expect_panics a o → apanics a (o :: ops)
  | apanics_later a o r a1 ops :
      ¬ expect_panics a o → astep a o r a1 → apanics a1 ops → apanics a (o :: ops).

  Lemma run_refines ops : ∀ m, 0 <= cap < 2 ^ 32 → wf dv cap m → Forall op_ok ops →
    (∃ rs m', irun dv cap ops m = Ok (rs, m') ∧ wf dv cap m' ∧ aruns (abs m) ops rs (abs m')) ∨
    (irun dv cap ops m = Err P_EXPECT ∧ apanics (abs m) ops).
  Proof.
    induction ops as [|o ops IH]; intros m Hcap W Hok.
    - left. exists [], m. simpl. split; [done|]. split; [done|constructor].
    - apply Forall_cons in Hok as [Ho Hok].
      destruct (step_refines m o Hcap W Ho) as [[P E]|(NP & m1 & r & E & W1 & A)].
      + right. simpl. rewrite E. simpl. split; [done|]. by constructor.
      + destruct (IH m1 Hcap W1 Hok) as [(rs & m' & E' & W' & R)|[E' P]].
        * left. exists (r :: rs), m'. simpl. rewrite E. simpl. rewrite E'. simpl.
          split; [done|]. split; [done|]. by econstructor.
        * right. simpl. rewrite E. simpl. rewrite E'. simpl. split; [done|]. by econstructor.
  Qed.

  Lemma apanics_has_insp a ops : apanics a ops → ∃ k v, OpInsP k v ∈ ops.
  Proof.
    induction 1 as [a o ops P|a o r a1 ops NP A Pn (k & v & IH)].
    - destruct o; simpl in P; try done. do 2 eexists. by left.
    - exists k, v. by right.
  Qed.

  Lemma run_no_panic ops m : 0 <= cap < 2 ^ 32 → wf dv cap m → Forall op_ok ops →
    (∀ k v, OpInsP k v ∉ ops) →
    ∃ rs m', irun dv cap ops m = Ok (rs, m') ∧ wf dv cap m' ∧ aruns (abs m) ops rs (abs m').
  Proof.
    intros Hcap W Hok Hn. destruct (run_refines ops m Hcap W Hok) as [R|[_ P]]; [done|].
    apply apanics_has_insp in P as (k & v & P). by apply Hn in P.
  Qed.

  Lemma step_in_bounds m o e : 0 <= cap < 2 ^ 32 → wf dv cap m → op_ok o →
    istep dv cap m o = Err e → e = P_EXPECT ∧ expect_panics (abs m) o.
  Proof.
    intros Hcap W Hok E.
    destruct (step_refines m o Hcap W Hok) as [[P E']|(_ & m' & r & E' & _)]; rewrite E' in E; [|done].
    by inversion E.
  Qed.

  Lemma get_is_lookup m k : wf dv cap m → get dv m k = Ok (abs m !! k).
  Proof.
    intros W. destruct (search_spec dv cap m k W) as [(i & E & B & K)|(i & E & B & Lo & Hi)].
    - rewrite (get_found dv cap m k i W E B). by rewrite (abs_found dv cap m k i W B K).
    - rewrite (get_missing dv m k i E). by rewrite (abs_missing dv cap m k i W Lo Hi).
  Qed.

  Lemma full_insert_fails_unchanged m k v new : wf dv cap m →
    abs m !! k = None → cap <= count m →
    insert_with_options dv cap m k v new = Ok (m, Err E_FULL).
  Proof.
    intros W A F. destruct (search_spec dv cap m k W) as [(i & E & B & K)|(i & E & B & Lo & Hi)].
    - rewrite (abs_found dv cap m k i W B K) in A. done.
    - by apply (insert_full dv cap m k v new i).
  Qed.

  Lemma existing_insert_new_fails_unchanged m k v old : wf dv cap m →
    abs m !! k = Some old →
    insert_with_options dv cap m k v true = Ok (m, Err E_EXIST).
  Proof.
    intros W A. destruct (search_spec dv cap m k W) as [(i & E & B & K)|(i & E & B & Lo & Hi)].
    - by rewrite (insert_found dv cap m k v true i W E B).
    - rewrite (abs_missing dv cap m k i W Lo Hi) in A. done.
  Qed.
End HistRefine.
