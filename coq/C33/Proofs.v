(* C33 — proofs: referral invariants over arbitrary histories. *)
From GV Require Import lib.Base C33.Model.
Open Scope Z_scope.

Lemma aget_aset {A} (l : list (Z * A)) k a x : aget (aset l k a) x = if x =? k then Some a else aget l x.
Proof.
  induction l as [|[y b] l IH]; simpl.
  - rewrite (Z.eqb_sym k x). reflexivity.
  - destruct (y =? k) eqn:E; simpl.
    + assert (y = k) by lia. subst y. rewrite (Z.eqb_sym k x). destruct (x =? k); reflexivity.
    + rewrite IH. destruct (y =? x) eqn:E2; [|reflexivity]. assert (y = x) by lia. subst y. rewrite E. reflexivity.
Qed.

Lemma chk_nil b r rest : chk b r ++ rest = [] <-> b = true /\ rest = [].
Proof. destruct b; simpl; split; intros H; try tauto; try discriminate. destruct H; discriminate. Qed.

Record Inv (s : state) : Prop := mkInv {
  (* never self-referential *)
  i_self : forall o u, aget (s_users s) o = Some u -> u_referrer u <> o;
  (* never mutual *)
  i_mutual : forall a b ua ub, aget (s_users s) a = Some ua -> aget (s_users s) b = Some ub ->
               u_referrer ua = b -> u_referrer ub <> a;
  (* a user's code is a code account owned by that user *)
  i_ucode : forall o u, aget (s_users s) o = Some u -> u_code u <> 0 ->
               exists cd, aget (s_codes s) (u_code u) = Some cd /\ c_owner cd = o;
  (* every code account is held by its owner *)
  i_cown : forall c cd, aget (s_codes s) c = Some cd ->
               c <> 0 /\ exists u, aget (s_users s) (c_owner cd) = Some u /\ u_code u = c;
  (* accounts exist only for real owners *)
  i_keys : forall o u, aget (s_users s) o = Some u -> 1 <= o
}.

Lemma Inv_init : Inv init.
Proof. constructor; simpl; intros; discriminate. Qed.

Ltac eqb_cases :=
  repeat match goal with
  | H : context [?a =? ?b] |- _ => let E := fresh "E" in destruct (a =? b) eqn:E; [apply Z.eqb_eq in E|apply Z.eqb_neq in E]
  | |- context [?a =? ?b] => let E := fresh "E" in destruct (a =? b) eqn:E; [apply Z.eqb_eq in E|apply Z.eqb_neq in E]
  end.

Ltac inv_some := repeat match goal with H : Some _ = Some _ |- _ => injection H as <- end.

Ltac b2p := repeat match goal with
  | H : (_ =? _) = true |- _ => apply Z.eqb_eq in H
  | H : (_ =? _) = false |- _ => apply Z.eqb_neq in H
  | H : negb _ = true |- _ => apply negb_true_iff in H
  | H : negb _ = false |- _ => apply negb_false_iff in H
  end.

(* destruct every boolean comparison that the goal's `if`s depend on *)
Ltac ifs := repeat match goal with
  | |- context [if ?a =? ?b then _ else _] => let E := fresh "E" in destruct (a =? b) eqn:E
  end.

Lemma chk_single b r : chk b r = [] <-> b = true.
Proof. destruct b; simpl; split; intros H; try reflexivity; discriminate. Qed.
Ltac viol V := repeat (apply chk_nil in V; let V1 := fresh "V" in destruct V as [V1 V]); try apply chk_single in V; b2p.

Lemma step_Inv s o : Inv s -> op_wf o -> Inv (step s o).
Proof.
  intros I W. unfold step. destruct (violations s o) eqn:V; [|exact I].
  destruct I as [IS IM IU IC IK].
  (* every user account mentioned has a key >= 1 *)
  Ltac keys IK := repeat match goal with
    | H : aget (s_users _) ?x = Some _ |- _ =>
        lazymatch goal with K : 1 <= x |- _ => fail | _ => pose proof (IK _ _ H) end
    end.
  Ltac auto_inv IS IM IK :=
    intros *; rewrite ?aget_aset; ifs; intros; inv_some; b2p; subst; simpl in *; keys IK; try lia;
    try solve [eapply IS; eauto | eapply IM; eauto | eapply IK; eauto | congruence
              | intro; subst; keys IK; lia ].
  destruct o as [o|o c|o c r|o c r|o c|n c u]; simpl in V, W |- *.
  - (* Prepare *)
    destruct (aget (s_users s) o) eqn:EO; [constructor; assumption|].
    constructor; simpl.
    + auto_inv IS IM IK.
    + auto_inv IS IM IK.
    + auto_inv IS IM IK. eapply IU; eauto.
    + intros c cd H. destruct (IC _ _ H) as (Hc & u & Hu & Huc). split; [exact Hc|]. rewrite aget_aset.
      destruct (c_owner cd =? o) eqn:E; b2p; [congruence|eauto].
    + auto_inv IS IM IK.
  - (* InitCode *)
    destruct (aget (s_users s) o) as [uo|] eqn:EO; [|discriminate].
    viol V.
    assert (Hnc : aget (s_codes s) c = None) by (destruct (aget (s_codes s) c); [discriminate|reflexivity]).
    constructor; simpl.
    + auto_inv IS IM IK.
    + auto_inv IS IM IK.
    + intros o0 u. rewrite !aget_aset. destruct (o0 =? o) eqn:E; b2p.
      * intros H _. inv_some. simpl. rewrite Z.eqb_refl. eexists. split; [reflexivity|simpl; lia].
      * intros H Hn. destruct (IU _ _ H Hn) as (cd & Hcd & Hown). destruct (u_code u =? c) eqn:E2; b2p; [congruence|eauto].
    + intros c0 cd. rewrite !aget_aset. destruct (c0 =? c) eqn:E; b2p.
      * intros H. inv_some. simpl. split; [lia|]. rewrite Z.eqb_refl. eexists. split; [reflexivity|simpl; lia].
      * intros H. destruct (IC _ _ H) as (Hc & u & Hu & Huc'). split; [exact Hc|].
        destruct (c_owner cd =? o) eqn:E2; b2p; [|eauto]. rewrite E2 in Hu. rewrite EO in Hu. inv_some. lia.
    + auto_inv IS IM IK.
  - (* SetRef *)
    destruct (aget (s_users s) o) as [uo|] eqn:EO; [|discriminate].
    destruct (aget (s_codes s) c) as [cd|] eqn:EC; [|discriminate].
    destruct (aget (s_users s) r) as [ur|] eqn:ER; [|discriminate].
    viol V.
    constructor; simpl.
    + auto_inv IS IM IK.
    + auto_inv IS IM IK.
    + intros o0 u. rewrite !aget_aset. destruct (o0 =? r) eqn:E1; b2p.
      * intros H. inv_some. simpl. subst. apply IU. exact ER.
      * destruct (o0 =? o) eqn:E2; b2p; [intros H; inv_some; simpl; subst; apply IU; exact EO|apply IU].
    + intros c0 cd0 H. destruct (IC _ _ H) as (Hc & u & Hu & Huc). split; [exact Hc|]. rewrite !aget_aset.
      destruct (c_owner cd0 =? r) eqn:E1; b2p.
      * rewrite E1 in Hu. rewrite ER in Hu. inv_some. eexists. split; [reflexivity|exact Huc].
      * destruct (c_owner cd0 =? o) eqn:E2; b2p; [|eauto].
        rewrite E2 in Hu. rewrite EO in Hu. inv_some. eexists. split; [reflexivity|exact Huc].
    + auto_inv IS IM IK.
  - (* Transfer *)
    destruct (aget (s_users s) o) as [uo|] eqn:EO; [|discriminate].
    destruct (aget (s_codes s) c) as [cd|] eqn:EC; [|discriminate].
    constructor; simpl; auto.
    + intros o0 u H Hn. destruct (IU _ _ H Hn) as (cd0 & Hcd & Hown). rewrite aget_aset.
      destruct (u_code u =? c) eqn:E; b2p; [|eauto]. rewrite E in Hcd. rewrite EC in Hcd. inv_some.
      eexists. split; [reflexivity|exact Hown].
    + intros c0 cd0. rewrite aget_aset. destruct (c0 =? c) eqn:E; b2p; [|apply IC].
      intros H; inv_some. simpl. subst. apply (IC _ _ EC).
  - (* Cancel *)
    destruct (aget (s_users s) o) as [uo|] eqn:EO; [|discriminate].
    destruct (aget (s_codes s) c) as [cd|] eqn:EC; [|discriminate].
    constructor; simpl; auto.
    + intros o0 u H Hn. destruct (IU _ _ H Hn) as (cd0 & Hcd & Hown). rewrite aget_aset.
      destruct (u_code u =? c) eqn:E; b2p; [|eauto]. rewrite E in Hcd. rewrite EC in Hcd. inv_some.
      eexists. split; [reflexivity|exact Hown].
    + intros c0 cd0. rewrite aget_aset. destruct (c0 =? c) eqn:E; b2p; [|apply IC].
      intros H; inv_some. simpl. subst. apply (IC _ _ EC).
  - (* Accept *)
    destruct (aget (s_users s) u) as [uu|] eqn:EU; [|discriminate].
    destruct (aget (s_codes s) c) as [cd|] eqn:EC; [|discriminate].
    destruct (aget (s_users s) n) as [un|] eqn:EN; [|discriminate].
    viol V.
    destruct (IC _ _ EC) as (Hc0 & _).
    constructor; simpl.
    + auto_inv IS IM IK.
    + auto_inv IS IM IK.
    + intros o0 u0. rewrite !aget_aset. destruct (o0 =? u) eqn:E1; b2p; [intros H; inv_some; simpl; lia|].
      destruct (o0 =? n) eqn:E2; b2p.
      * intros H _. inv_some. simpl. rewrite V1, Z.eqb_refl. eexists. split; [reflexivity|simpl; lia].
      * intros H Hn0. destruct (IU _ _ H Hn0) as (cd0 & Hcd & Hown0).
        destruct (u_code u0 =? c) eqn:E3; b2p; [|eauto].
        rewrite E3 in Hcd. rewrite EC in Hcd. inv_some. lia.
    + intros c0 cd0. rewrite !aget_aset. destruct (c0 =? c) eqn:E; b2p.
      * intros H. inv_some. simpl. split; [lia|]. rewrite Z.eqb_refl.
        destruct (n =? u) eqn:E1; b2p; [lia|]. eexists. split; [reflexivity|simpl; lia].
      * intros H. destruct (IC _ _ H) as (Hc & w & Hw & Hwc). split; [exact Hc|].
        destruct (c_owner cd0 =? u) eqn:E1; b2p.
        { rewrite E1 in Hw. rewrite EU in Hw. inv_some. lia. }
        destruct (c_owner cd0 =? n) eqn:E2; b2p; [|eauto].
        rewrite E2 in Hw. rewrite EN in Hw. inv_some. lia.
    + auto_inv IS IM IK.
Qed.

Theorem run_Inv ops : forall s, Inv s -> Forall op_wf ops -> Inv (run s ops).
Proof.
  induction ops as [|o ops IH]; intros s I F; [exact I|]. inversion F; subst.
  unfold run. simpl. apply IH; [apply step_Inv; assumption|assumption].
Qed.

(* user accounts are never removed and a referrer, once set, never changes *)
Lemma step_referrer_write_once s o k u : aget (s_users s) k = Some u ->
  exists u', aget (s_users (step s o)) k = Some u' /\ (u_referrer u <> 0 -> u_referrer u' = u_referrer u).
Proof.
  intros H. unfold step. destruct (violations s o) eqn:V; [|eauto].
  destruct o as [o|o c|o c r|o c r|o c|n c w]; simpl in V |- *.
  - destruct (aget (s_users s) o) eqn:EO; [eauto|]. simpl. rewrite aget_aset.
    destruct (k =? o) eqn:E; b2p; [congruence|eauto].
  - destruct (aget (s_users s) o) as [uo|] eqn:EO; [|eauto]. simpl. rewrite aget_aset.
    destruct (k =? o) eqn:E; b2p; [|eauto]. subst. rewrite EO in H. inv_some. eexists. split; [reflexivity|simpl; auto].
  - destruct (aget (s_users s) o) as [uo|] eqn:EO; [|discriminate].
    destruct (aget (s_codes s) c) as [cd|] eqn:EC; [|discriminate].
    destruct (aget (s_users s) r) as [ur|] eqn:ER; [|discriminate].
    viol V. simpl. rewrite !aget_aset.
    destruct (k =? r) eqn:E1; b2p.
    + subst. rewrite ER in H. inv_some. eexists. split; [reflexivity|simpl; auto].
    + destruct (k =? o) eqn:E2; b2p; [|eauto]. subst. rewrite EO in H. inv_some.
      eexists. split; [reflexivity|simpl; lia].
  - destruct (aget (s_codes s) c); simpl; eauto.
  - destruct (aget (s_codes s) c); simpl; eauto.
  - destruct (aget (s_users s) w) as [uw|] eqn:EW; [|eauto].
    destruct (aget (s_codes s) c) as [cd|] eqn:EC; [|eauto].
    destruct (aget (s_users s) n) as [un|] eqn:EN; [|eauto]. simpl. rewrite !aget_aset.
    destruct (k =? w) eqn:E1; b2p.
    + subst. rewrite EW in H. inv_some. eexists. split; [reflexivity|simpl; auto].
    + destruct (k =? n) eqn:E2; b2p; [|eauto]. subst. rewrite EN in H. inv_some. eexists. split; [reflexivity|simpl; auto].
Qed.

Theorem run_referrer_write_once ops : forall s k u, aget (s_users s) k = Some u -> u_referrer u <> 0 ->
  exists u', aget (s_users (run s ops)) k = Some u' /\ u_referrer u' = u_referrer u.
Proof.
  induction ops as [|o ops IH]; intros s k u H Hr; [eauto|].
  unfold run. simpl. fold (run (step s o) ops).
  destruct (step_referrer_write_once s o k u H) as (u1 & H1 & E1). specialize (E1 Hr).
  destruct (IH (step s o) k u1 H1 ltac:(congruence)) as (u2 & H2 & E2). exists u2. split; [exact H2|congruence].
Qed.

(* a referrer is only ever written by set_referrer signed by that very user, and at that moment
   the chosen referrer is a different user that is not referred by the signer *)
Lemma step_referrer_change s o k u u' : aget (s_users s) k = Some u -> aget (s_users (step s o)) k = Some u' ->
  u_referrer u' <> u_referrer u ->
  exists c r ur, o = SetRef k c r /\ u_referrer u = 0 /\ u_referrer u' = r /\ r <> k /\
                 aget (s_users s) r = Some ur /\ u_referrer ur <> k /\ u_code ur = c.
Proof.
  intros H H' Hd. unfold step in H'. destruct (violations s o) eqn:V; [|congruence].
  destruct o as [o|o c|o c r|o c r|o c|n c w]; simpl in V, H'.
  - destruct (aget (s_users s) o) eqn:EO; [congruence|]. simpl in H'. rewrite aget_aset in H'.
    destruct (k =? o) eqn:E; b2p; congruence.
  - destruct (aget (s_users s) o) as [uo|] eqn:EO; [|congruence]. simpl in H'. rewrite aget_aset in H'.
    destruct (k =? o) eqn:E; b2p; [|congruence]. subst. rewrite EO in H. inv_some. simpl in Hd. congruence.
  - destruct (aget (s_users s) o) as [uo|] eqn:EO; [|discriminate].
    destruct (aget (s_codes s) c) as [cd|] eqn:EC; [|discriminate].
    destruct (aget (s_users s) r) as [ur|] eqn:ER; [|discriminate].
    viol V. simpl in H'. rewrite !aget_aset in H'.
    destruct (k =? r) eqn:E1; b2p.
    + subst. rewrite ER in H. inv_some. simpl in Hd. congruence.
    + destruct (k =? o) eqn:E2; b2p; [|congruence]. subst. rewrite EO in H. inv_some. simpl in *.
      do 3 eexists. repeat split; eauto; lia.
  - destruct (aget (s_codes s) c); simpl in H'; congruence.
  - destruct (aget (s_codes s) c); simpl in H'; congruence.
  - destruct (aget (s_users s) w) as [uw|] eqn:EW; [|congruence].
    destruct (aget (s_codes s) c) as [cd|] eqn:EC; [|congruence].
    destruct (aget (s_users s) n) as [un|] eqn:EN; [|congruence]. simpl in H'. rewrite !aget_aset in H'.
    destruct (k =? w) eqn:E1; b2p.
    + subst. rewrite EW in H. inv_some. simpl in Hd. congruence.
    + destruct (k =? n) eqn:E2; b2p; [|congruence]. subst. rewrite EN in H. inv_some. simpl in Hd. congruence.
Qed.

(* code accounts are never removed; the owner of a code changes only by accept_referral_code signed
   by the proposed new owner (the recorded next_owner) *)
Lemma step_code_owner s o c cd : aget (s_codes s) c = Some cd ->
  exists cd', aget (s_codes (step s o)) c = Some cd' /\
    (c_owner cd' <> c_owner cd -> exists u, o = Accept (c_owner cd') c u /\ c_owner cd' = c_next cd /\ u = c_owner cd).
Proof.
  intros H. unfold step. destruct (violations s o) eqn:V; [|exists cd; split; [exact H|congruence]].
  destruct o as [o|o c0|o c0 r|o c0 r|o c0|n c0 w]; simpl in V |- *.
  - destruct (aget (s_users s) o); simpl; exists cd; split; auto; congruence.
  - destruct (aget (s_users s) o) as [uo|] eqn:EO; [|discriminate]. viol V. simpl. rewrite aget_aset.
    destruct (c =? c0) eqn:E; b2p; [|exists cd; split; auto; congruence].
    subst. rewrite H in V0. discriminate.
  - destruct (aget (s_users s) o), (aget (s_users s) r); simpl; exists cd; split; auto; congruence.
  - destruct (aget (s_codes s) c0) as [cd0|] eqn:EC; simpl; [|exists cd; split; auto; congruence]. rewrite aget_aset.
    destruct (c =? c0) eqn:E; b2p; [|exists cd; split; auto; congruence]. subst. rewrite EC in H. inv_some.
    eexists. split; [reflexivity|simpl; congruence].
  - destruct (aget (s_codes s) c0) as [cd0|] eqn:EC; simpl; [|exists cd; split; auto; congruence]. rewrite aget_aset.
    destruct (c =? c0) eqn:E; b2p; [|exists cd; split; auto; congruence]. subst. rewrite EC in H. inv_some.
    eexists. split; [reflexivity|simpl; congruence].
  - destruct (aget (s_users s) w) as [uw|] eqn:EW; [|discriminate].
    destruct (aget (s_codes s) c0) as [cd0|] eqn:EC; [|discriminate].
    destruct (aget (s_users s) n) as [un|] eqn:EN; [|discriminate].
    viol V. simpl. rewrite aget_aset.
    destruct (c =? c0) eqn:E; b2p; [|exists cd; split; auto; congruence]. subst. rewrite EC in H. inv_some.
    eexists. split; [reflexivity|]. simpl. intros _. exists (c_owner cd0). auto.
Qed.

(* a code is held by exactly one user *)
Theorem code_unique_holder s : Inv s -> forall a b ua ub, aget (s_users s) a = Some ua -> aget (s_users s) b = Some ub ->
  u_code ua <> 0 -> u_code ua = u_code ub -> a = b.
Proof.
  intros I a b ua ub Ha Hb Hn E.
  destruct (i_ucode s I a ua Ha Hn) as (cd & Hcd & Ho).
  destruct (i_ucode s I b ub Hb ltac:(congruence)) as (cd' & Hcd' & Ho'). rewrite <- E in Hcd'. congruence.
Qed.
