(* C33 — correspondence and oracle predicates for harness/src/bin/c33.rs.  Depends on Model.v only. *)
From GV Require Import lib.Base.
From GV Require Export C33.Model.
Open Scope Z_scope.

Inductive uobs := U (o referrer code count : Z).
Inductive cobs := C (c owner next : Z).
Inductive obs :=
| Obs (rc : Z) (us : list uobs) (cs : list cobs)
| Same (rc : Z).                        (* all accounts identical to the previous observation *)
Definition Sp (o : op) (b : obs) : op * obs := (o, b).

Inductive case :=
| Hist (l : list (op * obs))
| DSetRef (uo ur ro rc ref' dcount : Z)
| DSetCode (had newc rc code' : Z)
| DXfer (complete : bool) (cbytes next : Z) (uinit rinit : bool) (rcode ro rc owner' next' ucode' rcode' : Z).

Fixpoint mem (x : Z) (l : list Z) : bool := match l with [] => false | a :: r => (a =? x) || mem x r end.

Definition users_match (s : state) (us : list uobs) : bool :=
  (length (s_users s) =? length us)%nat &&
  forallb (fun u => match u with U o r c n =>
     match aget (s_users s) o with
     | Some m => (u_referrer m =? r) && (u_code m =? c) && (u_count m =? n)
     | None => false
     end end) us.
Definition codes_match (s : state) (cs : list cobs) : bool :=
  (length (s_codes s) =? length cs)%nat &&
  forallb (fun x => match x with C c o n =>
     match aget (s_codes s) c with
     | Some m => (c_owner m =? o) && (c_next m =? n)
     | None => false
     end end) cs.

(* accepted iff no check is violated; a rejection names one of the violated checks
   (11 = the seeds constraint of `user` in accept_referral_code, which states the same fact as
   OwnerMismatched: the user account must be the one of the code's owner) *)
Definition rc_ok (viol : list Z) (rc : Z) : bool :=
  match viol with
  | [] => rc =? 0
  | _ => negb (rc =? 0) && (mem rc viol || ((rc =? 11) && mem 5 viol))
  end.

Fixpoint corr_hist (s : state) (us : list uobs) (cs : list cobs) (l : list (op * obs)) : bool :=
  match l with
  | [] => true
  | (o, ob) :: r =>
      let s' := step s o in
      let '(rc, us', cs') := match ob with Obs rc a b => (rc, a, b) | Same rc => (rc, us, cs) end in
      rc_ok (violations s o) rc && users_match s' us' && codes_match s' cs' && corr_hist s' us' cs' r
  end.

(* the state functions on their own (arbitrary structs) *)
Definition m_set_referrer (ur ro : Z) : Z * Z * Z :=           (* rc, new referrer, count delta *)
  if negb (ur =? 0) then (9, ur, 0) else if ro =? 0 then (3, ur, 0) else (0, ro, 1).
Definition m_set_code (had newc : Z) : Z * Z := if negb (had =? 0) then (4, had) else (0, newc).
Definition m_xfer (complete : bool) (cbytes next : Z) (uinit rinit : bool) (rcode ro : Z) : Z * Z * Z * Z * Z :=
  (* rc, code.owner, code.next_owner, user.code, receiver.code; the user is owner 1 holding code 5 when initialised *)
  let ucode := if uinit then 5 else 0 in
  let rc0 := if rinit then rcode else 0 in
  let keep := fun rc => (rc, 1, next, ucode, rc0) in
  if cbytes =? 0 then keep 10 else
  if negb uinit then keep 12 else
  if negb rinit then keep 12 else
  if negb (rc0 =? 0) then keep 10 else
  if complete then
    if negb (ro =? next) then keep 10 else (0, ro, next, 0, ucode)
  else
    if next =? ro then keep 10 else (0, 1, ro, ucode, rc0).

Definition corr_b (c : case) : bool :=
  match c with
  | Hist l => corr_hist init [] [] l
  | DSetRef uo ur ro rc ref' dcount =>
      let '(rc_m, r_m, d_m) := m_set_referrer ur ro in (rc_m =? rc) && (r_m =? ref') && (d_m =? dcount)
  | DSetCode had newc rc code' =>
      let '(rc_m, c_m) := m_set_code had newc in (rc_m =? rc) && (c_m =? code')
  | DXfer complete cbytes next uinit rinit rcode ro rc owner' next' ucode' rcode' =>
      let '(rc_m, o_m, n_m, uc_m, rcd_m) := m_xfer complete cbytes next uinit rinit rcode ro in
      (rc_m =? rc) && (o_m =? owner') && (n_m =? next') && (uc_m =? ucode') && (rcd_m =? rcode')
  end.

(* ================= the property, on the observed accounts only ================= *)
Definition ug (us : list uobs) (o : Z) : option (Z * Z) :=
  match find (fun u => match u with U o' _ _ _ => o' =? o end) us with
  | Some (U _ r c _) => Some (r, c) | None => None end.
Definition cg (cs : list cobs) (c : Z) : option (Z * Z) :=
  match find (fun x => match x with C c' _ _ => c' =? c end) cs with
  | Some (C _ o n) => Some (o, n) | None => None end.

Definition snapshot_ok (us : list uobs) (cs : list cobs) : bool :=
  (* never self, never mutual, referrer is a real user *)
  forallb (fun u => match u with U o r c _ =>
     negb (r =? o)
     && (if r =? 0 then true else
           match ug us r with Some (r2, _) => negb (r2 =? o) | None => false end)
     (* the user's code is a code account owned by that user *)
     && (if c =? 0 then true else match cg cs c with Some (ow, _) => ow =? o | None => false end)
     end) us
  (* every code belongs to exactly one user: its owner holds it, and nobody else does *)
  && forallb (fun x => match x with C c ow _ =>
       match ug us ow with Some (_, c') => c' =? c | None => false end
       && forallb (fun u => match u with U o _ c' _ => negb (c' =? c) || (o =? ow) end) us
     end) cs.

Definition transition_ok (o : op) (rc : Z) (us us' : list uobs) (cs cs' : list cobs) : bool :=
  (* referrers are write-once *)
  forallb (fun u => match u with U ow r _ _ =>
     if r =? 0 then true else match ug us' ow with Some (r', _) => r' =? r | None => false end end) us
  (* a referrer appears only through set_referrer signed by that user, never pointing to somebody it refers *)
  && forallb (fun u => match u with U ow r' _ _ =>
       match ug us ow with
       | Some (r, _) => if r =? r' then true else
                          match o with SetRef o' _ tgt => (o' =? ow) && (tgt =? r') && (rc =? 0) && (r =? 0)
                                                          && match ug us tgt with Some (rr, _) => negb (rr =? ow) | None => false end
                                  | _ => false end
       | None => r' =? 0
       end end) us'
  (* code ownership changes only by an accept signed by the proposed new owner *)
  && forallb (fun x => match x with C c ow' _ =>
       match cg cs c with
       | Some (ow, nx) => if ow =? ow' then true else
                            match o with Accept n c' _ => (c' =? c) && (n =? ow') && (nx =? ow') && (rc =? 0) | _ => false end
       | None => match o with InitCode o' c' => (c' =? c) && (o' =? ow') && negb (c =? 0) | _ => false end
       end end) cs'
  (* codes are never destroyed *)
  && forallb (fun x => match x with C c _ _ => is_some (cg cs' c) end) cs
  (* a rejected instruction changes nothing (the driver prints Same exactly then) *)
  && true.

Fixpoint oracle_hist (us : list uobs) (cs : list cobs) (l : list (op * obs)) : bool :=
  match l with
  | [] => true
  | (o, ob) :: r =>
      match ob with
      | Same rc => oracle_hist us cs r
      | Obs rc us' cs' =>
          (rc =? 0) && snapshot_ok us' cs' && transition_ok o rc us us' cs cs' && oracle_hist us' cs' r
      end
  end.

Definition oracle_b (c : case) : bool :=
  match c with
  | Hist l => oracle_hist [] [] l
  | DSetRef uo ur ro rc ref' dcount =>
      (* write-once; no referrer with the zero address *)
      if rc =? 0 then (ur =? 0) && negb (ro =? 0) && (ref' =? ro) && (dcount =? 1)
      else (ref' =? ur) && (dcount =? 0) && (negb (ur =? 0) || (ro =? 0))
  | DSetCode had newc rc code' =>
      if rc =? 0 then (had =? 0) && (code' =? newc) else negb (had =? 0) && (code' =? had)
  | DXfer complete cbytes next uinit rinit rcode ro rc owner' next' ucode' rcode' =>
      if rc =? 0 then
        uinit && rinit && negb (cbytes =? 0) && (rcode =? 0) &&
        (if complete then (next =? ro) && (owner' =? ro) && (ucode' =? 0) && (rcode' =? 5)   (* only the proposed owner *)
         else (owner' =? 1) && (next' =? ro) && (ucode' =? 5) && (rcode' =? 0))           (* a proposal moves nothing *)
      else (owner' =? 1) && (next' =? next)
  end.

Definition known_b (c : case) : Z := 0.
