(* C33 — Gallina model of the referral instructions of the store program
   (instructions/user.rs + states/user.rs): handler checks AND the Anchor `#[account(...)]`
   constraints, read from the source.  Definitions only.

   Owners are integers >= 1 (0 = Pubkey::default()).  A user account is the PDA of (store, owner);
   a referral-code account is the PDA of (store, code bytes); `u_code` holds the code id whose
   account address the real field stores (0 = DEFAULT_PUBKEY).  The instruction arguments that an
   attacker can choose freely (which accounts are passed) are explicit arguments of the ops.

   Rejection reasons (the driver maps program / Anchor error numbers to these):
     1 account missing (not created yet)          2 code account already exists (init)
     3 InvalidArgument (zero code)                4 ReferralCodeHasBeenSet
     5 OwnerMismatched                            6 ReferralCodeMismatched
     7 SelfReferral                               8 MutualReferral
     9 ReferrerHasBeenSet                         10 PreconditionsAreNotMet
     11 seeds / has_one constraint                12 InvalidUserAccount *)
From GV Require Import lib.Base.
Open Scope Z_scope.

Record user := mkuser { u_referrer : Z; u_code : Z; u_count : Z }.
Record code := mkcode { c_owner : Z; c_next : Z }.

Fixpoint aget {A} (l : list (Z * A)) (k : Z) : option A :=
  match l with [] => None | (x, a) :: r => if x =? k then Some a else aget r k end.
Fixpoint aset {A} (l : list (Z * A)) (k : Z) (a : A) : list (Z * A) :=
  match l with
  | [] => [(k, a)]
  | (x, b) :: r => if x =? k then (x, a) :: r else (x, b) :: aset r k a
  end.

Record state := mkstate { s_users : list (Z * user); s_codes : list (Z * code) }.

Inductive op :=
| Prepare (o : Z)
| InitCode (o c : Z)
| SetRef (o c r : Z)          (* signer o, code account of c, referrer user account = the one of owner r *)
| Transfer (o c r : Z)        (* signer o, code account of c, receiver user account of owner r *)
| Cancel (o c : Z)
| Accept (n c u : Z).         (* signer n, code account of c, `user` account = the one of owner u *)

Definition U128MAX : Z := 2 ^ 128 - 1.

(* all violated checks of an instruction (empty = accepted) *)
Definition chk (b : bool) (reason : Z) : list Z := if b then [] else [reason].

Definition violations (s : state) (o : op) : list Z :=
  match o with
  | Prepare _ => []
  | InitCode o c =>
      match aget (s_users s) o with
      | None => [1]
      | Some u =>
          chk (negb (is_some (aget (s_codes s) c))) 2 ++ chk (negb (c =? 0)) 3 ++ chk (u_code u =? 0) 4
      end
  | SetRef o c r =>
      match aget (s_users s) o, aget (s_codes s) c, aget (s_users s) r with
      | Some u, Some cd, Some ru =>
          chk (r =? c_owner cd) 5 ++ chk (u_code ru =? c) 6 ++ chk (negb (r =? o)) 7
          ++ chk (negb (u_referrer ru =? o)) 8 ++ chk (u_referrer u =? 0) 9
      | _, _, _ => [1]
      end
  | Transfer o c r =>
      match aget (s_users s) o, aget (s_codes s) c, aget (s_users s) r with
      | Some u, Some cd, Some ru =>
          chk (o =? c_owner cd) 5 ++ chk (u_code u =? c) 6 ++ chk (negb (r =? o)) 7
          ++ chk (u_code ru =? 0) 10 ++ chk (negb (c_next cd =? r)) 10
      | _, _, _ => [1]
      end
  | Cancel o c =>
      match aget (s_users s) o, aget (s_codes s) c with
      | Some u, Some cd =>
          chk (o =? c_owner cd) 5 ++ chk (u_code u =? c) 6 ++ chk (negb (c_next cd =? o)) 10
      | _, _ => [1]
      end
  | Accept n c u =>
      match aget (s_users s) u, aget (s_codes s) c, aget (s_users s) n with
      | Some uu, Some cd, Some ru =>
          chk (u =? c_owner cd) 5 ++ chk (u_code uu =? c) 6 ++ chk (negb (n =? u)) 7
          ++ chk (u_code ru =? 0) 10 ++ chk (n =? c_next cd) 10
      | _, _, _ => [1]
      end
  end.

Definition apply (s : state) (o : op) : state :=
  match o with
  | Prepare o =>
      match aget (s_users s) o with
      | Some _ => s
      | None => mkstate (aset (s_users s) o (mkuser 0 0 0)) (s_codes s)
      end
  | InitCode o c =>
      match aget (s_users s) o with
      | Some u => mkstate (aset (s_users s) o (mkuser (u_referrer u) c (u_count u))) (aset (s_codes s) c (mkcode o o))
      | None => s
      end
  | SetRef o c r =>
      match aget (s_users s) o, aget (s_users s) r with
      | Some u, Some ru =>
          let us1 := aset (s_users s) o (mkuser r (u_code u) (u_count u)) in
          mkstate (aset us1 r (mkuser (u_referrer ru) (u_code ru) (Z.min U128MAX (u_count ru + 1)))) (s_codes s)
      | _, _ => s
      end
  | Transfer o c r =>
      match aget (s_codes s) c with
      | Some cd => mkstate (s_users s) (aset (s_codes s) c (mkcode (c_owner cd) r))
      | None => s
      end
  | Cancel o c =>
      match aget (s_codes s) c with
      | Some cd => mkstate (s_users s) (aset (s_codes s) c (mkcode (c_owner cd) o))
      | None => s
      end
  | Accept n c u =>
      match aget (s_users s) u, aget (s_codes s) c, aget (s_users s) n with
      | Some uu, Some cd, Some ru =>
          let us1 := aset (s_users s) n (mkuser (u_referrer ru) (u_code uu) (u_count ru)) in
          let us2 := aset us1 u (mkuser (u_referrer uu) 0 (u_count uu)) in
          mkstate us2 (aset (s_codes s) c (mkcode n (c_next cd)))
      | _, _, _ => s
      end
  end.

(* a rejected instruction changes nothing (transaction atomicity) *)
Definition step (s : state) (o : op) : state :=
  match violations s o with [] => apply s o | _ => s end.

Definition run (s : state) (ops : list op) : state := fold_left step ops s.
Definition init : state := mkstate [] [].

Definition op_wf (o : op) : Prop :=
  match o with
  | Prepare o => 1 <= o
  | InitCode o c => 1 <= o /\ 0 <= c
  | SetRef o c r => 1 <= o /\ 1 <= r /\ 0 <= c
  | Transfer o c r => 1 <= o /\ 1 <= r /\ 0 <= c
  | Cancel o c => 1 <= o /\ 0 <= c
  | Accept n c u => 1 <= n /\ 1 <= u /\ 0 <= c
  end.
