(* C33 — property theorems only. *)
From GV Require Import lib.Base C33.Model C33.Proofs.
Open Scope Z_scope.

(* [run init ops]: any sequence of prepare_user / initialize_referral_code / set_referrer /
   transfer_referral_code / cancel_referral_code_transfer / accept_referral_code over any number of
   users and codes, every instruction with ANY choice of the passed accounts; an instruction is
   accepted iff none of the Anchor constraints / handler checks is violated ([violations]), and a
   rejected instruction changes nothing.  [op_wf]: signers / owners are real keys (>= 1). *)

(* never self-referential, never mutual, codes belong to exactly one user — in every reachable state *)
Theorem c33_invariant : forall ops, Forall op_wf ops -> Inv (run init ops).
Proof. intros ops F. apply run_Inv; [exact Inv_init|exact F]. Qed.

Theorem c33_never_self : forall ops o u, Forall op_wf ops ->
  aget (s_users (run init ops)) o = Some u -> u_referrer u <> o.
Proof. intros ops o u F. apply (i_self _ (run_Inv ops init Inv_init F)). Qed.

Theorem c33_never_mutual : forall ops a b ua ub, Forall op_wf ops ->
  aget (s_users (run init ops)) a = Some ua -> aget (s_users (run init ops)) b = Some ub ->
  u_referrer ua = b -> u_referrer ub <> a.
Proof. intros ops a b ua ub F. apply (i_mutual _ (run_Inv ops init Inv_init F)). Qed.

(* write-once, from any state, over any continuation *)
Theorem c33_referrer_write_once : forall ops s k u, aget (s_users s) k = Some u -> u_referrer u <> 0 ->
  exists u', aget (s_users (run s ops)) k = Some u' /\ u_referrer u' = u_referrer u.
Proof. exact run_referrer_write_once. Qed.

(* the only way a referrer appears: set_referrer signed by the user itself, previous value none,
   target a different user that is not referred by the signer *)
Theorem c33_referrer_set_only_by_owner : forall s o k u u',
  aget (s_users s) k = Some u -> aget (s_users (step s o)) k = Some u' -> u_referrer u' <> u_referrer u ->
  exists c r ur, o = SetRef k c r /\ u_referrer u = 0 /\ u_referrer u' = r /\ r <> k /\
                 aget (s_users s) r = Some ur /\ u_referrer ur <> k /\ u_code ur = c.
Proof. exact step_referrer_change. Qed.

(* a code belongs to exactly one user at a time *)
Theorem c33_code_owner_bijection : forall ops, Forall op_wf ops ->
  let s := run init ops in
  (forall c cd, aget (s_codes s) c = Some cd -> c <> 0 /\ exists u, aget (s_users s) (c_owner cd) = Some u /\ u_code u = c) /\
  (forall o u, aget (s_users s) o = Some u -> u_code u <> 0 ->
     exists cd, aget (s_codes s) (u_code u) = Some cd /\ c_owner cd = o) /\
  (forall a b ua ub, aget (s_users s) a = Some ua -> aget (s_users s) b = Some ub ->
     u_code ua <> 0 -> u_code ua = u_code ub -> a = b).
Proof.
  intros ops F s. pose proof (run_Inv ops init Inv_init F) as I. fold s in I.
  split; [apply (i_cown s I)|split; [apply (i_ucode s I)|apply (code_unique_holder s I)]].
Qed.

(* ownership changes only when the proposed new owner accepts *)
Theorem c33_transfer_requires_accept : forall s o c cd, aget (s_codes s) c = Some cd ->
  exists cd', aget (s_codes (step s o)) c = Some cd' /\
    (c_owner cd' <> c_owner cd ->
       exists u, o = Accept (c_owner cd') c u /\ c_owner cd' = c_next cd /\ u = c_owner cd).
Proof. exact step_code_owner. Qed.

(* non-vacuity: a transfer completed by acceptance, a referral, and the rejected attacks *)
Example c33_ex :
  let ops := [Prepare 1; Prepare 2; Prepare 3; InitCode 1 7; SetRef 2 7 1; Transfer 1 7 3; Accept 3 7 1; SetRef 1 7 3] in
  let s := run init ops in
  aget (s_codes s) 7 = Some (mkcode 3 3) /\
  aget (s_users s) 2 = Some (mkuser 1 0 0) /\ aget (s_users s) 1 = Some (mkuser 3 0 1) /\
  aget (s_users s) 3 = Some (mkuser 0 7 1) /\
  violations s (SetRef 3 7 3) = [7] /\            (* self *)
  violations (run init [Prepare 1; Prepare 2; InitCode 1 7; InitCode 2 8; SetRef 2 7 1]) (SetRef 1 8 2) = [8] /\  (* mutual *)
  violations s (SetRef 2 7 3) = [9] /\                  (* second referrer *)
  violations (run init [Prepare 1; Prepare 2; Prepare 3; InitCode 1 7; Transfer 1 7 3]) (Accept 2 7 1) = [10]. (* wrong acceptor *)
Proof. vm_compute. repeat split; reflexivity. Qed.
