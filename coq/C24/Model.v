(* C24 — model of the oracle acceptance path for custom price feeds:
   Oracle::with_prices_opts -> set_prices_from_remaining_accounts ->
   OraclePrice::parse_from_feed_account (PriceFeed::check_and_get_price, price adjustment) ->
   PriceValidator::validate_one -> PriceMap::set (SmallPrices::from_price) ->
   merge_range / finish -> f -> clear_all_prices          (states/oracle/{mod,validator,time,price_map,feed}.rs)
   Definitions only.

   Error numbers (harness/src/g5oracle.rs err_num):
   1 InvalidArgument, 2 InvalidPriceFeedPrice, 3 MaxPriceAgeExceeded, 4 MaxPriceTimestampExceeded,
   5 TokenAmountOverflow, 6 InvalidOracleTimestampsRange, 7 MaxOracleTimestampsRangeExceeded, 8 MarketNotOpen,
   9 = arithmetic trap (panic), 10 PriceFeedNotUpdated, 11 InvalidPriceFeedAccount, 12 TokenConfigDisabled,
   13 NotFound, 14 NotEnoughTokenFeeds, 16 InvalidProviderKindIndex, 18 OracleNotUpdated,
   19 OracleTimestampsAreSmallerThanRequired, 20 OracleTimestampsAreLargerThanRequired, 21 InvalidOracleSlot,
   24 anchor RequireEqViolated, 99 = path not modelled (non-custom providers), 7777 = the wrapped operation failed. *)
From GV Require Import lib.Base C01.Model C26.Model C27.Model C29.Model.
Open Scope Z_scope.

Record env := mkEnv { now : Z; max_age : Z; max_range : Z; max_future : Z }.

(* one (token config, feed account) pair *)
Inductive tok :=
| Tok (in_map enabled : bool) (td prec heartbeat : Z) (allow : bool) (ratio adj policy expected : Z)
      (owner_ok : bool) (provider : Z) (feed_ok : bool)
      (dec pflags status lud ts price mn mx slot : Z).

(* what is stored / merged for an accepted token *)
Record accepted := mkAcc { a_mult : Z; a_min : Z; a_max : Z; a_open : bool; a_ts : Z; a_slot : Z }.

Definition i64_min : Z := - 2 ^ 63.
Definition i64_max : Z := 2 ^ 63 - 1.
Definition sat_add_u64 (a b : Z) : Z := Z.min i64_max (a + b).   (* i64::saturating_add_unsigned *)

Definition factor_of (ratio : Z) : option Z := if ratio =? 0 then None else Some (ratio * 10 ^ 12).

Definition valid_provider (p : Z) : bool := (0 <=? p) && (p <=? 3).

(* PriceFeed::check_and_get_price + the adjustment step of parse_from_feed_account *)
Definition parse (e : env) (allow_closed : bool) (t : tok) : res (price * option dec * bool) :=
  match t with
  | Tok in_map enabled td prec heartbeat allow ratio adj policy expected owner_ok provider feed_ok
        dec_ pflags status lud ts price mn mx slot =>
      if negb owner_ok then Err 11
      else if negb (valid_provider provider) then Err 16
      else if negb (valid_provider expected) then Err 16
      else if negb (expected =? provider) then Err 24
      else if negb feed_ok then Err 11
      else
        let is_open := is_market_open status pflags lud ts (now e) heartbeat policy in
        if negb allow_closed && negb is_open then Err 8
        else
          match (if ts <? now e then
                   match chk_s 64 (now e - ts) with
                   | None => Err 9
                   | Some d => if heartbeat <? d then Err 10 else Ok tt
                   end
                 else Ok tt) with
          | Err x => Err x
          | Ok _ =>
              match try_to_price mn mx dec_ td prec with
              | Err _ => Err 2
              | Ok pr =>
                  match try_from_price price dec_ td prec with
                  | Err _ => Err 2
                  | Ok rf =>
                      if negb (provider =? 0) then Err 99
                      else
                        match (if allow then match factor_of ratio with
                                              | Some f => adjust f pr (Some rf)
                                              | None => Some None
                                              end
                               else Some None) with
                        | None => Err 9
                        | Some adj_ =>
                            Ok (match adj_ with Some q => q | None => pr end, Some rf, is_open)
                        end
                  end
              end
          end
  end.

(* PriceValidator::validate_one : returns the adjusted timestamp *)
Definition validate_one (e : env) (ratio adj ts : Z) (p : price) (ref : option dec) : res Z :=
  ts' <-- of_opt 5 (chk_s 64 (ts - adj)) ;;
  expiration <-- of_opt 5 (chk_s 64 (ts' + max_age e)) ;;
  if expiration <? now e then Err 3
  else if sat_add_u64 (now e) (max_future e) <? ts then Err 4
  else
    _ <-- match factor_of ratio with
          | Some f => validate_deviation f p ref
          | None => Ok tt
          end ;;
    Ok ts'.

Definition tok_adj (t : tok) := match t with Tok _ _ _ _ _ _ _ adj _ _ _ _ _ _ _ _ _ _ _ _ _ _ => adj end.
Definition tok_ratio (t : tok) := match t with Tok _ _ _ _ _ _ ratio _ _ _ _ _ _ _ _ _ _ _ _ _ _ _ => ratio end.
Definition tok_ts (t : tok) := match t with Tok _ _ _ _ _ _ _ _ _ _ _ _ _ _ _ _ _ ts _ _ _ _ => ts end.
Definition tok_slot (t : tok) := match t with Tok _ _ _ _ _ _ _ _ _ _ _ _ _ _ _ _ _ _ _ _ _ slot => slot end.
Definition tok_in_map (t : tok) := match t with Tok in_map _ _ _ _ _ _ _ _ _ _ _ _ _ _ _ _ _ _ _ _ _ => in_map end.
Definition tok_enabled (t : tok) := match t with Tok _ enabled _ _ _ _ _ _ _ _ _ _ _ _ _ _ _ _ _ _ _ _ => enabled end.

(* one iteration of the loop in set_prices_from_remaining_accounts *)
Definition process (e : env) (allow_closed : bool) (t : tok) : res accepted :=
  if negb (tok_in_map t) then Err 13
  else if negb (tok_enabled t) then Err 12
  else
    x <-- parse e allow_closed t ;;
    let '(p, ref, is_open) := x in
    ts' <-- validate_one e (tok_ratio t) (tok_adj t) (tok_ts t) p ref ;;
    s <-- from_price p ;;
    let '(m, a, b) := s in
    Ok (mkAcc m a b is_open ts' (tok_slot t)).

Fixpoint process_all (e : env) (allow_closed : bool) (ts : list tok) : res (list accepted) :=
  match ts with
  | [] => Ok []
  | t :: r =>
      a <-- process e allow_closed t ;;
      l <-- process_all e allow_closed r ;;
      Ok (a :: l)
  end.

(* oracle account state: cleared flag, number of prices, min ts, max ts, min slot *)
Record ostate := mkO { o_cleared : bool; o_len : Z; o_min_ts : Z; o_max_ts : Z; o_min_slot : Z }.
Definition cleared_state : ostate := mkO true 0 i64_max i64_min (2 ^ 64 - 1).

(* PriceValidator::merge_range over the accepted tokens, starting from the validator's initial range *)
Definition range_of (l : list accepted) : Z * Z * option Z :=
  fold_left (fun acc a =>
               let '(mn, mx, sl) := acc in
               (Z.min mn (a_ts a), Z.max mx (a_ts a),
                match sl with Some s => Some (Z.min s (a_slot a)) | None => Some (a_slot a) end))
            l (i64_max, i64_min, None).

(* PriceValidator::finish *)
Definition finish (e : env) (r : Z * Z * option Z) : res (option (Z * Z * Z)) :=
  let '(mn, mx, sl) := r in
  d <-- of_opt 5 (chk_s 64 (mx - mn)) ;;
  if d <? 0 then Err 6
  else if max_range e <? d then Err 7
  else Ok (match sl with Some s => Some (s, mn, mx) | None => None end).

(* with_prices_opts: result, state seen by the wrapped operation (if it ran) with the accepted
   prices, state afterwards *)
Definition run (st0 : ostate) (e : env) (allow_closed f_fails : bool) (n_given : Z) (ts : list tok)
  : res unit * option (ostate * list accepted) * ostate :=
  (* require_gte!(remaining_accounts.len(), tokens.len()) returns before anything is touched *)
  if n_given <? Z.of_nat (length ts) then (Err 14, None, st0)
  (* require!(is_cleared) / require!(primary.is_empty) fail inside the guarded block: Err branch clears *)
  else if negb (o_cleared st0) || negb (o_len st0 =? 0) then (Err 15, None, cleared_state)
  else
    match (l <-- process_all e allow_closed ts ;;
           fin <-- finish e (range_of l) ;;
           Ok (l, fin)) with
    | Err x => (Err x, None, cleared_state)            (* Err branch: clear_all_prices *)
    | Ok (l, fin) =>
        let st := match fin with
                  | Some (s, mn, mx) => mkO false (Z.of_nat (length l)) mn mx s
                  | None => mkO true (Z.of_nat (length l)) i64_max i64_min (2 ^ 64 - 1)
                  end in
        ((if f_fails then Err 7777 else Ok tt), Some (st, l), cleared_state)   (* Ok branch: f, then clear *)
    end.

(* a zero-initialised oracle account that was never cleared *)
Definition zeroed_state : ostate := mkO false 0 0 0 0.

(* Oracle::get_primary_price(token, allow_synthetic = true): unit prices, MarketNotOpen for a closed one *)
Definition get_primary (a : accepted) : res (Z * Z) :=
  if a_open a then Ok (a_min a * 10 ^ a_mult a, a_max a * 10 ^ a_mult a) else Err 8.

(* Oracle::validate_time against a target (time.rs):
   after / before / after_slot are the Option values of the ValidateOracleTime target *)
Definition validate_time (st : ostate) (after before after_slot : option Z) : res unit :=
  if o_max_ts st <? o_min_ts st then Err 6
  else if o_cleared st then Err 18
  else if match after_slot with Some s => o_min_slot st <? s | None => false end then Err 21
  else if match after with Some a => o_min_ts st <? a | None => false end then Err 19
  else if match before with Some b => b <? o_max_ts st | None => false end then Err 20
  else Ok tt.
