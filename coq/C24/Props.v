(* C24 — property theorems only.  [tok_range] / [env_range] are the Rust field types (u8 / u32 / u64 /
   i64 / u128) of the token config, the feed account, the clock and the store limits. *)
From GV Require Import lib.Base C26.Model C27.Model C29.Model C29.Proofs C24.Model C24.Proofs.
Open Scope Z_scope.

(* Everything established about one token when it is accepted (one loop iteration of
   set_prices_from_remaining_accounts): known enabled token, program-owned feed account of the expected
   provider with the configured feed id, openness, heartbeat, adjusted timestamp, age, future excess,
   and the price is the C29 pipeline applied to the C26 conversions of the feed prices. *)
Theorem c24_process_ok : forall e ac t a,
  process e ac t = Ok a ->
  match t with
  | Tok in_map enabled td prec heartbeat allow ratio adj policy expected owner_ok provider feed_ok
        dec_ pflags status lud ts price mn mx slot =>
      in_map = true /\ enabled = true /\ owner_ok = true /\ provider = 0 /\ expected = provider /\ feed_ok = true /\
      a_open a = is_market_open status pflags lud ts (now e) heartbeat policy /\
      (ac = false -> a_open a = true) /\
      (ts < now e -> now e - ts <= heartbeat) /\
      a_ts a = ts - adj /\ - 2 ^ 63 <= ts - adj /\ ts - adj + max_age e < 2 ^ 63 /\
      now e <= ts - adj + max_age e /\ ts <= sat_add_u64 (now e) (max_future e) /\
      a_slot a = slot /\
      exists pr rf adjusted,
        try_to_price mn mx dec_ td prec = Ok pr /\
        try_from_price price dec_ td prec = Ok rf /\
        pipeline allow (factor_of ratio) pr (Some rf) = Ok (adjusted, (a_mult a, a_min a, a_max a))
  end.
Proof. exact process_ok. Qed.

(* well-formed: 0 < min <= max, one multiplier (the record has a single one), representable *)
Theorem c24_accepted_wellformed : forall e ac t a, tok_range t -> process e ac t = Ok a ->
  0 < a_min a <= a_max a /\ a_max a < 2 ^ 32 /\ 0 <= a_mult a <= 20.
Proof. exact accepted_wellformed. Qed.

(* expected provider and feed *)
Theorem c24_accepted_expected_source : forall e ac t a, process e ac t = Ok a ->
  match t with Tok in_map enabled _ _ _ _ _ _ _ expected owner_ok provider feed_ok _ _ _ _ _ _ _ _ _ =>
    in_map = true /\ enabled = true /\ owner_ok = true /\ provider = expected /\ feed_ok = true end.
Proof. exact accepted_expected_source. Qed.

(* fresh, on unbounded integers (the saturating addition is eliminated) *)
Theorem c24_accepted_fresh : forall e ac t a, tok_range t -> env_range e -> process e ac t = Ok a ->
  a_ts a = tok_ts t - tok_adj t /\
  now e <= tok_ts t - tok_adj t + max_age e /\
  tok_ts t <= now e + max_future e /\
  match t with Tok _ _ _ _ heartbeat _ _ _ _ _ _ _ _ _ _ _ _ ts _ _ _ _ => now e - ts <= heartbeat end.
Proof. exact accepted_fresh. Qed.

Theorem c24_accepted_open : forall e ac t a, process e ac t = Ok a ->
  match t with Tok _ _ _ _ heartbeat _ _ _ policy _ _ _ _ _ pflags status lud ts _ _ _ _ =>
    a_open a = is_market_open status pflags lud ts (now e) heartbeat policy end /\ (ac = false -> a_open a = true).
Proof. exact accepted_open. Qed.

(* deviation: inside reference +- configured deviation, OR one of the two known situations
   (class 2: the computed deviation is 0 and the check is skipped; class 1: inside the deviation rounded
   up to the precision step, < dev + step).  This is the complement statement of the known classes. *)
Theorem c24_accepted_in_band_partial : forall e ac t a,
  tok_range t -> process e ac t = Ok a -> tok_ratio t <> 0 ->
  let r := tok_ref t in let dev := tok_dev t in
  let umin := a_min a * 10 ^ a_mult a in let umax := a_max a * 10 ^ a_mult a in
  (r - dev <= umin /\ umax <= r + dev) \/
  dev = 0 \/
  (0 < dev /\ abs_diff umax r <= rounded_dev dev (a_mult a) /\ abs_diff umin r <= rounded_dev dev (a_mult a)
   /\ rounded_dev dev (a_mult a) < dev + 10 ^ a_mult a).
Proof. exact accepted_in_band. Qed.

(* the literal clause is refuted on both classes (same inputs as the real replays in corpus/C24) *)
Theorem c24_rounded_tolerance_refuted :
  let e := mkEnv 1700000000 3600 3600 10 in
  let t := Tok true true 8 4 60 false 1000000 0 0 0 true 0 true 4 1 0 0 1699999999 100001 100001 101002 5 in
  exists a, process e false t = Ok a /\ tok_ref t + tok_dev t < a_max a * 10 ^ a_mult a.
Proof. eexists. split; [vm_compute; reflexivity|vm_compute; reflexivity]. Qed.
Theorem c24_zero_deviation_refuted :
  let e := mkEnv 1700000000 3600 3600 10 in
  let t := Tok true true 2 18 60 false 1 0 0 0 true 0 true 18 1 0 0 1699999999 50000000 50000000 4000000000 5 in
  exists a, process e false t = Ok a /\ tok_dev t = 0 /\ 80 * tok_ref t <= a_max a * 10 ^ a_mult a.
Proof. eexists. split; [vm_compute; reflexivity|split; vm_compute; [reflexivity|discriminate]]. Qed.

(* what the wrapped operation sees: all tokens accepted, exact min / max of the adjusted timestamps,
   spread within the allowed range, result = the operation's result, cleared afterwards *)
Theorem c24_run_inside : forall st0 e ac ff n ts r st l after, 0 <= max_age e ->
  run st0 e ac ff n ts = (r, Some (st, l), after) ->
  o_cleared st0 = true /\ Forall2 (fun t a => process e ac t = Ok a) ts l /\ l <> [] /\
  o_cleared st = false /\ o_len st = Z.of_nat (length l) /\
  (forall a, In a l -> o_min_ts st <= a_ts a <= o_max_ts st /\ o_min_slot st <= a_slot a) /\
  (exists a, In a l /\ a_ts a = o_min_ts st) /\ (exists a, In a l /\ a_ts a = o_max_ts st) /\
  (exists a, In a l /\ a_slot a = o_min_slot st) /\
  0 <= o_max_ts st - o_min_ts st <= max_range e /\
  (forall a b, In a l -> In b l -> Z.abs (a_ts a - a_ts b) <= max_range e) /\
  r = (if ff then Err 7777 else Ok tt) /\ after = cleared_state.
Proof. exact run_inside. Qed.

Theorem c24_operation_runs_only_on_accepted_prices : forall st0 e ac ff n ts r after,
  run st0 e ac ff n ts = (r, None, after) -> exists x, r = Err x /\ x <> 7777.
Proof. exact run_not_inside. Qed.

(* cleared after use on every path; the only early return leaves the oracle untouched *)
Theorem c24_oracle_cleared_both_paths : forall st0 e ac ff n ts,
  let '(r, _, after) := run st0 e ac ff n ts in
  (r = Err 14 /\ after = st0) \/ (r <> Err 14 /\ after = cleared_state).
Proof. exact run_clears. Qed.

Theorem c24_history_cleared : forall cs : list call, fold_left after_call cs cleared_state = cleared_state.
Proof. exact history_cleared. Qed.

Theorem c24_uncleared_start_is_rejected : forall st0 e ac ff n ts,
  o_cleared st0 = false -> Z.of_nat (length ts) <= n ->
  run st0 e ac ff n ts = (Err 15, None, cleared_state).
Proof. exact uncleared_start_is_rejected. Qed.

(* Oracle::validate_time (time.rs) *)
Theorem c24_validate_time_ok : forall st a b s,
  validate_time st a b s = Ok tt <->
  o_min_ts st <= o_max_ts st /\ o_cleared st = false /\
  (forall x, s = Some x -> x <= o_min_slot st) /\
  (forall x, a = Some x -> x <= o_min_ts st) /\
  (forall x, b = Some x -> o_max_ts st <= x).
Proof. exact validate_time_ok. Qed.

(* non-vacuity: a two-token call with an adjusted price *)
Example c24_ex1 :
  run cleared_state (mkEnv 1700000000 3600 10 10) false false 2
    [ Tok true true 8 4 60 true 1000000 5 0 0 true 0 true 4 1 0 0 1699999999 10000 9000 12000 7;
      Tok true true 6 2 60 false 0 0 0 0 true 0 true 2 1 0 0 1699999990 100 99 101 3 ]
  = (Ok tt,
     Some (mkO false 2 1699999990 1699999994 3,
           [mkAcc 8 9900 10100 true 1699999994 7; mkAcc 12 99 101 true 1699999990 3]),
     cleared_state).
Proof. vm_compute. reflexivity. Qed.
