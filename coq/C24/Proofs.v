(* C24 — proofs about the oracle acceptance path. *)
From GV Require Import lib.Base lib.DivLemmas C01.Model C01.Proofs C26.Model C26.Proofs C27.Model C27.Proofs C29.Model C29.Proofs C24.Model.
Open Scope Z_scope.
Ltac Zify.zify_post_hook ::= Z.div_mod_to_equations.


Lemma try_from_price_dec_ok price d td p x :
  0 <= price < 2 ^ 128 -> 0 <= d -> 0 <= td -> 0 <= p ->
  try_from_price price d td p = Ok x -> dec_ok x.
Proof.
  intros H1 H2 H3 H4 H. destruct x as [v m].
  pose proof (try_from_price_floor _ _ _ _ H1 H2 H3 H4 _ _ H) as [Hv _].
  apply try_from_price_ok in H; try assumption. destruct H as ((?&?&?&?) & _ & _ & ->).
  split; cbn [fst snd]; lia.
Qed.

(* input ranges of a (token config, feed account) pair: the Rust field types *)
Definition tok_range (t : tok) : Prop :=
  match t with
  | Tok _ _ td prec heartbeat _ ratio adj _ _ _ _ _ dec_ _ _ lud ts price mn mx slot =>
      0 <= td /\ 0 <= prec /\ 0 <= dec_ /\ 0 <= heartbeat < 2 ^ 32 /\ 0 <= ratio < 2 ^ 32 /\ 0 <= adj < 2 ^ 32 /\
      0 <= lud < 2 ^ 32 /\ - 2 ^ 63 <= ts < 2 ^ 63 /\ 0 <= price < 2 ^ 128 /\ 0 <= mn < 2 ^ 128 /\ 0 <= mx < 2 ^ 128 /\
      0 <= slot < 2 ^ 64
  end.
Definition env_range (e : env) : Prop :=
  - 2 ^ 63 <= now e < 2 ^ 63 /\ 0 <= max_age e < 2 ^ 64 /\ 0 <= max_range e < 2 ^ 64 /\ 0 <= max_future e < 2 ^ 64.

(* Everything the code has established about a token when [process] succeeds. *)
Theorem process_ok e ac t a :
  process e ac t = Ok a ->
  match t with
  | Tok in_map enabled td prec heartbeat allow ratio adj policy expected owner_ok provider feed_ok
        dec_ pflags status lud ts price mn mx slot =>
      (* known, enabled token; account owned by the program; expected provider and feed *)
      in_map = true /\ enabled = true /\ owner_ok = true /\ provider = 0 /\ expected = provider /\ feed_ok = true /\
      (* market openness *)
      a_open a = is_market_open status pflags lud ts (now e) heartbeat policy /\
      (ac = false -> a_open a = true) /\
      (* freshness *)
      (ts < now e -> now e - ts <= heartbeat) /\
      a_ts a = ts - adj /\ - 2 ^ 63 <= ts - adj /\ ts - adj + max_age e < 2 ^ 63 /\
      now e <= ts - adj + max_age e /\ ts <= sat_add_u64 (now e) (max_future e) /\
      a_slot a = slot /\
      (* the price went through conversion and the C29 pipeline *)
      exists pr rf adjusted,
        try_to_price mn mx dec_ td prec = Ok pr /\
        try_from_price price dec_ td prec = Ok rf /\
        pipeline allow (factor_of ratio) pr (Some rf) = Ok (adjusted, (a_mult a, a_min a, a_max a))
  end.
Proof.
  destruct t as [in_map enabled td prec heartbeat allow ratio adj policy expected owner_ok provider feed_ok
                 dec_ pflags status lud ts price mn mx slot].
  unfold process. cbn [tok_in_map tok_enabled tok_ratio tok_adj tok_ts tok_slot].
  destruct in_map; cbn [negb]; [|discriminate]. destruct enabled; cbn [negb]; [|discriminate].
  unfold parse.
  destruct owner_ok; cbn [negb]; [|discriminate].
  destruct (valid_provider provider) eqn:VP; cbn [negb]; [|discriminate].
  destruct (valid_provider expected) eqn:VE; cbn [negb]; [|discriminate].
  destruct (expected =? provider) eqn:EP; cbn [negb]; [|discriminate].
  destruct feed_ok; cbn [negb]; [|discriminate].
  set (op := is_market_open status pflags lud ts (now e) heartbeat policy).
  destruct (negb ac && negb op) eqn:OP; [discriminate|].
  assert (HB : match (if ts <? now e then match chk_s 64 (now e - ts) with
                 | Some d => if heartbeat <? d then Err 10 else Ok tt | None => Err 9 end else Ok tt)
               with Ok _ => (ts < now e -> now e - ts <= heartbeat) | Err _ => True end).
  { destruct (ts <? now e) eqn:TN; [|intros; lia].
    destruct (chk_s 64 (now e - ts)) as [d|] eqn:CS; [|exact I].
    apply chk_s_some in CS. destruct CS as [_ ->]. destruct (heartbeat <? now e - ts) eqn:HH; [exact I|lia]. }
  destruct (if ts <? now e then _ else _) as [[]|]; [|discriminate].
  destruct (try_to_price mn mx dec_ td prec) as [pr|] eqn:TP; [|discriminate].
  destruct (try_from_price price dec_ td prec) as [rf|] eqn:TR; [|discriminate].
  destruct (provider =? 0) eqn:P0; cbn [negb]; [|discriminate].
  set (adjr := if allow then match factor_of ratio with Some f => adjust f pr (Some rf) | None => Some None end else Some None).
  destruct adjr as [adj_|] eqn:EA; [|discriminate].
  cbn [rbind]. unfold validate_one.
  destruct (chk_s 64 (ts - adj)) as [ts'|] eqn:C1; cbn [of_opt rbind]; [|discriminate].
  apply chk_s_some in C1. destruct C1 as [C1 ->].
  destruct (chk_s 64 (ts - adj + max_age e)) as [ex|] eqn:C2; cbn [of_opt rbind]; [|discriminate].
  apply chk_s_some in C2. destruct C2 as [C2 ->].
  destruct (ts - adj + max_age e <? now e) eqn:AGE; [discriminate|].
  destruct (sat_add_u64 (now e) (max_future e) <? ts) eqn:FUT; [discriminate|].
  set (p' := match adj_ with Some q => q | None => pr end).
  destruct (match factor_of ratio with Some f => validate_deviation f p' (Some rf) | None => Ok tt end) as [[]|] eqn:VD;
    cbn [rbind]; [|discriminate].
  destruct (from_price p') as [[[m x] y]|] eqn:FP; cbn [rbind]; [|discriminate].
  intros X; injection X as <-. cbn [a_open a_ts a_slot a_mult a_min a_max].
  change (2 ^ (64 - 1)) with (2 ^ 63) in *.
  repeat (split; [first [reflexivity | lia | idtac]|]).
  - (* ac = false -> open *) intros ->. cbn [negb andb] in OP. destruct op; [reflexivity|discriminate].
  - exists pr, rf, (is_some adj_). split; [reflexivity|]. split; [reflexivity|].
    unfold pipeline. subst adjr. destruct (factor_of ratio) as [f|] eqn:FO.
    + rewrite EA. fold p'. rewrite VD. cbn [rbind]. rewrite FP. reflexivity.
    + assert (adj_ = None) by (destruct allow; injection EA as <-; reflexivity). subst adj_.
      subst p'. cbn [is_some]. rewrite FP. reflexivity.
Qed.


Lemma factor_of_range ratio f : 0 <= ratio < 2 ^ 32 -> factor_of ratio = Some f -> 0 <= f < 2 ^ 128 /\ f = ratio * 10 ^ 12 /\ ratio <> 0.
Proof.
  intros H. unfold factor_of. destruct (ratio =? 0) eqn:E; [discriminate|]. intros X; injection X as <-.
  rewrite two128, two32 in *. change (10 ^ 12) with 1000000000000. lia.
Qed.

(* the reference unit price and the configured deviation of a token, from the feed account and config *)
Definition tok_ref (t : tok) : Z :=
  match t with
  | Tok _ _ td prec _ _ _ _ _ _ _ _ _ dec_ _ _ _ _ price _ _ _ => price * 10 ^ prec / 10 ^ dec_ * 10 ^ (20 - td - prec)
  end.
Definition tok_dev (t : tok) : Z := tok_ref t * (tok_ratio t * 10 ^ 12) / 10 ^ 20.
Definition tok_allow (t : tok) := match t with Tok _ _ _ _ _ allow _ _ _ _ _ _ _ _ _ _ _ _ _ _ _ _ => allow end.

Theorem accepted_wellformed e ac t a : tok_range t -> process e ac t = Ok a ->
  0 < a_min a <= a_max a /\ a_max a < 2 ^ 32 /\ 0 <= a_mult a <= 20.
Proof.
  intros R H. apply process_ok in H.
  destruct t as [in_map enabled td prec heartbeat allow ratio adj policy expected owner_ok provider feed_ok
                 dec_ pflags status lud ts price mn mx slot].
  destruct R as (R1 & R2 & R3 & R4 & R5 & R6 & R7 & R8 & R9 & R10 & R11 & R12).
  destruct H as (_ & _ & _ & _ & _ & _ & _ & _ & _ & _ & _ & _ & _ & _ & _ & pr & rf & adjf & TP & TR & PL).
  destruct pr as [pa pb]. apply try_to_price_ok in TP; try lia. destruct TP as [TA TB].
  pose proof (try_from_price_dec_ok _ _ _ _ _ R10 R3 R1 R2 TA).
  pose proof (try_from_price_dec_ok _ _ _ _ _ R11 R3 R1 R2 TB).
  pose proof (try_from_price_dec_ok _ _ _ _ _ R9 R3 R1 R2 TR).
  eapply (pipeline_wellformed allow (factor_of ratio) (pa, pb) (Some rf)); try eassumption.
  - split; assumption.
  - intros f Hf. apply (factor_of_range ratio f R5) in Hf. tauto.
Qed.

(* accepted and a deviation factor is configured: exact band, or one of the two tolerated situations *)
Theorem accepted_in_band e ac t a : tok_range t -> process e ac t = Ok a -> tok_ratio t <> 0 ->
  let r := tok_ref t in let dev := tok_dev t in
  let umin := a_min a * 10 ^ a_mult a in let umax := a_max a * 10 ^ a_mult a in
  (r - dev <= umin /\ umax <= r + dev) \/
  dev = 0 \/
  (0 < dev /\ abs_diff umax r <= rounded_dev dev (a_mult a) /\ abs_diff umin r <= rounded_dev dev (a_mult a)
   /\ rounded_dev dev (a_mult a) < dev + 10 ^ a_mult a).
Proof.
  intros R H NZ. apply process_ok in H.
  destruct t as [in_map enabled td prec heartbeat allow ratio adj policy expected owner_ok provider feed_ok
                 dec_ pflags status lud ts price mn mx slot].
  destruct R as (R1 & R2 & R3 & R4 & R5 & R6 & R7 & R8 & R9 & R10 & R11 & R12).
  destruct H as (_ & _ & _ & _ & _ & _ & _ & _ & _ & _ & _ & _ & _ & _ & _ & pr & rf & adjf & TP & TR & PL).
  cbn [tok_ratio] in NZ. cbv zeta. unfold tok_dev. cbn [tok_ref tok_ratio].
  destruct pr as [pa pb]. apply try_to_price_ok in TP; try lia. destruct TP as [TA TB].
  pose proof (try_from_price_dec_ok _ _ _ _ _ R10 R3 R1 R2 TA) as DA.
  pose proof (try_from_price_dec_ok _ _ _ _ _ R11 R3 R1 R2 TB) as DB.
  pose proof (try_from_price_dec_ok _ _ _ _ _ R9 R3 R1 R2 TR) as DR.
  destruct rf as [rv rm]. apply try_from_price_ok in TR; try lia. destruct TR as (_ & -> & _ & ->).
  destruct (factor_of ratio) as [f|] eqn:FO; [|unfold factor_of in FO; destruct (ratio =? 0) eqn:E; [lia|discriminate]].
  destruct (factor_of_range ratio f R5 FO) as (Hf & -> & _).
  assert (POK : price_ok (pa, pb)) by (split; assumption).
  destruct adjf.
  - (* adjusted *)
    destruct allow.
    + pose proof (pipeline_adjusted_in_band _ _ (Some _) _ _ _ POK DR Hf PL) as HB. cbv zeta in HB.
      unfold ref_unit, dev_of in HB. cbn [fst snd ref_unit] in HB. left. lia.
    + exfalso. unfold pipeline in PL. destruct (validate_deviation _ _ _); cbn [rbind] in PL; [|discriminate].
      destruct (from_price _) as [[[? ?] ?]|]; cbn [rbind] in PL; [|discriminate]. cbn [is_some] in PL. discriminate.
  - pose proof (pipeline_unadjusted _ _ _ (Some _) _ _ _ POK DR Hf PL) as HU. cbv zeta in HU.
    destruct HU as (_ & _ & Hab & [HZ|(H1 & H2 & H3)]).
    + right. left. unfold dev_of, ref_unit in HZ. cbn [fst snd] in HZ. exact HZ.
    + unfold dev_of, ref_unit in *. cbn [fst snd] in *.
      set (r := price * 10 ^ prec / 10 ^ dec_ * 10 ^ (20 - td - prec)) in *.
      set (dev := r * (ratio * 10 ^ 12) / 10 ^ 20) in *.
      destruct (Z_le_gt_dec dev 0) as [Hd|Hd].
      * assert (0 <= dev). { subst dev. apply div_nonneg; [|reflexivity].
          assert (0 <= r). { subst r. destruct DR as [? ?]. cbn [fst snd] in *. pose proof (pow10_pos' (20 - td - prec) ltac:(lia)). nia. }
          change (10 ^ 12) with 1000000000000. nia. }
        right. left. lia.
      * right. right. repeat split; try lia.
Qed.

(* freshness, on unbounded integers *)
Theorem accepted_fresh e ac t a : tok_range t -> env_range e -> process e ac t = Ok a ->
  a_ts a = tok_ts t - tok_adj t /\
  now e <= tok_ts t - tok_adj t + max_age e /\         (* not older than the max age after the adjustment *)
  tok_ts t <= now e + max_future e /\                  (* not too far in the future *)
  match t with Tok _ _ _ _ heartbeat _ _ _ _ _ _ _ _ _ _ _ _ ts _ _ _ _ => now e - ts <= heartbeat end.
Proof.
  intros R E H. apply process_ok in H.
  destruct t as [in_map enabled td prec heartbeat allow ratio adj policy expected owner_ok provider feed_ok
                 dec_ pflags status lud ts price mn mx slot].
  destruct R as (R1 & R2 & R3 & R4 & R5 & R6 & R7 & R8 & R9 & R10 & R11 & R12).
  destruct E as (E1 & E2 & E3 & E4).
  destruct H as (_ & _ & _ & _ & _ & _ & _ & _ & HB & TS & T1 & T2 & AGE & FUT & _).
  cbn [tok_ts tok_adj]. unfold sat_add_u64, i64_max in FUT. repeat split; try lia.
Qed.

Theorem accepted_open e ac t a : process e ac t = Ok a ->
  match t with Tok _ _ _ _ heartbeat _ _ _ policy _ _ _ _ _ pflags status lud ts _ _ _ _ =>
    a_open a = is_market_open status pflags lud ts (now e) heartbeat policy end /\ (ac = false -> a_open a = true).
Proof.
  intros H. apply process_ok in H. destruct t. tauto.
Qed.

Theorem accepted_expected_source e ac t a : process e ac t = Ok a ->
  match t with Tok in_map enabled _ _ _ _ _ _ _ expected owner_ok provider feed_ok _ _ _ _ _ _ _ _ _ =>
    in_map = true /\ enabled = true /\ owner_ok = true /\ provider = expected /\ feed_ok = true end.
Proof.
  intros H. apply process_ok in H. destruct t. repeat split; try tauto. destruct H as (_&_&_&_&H&_). lia.
Qed.


(* ---------- process_all ---------- *)
Lemma process_all_ok e ac ts l : process_all e ac ts = Ok l -> Forall2 (fun t a => process e ac t = Ok a) ts l.
Proof.
  revert l. induction ts as [|t r IH]; cbn [process_all]; intros l H.
  - injection H as <-. constructor.
  - destruct (process e ac t) as [a|] eqn:P; cbn [rbind] in H; [|discriminate].
    destruct (process_all e ac r) as [l'|] eqn:PA; cbn [rbind] in H; [|discriminate].
    injection H as <-. constructor; [exact P|]. apply IH. reflexivity.
Qed.

(* ---------- merge_range over the accepted tokens ---------- *)
Definition merge_step (acc : Z * Z * option Z) (a : accepted) : Z * Z * option Z :=
  let '(mn, mx, sl) := acc in
  (Z.min mn (a_ts a), Z.max mx (a_ts a),
   match sl with Some s => Some (Z.min s (a_slot a)) | None => Some (a_slot a) end).

Lemma range_of_fold l : range_of l = fold_left merge_step l (i64_max, i64_min, None).
Proof. reflexivity. Qed.

Lemma fold_merge_spec l : forall mn0 mx0 sl0 mn mx sl,
  fold_left merge_step l (mn0, mx0, sl0) = (mn, mx, sl) ->
  mn <= mn0 /\ mx0 <= mx /\
  (forall a, In a l -> mn <= a_ts a <= mx) /\
  (* the bounds are attained (by an accepted token or by the start value) *)
  (mn = mn0 \/ exists a, In a l /\ a_ts a = mn) /\ (mx = mx0 \/ exists a, In a l /\ a_ts a = mx) /\
  (* slot: minimum over the start value and the tokens *)
  match sl with
  | None => sl0 = None /\ l = []
  | Some s => (forall a, In a l -> s <= a_slot a) /\ (forall s0, sl0 = Some s0 -> s <= s0) /\
              (sl0 = Some s \/ exists a, In a l /\ a_slot a = s)
  end.
Proof.
  induction l as [|a r IH]; cbn [fold_left]; intros mn0 mx0 sl0 mn mx sl H.
  - injection H as <- <- <-. split; [lia|]. split; [lia|]. split; [intros ? []|].
    split; [left; reflexivity|]. split; [left; reflexivity|].
    destruct sl0; [|split; reflexivity].
    split; [intros ? []|]. split; [intros s0 X; injection X as <-; lia|left; reflexivity].
  - unfold merge_step at 2 in H. apply IH in H. destruct H as (H1 & H2 & H3 & H4 & H5 & H6).
    split; [lia|]. split; [lia|]. split.
    { intros b [<-|Hb]; [lia|apply H3; exact Hb]. }
    split.
    { destruct H4 as [->|(b & Hb & <-)].
      - destruct (Z_le_gt_dec mn0 (a_ts a)); [left; lia|right; exists a; split; [left; reflexivity|lia]].
      - right. exists b. split; [right; exact Hb|reflexivity]. }
    split.
    { destruct H5 as [->|(b & Hb & <-)].
      - destruct (Z_le_gt_dec (a_ts a) mx0); [left; lia|right; exists a; split; [left; reflexivity|lia]].
      - right. exists b. split; [right; exact Hb|reflexivity]. }
    destruct sl as [s|].
    + destruct H6 as (S1 & S2 & S3). split; [|split].
      * intros b [<-|Hb]; [|apply S1; exact Hb].
        destruct sl0 as [s0|]; [specialize (S2 _ eq_refl); lia|specialize (S2 _ eq_refl); lia].
      * intros s0 ->. specialize (S2 _ eq_refl). lia.
      * destruct S3 as [S3|(b & Hb & <-)]; [|right; exists b; split; [right; exact Hb|reflexivity]].
        destruct sl0 as [s0|]; injection S3 as <-.
        -- destruct (Z_le_gt_dec s0 (a_slot a)); [left; f_equal; lia|right; exists a; split; [left; reflexivity|lia]].
        -- right. exists a. split; [left; reflexivity|reflexivity].
    + destruct H6 as [S _]. destruct sl0; discriminate.
Qed.

(* ---------- with_prices_opts ---------- *)

Lemma validate_deviation_errs f p rf x : validate_deviation f p rf = Err x -> x = 1 \/ x = 2 \/ x = 9.
Proof.
  destruct p as [pa pb]. unfold validate_deviation.
  destruct (unit_of pa); [|intros X; injection X as <-; tauto].
  destruct (unit_of pb); [|intros X; injection X as <-; tauto].
  destruct rf as [r|].
  - destruct (unit_of r); [|intros X; injection X as <-; tauto].
    destruct (apply_factor _ _ _ _); [|intros X; injection X as <-; tauto].
    destruct (0 <? _); [|discriminate].
    destruct (with_unit _ _ _); [|intros X; injection X as <-; tauto].
    destruct (unit_of _); [|intros X; injection X as <-; tauto].
    destruct (_ <? _); [intros X; injection X as <-; tauto|].
    destruct (_ <? _); [intros X; injection X as <-; tauto|discriminate].
  - destruct (checked_mid _ _); cbn [of_opt]; [|intros X; injection X as <-; tauto].
    destruct (apply_factor _ _ _ _); [|intros X; injection X as <-; tauto].
    destruct (0 <? _); [|discriminate].
    destruct (with_unit _ _ _); [|intros X; injection X as <-; tauto].
    destruct (unit_of _); [|intros X; injection X as <-; tauto].
    destruct (_ <? _); [intros X; injection X as <-; tauto|].
    destruct (_ <? _); [intros X; injection X as <-; tauto|discriminate].
Qed.

Lemma parse_errs e ac t x : parse e ac t = Err x -> x <> 14.
Proof.
  destruct t as [in_map enabled td prec heartbeat allow ratio adj policy expected owner_ok provider feed_ok
                 dec_ pflags status lud ts price mn mx slot]. unfold parse.
  destruct (negb owner_ok); [intros X; injection X as <-; lia|].
  destruct (negb (valid_provider provider)); [intros X; injection X as <-; lia|].
  destruct (negb (valid_provider expected)); [intros X; injection X as <-; lia|].
  destruct (negb (expected =? provider)); [intros X; injection X as <-; lia|].
  destruct (negb feed_ok); [intros X; injection X as <-; lia|].
  destruct (negb ac && negb _); [intros X; injection X as <-; lia|].
  destruct (ts <? now e).
  - destruct (chk_s 64 (now e - ts)) as [d|]; [|intros X; injection X as <-; lia].
    destruct (heartbeat <? d); [intros X; injection X as <-; lia|].
    destruct (try_to_price _ _ _ _ _); [|intros X; injection X as <-; lia].
    destruct (try_from_price _ _ _ _); [|intros X; injection X as <-; lia].
    destruct (negb (provider =? 0)); [intros X; injection X as <-; lia|].
    destruct (if allow then _ else _); [discriminate|intros X; injection X as <-; lia].
  - destruct (try_to_price _ _ _ _ _); [|intros X; injection X as <-; lia].
    destruct (try_from_price _ _ _ _); [|intros X; injection X as <-; lia].
    destruct (negb (provider =? 0)); [intros X; injection X as <-; lia|].
    destruct (if allow then _ else _); [discriminate|intros X; injection X as <-; lia].
Qed.

Lemma process_not_14 e ac t : process e ac t <> Err 14.
Proof.
  intros P. unfold process in P. destruct (negb (tok_in_map t)); [discriminate|]. destruct (negb (tok_enabled t)); [discriminate|].
  destruct (parse e ac t) as [[[p rf] op]|z] eqn:PR; cbn [rbind] in P.
  - destruct (validate_one _ _ _ _ _ _) as [?|z] eqn:V; cbn [rbind] in P.
    + destruct (from_price p) as [[[? ?] ?]|z] eqn:FP; cbn [rbind] in P; [discriminate|].
      injection P as ->. destruct p as [[? ?] [? ?]]. cbn in FP.
      repeat match type of FP with context [if ?c then _ else _] => destruct c end; discriminate.
    + injection P as ->. unfold validate_one in V.
      destruct (chk_s 64 _); cbn [of_opt rbind] in V; [|discriminate].
      destruct (chk_s 64 _); cbn [of_opt rbind] in V; [|discriminate].
      destruct (_ <? now e); [discriminate|]. destruct (_ <? tok_ts t); [discriminate|].
      destruct (factor_of (tok_ratio t)) as [f|]; [|discriminate].
      destruct (validate_deviation f p rf) as [[]|w] eqn:VD; cbn [rbind] in V; [discriminate|].
      injection V as ->. apply validate_deviation_errs in VD. lia.
  - injection P as ->. apply parse_errs in PR. lia.
Qed.

Lemma process_all_not_14 e ac ts : process_all e ac ts <> Err 14.
Proof.
  induction ts as [|t r IH]; cbn [process_all]; [discriminate|].
  destruct (process e ac t) as [a|y] eqn:P; cbn [rbind].
  - destruct (process_all e ac r) as [l|z]; cbn [rbind]; [discriminate|]. intros X. apply IH. exact X.
  - intros X. injection X as ->. exact (process_not_14 e ac t P).
Qed.

(* 1. cleared afterwards on every path, except the early "not enough feed accounts" return,
      which leaves the oracle untouched *)
Theorem run_clears st0 e ac ff n ts :
  let '(r, _, after) := run st0 e ac ff n ts in
  (r = Err 14 /\ after = st0) \/ (r <> Err 14 /\ after = cleared_state).
Proof.
  unfold run. destruct (n <? Z.of_nat (length ts)); [left; split; reflexivity|].
  destruct (negb (o_cleared st0) || negb (o_len st0 =? 0)); [right; split; [discriminate|reflexivity]|].
  destruct (process_all e ac ts) as [l|x] eqn:PA; cbn [rbind].
  - destruct (finish e (range_of l)) as [fin|y] eqn:F; cbn [rbind].
    + destruct ff; right; split; try discriminate; reflexivity.
    + right. split; [|reflexivity]. intros X; injection X as ->.
      unfold finish in F. destruct (range_of l) as [[mn mx] sl].
      destruct (chk_s 64 (mx - mn)) as [d|]; cbn [of_opt rbind] in F; [|discriminate].
      destruct (d <? 0); [discriminate|]. destruct (max_range e <? d); discriminate.
  - right. split; [|reflexivity]. intros X; injection X as ->. exact (process_all_not_14 e ac ts PA).
Qed.


(* 2. what the wrapped operation sees *)
Lemma accepted_ts_i64 e ac ts l : 0 <= max_age e ->
  Forall2 (fun t a => process e ac t = Ok a) ts l -> forall a, In a l -> - 2 ^ 63 <= a_ts a < 2 ^ 63.
Proof.
  intros HM F. induction F as [|t a ts' l' P _ IH]; [intros ? []|].
  intros b [<-|Hb]; [|apply IH; exact Hb].
  apply process_ok in P. destruct t. destruct P as (_&_&_&_&_&_&_&_&_& TS & T1 & T2 & _). lia.
Qed.

Theorem run_inside st0 e ac ff n ts r st l after : 0 <= max_age e ->
  run st0 e ac ff n ts = (r, Some (st, l), after) ->
  (* the oracle was cleared at entry; every token went through [process]; at least one token *)
  o_cleared st0 = true /\ Forall2 (fun t a => process e ac t = Ok a) ts l /\ l <> [] /\
  (* recorded state: not cleared, one price per token, exact min / max of the adjusted timestamps, min slot *)
  o_cleared st = false /\ o_len st = Z.of_nat (length l) /\
  (forall a, In a l -> o_min_ts st <= a_ts a <= o_max_ts st /\ o_min_slot st <= a_slot a) /\
  (exists a, In a l /\ a_ts a = o_min_ts st) /\ (exists a, In a l /\ a_ts a = o_max_ts st) /\
  (exists a, In a l /\ a_slot a = o_min_slot st) /\
  (* spread of timestamps within the allowed range *)
  0 <= o_max_ts st - o_min_ts st <= max_range e /\
  (forall a b, In a l -> In b l -> Z.abs (a_ts a - a_ts b) <= max_range e) /\
  (* result is the wrapped operation's, and the oracle is cleared afterwards *)
  r = (if ff then Err 7777 else Ok tt) /\ after = cleared_state.
Proof.
  intros HM. unfold run. destruct (n <? Z.of_nat (length ts)); [discriminate|].
  destruct (negb (o_cleared st0) || negb (o_len st0 =? 0)) eqn:C0; [discriminate|].
  destruct (process_all e ac ts) as [l'|x] eqn:PA; cbn [rbind]; [|discriminate].
  destruct (finish e (range_of l')) as [fin|y] eqn:F; cbn [rbind]; [|discriminate].
  intros X; injection X as <- <- <- <-.
  pose proof (accepted_ts_i64 e ac ts l' HM (process_all_ok _ _ _ _ PA)) as I64.
  apply orb_false_iff in C0. destruct C0 as [C0 _]. apply negb_false_iff in C0.
  split; [exact C0|]. split; [apply process_all_ok; exact PA|].
  unfold finish in F. destruct (range_of l') as [[mn mx] sl] eqn:RO.
  destruct (chk_s 64 (mx - mn)) as [d|] eqn:CS; cbn [of_opt rbind] in F; [|discriminate].
  apply chk_s_some in CS. destruct CS as [CS ->].
  destruct (mx - mn <? 0) eqn:NEG; [discriminate|]. destruct (max_range e <? mx - mn) eqn:RG; [discriminate|].
  injection F as <-.
  rewrite range_of_fold in RO. apply fold_merge_spec in RO.
  destruct RO as (H1 & H2 & H3 & H4 & H5 & H6).
  assert (NE : l' <> []).
  { intros ->. destruct sl; [|cbn in *].
    - destruct H6 as (_ & _ & [S|(a & [] & _)]). discriminate.
    - destruct H4 as [->|(a & [] & _)]. destruct H5 as [->|(a & [] & _)]. unfold i64_max, i64_min in *. lia. }
  split; [exact NE|].
  destruct sl as [s|].
  - destruct H6 as (S1 & _ & S3). cbn [o_cleared o_len o_min_ts o_max_ts o_min_slot].
    split; [reflexivity|]. split; [reflexivity|].
    split; [intros a Ha; split; [apply H3; exact Ha|apply S1; exact Ha]|].
    assert (M1 : exists a, In a l' /\ a_ts a = mn).
    { destruct H4 as [->|?]; [|assumption]. destruct l' as [|a0 r0]; [contradiction|].
      exists a0. split; [left; reflexivity|]. specialize (H3 a0 (or_introl eq_refl)).
      specialize (I64 a0 (or_introl eq_refl)). unfold i64_max in *. lia. }
    assert (M2 : exists a, In a l' /\ a_ts a = mx).
    { destruct H5 as [->|?]; [|assumption]. destruct M1 as (a & Ha & Ea). specialize (H3 a Ha). specialize (I64 a Ha). unfold i64_min in *. exists a. split; [exact Ha|lia]. }
    split; [exact M1|]. split; [exact M2|].
    split; [destruct S3 as [S3|S3]; [discriminate|exact S3]|].
    split; [lia|]. split; [|split; reflexivity].
    intros a b Ha Hb. pose proof (H3 a Ha). pose proof (H3 b Hb). lia.
  - destruct H6 as [_ ->]. contradiction.
Qed.

(* 3. the wrapped operation does not run unless every token was accepted and the range is fine *)
Theorem run_not_inside st0 e ac ff n ts r after :
  run st0 e ac ff n ts = (r, None, after) -> exists x, r = Err x /\ x <> 7777.
Proof.
  unfold run. destruct (n <? Z.of_nat (length ts)); [intros X; injection X as <- _; exists 14; split; [reflexivity|lia]|].
  destruct (negb (o_cleared st0) || negb (o_len st0 =? 0)); [intros X; injection X as <- _; exists 15; split; [reflexivity|lia]|].
  destruct (process_all e ac ts) as [l'|x] eqn:PA; cbn [rbind].
  - destruct (finish e (range_of l')) as [fin|y] eqn:F; cbn [rbind]; [discriminate|].
    intros X; injection X as <- _. exists y. split; [reflexivity|].
    unfold finish in F. destruct (range_of l') as [[mn mx] sl].
    destruct (chk_s 64 (mx - mn)) as [d|]; cbn [of_opt rbind] in F; [|injection F as <-; lia].
    destruct (d <? 0); [injection F as <-; lia|]. destruct (max_range e <? d); [injection F as <-; lia|discriminate].
  - intros X; injection X as <- _. exists x. split; [reflexivity|].
    clear -PA. revert x PA. induction ts as [|t r IH]; cbn [process_all]; [discriminate|]. intros x.
    destruct (process e ac t) as [a|y] eqn:P; cbn [rbind].
    + destruct (process_all e ac r) as [l|z]; cbn [rbind]; [discriminate|]. intros X; injection X as <-. apply (IH z). reflexivity.
    + intros X; injection X as <-.
      unfold process in P. destruct (negb (tok_in_map t)); [injection P as <-; lia|]. destruct (negb (tok_enabled t)); [injection P as <-; lia|].
      destruct (parse e ac t) as [[[p rf] op]|z] eqn:PR; cbn [rbind] in P.
      * destruct (validate_one _ _ _ _ _ _) as [?|z] eqn:V; cbn [rbind] in P.
        -- destruct (from_price p) as [[[? ?] ?]|z] eqn:FP; cbn [rbind] in P; [discriminate|].
           injection P as <-. destruct p as [[? ?] [? ?]]. cbn in FP.
           repeat match type of FP with context [if ?c then _ else _] => destruct c end; try discriminate; injection FP as <-; lia.
        -- injection P as <-. unfold validate_one in V.
           destruct (chk_s 64 _); cbn [of_opt rbind] in V; [|injection V as <-; lia].
           destruct (chk_s 64 _); cbn [of_opt rbind] in V; [|injection V as <-; lia].
           destruct (_ <? now e); [injection V as <-; lia|]. destruct (_ <? tok_ts t); [injection V as <-; lia|].
           destruct (factor_of (tok_ratio t)) as [f|]; [|discriminate].
           destruct (validate_deviation f p rf) as [[]|w] eqn:VD; cbn [rbind] in V; [discriminate|].
           injection V as <-. apply validate_deviation_errs in VD. lia.
      * injection P as <-. clear -PR. destruct t as [in_map enabled td prec heartbeat allow ratio adj policy expected owner_ok provider feed_ok
                 dec_ pflags status lud ts price mn mx slot]. unfold parse in PR. revert PR.
        destruct (negb owner_ok); [intros X; injection X as <-; lia|].
        destruct (negb (valid_provider provider)); [intros X; injection X as <-; lia|].
        destruct (negb (valid_provider expected)); [intros X; injection X as <-; lia|].
        destruct (negb (expected =? provider)); [intros X; injection X as <-; lia|].
        destruct (negb feed_ok); [intros X; injection X as <-; lia|].
        destruct (negb ac && negb _); [intros X; injection X as <-; lia|].
        destruct (ts <? now e).
        -- destruct (chk_s 64 (now e - ts)) as [d|]; [|intros X; injection X as <-; lia].
           destruct (heartbeat <? d); [intros X; injection X as <-; lia|].
           destruct (try_to_price _ _ _ _ _); [|intros X; injection X as <-; lia].
           destruct (try_from_price _ _ _ _); [|intros X; injection X as <-; lia].
           destruct (negb (provider =? 0)); [intros X; injection X as <-; lia|].
           destruct (if allow then _ else _); [discriminate|intros X; injection X as <-; lia].
        -- destruct (try_to_price _ _ _ _ _); [|intros X; injection X as <-; lia].
           destruct (try_from_price _ _ _ _); [|intros X; injection X as <-; lia].
           destruct (negb (provider =? 0)); [intros X; injection X as <-; lia|].
           destruct (if allow then _ else _); [discriminate|intros X; injection X as <-; lia].
Qed.

(* 4. histories: starting from a cleared oracle, after ANY sequence of with_prices calls (accepted,
   rejected, wrapped operation failing, too few accounts) the oracle is cleared *)
Record call := mkCall { c_env : env; c_ac : bool; c_ff : bool; c_n : Z; c_toks : list tok }.
Definition after_call (st : ostate) (c : call) : ostate :=
  snd (run st (c_env c) (c_ac c) (c_ff c) (c_n c) (c_toks c)).

Theorem history_cleared (cs : list call) : fold_left after_call cs cleared_state = cleared_state.
Proof.
  induction cs as [|c r IH]; cbn [fold_left]; [reflexivity|].
  replace (after_call cleared_state c) with cleared_state; [exact IH|].
  unfold after_call. pose proof (run_clears cleared_state (c_env c) (c_ac c) (c_ff c) (c_n c) (c_toks c)) as H.
  destruct (run _ _ _ _ _ _) as [[r0 i0] a0]. cbn [snd]. destruct H as [[_ ->]|[_ ->]]; reflexivity.
Qed.

(* even an oracle that was left uncleared is cleared by the next call that gets past the account-count check *)
Theorem uncleared_start_is_rejected st0 e ac ff n ts :
  o_cleared st0 = false -> Z.of_nat (length ts) <= n ->
  run st0 e ac ff n ts = (Err 15, None, cleared_state).
Proof.
  intros H Hn. unfold run. replace (n <? Z.of_nat (length ts)) with false by lia. rewrite H. reflexivity.
Qed.

(* 5. Oracle::validate_time *)
Theorem validate_time_ok st a b s :
  validate_time st a b s = Ok tt <->
  o_min_ts st <= o_max_ts st /\ o_cleared st = false /\
  (forall x, s = Some x -> x <= o_min_slot st) /\
  (forall x, a = Some x -> x <= o_min_ts st) /\
  (forall x, b = Some x -> o_max_ts st <= x).
Proof.
  unfold validate_time. destruct (o_max_ts st <? o_min_ts st) eqn:E1; [split; [discriminate|lia]|].
  destruct (o_cleared st); [split; [discriminate|intros (_ & X & _); discriminate]|].
  destruct s as [s|].
  - destruct (o_min_slot st <? s) eqn:E2.
    + split; [discriminate|]. intros (_ & _ & H & _). specialize (H _ eq_refl). lia.
    + destruct a as [a|].
      * destruct (o_min_ts st <? a) eqn:E3.
        -- split; [discriminate|]. intros (_ & _ & _ & H & _). specialize (H _ eq_refl). lia.
        -- destruct b as [b|].
           ++ destruct (b <? o_max_ts st) eqn:E4.
              ** split; [discriminate|]. intros (_ & _ & _ & _ & H). specialize (H _ eq_refl). lia.
              ** split; [intros _|reflexivity]. repeat split; try lia; intros x X; injection X as <-; lia.
           ++ split; [intros _|reflexivity]. repeat split; try lia; intros x X; try discriminate; injection X as <-; lia.
      * destruct b as [b|].
        -- destruct (b <? o_max_ts st) eqn:E4.
           ++ split; [discriminate|]. intros (_ & _ & _ & _ & H). specialize (H _ eq_refl). lia.
           ++ split; [intros _|reflexivity]. repeat split; try lia; intros x X; try discriminate; injection X as <-; lia.
        -- split; [intros _|reflexivity]. repeat split; try lia; intros x X; try discriminate; injection X as <-; lia.
  - destruct a as [a|].
    + destruct (o_min_ts st <? a) eqn:E3.
      * split; [discriminate|]. intros (_ & _ & _ & H & _). specialize (H _ eq_refl). lia.
      * destruct b as [b|].
        -- destruct (b <? o_max_ts st) eqn:E4.
           ++ split; [discriminate|]. intros (_ & _ & _ & _ & H). specialize (H _ eq_refl). lia.
           ++ split; [intros _|reflexivity]. repeat split; try lia; intros x X; try discriminate; injection X as <-; lia.
        -- split; [intros _|reflexivity]. repeat split; try lia; intros x X; try discriminate; injection X as <-; lia.
    + destruct b as [b|].
      * destruct (b <? o_max_ts st) eqn:E4.
        -- split; [discriminate|]. intros (_ & _ & _ & _ & H). specialize (H _ eq_refl). lia.
        -- split; [intros _|reflexivity]. repeat split; try lia; intros x X; try discriminate; injection X as <-; lia.
      * split; [intros _|reflexivity]. repeat split; try lia; intros x X; discriminate.
Qed.

