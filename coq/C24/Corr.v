(* C24 — correspondence and oracle predicates for harness/src/bin/c24.rs. *)
From GV Require Import lib.Base.
From GV Require Export C24.Model.
From GV Require C27.Corr.
Open Scope Z_scope.

Inductive case :=
(* one call of the real Oracle::with_prices_opts on custom feed accounts:
   result (Ok tt / Err code), what the wrapped operation saw (oracle state, and per token the result of
   get_primary_price(token, true) = Ok (min unit price, max unit price) / Err code), state afterwards *)
| Run (e : env) (allow_closed f_fails : bool) (n_given : Z) (start_cleared : bool) (ts : list tok)
      (r : res unit) (inside : option (ostate * list (res (Z * Z)))) (after : ostate)
(* Oracle::validate_time on an oracle in state st against a target with the given Options *)
| VTime (st : ostate) (after before after_slot : option Z) (r : res unit).

Definition ostate_eqb (a b : ostate) : bool :=
  Bool.eqb (o_cleared a) (o_cleared b) && (o_len a =? o_len b) && (o_min_ts a =? o_min_ts b)
  && (o_max_ts a =? o_max_ts b) && (o_min_slot a =? o_min_slot b).
Definition runit_eqb (a b : res unit) : bool :=
  match a, b with Ok _, Ok _ => true | Err x, Err y => x =? y | _, _ => false end.
Definition rpair_eqb (a b : res (Z * Z)) : bool :=
  match a, b with
  | Ok (x, y), Ok (x', y') => (x =? x') && (y =? y')
  | Err x, Err y => x =? y
  | _, _ => false
  end.
Fixpoint list_eqb {A} (eq : A -> A -> bool) (a b : list A) : bool :=
  match a, b with
  | [], [] => true
  | x :: r, y :: s => eq x y && list_eqb eq r s
  | _, _ => false
  end.

Definition corr_b (c : case) : bool :=
  match c with
  | Run e ac ff n sc ts r inside after =>
      let '(r', inside', after') := run (if sc then cleared_state else zeroed_state) e ac ff n ts in
      runit_eqb r' r && ostate_eqb after' after &&
      match inside', inside with
      | None, None => true
      | Some (st', l), Some (st, prices) =>
          ostate_eqb st' st && list_eqb rpair_eqb (map get_primary l) prices
      | _, _ => false
      end
  | VTime st a b s r => runit_eqb (validate_time st a b s) r
  end.

(* ------------------------------------------------------------------ *)
(* The property on the outputs.  Everything below is computed from the case's inputs
   (token configs, feed accounts, clock, store limits) on unbounded integers. *)
Definition is_cleared_state (s : ostate) : bool :=
  o_cleared s && (o_len s =? 0) && (o_min_ts s =? 2 ^ 63 - 1) && (o_max_ts s =? - 2 ^ 63) && (o_min_slot s =? 2 ^ 64 - 1).

(* per accepted token: the clauses of the property; returns 0 = fine, 1 / 2 = known class, 9 = violation *)
Definition token_verdict (e : env) (allow_closed : bool) (t : tok) (pr : res (Z * Z)) : Z :=
  match t with
  | Tok in_map enabled td prec heartbeat allow ratio adj policy expected owner_ok provider feed_ok
        dec_ pflags status lud ts price mn mx slot =>
      let m := 20 - td - prec in
      let step := 10 ^ m in
      (* expected provider and feed, enabled, known token; fresh; not too far in the future; feed heartbeat *)
      let common :=
        in_map && enabled && owner_ok && feed_ok && (provider =? expected)
        && (now e <=? ts - adj + max_age e) && (ts <=? now e + max_future e) && (now e - ts <=? heartbeat) in
      let open := C27.Corr.spec_open status pflags lud ts (now e) heartbeat policy in
      if negb common then 9
      else match pr with
           | Err 8 => if allow_closed && negb open then 0 else 9      (* stored but closed: unusable *)
           | Err _ => 9
           | Ok (umin, umax) =>
               if negb ((0 <? umin) && (umin <=? umax) && (umin mod step =? 0) && (umax mod step =? 0)
                        && (umax / step <? 2 ^ 32) && open)
               then 9
               else if ratio =? 0 then 0
               else
                 let r := price * 10 ^ prec / 10 ^ dec_ * step in
                 let dv := r * (ratio * 10 ^ 12) / 10 ^ 20 in
                 if (Z.abs (umax - r) <=? dv) && (Z.abs (umin - r) <=? dv) then 0
                 else if dv =? 0 then 2
                 else let rdev := (dv + step - 1) / step * step in
                      if (Z.abs (umax - r) <=? rdev) && (Z.abs (umin - r) <=? rdev) then 1 else 9
           end
  end.

Fixpoint verdicts (e : env) (ac : bool) (ts : list tok) (ps : list (res (Z * Z))) : list Z :=
  match ts, ps with
  | t :: r, p :: s => token_verdict e ac t p :: verdicts e ac r s
  | [], [] => []
  | _, _ => [9]
  end.

Definition adj_ts (t : tok) : Z := tok_ts t - tok_adj t.
Definition min_list (l : list Z) (d : Z) : Z := fold_left Z.min l d.
Definition max_list (l : list Z) (d : Z) : Z := fold_left Z.max l d.

(* the run-level clauses: spread of adjusted timestamps, recorded range, uncleared inside, cleared after *)
Definition run_ok (e : env) (sc : bool) (ts : list tok) (r : res unit) (inside : option (ostate * list (res (Z * Z)))) (after : ostate) : bool :=
  (* cleared afterwards on every path that touched the oracle; the only early return (not enough feed
     accounts, Err 14) leaves it exactly as it was *)
  (match r with Err 14 => if sc then is_cleared_state after else ostate_eqb after (mkO false 0 0 0 0) | _ => is_cleared_state after end) &&
  (* an oracle that is not cleared at entry is never used *)
  (if sc then true else match inside with None => true | Some _ => false end) &&
  match inside with
  | Some (st, prices) =>
      let tss := map adj_ts ts in
      negb (o_cleared st) && negb (length ts =? 0)%nat
      && (o_len st =? Z.of_nat (length ts)) && (Z.of_nat (length prices) =? Z.of_nat (length ts))
      && (o_min_ts st =? min_list tss (2 ^ 63 - 1)) && (o_max_ts st =? max_list tss (- 2 ^ 63))
      && (o_min_slot st =? min_list (map tok_slot ts) (2 ^ 64 - 1))
      && (o_max_ts st - o_min_ts st <=? max_range e)
      && match r with Ok _ => true | Err 7777 => true | Err _ => false end
  | None => match r with Err 7777 => false | Err _ => true | Ok _ => false end
  end.

Definition worst (l : list Z) : Z := fold_left Z.max l 0.

Definition oracle_b (c : case) : bool :=
  match c with
  | Run e ac ff n sc ts r inside after =>
      run_ok e sc ts r inside after &&
      match inside with
      | Some (_, prices) => worst (verdicts e ac ts prices) =? 0
      | None => true
      end
  | VTime st a b s r =>
      (* Ok exactly when the oracle holds prices whose range satisfies every bound of the target *)
      let fine :=
        (o_min_ts st <=? o_max_ts st) && negb (o_cleared st)
        && match s with Some x => x <=? o_min_slot st | None => true end
        && match a with Some x => x <=? o_min_ts st | None => true end
        && match b with Some x => o_max_ts st <=? x | None => true end in
      match r with Ok _ => fine | Err _ => negb fine end
  end.

(* known classes: 1 = RoundedDeviationTolerance (outside the configured deviation, inside the deviation
   rounded up to one precision step), 2 = ZeroDeviationSkipsCheck (computed deviation 0: not checked) *)
Definition known_b (c : case) : Z :=
  match c with
  | Run e ac ff n sc ts r (Some (st, prices)) after =>
      if run_ok e sc ts r (Some (st, prices)) after then
        let w := worst (verdicts e ac ts prices) in
        if (w =? 1) || (w =? 2) then w else 0
      else 0
  | _ => 0
  end.
