(* C29 — correspondence and oracle predicates for harness/src/bin/c29.rs.
   Decimals are pairs (value, decimal_multiplier); prices pairs (min, max). *)
From GV Require Import lib.Base C29.Model.
Open Scope Z_scope.

Inductive case :=
(* verif_hooks::try_adjust_price_with_max_deviation_factor(factor, price, ref):
   None = panic, Some None = None, Some (Some p') = adjusted price *)
| Adjust (factor : Z) (p : price) (ref : option dec) (r : option (option price))
(* acceptance pipeline for one token with AllowPriceAdjustment = allow and the feed's deviation
   factor fo: Ok (multiplier, min value, max value) as stored in the oracle's price map,
   Err 1 = InvalidArgument, 2 = InvalidPriceFeedPrice, 9 = panic, other = 100 + anchor code *)
| Pipe (allow : bool) (fo : option Z) (p : price) (ref : option dec) (r : res (Z * Z * Z)).

Definition deqb (a b : dec) : bool := (fst a =? fst b) && (snd a =? snd b).
Definition prqb (a b : price) : bool := deqb (fst a) (fst b) && deqb (snd a) (snd b).

Definition corr_b (c : case) : bool :=
  match c with
  | Adjust f p ref r =>
      match adjust f p ref, r with
      | None, None => true
      | Some None, Some None => true
      | Some (Some a), Some (Some b) => prqb a b
      | _, _ => false
      end
  | Pipe allow fo p ref r =>
      match pipeline allow fo p ref, r with
      | Ok (_, (m, a, b)), Ok (m', a', b') => (m =? m') && (a =? a') && (b =? b')
      | Err e, Err e' => e =? e'
      | _, _ => false
      end
  end.

(* ---- the property on the outputs ---- *)
Definition u (d : dec) : Z := fst d * 10 ^ snd d.
Definition reference (p : price) (ref : option dec) : Z :=
  match ref with Some r => u r | None => (u (fst p) + u (snd p)) / 2 end.
Definition deviation (f : Z) (p : price) (ref : option dec) : Z := reference p ref * f / 10 ^ 20.
Definition small (d : dec) : bool := (0 <=? fst d) && (fst d <? 2 ^ 32) && (0 <=? snd d) && (snd d <=? 20).
Definition dist (a b : Z) : Z := Z.abs (a - b).

Definition oracle_b (c : case) : bool :=
  match c with
  | Adjust f p ref r =>
      let rp := reference p ref in let dv := deviation f p ref in
      let smin := 10 ^ snd (fst p) in let smax := 10 ^ snd (snd p) in
      match r with
      | Some (Some p') =>
          (* multipliers kept, at least one side was out of band *)
          (snd (fst p') =? snd (fst p)) && (snd (snd p') =? snd (snd p))
          && ((dv <? dist (u (snd p)) rp) || (dv <? dist (u (fst p)) rp))
          (* the adjusted max is never above the band, the adjusted min never below *)
          && (rp - dv <=? u (fst p')) && (u (snd p') <=? rp + dv)
          (* an in-band side is untouched; an out-of-band side becomes the band edge rounded inwards *)
          && (if dv <? dist (u (snd p)) rp then rp + dv <? u (snd p') + smax else fst (snd p') =? fst (snd p))
          && (if dv <? dist (u (fst p)) rp then u (fst p') - smin <? rp - dv else fst (fst p') =? fst (fst p))
      | Some None =>
          (* nothing to adjust, or the clamped value cannot be produced *)
          ((dist (u (snd p)) rp <=? dv) && (dist (u (fst p)) rp <=? dv))
          || (2 ^ 128 <=? dv)
          || (2 ^ 128 <=? u (fst p) + u (snd p))
          || ((dv <? dist (u (snd p)) rp) && ((2 ^ 128 <=? rp + dv) || (2 ^ 32 <=? (rp + dv) / smax)))
          || ((dv <? dist (u (fst p)) rp) && ((rp <? dv) || ((2 ^ 32 - 1) * smin <? rp - dv)))
      | None => negb (small (fst p) && small (snd p) && match ref with Some x => small x | None => true end)
      end
  | Pipe allow fo p ref r =>
      match r with
      | Ok (m, a, b) =>
          (* never inverted, never zero *)
          (0 <? a) && (a <=? b) &&
          match fo with
          | Some f =>
              if allow then
                (* C29: inside reference +- max deviation *)
                let rp := reference p ref in let dv := deviation f p ref in
                (rp - dv <=? a * 10 ^ m) && (b * 10 ^ m <=? rp + dv)
              else deqb (a, m) (fst p) && deqb (b, m) (snd p)
          | None => deqb (a, m) (fst p) && deqb (b, m) (snd p)
          end
      | Err _ => true
      end
  end.

(* Known finding class 1 (RoundedDeviationTolerance): adjustment is allowed but the adjustment
   function returned None because a clamped value cannot be produced; the price is stored
   UNCHANGED, lies outside reference +- deviation, but inside the deviation rounded up to the
   price's precision step, which is what validate_one checks. *)
Definition known_b (c : case) : Z :=
  match c with
  | Pipe true (Some f) p ref (Ok (m, a, b)) =>
      let rp := reference p ref in let dv := deviation f p ref in
      let step := 10 ^ m in
      let rdev := (dv + step - 1) / step * step in
      if deqb (a, m) (fst p) && deqb (b, m) (snd p) && (0 <? dv)
         && ((dv <? dist (a * step) rp) || (dv <? dist (b * step) rp))
         && (dist (a * step) rp <=? rdev) && (dist (b * step) rp <=? rdev)
      then 1 else 0
  | _ => 0
  end.
