(* C29 — proofs about the price adjustment and the acceptance pipeline. *)
From GV Require Import lib.Base lib.DivLemmas C01.Model C01.Proofs C26.Model C26.Proofs C29.Model.
Open Scope Z_scope.
Ltac Zify.zify_post_hook ::= Z.div_mod_to_equations.


(* ---- no traps for the multipliers and values the conversions produce ---- *)
Definition dec_ok (d : dec) : Prop := 0 <= fst d < 2 ^ 32 /\ 0 <= snd d <= 20.

Lemma unit_of_ok d : dec_ok d -> unit_of d = Some (fst d * 10 ^ snd d).
Proof.
  intros [Hv Hm]. unfold unit_of. apply to_unit_price_spec; try lia. split; [reflexivity|]. split; [lia|].
  pose proof (pow10_pos' (snd d) ltac:(lia)). pose proof (pow10_le (snd d) 20 ltac:(lia)).
  rewrite two128, two32, ten20 in *. nia.
Qed.

Lemma unit_bound d : dec_ok d -> 0 <= fst d * 10 ^ snd d < 2 ^ 32 * 10 ^ 20.
Proof.
  intros [Hv Hm]. pose proof (pow10_pos' (snd d) ltac:(lia)). pose proof (pow10_le (snd d) 20 ltac:(lia)).
  rewrite two32, ten20 in *. nia.
Qed.

Lemma with_unit_floor d x d' : dec_ok d -> 0 <= x ->
  with_unit d x false = Some d' -> snd d' = snd d /\ fst d' = x / 10 ^ snd d /\ 0 <= fst d' < 2 ^ 32.
Proof.
  intros [Hv Hm] Hx. unfold with_unit. destruct (with_unit_price (snd d) x false) as [v|e] eqn:E; [|discriminate].
  intros X; injection X as <-. cbn [fst snd]. apply with_unit_price_floor in E; [|lia..].
  destruct E as [-> ?]. pose proof (pow10_pos' (snd d) ltac:(lia)).
  assert (0 <= x / 10 ^ snd d) by (apply div_nonneg; lia). repeat split; lia.
Qed.

Lemma with_unit_ceil d x d' : dec_ok d -> 0 <= x ->
  with_unit d x true = Some d' ->
  snd d' = snd d /\ 0 <= fst d' < 2 ^ 32 /\ (fst d' - 1) * 10 ^ snd d < x <= fst d' * 10 ^ snd d.
Proof.
  intros [Hv Hm] Hx. unfold with_unit. destruct (with_unit_price (snd d) x true) as [v|e] eqn:E; [|discriminate].
  intros X; injection X as <-. cbn [fst snd]. apply with_unit_price_ceil in E; [|lia..]. repeat split; lia.
Qed.

(* reference price used by adjust / validate: explicit, or the mid of the unit prices *)
Definition ref_unit (p : price) (ref : option dec) : Z :=
  match ref with
  | Some r => fst r * 10 ^ snd r
  | None => (fst (fst p) * 10 ^ snd (fst p) + fst (snd p) * 10 ^ snd (snd p)) / 2
  end.
Definition umin_of (p : price) : Z := fst (fst p) * 10 ^ snd (fst p).
Definition umax_of (p : price) : Z := fst (snd p) * 10 ^ snd (snd p).
Definition price_ok (p : price) : Prop := dec_ok (fst p) /\ dec_ok (snd p).
Definition ref_ok (ref : option dec) : Prop := match ref with Some r => dec_ok r | None => True end.

Lemma big128 : 2 * (2 ^ 32 * 10 ^ 20) < 2 ^ 128. Proof. vm_compute. reflexivity. Qed.

Lemma ref_unit_bound p ref : price_ok p -> ref_ok ref -> 0 <= ref_unit p ref < 2 ^ 32 * 10 ^ 20.
Proof.
  intros [H1 H2] Hr. unfold ref_unit. destruct ref as [r|].
  - apply unit_bound. exact Hr.
  - pose proof (unit_bound _ H1). pose proof (unit_bound _ H2). lia.
Qed.

(* the max deviation: apply_factor never fails in the conversion range *)
Definition dev_of (factor : Z) (p : price) (ref : option dec) : Z := ref_unit p ref * factor / 10 ^ 20.

(* The main soundness theorem of the adjustment. *)
Theorem adjust_some factor p ref p' :
  price_ok p -> ref_ok ref -> 0 <= factor < 2 ^ 128 ->
  adjust factor p ref = Some (Some p') ->
  let r := ref_unit p ref in let dev := dev_of factor p ref in
  (* multipliers are kept *)
  snd (fst p') = snd (fst p) /\ snd (snd p') = snd (snd p) /\ price_ok p' /\
  (* at least one side was out of band *)
  (dev < abs_diff (umax_of p) r \/ dev < abs_diff (umin_of p) r) /\
  (* max side: untouched and in band, or the upper band edge rounded down *)
  ((abs_diff (umax_of p) r <= dev /\ snd p' = snd p) \/
   (dev < abs_diff (umax_of p) r /\ fst (snd p') = (r + dev) / 10 ^ snd (snd p))) /\
  (* min side: untouched and in band, or the lower band edge rounded up *)
  ((abs_diff (umin_of p) r <= dev /\ fst p' = fst p) \/
   (dev < abs_diff (umin_of p) r /\ dev <= r /\
    (fst (fst p') - 1) * 10 ^ snd (fst p) < r - dev <= fst (fst p') * 10 ^ snd (fst p))) /\
  (* hence: the adjusted max is never above the band, the adjusted min never below it *)
  r - dev <= umin_of p' /\ umax_of p' <= r + dev.
Proof.
  intros Hp Hr Hf. destruct p as [pmin pmax]. destruct Hp as [Hmin Hmax]. cbn [fst snd] in *.
  unfold adjust. rewrite (unit_of_ok _ Hmin), (unit_of_ok _ Hmax).
  pose proof (unit_bound _ Hmin) as Bmin. pose proof (unit_bound _ Hmax) as Bmax.
  pose proof big128 as BIG.
  set (umin := fst pmin * 10 ^ snd pmin) in *. set (umax := fst pmax * 10 ^ snd pmax) in *.
  pose proof (ref_unit_bound (pmin, pmax) ref (conj Hmin Hmax) Hr) as Bref.
  assert (Eref : (match ref with
             | Some r => match unit_of r with Some x => Some (Some x) | None => None end
             | None => Some (checked_mid umin umax) end) = Some (Some (ref_unit (pmin, pmax) ref))).
  { unfold ref_unit. destruct ref as [r|]; cbn [fst snd].
    - rewrite (unit_of_ok _ Hr). reflexivity.
    - unfold checked_mid, uadd. replace (chk_u 128 (umin + umax)) with (Some (umin + umax)) by (symmetry; apply chk_u_some; lia).
      reflexivity. }
  rewrite Eref. clear Eref. unfold dev_of. cbn [fst snd].
  set (r := ref_unit (pmin, pmax) ref) in *.
  unfold apply_factor, mul_div. change (10 ^ 20 =? 0) with false. cbv iota.
  assert (Hdev0 : 0 <= r * factor / 10 ^ 20) by (apply div_nonneg; [nia|reflexivity]).
  destruct (chk_u 128 (r * factor / 10 ^ 20)) as [dev|] eqn:Edev; [|discriminate].
  apply chk_u_some in Edev. destruct Edev as [Edev ->]. set (dev := r * factor / 10 ^ 20) in *.
  unfold umax_of, umin_of. cbn [fst snd]. fold umin umax.
  intros H. cbv zeta.
  (* max side *)
  destruct (dev <? abs_diff umax r) eqn:Cmax.
  - unfold uadd in H. destruct (chk_u 128 (r + dev)) as [hi|] eqn:Ehi; [|discriminate].
    apply chk_u_some in Ehi. destruct Ehi as [Ehi ->].
    destruct (with_unit pmax (r + dev) false) as [nm|] eqn:Wmax; [|discriminate].
    apply with_unit_floor in Wmax; [|assumption|lia]. destruct Wmax as (Wm1 & Wm2 & Wm3).
    pose proof (pow10_pos' (snd pmax) ltac:(destruct Hmax; lia)) as Ppos.
    pose proof (div_floor_spec (r + dev) (10 ^ snd pmax) Ppos) as Fl.
    destruct (dev <? abs_diff umin r) eqn:Cmin.
    + unfold usub in H. destruct (chk_u 128 (r - dev)) as [lo|] eqn:Elo; [|discriminate].
      apply chk_u_some in Elo. destruct Elo as [Elo ->].
      destruct (with_unit pmin (r - dev) true) as [nn|] eqn:Wmin; [|discriminate].
      apply with_unit_ceil in Wmin; [|assumption|lia]. destruct Wmin as (Wn1 & Wn2 & Wn3).
      injection H as <-. cbn [fst snd]. rewrite Wm1, Wn1.
      split; [reflexivity|]. split; [reflexivity|].
      split; [split; split; cbn [fst snd]; destruct Hmin, Hmax; lia|].
      split; [left; lia|].
      split; [right; split; [lia|exact Wm2]|].
      split; [right; repeat split; lia|].
      split; [lia|]. rewrite Wm2. lia.
    + injection H as <-. cbn [fst snd]. rewrite Wm1.
      split; [reflexivity|]. split; [reflexivity|].
      split; [split; split; cbn [fst snd]; destruct Hmin, Hmax; lia|].
      split; [left; lia|].
      split; [right; split; [lia|exact Wm2]|].
      split; [left; split; [lia|reflexivity]|].
      split; [fold umin; unfold abs_diff in *; lia|]. rewrite Wm2. lia.
  - destruct (dev <? abs_diff umin r) eqn:Cmin; [|discriminate].
    unfold usub in H. destruct (chk_u 128 (r - dev)) as [lo|] eqn:Elo; [|discriminate].
    apply chk_u_some in Elo. destruct Elo as [Elo ->].
    destruct (with_unit pmin (r - dev) true) as [nn|] eqn:Wmin; [|discriminate].
    apply with_unit_ceil in Wmin; [|assumption|lia]. destruct Wmin as (Wn1 & Wn2 & Wn3).
    injection H as <-. cbn [fst snd]. rewrite Wn1.
    split; [reflexivity|]. split; [reflexivity|].
    split; [split; split; cbn [fst snd]; destruct Hmin, Hmax; lia|].
    split; [right; lia|].
    split; [left; split; [lia|reflexivity]|].
    split; [right; repeat split; lia|].
    split; [lia|]. fold umax. unfold abs_diff in *. lia.
Qed.


(* adjust never traps on convertible prices *)
Theorem adjust_no_trap factor p ref :
  price_ok p -> ref_ok ref -> 0 <= factor < 2 ^ 128 -> adjust factor p ref <> None.
Proof.
  intros Hp Hr Hf. destruct p as [pmin pmax]. destruct Hp as [Hmin Hmax]. cbn [fst snd] in *.
  unfold adjust. rewrite (unit_of_ok _ Hmin), (unit_of_ok _ Hmax).
  destruct ref as [r|].
  - rewrite (unit_of_ok _ Hr).
    destruct (apply_factor _ _ _ _); [|discriminate]. cbv zeta.
    repeat match goal with |- context [match ?x with _ => _ end] => destruct x; try discriminate end.
  - destruct (checked_mid _ _); [|discriminate].
    destruct (apply_factor _ _ _ _); [|discriminate]. cbv zeta.
    repeat match goal with |- context [match ?x with _ => _ end] => destruct x; try discriminate end.
Qed.

(* nothing to do inside the band *)
Theorem adjust_in_band_none factor p ref :
  price_ok p -> ref_ok ref -> 0 <= factor < 2 ^ 128 ->
  let r := ref_unit p ref in let dev := dev_of factor p ref in
  dev < 2 ^ 128 -> abs_diff (umax_of p) r <= dev -> abs_diff (umin_of p) r <= dev ->
  adjust factor p ref = Some None.
Proof.
  intros Hp Hr Hf. destruct p as [pmin pmax]. destruct Hp as [Hmin Hmax]. cbn [fst snd] in *. cbv zeta.
  unfold adjust, dev_of, umax_of, umin_of. cbn [fst snd]. rewrite (unit_of_ok _ Hmin), (unit_of_ok _ Hmax).
  pose proof (unit_bound _ Hmin) as Bmin. pose proof (unit_bound _ Hmax) as Bmax. pose proof big128 as BIG.
  pose proof (ref_unit_bound (pmin, pmax) ref (conj Hmin Hmax) Hr) as Bref.
  assert (Eref : (match ref with
             | Some r => match unit_of r with Some x => Some (Some x) | None => None end
             | None => Some (checked_mid (fst pmin * 10 ^ snd pmin) (fst pmax * 10 ^ snd pmax)) end)
             = Some (Some (ref_unit (pmin, pmax) ref))).
  { unfold ref_unit. destruct ref as [r|]; cbn [fst snd].
    - rewrite (unit_of_ok _ Hr). reflexivity.
    - unfold checked_mid, uadd. match goal with |- context [chk_u 128 ?x] => replace (chk_u 128 x) with (Some x) by (symmetry; apply chk_u_some; lia) end.
      reflexivity. }
  rewrite Eref. set (r := ref_unit (pmin, pmax) ref) in *.
  intros Hd H1 H2. unfold apply_factor, mul_div. change (10 ^ 20 =? 0) with false. cbv iota.
  assert (Hdev0 : 0 <= r * factor / 10 ^ 20) by (apply div_nonneg; [nia|reflexivity]).
  replace (chk_u 128 (r * factor / 10 ^ 20)) with (Some (r * factor / 10 ^ 20)) by (symmetry; apply chk_u_some; lia).
  cbv zeta. replace (_ <? abs_diff (fst pmax * 10 ^ snd pmax) r) with false by lia.
  replace (_ <? abs_diff (fst pmin * 10 ^ snd pmin) r) with false by lia. reflexivity.
Qed.

(* from_price: what a stored price satisfies *)
Theorem from_price_ok p m a b :
  from_price p = Ok (m, a, b) <->
  snd (fst p) = m /\ snd (snd p) = m /\ fst (fst p) = a /\ fst (snd p) = b /\ a <> 0 /\ a <= b.
Proof.
  destruct p as [[minv minm] [maxv maxm]]. cbn [from_price fst snd].
  destruct (minm =? maxm) eqn:E1; cbn [negb].
  - destruct (minv =? 0) eqn:E2; [split; [discriminate|lia]|].
    destruct (maxv <? minv) eqn:E3; [split; [discriminate|lia]|].
    split; [intros X; injection X as <- <- <-; repeat split; lia|].
    intros (<- & ? & <- & <- & ? & ?). reflexivity.
  - split; [discriminate|]. lia.
Qed.

(* adjusted AND storable: the whole price is inside the band and ordered *)
Theorem adjusted_stored_in_band factor p ref p' m a b :
  price_ok p -> ref_ok ref -> 0 <= factor < 2 ^ 128 ->
  adjust factor p ref = Some (Some p') -> from_price p' = Ok (m, a, b) ->
  let r := ref_unit p ref in let dev := dev_of factor p ref in
  0 < a <= b /\ r - dev <= a * 10 ^ m <= b * 10 ^ m /\ b * 10 ^ m <= r + dev.
Proof.
  intros Hp Hr Hf HA HF. cbv zeta.
  pose proof (adjust_some factor p ref p' Hp Hr Hf HA) as H. cbv zeta in H.
  destruct H as (_ & _ & Hok & _ & _ & _ & Hlo & Hhi).
  apply from_price_ok in HF. destruct HF as (M1 & M2 & A & B & Ha & Hab).
  unfold umin_of, umax_of in *. rewrite M1, A in Hlo. rewrite M2, B in Hhi.
  destruct Hok as [[? ?] [? ?]]. pose proof (pow10_pos' m ltac:(lia)). split; [lia|]. split; [|lia]. split; [lia|nia].
Qed.


(* the deviation rounded up to the precision step of the max price *)
Definition rounded_dev (dev m : Z) : Z := div_ceil dev (10 ^ m) * 10 ^ m.

Lemma rounded_dev_bounds dev m : 0 <= m -> dev <= rounded_dev dev m < dev + 10 ^ m.
Proof.
  intros Hm. unfold rounded_dev. pose proof (pow10_pos' m Hm).
  pose proof (div_ceil_spec dev (10 ^ m) ltac:(lia)). lia.
Qed.

Theorem validate_deviation_ok factor p ref :
  price_ok p -> ref_ok ref -> 0 <= factor < 2 ^ 128 ->
  validate_deviation factor p ref = Ok tt ->
  let r := ref_unit p ref in let dev := dev_of factor p ref in
  dev = 0 \/
  (0 < dev /\ abs_diff (umax_of p) r <= rounded_dev dev (snd (snd p))
            /\ abs_diff (umin_of p) r <= rounded_dev dev (snd (snd p))).
Proof.
  intros Hp Hr Hf. destruct p as [pmin pmax]. destruct Hp as [Hmin Hmax]. cbn [fst snd] in *. cbv zeta.
  unfold validate_deviation, dev_of, umax_of, umin_of. cbn [fst snd]. rewrite (unit_of_ok _ Hmin), (unit_of_ok _ Hmax).
  pose proof (unit_bound _ Hmin) as Bmin. pose proof (unit_bound _ Hmax) as Bmax. pose proof big128 as BIG.
  pose proof (ref_unit_bound (pmin, pmax) ref (conj Hmin Hmax) Hr) as Bref.
  assert (Eref : (match ref with
             | Some r => match unit_of r with Some x => Ok x | None => Err 9 end
             | None => of_opt 1 (checked_mid (fst pmin * 10 ^ snd pmin) (fst pmax * 10 ^ snd pmax)) end)
             = Ok (ref_unit (pmin, pmax) ref)).
  { unfold ref_unit. destruct ref as [r|]; cbn [fst snd].
    - rewrite (unit_of_ok _ Hr). reflexivity.
    - unfold checked_mid, uadd. match goal with |- context [chk_u 128 ?x] => replace (chk_u 128 x) with (Some x) by (symmetry; apply chk_u_some; lia) end.
      reflexivity. }
  rewrite Eref. set (r := ref_unit (pmin, pmax) ref) in *.
  unfold apply_factor, mul_div. change (10 ^ 20 =? 0) with false. cbv iota.
  assert (Hdev0 : 0 <= r * factor / 10 ^ 20) by (apply div_nonneg; [nia|reflexivity]).
  destruct (chk_u 128 (r * factor / 10 ^ 20)) as [dev|] eqn:Edev; [|discriminate].
  apply chk_u_some in Edev. destruct Edev as [Edev ->]. set (dev := r * factor / 10 ^ 20) in *.
  destruct (0 <? dev) eqn:Epos; [|intros _; left; lia].
  destruct (with_unit pmax dev true) as [rd|] eqn:W; [|discriminate].
  apply with_unit_ceil in W; [|assumption|lia]. destruct W as (W1 & W2 & W3).
  destruct Hmax as [Hv Hm].
  assert (Hrd : dec_ok rd) by (split; lia).
  rewrite (unit_of_ok _ Hrd). rewrite W1.
  assert (Erd : fst rd * 10 ^ snd pmax = rounded_dev dev (snd pmax)).
  { unfold rounded_dev. f_equal. pose proof (pow10_pos' (snd pmax) ltac:(lia)).
    pose proof (div_ceil_spec dev (10 ^ snd pmax) ltac:(lia)). nia. }
  rewrite Erd.
  destruct (_ <? abs_diff (fst pmax * 10 ^ snd pmax) r) eqn:C1; [discriminate|].
  destruct (_ <? abs_diff (fst pmin * 10 ^ snd pmin) r) eqn:C2; [discriminate|].
  intros _. right. repeat split; lia.
Qed.

(* ---- pipeline ---- *)
Theorem pipeline_wellformed allow fo p ref adj m a b :
  price_ok p -> ref_ok ref -> (forall f, fo = Some f -> 0 <= f < 2 ^ 128) ->
  pipeline allow fo p ref = Ok (adj, (m, a, b)) -> 0 < a <= b /\ b < 2 ^ 32 /\ 0 <= m <= 20.
Proof.
  intros Hp Hr Hf. unfold pipeline. destruct fo as [f|].
  - specialize (Hf f eq_refl).
    destruct (if allow then adjust f p ref else Some None) as [adjr|] eqn:EA; [|discriminate].
    assert (Hp' : price_ok (match adjr with Some q => q | None => p end)).
    { destruct adjr as [q|]; [|exact Hp]. destruct allow; [|discriminate].
      pose proof (adjust_some f p ref q Hp Hr Hf EA) as H. cbv zeta in H. tauto. }
    destruct (validate_deviation _ _ _); cbn [rbind]; [|discriminate].
    destruct (from_price _) as [[[m' a'] b']|] eqn:FP; cbn [rbind]; [|discriminate].
    intros X; injection X as _ <- <- <-. apply from_price_ok in FP.
    destruct FP as (M1 & M2 & A & B & Ha & Hab). destruct Hp' as [[? ?] [? ?]]. lia.
  - destruct (from_price p) as [[[m' a'] b']|] eqn:FP; cbn [rbind]; [|discriminate].
    intros X; injection X as _ <- <- <-. apply from_price_ok in FP.
    destruct FP as (M1 & M2 & A & B & Ha & Hab). destruct Hp as [[? ?] [? ?]]. lia.
Qed.

(* C29 main: an adjusted price that is accepted lies in the exact band of the feed's reference *)
Theorem pipeline_adjusted_in_band f p ref m a b :
  price_ok p -> ref_ok ref -> 0 <= f < 2 ^ 128 ->
  pipeline true (Some f) p ref = Ok (true, (m, a, b)) ->
  let r := ref_unit p ref in let dev := dev_of f p ref in
  0 < a <= b /\ r - dev <= a * 10 ^ m <= b * 10 ^ m /\ b * 10 ^ m <= r + dev.
Proof.
  intros Hp Hr Hf. unfold pipeline.
  destruct (adjust f p ref) as [[q|]|] eqn:EA; try discriminate.
  - destruct (validate_deviation _ _ _); cbn [rbind]; [|discriminate].
    destruct (from_price q) as [[[m' a'] b']|] eqn:FP; cbn [rbind]; [|discriminate].
    intros X; injection X as <- <- <-.
    exact (adjusted_stored_in_band f p ref q m' a' b' Hp Hr Hf EA FP).
  - destruct (validate_deviation _ _ _); cbn [rbind]; [|discriminate].
    destruct (from_price p) as [[[m' a'] b']|]; cbn [rbind]; discriminate.
Qed.

(* accepted without adjustment although adjustment is allowed: the adjustment function
   returned None, the price is stored unchanged, and each side is within the deviation
   rounded UP to the precision step (or the computed deviation is 0 and nothing is checked) *)
Theorem pipeline_unadjusted allow f p ref m a b :
  price_ok p -> ref_ok ref -> 0 <= f < 2 ^ 128 ->
  pipeline allow (Some f) p ref = Ok (false, (m, a, b)) ->
  let r := ref_unit p ref in let dev := dev_of f p ref in
  (allow = true -> adjust f p ref = Some None) /\
  p = ((a, m), (b, m)) /\ 0 < a <= b /\
  (dev = 0 \/ (abs_diff (b * 10 ^ m) r <= rounded_dev dev m /\ abs_diff (a * 10 ^ m) r <= rounded_dev dev m
               /\ rounded_dev dev m < dev + 10 ^ m)).
Proof.
  intros Hp Hr Hf. unfold pipeline.
  destruct (if allow then adjust f p ref else Some None) as [[q|]|] eqn:EA; try discriminate.
  - destruct (validate_deviation _ _ _); cbn [rbind]; [|discriminate].
    destruct (from_price q) as [[[m' a'] b']|]; cbn [rbind]; discriminate.
  - destruct (validate_deviation f p ref) as [[]|] eqn:V; cbn [rbind]; [|discriminate].
    destruct (from_price p) as [[[m' a'] b']|] eqn:FP; cbn [rbind]; [|discriminate].
    intros X; injection X as <- <- <-. cbv zeta.
    apply from_price_ok in FP. destruct FP as (M1 & M2 & A & B & Ha & Hab).
    pose proof (validate_deviation_ok f p ref Hp Hr Hf V) as HV. cbv zeta in HV.
    destruct p as [[minv minm] [maxv maxm]]. cbn [fst snd] in *. subst.
    split; [intros ->; exact EA|]. split; [reflexivity|].
    destruct Hp as [[? ?] [? ?]]. cbn [fst snd] in *. split; [lia|].
    destruct HV as [HV|(HV0 & HV1 & HV2)]; [left; exact HV|right].
    unfold umax_of, umin_of in *. cbn [fst snd] in *.
    pose proof (rounded_dev_bounds (dev_of f (a', m', (b', m')) ref) m' ltac:(lia)) as RB.
    split; [exact HV1|]. split; [exact HV2|]. apply RB.
Qed.

(* the tolerance is real: an accepted, unadjusted price strictly outside the configured band *)
Lemma pipeline_rounded_tolerance_witness :
  let p : price := ((100001, 8), (101002, 8)) in
  let ref := Some (100001, 8) in
  let f := 1000000 * 10 ^ 12 in       (* 1 % *)
  pipeline false (Some f) p ref = Ok (false, (8, 100001, 101002)) /\
  dev_of f p ref < abs_diff (umax_of p) (ref_unit p ref).
Proof. vm_compute. split; reflexivity. Qed.

(* and with adjustment allowed, when the upper band edge is not representable in u32 *)
Lemma pipeline_adjust_failed_witness :
  let p : price := ((4294924050, 8), (4294924050, 8)) in
  let ref := Some (4294967000, 8) in
  let f := 1000 * 10 ^ 12 in          (* 0.001 % *)
  adjust f p ref = Some None /\
  pipeline true (Some f) p ref = Ok (false, (8, 4294924050, 4294924050)) /\
  dev_of f p ref < abs_diff (umax_of p) (ref_unit p ref).
Proof. vm_compute. repeat split; reflexivity. Qed.

