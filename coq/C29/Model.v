(* C29 — model of try_adjust_price_with_max_deviation_factor
   (programs/store/src/states/oracle/mod.rs) and of the acceptance pipeline
   adjust -> PriceValidator::validate_one (deviation part) -> SmallPrices::from_price.
   Definitions only.  A Decimal is a pair (value, decimal_multiplier); a Price a pair
   (min, max) of Decimals. *)
From GV Require Import lib.Base C01.Model C26.Model.
Open Scope Z_scope.

Definition dec := (Z * Z)%type.
Definition price := (dec * dec)%type.

Definition unit_of (d : dec) : option Z := to_unit_price (fst d) (snd d).

(* Price::<u128>::checked_mid on unit prices *)
Definition checked_mid (umin umax : Z) : option Z := s <- uadd 128 umin umax ;; Some (s / 2).

(* Decimal::with_unit_price as an option on Decimals (None also for a multiplier whose
   power of ten traps; see [adjust] for how traps are separated) *)
Definition with_unit (d : dec) (p : Z) (round_up : bool) : option dec :=
  match with_unit_price (snd d) p round_up with
  | Ok v => Some (v, snd d)
  | Err _ => None
  end.

Definition abs_diff (a b : Z) : Z := Z.abs (a - b).

(* outer None = arithmetic trap inside to_unit_price / multiplier (only for
   multipliers no conversion produces); inner None = the function returns None *)
Definition adjust (factor : Z) (p : price) (ref : option dec) : option (option price) :=
  let '(pmin, pmax) := p in
  match unit_of pmin, unit_of pmax with
  | Some umin, Some umax =>
      match (match ref with
             | Some r => match unit_of r with Some x => Some (Some x) | None => None end
             | None => Some (checked_mid umin umax)
             end) with
      | None => None                                   (* trap in ref.to_unit_price() *)
      | Some None => Some None                         (* checked_mid failed *)
      | Some (Some refp) =>
          match apply_factor 128 (10 ^ 20) refp factor with
          | None => Some None
          | Some max_dev =>
              (* max side *)
              let step1 : option (option price) :=
                if max_dev <? abs_diff umax refp then
                  match uadd 128 refp max_dev with
                  | None => None
                  | Some hi => match with_unit pmax hi false with
                               | None => None
                               | Some nm => Some (Some (pmin, nm))
                               end
                  end
                else Some None in
              match step1 with
              | None => Some None                        (* `?` : whole result None *)
              | Some adj1 =>
                  if max_dev <? abs_diff umin refp then
                    match usub 128 refp max_dev with
                    | None => Some None
                    | Some lo => match with_unit pmin lo true with
                                 | None => Some None
                                 | Some nm =>
                                     let base := match adj1 with Some q => q | None => p end in
                                     Some (Some (nm, snd base))
                                 end
                    end
                  else Some adj1
              end
          end
      end
  | _, _ => None
  end.

(* ---- the rest of the acceptance pipeline ---- *)

(* deviation part of PriceValidator::validate_one for a feed with a deviation factor:
   Err 1 = InvalidArgument (mid / apply_factor / rounding failed), Err 2 = InvalidPriceFeedPrice,
   Err 9 = trap *)
Definition validate_deviation (factor : Z) (p : price) (ref : option dec) : res unit :=
  let '(pmin, pmax) := p in
  match unit_of pmin, unit_of pmax with
  | Some umin, Some umax =>
      match (match ref with
             | Some r => match unit_of r with Some x => Ok x | None => Err 9 end
             | None => of_opt 1 (checked_mid umin umax)
             end) with
      | Err e => Err e
      | Ok refp =>
          match apply_factor 128 (10 ^ 20) refp factor with
          | None => Err 1
          | Some max_dev =>
              if 0 <? max_dev then
                match with_unit pmax max_dev true with
                | None => Err 1
                | Some rd =>
                    match unit_of rd with
                    | None => Err 9
                    | Some rdev =>
                        if rdev <? abs_diff umax refp then Err 2
                        else if rdev <? abs_diff umin refp then Err 2
                        else Ok tt
                    end
                end
              else Ok tt
          end
      end
  | _, _ => Err 9
  end.

(* SmallPrices::from_price : Err 1 = InvalidArgument; Ok (multiplier, min, max) *)
Definition from_price (p : price) : res (Z * Z * Z) :=
  let '((minv, minm), (maxv, maxm)) := p in
  if negb (minm =? maxm) then Err 1
  else if minv =? 0 then Err 1
  else if maxv <? minv then Err 1
  else Ok (minm, minv, maxv).

(* parse_from_feed_account's adjustment step + validate_one's deviation part + PriceMap::set:
   [allow] = TokenConfigFlag::AllowPriceAdjustment, [factor] = Some f when the feed's
   max_deviation_ratio is non-zero.
   Err 1 / 2 as above, Err 9 trap; Ok (adjusted?, stored multiplier, min, max) *)
Definition pipeline (allow : bool) (factor : option Z) (p : price) (ref : option dec)
  : res (bool * (Z * Z * Z)) :=
  match factor with
  | None => x <-- from_price p ;; Ok (false, x)
  | Some f =>
      match (if allow then adjust f p ref else Some None) with
      | None => Err 9
      | Some adj =>
          let p' := match adj with Some q => q | None => p end in
          _ <-- validate_deviation f p' ref ;;
          x <-- from_price p' ;;
          Ok (is_some adj, x)
      end
  end.
