(* C29 — property theorems only.
   [price_ok] / [ref_ok]: values are u32 and multipliers are <= 20 — exactly what
   Decimal::try_from_price produces (C26: c26_unit_price_never_rounds_up gives 0 <= m <= 20);
   the factor is any u128.  r = reference unit price (explicit, or mid), dev = r * factor / 10^20. *)
From GV Require Import lib.Base C26.Model C29.Model C29.Proofs.
Open Scope Z_scope.

(* The adjustment: multipliers kept; an in-band side is untouched, an out-of-band max becomes
   floor((r + dev) / step), an out-of-band min becomes ceil((r - dev) / step); so the adjusted max is
   never above r + dev and the adjusted min never below r - dev. *)
Theorem c29_adjust_some : forall factor p ref p',
  price_ok p -> ref_ok ref -> 0 <= factor < 2 ^ 128 ->
  adjust factor p ref = Some (Some p') ->
  let r := ref_unit p ref in let dev := dev_of factor p ref in
  snd (fst p') = snd (fst p) /\ snd (snd p') = snd (snd p) /\ price_ok p' /\
  (dev < abs_diff (umax_of p) r \/ dev < abs_diff (umin_of p) r) /\
  ((abs_diff (umax_of p) r <= dev /\ snd p' = snd p) \/
   (dev < abs_diff (umax_of p) r /\ fst (snd p') = (r + dev) / 10 ^ snd (snd p))) /\
  ((abs_diff (umin_of p) r <= dev /\ fst p' = fst p) \/
   (dev < abs_diff (umin_of p) r /\ dev <= r /\
    (fst (fst p') - 1) * 10 ^ snd (fst p) < r - dev <= fst (fst p') * 10 ^ snd (fst p))) /\
  r - dev <= umin_of p' /\ umax_of p' <= r + dev.
Proof. exact adjust_some. Qed.

(* an adjusted price that also passes SmallPrices::from_price is completely inside the band, ordered, non-zero *)
Theorem c29_adjusted_stored_in_band : forall factor p ref p' m a b,
  price_ok p -> ref_ok ref -> 0 <= factor < 2 ^ 128 ->
  adjust factor p ref = Some (Some p') -> from_price p' = Ok (m, a, b) ->
  let r := ref_unit p ref in let dev := dev_of factor p ref in
  0 < a <= b /\ r - dev <= a * 10 ^ m <= b * 10 ^ m /\ b * 10 ^ m <= r + dev.
Proof. exact adjusted_stored_in_band. Qed.

Theorem c29_adjust_no_trap : forall factor p ref,
  price_ok p -> ref_ok ref -> 0 <= factor < 2 ^ 128 -> adjust factor p ref <> None.
Proof. exact adjust_no_trap. Qed.

Theorem c29_adjust_in_band_none : forall factor p ref,
  price_ok p -> ref_ok ref -> 0 <= factor < 2 ^ 128 ->
  let r := ref_unit p ref in let dev := dev_of factor p ref in
  dev < 2 ^ 128 -> abs_diff (umax_of p) r <= dev -> abs_diff (umin_of p) r <= dev ->
  adjust factor p ref = Some None.
Proof. exact adjust_in_band_none. Qed.

(* from_price accepts exactly non-zero, ordered prices with one multiplier *)
Theorem c29_from_price_ok : forall p m a b,
  from_price p = Ok (m, a, b) <->
  snd (fst p) = m /\ snd (snd p) = m /\ fst (fst p) = a /\ fst (snd p) = b /\ a <> 0 /\ a <= b.
Proof. exact from_price_ok. Qed.

(* pipeline adjust -> validate -> from_price: whatever is accepted is non-zero, ordered, u32 *)
Theorem c29_pipeline_rejects_inverted : forall allow fo p ref adj m a b,
  price_ok p -> ref_ok ref -> (forall f, fo = Some f -> 0 <= f < 2 ^ 128) ->
  pipeline allow fo p ref = Ok (adj, (m, a, b)) -> 0 < a <= b /\ b < 2 ^ 32 /\ 0 <= m <= 20.
Proof. exact pipeline_wellformed. Qed.

(* main: with adjustment enabled, an accepted adjusted price lies in [r - dev, r + dev] *)
Theorem c29_pipeline_adjusted_in_band : forall f p ref m a b,
  price_ok p -> ref_ok ref -> 0 <= f < 2 ^ 128 ->
  pipeline true (Some f) p ref = Ok (true, (m, a, b)) ->
  let r := ref_unit p ref in let dev := dev_of f p ref in
  0 < a <= b /\ r - dev <= a * 10 ^ m <= b * 10 ^ m /\ b * 10 ^ m <= r + dev.
Proof. exact pipeline_adjusted_in_band. Qed.

(* Accepted WITHOUT adjustment: the adjustment function returned None; the price is stored unchanged and
   each side is within the deviation rounded UP to the precision step (< dev + step), or dev = 0 and the
   check is skipped.  This is the complement statement for known class 1 (see c29_rounded_tolerance_refuted). *)
Theorem c29_pipeline_unadjusted_partial : forall allow f p ref m a b,
  price_ok p -> ref_ok ref -> 0 <= f < 2 ^ 128 ->
  pipeline allow (Some f) p ref = Ok (false, (m, a, b)) ->
  let r := ref_unit p ref in let dev := dev_of f p ref in
  (allow = true -> adjust f p ref = Some None) /\
  p = ((a, m), (b, m)) /\ 0 < a <= b /\
  (dev = 0 \/ (abs_diff (b * 10 ^ m) r <= rounded_dev dev m /\ abs_diff (a * 10 ^ m) r <= rounded_dev dev m
               /\ rounded_dev dev m < dev + 10 ^ m)).
Proof. exact pipeline_unadjusted. Qed.

(* the literal property is refuted on that class: adjustment allowed, clamped value not representable,
   price accepted unchanged and strictly outside r +- dev *)
Theorem c29_rounded_tolerance_refuted :
  let p : price := ((4294924050, 8), (4294924050, 8)) in
  let ref := Some (4294967000, 8) in
  let f := 1000 * 10 ^ 12 in
  adjust f p ref = Some None /\
  pipeline true (Some f) p ref = Ok (false, (8, 4294924050, 4294924050)) /\
  dev_of f p ref < abs_diff (umax_of p) (ref_unit p ref).
Proof. exact pipeline_adjust_failed_witness. Qed.

(* The adjustment function ALONE can return an inverted price (reference off the precision grid, deviation
   below half a step, both sides clamped: max = floor, min = ceil); it is the rest of the pipeline
   (SmallPrices::from_price) that rejects it — see c29_pipeline_rejects_inverted for the general statement.
   Same inputs as the real replays in corpus/C29/witness.txt. *)
Theorem c29_adjust_can_invert_pipeline_rejects :
  adjust (10 ^ 15) ((99, 1), (102, 1)) None = Some (Some ((101, 1), (100, 1))) /\
  pipeline true (Some (10 ^ 15)) ((99, 1), (102, 1)) None = Err 1 /\
  adjust (10 ^ 15) ((9, 2), (12, 2)) (Some (1055, 0)) = Some (Some ((11, 2), (10, 2))) /\
  pipeline true (Some (10 ^ 15)) ((9, 2), (12, 2)) (Some (1055, 0)) = Err 1.
Proof. vm_compute. repeat split; reflexivity. Qed.

(* non-vacuity *)
Example c29_ex1 : adjust (10 ^ 18) ((9000, 8), (12000, 8)) (Some (10000, 8)) = Some (Some ((9900, 8), (10100, 8))).
Proof. vm_compute. reflexivity. Qed.
Example c29_ex2 : pipeline true (Some (10 ^ 18)) ((9000, 8), (12000, 8)) (Some (10000, 8)) = Ok (true, (8, 9900, 10100)).
Proof. vm_compute. reflexivity. Qed.
Example c29_ex3 : pipeline false (Some (10 ^ 18)) ((9000, 8), (12000, 8)) (Some (10000, 8)) = Err 2.
Proof. vm_compute. reflexivity. Qed.
(* a band narrower than one precision step around an off-grid mid: clamping inverts the price, from_price rejects *)
Example c29_ex4 : adjust (10 ^ 15) ((99, 1), (102, 1)) None = Some (Some ((101, 1), (100, 1)))
               /\ pipeline true (Some (10 ^ 15)) ((99, 1), (102, 1)) None = Err 1.
Proof. vm_compute. repeat split; reflexivity. Qed.
