(* C23 — property theorems (statements pinned; proofs are in Proofs.v). *)
From GV Require Import lib.Base C23.Model C23.Proofs.
Open Scope Z_scope.

(* ---------- ActionState / ActionHeader: transitions start at Pending only ---------- *)
Theorem c23_completed_only_from_pending : forall s s',
  st_completed s = Some s' <-> (s = Pending /\ s' = Completed).
Proof. intros [] s'; cbn; split; intro H; try discriminate; try (inversion H; auto; fail);
       destruct H as [H1 H2]; try discriminate; subst; auto. Qed.

Theorem c23_cancelled_only_from_pending : forall s s',
  st_cancelled s = Some s' <-> (s = Pending /\ s' = Cancelled).
Proof. intros [] s'; cbn; split; intro H; try discriminate; try (inversion H; auto; fail);
       destruct H as [H1 H2]; try discriminate; subst; auto. Qed.

Theorem c23_header_transitions : forall b b',
  (hdr_completed b = Ok b' -> b = 0 /\ b' = 1) /\ (hdr_cancelled b = Ok b' -> b = 0 /\ b' = 2).
Proof. intros; split; [apply hdr_completed_ok | apply hdr_cancelled_ok]. Qed.

(* ---------- terminal states are absorbing, for every history ---------- *)
Theorem c23_terminal_absorbing : forall ops1 ops2 id a,
  get (run ops1 w0) id = Some a -> byte_terminal (a_state a) = true ->
  exists a', get (run (ops1 ++ ops2) w0) id = Some a' /\ a_state a' = a_state a /\
             a_done a' = a_done a /\ a_cancel a' = a_cancel a.
Proof. exact terminal_absorbing_run. Qed.

(* ---------- exactly once ---------- *)
Theorem c23_exactly_once : forall ops id a,
  get (run ops w0) id = Some a ->
  a_done a + a_cancel a = ind (byte_terminal (a_state a)) /\
  (a_done a = 1 <-> a_state a = 1) /\ (a_cancel a = 1 <-> a_state a = 2) /\
  0 <= a_done a <= 1 /\ 0 <= a_cancel a <= 1.
Proof. exact exactly_once. Qed.

Theorem c23_transition_counters_monotone : forall ops1 ops2 id a,
  get (run ops1 w0) id = Some a ->
  exists a', get (run (ops1 ++ ops2) w0) id = Some a' /\ a_done a <= a_done a' /\ a_cancel a <= a_cancel a'.
Proof. exact transitions_monotone. Qed.

Theorem c23_closed_is_final : forall ops w id a,
  get w id = Some a -> a_open a = false -> get (run ops w) id = Some a.
Proof. exact closed_is_final. Qed.

(* ---------- who may close ---------- *)
(* any successful close instruction: the caller is the owner, or holds the keeper role and the
   action is terminal, or (GLV shift only) holds the role and is the shift's funder *)
Theorem c23_close_rules : forall w caller r id ce ao a1 a2 w' a,
  step w (Close caller r id ce ao a1 a2) = Ok w' -> get w id = Some a ->
  a_open a = true /\
  (caller = a_owner a \/
   (r = true /\ (byte_terminal (a_state a) = true \/ (a_kind a = 6 /\ caller = a_funder a)))).
Proof. exact close_rules. Qed.

(* pending close: owner only (or the funder of a GLV shift), and everything comes back *)
Theorem c23_pending_close_owner_only_full_refund : forall ops caller r id ce ao a1 a2 w' a a',
  step (run ops w0) (Close caller r id ce ao a1 a2) = Ok w' ->
  get (run ops w0) id = Some a -> get w' id = Some a' ->
  a_state a = 0 -> a_open a' = false ->
  (caller = a_owner a \/ (a_kind a = 6 /\ caller = a_funder a /\ r = true)) /\
  a_paid1 a' = a_funded1 a /\ a_paid2 a' = a_funded2 a /\ a_paid_lamports a' = a_lamports_in a /\
  a_fee_paid a = 0.
Proof. exact pending_close_full_refund. Qed.

(* every close that removes the account delivers all escrowed tokens and all lamports *)
Theorem c23_close_refund : forall w caller r id ce ao a1 a2 w' a a',
  step w (Close caller r id ce ao a1 a2) = Ok w' -> get w id = Some a -> get w' id = Some a' ->
  a_open a' = false ->
  a_paid1 a' = a_paid1 a + a_esc1 a /\ a_paid2 a' = a_paid2 a + a_esc2 a /\
  a_paid_out a' = a_paid_out a + a_esc_out a /\ a_paid_lamports a' = a_paid_lamports a + a_lamports a /\
  a_esc1 a' = 0 /\ a_esc2 a' = 0 /\ a_esc_out a' = 0 /\ a_lamports a' = 0 /\ a_state a' = a_state a.
Proof. exact close_refund. Qed.

Theorem c23_close_frame : forall w caller r id ce ao a1 a2 w',
  step w (Close caller r id ce ao a1 a2) = Ok w' ->
  w_bal1 w' = w_bal1 w /\ w_bal2 w' = w_bal2 w /\ w_rev w' = w_rev w /\
  forall id', id' <> id -> get w' id' = get w id'.
Proof. exact close_frame. Qed.

(* ---------- execution ---------- *)
Theorem c23_execute_rules : forall w k kp id oc throw fee out w' a,
  step w (Execute k kp id oc throw fee out) = Ok w' -> get w id = Some a ->
  k = true /\ a_open a = true /\ a_state a = 0.
Proof. exact execute_rules. Qed.

(* a failed execution that does not abort the transaction cancels the action, gives the escrow
   back untouched and leaves the market (balances and revision) and all other actions as they were *)
Theorem c23_failed_execution_cancels_without_market_change : forall w k kp id oc throw fee out w' a,
  step w (Execute k kp id oc throw fee out) = Ok w' -> get w id = Some a ->
  oc <> ExOk ->
  exists a',
    get w' id = Some a' /\ a_state a = 0 /\ a_state a' = 2 /\ throw = false /\
    a_cancel a' = a_cancel a + 1 /\ a_done a' = a_done a /\
    a_esc1 a' = a_esc1 a /\ a_esc2 a' = a_esc2 a /\ a_esc_out a' = a_esc_out a /\
    a_lamports a - a_lamports a' = execution_lamports (a_max_exec a) fee /\
    w_bal1 w' = w_bal1 w /\ w_bal2 w' = w_bal2 w /\ w_rev w' = w_rev w /\
    forall id', id' <> id -> get w' id' = get w id'.
Proof. exact failed_execution. Qed.

(* hard failures (throw_on_execution_error) and all other errors change nothing at all *)
Theorem c23_hard_failure_is_noop : forall w k kp id oc fee out,
  oc <> ExOk -> apply w (Execute k kp id oc true fee out) = w.
Proof.
  intros. destruct (hard_failure_errors w k kp id oc fee out H) as [e He].
  eapply error_is_noop; eauto.
Qed.

Theorem c23_successful_execution_completes : forall w k kp id throw fee out w' a,
  step w (Execute k kp id ExOk throw fee out) = Ok w' -> get w id = Some a ->
  exists a',
    get w' id = Some a' /\ a_state a = 0 /\ a_state a' = 1 /\ a_done a' = a_done a + 1 /\
    a_esc1 a' = a_esc1 a - a_in1 a /\ a_esc2 a' = a_esc2 a - a_in2 a /\
    w_bal1 w' = w_bal1 w + a_in1 a /\ w_bal2 w' = w_bal2 w + a_in2 a.
Proof. exact successful_execution. Qed.

(* ---------- escrow always goes home ---------- *)
Theorem c23_escrow_accounting : forall ops id a,
  get (run ops w0) id = Some a ->
  a_funded1 a = a_esc1 a + a_paid1 a + (if a_state a =? 1 then a_in1 a else 0) /\
  a_funded2 a = a_esc2 a + a_paid2 a + (if a_state a =? 1 then a_in2 a else 0) /\
  a_lamports_in a = a_lamports a + a_fee_paid a + a_paid_lamports a /\
  0 <= a_fee_paid a <= a_max_exec a * (a_done a + a_cancel a) /\
  (a_open a = false -> a_esc1 a = 0 /\ a_esc2 a = 0 /\ a_esc_out a = 0 /\ a_lamports a = 0).
Proof. exact escrow_accounting. Qed.

Theorem c23_market_accounting : forall ops,
  w_bal1 (run ops w0) = sum_of consumed1 (w_actions (run ops w0)) /\
  w_bal2 (run ops w0) = sum_of consumed2 (w_actions (run ops w0)).
Proof. exact market_accounting. Qed.

(* ---------- non-vacuity ---------- *)
Definition demo : list op :=
  [ Create 100 200 0 500 70 200000 800;                       (* deposit by 100 *)
    Create 101 200 6 0 0 0 1200;                              (* GLV shift funded by keeper 200 *)
    Execute true 200 0 ExFail false 250000 0;                 (* soft failure: cancelled *)
    Close 300 false 0 true true true true;                    (* stranger: rejected *)
    Close 200 true 0 true true true true;                     (* keeper closes the cancelled deposit *)
    Close 200 true 1 true true true true ].                   (* funder closes the pending GLV shift *)

Example c23_demo_final :
  map (fun a => (a_open a, a_state a, a_paid1 a, a_paid2 a, a_fee_paid a)) (w_actions (run demo w0))
  = [ (false, 2, 500, 70, 200000); (false, 0, 0, 0, 0) ] /\
  w_bal1 (run demo w0) = 0 /\ w_rev (run demo w0) = 0.
Proof. vm_compute. repeat split. Qed.

Example c23_demo_completed :
  let w := run [ Create 100 200 3 500 0 300000 800; Execute true 200 0 ExOk false 1000 42;
                 Execute true 200 0 ExOk false 1000 42; CancelIfNoPosition true 0;
                 Close 100 false 0 true true true true ] w0 in
  map (fun a => (a_open a, a_state a, a_done a, a_cancel a, a_paid_out a, a_paid1 a)) (w_actions w)
  = [ (false, 1, 1, 0, 42, 0) ] /\ w_bal1 w = 500 /\ w_rev w = 1.
Proof. vm_compute. repeat split. Qed.
