(* C23 — correspondence and oracle predicates on the cases printed by harness/src/bin/c23.rs.
   Imports Model only. *)
From GV Require Export lib.Base C23.Model.
Open Scope Z_scope.

Definition snap := (action * Z * Z * Z)%type.   (* addressed action after the op, bal1, bal2, rev *)

Inductive case :=
(* enum level: s0, then (op, result): op 0 completed 1 cancelled (result = new state index or -1),
   2 is_pending 3 is_completed 4 is_cancelled 5 is_completed_or_cancelled (result 0/1) *)
| StTrans (s0 : Z) (ops : list (Z * Z))
(* header level on the raw byte: op 0 completed 1 cancelled (Ok new byte) 2 action_state (Ok index);
   third component = byte after the call *)
| HdrTrans (b0 : Z) (ops : list (Z * res Z * Z))
(* real Close::preprocess on CloseDeposit (kind <> 6) / CloseGlvShift (kind 6) *)
| Preproc (kind caller owner funder : Z) (has_role : bool) (b : Z) (r : res bool)
(* real execution_lamports (x) and PayExecutionFeeOperation: Ok (payer lamports after, receiver gain) *)
| PayFee (lamports data_len max_exec fee x : Z) (r : res (Z * Z))
(* lifecycle history *)
| Hist (ops : list (op * res snap)).

(* ---------------- helpers ---------------- *)
Definition st_of_idx (i : Z) : astate := if i =? 0 then Pending else if i =? 1 then Completed else Cancelled.
Definition idx_of_st (s : astate) : Z := byte_of_state s.
Definition b2z (x : bool) : Z := if x then 1 else 0.

Definition res_eqb {A} (eq : A -> A -> bool) (a b : res A) : bool :=
  match a, b with
  | Ok x, Ok y => eq x y
  | Err x, Err y => x =? y
  | _, _ => false
  end.

Definition action_eqb (a b : action) : bool :=
  Bool.eqb (a_open a) (a_open b) && (a_kind a =? a_kind b) && (a_state a =? a_state b) &&
  (a_owner a =? a_owner b) && (a_funder a =? a_funder b) && (a_in1 a =? a_in1 b) && (a_in2 a =? a_in2 b) &&
  (a_esc1 a =? a_esc1 b) && (a_esc2 a =? a_esc2 b) && (a_esc_out a =? a_esc_out b) &&
  (a_lamports a =? a_lamports b) && (a_min_balance a =? a_min_balance b) && (a_max_exec a =? a_max_exec b) &&
  (a_done a =? a_done b) && (a_cancel a =? a_cancel b) &&
  (a_paid1 a =? a_paid1 b) && (a_paid2 a =? a_paid2 b) && (a_paid_out a =? a_paid_out b) &&
  (a_paid_lamports a =? a_paid_lamports b) && (a_fee_paid a =? a_fee_paid b) &&
  (a_funded1 a =? a_funded1 b) && (a_funded2 a =? a_funded2 b) && (a_lamports_in a =? a_lamports_in b).

(* ---------------- correspondence ---------------- *)
Fixpoint corr_st (s : astate) (ops : list (Z * Z)) : bool :=
  match ops with
  | [] => true
  | (o, r) :: rest =>
      if o =? 0 then
        match st_completed s with
        | Some s' => (r =? idx_of_st s') && corr_st s' rest
        | None => (r =? -1) && corr_st s rest
        end
      else if o =? 1 then
        match st_cancelled s with
        | Some s' => (r =? idx_of_st s') && corr_st s' rest
        | None => (r =? -1) && corr_st s rest
        end
      else
        let p := if o =? 2 then st_is_pending s else if o =? 3 then st_is_completed s
                 else if o =? 4 then st_is_cancelled s else st_is_terminal s in
        (r =? b2z p) && corr_st s rest
  end.

Fixpoint corr_hdr (b : Z) (ops : list (Z * res Z * Z)) : bool :=
  match ops with
  | [] => true
  | (o, r, after) :: rest =>
      let m := if o =? 0 then hdr_completed b else if o =? 1 then hdr_cancelled b
               else (s <-- state_of_byte b ;; Ok (idx_of_st s)) in
      let b' := if o =? 2 then b else match m with Ok nb => nb | Err _ => b end in
      res_eqb Z.eqb m r && (after =? b') && corr_hdr b' rest
  end.

Definition focus (o : op) (w : world) : Z :=
  match o with
  | Create _ _ _ _ _ _ _ => Z.of_nat (length (w_actions w)) - 1
  | Execute _ _ id _ _ _ _ => id
  | Close _ _ id _ _ _ _ => id
  | CancelIfNoPosition _ id => id
  end.

Definition snap_ok (w : world) (id : Z) (s : snap) : bool :=
  let '(a, b1, b2, rev) := s in
  match get w id with
  | Some a' => action_eqb a a' && (b1 =? w_bal1 w) && (b2 =? w_bal2 w) && (rev =? w_rev w)
  | None => false
  end.

Fixpoint corr_hist (w : world) (ops : list (op * res snap)) : bool :=
  match ops with
  | [] => true
  | (o, r) :: rest =>
      match step w o, r with
      | Ok w', Ok s => snap_ok w' (focus o w') s && corr_hist w' rest
      | Err e, Err e' => (e =? e') && corr_hist w rest
      | _, _ => false
      end
  end.

Definition corr_b (c : case) : bool :=
  match c with
  | StTrans s0 ops => corr_st (st_of_idx s0) ops
  | HdrTrans b0 ops => corr_hdr b0 ops
  | Preproc kind caller owner funder has_role b r =>
      res_eqb Bool.eqb (preprocess caller owner has_role (skip_check kind caller funder) b) r
  | PayFee lamports data_len max_exec fee x r =>
      (execution_lamports max_exec fee =? x) &&
      res_eqb (fun p q => (fst p =? fst q) && (snd p =? snd q))
              (pay_fee lamports (rent_min data_len) x) r
  | Hist ops => corr_hist w0 ops
  end.

(* ---------------- oracle: the property on the implementation's outputs ----------------
   Written directly on the printed values (no model step function). *)

(* enum level: a transition succeeds only from Pending (index 0) and then lands on the
   requested terminal state; once terminal, nothing succeeds any more. *)
Fixpoint oracle_st (s : Z) (ops : list (Z * Z)) : bool :=
  match ops with
  | [] => true
  | (o, r) :: rest =>
      if (o =? 0) || (o =? 1) then
        if s =? 0 then (r =? o + 1) && oracle_st r rest
        else (r =? -1) && oracle_st s rest
      else
        (r =? b2z (if o =? 2 then s =? 0 else if o =? 3 then s =? 1 else if o =? 4 then s =? 2
                   else negb (s =? 0))) && oracle_st s rest
  end.

Fixpoint oracle_hdr (b : Z) (ops : list (Z * res Z * Z)) : bool :=
  match ops with
  | [] => true
  | (o, r, after) :: rest =>
      (if o =? 2 then
         (after =? b) &&
         match r with Ok i => (0 <=? b) && (b <=? 2) && (i =? b) | Err e => (e =? 1) && negb ((0 <=? b) && (b <=? 2)) end
       else
         match r with
         | Ok nb => (b =? 0) && (nb =? o + 1) && (after =? nb)
         | Err e => (after =? b) && negb (b =? 0) && (if (b =? 1) || (b =? 2) then e =? 2 else e =? 1)
         end)
      && oracle_hdr after rest
  end.

(* last printed snapshot of an action id *)
Fixpoint last_snap (seen : list (Z * action)) (id : Z) : option action :=
  match seen with
  | [] => None
  | (i, a) :: r => if i =? id then Some a else last_snap r id
  end.

Definition terminal_b (b : Z) : bool := (b =? 1) || (b =? 2).

(* per-action bookkeeping facts that must hold of every printed action *)
Definition action_facts (a : action) : bool :=
  (* exactly once: one transition iff terminal, of the matching kind *)
  (a_done a + a_cancel a =? (if terminal_b (a_state a) then 1 else 0)) &&
  (a_done a =? (if a_state a =? 1 then 1 else 0)) &&
  (a_cancel a =? (if a_state a =? 2 then 1 else 0)) &&
  (* inputs are in escrow, back home, or consumed by the one completed execution *)
  (a_funded1 a =? a_esc1 a + a_paid1 a + (if a_state a =? 1 then a_in1 a else 0)) &&
  (a_funded2 a =? a_esc2 a + a_paid2 a + (if a_state a =? 1 then a_in2 a else 0)) &&
  (a_lamports_in a =? a_lamports a + a_fee_paid a + a_paid_lamports a) &&
  (a_fee_paid a <=? a_max_exec a * (a_done a + a_cancel a)) &&
  (* a closed action has nothing left *)
  (if a_open a then a_min_balance a <=? a_lamports a
   else (a_esc1 a =? 0) && (a_esc2 a =? 0) && (a_esc_out a =? 0) && (a_lamports a =? 0)) &&
  (0 <=? a_esc1 a) && (0 <=? a_esc2 a) && (0 <=? a_esc_out a).

Definition oracle_step (pre : option action) (pb1 pb2 prev : Z) (o : op) (s : snap) : bool :=
  let '(a, b1, b2, rev) := s in
  action_facts a &&
  match o, pre with
  | Create owner funder kind in1 in2 exec dl, _ =>
      a_open a && (a_state a =? 0) && (a_esc1 a =? in1) && (a_esc2 a =? in2) && (a_owner a =? owner) &&
      (b1 =? pb1) && (b2 =? pb2) && (rev =? prev)
  | Execute is_keeper _ _ oc throw fee out, Some p =>
      is_keeper && a_open p && (a_state p =? 0) && terminal_b (a_state a) &&
      (match oc with
       | ExOk => (a_state a =? 1) && (b1 =? pb1 + a_in1 p) && (b2 =? pb2 + a_in2 p)
       | ExOracleErr => false
       | _ => (* failed execution: cancelled, escrow intact, market untouched *)
              negb throw && (a_state a =? 2) && (b1 =? pb1) && (b2 =? pb2) && (rev =? prev) &&
              (a_esc1 a =? a_esc1 p) && (a_esc2 a =? a_esc2 p) && (a_esc_out a =? a_esc_out p)
       end) &&
      (a_fee_paid a - a_fee_paid p =? Z.min fee (a_max_exec p)) &&
      (a_lamports p - a_lamports a =? Z.min fee (a_max_exec p))
  | Close caller has_role _ ce _ _ _, Some p =>
      a_open p && (b1 =? pb1) && (b2 =? pb2) && (rev =? prev) &&
      (a_state a =? a_state p) &&
      (* whoever closes: owner, or a role holder on a terminal action, or the funder of a GLV shift *)
      ((caller =? a_owner p) ||
       (has_role && (terminal_b (a_state p) || ((a_kind p =? 6) && (caller =? a_funder p))))) &&
      implb (a_state p =? 0) ce &&
      (* nothing is ever taken away from the owner: payouts only grow by what leaves the escrow *)
      (a_paid1 a - a_paid1 p =? a_esc1 p - a_esc1 a) && (a_paid2 a - a_paid2 p =? a_esc2 p - a_esc2 a) &&
      (a_paid_out a - a_paid_out p =? a_esc_out p - a_esc_out a) &&
      (if a_open a then a_lamports a =? a_lamports p
       else (* closed: every escrowed token and every remaining lamport went home *)
            (a_paid1 a - a_paid1 p =? a_esc1 p) && (a_paid2 a - a_paid2 p =? a_esc2 p) &&
            (a_paid_out a - a_paid_out p =? a_esc_out p) &&
            (a_paid_lamports a - a_paid_lamports p =? a_lamports p))
  | CancelIfNoPosition is_keeper _, Some p =>
      is_keeper && a_open p && (a_kind p =? 3) && (a_state p =? 0) && (a_state a =? 2) &&
      (b1 =? pb1) && (b2 =? pb2) && (rev =? prev) &&
      (a_esc1 a =? a_esc1 p) && (a_esc2 a =? a_esc2 p) && (a_lamports a =? a_lamports p)
  | _, None => false
  end.

Fixpoint oracle_hist (seen : list (Z * action)) (n b1 b2 rev : Z) (ops : list (op * res snap)) : bool :=
  match ops with
  | [] => true
  | (o, r) :: rest =>
      match r with
      | Err _ => oracle_hist seen n b1 b2 rev rest
      | Ok s =>
          let '(a, nb1, nb2, nrev) := s in
          let id := match o with
                    | Create _ _ _ _ _ _ _ => n
                    | Execute _ _ i _ _ _ _ => i
                    | Close _ _ i _ _ _ _ => i
                    | CancelIfNoPosition _ i => i
                    end in
          let n' := match o with Create _ _ _ _ _ _ _ => n + 1 | _ => n end in
          let pre := last_snap seen id in
          (* terminal states are absorbing, and a closed action never comes back *)
          (match pre with
           | Some p => implb (terminal_b (a_state p)) (a_state a =? a_state p) &&
                       (a_done p <=? a_done a) && (a_cancel p <=? a_cancel a) && a_open p
           | None => true
           end) &&
          oracle_step pre b1 b2 rev o s &&
          oracle_hist ((id, a) :: seen) n' nb1 nb2 nrev rest
      end
  end.

Definition oracle_b (c : case) : bool :=
  match c with
  | StTrans s0 ops => (0 <=? s0) && (s0 <=? 2) && oracle_st s0 ops
  | HdrTrans b0 ops => oracle_hdr b0 ops
  | Preproc kind caller owner funder has_role b r =>
      match r with
      | Ok true => caller =? owner
      | Ok false => negb (caller =? owner) && has_role &&
                    (terminal_b b || ((kind =? 6) && (caller =? funder)))
      | Err _ => negb (caller =? owner) &&
                 negb (has_role && (terminal_b b || ((kind =? 6) && (caller =? funder))))
      end
  | PayFee lamports data_len max_exec fee x r =>
      (x =? Z.min fee max_exec) &&
      match r with
      | Ok (after, gain) => (gain =? x) && (after =? lamports - x) && ((128 + data_len) * 6960 <=? after)
      | Err e => (e =? 4) && (lamports - x <? (128 + data_len) * 6960)
      end
  | Hist ops => oracle_hist [] 0 0 0 0 ops
  end.

Definition known_b (c : case) : Z := 0.
