(* C23 — lemmas about the lifecycle model. *)
From GV Require Import lib.Base C23.Model.
Open Scope Z_scope.

(* ------------------------------------------------------------------ tactics *)
Ltac dres H :=
  repeat (unfold rbind in H;
  match type of H with
  | (match ?x with _ => _ end) = _ =>
      let E := fresh "E" in destruct x eqn:E; try discriminate H
  | (if ?x then _ else _) = _ =>
      let E := fresh "E" in destruct x eqn:E; try discriminate H
  | (let '(_, _) := ?x in _) = _ =>
      let E := fresh "E" in destruct x eqn:E
  end).

Ltac inv H := inversion H; subst; clear H.

(* ------------------------------------------------------------------ state byte *)
Lemma hdr_completed_ok b b' : hdr_completed b = Ok b' -> b = 0 /\ b' = 1.
Proof.
  unfold hdr_completed, state_of_byte, rbind. intro H.
  destruct (b =? 0) eqn:E0; [apply Z.eqb_eq in E0; cbn in H; inv H; auto|].
  destruct (b =? 1) eqn:E1; [cbn in H; discriminate|].
  destruct (b =? 2) eqn:E2; cbn in H; discriminate.
Qed.

Lemma hdr_cancelled_ok b b' : hdr_cancelled b = Ok b' -> b = 0 /\ b' = 2.
Proof.
  unfold hdr_cancelled, state_of_byte, rbind. intro H.
  destruct (b =? 0) eqn:E0; [apply Z.eqb_eq in E0; cbn in H; inv H; auto|].
  destruct (b =? 1) eqn:E1; [cbn in H; discriminate|].
  destruct (b =? 2) eqn:E2; cbn in H; discriminate.
Qed.

Lemma state_of_byte_ok b s : state_of_byte b = Ok s -> b = byte_of_state s.
Proof.
  unfold state_of_byte. intro H.
  destruct (b =? 0) eqn:E0; [apply Z.eqb_eq in E0; inv H; auto|].
  destruct (b =? 1) eqn:E1; [apply Z.eqb_eq in E1; inv H; auto|].
  destruct (b =? 2) eqn:E2; [apply Z.eqb_eq in E2; inv H; auto|discriminate].
Qed.

(* terminal states reject every transition: the heart of "exactly once" *)
Lemma hdr_completed_terminal b : byte_terminal b = true -> exists e, hdr_completed b = Err e.
Proof.
  unfold byte_terminal. intro H. apply Bool.orb_true_iff in H as [H|H]; apply Z.eqb_eq in H; subst;
    cbn; eauto.
Qed.
Lemma hdr_cancelled_terminal b : byte_terminal b = true -> exists e, hdr_cancelled b = Err e.
Proof.
  unfold byte_terminal. intro H. apply Bool.orb_true_iff in H as [H|H]; apply Z.eqb_eq in H; subst;
    cbn; eauto.
Qed.

(* ------------------------------------------------------------------ preprocess *)
Lemma preprocess_ok_true caller owner r s b :
  preprocess caller owner r s b = Ok true -> caller = owner.
Proof.
  unfold preprocess, rbind. intro H.
  destruct (caller =? owner) eqn:E; [apply Z.eqb_eq in E; auto|].
  destruct r; cbn in H; try discriminate.
  destruct s; try discriminate.
  destruct (state_of_byte b); try discriminate. destruct (st_is_terminal a); discriminate.
Qed.

Lemma preprocess_ok_false caller owner r s b :
  preprocess caller owner r s b = Ok false ->
  caller <> owner /\ r = true /\ (s = true \/ byte_terminal b = true).
Proof.
  unfold preprocess, rbind. intro H.
  destruct (caller =? owner) eqn:E; [discriminate|]. apply Z.eqb_neq in E.
  destruct r; cbn in H; try discriminate.
  split; auto. split; auto.
  destruct s; auto. right.
  destruct (state_of_byte b) eqn:Es; try discriminate.
  apply state_of_byte_ok in Es. subst b.
  destruct a; cbn in *; try discriminate; auto.
Qed.

Lemma preprocess_ok caller owner r s b io :
  preprocess caller owner r s b = Ok io ->
  caller = owner \/ (r = true /\ (s = true \/ byte_terminal b = true)).
Proof.
  destruct io; intro H.
  - left. eapply preprocess_ok_true; eauto.
  - right. apply preprocess_ok_false in H. tauto.
Qed.

(* ------------------------------------------------------------------ fee *)
Lemma pay_fee_ok lam mb x lam' paid :
  pay_fee lam mb x = Ok (lam', paid) -> paid = x /\ lam' = lam - x /\ (0 < mb -> mb <= lam').
Proof.
  unfold pay_fee. intro H. destruct (Z.max 0 (lam - x) <? mb) eqn:E; [discriminate|].
  inv H. apply Z.ltb_ge in E. repeat split; auto. lia.
Qed.

Lemma execution_lamports_bounds m f : 0 <= m -> 0 <= f ->
  0 <= execution_lamports m f <= m /\ execution_lamports m f <= f.
Proof. unfold execution_lamports. lia. Qed.

(* ------------------------------------------------------------------ get / put *)
Lemma nth_set_nth_eq l : forall n a x, nth_error l n = Some x -> nth_error (set_nth l n a) n = Some a.
Proof. induction l; intros [|n] b x H; cbn in *; try discriminate; eauto. Qed.

Lemma nth_set_nth_neq l : forall n m a, n <> m -> nth_error (set_nth l n a) m = nth_error l m.
Proof.
  induction l; intros [|n] [|m] b H; cbn in *; try congruence; auto.
Qed.

Lemma length_set_nth l : forall n a, length (set_nth l n a) = length l.
Proof. induction l; intros [|n] b; cbn; auto. Qed.

Lemma get_some_nonneg w id a : get w id = Some a -> 0 <= id.
Proof. unfold get. destruct (id <? 0) eqn:E; [discriminate|]. apply Z.ltb_ge in E. auto. Qed.

Lemma get_put_eq w id a x : get w id = Some x -> get (put w id a) id = Some a.
Proof.
  unfold get, put. cbn. destruct (id <? 0); [discriminate|]. apply nth_set_nth_eq.
Qed.

Lemma get_put_neq w id id' a x : get w id = Some x -> id <> id' -> get (put w id a) id' = get w id'.
Proof.
  intros Hg Hne. pose proof (get_some_nonneg _ _ _ Hg) as H0.
  unfold get, put. cbn. destruct (id' <? 0) eqn:E; auto. apply Z.ltb_ge in E.
  apply nth_set_nth_neq. intro Hc. apply Hne. apply Z2Nat.inj in Hc; auto.
Qed.

Lemma get_with_market w b1 b2 r id : get (with_market w b1 b2 r) id = get w id.
Proof. reflexivity. Qed.

Lemma live_ok w id a : live w id = Ok a -> get w id = Some a /\ a_open a = true.
Proof.
  unfold live. destruct (get w id) eqn:E; [|discriminate].
  destruct (a_open a0) eqn:Eo; [|discriminate]. intro H. inv H. auto.
Qed.

Lemma get_app_old l a b1 b2 r id x :
  get (mkWorld l b1 b2 r) id = Some x -> get (mkWorld (l ++ [a]) b1 b2 r) id = Some x.
Proof.
  unfold get. cbn. destruct (id <? 0); [discriminate|]. intro H.
  rewrite nth_error_app1; auto. apply nth_error_Some. congruence.
Qed.

(* ------------------------------------------------------------------ invariant *)
Definition ind (c : bool) : Z := if c then 1 else 0.

Record ainv (a : action) : Prop := {
  i_state : a_state a = 0 \/ a_state a = 1 \/ a_state a = 2;
  i_done : a_done a = ind (a_state a =? 1);
  i_cancel : a_cancel a = ind (a_state a =? 2);
  i_tok1 : a_funded1 a = a_esc1 a + a_paid1 a + (if a_state a =? 1 then a_in1 a else 0);
  i_tok2 : a_funded2 a = a_esc2 a + a_paid2 a + (if a_state a =? 1 then a_in2 a else 0);
  i_lam : a_lamports_in a = a_lamports a + a_fee_paid a + a_paid_lamports a;
  i_fee : 0 <= a_fee_paid a <= a_max_exec a * (a_done a + a_cancel a);
  i_closed : a_open a = false -> a_esc1 a = 0 /\ a_esc2 a = 0 /\ a_esc_out a = 0 /\ a_lamports a = 0;
  i_open : a_open a = true -> a_min_balance a <= a_lamports a;
  i_nonneg : 0 <= a_esc1 a /\ 0 <= a_esc2 a /\ 0 <= a_esc_out a /\ 0 <= a_in1 a /\ 0 <= a_in2 a /\
             0 <= a_max_exec a /\ 0 < a_min_balance a /\ 0 <= a_paid1 a /\ 0 <= a_paid2 a /\
             0 <= a_paid_out a /\ 0 <= a_paid_lamports a
}.

Definition consumed1 (a : action) : Z := if a_state a =? 1 then a_in1 a else 0.
Definition consumed2 (a : action) : Z := if a_state a =? 1 then a_in2 a else 0.
Fixpoint sum_of (f : action -> Z) (l : list action) : Z :=
  match l with [] => 0 | a :: r => f a + sum_of f r end.

Record winv (w : world) : Prop := {
  wi_all : forall id a, get w id = Some a -> ainv a;
  wi_bal1 : w_bal1 w = sum_of consumed1 (w_actions w);
  wi_bal2 : w_bal2 w = sum_of consumed2 (w_actions w);
  wi_rev : 0 <= w_rev w
}.

Lemma sum_of_app f l1 l2 : sum_of f (l1 ++ l2) = sum_of f l1 + sum_of f l2.
Proof. induction l1; cbn; lia. Qed.

Lemma sum_of_set_nth f l : forall n a x, nth_error l n = Some x ->
  sum_of f (set_nth l n a) = sum_of f l - f x + f a.
Proof.
  induction l; intros [|n] b x H; cbn in *; try discriminate.
  - inv H. lia.
  - rewrite (IHl _ _ _ H). lia.
Qed.

Lemma sum_put f w id a x : get w id = Some x ->
  sum_of f (w_actions (put w id a)) = sum_of f (w_actions w) - f x + f a.
Proof.
  unfold get, put. cbn. destruct (id <? 0); [discriminate|]. apply sum_of_set_nth.
Qed.

Lemma winv_w0 : winv w0.
Proof.
  split; cbn; try lia. intros id a H. unfold get in H. cbn in H.
  destruct (id <? 0); [discriminate|]. destruct (Z.to_nat id); discriminate.
Qed.

(* the invariant is kept when one action is replaced by another that satisfies it and
   the market balances are updated by the change of its consumed amounts *)
Lemma winv_put w id a x b1 b2 r :
  winv w -> get w id = Some x -> ainv a ->
  b1 = w_bal1 w - consumed1 x + consumed1 a ->
  b2 = w_bal2 w - consumed2 x + consumed2 a -> 0 <= r ->
  winv (with_market (put w id a) b1 b2 r).
Proof.
  intros [Ha H1 H2 Hr] Hg Hi Hb1 Hb2 Hr'. split; cbn [w_bal1 w_bal2 w_rev with_market]; auto.
  - intros id' a' Hg'. rewrite get_with_market in Hg'.
    destruct (Z.eq_dec id id') as [->|Hne].
    + rewrite (get_put_eq _ _ _ _ Hg) in Hg'. inv Hg'. auto.
    + rewrite (get_put_neq _ _ _ _ _ Hg Hne) in Hg'. eauto.
  - change (w_actions (with_market (put w id a) b1 b2 r)) with (w_actions (put w id a)).
    rewrite (sum_put _ _ _ _ _ Hg). lia.
  - change (w_actions (with_market (put w id a) b1 b2 r)) with (w_actions (put w id a)).
    rewrite (sum_put _ _ _ _ _ Hg). lia.
Qed.

Lemma put_as_with_market w id a : put w id a = with_market (put w id a) (w_bal1 w) (w_bal2 w) (w_rev w).
Proof. reflexivity. Qed.

(* ------------------------------------------------------------------ step inversion lemmas *)

(* What a successful Execute does. *)
Lemma step_execute_inv w k id oc throw fee out w' :
  step_execute w k id oc throw fee out = Ok w' ->
  exists a d st x,
    k = true /\ get w id = Some a /\ a_open a = true /\ 0 <= fee /\ 0 <= out /\
    a_in1 a <= a_esc1 a /\ a_in2 a <= a_esc2 a /\
    exec_decision oc throw = Ok d /\
    (if d then hdr_completed (a_state a) else hdr_cancelled (a_state a)) = Ok st /\
    x = execution_lamports (a_max_exec a) fee /\
    (Z.max 0 (a_lamports a - x) <? a_min_balance a) = false /\
    w' = (if d then
            with_market (put w id (upd_exec a st (a_esc1 a - a_in1 a) (a_esc2 a - a_in2 a) (a_esc_out a + out)
                                            (a_lamports a - x) (a_done a + 1) (a_cancel a) (a_fee_paid a + x)))
                        (w_bal1 w + a_in1 a) (w_bal2 w + a_in2 a) (w_rev w + 1)
          else put w id (upd_exec a st (a_esc1 a) (a_esc2 a) (a_esc_out a) (a_lamports a - x)
                                  (a_done a) (a_cancel a + 1) (a_fee_paid a + x))).
Proof.
  unfold step_execute. intro H.
  destruct k; cbn [negb] in H; [|discriminate].
  destruct ((fee <? 0) || (out <? 0)) eqn:Ef; [discriminate|].
  apply Bool.orb_false_iff in Ef as [Ef1 Ef2]. apply Z.ltb_ge in Ef1, Ef2.
  unfold rbind in H. destruct (live w id) eqn:El; [|discriminate].
  apply live_ok in El as [Hg Ho].
  destruct ((a_esc1 a <? a_in1 a) || (a_esc2 a <? a_in2 a)) eqn:Ee; [discriminate|].
  apply Bool.orb_false_iff in Ee as [Ee1 Ee2]. apply Z.ltb_ge in Ee1, Ee2.
  destruct (exec_decision oc throw) eqn:Ed; [|discriminate].
  destruct (if a0 then hdr_completed (a_state a) else hdr_cancelled (a_state a)) eqn:Es; [|discriminate].
  unfold pay_fee in H.
  destruct (Z.max 0 (a_lamports a - execution_lamports (a_max_exec a) fee) <? a_min_balance a) eqn:Ep;
    [discriminate|].
  exists a, a0, a1, (execution_lamports (a_max_exec a) fee).
  repeat split; auto.
  destruct a0; inv H; reflexivity.
Qed.

(* the possible results of process + close in step_close *)
Definition close_stage0 (a : action) : action := a.
Definition close_stage1 (a : action) : action :=
  upd_close a true (a_esc1 a) (a_esc2 a) 0 (a_lamports a)
            (a_paid1 a) (a_paid2 a) (a_paid_out a + a_esc_out a) (a_paid_lamports a).
Definition close_stage2 (a : action) : action :=
  upd_close a true 0 (a_esc2 a) 0 (a_lamports a)
            (a_paid1 a + a_esc1 a) (a_paid2 a) (a_paid_out a + a_esc_out a) (a_paid_lamports a).
Definition close_stage3 (a : action) : action :=
  upd_close a false 0 0 0 0
            (a_paid1 a + a_esc1 a) (a_paid2 a + a_esc2 a) (a_paid_out a + a_esc_out a)
            (a_paid_lamports a + a_lamports a).

Lemma step_close_inv w caller r id ce ao a1 a2 w' :
  step_close w caller r id ce ao a1 a2 = Ok w' ->
  exists a s io,
    get w id = Some a /\ a_open a = true /\
    (a_kind a = 6 -> r = true) /\
    state_of_byte (a_state a) = Ok s /\ (st_is_pending s = true -> ce = true) /\
    preprocess caller (a_owner a) r (skip_check (a_kind a) caller (a_funder a)) (a_state a) = Ok io /\
    (w' = w \/ w' = put w id (close_stage1 a) \/ w' = put w id (close_stage2 a) \/
     w' = put w id (close_stage3 a)).
Proof.
  unfold step_close. intro H. unfold rbind in H.
  destruct (live w id) eqn:El; [|discriminate]. apply live_ok in El as [Hg Ho].
  destruct ((a_kind a =? 6) && negb r) eqn:Ek; [discriminate|].
  destruct (state_of_byte (a_state a)) eqn:Es; [|discriminate].
  destruct (st_is_pending a0 && negb ce) eqn:Ec; [discriminate|].
  destruct (preprocess caller (a_owner a) r (skip_check (a_kind a) caller (a_funder a)) (a_state a)) eqn:Ep;
    [|discriminate].
  exists a, a0, a3.
  split; [exact Hg|]. split; [exact Ho|].
  split.
  { intro Hk. rewrite Hk in Ek. cbn in Ek. destruct r; auto; discriminate. }
  split; [exact Es|].
  split.
  { intro Hp. rewrite Hp in Ec. destruct ce; auto; discriminate. }
  split; [exact Ep|].
  destruct (negb (xfer_ok a3 ao (a_esc_out a))); [inv H; auto|].
  cbn [a_esc1 a_esc2 a_esc_out a_lamports a_paid1 a_paid2 a_paid_out a_paid_lamports upd_close] in H.
  destruct (negb (xfer_ok a3 a1 (a_esc1 a))); [inv H; right; left; reflexivity|].
  destruct (negb (xfer_ok a3 a2 (a_esc2 a))); [inv H; right; right; left; reflexivity|].
  inv H. right; right; right. unfold close_stage3, upd_close. cbn. try reflexivity; repeat f_equal; try lia.
Qed.

Lemma step_cancel_inv w k id w' :
  step_cancel_if_no_position w k id = Ok w' ->
  exists a st, k = true /\ get w id = Some a /\ a_open a = true /\ a_kind a = 3 /\
    hdr_cancelled (a_state a) = Ok st /\
    w' = put w id (upd_exec a st (a_esc1 a) (a_esc2 a) (a_esc_out a) (a_lamports a)
                            (a_done a) (a_cancel a + 1) (a_fee_paid a)).
Proof.
  unfold step_cancel_if_no_position. intro H. destruct k; cbn [negb] in H; [|discriminate].
  unfold rbind in H. destruct (live w id) eqn:El; [|discriminate]. apply live_ok in El as [Hg Ho].
  destruct (a_kind a =? 3) eqn:Ek; cbn [negb] in H; [|discriminate]. apply Z.eqb_eq in Ek.
  destruct (hdr_cancelled (a_state a)) eqn:Es; [|discriminate]. inv H.
  exists a, a0. repeat split; auto.
Qed.

Lemma step_create_inv w owner funder kind in1 in2 exec dl w' :
  step_create w owner funder kind in1 in2 exec dl = Ok w' ->
  0 <= in1 /\ 0 <= in2 /\ 0 <= exec /\ 0 <= dl /\ 0 <= kind <= 6 /\
  w' = mkWorld (w_actions w ++
                [mkAction true kind 0 owner (if kind =? 6 then funder else owner) in1 in2 in1 in2 0
                          (rent_min dl + exec) (rent_min dl) exec 0 0 0 0 0 0 0 in1 in2 (rent_min dl + exec)])
               (w_bal1 w) (w_bal2 w) (w_rev w).
Proof.
  unfold step_create. intro H.
  destruct ((in1 <? 0) || (in2 <? 0) || (exec <? 0) || (dl <? 0) || (kind <? 0) || (6 <? kind)) eqn:E;
    [discriminate|].
  repeat (apply Bool.orb_false_iff in E as [E ?]).
  repeat match goal with H : (_ <? _) = false |- _ => apply Z.ltb_ge in H end.
  inv H. repeat split; auto; lia.
Qed.

(* ------------------------------------------------------------------ invariant preservation *)
Lemma ainv_exec_done a st out x :
  ainv a -> a_open a = true -> hdr_completed (a_state a) = Ok st -> 0 <= out ->
  a_in1 a <= a_esc1 a -> a_in2 a <= a_esc2 a ->
  0 <= x <= a_max_exec a -> a_min_balance a <= a_lamports a - x ->
  ainv (upd_exec a st (a_esc1 a - a_in1 a) (a_esc2 a - a_in2 a) (a_esc_out a + out)
                 (a_lamports a - x) (a_done a + 1) (a_cancel a) (a_fee_paid a + x)).
Proof.
  intros I Ho Hs Hout H1 H2 Hx Hl. apply hdr_completed_ok in Hs as [Hs0 ->].
  destruct I. rewrite Hs0 in *. unfold ind in *. cbn in *.
  split; cbn; unfold ind; cbn; auto; try lia; try (intro; congruence).
Qed.

Lemma ainv_exec_cancel a st x :
  ainv a -> a_open a = true -> hdr_cancelled (a_state a) = Ok st ->
  0 <= x <= a_max_exec a -> a_min_balance a <= a_lamports a - x ->
  ainv (upd_exec a st (a_esc1 a) (a_esc2 a) (a_esc_out a)
                 (a_lamports a - x) (a_done a) (a_cancel a + 1) (a_fee_paid a + x)).
Proof.
  intros I Ho Hs Hx Hl. apply hdr_cancelled_ok in Hs as [Hs0 ->].
  destruct I. rewrite Hs0 in *. unfold ind in *. cbn in *.
  split; cbn; unfold ind; cbn; auto; try lia; try (intro; congruence).
Qed.

Lemma ainv_close1 a : ainv a -> a_open a = true -> ainv (close_stage1 a).
Proof.
  intros [] Ho. split; cbn; auto; try lia; try (intro; discriminate).
Qed.
Lemma ainv_close2 a : ainv a -> a_open a = true -> ainv (close_stage2 a).
Proof.
  intros [] Ho. split; cbn; auto; try lia; try (intro; discriminate).
Qed.
Lemma ainv_close3 a : ainv a -> a_open a = true -> ainv (close_stage3 a).
Proof.
  intros [] Ho. specialize (i_open0 Ho). split; cbn; auto; try lia; try (intro; discriminate); try (intros _; repeat split; lia).
Qed.

Lemma consumed_close a :
  consumed1 (close_stage1 a) = consumed1 a /\ consumed1 (close_stage2 a) = consumed1 a /\
  consumed1 (close_stage3 a) = consumed1 a /\
  consumed2 (close_stage1 a) = consumed2 a /\ consumed2 (close_stage2 a) = consumed2 a /\
  consumed2 (close_stage3 a) = consumed2 a.
Proof. repeat split; reflexivity. Qed.

Lemma step_winv w o w' : winv w -> step w o = Ok w' -> winv w'.
Proof.
  intros W H. destruct o; cbn [step] in H.
  - (* create *)
    apply step_create_inv in H as (H1 & H2 & H3 & H4 & H5 & ->).
    destruct W as [Ha Hb1 Hb2 Hr]. split; cbn [w_actions w_bal1 w_bal2 w_rev]; auto.
    + intros id a Hg. unfold get in Hg. cbn [w_actions] in Hg.
      destruct (id <? 0) eqn:E; [discriminate|].
      destruct (Nat.lt_ge_cases (Z.to_nat id) (length (w_actions w))) as [Hlt|Hge].
      * rewrite nth_error_app1 in Hg by auto. apply (Ha id). unfold get. rewrite E. auto.
      * rewrite nth_error_app2 in Hg by auto.
        destruct (Z.to_nat id - length (w_actions w))%nat as [|n]; cbn in Hg.
        -- inv Hg. assert (0 < rent_min data_len) by (unfold rent_min; lia).
           split; cbn; auto; try lia; try (intro; discriminate).
        -- destruct n; discriminate.
    + rewrite sum_of_app. cbn. lia.
    + rewrite sum_of_app. cbn. lia.
  - (* execute *)
    apply step_execute_inv in H as (a & d & st & x & -> & Hg & Ho & Hf & Hout & H1 & H2 & Hd & Hs & -> & Hp & ->).
    pose proof (wi_all _ W _ _ Hg) as I.
    pose proof (i_nonneg _ I) as Hn.
    pose proof (execution_lamports_bounds (a_max_exec a) fee ltac:(lia) Hf) as [Hx1 Hx2].
    apply Z.ltb_ge in Hp.
    assert (Hl : a_min_balance a <= a_lamports a - execution_lamports (a_max_exec a) fee) by lia.
    destruct d.
    + pose proof Hs as Hs'. apply hdr_completed_ok in Hs' as [Hs0 ->].
      apply winv_put with (x := a); [exact W | exact Hg | | | | ].
      * apply ainv_exec_done; auto; lia.
      * unfold consumed1. cbn. rewrite Hs0. cbn. lia.
      * unfold consumed2. cbn. rewrite Hs0. cbn. lia.
      * pose proof (wi_rev _ W). lia.
    + pose proof Hs as Hs'. apply hdr_cancelled_ok in Hs' as [Hs0 ->].
      rewrite put_as_with_market.
      apply winv_put with (x := a); [exact W | exact Hg | | | | ].
      * apply ainv_exec_cancel; auto; lia.
      * unfold consumed1. cbn. rewrite Hs0. cbn. lia.
      * unfold consumed2. cbn. rewrite Hs0. cbn. lia.
      * apply (wi_rev _ W).
  - (* close *)
    apply step_close_inv in H as (a & s & io & Hg & Ho & _ & _ & _ & _ & Hw).
    pose proof (wi_all _ W _ _ Hg) as I.
    destruct Hw as [-> | [-> | [-> | ->]]]; auto; rewrite put_as_with_market;
      (apply winv_put with (x := a);
       [exact W | exact Hg | | (unfold consumed1, consumed2; cbn; lia) | (unfold consumed1, consumed2; cbn; lia) | apply (wi_rev _ W)]).
    + apply ainv_close1; auto.
    + apply ainv_close2; auto.
    + apply ainv_close3; auto.
  - (* cancel if no position *)
    apply step_cancel_inv in H as (a & st & -> & Hg & Ho & Hk & Hs & ->).
    pose proof (wi_all _ W _ _ Hg) as I.
    pose proof Hs as Hs'. apply hdr_cancelled_ok in Hs' as [Hs0 ->].
    rewrite put_as_with_market.
    apply winv_put with (x := a); [exact W | exact Hg | | | | ].
    + pose proof (ainv_exec_cancel a 2 0 I Ho Hs) as X.
      pose proof (i_nonneg _ I). pose proof (i_open _ I Ho).
      replace (a_lamports a) with (a_lamports a - 0) by lia.
      replace (a_fee_paid a) with (a_fee_paid a + 0) by lia. apply X; lia.
    + unfold consumed1. cbn. rewrite Hs0. cbn. lia.
    + unfold consumed2. cbn. rewrite Hs0. cbn. lia.
    + apply (wi_rev _ W).
Qed.

Lemma apply_winv w o : winv w -> winv (apply w o).
Proof.
  intro W. unfold apply. destruct (step w o) eqn:E; auto. eapply step_winv; eauto.
Qed.

Lemma run_winv ops : forall w, winv w -> winv (run ops w).
Proof.
  induction ops; intros w W; cbn; auto. apply IHops. apply apply_winv; auto.
Qed.

(* ------------------------------------------------------------------ how one step changes one action *)

(* [evolves a a']: what can happen to an existing action in one successful step *)
Definition same_identity (a a' : action) : Prop :=
  a_kind a' = a_kind a /\ a_owner a' = a_owner a /\ a_funder a' = a_funder a /\
  a_in1 a' = a_in1 a /\ a_in2 a' = a_in2 a /\ a_max_exec a' = a_max_exec a /\
  a_min_balance a' = a_min_balance a /\ a_funded1 a' = a_funded1 a /\ a_funded2 a' = a_funded2 a /\
  a_lamports_in a' = a_lamports_in a.

Definition evolves (a a' : action) : Prop :=
  same_identity a a' /\
  (* terminal states are absorbing; any change of state starts at Pending *)
  (a_state a' = a_state a \/ (a_state a = 0 /\ (a_state a' = 1 \/ a_state a' = 2))) /\
  a_done a <= a_done a' /\ a_cancel a <= a_cancel a' /\
  (a_open a = false -> a' = a).

Lemma evolves_refl a : evolves a a.
Proof. unfold evolves, same_identity. repeat split; auto; lia. Qed.

Lemma step_evolves w o w' id a :
  step w o = Ok w' -> get w id = Some a -> exists a', get w' id = Some a' /\ evolves a a'.
Proof.
  intros H Hg. destruct o; cbn [step] in H.
  - apply step_create_inv in H as (_ & _ & _ & _ & _ & ->).
    exists a. split; [|apply evolves_refl]. destruct w. apply get_app_old. auto.
  - apply step_execute_inv in H as (b & d & st & x & -> & Hgb & Ho & _ & _ & _ & _ & _ & Hs & -> & _ & ->).
    destruct (Z.eq_dec id0 id) as [->|Hne].
    + rewrite Hg in Hgb. inv Hgb.
      destruct d.
      * apply hdr_completed_ok in Hs as [Hs0 ->].
        eexists. split; [rewrite get_with_market; eapply get_put_eq; eauto|].
        unfold evolves, same_identity. cbn. repeat split; auto; try lia. congruence.
      * apply hdr_cancelled_ok in Hs as [Hs0 ->].
        eexists. split; [eapply get_put_eq; eauto|].
        unfold evolves, same_identity. cbn. repeat split; auto; try lia. congruence.
    + exists a. split; [|apply evolves_refl].
      destruct d; [rewrite get_with_market|]; rewrite (get_put_neq _ _ _ _ _ Hgb Hne); auto.
  - apply step_close_inv in H as (b & s & io & Hgb & Ho & _ & _ & _ & _ & Hw).
    destruct (Z.eq_dec id0 id) as [->|Hne].
    + rewrite Hg in Hgb. inv Hgb.
      destruct Hw as [-> | [-> | [-> | ->]]].
      * exists b. split; auto. apply evolves_refl.
      * eexists. split; [eapply get_put_eq; eauto|].
        unfold evolves, same_identity. cbn. repeat split; auto; try lia. congruence.
      * eexists. split; [eapply get_put_eq; eauto|].
        unfold evolves, same_identity. cbn. repeat split; auto; try lia. congruence.
      * eexists. split; [eapply get_put_eq; eauto|].
        unfold evolves, same_identity. cbn. repeat split; auto; try lia. congruence.
    + exists a. split; [|apply evolves_refl].
      destruct Hw as [-> | [-> | [-> | ->]]]; auto; rewrite (get_put_neq _ _ _ _ _ Hgb Hne); auto.
  - apply step_cancel_inv in H as (b & st & -> & Hgb & Ho & Hk & Hs & ->).
    destruct (Z.eq_dec id0 id) as [->|Hne].
    + rewrite Hg in Hgb. inv Hgb. apply hdr_cancelled_ok in Hs as [Hs0 ->].
      eexists. split; [eapply get_put_eq; eauto|].
      unfold evolves, same_identity. cbn. repeat split; auto; try lia. congruence.
    + exists a. split; [|apply evolves_refl]. rewrite (get_put_neq _ _ _ _ _ Hgb Hne); auto.
Qed.

Lemma evolves_trans a b c : evolves a b -> evolves b c -> evolves a c.
Proof.
  unfold evolves, same_identity.
  intros (I1 & S1 & D1 & C1 & O1) (I2 & S2 & D2 & C2 & O2).
  destruct I1 as (?&?&?&?&?&?&?&?&?&?); destruct I2 as (?&?&?&?&?&?&?&?&?&?).
  split; [repeat split; congruence|].
  split.
  { destruct S1 as [S1|[S1 S1']], S2 as [S2|[S2 S2']].
    - left; congruence.
    - right. split; [congruence|auto].
    - right. split; auto. destruct S1'; [left|right]; congruence.
    - exfalso. destruct S1'; lia. }
  split; [lia|]. split; [lia|].
  intro Hc. pose proof (O1 Hc) as Hb. subst b. apply O2. auto.
Qed.

Lemma apply_evolves w o id a :
  get w id = Some a -> exists a', get (apply w o) id = Some a' /\ evolves a a'.
Proof.
  intro Hg. unfold apply. destruct (step w o) eqn:E.
  - eapply step_evolves; eauto.
  - exists a. split; auto. apply evolves_refl.
Qed.

Lemma run_evolves ops : forall w id a,
  get w id = Some a -> exists a', get (run ops w) id = Some a' /\ evolves a a'.
Proof.
  induction ops; intros w id x Hg; cbn.
  - exists x. split; auto. apply evolves_refl.
  - destruct (apply_evolves w a id x Hg) as (b & Hb & Eb).
    destruct (IHops _ _ _ Hb) as (c & Hc & Ec).
    exists c. split; auto. eapply evolves_trans; eauto.
Qed.

(* ------------------------------------------------------------------ property lemmas *)

(* 1. terminal states are absorbing along any history (from any world) *)
Lemma terminal_absorbing ops w id a :
  get w id = Some a -> byte_terminal (a_state a) = true ->
  exists a', get (run ops w) id = Some a' /\ a_state a' = a_state a /\ a_owner a' = a_owner a.
Proof.
  intros Hg Ht. destruct (run_evolves ops w id a Hg) as (a' & Hg' & (I & S & _)).
  exists a'. repeat split; auto.
  - destruct S as [S|[S _]]; auto. unfold byte_terminal in Ht. rewrite S in Ht. discriminate.
  - destruct I as (?&?&?); auto.
Qed.

(* a closed action is gone for good: nothing ever changes it again *)
Lemma closed_is_final ops w id a :
  get w id = Some a -> a_open a = false -> get (run ops w) id = Some a.
Proof.
  intros Hg Hc. destruct (run_evolves ops w id a Hg) as (a' & Hg' & (_ & _ & _ & _ & O)).
  rewrite (O Hc) in Hg'. auto.
Qed.

(* 2. exactly once: counters of successful transitions *)
Lemma exactly_once ops id a :
  get (run ops w0) id = Some a ->
  a_done a + a_cancel a = ind (byte_terminal (a_state a)) /\
  (a_done a = 1 <-> a_state a = 1) /\ (a_cancel a = 1 <-> a_state a = 2) /\
  0 <= a_done a <= 1 /\ 0 <= a_cancel a <= 1.
Proof.
  intro Hg. pose proof (run_winv ops w0 winv_w0) as W.
  pose proof (wi_all _ W _ _ Hg) as [].
  unfold byte_terminal, ind in *.
  destruct i_state0 as [S|[S|S]]; rewrite S in *; cbn in *; lia.
Qed.

(* terminal absorbing over reachable histories, including the transition counters *)
Lemma terminal_absorbing_run ops1 ops2 id a :
  get (run ops1 w0) id = Some a -> byte_terminal (a_state a) = true ->
  exists a', get (run (ops1 ++ ops2) w0) id = Some a' /\ a_state a' = a_state a /\
             a_done a' = a_done a /\ a_cancel a' = a_cancel a.
Proof.
  intros Hg Ht.
  destruct (terminal_absorbing ops2 _ id a Hg Ht) as (a' & Hg' & Hs & _).
  assert (Hr : run (ops1 ++ ops2) w0 = run ops2 (run ops1 w0)) by (unfold run; apply fold_left_app).
  exists a'. rewrite Hr. split; auto. split; auto.
  rewrite <- Hr in Hg'.
  pose proof (run_winv ops1 w0 winv_w0) as W1. pose proof (wi_all _ W1 _ _ Hg) as [].
  pose proof (run_winv (ops1 ++ ops2) w0 winv_w0) as W2. pose proof (wi_all _ W2 _ _ Hg') as [].
  rewrite Hs in *. lia.
Qed.

(* counters never decrease, so over a whole history at most one transition ever happened *)
Lemma transitions_monotone ops1 ops2 id a :
  get (run ops1 w0) id = Some a ->
  exists a', get (run (ops1 ++ ops2) w0) id = Some a' /\ a_done a <= a_done a' /\ a_cancel a <= a_cancel a'.
Proof.
  intro Hg. unfold run in *. rewrite fold_left_app.
  destruct (run_evolves ops2 _ id a Hg) as (a' & Hg' & (_ & _ & D & C & _)).
  exists a'. auto.
Qed.

(* 3./4. who may close *)
Lemma close_rules w caller r id ce ao a1 a2 w' a :
  step w (Close caller r id ce ao a1 a2) = Ok w' -> get w id = Some a ->
  a_open a = true /\
  (caller = a_owner a \/
   (r = true /\ (byte_terminal (a_state a) = true \/ (a_kind a = 6 /\ caller = a_funder a)))).
Proof.
  intros H Hg. cbn [step] in H.
  apply step_close_inv in H as (b & s & io & Hgb & Ho & _ & _ & _ & Hp & _).
  rewrite Hg in Hgb. inv Hgb. split; auto.
  apply preprocess_ok in Hp as [Hp|(Hr & [Hs|Ht])]; auto.
  right. split; auto. right. unfold skip_check in Hs.
  apply Bool.andb_true_iff in Hs as [Hs1 Hs2]. apply Z.eqb_eq in Hs1, Hs2. auto.
Qed.

(* closing (account gone) returns everything *)
Lemma close_refund w caller r id ce ao a1 a2 w' a a' :
  step w (Close caller r id ce ao a1 a2) = Ok w' -> get w id = Some a -> get w' id = Some a' ->
  a_open a' = false ->
  a_paid1 a' = a_paid1 a + a_esc1 a /\ a_paid2 a' = a_paid2 a + a_esc2 a /\
  a_paid_out a' = a_paid_out a + a_esc_out a /\ a_paid_lamports a' = a_paid_lamports a + a_lamports a /\
  a_esc1 a' = 0 /\ a_esc2 a' = 0 /\ a_esc_out a' = 0 /\ a_lamports a' = 0 /\ a_state a' = a_state a.
Proof.
  intros H Hg Hg' Hc. cbn [step] in H.
  apply step_close_inv in H as (b & s & io & Hgb & Ho & _ & _ & _ & _ & Hw).
  rewrite Hg in Hgb. inv Hgb.
  destruct Hw as [-> | [-> | [-> | ->]]].
  - rewrite Hg in Hg'. inv Hg'. congruence.
  - rewrite (get_put_eq _ _ _ _ Hg) in Hg'. inv Hg'. discriminate.
  - rewrite (get_put_eq _ _ _ _ Hg) in Hg'. inv Hg'. discriminate.
  - rewrite (get_put_eq _ _ _ _ Hg) in Hg'. inv Hg'. cbn. repeat split; auto.
Qed.

(* a close never moves a token anywhere but home and never touches the market or other actions *)
Lemma close_frame w caller r id ce ao a1 a2 w' :
  step w (Close caller r id ce ao a1 a2) = Ok w' ->
  w_bal1 w' = w_bal1 w /\ w_bal2 w' = w_bal2 w /\ w_rev w' = w_rev w /\
  forall id', id' <> id -> get w' id' = get w id'.
Proof.
  intro H. cbn [step] in H.
  apply step_close_inv in H as (b & s & io & Hgb & Ho & _ & _ & _ & _ & Hw).
  destruct Hw as [-> | [-> | [-> | ->]]]; repeat split; auto; intros id' Hne;
    apply (get_put_neq _ _ _ _ _ Hgb); auto.
Qed.

(* 5. failed execution *)
Lemma failed_execution w k kp id oc throw fee out w' a :
  step w (Execute k kp id oc throw fee out) = Ok w' -> get w id = Some a ->
  oc <> ExOk ->
  exists a',
    get w' id = Some a' /\ a_state a = 0 /\ a_state a' = 2 /\ throw = false /\
    a_cancel a' = a_cancel a + 1 /\ a_done a' = a_done a /\
    a_esc1 a' = a_esc1 a /\ a_esc2 a' = a_esc2 a /\ a_esc_out a' = a_esc_out a /\
    a_lamports a - a_lamports a' = execution_lamports (a_max_exec a) fee /\
    w_bal1 w' = w_bal1 w /\ w_bal2 w' = w_bal2 w /\ w_rev w' = w_rev w /\
    forall id', id' <> id -> get w' id' = get w id'.
Proof.
  intros H Hg Hoc. cbn [step] in H.
  apply step_execute_inv in H as (b & d & st & x & -> & Hgb & Ho & _ & _ & _ & _ & Hd & Hs & -> & _ & ->).
  rewrite Hg in Hgb. inv Hgb.
  assert (d = false /\ throw = false) as [-> ->].
  { destruct oc, throw; cbn in Hd; try congruence; inv Hd; auto. }
  apply hdr_cancelled_ok in Hs as [Hs0 ->].
  eexists. split; [eapply get_put_eq; eauto|]. cbn.
  repeat split; auto; try lia.
  intros id' Hne. apply (get_put_neq _ _ _ _ _ Hg). auto.
Qed.

(* hard failures and every other error leave the world untouched *)
Lemma error_is_noop w o e : step w o = Err e -> apply w o = w.
Proof. intro H. unfold apply. rewrite H. auto. Qed.

Lemma hard_failure_errors w k kp id oc fee out :
  oc <> ExOk -> exists e, step w (Execute k kp id oc true fee out) = Err e.
Proof.
  intro Hoc. cbn [step]. unfold step_execute.
  destruct k; cbn [negb]; [|eauto].
  destruct ((fee <? 0) || (out <? 0)); [eauto|].
  unfold rbind. destruct (live w id); [|eauto].
  destruct ((a_esc1 a <? a_in1 a) || (a_esc2 a <? a_in2 a)); [eauto|].
  destruct oc; cbn; eauto. congruence.
Qed.

(* successful execution completes and is the only thing that moves the market *)
Lemma successful_execution w k kp id throw fee out w' a :
  step w (Execute k kp id ExOk throw fee out) = Ok w' -> get w id = Some a ->
  exists a',
    get w' id = Some a' /\ a_state a = 0 /\ a_state a' = 1 /\ a_done a' = a_done a + 1 /\
    a_esc1 a' = a_esc1 a - a_in1 a /\ a_esc2 a' = a_esc2 a - a_in2 a /\
    w_bal1 w' = w_bal1 w + a_in1 a /\ w_bal2 w' = w_bal2 w + a_in2 a.
Proof.
  intros H Hg. cbn [step] in H.
  apply step_execute_inv in H as (b & d & st & x & -> & Hgb & Ho & _ & _ & _ & _ & Hd & Hs & -> & _ & ->).
  rewrite Hg in Hgb. inv Hgb. cbn in Hd. inv Hd.
  apply hdr_completed_ok in Hs as [Hs0 ->].
  eexists. split; [rewrite get_with_market; eapply get_put_eq; eauto|]. cbn. repeat split; auto.
Qed.

(* execution requires the keeper role and a pending, open action *)
Lemma execute_rules w k kp id oc throw fee out w' a :
  step w (Execute k kp id oc throw fee out) = Ok w' -> get w id = Some a ->
  k = true /\ a_open a = true /\ a_state a = 0.
Proof.
  intros H Hg. cbn [step] in H.
  apply step_execute_inv in H as (b & d & st & x & -> & Hgb & Ho & _ & _ & _ & _ & Hd & Hs & -> & _ & ->).
  rewrite Hg in Hgb. inv Hgb. repeat split; auto.
  destruct d; [apply hdr_completed_ok in Hs|apply hdr_cancelled_ok in Hs]; tauto.
Qed.

(* 6. escrow goes home: in every reachable world, whatever the creator put in is in escrow,
   back with the owner, or was consumed by the single completed execution; a closed action
   holds nothing; the market's recorded balances are exactly the consumed inputs. *)
Lemma escrow_accounting ops id a :
  get (run ops w0) id = Some a ->
  a_funded1 a = a_esc1 a + a_paid1 a + (if a_state a =? 1 then a_in1 a else 0) /\
  a_funded2 a = a_esc2 a + a_paid2 a + (if a_state a =? 1 then a_in2 a else 0) /\
  a_lamports_in a = a_lamports a + a_fee_paid a + a_paid_lamports a /\
  0 <= a_fee_paid a <= a_max_exec a * (a_done a + a_cancel a) /\
  (a_open a = false -> a_esc1 a = 0 /\ a_esc2 a = 0 /\ a_esc_out a = 0 /\ a_lamports a = 0).
Proof.
  intro Hg. pose proof (run_winv ops w0 winv_w0) as W.
  pose proof (wi_all _ W _ _ Hg) as [].
  split; [auto|]. split; [auto|]. split; [auto|]. split; [lia|]. exact i_closed0.
Qed.

Lemma market_accounting ops :
  w_bal1 (run ops w0) = sum_of consumed1 (w_actions (run ops w0)) /\
  w_bal2 (run ops w0) = sum_of consumed2 (w_actions (run ops w0)).
Proof. pose proof (run_winv ops w0 winv_w0) as []. auto. Qed.

(* pending close: the closer is the owner (GLV shift: or its funder) and receives every token the
   creator put in and every lamport, including the whole execution fee (nothing was ever paid out of it) *)
Lemma pending_close_full_refund ops caller r id ce ao a1 a2 w' a a' :
  step (run ops w0) (Close caller r id ce ao a1 a2) = Ok w' ->
  get (run ops w0) id = Some a -> get w' id = Some a' ->
  a_state a = 0 -> a_open a' = false ->
  (caller = a_owner a \/ (a_kind a = 6 /\ caller = a_funder a /\ r = true)) /\
  a_paid1 a' = a_funded1 a /\ a_paid2 a' = a_funded2 a /\ a_paid_lamports a' = a_lamports_in a /\
  a_fee_paid a = 0.
Proof.
  intros H Hg Hg' Hs Hc.
  pose proof (close_rules _ _ _ _ _ _ _ _ _ _ H Hg) as [Ho Hr].
  pose proof (close_refund _ _ _ _ _ _ _ _ _ _ _ H Hg Hg' Hc) as (P1 & P2 & P3 & P4 & _).
  pose proof (run_winv ops w0 winv_w0) as W.
  pose proof (wi_all _ W _ _ Hg) as [].
  rewrite Hs in *. cbn in *.
  assert (F : a_fee_paid a = 0) by (rewrite i_done0, i_cancel0 in i_fee0; cbn in i_fee0; lia).
  split.
  - destruct Hr as [Hr|(Hr & [Ht|(Hk & Hf)])]; auto. discriminate.
  - repeat split; auto; lia.
Qed.
