(* C23 — action lifecycle (deposit / withdrawal / shift / order / GLV actions).
   Definitions only.

   Real code modelled:
   * crates/utils/src/action.rs            ActionState::{completed,cancelled,is_*}
   * programs/store/src/states/common/action.rs
                                           ActionHeader::{action_state,completed,cancelled},
                                           ActionExt::execution_lamports
   * programs/store/src/utils/internal/action.rs   Close::preprocess / Close::close
   * programs/store/src/ops/execution_fee.rs       PayExecutionFeeOperation
   * programs/store/src/ops/deposit.rs             ExecuteDepositOperation::execute (soft / hard failure decision)
   * programs/store/src/instructions/exchange/{deposit,execute_deposit}.rs
       create (escrow funding), unchecked_execute_deposit (transfer in, execute, complete | cancel + transfer out,
       pay fee), CloseDeposit::process (escrow -> owner / receiver), close of the action account.
   The other action kinds have the same handler shape (execute_withdrawal.rs, execute_shift.rs,
   execute_order.rs, glv/{deposit,withdrawal,shift}.rs); the kind-specific parts that matter for the
   property are: orders can additionally be cancelled by `cancel_order_if_no_position`, and a GLV shift
   (kind 6) is keeper-created, owned by the GLV PDA, and its funder (= rent receiver) may close it
   while pending (`skip_completion_check_for_keeper`). *)
From GV Require Import lib.Base.
Open Scope Z_scope.

(* ---------- ActionState (crates/utils/src/action.rs) ---------- *)
Inductive astate := Pending | Completed | Cancelled.

Definition astate_eqb (a b : astate) : bool :=
  match a, b with
  | Pending, Pending | Completed, Completed | Cancelled, Cancelled => true
  | _, _ => false
  end.

Definition st_completed (s : astate) : option astate :=
  match s with Pending => Some Completed | _ => None end.
Definition st_cancelled (s : astate) : option astate :=
  match s with Pending => Some Cancelled | _ => None end.
Definition st_is_pending (s : astate) : bool := match s with Pending => true | _ => false end.
Definition st_is_completed (s : astate) : bool := match s with Completed => true | _ => false end.
Definition st_is_cancelled (s : astate) : bool := match s with Cancelled => true | _ => false end.
Definition st_is_terminal (s : astate) : bool := match s with Pending => false | _ => true end.

(* ---------- ActionHeader: the state is one byte (num_enum TryFromPrimitive / IntoPrimitive) ----------
   error codes: 1 = UnknownActionState, 2 = PreconditionsAreNotMet, 3 = PermissionDenied,
                4 = NotEnoughExecutionFee, 5 = account missing / closed, 6 = insufficient escrow funds,
                7 = feature disabled, 8 = invalid argument (kind), 10 = oracle expired (thrown),
                11 = other oracle error, 12 = execution error (thrown) *)
Definition state_of_byte (b : Z) : res astate :=
  if b =? 0 then Ok Pending else if b =? 1 then Ok Completed else if b =? 2 then Ok Cancelled else Err 1.
Definition byte_of_state (s : astate) : Z :=
  match s with Pending => 0 | Completed => 1 | Cancelled => 2 end.

Definition hdr_completed (b : Z) : res Z :=
  s <-- state_of_byte b ;;
  match st_completed s with Some s' => Ok (byte_of_state s') | None => Err 2 end.
Definition hdr_cancelled (b : Z) : res Z :=
  s <-- state_of_byte b ;;
  match st_cancelled s with Some s' => Ok (byte_of_state s') | None => Err 2 end.

Definition byte_terminal (b : Z) : bool := (b =? 1) || (b =? 2).

(* ---------- Close::preprocess ----------
   caller = authority key, owner = header.owner, has_role = store.has_role(caller, ORDER_KEEPER),
   skip = skip_completion_check_for_keeper() (GLV shift: caller == funder), b = state byte.
   Ok true = caller is the owner; Ok false = keeper allowed. *)
Definition preprocess (caller owner : Z) (has_role skip : bool) (b : Z) : res bool :=
  if caller =? owner then Ok true
  else if negb has_role then Err 3
  else if skip then Ok false
  else s <-- state_of_byte b ;; if st_is_terminal s then Ok false else Err 3.

(* skip_completion_check_for_keeper: default false; CloseGlvShift: funder == authority *)
Definition skip_check (kind caller funder : Z) : bool := (kind =? 6) && (caller =? funder).

(* ---------- execution fee ---------- *)
Definition execution_lamports (max_exec fee : Z) : Z := Z.min fee max_exec.

(* Rent::default().minimum_balance(data_len) *)
Definition rent_min (data_len : Z) : Z := (128 + data_len) * 6960.

(* PayExecutionFeeOperation::execute: Ok (payer_after, paid) *)
Definition pay_fee (lamports min_balance amount : Z) : res (Z * Z) :=
  let remaining := Z.max 0 (lamports - amount) in
  if remaining <? min_balance then Err 4 else Ok (lamports - amount, amount).

(* ---------- execution outcome (ExecuteDepositOperation::execute) ---------- *)
Inductive outcome := ExOk | ExOracleExpired | ExOracleErr | ExFail.

Definition exec_decision (o : outcome) (throw : bool) : res bool :=
  match o with
  | ExOk => Ok true
  | ExOracleExpired => if throw then Err 10 else Ok false
  | ExOracleErr => Err 11
  | ExFail => if throw then Err 12 else Ok false
  end.

(* ---------- world ---------- *)
Record action := mkAction {
  a_open : bool;          (* the action account exists *)
  a_kind : Z;             (* 0 deposit 1 withdrawal 2 shift 3 order 4 glv-deposit 5 glv-withdrawal 6 glv-shift *)
  a_state : Z;            (* header.action_state byte *)
  a_owner : Z;
  a_funder : Z;           (* header.rent_receiver *)
  a_in1 : Z; a_in2 : Z;   (* declared input amounts (params) *)
  a_esc1 : Z; a_esc2 : Z; a_esc_out : Z;   (* escrow token balances *)
  a_lamports : Z; a_min_balance : Z; a_max_exec : Z;
  (* ghost bookkeeping, not part of the program state *)
  a_done : Z; a_cancel : Z;                (* successful completed() / cancelled() transitions *)
  a_paid1 : Z; a_paid2 : Z; a_paid_out : Z;  (* tokens delivered home at close (owner / receiver) *)
  a_paid_lamports : Z;                     (* lamports delivered to the rent receiver at close *)
  a_fee_paid : Z;                          (* execution fees paid to keepers *)
  a_funded1 : Z; a_funded2 : Z; a_lamports_in : Z   (* what the creator put in *)
}.

Record world := mkWorld {
  w_actions : list action;
  w_bal1 : Z; w_bal2 : Z;   (* recorded market balances of the two input tokens *)
  w_rev : Z                 (* bumped by every committed market execution *)
}.

Definition w0 : world := mkWorld [] 0 0 0.

Inductive op :=
| Create (owner funder kind in1 in2 exec_lamports data_len : Z)
| Execute (is_keeper : bool) (keeper id : Z) (o : outcome) (throw : bool) (fee out : Z)
| Close (caller : Z) (has_role : bool) (id : Z) (cancel_enabled ata_out ata1 ata2 : bool)
| CancelIfNoPosition (is_keeper : bool) (id : Z).

Definition get (w : world) (id : Z) : option action :=
  if id <? 0 then None else nth_error (w_actions w) (Z.to_nat id).

Fixpoint set_nth (l : list action) (n : nat) (a : action) : list action :=
  match l, n with
  | [], _ => []
  | _ :: r, O => a :: r
  | x :: r, S k => x :: set_nth r k a
  end.

Definition put (w : world) (id : Z) (a : action) : world :=
  mkWorld (set_nth (w_actions w) (Z.to_nat id) a) (w_bal1 w) (w_bal2 w) (w_rev w).

Definition with_market (w : world) (b1 b2 rev : Z) : world := mkWorld (w_actions w) b1 b2 rev.

(* explicit record updates *)
Definition upd_exec (a : action) (st esc1 esc2 esc_out lam done cancel fee : Z) : action :=
  mkAction (a_open a) (a_kind a) st (a_owner a) (a_funder a) (a_in1 a) (a_in2 a)
           esc1 esc2 esc_out lam (a_min_balance a) (a_max_exec a)
           done cancel (a_paid1 a) (a_paid2 a) (a_paid_out a) (a_paid_lamports a) fee
           (a_funded1 a) (a_funded2 a) (a_lamports_in a).

Definition upd_close (a : action) (open : bool) (esc1 esc2 esc_out lam p1 p2 pout plam : Z) : action :=
  mkAction open (a_kind a) (a_state a) (a_owner a) (a_funder a) (a_in1 a) (a_in2 a)
           esc1 esc2 esc_out lam (a_min_balance a) (a_max_exec a)
           (a_done a) (a_cancel a) p1 p2 pout plam (a_fee_paid a)
           (a_funded1 a) (a_funded2 a) (a_lamports_in a).

Definition live (w : world) (id : Z) : res action :=
  match get w id with
  | Some a => if a_open a then Ok a else Err 5
  | None => Err 5
  end.

(* create: escrows funded by the owner, execution lamports + rent put into the action account *)
Definition step_create (w : world) (owner funder kind in1 in2 exec data_len : Z) : res world :=
  if (in1 <? 0) || (in2 <? 0) || (exec <? 0) || (data_len <? 0) || (kind <? 0) || (6 <? kind) then Err 8 else
  let mb := rent_min data_len in
  let a := mkAction true kind 0 owner (if kind =? 6 then funder else owner) in1 in2 in1 in2 0
                    (mb + exec) mb exec 0 0 0 0 0 0 0 in1 in2 (mb + exec) in
  Ok (mkWorld (w_actions w ++ [a]) (w_bal1 w) (w_bal2 w) (w_rev w)).

(* execute: transfer in, decide, complete | cancel + transfer out, pay fee *)
Definition step_execute (w : world) (is_keeper : bool) (id : Z) (o : outcome) (throw : bool) (fee out : Z)
  : res world :=
  if negb is_keeper then Err 3 else
  if (fee <? 0) || (out <? 0) then Err 8 else
  a <-- live w id ;;
  (* transfer_tokens_in: escrow -> vault, recorded in the market *)
  if (a_esc1 a <? a_in1 a) || (a_esc2 a <? a_in2 a) then Err 6 else
  d <-- exec_decision o throw ;;
  st <-- (if d then hdr_completed (a_state a) else hdr_cancelled (a_state a)) ;;
  let x := execution_lamports (a_max_exec a) fee in
  pf <-- pay_fee (a_lamports a) (a_min_balance a) x ;;
  let '(lam', paid) := pf in
  if d then
    let a' := upd_exec a st (a_esc1 a - a_in1 a) (a_esc2 a - a_in2 a) (a_esc_out a + out) lam'
                       (a_done a + 1) (a_cancel a) (a_fee_paid a + paid) in
    Ok (with_market (put w id a') (w_bal1 w + a_in1 a) (w_bal2 w + a_in2 a) (w_rev w + 1))
  else
    (* cancelled: the same amounts go back from the vault to the escrows; nothing committed *)
    let a' := upd_exec a st (a_esc1 a) (a_esc2 a) (a_esc_out a) lam'
                       (a_done a) (a_cancel a + 1) (a_fee_paid a + paid) in
    Ok (put w id a').

(* CloseDeposit::process: market token -> receiver, long -> owner, short -> owner; a missing ATA that
   cannot be created (caller is not the owner) stops the processing and skips the close. *)
Definition xfer_ok (init_if_needed ata_ok : bool) (amount : Z) : bool :=
  (amount =? 0) || init_if_needed || ata_ok.

Definition step_close (w : world) (caller : Z) (has_role : bool) (id : Z)
           (cancel_enabled ata_out ata1 ata2 : bool) : res world :=
  a <-- live w id ;;
  (* access control of close_glv_shift: only_order_keeper *)
  if (a_kind a =? 6) && negb has_role then Err 3 else
  (* validate(): pending actions need the Cancel feature enabled *)
  s <-- state_of_byte (a_state a) ;;
  if st_is_pending s && negb cancel_enabled then Err 7 else
  is_owner <-- preprocess caller (a_owner a) has_role (skip_check (a_kind a) caller (a_funder a)) (a_state a) ;;
  if negb (xfer_ok is_owner ata_out (a_esc_out a)) then Ok w else
  let a1 := upd_close a true (a_esc1 a) (a_esc2 a) 0 (a_lamports a)
                      (a_paid1 a) (a_paid2 a) (a_paid_out a + a_esc_out a) (a_paid_lamports a) in
  if negb (xfer_ok is_owner ata1 (a_esc1 a1)) then Ok (put w id a1) else
  let a2 := upd_close a1 true 0 (a_esc2 a1) 0 (a_lamports a1)
                      (a_paid1 a1 + a_esc1 a1) (a_paid2 a1) (a_paid_out a1) (a_paid_lamports a1) in
  if negb (xfer_ok is_owner ata2 (a_esc2 a2)) then Ok (put w id a2) else
  let a3 := upd_close a2 false 0 0 0 0
                      (a_paid1 a2) (a_paid2 a2 + a_esc2 a2) (a_paid_out a2)
                      (a_paid_lamports a2 + a_lamports a2) in
  Ok (put w id a3).

Definition step_cancel_if_no_position (w : world) (is_keeper : bool) (id : Z) : res world :=
  if negb is_keeper then Err 3 else
  a <-- live w id ;;
  if negb (a_kind a =? 3) then Err 8 else
  st <-- hdr_cancelled (a_state a) ;;
  Ok (put w id (upd_exec a st (a_esc1 a) (a_esc2 a) (a_esc_out a) (a_lamports a)
                         (a_done a) (a_cancel a + 1) (a_fee_paid a))).

Definition step (w : world) (o : op) : res world :=
  match o with
  | Create owner funder kind in1 in2 exec dl => step_create w owner funder kind in1 in2 exec dl
  | Execute k _ id oc throw fee out => step_execute w k id oc throw fee out
  | Close caller role id ce ao a1 a2 => step_close w caller role id ce ao a1 a2
  | CancelIfNoPosition k id => step_cancel_if_no_position w k id
  end.

(* a failed instruction leaves the world untouched (transaction atomicity) *)
Definition apply (w : world) (o : op) : world :=
  match step w o with Ok w' => w' | Err _ => w end.

Definition run (ops : list op) (w : world) : world := fold_left apply ops w.
