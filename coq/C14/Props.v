(* C14 — property theorems only (statements pinned; closed by lemmas of Proofs.v). *)
From GV Require Import lib.Base C01.Model C14.Model C14.Proofs.
Open Scope Z_scope.

(* The distributed amount is rate * elapsed seconds (floor, in units), capped at the excess of the
   pool over the configured minimum (0 when the rate is 0 or the pool is at/below the minimum);
   [expected unit c cur dur = Z.min (dur * rate c / unit) (Z.max 0 (cur - minp c))]. *)
Theorem c14_dist_spec : forall w, 1 <= w -> forall unit, 0 < unit -> forall c cur dur d next,
  wf_cfg c -> 0 <= cur < 2 ^ w -> 0 <= dur ->
  pending w unit c cur dur = Ok (d, next) ->
  d = Z.min (dur * rate c / unit) (Z.max 0 (cur - minp c)) /\ next = cur - d.
Proof. intros w Hw unit Hu. exact (pending_ok w Hw unit Hu). Qed.

(* the only failure of the pure computation: rate * elapsed does not fit the number type *)
Theorem c14_dist_fails_only_on_overflow : forall w, 1 <= w -> forall unit, 0 < unit -> forall c cur dur e,
  wf_cfg c -> 0 <= cur < 2 ^ w -> 0 <= dur ->
  pending w unit c cur dur = Err e ->
  e = 1 /\ rate c <> 0 /\ minp c < cur /\ 2 ^ w <= dur * rate c / unit.
Proof. intros w Hw unit Hu. exact (pending_err w Hw unit Hu). Qed.

Theorem c14_dist_total : forall w, 1 <= w -> forall unit, 0 < unit -> forall c cur dur,
  wf_cfg c -> 0 <= cur < 2 ^ w -> 0 <= dur -> dur * rate c / unit < 2 ^ w ->
  pending w unit c cur dur = Ok (expected unit c cur dur, cur - expected unit c cur dur).
Proof. intros w Hw unit Hu. exact (pending_total w Hw unit Hu). Qed.

(* production instance: u128 amounts, 20 decimals, u64 seconds — never fails *)
Theorem c14_dist_never_fails_u128 : forall c cur dur,
  0 <= rate c < 2 ^ 128 -> 0 <= minp c -> 0 <= cur < 2 ^ 128 -> 0 <= dur < 2 ^ 64 ->
  pending 128 (10 ^ 20) c cur dur = Ok (expected (10 ^ 20) c cur dur, cur - expected (10 ^ 20) c cur dur).
Proof. exact no_overflow_u128. Qed.

Theorem c14_execute_never_fails_u128 : forall c s now,
  0 <= rate c < 2 ^ 128 -> 0 <= minp c -> wf_st 128 s -> 0 <= now < 2 ^ 64 ->
  exists rep s', execute 128 (10 ^ 20) c s now = (Ok rep, s').
Proof. exact execute_never_fails_u128. Qed.

(* the action: report and state after a successful distribution *)
Theorem c14_execute_spec : forall w, 1 <= w -> forall unit, 0 < unit -> forall c s now rep s',
  wf_cfg c -> wf_st w s ->
  execute w unit c s now = (Ok rep, s') ->
  r_dur rep = elapsed s now /\
  r_dist rep = Z.min (elapsed s now * rate c / unit) (Z.max 0 (pool s - minp c)) /\
  r_next rep = pool s - r_dist rep /\ pool s' = r_next rep /\ last s' = now.
Proof. intros w Hw unit Hu. exact (execute_ok w Hw unit Hu). Qed.

(* the action fails only if rate*elapsed overflows, or the (capped) amount is >= 2^(w-1)
   (conversion to the signed delta); a failed action leaves the pool untouched *)
Theorem c14_execute_failure : forall w, 1 <= w -> forall unit, 0 < unit -> forall c s now e s',
  wf_cfg c -> wf_st w s ->
  execute w unit c s now = (Err e, s') ->
  pool s' = pool s /\ last s' = now /\ rate c <> 0 /\ minp c < pool s /\
  ((e = 1 /\ 2 ^ w <= elapsed s now * rate c / unit) \/
   (e = 2 /\ elapsed s now * rate c / unit < 2 ^ w /\
    2 ^ (w - 1) <= Z.min (elapsed s now * rate c / unit) (Z.max 0 (pool s - minp c)))).
Proof. intros w Hw unit Hu. exact (execute_err w Hw unit Hu). Qed.

(* one distribution (successful or not): never increases the pool, never takes it below the
   minimum if it started above it, leaves it alone at or below the minimum *)
Theorem c14_dist_never_increases_respects_floor : forall w, 1 <= w -> forall unit, 0 < unit -> forall c s now,
  wf_cfg c -> wf_st w s ->
  let s' := step w unit c s now in
  pool s' <= pool s /\ (minp c < pool s -> minp c <= pool s') /\ (pool s <= minp c -> pool s' = pool s) /\
  last s' = now /\ 0 <= pool s'.
Proof. intros w Hw unit Hu. exact (step_pool w Hw unit Hu). Qed.

(* histories: any number of repeated distributions at arbitrary times *)
Theorem c14_dist_history : forall w, 1 <= w -> forall unit, 0 < unit -> forall c nows,
  wf_cfg c -> Forall (fun t => 0 <= t) nows -> forall s, wf_st w s ->
  let s' := run w unit c s nows in
  wf_st w s' /\ pool s' <= pool s /\ (minp c < pool s -> minp c <= pool s') /\
  (pool s <= minp c -> pool s' = pool s).
Proof. intros w Hw unit Hu. exact (run_inv w Hw unit Hu). Qed.

(* distributing twice over d1 then d2 seconds never hands out more than once over d1 + d2 *)
Theorem c14_split_never_distributes_more : forall unit, 0 < unit -> forall c cur d1 d2,
  wf_cfg c -> 0 <= cur -> 0 <= d1 -> 0 <= d2 ->
  let e1 := expected unit c cur d1 in
  e1 + expected unit c (cur - e1) d2 <= expected unit c cur (d1 + d2).
Proof. intros unit Hu. exact (split_le 1 ltac:(lia) unit Hu). Qed.

(* non-vacuity *)
Example c14_ex_partial :
  execute 64 (10 ^ 9) {| rate := 2 * 10 ^ 9; minp := 1000 |} {| pool := 5000; last := 100 |} 130
  = (Ok {| r_dur := 30; r_dist := 60; r_next := 4940 |}, {| pool := 4940; last := 130 |}).
Proof. vm_compute. reflexivity. Qed.
Example c14_ex_capped :
  run 64 (10 ^ 9) {| rate := 2 * 10 ^ 9; minp := 1000 |} {| pool := 5000; last := 100 |} [130; 5000; 6000]
  = {| pool := 1000; last := 6000 |}.
Proof. vm_compute. reflexivity. Qed.
Example c14_ex_fail :
  fst (execute 64 (10 ^ 9) {| rate := 2 ^ 63; minp := 0 |} {| pool := 5; last := 0 |} (2 ^ 62)) = Err 1
  /\ fst (execute 64 (10 ^ 9) {| rate := 10 ^ 9; minp := 0 |} {| pool := 2 ^ 64 - 1; last := 0 |} (2 ^ 63)) = Err 2.
Proof. vm_compute. split; reflexivity. Qed.
