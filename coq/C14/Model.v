(* C14 — model of
     crates/model/src/market/position_impact.rs
       PositionImpactMarketExt::pending_position_impact_pool_distribution_amount
     crates/model/src/action/distribute_position_impact.rs
       DistributePositionImpact::execute
   parametric in the bit width [w] and [unit] = 10^DECIMALS.  Definitions only. *)
From GV Require Import lib.Base C01.Model.
Open Scope Z_scope.

Section C14.
  Variable w : Z.
  Variable unit : Z.

  (* configuration: PositionImpactDistributionParams *)
  Record cfg := { rate : Z;      (* distribute_factor *)
                  minp : Z }.    (* min_position_impact_pool_amount *)

  (* projection of the market state: impact pool (long amount) and the
     PriceImpactDistribution clock *)
  Record st := { pool : Z; last : Z }.

  (* Error kinds:
       1 = Computation("calculating distribution amount")   (duration*rate/unit does not fit)
       2 = Convert (distribution amount >= 2^(w-1), to_opposite_signed)
       3 = any other Computation (max distribution amount / next amount / pool delta) — unreachable, proved *)
  Definition pending (c : cfg) (cur dur : Z) : res (Z * Z) :=
    if (rate c =? 0) || (cur <=? minp c) then Ok (0, cur)
    else
      maxd <-- of_opt 3 (usub w cur (minp c)) ;;
      d0 <-- of_opt 1 (apply_factor w unit dur (rate c)) ;;
      let d := if maxd <? d0 then maxd else d0 in
      next <-- of_opt 3 (usub w cur d) ;;
      Ok (d, next).

  (* Pool::apply_delta_to_long_amount (harness TestPool, same as model test pool) *)
  Definition pool_apply (p s : Z) : option Z :=
    if 0 <? s then uadd w p (Z.abs s) else usub w p (Z.abs s).

  (* just_passed_in_seconds: now.saturating_sub(clock); clock := now *)
  Definition elapsed (s : st) (now : Z) : Z := Z.max 0 (now - last s).

  Record report := { r_dur : Z; r_dist : Z; r_next : Z }.

  (* DistributePositionImpact::execute at time [now].  The clock is advanced first and is
     NOT rolled back by the action itself on failure (second component is the state the
     market is left in). *)
  Definition execute (c : cfg) (s : st) (now : Z) : res report * st :=
    let dur := elapsed s now in
    let s1 := {| pool := pool s; last := now |} in
    match pending c (pool s) dur with
    | Err e => (Err e, s1)
    | Ok (d, next) =>
        if d =? 0 then (Ok {| r_dur := dur; r_dist := d; r_next := next |}, s1)
        else match to_opposite_signed w d with
             | None => (Err 2, s1)
             | Some sd =>
                 match pool_apply (pool s) sd with
                 | None => (Err 3, s1)
                 | Some p' => (Ok {| r_dur := dur; r_dist := d; r_next := next |},
                               {| pool := p'; last := now |})
                 end
             end
    end.

  (* history: a list of distribution times *)
  Definition step (c : cfg) (s : st) (now : Z) : st := snd (execute c s now).
  Definition run (c : cfg) (s : st) (nows : list Z) : st := fold_left (step c) nows s.
End C14.
