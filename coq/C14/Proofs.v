(* C14 — proofs about the distribution model. *)
From GV Require Import lib.Base lib.DivLemmas C01.Model C01.Proofs C14.Model.
Open Scope Z_scope.
Ltac Zify.zify_post_hook ::= Z.div_mod_to_equations.

Definition expected (unit : Z) (c : cfg) (cur dur : Z) : Z :=
  Z.min (dur * rate c / unit) (Z.max 0 (cur - minp c)).

Section P.
  Variable w : Z.
  Hypothesis Hw : 1 <= w.
  Variable unit : Z.
  Hypothesis Hunit : 0 < unit.

  Let P2 : 0 < 2 ^ w. Proof. apply pow2_pos; lia. Qed.
  Let P2' : 0 < 2 ^ (w - 1). Proof. apply pow2_pos; lia. Qed.
  Let P2'' : 2 ^ w = 2 * 2 ^ (w - 1).
  Proof. replace w with (1 + (w - 1)) at 1 by lia. rewrite Z.pow_add_r by lia. reflexivity. Qed.

  Definition wf_cfg (c : cfg) : Prop := 0 <= rate c /\ 0 <= minp c.

  Lemma expected_bounds c cur dur : wf_cfg c -> 0 <= cur -> 0 <= dur ->
    0 <= expected unit c cur dur <= Z.max 0 (cur - minp c).
  Proof.
    intros [Hr Hm] Hc Hd. unfold expected.
    assert (0 <= dur * rate c / unit) by (apply div_nonneg; nia). lia.
  Qed.

  (* ---- pending_position_impact_pool_distribution_amount ---- *)
  Lemma pending_ok c cur dur d next : wf_cfg c -> 0 <= cur < 2 ^ w -> 0 <= dur ->
    pending w unit c cur dur = Ok (d, next) ->
    d = expected unit c cur dur /\ next = cur - d.
  Proof.
    intros [Hr Hm] Hc Hd. unfold pending, expected.
    destruct ((rate c =? 0) || (cur <=? minp c)) eqn:E.
    - intros H. injection H as <- <-.
      apply orb_true_iff in E. destruct E as [E|E].
      + apply Z.eqb_eq in E. rewrite E, Z.mul_0_r, Z.div_0_l by lia. lia.
      + apply Z.leb_le in E. assert (0 <= dur * rate c / unit) by (apply div_nonneg; nia). lia.
    - apply orb_false_iff in E. destruct E as [E1 E2]. apply Z.eqb_neq in E1. apply Z.leb_gt in E2.
      unfold usub. destruct (chk_u w (cur - minp c)) as [m|] eqn:Em; cbn [of_opt rbind]; [|discriminate].
      apply chk_u_some in Em. destruct Em as [_ ->].
      destruct (apply_factor w unit dur (rate c)) as [d0|] eqn:Ed; cbn [of_opt rbind]; [|discriminate].
      apply apply_factor_exact in Ed; [|lia..]. destruct Ed as [-> Hlt].
      assert (0 <= dur * rate c / unit) by (apply div_nonneg; nia).
      destruct (cur - minp c <? dur * rate c / unit) eqn:Ec.
      + destruct (chk_u w (cur - (cur - minp c))) as [n|] eqn:En; cbn [of_opt rbind]; [|discriminate].
        apply chk_u_some in En. destruct En as [_ ->]. intros H0. injection H0 as <- <-. lia.
      + destruct (chk_u w (cur - dur * rate c / unit)) as [n|] eqn:En; cbn [of_opt rbind]; [|discriminate].
        apply chk_u_some in En. destruct En as [_ ->]. intros H0. injection H0 as <- <-. lia.
  Qed.

  Lemma pending_err c cur dur e : wf_cfg c -> 0 <= cur < 2 ^ w -> 0 <= dur ->
    pending w unit c cur dur = Err e ->
    e = 1 /\ rate c <> 0 /\ minp c < cur /\ 2 ^ w <= dur * rate c / unit.
  Proof.
    intros [Hr Hm] Hc Hd. unfold pending.
    destruct ((rate c =? 0) || (cur <=? minp c)) eqn:E; [discriminate|].
    apply orb_false_iff in E. destruct E as [E1 E2]. apply Z.eqb_neq in E1. apply Z.leb_gt in E2.
    unfold usub. destruct (chk_u w (cur - minp c)) as [m|] eqn:Em; cbn [of_opt rbind].
    2:{ apply chk_u_none in Em. lia. }
    apply chk_u_some in Em. destruct Em as [_ ->].
    destruct (apply_factor w unit dur (rate c)) as [d0|] eqn:Ed; cbn [of_opt rbind].
    2:{ intros H; injection H as <-. unfold apply_factor in Ed. apply mul_div_none in Ed; lia. }
    apply apply_factor_exact in Ed; [|lia..]. destruct Ed as [-> Hlt].
    assert (0 <= dur * rate c / unit) by (apply div_nonneg; nia).
    destruct (cur - minp c <? dur * rate c / unit) eqn:Ec.
    - destruct (chk_u w (cur - (cur - minp c))) as [n|] eqn:En; cbn [of_opt rbind]; [discriminate|].
      apply chk_u_none in En. lia.
    - destruct (chk_u w (cur - dur * rate c / unit)) as [n|] eqn:En; cbn [of_opt rbind]; [discriminate|].
      apply chk_u_none in En. lia.
  Qed.

  Lemma pending_total c cur dur : wf_cfg c -> 0 <= cur < 2 ^ w -> 0 <= dur ->
    dur * rate c / unit < 2 ^ w ->
    pending w unit c cur dur = Ok (expected unit c cur dur, cur - expected unit c cur dur).
  Proof.
    intros Hc Hcur Hd Hfit. destruct (pending w unit c cur dur) as [[d n]|e] eqn:E.
    - apply pending_ok in E; try assumption. destruct E as [-> ->]. reflexivity.
    - apply pending_err in E; try assumption. lia.
  Qed.

  (* ---- DistributePositionImpact::execute ---- *)
  Definition wf_st (s : st) : Prop := 0 <= pool s < 2 ^ w /\ 0 <= last s.

  Lemma elapsed_nonneg s now : 0 <= elapsed s now.
  Proof. unfold elapsed. lia. Qed.

  Lemma execute_ok c s now rep s' : wf_cfg c -> wf_st s ->
    execute w unit c s now = (Ok rep, s') ->
    r_dur rep = elapsed s now /\
    r_dist rep = expected unit c (pool s) (elapsed s now) /\
    r_next rep = pool s - r_dist rep /\
    pool s' = r_next rep /\ last s' = now.
  Proof.
    intros Hc [Hp Hl]. unfold execute.
    destruct (pending w unit c (pool s) (elapsed s now)) as [[d n]|e] eqn:E; [|intros H; discriminate].
    apply pending_ok in E; [|assumption|assumption|apply elapsed_nonneg]. destruct E as [Ed En].
    destruct (d =? 0) eqn:E0.
    - intros H. injection H as <- <-. cbn. apply Z.eqb_eq in E0. lia.
    - destruct (to_opposite_signed w d) as [sd|] eqn:Es; [|intros H; discriminate].
      unfold to_opposite_signed in Es. apply obind_some in Es. destruct Es as (x & Hx & Hs).
      apply to_signed_some in Hx. destruct Hx as [Hx ->]. unfold sneg in Hs. apply chk_s_some in Hs.
      destruct Hs as [_ ->].
      pose proof (expected_bounds c (pool s) (elapsed s now) Hc ltac:(lia) (elapsed_nonneg s now)) as HB.
      apply Z.eqb_neq in E0.
      unfold pool_apply. replace (0 <? - d) with false by lia.
      unfold usub. destruct (chk_u w (pool s - Z.abs (- d))) as [p'|] eqn:Ep; [|intros H; discriminate].
      apply chk_u_some in Ep. destruct Ep as [_ ->].
      intros H. injection H as <- <-. cbn. lia.
  Qed.

  Lemma execute_err c s now e s' : wf_cfg c -> wf_st s ->
    execute w unit c s now = (Err e, s') ->
    pool s' = pool s /\ last s' = now /\ rate c <> 0 /\ minp c < pool s /\
    ((e = 1 /\ 2 ^ w <= elapsed s now * rate c / unit) \/
     (e = 2 /\ elapsed s now * rate c / unit < 2 ^ w /\ 2 ^ (w - 1) <= expected unit c (pool s) (elapsed s now))).
  Proof.
    intros Hc [Hp Hl]. pose proof Hc as [Hr Hm]. unfold execute.
    destruct (pending w unit c (pool s) (elapsed s now)) as [[d n]|e0] eqn:E.
    - pose proof E as E'.
      apply pending_ok in E; [|assumption|assumption|apply elapsed_nonneg]. destruct E as [Ed En].
      pose proof (expected_bounds c (pool s) (elapsed s now) Hc ltac:(lia) (elapsed_nonneg s now)) as HB.
      destruct (d =? 0) eqn:E0; [intros H; discriminate|]. apply Z.eqb_neq in E0.
      assert (Hfit : elapsed s now * rate c / unit < 2 ^ w).
      { destruct (Z_lt_le_dec (elapsed s now * rate c / unit) (2 ^ w)) as [?|Hge]; [assumption|].
        exfalso. unfold pending in E'.
        destruct ((rate c =? 0) || (pool s <=? minp c)) eqn:Eg.
        - injection E' as E1 E2. lia.
        - unfold usub in E'. destruct (chk_u w (pool s - minp c)); cbn [of_opt rbind] in E'; [|discriminate].
          destruct (apply_factor w unit (elapsed s now) (rate c)) as [d0|] eqn:Ea; cbn [of_opt rbind] in E'; [|discriminate].
          apply apply_factor_exact in Ea; [|try lia..]. 2: apply elapsed_nonneg. lia. }
      assert (Hrm : rate c <> 0 /\ minp c < pool s).
      { split; [|lia]. intros R0. unfold expected in Ed.
        rewrite R0, Z.mul_0_r, Z.div_0_l in Ed by lia. lia. }
      destruct (to_opposite_signed w d) as [sd|] eqn:Es.
      + unfold to_opposite_signed in Es. apply obind_some in Es. destruct Es as (x & Hx & Hs).
        apply to_signed_some in Hx. destruct Hx as [Hx ->]. unfold sneg in Hs. apply chk_s_some in Hs.
        destruct Hs as [_ ->].
        unfold pool_apply. replace (0 <? - d) with false by lia.
        unfold usub. destruct (chk_u w (pool s - Z.abs (- d))) as [p'|] eqn:Ep; [intros H; discriminate|].
        apply chk_u_none in Ep. lia.
      + intros H. injection H as <- <-. cbn.
        unfold to_opposite_signed in Es.
        destruct (to_signed w d) as [x|] eqn:Hx.
        * apply to_signed_some in Hx. destruct Hx as [Hx ->]. cbn in Es. unfold sneg in Es.
          apply chk_s_none in Es. lia.
        * apply to_signed_none in Hx. repeat split; try tauto. right. lia.
    - apply pending_err in E; [|assumption|assumption|apply elapsed_nonneg].
      intros H. injection H as <- <-. cbn. intuition lia.
  Qed.

  (* one step, success or failure *)
  Lemma step_pool c s now : wf_cfg c -> wf_st s ->
    let s' := step w unit c s now in
    pool s' <= pool s /\
    (minp c < pool s -> minp c <= pool s') /\
    (pool s <= minp c -> pool s' = pool s) /\
    last s' = now /\ 0 <= pool s'.
  Proof.
    intros Hc Hs. pose proof Hc as [Hr Hm]. unfold step. destruct (execute w unit c s now) as [[rep|e] s'] eqn:E; cbn [snd].
    - apply execute_ok in E; try assumption. destruct E as (_ & Hd & Hn & Hp & Hl).
      destruct Hs as [Hp0 Hl0].
      pose proof (expected_bounds c (pool s) (elapsed s now) Hc ltac:(lia) (elapsed_nonneg s now)). lia.
    - apply execute_err in E; try assumption. destruct Hs. lia.
  Qed.

  Lemma step_wf c s now : wf_cfg c -> wf_st s -> 0 <= now -> wf_st (step w unit c s now).
  Proof.
    intros Hc Hs Hn. pose proof (step_pool c s now Hc Hs) as H. cbv zeta in H.
    destruct Hs as [Hp Hl]. unfold wf_st. lia.
  Qed.

  (* ---- histories of repeated distributions ---- *)
  Lemma run_inv c nows : wf_cfg c -> Forall (fun t => 0 <= t) nows -> forall s, wf_st s ->
    let s' := run w unit c s nows in
    wf_st s' /\ pool s' <= pool s /\
    (minp c < pool s -> minp c <= pool s') /\
    (pool s <= minp c -> pool s' = pool s).
  Proof.
    intros Hc. induction 1 as [|t nows Ht _ IH]; intros s Hs; cbn.
    - repeat split; try apply Hs; lia.
    - pose proof (step_pool c s t Hc Hs) as H1. cbv zeta in H1.
      pose proof (step_wf c s t Hc Hs Ht) as Hw1.
      specialize (IH _ Hw1). cbv zeta in IH. unfold run in IH.
      destruct IH as (I1 & I2 & I3 & I4). split; [exact I1|]. split; [lia|]. split.
      + intros Hgt. destruct (Z_lt_le_dec (minp c) (pool (step w unit c s t))); [apply I3; lia|].
        rewrite I4 by lia. lia.
      + intros Hle. rewrite I4 by lia. lia.
  Qed.

  (* splitting a period never distributes more than one distribution over the whole period:
     floor(d1*r/u) + floor(d2*r/u) <= floor((d1+d2)*r/u), and the cap is the same excess *)
  Lemma split_le c cur d1 d2 : wf_cfg c -> 0 <= cur -> 0 <= d1 -> 0 <= d2 ->
    let e1 := expected unit c cur d1 in
    e1 + expected unit c (cur - e1) d2 <= expected unit c cur (d1 + d2).
  Proof.
    intros [Hr Hm] Hc H1 H2. cbv zeta. unfold expected.
    pose proof (div_add_super (d1 * rate c) (d2 * rate c) unit Hunit) as HS.
    replace (d1 * rate c + d2 * rate c) with ((d1 + d2) * rate c) in HS by ring.
    assert (0 <= d1 * rate c / unit) by (apply div_nonneg; nia).
    assert (0 <= d2 * rate c / unit) by (apply div_nonneg; nia).
    lia.
  Qed.
End P.

(* on the production instance (u128, 20 decimals) with a u64 duration the
   distribution amount always fits: error kind 1 is unreachable *)
Lemma no_overflow_u128 c cur dur : 0 <= rate c < 2 ^ 128 -> 0 <= minp c -> 0 <= cur < 2 ^ 128 ->
  0 <= dur < 2 ^ 64 ->
  pending 128 (10 ^ 20) c cur dur =
    Ok (expected (10 ^ 20) c cur dur, cur - expected (10 ^ 20) c cur dur).
Proof.
  intros Hr Hm Hc Hd. apply pending_total; try lia; [split; lia|].
  apply Z.div_lt_upper_bound; [lia|].
  assert (dur * rate c < 2 ^ 64 * 2 ^ 128) by nia.
  assert (2 ^ 64 * 2 ^ 128 <= 10 ^ 20 * 2 ^ 128) by (vm_compute; discriminate). lia.
Qed.

(* ... and the whole action never fails there: the amount is below 2^64*2^128/10^20 < 2^127 *)
Lemma execute_never_fails_u128 c s now : 0 <= rate c < 2 ^ 128 -> 0 <= minp c ->
  wf_st 128 s -> 0 <= now < 2 ^ 64 ->
  exists rep s', execute 128 (10 ^ 20) c s now = (Ok rep, s').
Proof.
  intros Hr Hm Hs Hn.
  destruct (execute 128 (10 ^ 20) c s now) as [[rep|e] s'] eqn:E; [eauto|exfalso].
  apply execute_err in E; [|lia|lia|split; lia|exact Hs].
  destruct Hs as [Hp Hl].
  assert (Hd : 0 <= elapsed s now < 2 ^ 64) by (unfold elapsed; lia).
  assert (HB : elapsed s now * rate c / 10 ^ 20 < 2 ^ 127).
  { apply Z.div_lt_upper_bound; [lia|].
    assert (elapsed s now * rate c < 2 ^ 64 * 2 ^ 128) by nia.
    assert (2 ^ 64 * 2 ^ 128 <= 10 ^ 20 * 2 ^ 127) by (vm_compute; discriminate). lia. }
  destruct E as (_ & _ & _ & _ & [[_ H]|[_ [_ H]]]).
  - assert (2 ^ 127 < 2 ^ 128) by (vm_compute; reflexivity). lia.
  - unfold expected in H. change (128 - 1) with 127 in H. lia.
Qed.
