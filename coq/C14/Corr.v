(* C14 — correspondence and oracle predicates for the cases printed by
   harness/src/bin/c14.rs.  Depends on Model.v only. *)
From GV Require Import lib.Base C01.Model C14.Model.
Open Scope Z_scope.

(* One observed step of a history.
   [Dist now r pool_after last_after]: market.now was set to [now], the real
     DistributePositionImpact action was executed; r = Ok (duration, distribution_amount,
     next_position_impact_pool_amount) from the report or Err k
     (1 = Computation "calculating distribution amount", 2 = Convert, 3 = anything else);
     pool_after / last_after = impact pool amount and distribution clock read back afterwards.
   [SetPool p]: the harness overwrote the impact pool amount (stands for position
     actions paying into / out of the pool between distributions). *)
Inductive obs :=
| Dist (now : Z) (r : res (Z * Z * Z)) (pool_after last_after : Z)
| SetPool (p : Z).

Inductive case :=
| Hist (w dec rate_ minp_ pool0 last0 : Z) (ops : list obs)
| Pending (w dec rate_ minp_ cur dur : Z) (r : res (Z * Z)).

Definition res3_eqb (a : res report) (b : res (Z * Z * Z)) : bool :=
  match a, b with
  | Ok x, Ok (d, di, n) => (r_dur x =? d) && (r_dist x =? di) && (r_next x =? n)
  | Err x, Err y => x =? y
  | _, _ => false
  end.
Definition res2_eqb (a b : res (Z * Z)) : bool :=
  match a, b with
  | Ok (x1, x2), Ok (y1, y2) => (x1 =? y1) && (x2 =? y2)
  | Err x, Err y => x =? y
  | _, _ => false
  end.

Fixpoint corr_ops (w unit : Z) (c : cfg) (s : st) (ops : list obs) : bool :=
  match ops with
  | [] => true
  | Dist now r pa la :: rest =>
      let '(mr, s') := execute w unit c s now in
      res3_eqb mr r && (pool s' =? pa) && (last s' =? la) && corr_ops w unit c s' rest
  | SetPool p :: rest => corr_ops w unit c {| pool := p; last := last s |} rest
  end.

Definition corr_b (c : case) : bool :=
  match c with
  | Hist w dec ra mi p0 l0 ops =>
      corr_ops w (10 ^ dec) {| rate := ra; minp := mi |} {| pool := p0; last := l0 |} ops
  | Pending w dec ra mi cur dur r =>
      res2_eqb (pending w (10 ^ dec) {| rate := ra; minp := mi |} cur dur) r
  end.

(* ---- the property on the implementation's outputs (no model definitions used) ---- *)
Definition expected_dist (unit ra mi cur dur : Z) : Z :=
  Z.min (dur * ra / unit) (Z.max 0 (cur - mi)).

(* one distribution step from pool amount p and clock l *)
Definition step_ok (w unit ra mi p l now : Z) (r : res (Z * Z * Z)) (pa la : Z) : bool :=
  let dur := Z.max 0 (now - l) in
  (la =? now) &&
  match r with
  | Ok (d, di, n) =>
      (d =? dur)
      && (di =? expected_dist unit ra mi p dur)          (* rate * elapsed, capped at the excess *)
      && (n =? p - di) && (pa =? n)                      (* the report tells the truth about the pool *)
      && (pa <=? p)                                      (* never increases *)
      && (if mi <? p then mi <=? pa else pa =? p)        (* floor respected / untouched at or below it *)
      && in_u w pa
  | Err e =>
      (pa =? p)                                          (* a failed distribution changes nothing *)
      && negb (ra =? 0) && (mi <? p)
      && (if e =? 1 then 2 ^ w <=? dur * ra / unit       (* product does not fit the type *)
          else if e =? 2 then (dur * ra / unit <? 2 ^ w) && (2 ^ (w - 1) <=? expected_dist unit ra mi p dur)
          else false)
  end.

Fixpoint oracle_ops (w unit ra mi p l : Z) (ops : list obs) : bool :=
  match ops with
  | [] => true
  | Dist now r pa la :: rest => step_ok w unit ra mi p l now r pa la && oracle_ops w unit ra mi pa la rest
  | SetPool p' :: rest => oracle_ops w unit ra mi p' l rest
  end.

Definition oracle_b (c : case) : bool :=
  match c with
  | Hist w dec ra mi p0 l0 ops => oracle_ops w (10 ^ dec) ra mi p0 l0 ops
  | Pending w dec ra mi cur dur r =>
      let unit := 10 ^ dec in
      match r with
      | Ok (di, n) => (di =? expected_dist unit ra mi cur dur) && (n =? cur - di) && (n <=? cur)
                      && (if mi <? cur then mi <=? n else n =? cur)
      | Err e => negb (ra =? 0) && (mi <? cur) && (e =? 1) && (2 ^ w <=? dur * ra / unit)
      end
  end.

Definition known_b (c : case) : Z := 0.
