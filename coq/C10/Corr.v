(* C10 — opening and immediately closing a position is never profitable.
   Case type, model run and correspondence: PS/Hist.v.  The oracle looks for round trips in the recorded
   history: an increase that opened an empty position, directly followed (no fee-state update, no other
   operation: no elapsed time) by a decrease of the same position at the same prices that removed it. *)
From GV Require Export lib.Base C01.Model PS.Model PS.Actions PS.Hist.
Open Scope Z_scope.

Definition price_eqb (a b : price) := (pmin a =? pmin b) && (pmax a =? pmax b).
Definition prices_eqb (a b : prices) :=
  price_eqb (p_index a) (p_index b) && price_eqb (p_long a) (p_long b) && price_eqb (p_short a) (p_short b).

(* USD value handed to the trader by the round trip: collateral-token amounts at the collateral token's
   min price (the price costs are charged at), amounts in the other (pnl) token at its max price (the price
   profits are converted at); claimable funding of both reports and claimable collateral for the user count *)
Definition value_out (cl long : bool) (pr : prices) (ir : inc_report) (dr : dec_report) : Z :=
  let cp := coll_price pr cl in
  let claims_l := ir_claim_l ir + dr_claim_l dr in
  let claims_s := ir_claim_s ir + dr_claim_s dr in
  let in_coll_token := dr_output dr + dr_user_out dr + (if cl then claims_l else claims_s) in
  let in_other_token := (if cl then claims_s else claims_l) in
  if Bool.eqb cl long then
    (* pnl token = collateral token *)
    (in_coll_token + dr_secondary dr + dr_user_sec dr) * pmin cp + in_other_token * pmax (coll_price pr (negb cl))
  else
    in_coll_token * pmin cp + (dr_secondary dr + dr_user_sec dr + in_other_token) * pmax (coll_price pr long).

(* rounding allowance (the bound proved in C10/RoundTrip.v): four base units of the pnl token, one per payment
   of the collateral waterfall that may convert a remainder into pnl tokens, plus one USD unit for the two
   roundings of the impact value *)
Definition slack (long : bool) (pr : prices) : Z := 4 * pmin (coll_price pr long) + 1.

Definition round_trip_ok (before : world) (x1 x2 : op * outcome * aux) : bool :=
  match x1, x2 with
  | (OpInc i pr1 ci _ _, OutInc (Ok (p1, _, ir)), _), (OpDec j pr2 _ _ _ _, OutDec (Ok (_, _, dr)), _) =>
      if Nat.eqb i j && prices_eqb pr1 pr2 && dr_remove dr && (size_usd (get_pos (snd before) i) =? 0) then
        value_out (coll_long p1) (is_long p1) pr1 ir dr <=? ci * pmin (coll_price pr1 (coll_long p1)) + slack (is_long p1) pr1
      else true
  | _, _ => true
  end.

Fixpoint pairs_ok (t : list (world * (op * outcome * aux) * world)) : bool :=
  match t with
  | (before, x1, _) :: ((_, x2, _) :: _) as r => round_trip_ok before x1 x2 && pairs_ok r
  | _ => true
  end.

Definition oracle_b (c : case) : bool :=
  match c with Hist w dec cfg s0 ps0 steps => pairs_ok (impl_trace (s0, ps0) steps) end.

(* Known finding, class 1 (PositiveCapAboveNegativeCap): the configuration caps positive position impact
   more loosely than negative impact (max_positive_position_impact_factor > max_negative_...), and every
   profitable round trip of the history received positive impact when opening. *)
Definition round_trip_class (cfg : config) (before : world) (x1 x2 : op * outcome * aux) : Z :=
  if round_trip_ok before x1 x2 then 0 else
  match x1 with
  | (_, OutInc (Ok (_, _, ir)), _) =>
      if (pp_max_neg_impact (c_pos cfg) <? pp_max_pos_impact (c_pos cfg)) && (0 <? ir_impact_value ir) then 1 else 99
  | _ => 99
  end.
Fixpoint pair_classes (cfg : config) (t : list (world * (op * outcome * aux) * world)) : list Z :=
  match t with
  | (before, x1, _) :: ((_, x2, _) :: _) as r => round_trip_class cfg before x1 x2 :: pair_classes cfg r
  | _ => []
  end.
Definition known_b (c : case) : Z :=
  match c with
  | Hist w dec cfg s0 ps0 steps =>
      let cls := pair_classes cfg (impl_trace (s0, ps0) steps) in
      if existsb (fun k => k =? 99) cls then 0 else if existsb (fun k => k =? 1) cls then 1 else 0
  end.
