(* C10 — open-then-close: lemmas about the two mechanisms the property names
   (token rounding against the trader; impact caps). *)
From GV Require Import lib.Base lib.DivLemmas C01.Model C01.Proofs PS.Model PS.Lemmas PS.Actions PS.Frame C11.Proofs C07.Proofs.
Open Scope Z_scope.
Ltac Zify.zify_post_hook ::= Z.div_mod_to_equations.

Definition price_ordered (p : price) : Prop := 0 < pmin p <= pmax p.

Section P.
  Variable w : Z.
  Hypothesis Hw : 1 <= w.
  Variable unit : Z.
  Hypothesis Hunit : 0 < unit.

  Lemma sdiv_pos_floor a b r : 0 <= a -> 0 < b -> sdiv w a b = Some r -> r = a / b.
  Proof. intros Ha Hb H. apply sdiv_some in H; [|lia]. destruct H as [_ ->]. apply quot_nonneg_div; lia. Qed.

  (* the tokens bought by an increase, given the (capped) impact value [piv] *)
  Definition tokens_ok (long : bool) (index : price) (sd piv sdt : Z) : Prop :=
    if long then sdt * pmin index - sd <= piv else sd - sdt * pmax index <= piv.

  Lemma increase_tokens (long : bool) (index : price) (sd piv pia base sdt : Z) :
    price_ordered index -> 0 <= sd ->
    (if 0 <? piv then (pm <-- rsigned w (pmax index) ;; of_opt E_COMP (sdiv w piv pm))
     else of_opt E_COMP (round_up_mag_div w (pmin index) piv)) = Ok pia ->
    (if long then udiv w sd (pmax index) else round_up_div w sd (pmin index)) = Some base ->
    (if long then add_with_signed w base pia else sub_with_signed w base pia) = Some sdt ->
    tokens_ok long index sd piv sdt.
  Proof.
    intros [Hmin Hmax] Hsd Hpia Hbase Hsdt. unfold tokens_ok.
    assert (Hp : (0 < piv /\ pia = piv / pmax index) \/
                 (piv <= 0 /\ pia <= 0 /\ pmin index * (- pia - 1) < - piv <= pmin index * - pia)).
    { destruct (0 <? piv) eqn:E.
      - left. apply Z.ltb_lt in E. bind_ok Hpia as pm Epm. apply rsigned_ok in Epm. destruct Epm as [_ ->].
        ok_inj Hpia. apply sdiv_pos_floor in Hpia; [|lia..]. split; assumption.
      - right. apply Z.ltb_ge in E. ok_inj Hpia. apply round_up_mag_div_sound in Hpia; [|lia..].
        destruct Hpia as (_ & Hb & H0 & Hn).
        destruct (Z.eq_dec piv 0) as [->|Hne].
        + assert (pia = 0) by (specialize (H0 ltac:(lia)); destruct (Z_lt_le_dec pia 1); [lia|]; rewrite Z.abs_eq in Hb by lia; nia).
          subst pia. lia.
        + specialize (Hn ltac:(lia)). rewrite Z.abs_neq in Hb by lia. rewrite (Z.abs_neq piv) in Hb by lia. lia. }
    destruct long.
    - apply udiv_ok in Hbase. destruct Hbase as [_ ->].
      apply add_with_signed_exact in Hsdt; [|lia|apply div_nonneg; lia]. destruct Hsdt as [-> Hr].
      pose proof (div_floor_spec sd (pmax index) ltac:(lia)) as Hf.
      destruct Hp as [[Hpos ->]|(Hneg & Hpia0 & Hc)].
      + pose proof (div_floor_spec piv (pmax index) ltac:(lia)). nia.
      + nia.
    - apply round_up_div_sound in Hbase; [|lia..]. destruct Hbase as [_ Hc0].
      apply sub_with_signed_exact in Hsdt; [|lia|nia]. destruct Hsdt as [-> Hr].
      destruct Hp as [[Hpos ->]|(Hneg & Hpia0 & Hc)].
      + pose proof (div_floor_spec piv (pmax index) ltac:(lia)). nia.
      + nia.
  Qed.
End P.
