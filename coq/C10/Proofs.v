(* C10 — open-then-close: lemmas about the two mechanisms the property names
   (token rounding against the trader; impact caps). *)
From GV Require Import lib.Base lib.DivLemmas C01.Model C01.Proofs PS.Model PS.Lemmas PS.Actions PS.Frame C11.Proofs C07.Proofs.
Open Scope Z_scope.
Ltac Zify.zify_post_hook ::= Z.div_mod_to_equations.

Definition price_ordered (p : price) : Prop := 0 < pmin p <= pmax p.

Section P.
  Variable w : Z.
  Hypothesis Hw : 1 <= w.
  Variable unit : Z.
  Hypothesis Hunit : 0 < unit.

  Lemma sdiv_pos_floor a b r : 0 <= a -> 0 < b -> sdiv w a b = Some r -> r = a / b.
  Proof. intros Ha Hb H. apply sdiv_some in H; [|lia]. destruct H as [_ ->]. apply quot_nonneg_div; lia. Qed.

  (* the tokens bought by an increase, given the (capped) impact value [piv] *)
  Definition tokens_ok (long : bool) (index : price) (sd piv sdt : Z) : Prop :=
    if long then sdt * pmin index - sd <= piv else sd - sdt * pmax index <= piv.

  Lemma increase_tokens (long : bool) (index : price) (sd piv pia base sdt : Z) :
    price_ordered index -> 0 <= sd ->
    (if 0 <? piv then (pm <-- rsigned w (pmax index) ;; of_opt E_COMP (sdiv w piv pm))
     else of_opt E_COMP (round_up_mag_div w (pmin index) piv)) = Ok pia ->
    (if long then udiv w sd (pmax index) else round_up_div w sd (pmin index)) = Some base ->
    (if long then add_with_signed w base pia else sub_with_signed w base pia) = Some sdt ->
    tokens_ok long index sd piv sdt.
  Proof.
    intros [Hmin Hmax] Hsd Hpia Hbase Hsdt. unfold tokens_ok.
    assert (Hp : (0 < piv /\ pia = piv / pmax index) \/
                 (piv <= 0 /\ pia <= 0 /\ pmin index * (- pia - 1) < - piv <= pmin index * - pia)).
    { destruct (0 <? piv) eqn:E.
      - left. apply Z.ltb_lt in E. bind_ok Hpia as pm Epm. apply rsigned_ok in Epm. destruct Epm as [_ ->].
        ok_inj Hpia. apply sdiv_pos_floor in Hpia; [|lia..]. split; assumption.
      - right. apply Z.ltb_ge in E. ok_inj Hpia. apply round_up_mag_div_sound in Hpia; [|lia..].
        destruct Hpia as (_ & Hb & H0 & Hn).
        destruct (Z.eq_dec piv 0) as [->|Hne].
        + assert (pia = 0) by (specialize (H0 ltac:(lia)); destruct (Z_lt_le_dec pia 1); [lia|]; rewrite Z.abs_eq in Hb by lia; nia).
          subst pia. lia.
        + specialize (Hn ltac:(lia)). rewrite Z.abs_neq in Hb by lia. rewrite (Z.abs_neq piv) in Hb by lia. lia. }
    destruct long.
    - apply udiv_ok in Hbase. destruct Hbase as [_ ->].
      apply add_with_signed_exact in Hsdt; [|lia|apply div_nonneg; lia]. destruct Hsdt as [-> Hr].
      pose proof (div_floor_spec sd (pmax index) ltac:(lia)) as Hf.
      destruct Hp as [[Hpos ->]|(Hneg & Hpia0 & Hc)].
      + pose proof (div_floor_spec piv (pmax index) ltac:(lia)). nia.
      + nia.
    - apply round_up_div_sound in Hbase; [|lia..]. destruct Hbase as [_ Hc0].
      apply sub_with_signed_exact in Hsdt; [|lia|nia]. destruct Hsdt as [-> Hr].
      destruct Hp as [[Hpos ->]|(Hneg & Hpia0 & Hc)].
      + pose proof (div_floor_spec piv (pmax index) ltac:(lia)). nia.
      + nia.
  Qed.

  (* mechanism 1: the tokens bought on open and the price picked on close round against the trader, so the
     total pnl of a freshly opened position at the SAME prices is at most the impact value it received *)
  Theorem open_pnl_le_impact p m pr ci sd acc p1 m' rep :
    size_usd p = 0 -> price_ordered (p_index pr) -> 0 <= sd ->
    increase w unit p m pr ci sd acc = Ok (p1, m', rep) ->
    size_usd p1 = sd /\ size_tok p1 = ir_sdt rep /\ exact_total p1 pr <= ir_impact_value rep.
  Proof.
    intros Hempty Hord Hsd H. unfold increase in H.
    destruct (negb (prices_valid w pr)); [discriminate|].
    rewrite Hempty in H. cbn [Z.eqb] in H.
    set (p0 := MkPos (is_long p) (coll_long p) (coll p) 0 0 (bfac p) (amount (fa_pool m (is_long p)) (coll_long p))
                     (pl (cfa_pool m (is_long p))) (ps (cfa_pool m (is_long p)))) in *.
    bind_ok H as ex Eex. destruct ex as [[[[piv pia] sdt] ep] change].
    bind_ok H as cda0 E1. bind_ok H as fs E2. bind_ok H as tc E3. bind_ok H as tcs E4. bind_ok H as cda E5.
    bind_ok H as fr E6. bind_ok H as frs E7. bind_ok H as m1 E8. bind_ok H as fpl E9. bind_ok H as fps E10.
    bind_ok H as m2 E11. bind_ok H as cs E12. bind_ok H as coll' E13. bind_ok H as npia E14. bind_ok H as m4 E15.
    bind_ok H as next_size E16. bind_ok H as m5 E17. bind_ok H as next_tok E18.
    bind_ok H as sds E19. bind_ok H as sdts E20. bind_ok H as m6 E21.
    bind_ok H as u1 E22. bind_ok H as u2 E23. injection H as <- <- <-.
    cbn [size_usd size_tok is_long ir_sdt ir_impact_value].
    apply uadd_ok in E16, E18. destruct E16 as [_ ->]. destruct E18 as [_ ->]. cbn [size_usd size_tok p0] in *.
    destruct u2. apply validate_position_sizes in E23. cbn [size_usd size_tok] in E23.
    destruct (sd =? 0) eqn:Esd0; [apply Z.eqb_eq in Esd0; lia|].
    bind_ok Eex as sds' F1. bind_ok Eex as imp F2. bind_ok Eex as pia' F3. bind_ok Eex as base F4.
    bind_ok Eex as sdt' F5. bind_ok Eex as ep' F6. injection Eex as <- <- <- _ _.
    pose proof (increase_tokens _ _ _ _ _ _ _ Hord Hsd F3 F4 F5) as HT.
    split; [lia|]. split; [lia|].
    unfold exact_total, tokens_ok in *. cbn [is_long size_usd size_tok p0] in *.
    destruct (is_long p); replace (0 + sd) with sd by lia; replace (0 + sdt') with sdt' by lia; exact HT.
  Qed.

  (* the parts of a successful decrease the round-trip argument uses *)
  Lemma decrease_parts p m pr sd0 acc cw fl p1 m' rep :
    decrease w unit p m pr sd0 acc cw fl = Ok (p1, m', rep) ->
    pnl_value w unit p m pr (dr_size_delta rep) = Ok (dr_pnl rep, dr_uncapped_pnl rep, dr_sdt rep) /\
    ((dr_size_delta rep = 0 /\ dr_impact_value rep = 0 /\ dr_impact_diff rep = 0) \/
     (dr_size_delta rep <> 0 /\ exists change,
        capped_impact w unit p m (p_index pr) (- dr_size_delta rep) = Ok (dr_impact_value rep, change, dr_impact_diff rep))).
  Proof.
    unfold decrease. intros H.
    destruct (negb (prices_valid w pr)); [discriminate|].
    destruct ((size_usd p =? 0) && (size_tok p =? 0) && (coll p =? 0)); [discriminate|].
    bind_ok H as sd1 Esd1. bind_ok H as pc Epc. destruct pc as [sd wd1].
    bind_ok H as u1 Eliq. bind_ok H as ex Eex. destruct ex as [[[piv change] diff] ep].
    bind_ok H as pn Epn. destruct pn as [[base_pnl uncapped_pnl] sdt].
    bind_ok H as fs Efs. bind_ok H as pr_ Eproc. destruct pr_ as [st step].
    bind_ok H as wd3 Ewd3. bind_ok H as x Ex. destruct x as [rem_coll out1].
    bind_ok H as next_size Ens. bind_ok H as m2 Em2. bind_ok H as next_tok Ent.
    bind_ok H as y Ey. destruct y as [[[ns nt] nc] out2].
    bind_ok H as cdelta Ecd. bind_ok H as ncd Encd. bind_ok H as cs Ecs.
    bind_ok H as nsd Ensd. bind_ok H as nsdt Ensdt. bind_ok H as m4 Em4.
    bind_ok H as u2 Eval. bind_ok H as zz Ez. destruct zz as [out3 sec3].
    injection H as <- <- <-. cbn [dr_size_delta dr_pnl dr_uncapped_pnl dr_sdt dr_impact_value dr_impact_diff].
    split; [exact Epn|].
    destruct (sd =? 0) eqn:E0.
    - left. apply Z.eqb_eq in E0. injection Eex as <- _ <- _. split; [exact E0|split; reflexivity].
    - right. apply Z.eqb_neq in E0. split; [exact E0|].
      bind_ok Eex as nsd' G1. apply ropp_val in G1; [|exact Hw]. subst nsd'.
      bind_ok Eex as imp G2. destruct imp as [[piv' change'] diff'].
      bind_ok Eex as ep' G3. injection Eex as X1 X2 X3 _. subst. eexists. exact G2.
  Qed.

  (* mechanism 2: caps of the position impact of a decrease *)
  Lemma capped_impact_bounds p m index sd v change diff :
    0 <= pp_max_pos_impact (c_pos (m_cfg m)) -> 0 <= pp_max_neg_impact (c_pos (m_cfg m)) ->
    0 <= pl (m_impact m) -> 0 <= pmin index ->
    capped_impact w unit p m index sd = Ok (v, change, diff) ->
    - (Z.abs sd * pp_max_neg_impact (c_pos (m_cfg m)) / unit) <= v /\
    v <= Z.max 0 (Z.min (pl (m_impact m) * pmin index) (Z.abs sd * pp_max_pos_impact (c_pos (m_cfg m)) / unit)) /\
    0 <= diff /\
    (exists raw, position_price_impact w unit p m sd = Ok (raw, change) /\ (diff <> 0 -> v - diff = raw /\ raw < v <= 0)).
  Proof.
    intros Hpos Hneg Hpool Hpm H. unfold capped_impact in H.
    bind_ok H as imp E1. unfold capped_positive_impact in E1. bind_ok E1 as raw E2. destruct raw as [raw ch].
    bind_ok E1 as v1 E3. injection E1 as <-. cbn [fst snd] in *.
    bind_ok H as c E4. destruct c as [v2 d2]. injection H as <- <- <-. cbn [fst snd].
    (* positive cap *)
    assert (P : v1 <= Z.max 0 (Z.min (pl (m_impact m) * pmin index) (Z.abs sd * pp_max_pos_impact (c_pos (m_cfg m)) / unit))
                /\ (raw < 0 -> v1 = raw) /\ (0 <= raw -> 0 <= v1)).
    { unfold cap_positive_impact in E3. destruct (raw <? 0) eqn:Er.
      - injection E3 as <-. apply Z.ltb_lt in Er. split; [lia|]. split; [reflexivity|lia].
      - apply Z.ltb_ge in Er. bind_ok E3 as mx F1. apply umul_ok in F1. destruct F1 as [R1 ->].
        bind_ok E3 as mx' F2. apply rsigned_ok in F2. destruct F2 as [_ ->].
        bind_ok E3 as mf F3. apply af_ok in F3; [|lia..]. destruct F3 as [-> R3].
        bind_ok E3 as mf' F4. apply rsigned_ok in F4. destruct F4 as [_ ->]. injection E3 as <-.
        set (A := pl (m_impact m) * pmin index) in *.
        set (B := Z.abs sd * pp_max_pos_impact (c_pos (m_cfg m)) / unit) in *.
        assert (0 <= A) by lia. assert (0 <= B) by lia.
        destruct (A <? raw) eqn:Ea; [apply Z.ltb_lt in Ea|apply Z.ltb_ge in Ea];
          (destruct (B <? _) eqn:Eb; [apply Z.ltb_lt in Eb|apply Z.ltb_ge in Eb]); repeat split; lia. }
    destruct P as (P1 & P2 & P3).
    unfold cap_negative_impact in E4. destruct (v1 <? 0) eqn:Ev.
    - apply Z.ltb_lt in Ev. bind_ok E4 as lim G1. apply af_ok in G1; [|lia..]. destruct G1 as [-> R1].
      bind_ok E4 as mn G2. apply ropp_val in G2; [|exact Hw]. subst mn.
      destruct (v1 <? - (Z.abs sd * pp_max_neg_impact (c_pos (m_cfg m)) / unit)) eqn:Ec.
      + apply Z.ltb_lt in Ec. bind_ok E4 as d G3. apply ssub_ok in G3. destruct G3 as [_ ->]. injection E4 as <- <-.
        split; [lia|]. split; [lia|]. split; [lia|].
        exists raw. split; [exact E2|]. intros _.
        assert (raw < 0) by (destruct (Z_lt_le_dec raw 0); [assumption|specialize (P3 ltac:(lia)); lia]).
        rewrite (P2 H) in *. lia.
      + apply Z.ltb_ge in Ec. injection E4 as <- <-. split; [lia|]. split; [lia|]. split; [lia|].
        exists raw. split; [exact E2|]. intros Hd. lia.
    - apply Z.ltb_ge in Ev. injection E4 as <- <-.
      assert (0 <= Z.abs sd * pp_max_neg_impact (c_pos (m_cfg m)) / unit) by (apply div_nonneg; [|lia]; pose proof (Z.abs_nonneg sd); nia).
      split; [lia|]. split; [exact P1|]. split; [lia|]. exists raw. split; [exact E2|]. intros Hd. lia.
  Qed.

  (* open on an empty position, then close it entirely at the same prices: the pnl credited by the close is
     at most the (capped) impact value received when opening *)
  Theorem roundtrip_pnl_le_open_impact p m pr ci sd acc p1 m1 ir sd' acc' cw fl p2 m2 dr :
    size_usd p = 0 -> price_ordered (p_index pr) -> 0 <= sd -> prices_nonneg pr -> pnl_market_nonneg m1 ->
    increase w unit p m pr ci sd acc = Ok (p1, m1, ir) ->
    decrease w unit p1 m1 pr sd' acc' cw fl = Ok (p2, m2, dr) -> dr_remove dr = true ->
    dr_size_delta dr = sd /\ dr_sdt dr = ir_sdt ir /\
    dr_pnl dr <= dr_uncapped_pnl dr /\ dr_uncapped_pnl dr = exact_total p1 pr /\ exact_total p1 pr <= ir_impact_value ir.
  Proof.
    intros Hempty Hord Hsd Hpr Hm Hinc Hdec Hrm.
    pose proof (open_pnl_le_impact _ _ _ _ _ _ _ _ _ Hempty Hord Hsd Hinc) as (S1 & T1 & Htot).
    pose proof (increase_effect w Hw unit _ _ _ _ _ _ _ _ _ Hinc) as (_ & _ & _ & _ & _ & P1 & P2 & P3 & _).
    pose proof (decrease_effect w Hw unit _ _ _ _ _ _ _ _ _ _ P1 P2 P3 Hdec) as (_ & _ & U & T & _ & R1 & _).
    destruct (R1 Hrm) as (Z1 & Z2 & _).
    assert (HD : dr_size_delta dr = size_usd p1) by lia. assert (HT : dr_sdt dr = size_tok p1) by lia.
    destruct (decrease_parts _ _ _ _ _ _ _ _ _ _ Hdec) as [Hpnl _].
    assert (Hpos : pos_nonneg p1) by (split; lia).
    assert (Hd0 : 0 <= dr_size_delta dr) by lia.
    pose proof (pnl_le_uncapped w Hw unit Hunit _ _ _ _ _ _ _ Hpos Hpr Hm Hd0 Hpnl) as (L1 & _).
    destruct (pnl_value_spec w Hw unit Hunit _ _ _ _ _ _ _ Hpos Hpr Hm Hd0 Hpnl) as (tc & _ & _ & _ & _ & _ & Hb & _).
    rewrite HT in Hb. rewrite Z.mul_comm, Z.quot_mul in Hb by lia.
    repeat split; lia.
  Qed.
End P.
