(* C10 — value form of the CollateralProcessor waterfall: the USD value of what the trader holds
   (output, remaining collateral, claimable collateral for the user: collateral-token amounts at the collateral
   token's min price, pnl-token amounts at the pnl token's max price) after the waterfall is bounded by
   collateral value + pnl + impact - funding - fees, plus one base unit of the pnl token per payment. *)
From GV Require Import lib.Base lib.DivLemmas C01.Model C01.Proofs PS.Model PS.Lemmas PS.Actions PS.Frame C07.Proofs C08.Proofs C08.Waterfall.
Open Scope Z_scope.
Ltac Zify.zify_post_hook ::= Z.div_mod_to_equations.

Section P.
  Variable w : Z.
  Hypothesis Hw : 1 <= w.
  Variable unit : Z.
  Hypothesis Hunit : 0 < unit.
  Variable pr : prices.
  Variable p : position.
  Notation cpm := (pmin (out_price pr p)).
  Notation ppm := (pmin (pnl_price pr p)).
  Notation ppx := (pmax (pnl_price pr p)).
  Hypothesis Hcp : 0 < cpm.
  Hypothesis Hpp : 0 < ppm.
  Hypothesis Hppx : ppm <= ppx.

  (* value of the trader's buckets *)
  Definition phi (s : pstate) : Z := (st_out s + st_coll s + st_user_out s) * cpm + (st_sec s + st_user_sec s) * ppx.
  Definition no_user (s : pstate) : Prop := st_user_out s = 0 /\ st_user_sec s = 0.

  Lemma pay_from_rem avail rem pd a r : pay_from avail rem = (pd, a, r) -> 0 <= avail -> 0 <= rem -> 0 < r -> a = 0.
  Proof.
    unfold pay_from. intros H Ha Hr Hp. destruct (avail =? 0) eqn:E0; [injection H as _ <- _; apply Z.eqb_eq in E0; exact E0|].
    destruct (rem <? avail) eqn:E1; injection H as _ <- <-; lia.
  Qed.

  (* the value removed by one payment *)
  Lemma do_pay_value s cost s' pc psec rem :
    nn s -> 0 <= cost ->
    do_pay_for_cost w pr p s cost = Ok (s', pc, psec, rem) ->
    (rem = 0 -> cost <= pc * cpm + psec * ppx + ppm) /\
    (rem <> 0 -> st_out s' = 0 /\ st_coll s' = 0 /\ st_sec s' = 0).
  Proof.
    intros (N1 & N2 & N3) Hc H. unfold do_pay_for_cost in H.
    destruct (cost =? 0) eqn:E0.
    - apply Z.eqb_eq in E0. subst cost. injection H as <- <- <- <-. split; [intros _; nia|intros C; exfalso; apply C; reflexivity].
    - apply Z.eqb_neq in E0. bind_ok H as rem0 Er. apply (round_up_div_val w) in Er; [|lia..].
      set (R := (cost + cpm - 1) / cpm) in *. subst rem0.
      assert (HR : 0 <= R) by (apply div_nonneg; lia).
      assert (HRc : cost <= R * cpm) by (pose proof (ceil_spec cost cpm Hcp) as X; cbv zeta in X; fold R in X; nia).
      destruct (pay_from (st_out s) R) as [[p1 o1] r1] eqn:P1.
      pose proof (pay_from_rem _ _ _ _ _ P1 N1 HR) as Z1.
      apply pay_from_spec in P1; [|lia..]. destruct P1 as (A1 & A2 & A3 & A4 & A5). cbv zeta in H.
      destruct (r1 =? 0) eqn:E1.
      { apply Z.eqb_eq in E1. injection H as <- <- <- <-. split; [intros _; nia|intros C; exfalso; apply C; reflexivity]. }
      apply Z.eqb_neq in E1.
      cbn [st_coll st_m st_out st_sec st_hold_out st_hold_sec st_user_out st_user_sec st_fees] in H.
      destruct (pay_from (st_coll s) r1) as [[p2 c2] r2] eqn:P2.
      pose proof (pay_from_rem _ _ _ _ _ P2 N2 A3) as Z2.
      apply pay_from_spec in P2; [|lia..]. destruct P2 as (B1 & B2 & B3 & B4 & B5).
      bind_ok H as paidc Epc. apply uadd_ok in Epc. destruct Epc as [_ ->].
      cbn [st_coll st_m st_out st_sec st_hold_out st_hold_sec st_user_out st_user_sec st_fees] in H.
      destruct (r2 =? 0) eqn:E2.
      { apply Z.eqb_eq in E2. injection H as <- <- <- <-. split; [intros _; nia|intros C; exfalso; apply C; reflexivity]. }
      apply Z.eqb_neq in E2.
      bind_ok H as rs Ers. apply mul_div_exact in Ers; [|lia..]. destruct Ers as (_ & -> & _).
      cbn [st_coll st_m st_out st_sec st_hold_out st_hold_sec st_user_out st_user_sec st_fees] in H.
      assert (Hrs : 0 <= r2 * cpm / ppm) by (apply div_nonneg; nia).
      destruct (pay_from (st_sec s) (r2 * cpm / ppm)) as [[p3 s3] rs1] eqn:P3.
      pose proof (pay_from_rem _ _ _ _ _ P3 N3 Hrs) as Z3.
      apply pay_from_spec in P3; [|lia..]. destruct P3 as (C1 & C2 & C3 & C4 & C5).
      bind_ok H as c Ec. apply umul_ok in Ec. destruct Ec as [_ ->].
      injection H as <- <- <- <-. cbn [st_out st_coll st_sec].
      split.
      + intros Hrem. assert (rs1 = 0) by nia. subst rs1.
        pose proof (div_floor_spec (r2 * cpm) ppm Hpp) as Hf. nia.
      + intros Hrem. assert (0 < rs1) by nia. repeat split; [apply Z1|apply Z2|apply Z3]; lia.
  Qed.

  Hypothesis Hcx : cpm <= pmax (out_price pr p).

  Definition trader_same (s s' : pstate) : Prop :=
    st_out s' = st_out s /\ st_coll s' = st_coll s /\ st_sec s' = st_sec s /\
    st_user_out s' = st_user_out s /\ st_user_sec s' = st_user_sec s.

  Lemma phi_nonneg s : nn s -> no_user s -> 0 <= phi s.
  Proof. intros (A & B & C) (U1 & U2). unfold phi. rewrite U1, U2. nia. Qed.

  (* a payment whose receiver does not touch the trader's buckets *)
  Lemma pay_value_step s cost stp receive :
    nn s -> 0 <= cost -> no_user s ->
    (forall s1 pc psec rem s2, receive s1 pc psec rem = Ok s2 -> trader_same s1 s2) ->
    after (pay_for_cost w pr p s cost stp receive) stp (fun cont s' =>
      nn s' /\ no_user s' /\ phi s' <= phi s /\ (cont = true -> phi s' + cost <= phi s + ppm) /\ (cont = false -> phi s' = 0)).
  Proof.
    intros Hn Hc (U1 & U2) Hr. apply after_pay. intros s1 pc psec rem s2 E1 E2.
    destruct (do_pay_spec w Hw pr p Hcp Hpp _ _ _ _ _ _ Hn Hc E1) as (_ & _ & _ & X1 & X2 & _ & (M1 & M2 & M3) & P1 & P2 & _ & B1 & B2 & _).
    destruct (do_pay_value _ _ _ _ _ _ Hn Hc E1) as [V1 V2].
    destruct (Hr _ _ _ _ _ E2) as (T1 & T2 & T3 & T4 & T5).
    assert (NN : nn s2) by (unfold nn; rewrite T1, T2, T3; repeat split; assumption).
    assert (NU : no_user s2) by (unfold no_user; rewrite T4, T5, X1, X2; split; assumption).
    assert (PH : phi s2 = phi s - pc * cpm - psec * ppx).
    { unfold phi. rewrite T1, T2, T3, T4, T5, X1, X2. nia. }
    split; [exact NN|]. split; [exact NU|]. split; [rewrite PH; nia|]. split.
    - intros Hcont. apply Z.eqb_eq in Hcont. specialize (V1 Hcont). rewrite PH. lia.
    - intros Hcont. apply Z.eqb_neq in Hcont. destruct (V2 Hcont) as (Z1 & Z2 & Z3).
      unfold phi. rewrite T1, T2, T3, T4, T5, X1, X2, Z1, Z2, Z3, U1, U2. lia.
  Qed.

  Lemma pay_to_primary_trader s pc psec s2 : pay_to_primary_pool w pr p s pc psec = Ok s2 -> trader_same s s2.
  Proof.
    intros H. destruct (pay_to_primary_pool_spec w pr p _ _ _ _ H) as (_ & (B1 & B2 & B3 & B4 & B5 & B6 & B7) & _).
    repeat split; assumption.
  Qed.

  Definition pay_post (s : pstate) (cost : Z) (cont : bool) (s' : pstate) : Prop :=
    nn s' /\ no_user s' /\ phi s' <= phi s /\ (cont = true -> phi s' + cost <= phi s + ppm) /\ (cont = false -> phi s' = 0).

  Lemma pay_post_skip s : nn s -> no_user s -> pay_post s 0 true s.
  Proof. intros Hn Hu. split; [exact Hn|]. split; [exact Hu|]. split; [lia|]. split; [intros _; lia|intros C; discriminate]. Qed.

  Lemma after_and r stp (Q1 Q2 : bool -> pstate -> Prop) :
    after r stp Q1 -> after r stp Q2 -> after r stp (fun c s => Q1 c s /\ Q2 c s).
  Proof. destruct r; cbn; intros H1 H2; try exact I; [split; assumption|]. destruct H1 as [E A], H2 as [_ B]. split; [exact E|split; assumption]. Qed.

  Lemma step_funding_value s : nn s -> no_user s -> 0 <= f_fund (st_fees s) ->
    after (step_funding w pr p s) S_FUNDING (pay_post s (f_fund (st_fees s) * cpm)).
  Proof.
    intros Hn Hu Hf. unfold step_funding. destruct (f_fund (st_fees s) =? 0) eqn:E0.
    - cbn. apply Z.eqb_eq in E0. rewrite E0. apply pay_post_skip; assumption.
    - unfold plift. destruct (of_opt E_COMP (umul w (f_fund (st_fees s)) cpm)) as [cost|] eqn:Ec; [|exact I].
      apply of_opt_ok in Ec. apply umul_ok in Ec. destruct Ec as [_ ->].
      apply pay_value_step; [exact Hn|nia|exact Hu|].
      intros s1 pc psec rem s2 H. destruct (psec =? 0); [injection H as <-; repeat split; reflexivity|].
      bind_ok H as h Eh. injection H as <-. repeat split; reflexivity.
  Qed.

  Lemma step_pnl_negative_value s pnl : nn s -> no_user s ->
    after (step_pnl_negative w pr p s pnl) S_PNL (pay_post s (Z.max 0 (- pnl))).
  Proof.
    intros Hn Hu. unfold step_pnl_negative. destruct (pnl <? 0) eqn:E.
    - apply Z.ltb_lt in E. replace (Z.max 0 (- pnl)) with (Z.abs pnl) by lia.
      apply pay_value_step; [exact Hn|lia|exact Hu|]. intros s1 pc psec rem s2 H. exact (pay_to_primary_trader _ _ _ _ H).
    - apply Z.ltb_ge in E. replace (Z.max 0 (- pnl)) with 0 by lia. cbn. apply pay_post_skip; assumption.
  Qed.

  Lemma step_impact_negative_value s piv : nn s -> no_user s ->
    after (step_impact_negative w pr p s piv) S_IMPACT (pay_post s (Z.max 0 (- piv))).
  Proof.
    intros Hn Hu. unfold step_impact_negative. destruct (piv <? 0) eqn:E.
    - apply Z.ltb_lt in E. replace (Z.max 0 (- piv)) with (Z.abs piv) by lia.
      apply pay_value_step; [exact Hn|lia|exact Hu|]. intros s1 pc psec rem s2 H.
      bind_ok H as s2' E1. apply pay_to_primary_trader in E1.
      bind_ok H as m1 E2. bind_ok H as m2 E3. injection H as <-. exact E1.
    - apply Z.ltb_ge in E. replace (Z.max 0 (- piv)) with 0 by lia. cbn. apply pay_post_skip; assumption.
  Qed.

  Lemma step_fees_value s ca : nn s -> no_user s -> fees_total_excl_funding w (st_fees s) = Ok ca ->
    after (step_fees w pr p s) S_FEES (pay_post s (ca * cpm)).
  Proof.
    intros Hn Hu Eca. unfold step_fees, plift. rewrite Eca.
    pose proof (fees_total_excl_nonneg w Hw _ _ Eca) as Hca.
    destruct (ca =? 0) eqn:E0; [apply Z.eqb_eq in E0; subst ca; cbn; apply pay_post_skip; assumption|].
    destruct (of_opt E_COMP (umul w ca cpm)) as [cost|] eqn:Ec; [|exact I].
    apply of_opt_ok in Ec. apply umul_ok in Ec. destruct Ec as [_ ->].
    apply pay_value_step; [exact Hn|nia|exact Hu|].
    intros s1 pc psec rem s2 H. destruct ((rem =? 0) && (psec =? 0)).
    - bind_ok H as fpl G1. bind_ok H as fps G2. bind_ok H as m1 G3. bind_ok H as fr G4. bind_ok H as frs G5.
      bind_ok H as m2 G6. injection H as <-. repeat split; reflexivity.
    - bind_ok H as s2' G1. apply pay_to_primary_trader in G1. injection H as <-. exact G1.
  Qed.

  (* price impact diff: paid amounts become claimable for the user: the trader's value is unchanged *)
  Lemma step_impact_diff_value s diff : nn s -> 0 <= diff -> no_user s ->
    after (step_impact_diff w pr p s diff) S_DIFF (fun _ s' => phi s' = phi s /\ nn s' /\ 0 <= st_user_out s' /\ 0 <= st_user_sec s').
  Proof.
    intros Hn Hd (U1 & U2). unfold step_impact_diff. destruct (diff =? 0); [cbn; rewrite U1, U2; repeat split; try apply Hn; lia|].
    apply after_pay. intros s1 pc psec rem s2 E1 E2.
    destruct (do_pay_spec w Hw pr p Hcp Hpp _ _ _ _ _ _ Hn Hd E1) as (_ & _ & _ & X1 & X2 & _ & NN1 & P1 & P2 & _ & B1 & B2 & _).
    bind_ok E2 as uo Euo. bind_ok E2 as us Eus. injection E2 as <-.
    assert (Huo : uo = st_user_out s1 + pc).
    { destruct (pc =? 0) eqn:E0; [injection Euo as <-; apply Z.eqb_eq in E0; lia|]. ok_inj Euo. apply uadd_ok in Euo. lia. }
    assert (Hus : us = st_user_sec s1 + psec).
    { destruct (psec =? 0) eqn:E0; [injection Eus as <-; apply Z.eqb_eq in E0; lia|]. ok_inj Eus. apply uadd_ok in Eus. lia. }
    subst uo us. split; [unfold phi; cbn [st_out st_coll st_sec st_user_out st_user_sec]; rewrite X1, X2; nia|].
    split; [exact NN1|]. cbn [st_user_out st_user_sec]. rewrite X1, X2, U1, U2. split; lia.
  Qed.

  (* profit and positive impact are converted at the pnl token's max price *)
  Lemma credit_value s m1 a s' x : nn s -> no_user s -> 0 <= a -> a * ppx <= x ->
    add_pnl_token_amount w p (set_st_m s m1) a = Ok s' -> nn s' /\ no_user s' /\ phi s' <= phi s + x /\ st_fees s' = st_fees s.
  Proof.
    intros (N1 & N2 & N3) (U1 & U2) Ha Hx H.
    destruct (add_pnl_token_amount_spec w p _ _ _ H) as (_ & F & _ & C & V1 & V2 & _ & Hcase).
    unfold set_st_m in *. cbn [st_m st_out st_sec st_coll st_hold_out st_hold_sec st_user_out st_user_sec st_fees] in *.
    destruct Hcase as [(Es & O & S)|(Es & O & S)].
    - assert (Hpx : ppx = pmax (out_price pr p)).
      { unfold same_tokens in Es. apply Bool.eqb_prop in Es. unfold out_price, pnl_price. rewrite Es. reflexivity. }
      unfold nn, no_user, phi. rewrite O, S, C, V1, V2. repeat split; try lia; try assumption. nia.
    - unfold nn, no_user, phi. rewrite O, S, C, V1, V2. repeat split; try lia; try assumption.
  Qed.

  Lemma step_add_pnl_value s pnl s' : nn s -> no_user s -> 0 < ppx -> step_add_pnl w pr p s pnl = Ok s' ->
    nn s' /\ no_user s' /\ phi s' <= phi s + Z.max 0 pnl /\ st_fees s' = st_fees s.
  Proof.
    intros Hn Hu Hx H. unfold step_add_pnl in H. destruct (0 <? pnl) eqn:E.
    - apply Z.ltb_lt in E. bind_ok H as a Ea. apply udiv_ok in Ea. destruct Ea as [_ ->].
      bind_ok H as na Ena. bind_ok H as m1 Em.
      rewrite Z.abs_eq in H by lia. pose proof (div_floor_spec pnl ppx Hx).
      assert (0 <= pnl / ppx) by (apply div_nonneg; lia).
      replace (Z.max 0 pnl) with pnl by lia. apply (credit_value s m1 (pnl / ppx) s' pnl Hn Hu); [lia|nia|exact H].
    - injection H as <-. apply Z.ltb_ge in E. repeat split; try apply Hn; try apply Hu; lia.
  Qed.

  Lemma step_add_impact_value s piv s' : nn s -> no_user s -> 0 < ppx -> step_add_impact w pr p s piv = Ok s' ->
    nn s' /\ no_user s' /\ phi s' <= phi s + Z.max 0 piv /\ st_fees s' = st_fees s.
  Proof.
    intros Hn Hu Hx H. unfold step_add_impact in H. destruct (0 <? piv) eqn:E.
    - apply Z.ltb_lt in E. bind_ok H as a Ea. bind_ok H as na Ena. bind_ok H as m1 Em1.
      bind_ok H as d Ed. apply udiv_ok in Ed. destruct Ed as [_ ->].
      bind_ok H as nd End_. bind_ok H as m2 Em2.
      rewrite Z.abs_eq in H by lia. pose proof (div_floor_spec piv ppx Hx).
      assert (0 <= piv / ppx) by (apply div_nonneg; lia).
      replace (Z.max 0 piv) with piv by lia. apply (credit_value s m2 (piv / ppx) s' piv Hn Hu); [lia|nia|exact H].
    - injection H as <-. apply Z.ltb_ge in E. repeat split; try apply Hn; try apply Hu; lia.
  Qed.

  Lemma acc_pay X s s' c : phi s <= Z.max 0 X -> phi s' <= phi s -> phi s' + c <= phi s + ppm ->
    phi s' <= Z.max 0 (X - c + ppm).
  Proof. lia. Qed.

  (* ---- the whole waterfall, value form ---- *)
  Theorem process_costs_value m fs pnl piv diff ins st stp :
    0 <= coll p -> 0 <= f_fund fs -> 0 <= diff -> 0 < ppx ->
    process_costs w pr p m fs pnl piv diff ins = Ok (st, stp) ->
    phi st <= Z.max 0 (coll p * cpm + pnl + piv - f_fund fs * cpm + 4 * ppm) /\
    nn st /\ 0 <= st_user_out st /\ 0 <= st_user_sec st.
  Proof.
    intros Hc Hf Hd Hx H. unfold process_costs in H.
    set (s0 := MkPState m 0 0 (coll p) 0 0 0 0 fs) in *.
    assert (N0 : nn s0) by (unfold nn, s0; cbn; lia).
    assert (U0 : no_user s0) by (split; reflexivity).
    assert (P0 : phi s0 = coll p * cpm) by (unfold phi, s0; cbn; lia).
    unfold plift in H.
    destruct (step_add_pnl w pr p s0 pnl) as [s1|] eqn:E1; [|discriminate].
    destruct (step_add_pnl_value _ _ _ N0 U0 Hx E1) as (N1 & U1 & P1 & F1).
    destruct (step_add_impact w pr p s1 piv) as [s2|] eqn:E2; [|discriminate].
    destruct (step_add_impact_value _ _ _ N1 U1 Hx E2) as (N2 & U2 & P2 & F2).
    assert (F02 : st_fees s2 = fs) by (rewrite F2, F1; reflexivity).
    set (X2 := coll p * cpm + Z.max 0 pnl + Z.max 0 piv).
    assert (B2 : phi s2 <= Z.max 0 X2) by (unfold X2; lia).
    assert (Hf2 : 0 <= f_fund (st_fees s2)) by (rewrite F02; exact Hf).
    pose proof (step_funding_value s2 N2 U2 Hf2) as V3.
    pose proof (step_funding_spec w Hw pr p Hcp Hpp s2 N2 Hf2) as S3.
    set (G := coll p * cpm + pnl + piv - f_fund fs * cpm + 4 * ppm).
    destruct (step_funding w pr p s2) as [s3|k3 s3|e3]; cbn [pbind after] in H, V3, S3; [| |discriminate].
    2: { destruct V3 as (_ & NN3 & (UU1 & UU2) & _ & _ & Z3). destruct ins; [|discriminate]. injection H as <- _. rewrite (Z3 eq_refl). rewrite UU1, UU2. repeat split; try apply NN3; lia. }
    destruct V3 as (N3 & U3 & L3 & C3 & _). specialize (C3 eq_refl). destruct S3 as (K & _ & _ & F3 & _).
    rewrite F02 in C3.
    pose proof (acc_pay _ _ _ _ B2 L3 C3) as B3.
    assert (F03 : st_fees s3 = fs) by congruence.
    pose proof (step_pnl_negative_value s3 pnl N3 U3) as V4.
    pose proof (step_pnl_negative_spec w Hw pr p Hcp Hpp s3 pnl N3) as S4.
    destruct (step_pnl_negative w pr p s3 pnl) as [s4|k4 s4|e4]; cbn [pbind after] in H, V4, S4; [| |discriminate].
    2: { destruct V4 as (_ & NN4 & (UU1 & UU2) & _ & _ & Z4). destruct ins; [|discriminate]. injection H as <- _. rewrite (Z4 eq_refl). rewrite UU1, UU2. repeat split; try apply NN4; lia. }
    destruct V4 as (N4 & U4 & L4 & C4 & _). specialize (C4 eq_refl). destruct S4 as (_ & _ & F4 & _).
    pose proof (acc_pay _ _ _ _ B3 L4 C4) as B4.
    assert (F04 : st_fees s4 = fs) by congruence.
    destruct (fees_total_excl_funding w (st_fees s4)) as [ca|e] eqn:Eca4.
    2: { exfalso. unfold step_fees, plift in H. rewrite Eca4 in H. cbn in H. discriminate. }
    pose proof (fees_total_excl_nonneg w Hw _ _ Eca4) as Hca. assert (Hcac : 0 <= ca * cpm) by nia.
    pose proof (step_fees_value s4 ca N4 U4 Eca4) as V5.
    destruct (step_fees w pr p s4) as [s5|k5 s5|e5]; cbn [pbind after] in H, V5; [| |discriminate].
    2: { destruct V5 as (_ & NN5 & (UU1 & UU2) & _ & _ & Z5). destruct ins; [|discriminate]. injection H as <- _. rewrite (Z5 eq_refl). rewrite UU1, UU2. repeat split; try apply NN5; lia. }
    destruct V5 as (N5 & U5 & L5 & C5 & _). specialize (C5 eq_refl).
    pose proof (acc_pay _ _ _ _ B4 L5 C5) as B5.
    pose proof (step_impact_negative_value s5 piv N5 U5) as V6.
    destruct (step_impact_negative w pr p s5 piv) as [s6|k6 s6|e6]; cbn [pbind after] in H, V6; [| |discriminate].
    2: { destruct V6 as (_ & NN6 & (UU1 & UU2) & _ & _ & Z6). destruct ins; [|discriminate]. injection H as <- _. rewrite (Z6 eq_refl). rewrite UU1, UU2. repeat split; try apply NN6; lia. }
    destruct V6 as (N6 & U6 & L6 & C6 & _). specialize (C6 eq_refl).
    pose proof (acc_pay _ _ _ _ B5 L6 C6) as B6.
    pose proof (step_impact_diff_value s6 diff N6 Hd U6) as V7.
    assert (Fin : forall s7, phi s7 = phi s6 -> phi s7 <= Z.max 0 G).
    { intros s7 E7. rewrite E7. unfold G, X2 in *. lia. }
    destruct (step_impact_diff w pr p s6 diff) as [s7|k7 s7|e7]; cbn [after] in H, V7; [| |discriminate].
    - injection H as <- _. destruct V7 as (V7 & R7). split; [apply Fin; exact V7|exact R7].
    - destruct V7 as [_ (V7 & R7)]. destruct ins; [|discriminate]. injection H as <- _. split; [apply Fin; exact V7|exact R7].
  Qed.
End P.
