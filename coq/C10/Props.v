(* C10 — Opening and immediately closing a position is never profitable.  Statements only.

   MAIN THEOREM c10_open_close_no_profit (all states, prices, sizes, sides, collateral tokens, fee and impact
   settings, virtual inventories): if max_positive_position_impact_factor <= max_negative_position_impact_factor,
   an increase of an empty position followed by its full close at the same prices with no fee-state update in
   between hands out (output + secondary output + claimable funding + claimable collateral for the user, valued
   at the collateral token's min / the pnl token's max price) at most
       collateral_in * min price + 4 base units of the pnl token + 1 USD unit,
   which is exactly the inequality Corr.round_trip_ok evaluates on the real code.  The four base units are the
   four payments of the collateral waterfall that may each convert a remainder into pnl tokens rounding up; the
   USD unit is the rounding of the two impact values.
   The theorems ..._partial below are the two mechanisms the property names, kept as separate statements. *)
From GV Require Import lib.Base C01.Model PS.Model PS.Actions PS.Hist C11.Proofs C10.Proofs C10.Impact C10.Corr C10.RoundTrip.
Open Scope Z_scope.

(* 0. THE PROPERTY.  Hypotheses: the position is empty; amounts are non-negative (unsigned in the code); the three
      prices are positive with min <= max (store oracle validation, C24); pools are non-negative (unsigned);
      the positive impact cap does not exceed the negative one (the complement is the known finding below). *)
Theorem c10_open_close_no_profit : forall w, 1 <= w -> forall unit, 0 < unit ->
  forall p m pr ci sd acc p1 m1 ir sd' acc' cw fl p2 m2 dr,
  size_usd p = 0 -> coll p = 0 -> 0 <= ci -> 0 <= sd ->
  prices_nonneg pr -> price_ordered (p_index pr) ->
  0 < pmin (coll_price pr (coll_long p)) <= pmax (coll_price pr (coll_long p)) ->
  0 < pmin (coll_price pr (is_long p)) <= pmax (coll_price pr (is_long p)) ->
  pnl_market_nonneg m1 -> 0 <= pl (m_impact m) -> 0 <= pl (m_impact m1) ->
  ip_ok (c_impact (m_cfg m)) ->
  0 <= pp_max_pos_impact (c_pos (m_cfg m)) <= pp_max_neg_impact (c_pos (m_cfg m)) ->
  increase w unit p m pr ci sd acc = Ok (p1, m1, ir) ->
  decrease w unit p1 m1 pr sd' acc' cw fl = Ok (p2, m2, dr) -> dr_remove dr = true ->
  value_out (coll_long p1) (is_long p1) pr ir dr <= ci * pmin (coll_price pr (coll_long p1)) + slack (is_long p1) pr.
Proof.
  intros w Hw unit Hu p m pr ci sd acc p1 m1 ir sd' acc' cw fl p2 m2 dr H1 H2 H3 H4 H5 H6 H7 H8 H9 H10 H11 H12 H13 Hi Hd Hr.
  pose proof (open_close_no_profit w Hw unit Hu _ _ _ _ _ _ _ _ _ _ _ _ _ _ _ _ H1 H2 H3 H4 H5 H6 H7 H8 H9 H10 H11 H12 H13 Hi Hd Hr) as T.
  pose proof (C07.Proofs.increase_effect w Hw unit _ _ _ _ _ _ _ _ _ Hi) as (L & C & _).
  unfold slack. rewrite L, C in *. lia.
Qed.

(* the uncapped impact function alone: opening then reverting the same delta never gains more than one unit *)
Theorem c10_impact_round_trip : forall w, 1 <= w -> forall unit, 0 < unit -> forall cl cs dl ds ip i1 c1 i2 c2,
  ip_ok ip -> 0 <= cl < 2 ^ w -> 0 <= cs < 2 ^ w ->
  pool_delta_impact w unit cl cs dl ds ip = Ok (i1, c1) ->
  pool_delta_impact w unit (cl + dl) (cs + ds) (- dl) (- ds) ip = Ok (i2, c2) ->
  i1 + i2 <= 1.
Proof. intros w Hw unit Hu. exact (impact_round_trip w Hw unit Hu). Qed.

(* 1. mechanism "size delta in tokens rounds against the trader (long: down on open, up on close)":
      the total pnl of a freshly opened position at the same prices is at most the impact value of the open *)
Theorem c10_open_pnl_le_impact_partial : forall w, 1 <= w -> forall unit p m pr ci sd acc p1 m' rep,
  size_usd p = 0 -> price_ordered (p_index pr) -> 0 <= sd ->
  increase w unit p m pr ci sd acc = Ok (p1, m', rep) ->
  size_usd p1 = sd /\ size_tok p1 = ir_sdt rep /\ exact_total p1 pr <= ir_impact_value rep.
Proof. intros w Hw unit. exact (open_pnl_le_impact w Hw unit). Qed.

(* 2. round trip: the pnl credited by the full close is at most the impact value received when opening *)
Theorem c10_roundtrip_pnl_le_open_impact_partial : forall w, 1 <= w -> forall unit, 0 < unit ->
  forall p m pr ci sd acc p1 m1 ir sd' acc' cw fl p2 m2 dr,
  size_usd p = 0 -> price_ordered (p_index pr) -> 0 <= sd -> prices_nonneg pr -> pnl_market_nonneg m1 ->
  increase w unit p m pr ci sd acc = Ok (p1, m1, ir) ->
  decrease w unit p1 m1 pr sd' acc' cw fl = Ok (p2, m2, dr) -> dr_remove dr = true ->
  dr_size_delta dr = sd /\ dr_sdt dr = ir_sdt ir /\
  dr_pnl dr <= dr_uncapped_pnl dr /\ dr_uncapped_pnl dr = exact_total p1 pr /\ exact_total p1 pr <= ir_impact_value ir.
Proof. intros w Hw unit Hu. exact (roundtrip_pnl_le_open_impact w Hw unit Hu). Qed.

(* 3. mechanism "positive impact capped by the impact pool and the max positive factor; the negative impact is
      capped by the max negative factor and the excess is the (claimable) price impact diff" *)
Theorem c10_decrease_impact_capped_partial : forall w, 1 <= w -> forall unit, 0 < unit ->
  forall p m pr sd0 acc cw fl p1 m' rep,
  0 <= pp_max_pos_impact (c_pos (m_cfg m)) -> 0 <= pp_max_neg_impact (c_pos (m_cfg m)) ->
  0 <= pl (m_impact m) -> 0 <= pmin (p_index pr) ->
  decrease w unit p m pr sd0 acc cw fl = Ok (p1, m', rep) ->
  let D := dr_size_delta rep in
  - (Z.abs D * pp_max_neg_impact (c_pos (m_cfg m)) / unit) <= dr_impact_value rep /\
  dr_impact_value rep <= Z.max 0 (Z.min (pl (m_impact m) * pmin (p_index pr)) (Z.abs D * pp_max_pos_impact (c_pos (m_cfg m)) / unit)) /\
  0 <= dr_impact_diff rep /\
  (dr_impact_diff rep <> 0 ->
     exists raw change, position_price_impact w unit p m (- D) = Ok (raw, change) /\
       dr_impact_value rep - dr_impact_diff rep = raw /\ raw < dr_impact_value rep <= 0).
Proof.
  intros w Hw unit Hu p m pr sd0 acc cw fl p1 m' rep H1 H2 H3 H4 H. cbv zeta.
  destruct (decrease_parts w Hw unit _ _ _ _ _ _ _ _ _ _ H) as [_ [(E0 & E1 & E2)|(E0 & change & Ecap)]].
  - rewrite E0, E1, E2. cbn [Z.abs Z.mul]. rewrite !Z.div_0_l by lia. repeat split; try lia.
  - destruct (capped_impact_bounds w Hw unit Hu _ _ _ _ _ _ _ H1 H2 H3 H4 Ecap) as (B1 & B2 & B3 & raw & Eraw & Hd).
    rewrite Z.abs_opp in B1, B2. repeat split; try assumption.
    intros Hne. exists raw, change. split; [exact Eraw|]. exact (Hd Hne).
Qed.

(* Known finding PositiveCapAboveNegativeCap: with max_positive_position_impact_factor (1 %) above
   max_negative_position_impact_factor (0.1 %) and a pre-funded impact pool the round trip is profitable:
   the open receives the positive impact up to the larger cap, the close pays the negative impact only up to
   the smaller cap and gets the rest back as claimable collateral.  Witness = the scripted replay executed on the
   real code (ps --mode c10, case 0): collateral in 20000000000, out 12585365852 + claimable 8048780488. *)
Definition wit_cfg : config :=
  MkConfig (MkPosParams 1000000000 1000000000 10000000 None 10000000 1000000 2500000) (MkImpactParams 2000000000 5000 10000)
           (MkFeeParams 500000 700000 370000000 None) 370000000 2000000 370000000 1000000000 1000000000
           500000000 500000000 0 18446744073709551615 0 10000.
Definition wit_s0 : mstate :=
  let z := MkPool 0 0 in MkMState (MkPool 1000000000000 100000000000000) z z z z z z (MkPool 2000000000 0) z z z z z z z z None None.
Definition wit_ps0 := [MkPos true true 0 0 0 0 0 0 0; MkPos false false 0 0 0 0 0 0 0].
Definition wit_pr := MkPrices (MkPrice 123 123) (MkPrice 123 123) (MkPrice 1 1).
Definition wit_w1 := step 64 (10 ^ 9) wit_cfg (wit_s0, wit_ps0) (OpInc 1 wit_pr 2000000000000 10000000000000 None).
Definition wit_open := OpInc 0 wit_pr 20000000000 10000000000000 None.
Definition wit_close := OpDec 0 wit_pr 10000000000000 None 0 (MkFlags false false false).
Definition wit_x1 := (wit_open, run_op 64 (10 ^ 9) wit_cfg wit_w1 wit_open, MkAux false (Ok None) (Ok None)).
Definition wit_w2 := step 64 (10 ^ 9) wit_cfg wit_w1 wit_open.
Definition wit_x2 := (wit_close, run_op 64 (10 ^ 9) wit_cfg wit_w2 wit_close, MkAux false (Ok None) (Ok None)).

Theorem c10_positive_cap_above_negative_cap_refuted :
  pp_max_neg_impact (c_pos wit_cfg) < pp_max_pos_impact (c_pos wit_cfg) /\
  round_trip_ok wit_w1 wit_x1 wit_x2 = false /\ round_trip_class wit_cfg wit_w1 wit_x1 wit_x2 = 1.
Proof. split; [vm_compute; reflexivity|]. split; vm_compute; reflexivity. Qed.

(* non-vacuity: the same round trip with the caps the other way round (0.1 % / 1 %) is not profitable *)
Definition ok_cfg : config :=
  MkConfig (MkPosParams 1000000000 1000000000 10000000 None 1000000 10000000 2500000) (MkImpactParams 2000000000 5000 10000)
           (MkFeeParams 500000 700000 370000000 None) 370000000 2000000 370000000 1000000000 1000000000
           500000000 500000000 0 18446744073709551615 0 10000.
Example c10_ex_not_profitable :
  let w1 := step 64 (10 ^ 9) ok_cfg (wit_s0, wit_ps0) (OpInc 1 wit_pr 2000000000000 10000000000000 None) in
  let x1 := (wit_open, run_op 64 (10 ^ 9) ok_cfg w1 wit_open, MkAux false (Ok None) (Ok None)) in
  let w2 := step 64 (10 ^ 9) ok_cfg w1 wit_open in
  let x2 := (wit_close, run_op 64 (10 ^ 9) ok_cfg w2 wit_close, MkAux false (Ok None) (Ok None)) in
  outcome_ok (snd (fst x1)) = true /\ outcome_removed (snd (fst x2)) = true /\ round_trip_ok w1 x1 x2 = true.
Proof. vm_compute. repeat split; reflexivity. Qed.
