(* C10 — the position price impact of going from one open-interest state to another and back never nets
   more than one (USD) unit: same-side round trips <= 1, cross-over round trips <= 0.  This is about the
   model of PoolDelta::price_impact with both prices = 1 (PS/Actions.v: pool_delta_impact) and the
   fixed-point power of C01 (whole exponents). *)
From GV Require Import lib.Base lib.DivLemmas C01.Model C01.Proofs PS.Model PS.Lemmas PS.Actions PS.Frame.
Open Scope Z_scope.
Ltac Zify.zify_post_hook ::= Z.div_mod_to_equations.

Section P.
  Variable w : Z.
  Hypothesis Hw : 1 <= w.
  Variable unit : Z.
  Hypothesis Hunit : 0 < unit.

  (* x^e in fixed point *)
  Notation aef := (apply_exponent_factor w unit).

  Lemma pow_loop_unit n : unit < 2 ^ w -> pow_loop w unit unit n = Some unit.
  Proof.
    intros Hu. induction n as [|n IH] using N.peano_ind; [reflexivity|].
    rewrite pow_loop_succ, IH. cbn. unfold fmul, mul_div.
    replace (unit =? 0) with false by (symmetry; apply Z.eqb_neq; lia).
    rewrite Z.div_mul by lia. unfold chk_u, in_u.
    replace (0 <=? unit) with true by (symmetry; apply Z.leb_le; lia).
    replace (unit <? 2 ^ w) with true by (symmetry; apply Z.ltb_lt; lia). reflexivity.
  Qed.

  Lemma aef_nonneg v e r : 0 <= v -> 0 <= e -> aef v e = Some r -> 0 <= r.
  Proof.
    intros Hv He H. apply apply_exponent_factor_cases in H; [|lia..].
    destruct H as [[_ ->]|[[_ ->]|[(_ & _ & ->)|[(_ & _ & ->)|(_ & _ & _ & H)]]]]; try lia.
    unfold pow_fixed in H. destruct (e mod unit =? 0); [|discriminate].
    apply pow_loop_upper in H; lia.
  Qed.

  Lemma aef_mono v1 v2 e r1 r2 : 0 <= v1 <= v2 -> v2 < 2 ^ w -> 0 <= e ->
    aef v1 e = Some r1 -> aef v2 e = Some r2 -> r1 <= r2.
  Proof.
    intros Hv Hr He H1 H2.
    assert (Hv2 : 0 <= v2) by lia. pose proof (aef_nonneg _ _ _ Hv2 He H2) as N2.
    apply apply_exponent_factor_cases in H1; [|lia..]. apply apply_exponent_factor_cases in H2; [|lia..].
    destruct H1 as [[A ->]|[[A ->]|[(A & B & ->)|[(A & B & ->)|(A & B & C & H1)]]]].
    - exact N2.
    - destruct H2 as [[A' _]|[[A' ->]|[(A' & B' & ->)|[(A' & B' & ->)|(A' & B' & C' & H2)]]]]; try lia.
      unfold pow_fixed in H2. destruct (e mod unit =? 0); [|discriminate].
      assert (Hu2 : unit < 2 ^ w) by lia. pose proof (pow_loop_unit (Z.to_N (e / unit)) Hu2) as HU.
      assert (Hb : 0 <= unit <= v2) by lia. exact (pow_loop_mono w Hw unit Hunit unit v2 _ _ _ Hb HU H2).
    - destruct H2 as [[A' _]|[[A' _]|[(A' & B' & ->)|[(A' & B' & ->)|(A' & B' & C' & H2)]]]]; lia.
    - destruct H2 as [[A' _]|[[A' _]|[(A' & B' & ->)|[(A' & B' & ->)|(A' & B' & C' & H2)]]]]; lia.
    - destruct H2 as [[A' _]|[[A' _]|[(A' & B' & _)|[(A' & B' & _)|(A' & B' & C' & H2)]]]]; try lia.
      unfold pow_fixed in H1, H2. destruct (e mod unit =? 0); [|discriminate].
      assert (Hb : 0 <= v1 <= v2) by lia. exact (pow_loop_mono w Hw unit Hunit v1 v2 _ _ _ Hb H1 H2).
  Qed.

  (* apply_factors v f e = floor(x^e * f / unit) *)
  Lemma apply_factors_r_val v f e g : 0 <= v -> 0 <= f -> 0 <= e ->
    apply_factors_r w unit v f e = Ok g ->
    exists P, aef v e = Some P /\ 0 <= P /\ g = P * f / unit.
  Proof.
    intros Hv Hf He H. unfold apply_factors_r, apply_factors in H.
    destruct (aef v e) as [P|] eqn:EP; cbn in H; [|discriminate].
    pose proof (aef_nonneg _ _ _ Hv He EP) as NP.
    destruct (fmul w unit P f) as [g'|] eqn:EG; cbn in H; [|discriminate]. injection H as <-.
    unfold fmul in EG. apply mul_div_exact in EG; [|lia..]. destruct EG as (_ & -> & _).
    exists P. split; [reflexivity|]. split; [exact NP|reflexivity].
  Qed.

  (* floor(A f1/u) - floor(B f1/u) <= floor(A f2/u) - floor(B f2/u) + 1  for A >= B >= 0, f1 <= f2 *)
  Lemma floor_diff_mono A B f1 f2 : 0 <= B <= A -> 0 <= f1 <= f2 ->
    A * f1 / unit - B * f1 / unit <= A * f2 / unit - B * f2 / unit + 1.
  Proof.
    intros HAB Hf.
    pose proof (div_floor_spec (A * f1) unit Hunit). pose proof (div_floor_spec (B * f1) unit Hunit).
    pose proof (div_floor_spec (A * f2) unit Hunit). pose proof (div_floor_spec (B * f2) unit Hunit).
    assert ((A - B) * f1 <= (A - B) * f2) by nia. nia.
  Qed.

  Definition ip_ok (ip : impact_params) : Prop := 0 <= ip_pos ip /\ 0 <= ip_neg ip /\ 0 <= ip_exp ip.

  Lemma adjusted_le ip : ip_ok ip -> 0 <= fst (adjusted_factors ip) <= snd (adjusted_factors ip).
  Proof. intros (A & B & _). unfold adjusted_factors. destruct (ip_neg ip <? ip_pos ip) eqn:E; cbn; lia. Qed.

  Lemma signed_delta_val a b pos r : 0 <= a -> 0 <= b -> signed_delta w a b pos = Ok r ->
    r = if pos then Z.abs (a - b) else - Z.abs (a - b).
  Proof.
    intros Ha Hb H. unfold signed_delta in H. bind_ok H as d Ed. apply rsigned_ok in Ed. destruct Ed as [_ ->].
    destruct pos; [injection H as <-; reflexivity|]. ok_inj H. apply sneg_ok in H. lia.
  Qed.

  (* same-side rebalance there and back *)
  Lemma same_side_round_trip i n ip r1 r2 : ip_ok ip -> 0 <= i < 2 ^ w -> 0 <= n < 2 ^ w ->
    same_side_impact w unit i n ip = Ok r1 -> same_side_impact w unit n i ip = Ok r2 -> r1 + r2 <= 1.
  Proof.
    intros Hip Hi Hn H1 H2. pose proof (adjusted_le ip Hip) as Hf. destruct Hip as (_ & _ & He).
    unfold same_side_impact in H1, H2.
    set (pf := fst (adjusted_factors ip)) in *. set (nf := snd (adjusted_factors ip)) in *.
    (* wlog the forward leg improves (n < i) or not *)
    destruct (n <? i) eqn:E1.
    - apply Z.ltb_lt in E1. replace (i <? n) with false in H2 by (symmetry; apply Z.ltb_ge; lia).
      bind_ok H1 as a1 A1. bind_ok H1 as b1 B1. bind_ok H2 as a2 A2. bind_ok H2 as b2 B2.
      apply apply_factors_r_val in A1; [|lia..]. destruct A1 as (Pi & EPi & NPi & ->).
      apply apply_factors_r_val in B1; [|lia..]. destruct B1 as (Pn & EPn & NPn & ->).
      apply apply_factors_r_val in A2; [|lia..]. destruct A2 as (Pn' & EPn' & _ & ->).
      apply apply_factors_r_val in B2; [|lia..]. destruct B2 as (Pi' & EPi' & _ & ->).
      rewrite EPn in EPn'. injection EPn' as <-. rewrite EPi in EPi'. injection EPi' as <-.
      assert (Hni : 0 <= n <= i) by lia. assert (Hi2 : i < 2 ^ w) by lia. pose proof (aef_mono n i _ _ _ Hni Hi2 He EPn EPi) as Hm.
      assert (G1 : 0 <= Pi * pf / unit) by (apply div_nonneg; nia). assert (G2 : 0 <= Pn * pf / unit) by (apply div_nonneg; nia).
      assert (G3 : 0 <= Pi * nf / unit) by (apply div_nonneg; nia). assert (G4 : 0 <= Pn * nf / unit) by (apply div_nonneg; nia).
      apply signed_delta_val in H1; [|lia..]. apply signed_delta_val in H2; [|lia..]. subst r1 r2.
      assert (HP : 0 <= Pn <= Pi) by lia. pose proof (floor_diff_mono Pi Pn pf nf HP Hf).
      assert (Pn * pf / unit <= Pi * pf / unit) by (apply Z.div_le_mono; nia).
      assert (Pn * nf / unit <= Pi * nf / unit) by (apply Z.div_le_mono; nia). lia.
    - apply Z.ltb_ge in E1.
      bind_ok H1 as a1 A1. bind_ok H1 as b1 B1.
      apply apply_factors_r_val in A1; [|lia..]. destruct A1 as (Pi & EPi & NPi & ->).
      apply apply_factors_r_val in B1; [|lia..]. destruct B1 as (Pn & EPn & NPn & ->).
      assert (Hin : 0 <= i <= n) by lia. assert (Hn2 : n < 2 ^ w) by lia. pose proof (aef_mono i n _ _ _ Hin Hn2 He EPi EPn) as Hm.
      apply signed_delta_val in H1; [|apply div_nonneg; nia..]. subst r1.
      destruct (i <? n) eqn:E2.
      + bind_ok H2 as a2 A2. bind_ok H2 as b2 B2.
        apply apply_factors_r_val in A2; [|lia..]. destruct A2 as (Pn' & EPn' & _ & ->).
        apply apply_factors_r_val in B2; [|lia..]. destruct B2 as (Pi' & EPi' & _ & ->).
        rewrite EPn in EPn'. injection EPn' as <-. rewrite EPi in EPi'. injection EPi' as <-.
        apply signed_delta_val in H2; [|apply div_nonneg; nia..]. subst r2.
        assert (HP : 0 <= Pi <= Pn) by lia. pose proof (floor_diff_mono Pn Pi pf nf HP Hf).
        assert (Pi * pf / unit <= Pn * pf / unit) by (apply Z.div_le_mono; nia).
        assert (Pi * nf / unit <= Pn * nf / unit) by (apply Z.div_le_mono; nia). lia.
      + apply Z.ltb_ge in E2. assert (i = n) by lia. subst n.
        bind_ok H2 as a2 A2. bind_ok H2 as b2 B2.
        apply apply_factors_r_val in A2; [|lia..]. destruct A2 as (P1 & EP1 & _ & ->).
        apply apply_factors_r_val in B2; [|lia..]. destruct B2 as (P2 & EP2 & _ & ->).
        rewrite EPi in EP1, EP2, EPn. injection EP1 as <-. injection EP2 as <-. injection EPn as <-.
        apply signed_delta_val in H2; [|apply div_nonneg; nia..]. subst r2. lia.
  Qed.

  (* cross-over rebalance there and back *)
  Lemma cross_round_trip i n ip r1 r2 : ip_ok ip -> 0 <= i -> 0 <= n ->
    cross_impact w unit i n ip = Ok r1 -> cross_impact w unit n i ip = Ok r2 -> r1 + r2 <= 0.
  Proof.
    intros Hip Hi Hn H1 H2. pose proof (adjusted_le ip Hip) as Hf. destruct Hip as (_ & _ & He).
    unfold cross_impact in H1, H2.
    set (pf := fst (adjusted_factors ip)) in *. set (nf := snd (adjusted_factors ip)) in *.
    bind_ok H1 as a1 A1. bind_ok H1 as b1 B1. bind_ok H2 as a2 A2. bind_ok H2 as b2 B2.
    apply apply_factors_r_val in A1; [|lia..]. destruct A1 as (Pi & EPi & NPi & ->).
    apply apply_factors_r_val in B1; [|lia..]. destruct B1 as (Pn & EPn & NPn & ->).
    apply apply_factors_r_val in A2; [|lia..]. destruct A2 as (Pn' & EPn' & _ & ->).
    apply apply_factors_r_val in B2; [|lia..]. destruct B2 as (Pi' & EPi' & _ & ->).
    rewrite EPn in EPn'. injection EPn' as <-. rewrite EPi in EPi'. injection EPi' as <-.
    assert (G1 : 0 <= Pi * pf / unit) by (apply div_nonneg; nia). assert (G2 : 0 <= Pn * nf / unit) by (apply div_nonneg; nia).
    assert (G3 : 0 <= Pn * pf / unit) by (apply div_nonneg; nia). assert (G4 : 0 <= Pi * nf / unit) by (apply div_nonneg; nia).
    apply signed_delta_val in H1; [|lia..]. apply signed_delta_val in H2; [|lia..].
    assert (Pi * pf / unit <= Pi * nf / unit) by (apply Z.div_le_mono; nia).
    assert (Pn * pf / unit <= Pn * nf / unit) by (apply Z.div_le_mono; nia).
    subst r1 r2.
    destruct (Pn * nf / unit <? Pi * pf / unit) eqn:E1; destruct (Pi * nf / unit <? Pn * pf / unit) eqn:E2;
      rewrite ?Z.ltb_lt, ?Z.ltb_ge in *; lia.
  Qed.

  (* open interest (cl, cs) moved by (dl, ds) and moved back *)
  Theorem impact_round_trip cl cs dl ds ip i1 c1 i2 c2 :
    ip_ok ip -> 0 <= cl < 2 ^ w -> 0 <= cs < 2 ^ w ->
    pool_delta_impact w unit cl cs dl ds ip = Ok (i1, c1) ->
    pool_delta_impact w unit (cl + dl) (cs + ds) (- dl) (- ds) ip = Ok (i2, c2) ->
    i1 + i2 <= 1.
  Proof.
    intros Hip Hcl Hcs H1 H2. unfold pool_delta_impact in H1, H2.
    bind_ok H1 as nl E1. apply add_with_signed_exact in E1; [|lia..]. destruct E1 as [-> R1].
    bind_ok H1 as ns E2. apply add_with_signed_exact in E2; [|lia..]. destruct E2 as [-> R2].
    bind_ok H2 as nl' E3. apply add_with_signed_exact in E3; [|lia..]. destruct E3 as [-> R3].
    bind_ok H2 as ns' E4. apply add_with_signed_exact in E4; [|lia..]. destruct E4 as [-> R4].
    replace (cl + dl + - dl) with cl in H2 by lia. replace (cs + ds + - ds) with cs in H2 by lia.
    bind_ok H1 as v1 F1. injection H1 as <- _. bind_ok H2 as v2 F2. injection H2 as <- _.
    replace (Bool.eqb (cl + dl <=? cs + ds) (cl <=? cs)) with (Bool.eqb (cl <=? cs) (cl + dl <=? cs + ds)) in F2
      by (destruct (cl <=? cs), (cl + dl <=? cs + ds); reflexivity).
    destruct (Bool.eqb (cl <=? cs) (cl + dl <=? cs + ds)).
    - apply (same_side_round_trip _ _ _ _ _ Hip) with (3 := F1) (4 := F2); lia.
    - assert (X : v1 + v2 <= 0) by (apply (cross_round_trip _ _ _ _ _ Hip) with (3 := F1) (4 := F2); lia). lia.
  Qed.
End P.
