(* C10 — assembly: opening an empty position and closing it entirely at the same prices with no elapsed
   time returns at most the collateral deposited (valued at the collateral token's min price) plus one USD unit
   and four base units of the pnl token, provided the positive impact cap does not exceed the negative one. *)
From GV Require Import lib.Base lib.DivLemmas C01.Model C01.Proofs PS.Model PS.Lemmas PS.Actions PS.Frame
  C11.Proofs C07.Proofs C08.Proofs C08.Waterfall C08.Ledger C10.Proofs C10.Impact C10.Value C10.Corr.
Open Scope Z_scope.
Ltac Zify.zify_post_hook ::= Z.div_mod_to_equations.

(* the pools a position snapshots (borrowing factor, funding indices) and the impact configuration *)
Definition idx_view (m : market) :=
  (m_cfg m, m_bf m, m_fa_long m, m_fa_short m, m_cfa_long m, m_cfa_short m).

Section P.
  Variable w : Z.
  Hypothesis Hw : 1 <= w.
  Variable unit : Z.
  Hypothesis Hunit : 0 < unit.

  Lemma update_total_borrowing_idx p m a b m' : update_total_borrowing w unit p m a b = Ok m' -> idx_view m' = idx_view m.
  Proof. unfold update_total_borrowing. intros H. ok_all H; injection H as <-; reflexivity. Qed.
  Lemma apply_delta_to_oi_idx m l c d m' : apply_delta_to_oi w m l c d = Ok m' -> idx_view m' = idx_view m.
  Proof. unfold apply_delta_to_oi. intros H. ok_all H; injection H as <-; destruct l; reflexivity. Qed.
  Lemma update_open_interest_idx p m a b m' : update_open_interest w p m a b = Ok m' -> idx_view m' = idx_view m.
  Proof.
    unfold update_open_interest. intros H. destruct (a =? 0); [injection H as <-; reflexivity|].
    bind_ok H as m1 E1. bind_ok H as t E2. injection H as <-. apply apply_delta_to_oi_idx in E1. rewrite <- E1.
    destruct (is_long p); reflexivity.
  Qed.

  (* position_price_impact only looks at the side of the position *)
  Lemma ppi_side p q m sd : is_long p = is_long q -> position_price_impact w unit p m sd = position_price_impact w unit q m sd.
  Proof. intros E. unfold position_price_impact. rewrite E. reflexivity. Qed.

  (* the impact charged is never better than the impact computed on the real open interest *)
  Lemma ppi_le_real p m sd r c :
    position_price_impact w unit p m sd = Ok (r, c) ->
    exists ol os real c',
      pool_total w (m_oi_long m) = Ok ol /\ pool_total w (m_oi_short m) = Ok os /\
      pool_delta_impact w unit ol os (if is_long p then sd else 0) (if is_long p then 0 else sd) (c_impact (m_cfg m)) = Ok (real, c') /\
      r <= real.
  Proof.
    unfold position_price_impact. intros H. bind_ok H as ol E1. bind_ok H as os E2. bind_ok H as imp E3. destruct imp as [real c'].
    exists ol, os, real, c'. split; [exact E1|]. split; [exact E2|]. split; [exact E3|].
    cbn [fst] in H. destruct (0 <=? real); [inversion H; subst; lia|].
    destruct (m_vi_pos m); [|inversion H; subst; lia].
    bind_ok H as lo F1. bind_ok H as lo' F2. bind_ok H as vimp F3. destruct vimp as [vr vc]. cbn [fst] in H.
    destruct (vr <? real) eqn:E; [apply Z.ltb_lt in E|]; inversion H; subst; lia.
  Qed.

  Lemma cap_positive_spec m index sd raw v :
    0 <= pl (m_impact m) -> 0 <= pmin index -> 0 <= pp_max_pos_impact (c_pos (m_cfg m)) ->
    cap_positive_impact w unit m index sd raw = Ok v ->
    (raw < 0 -> v = raw) /\
    (0 <= raw -> 0 <= v <= raw /\ v <= Z.abs sd * pp_max_pos_impact (c_pos (m_cfg m)) / unit).
  Proof.
    intros Hp Hpm Hf H. unfold cap_positive_impact in H. destruct (raw <? 0) eqn:Er.
    - injection H as <-. apply Z.ltb_lt in Er. split; [reflexivity|lia].
    - apply Z.ltb_ge in Er. bind_ok H as mx F1. apply umul_ok in F1. destruct F1 as [R1 ->].
      bind_ok H as mx' F2. apply rsigned_ok in F2. destruct F2 as [_ ->].
      bind_ok H as mf F3. apply af_ok in F3; [|lia..]. destruct F3 as [-> R3].
      bind_ok H as mf' F4. apply rsigned_ok in F4. destruct F4 as [_ ->]. injection H as <-.
      split; [lia|]. intros _.
      set (A := pl (m_impact m) * pmin index) in *. set (B := Z.abs sd * pp_max_pos_impact (c_pos (m_cfg m)) / unit) in *.
      assert (0 <= A) by lia. assert (0 <= B) by lia.
      destruct (A <? raw) eqn:Ea; [apply Z.ltb_lt in Ea|apply Z.ltb_ge in Ea];
        (destruct (B <? _) eqn:Eb; [apply Z.ltb_lt in Eb|apply Z.ltb_ge in Eb]); lia.
  Qed.

  Lemma cap_negative_spec m sd v i2 diff :
    0 <= pp_max_neg_impact (c_pos (m_cfg m)) ->
    cap_negative_impact w unit m sd false v = Ok (i2, diff) ->
    (0 <= v -> i2 = v) /\ (v < 0 -> i2 = Z.max v (- (Z.abs sd * pp_max_neg_impact (c_pos (m_cfg m)) / unit))).
  Proof.
    intros Hf H. unfold cap_negative_impact in H. destruct (v <? 0) eqn:Ev.
    - apply Z.ltb_lt in Ev. bind_ok H as lim G1. apply af_ok in G1; [|lia..]. destruct G1 as [-> R1].
      bind_ok H as mn G2. apply ropp_val in G2; [|exact Hw]. subst mn.
      split; [lia|]. intros _.
      destruct (v <? - (Z.abs sd * pp_max_neg_impact (c_pos (m_cfg m)) / unit)) eqn:Ec.
      + apply Z.ltb_lt in Ec. bind_ok H as d G3. injection H as <- _. lia.
      + apply Z.ltb_ge in Ec. injection H as <- _. lia.
    - apply Z.ltb_ge in Ev. injection H as <- _. split; [reflexivity|lia].
  Qed.

  (* caps on both legs of a round trip whose uncapped impacts net at most one unit *)
  Lemma caps_round_trip m m1 index S raw1 raw2 i1 v i2 diff :
    raw1 + raw2 <= 1 ->
    c_pos (m_cfg m1) = c_pos (m_cfg m) ->
    0 <= pl (m_impact m) -> 0 <= pl (m_impact m1) -> 0 <= pmin index ->
    0 <= pp_max_pos_impact (c_pos (m_cfg m)) <= pp_max_neg_impact (c_pos (m_cfg m)) ->
    cap_positive_impact w unit m index S raw1 = Ok i1 ->
    cap_positive_impact w unit m1 index (- S) raw2 = Ok v ->
    cap_negative_impact w unit m1 (- S) false v = Ok (i2, diff) ->
    i1 + i2 <= 1.
  Proof.
    intros Hsum Hcfg Hp Hp1 Hpm Hf H1 H2 H3.
    assert (Hf0 : 0 <= pp_max_pos_impact (c_pos (m_cfg m))) by lia.
    assert (Hf1 : 0 <= pp_max_pos_impact (c_pos (m_cfg m1))) by (rewrite Hcfg; lia).
    assert (Hf2 : 0 <= pp_max_neg_impact (c_pos (m_cfg m1))) by (rewrite Hcfg; lia).
    destruct (cap_positive_spec _ _ _ _ _ Hp Hpm Hf0 H1) as [A1 A2].
    destruct (cap_positive_spec _ _ _ _ _ Hp1 Hpm Hf1 H2) as [B1 B2].
    destruct (cap_negative_spec _ _ _ _ _ Hf2 H3) as [C1 C2].
    rewrite Z.abs_opp in *. rewrite Hcfg in *.
    set (CP := Z.abs S * pp_max_pos_impact (c_pos (m_cfg m)) / unit) in *.
    set (CN := Z.abs S * pp_max_neg_impact (c_pos (m_cfg m)) / unit) in *.
    assert (CP <= CN) by (apply Z.div_le_mono; [lia|]; pose proof (Z.abs_nonneg S); nia).
    assert (0 <= CN) by (apply div_nonneg; [pose proof (Z.abs_nonneg S); nia|lia]).
    destruct (Z_lt_le_dec raw1 0) as [R1|R1].
    - rewrite (A1 R1). destruct (Z_lt_le_dec raw2 0) as [R2|R2].
      + rewrite (B1 R2) in *. specialize (C2 R2). lia.
      + destruct (B2 R2) as [[V0 V1] _]. rewrite (C1 V0). lia.
    - destruct (A2 R1) as [[I0 I1] I2].
      destruct (Z_lt_le_dec raw2 0) as [R2|R2].
      + rewrite (B1 R2) in *. specialize (C2 R2). lia.
      + destruct (B2 R2) as [[V0 V1] _]. rewrite (C1 V0). lia.
  Qed.

  (* ---- the fees record after the waterfall: untouched, or cleared except for the funding part ---- *)
  Section Fees.
    Variable pr : prices.
    Variable p : position.
    Hypothesis Hcp : 0 < pmin (out_price pr p).
    Hypothesis Hpp : 0 < pmin (pnl_price pr p).
    Hypothesis Hppx : 0 < pmax (pnl_price pr p).

    Definition fees_kept (fs f : fees) : Prop := f = fs \/ f = fees_clear fs.

    Lemma step_fees_fees s : nn s ->
      after (step_fees w pr p s) S_FEES (fun _ s' => fees_kept (st_fees s) (st_fees s')).
    Proof.
      intros Hn. unfold step_fees, plift.
      destruct (fees_total_excl_funding w (st_fees s)) as [ca|] eqn:Eca; [|exact I].
      pose proof (fees_total_excl_nonneg w Hw _ _ Eca) as Hca.
      destruct (ca =? 0); [left; reflexivity|].
      destruct (of_opt E_COMP (umul w ca (pmin (out_price pr p)))) as [cost|] eqn:Ec; [|exact I].
      apply of_opt_ok in Ec. apply umul_ok in Ec. destruct Ec as [_ ->].
      apply after_pay. intros s1 pc psec rem s2 E1 E2.
      assert (Hc : 0 <= ca * pmin (out_price pr p)) by nia.
      destruct (do_pay_spec w Hw pr p Hcp Hpp _ _ _ _ _ _ Hn Hc E1) as (_ & _ & _ & _ & _ & F1 & _).
      destruct ((rem =? 0) && (psec =? 0)).
      - bind_ok E2 as fpl G1. bind_ok E2 as fps G2. bind_ok E2 as m1 G3. bind_ok E2 as fr G4. bind_ok E2 as frs G5.
        bind_ok E2 as m2 G6. injection E2 as <-. left. cbn. exact F1.
      - bind_ok E2 as s2' G1. destruct (pay_to_primary_pool_spec w pr p _ _ _ _ G1) as (_ & _ & F2).
        injection E2 as <-. right. cbn. rewrite F2, F1. reflexivity.
    Qed.

    Lemma process_costs_fees m fs pnl piv diff ins st stp :
      0 <= coll p -> 0 <= f_fund fs -> 0 <= diff ->
      process_costs w pr p m fs pnl piv diff ins = Ok (st, stp) -> fees_kept fs (st_fees st).
    Proof.
      intros Hc Hf Hd H. unfold process_costs in H.
      set (s0 := MkPState m 0 0 (coll p) 0 0 0 0 fs) in *.
      assert (N0 : nn s0) by (unfold nn, s0; cbn; lia).
      unfold plift in H.
      destruct (step_add_pnl w pr p s0 pnl) as [s1|] eqn:E1; [|discriminate].
      destruct (step_add_pnl_spec w Hw pr p Hppx _ _ _ N0 E1) as (_ & N1 & F1 & _).
      destruct (step_add_impact w pr p s1 piv) as [s2|] eqn:E2; [|discriminate].
      destruct (step_add_impact_spec w Hw pr p Hppx _ _ _ N1 E2) as (_ & N2 & F2 & _).
      assert (F02 : st_fees s2 = fs) by (rewrite F2, F1; reflexivity).
      assert (Hf2 : 0 <= f_fund (st_fees s2)) by (rewrite F02; exact Hf).
      pose proof (step_funding_spec w Hw pr p Hcp Hpp s2 N2 Hf2) as S3.
      destruct (step_funding w pr p s2) as [s3|k3 s3|e3]; cbn [pbind after] in H, S3; [| |discriminate].
      2: { destruct S3 as (_ & K & _ & _ & F3 & _). destruct ins; [|discriminate]. injection H as <- _. left. congruence. }
      destruct S3 as (K & _ & N3 & F3 & _).
      pose proof (step_pnl_negative_spec w Hw pr p Hcp Hpp s3 pnl N3) as S4.
      destruct (step_pnl_negative w pr p s3 pnl) as [s4|k4 s4|e4]; cbn [pbind after] in H, S4; [| |discriminate].
      2: { destruct S4 as (_ & _ & _ & F4 & _). destruct ins; [|discriminate]. injection H as <- _. left. congruence. }
      destruct S4 as (_ & N4 & F4 & _).
      assert (F04 : st_fees s4 = fs) by congruence.
      pose proof (step_fees_fees s4 N4) as S5. pose proof (step_fees_spec w Hw pr p Hcp Hpp s4 N4) as S5'.
      destruct (step_fees w pr p s4) as [s5|k5 s5|e5]; cbn [pbind after] in H, S5, S5'; [| |discriminate].
      2: { destruct S5 as (_ & S5). destruct ins; [|discriminate]. injection H as <- _. rewrite F04 in S5. exact S5. }
      rewrite F04 in S5. destruct S5' as (D & _ & N5 & _).
      pose proof (step_impact_negative_spec w Hw pr p Hcp Hpp s5 piv N5) as S6.
      destruct (step_impact_negative w pr p s5 piv) as [s6|k6 s6|e6]; cbn [pbind after] in H, S6; [| |discriminate].
      2: { destruct S6 as (_ & _ & _ & F6 & _). destruct ins; [|discriminate]. injection H as <- _. rewrite F6. exact S5. }
      destruct S6 as (_ & N6 & F6 & _).
      pose proof (step_impact_diff_spec w Hw pr p Hcp Hpp s6 diff N6 Hd) as S7.
      destruct (step_impact_diff w pr p s6 diff) as [s7|k7 s7|e7]; cbn [after] in H, S7; [| |discriminate].
      - destruct S7 as (_ & _ & F7 & _). injection H as <- _. rewrite F7, F6. exact S5.
      - destruct S7 as (_ & _ & _ & F7 & _). destruct ins; [|discriminate]. injection H as <- _. rewrite F7, F6. exact S5.
    Qed.
  End Fees.

  Lemma unpack_zero_size adj latest pv ru r : unpack_funding w unit adj latest pv 0 ru = Some r -> r = 0.
  Proof.
    unfold unpack_funding. intros H.
    destruct (usub w latest pv) as [d|] eqn:E1; [|discriminate]. cbn in H. apply usub_ok in E1. destruct E1 as [R1 ->].
    destruct (umul w adj unit) as [a|] eqn:E2; [|discriminate]. cbn in H. apply umul_ok in E2. destruct E2 as [R2 ->].
    destruct ru.
    - apply mul_div_ceil_exact in H; [|lia..]. nia.
    - apply mul_div_floor in H; [|lia..]. nia.
  Qed.
  Lemma unpack_zero_diff adj latest size ru r : 0 <= size -> unpack_funding w unit adj latest latest size ru = Some r -> r = 0.
  Proof.
    unfold unpack_funding. intros Hs H.
    destruct (usub w latest latest) as [d|] eqn:E1; [|discriminate]. cbn in H. apply usub_ok in E1. destruct E1 as [R1 ->].
    destruct (umul w adj unit) as [a|] eqn:E2; [|discriminate]. cbn in H. apply umul_ok in E2. destruct E2 as [R2 ->].
    replace (latest - latest) with 0 in H by lia.
    destruct ru.
    - apply mul_div_ceil_exact in H; [|lia..]. nia.
    - apply mul_div_floor in H; [|lia..]. nia.
  Qed.

  (* what the round-trip argument needs from a successful increase of an empty position *)
  Lemma increase_open_parts p m pr ci sd acc p1 m1 ir :
    size_usd p = 0 -> coll p = 0 ->
    increase w unit p m pr ci sd acc = Ok (p1, m1, ir) ->
    sd <> 0 /\
    (exists raw ch, position_price_impact w unit p m sd = Ok (raw, ch) /\
                    cap_positive_impact w unit m (p_index pr) sd raw = Ok (ir_impact_value ir)) /\
    coll p1 <= ci /\ ir_claim_l ir = 0 /\ ir_claim_s ir = 0 /\
    bfac p1 = amount (m_bf m1) (is_long p1) /\
    ffa p1 = amount (fa_pool m1 (is_long p1)) (coll_long p1) /\
    cfa_l p1 = pl (cfa_pool m1 (is_long p1)) /\ cfa_s p1 = ps (cfa_pool m1 (is_long p1)).
  Proof.
    intros Hempty Hcoll H. unfold increase in H.
    destruct (negb (prices_valid w pr)); [discriminate|].
    rewrite Hempty in H. cbn [Z.eqb] in H.
    set (p0 := MkPos (is_long p) (coll_long p) (coll p) 0 0 (bfac p) (amount (fa_pool m (is_long p)) (coll_long p))
                     (pl (cfa_pool m (is_long p))) (ps (cfa_pool m (is_long p)))) in *.
    bind_ok H as ex Eex. destruct ex as [[[[piv pia] sdt] ep] change].
    bind_ok H as cda0 E1. apply rsigned_ok in E1. destruct E1 as [_ ->].
    bind_ok H as fs E2. bind_ok H as tc E3. bind_ok H as tcs E4. apply rsigned_ok in E4. destruct E4 as [_ ->].
    bind_ok H as cda E5. apply ssub_ok in E5. destruct E5 as [_ ->].
    bind_ok H as fr E6. bind_ok H as frs E7. bind_ok H as m1' E8. bind_ok H as fpl E9. bind_ok H as fps E10.
    bind_ok H as m2 E11. bind_ok H as cs E12. bind_ok H as coll' E13. bind_ok H as npia E14. bind_ok H as m4 E15.
    bind_ok H as next_size E16. bind_ok H as m5 E17. bind_ok H as next_tok E18.
    bind_ok H as sds E19. bind_ok H as sdts E20. bind_ok H as m6 E21.
    bind_ok H as u1 E22. bind_ok H as u2 E23. injection H as <- <- <-.
    cbn [is_long coll_long coll bfac ffa cfa_l cfa_s ir_impact_value ir_claim_l ir_claim_s p0].
    apply uadd_ok in E16. destruct E16 as [_ ->]. cbn [size_usd p0] in *.
    destruct u2. apply validate_position_sizes in E23. cbn [size_usd size_tok] in E23.
    assert (Hsd : sd <> 0) by lia.
    split; [exact Hsd|].
    split.
    { replace (sd =? 0) with false in Eex by (symmetry; apply Z.eqb_neq; exact Hsd).
      bind_ok Eex as sds' F1. apply rsigned_ok in F1. destruct F1 as [_ ->].
      bind_ok Eex as imp F2. bind_ok Eex as pia' F3. bind_ok Eex as base F4. bind_ok Eex as sdt' F5. bind_ok Eex as ep' F6.
      injection Eex as <- _ _ _ _.
      unfold capped_positive_impact in F2. bind_ok F2 as rawc G1. destruct rawc as [raw ch]. bind_ok F2 as v G2. injection F2 as <-.
      cbn [fst snd] in *. exists raw, ch. split; [|exact G2].
      rewrite <- G1. apply ppi_side. reflexivity. }
    (* collateral *)
    assert (Htc : 0 <= tc).
    { unfold fees_total in E3. bind_ok E3 as te E3a. ok_inj E3. apply uadd_ok in E3. lia. }
    split.
    { destruct (add_with_signed w (coll p0) (ci - tc)) eqn:EA; [|destruct (0 <? ci - tc); discriminate].
      injection E13 as <-. unfold add_with_signed, uadd, usub in EA. cbn [coll p0] in EA. rewrite Hcoll in EA.
      destruct (0 <? ci - tc) eqn:Ec; apply chk_u_some in EA; lia. }
    (* claimable funding of an empty position *)
    assert (Hcl : f_claim_l fs = 0 /\ f_claim_s fs = 0).
    { unfold position_fees in E2.
      bind_ok E2 as lq Q0. bind_ok E2 as uu Q1. bind_ok E2 as fv Q2. bind_ok E2 as fa Q3. bind_ok E2 as fr' Q4.
      bind_ok E2 as fpool Q5. bind_ok E2 as bv Q6. bind_ok E2 as ba Q7. bind_ok E2 as paid Q8. bind_ok E2 as br Q9.
      bind_ok E2 as ff Q10. injection E2 as <-. cbn [f_claim_l f_claim_s].
      unfold pending_funding_fees in Q10. cbn [size_usd p0] in Q10.
      bind_ok Q10 as a R1. bind_ok Q10 as cl R2. bind_ok Q10 as cs' R3. injection Q10 as <-. cbn [fst snd].
      split; [exact (unpack_zero_size _ _ _ _ _ R2)|exact (unpack_zero_size _ _ _ _ _ R3)]. }
    destruct Hcl as [-> ->]. split; [reflexivity|]. split; [reflexivity|].
    apply update_total_borrowing_idx in E17. apply update_open_interest_idx in E21.
    unfold idx_view in E17, E21. injection E17 as _ I1 I2 I3 I4 I5. injection E21 as _ J1 J2 J3 J4 J5.
    unfold fa_pool, cfa_pool. destruct (is_long p); repeat split; congruence.
  Qed.

  (* what the round-trip argument needs from a decrease that removed the position *)
  Lemma decrease_close_parts p m pr sd0 acc cw fl p1 m' rep :
    0 < size_usd p -> 0 < size_tok p -> 0 <= coll p ->
    decrease w unit p m pr sd0 acc cw fl = Ok (p1, m', rep) -> dr_remove rep = true ->
    exists fs st stp change ins,
      position_fees w unit p m (coll_price pr (coll_long p)) (size_usd p) change (fl_liq fl) = Ok fs /\
      capped_impact w unit p m (p_index pr) (- size_usd p) = Ok (dr_impact_value rep, change, dr_impact_diff rep) /\
      process_costs w pr p m fs (dr_pnl rep) (dr_impact_value rep) (dr_impact_diff rep) ins = Ok (st, stp) /\
      dr_fees rep = st_fees st /\ dr_user_out rep = st_user_out st /\ dr_user_sec rep = st_user_sec st /\
      dr_claim_l rep = f_claim_l (st_fees st) /\ dr_claim_s rep = f_claim_s (st_fees st) /\
      dr_output rep + dr_secondary rep = st_out st + st_coll st + st_sec st /\
      (same_tokens p = false -> dr_secondary rep = st_sec st).
  Proof.
    intros HS HT HC H Hrm.
    pose proof (decrease_effect w Hw unit _ _ _ _ _ _ _ _ _ _ HS HT HC H) as (_ & _ & U & _ & _ & R1 & _).
    destruct (R1 Hrm) as (Z1 & _). assert (HD : dr_size_delta rep = size_usd p) by lia. clear U R1 Z1.
    unfold decrease in H.
    destruct (negb (prices_valid w pr)); [discriminate|].
    destruct ((size_usd p =? 0) && (size_tok p =? 0) && (coll p =? 0)); [discriminate|].
    bind_ok H as sd1 Esd1. bind_ok H as pc Epc. destruct pc as [sd wd1].
    bind_ok H as u1 Eliq. bind_ok H as ex Eex. destruct ex as [[[piv change] diff] ep].
    bind_ok H as pn Epn. destruct pn as [[base_pnl uncapped_pnl] sdt].
    bind_ok H as fs Efs. bind_ok H as pr_ Eproc. destruct pr_ as [st step].
    bind_ok H as wd3 Ewd3.
    set (wd := if st_coll st <? wd3 then st_coll st else wd3) in *.
    bind_ok H as x Ex. destruct x as [rem_coll out1].
    assert (Hx : rem_coll + out1 = st_coll st + st_out st).
    { destruct (wd =? 0); [injection Ex as <- <-; lia|]. bind_ok Ex as o Eo. apply uadd_ok in Eo. destruct Eo as [_ ->].
      injection Ex as <- <-. lia. }
    bind_ok H as next_size Ens. bind_ok H as m2 Em2. bind_ok H as next_tok Ent.
    bind_ok H as y Ey. destruct y as [[[ns nt] nc] out2].
    bind_ok H as cdelta Ecd. bind_ok H as ncd Encd. bind_ok H as cs Ecs.
    bind_ok H as nsd Ensd. bind_ok H as nsdt Ensdt. bind_ok H as m4 Em4.
    bind_ok H as u2 Eval. bind_ok H as zz Ez. destruct zz as [out3 sec3].
    injection H as _ _ <-.
    cbn [dr_size_delta dr_remove dr_impact_value dr_impact_diff dr_pnl dr_fees dr_user_out dr_user_sec dr_claim_l dr_claim_s dr_output dr_secondary] in *.
    subst sd.
    rewrite Hrm in Ey. bind_ok Ey as o Eo. apply uadd_ok in Eo. destruct Eo as [_ ->]. injection Ey as _ _ _ <-.
    replace (size_usd p =? 0) with false in Eex by (symmetry; apply Z.eqb_neq; lia).
    bind_ok Eex as nsd' G1. apply ropp_val in G1; [|exact Hw]. subst nsd'.
    bind_ok Eex as imp G2. destruct imp as [[piv' change'] diff'].
    bind_ok Eex as ep' G3. injection Eex as X1 X2 X3 _. subst piv' change' diff'.
    exists fs, st, step, change, ((size_usd p =? sd1) && fl_insolvent fl).
    split; [exact Efs|]. split; [exact G2|]. split; [exact Eproc|].
    repeat split; try reflexivity.
    - destruct (same_tokens p && negb (st_sec st =? 0)).
      + bind_ok Ez as o Eo. apply uadd_ok in Eo. destruct Eo as [_ ->]. injection Ez as <- <-. lia.
      + injection Ez as <- <-. lia.
    - intros Hs. rewrite Hs in Ez. cbn in Ez. injection Ez as _ <-. reflexivity.
  Qed.

  (* fees of a position whose snapshots equal the market's current indices: no funding, no claims *)
  Lemma fees_at_snapshot p m cp sd change liq fs :
    0 <= size_usd p ->
    ffa p = amount (fa_pool m (is_long p)) (coll_long p) ->
    cfa_l p = pl (cfa_pool m (is_long p)) -> cfa_s p = ps (cfa_pool m (is_long p)) ->
    position_fees w unit p m cp sd change liq = Ok fs ->
    f_fund fs = 0 /\ f_claim_l fs = 0 /\ f_claim_s fs = 0.
  Proof.
    intros Hs I1 I2 I3 H. unfold position_fees in H.
    bind_ok H as lq Q0. bind_ok H as uu Q1. bind_ok H as fv Q2. bind_ok H as fa Q3. bind_ok H as fr' Q4.
    bind_ok H as fpool Q5. bind_ok H as bv Q6. bind_ok H as ba Q7. bind_ok H as paid Q8. bind_ok H as br Q9.
    bind_ok H as ff Q10. injection H as <-. cbn [f_fund f_claim_l f_claim_s].
    unfold pending_funding_fees in Q10. rewrite <- I1, <- I2, <- I3 in Q10.
    bind_ok Q10 as a R1. bind_ok Q10 as cl R2. bind_ok Q10 as cs' R3. injection Q10 as <-. cbn [fst snd].
    split; [exact (unpack_zero_diff _ _ _ _ _ Hs R1)|].
    split; [exact (unpack_zero_diff _ _ _ _ _ Hs R2)|exact (unpack_zero_diff _ _ _ _ _ Hs R3)].
  Qed.

  Lemma fees_kept_claims fs f : fees_kept fs f -> f_claim_l f = f_claim_l fs /\ f_claim_s f = f_claim_s fs.
  Proof. intros [->| ->]; split; reflexivity. Qed.

  Lemma pool_total_val pl0 t : pool_total w pl0 = Ok t -> t = pl pl0 + ps pl0 /\ 0 <= t < 2 ^ w.
  Proof. unfold pool_total. intros H. ok_inj H. apply uadd_ok in H. lia. Qed.

  (* ---- C10: open an empty position, close it entirely at once at the same prices ---- *)
  Theorem open_close_no_profit p m pr ci sd acc p1 m1 ir sd' acc' cw fl p2 m2 dr :
    size_usd p = 0 -> coll p = 0 -> 0 <= ci -> 0 <= sd ->
    prices_nonneg pr -> price_ordered (p_index pr) ->
    0 < pmin (coll_price pr (coll_long p)) <= pmax (coll_price pr (coll_long p)) ->
    0 < pmin (coll_price pr (is_long p)) <= pmax (coll_price pr (is_long p)) ->
    pnl_market_nonneg m1 -> 0 <= pl (m_impact m) -> 0 <= pl (m_impact m1) ->
    ip_ok (c_impact (m_cfg m)) ->
    0 <= pp_max_pos_impact (c_pos (m_cfg m)) <= pp_max_neg_impact (c_pos (m_cfg m)) ->
    increase w unit p m pr ci sd acc = Ok (p1, m1, ir) ->
    decrease w unit p1 m1 pr sd' acc' cw fl = Ok (p2, m2, dr) -> dr_remove dr = true ->
    value_out (coll_long p1) (is_long p1) pr ir dr
      <= ci * pmin (coll_price pr (coll_long p)) + 4 * pmin (coll_price pr (is_long p)) + 1.
  Proof.
    intros Hempty Hcoll Hci Hsd Hpr Hord Hcp Hpp Hm1 Hi0 Hi1 Hip Hcaps Hinc Hdec Hrm.
    pose proof (increase_effect w Hw unit _ _ _ _ _ _ _ _ _ Hinc) as (L & C & U & _ & _ & P1 & P2 & P3 & Cfg & O1 & _).
    destruct (increase_open_parts _ _ _ _ _ _ _ _ _ Hempty Hcoll Hinc) as (Hsd0 & (raw1 & ch1 & Eraw1 & Ecap1) & Hc1 & Cl1 & Cs1 & Ib & If & Icl & Ics).
    destruct (roundtrip_pnl_le_open_impact w Hw unit Hunit _ _ _ _ _ _ _ _ _ _ _ _ _ _ _ _ Hempty Hord Hsd Hpr Hm1 Hinc Hdec Hrm)
      as (HD & _ & Q1 & Q2 & Q3).
    destruct (decrease_close_parts _ _ _ _ _ _ _ _ _ _ P1 P2 P3 Hdec Hrm)
      as (fs & st & stp & change & ins & Efs & Ecap2 & Eproc & Ffs & Uo & Us & Dl & Ds & Hout & Hsec).
    assert (Ssd : size_usd p1 = sd) by lia. rewrite Ssd in Efs, Ecap2.
    (* no funding, no claims at the close *)
    assert (P1' : 0 <= size_usd p1) by lia.
    destruct (fees_at_snapshot _ _ _ _ _ _ _ P1' If Icl Ics Efs) as (Fz & Cz1 & Cz2).
    (* prices in terms of p1 *)
    assert (Ecp : pmin (out_price pr p1) = pmin (coll_price pr (coll_long p))) by (unfold out_price; rewrite C; reflexivity).
    assert (Epp : pmin (pnl_price pr p1) = pmin (coll_price pr (is_long p))) by (unfold pnl_price; rewrite L; reflexivity).
    assert (Epx : pmax (pnl_price pr p1) = pmax (coll_price pr (is_long p))) by (unfold pnl_price; rewrite L; reflexivity).
    assert (Ecx : pmax (out_price pr p1) = pmax (coll_price pr (coll_long p))) by (unfold out_price; rewrite C; reflexivity).
    assert (H1 : 0 < pmin (out_price pr p1)) by lia. assert (H2 : 0 < pmin (pnl_price pr p1)) by lia.
    assert (H3 : pmin (pnl_price pr p1) <= pmax (pnl_price pr p1)) by lia.
    assert (H4 : pmin (out_price pr p1) <= pmax (out_price pr p1)) by lia.
    assert (H5 : 0 < pmax (pnl_price pr p1)) by lia.
    (* fees record after the waterfall: claims are those of fs, i.e. zero *)
    assert (Hdiff : 0 <= dr_impact_diff dr) by exact (C08.Ledger.capped_impact_diff_nonneg w unit _ _ _ _ _ _ _ Ecap2).
    assert (Hf0 : 0 <= f_fund fs) by lia.
    pose proof (process_costs_fees pr p1 H1 H2 H5 _ _ _ _ _ _ _ _ P3 Hf0 Hdiff Eproc) as Hk.
    destruct (fees_kept_claims _ _ Hk) as [K1 K2].
    (* value form of the waterfall *)
    destruct (process_costs_value w Hw pr p1 H1 H2 H3 H4 _ _ _ _ _ _ _ _ P3 Hf0 Hdiff H5 Eproc) as (Hphi & (N1 & N2 & N3) & Nu1 & Nu2).
    rewrite Fz in Hphi.
    (* value_out <= phi st *)
    assert (Hvo : value_out (coll_long p1) (is_long p1) pr ir dr <= phi pr p1 st).
    { unfold value_out, phi. rewrite Cl1, Cs1, Dl, Ds, K1, K2, Cz1, Cz2, Uo, Us.
      fold (out_price pr p1). fold (pnl_price pr p1).
      destruct (Bool.eqb (coll_long p1) (is_long p1)) eqn:Es.
      - apply Bool.eqb_prop in Es. assert (Hx : pmax (pnl_price pr p1) = pmax (out_price pr p1)) by (unfold pnl_price, out_price; rewrite Es; reflexivity).
        replace (dr_output dr + st_user_out st + (if coll_long p1 then 0 + 0 else 0 + 0) + dr_secondary dr + st_user_sec st)
          with ((st_out st + st_coll st + st_user_out st) + (st_sec st + st_user_sec st)) by (destruct (coll_long p1); lia).
        replace ((if coll_long p1 then 0 + 0 else 0 + 0) * pmax (coll_price pr (negb (coll_long p1)))) with 0 by (destruct (coll_long p1); lia).
        nia.
      - assert (Hs : same_tokens p1 = false).
        { unfold same_tokens. destruct (is_long p1), (coll_long p1); cbn in *; congruence. }
        specialize (Hsec Hs).
        replace (dr_output dr + st_user_out st + (if coll_long p1 then 0 + 0 else 0 + 0)) with (st_out st + st_coll st + st_user_out st) by (destruct (coll_long p1); lia).
        replace (dr_secondary dr + st_user_sec st + (if coll_long p1 then 0 + 0 else 0 + 0)) with (st_sec st + st_user_sec st) by (destruct (coll_long p1); lia).
        lia. }
    (* impacts of the two legs *)
    assert (Himp : ir_impact_value ir + dr_impact_value dr <= 1).
    { unfold capped_impact in Ecap2. bind_ok Ecap2 as imp G1. bind_ok Ecap2 as cn G2. injection Ecap2 as E21 E22 E23.
      unfold capped_positive_impact in G1. bind_ok G1 as rc G3. destruct rc as [raw2 ch2]. bind_ok G1 as v G4. injection G1 as <-.
      cbn [fst snd] in *. destruct cn as [i2 d2]. cbn [fst snd] in *. subst i2 d2.
      destruct (ppi_le_real _ _ _ _ _ Eraw1) as (ol & os & real1 & c1' & T1 & T2 & D1 & Le1).
      destruct (ppi_le_real _ _ _ _ _ G3) as (ol' & os' & real2 & c2' & T1' & T2' & D2 & Le2).
      apply pool_total_val in T1, T2, T1', T2'. destruct T1 as [-> R1]. destruct T2 as [-> R2]. destruct T1' as [-> R1']. destruct T2' as [-> R2'].
      rewrite L in D2. rewrite Cfg in D2.
      assert (Eol : pl (m_oi_long m1) + ps (m_oi_long m1) = pl (m_oi_long m) + ps (m_oi_long m) + (if is_long p then sd else 0)).
      { pose proof (O1 true true) as A. pose proof (O1 true false) as B. unfold oi_amt, hit in A, B. cbn in A, B.
        destruct (is_long p), (coll_long p); cbn in A, B; lia. }
      assert (Eos : pl (m_oi_short m1) + ps (m_oi_short m1) = pl (m_oi_short m) + ps (m_oi_short m) + (if is_long p then 0 else sd)).
      { pose proof (O1 false true) as A. pose proof (O1 false false) as B. unfold oi_amt, hit in A, B. cbn in A, B.
        destruct (is_long p), (coll_long p); cbn in A, B; lia. }
      rewrite Eol, Eos in D2.
      replace (if is_long p then - sd else 0) with (- (if is_long p then sd else 0)) in D2 by (destruct (is_long p); lia).
      replace (if is_long p then 0 else - sd) with (- (if is_long p then 0 else sd)) in D2 by (destruct (is_long p); lia).
      pose proof (impact_round_trip w Hw unit Hunit _ _ _ _ _ _ _ _ _ Hip R1 R2 D1 D2) as RT.
      assert (Hsum : raw1 + raw2 <= 1) by lia.
      assert (Hcp' : c_pos (m_cfg m1) = c_pos (m_cfg m)) by (rewrite Cfg; reflexivity).
      assert (Ho : 0 <= pmin (p_index pr)) by (unfold price_ordered in Hord; lia).
      exact (caps_round_trip _ _ _ _ _ _ _ _ _ _ Hsum Hcp' Hi0 Hi1 Ho Hcaps Ecap1 G4 G2). }
    (* arithmetic *)
    rewrite Ecp, Epp in *.
    assert (coll p1 * pmin (coll_price pr (coll_long p)) <= ci * pmin (coll_price pr (coll_long p))) by nia.
    assert (0 <= ci * pmin (coll_price pr (coll_long p))) by nia.
    lia.
  Qed.
End P.
