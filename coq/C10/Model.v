(* C10 — the model lives in PS/Model.v, PS/Actions.v and PS/Hist.v; this file only re-exports it. *)
From GV Require Export lib.Base C01.Model PS.Model PS.Actions PS.Hist.
