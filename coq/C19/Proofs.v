From GV Require Import lib.Base gen.C19Tables C19.Policy C19.Model.
From Coq Require Import String.
Open Scope string_scope.
Open Scope Z_scope.

Lemma filter_nil_forall {A} (f : A -> bool) (l : list A) :
  filter f l = [] -> forall x, In x l -> f x = false.
Proof.
  induction l as [|a l IH]; intros H x Hin; [destruct Hin|].
  cbn in H. destruct (f a) eqn:Fa; [discriminate|].
  destruct Hin as [->|Hin]; [exact Fa| exact (IH H x Hin)].
Qed.

(* ---------- static table: every instruction implements its policy ---------- *)
Definition qualified (i : instr) : string := i_prog i ++ "::" ++ i_name i.

(* instructions whose source does not implement the policy (or that have no policy row) *)
Definition unguarded : list string := map qualified (filter (fun i => negb (instr_ok i)) instructions).
Lemma none_unguarded : unguarded = [].
Proof. vm_compute. reflexivity. Qed.

Lemma every_instruction_ok : forall i, In i instructions -> instr_ok i = true.
Proof.
  intros i Hin. destruct (instr_ok i) eqn:E; [reflexivity|].
  assert (In i (filter (fun i => negb (instr_ok i)) instructions)) as H.
  { apply filter_In. split; [exact Hin|]. rewrite E. reflexivity. }
  pose proof none_unguarded as Hn. unfold unguarded in Hn.
  destruct (filter (fun i => negb (instr_ok i)) instructions); [destruct H|discriminate].
Qed.

(* policy rows without an instruction, and duplicated rows *)
Definition stale_rows : list string :=
  map (fun r => fst (fst r) ++ "::" ++ snd (fst r))
      (filter (fun r => negb (existsb (fun i => String.eqb (i_prog i) (fst (fst r)) && String.eqb (i_name i) (snd (fst r))) instructions))
              policy_table).
Lemma no_stale_rows : stale_rows = [].
Proof. vm_compute. reflexivity. Qed.

Fixpoint dups (l : list string) : list string :=
  match l with [] => [] | x :: r => if mem x r then x :: dups r else dups r end.
Definition duplicate_rows : list string := dups (map (fun r => fst (fst r) ++ "::" ++ snd (fst r)) policy_table).
Lemma no_duplicate_rows : duplicate_rows = [].
Proof. vm_compute. reflexivity. Qed.
Definition duplicate_instructions : list string := dups (map qualified instructions).
Lemma no_duplicate_instructions : duplicate_instructions = [].
Proof. vm_compute. reflexivity. Qed.

(* documentation cross-check *)
Definition doc_mismatch : list string := map qualified (filter (fun i => negb (doc_consistent i)) instructions).
Lemma no_doc_mismatch : doc_mismatch = [].
Proof. vm_compute. reflexivity. Qed.

(* ---------- dispatcher ---------- *)
Section DispatchFacts.
  Context {State : Type}.
  Variable is_admin : State -> Z -> bool.
  Variable has_role : State -> Z -> string -> option bool.
  Notation guard_ok := (guard_ok is_admin has_role).
  Notation exec := (exec is_admin has_role).

  Lemma reject_unchanged : forall g signed accounts_ok body (st : State) who,
    guard_ok g st who = false -> exec g signed accounts_ok body st who = (st, false).
  Proof. intros. unfold Model.exec. rewrite H. rewrite Bool.andb_false_r. reflexivity. Qed.

  Lemma unsigned_rejected : forall g accounts_ok body (st : State) who,
    exec g false accounts_ok body st who = (st, false).
  Proof. reflexivity. Qed.

  Lemma failure_unchanged : forall g signed accounts_ok body (st : State) who st',
    exec g signed accounts_ok body st who = (st', false) -> st' = st.
  Proof.
    intros g signed aok body st who st' H. unfold Model.exec in H.
    destruct (signed && aok && guard_ok g st who); [destruct (body st)|]; inversion H; reflexivity.
  Qed.

  Lemma success_needs_guard : forall g signed accounts_ok body (st : State) who st',
    exec g signed accounts_ok body st who = (st', true) -> signed = true /\ guard_ok g st who = true.
  Proof.
    intros g signed aok body st who st' H. unfold Model.exec in H.
    destruct signed, aok, (guard_ok g st who); cbn in H; try discriminate. split; reflexivity.
  Qed.

  Lemma any_role_sound : forall st who rs, any_role has_role st who rs = true -> exists r, In r rs /\ has_role st who r = Some true.
  Proof.
    induction rs as [|r rs IH]; cbn; [discriminate|].
    destruct (has_role st who r) as [[|]|] eqn:E; intros H; try discriminate.
    - exists r. split; [left; reflexivity|exact E].
    - destruct (IH H) as [r' [Hin Hr]]. exists r'. split; [right; exact Hin|exact Hr].
  Qed.

  (* what a successful call proves about the caller, per guard *)
  Lemma guard_ok_meaning : forall g (st : State) who, guard_ok g st who = true ->
    match g with
    | GNone => True
    | GAdmin | GCpiAdmin => is_admin st who = true
    | GRole r | GCpiRole r => has_role st who r = Some true
    | GAny rs => exists r, In r rs /\ has_role st who r = Some true
    end.
  Proof.
    intros g st who H. destruct g; cbn in *; try exact I; try exact H.
    - destruct (has_role st who r) as [[|]|]; try discriminate. reflexivity.
    - apply any_role_sound. exact H.
    - destruct (has_role st who r) as [[|]|]; try discriminate. reflexivity.
  Qed.
End DispatchFacts.
