(* C19 — the access-control POLICY, hand-written (never generated): for every instruction of the
   store, treasury, timelock, competition and liquidity-provider programs, what a caller must be.

   Sources: the `# Errors` sections of the entrypoint doc comments in programs/*/src/lib.rs
   ("must be a signer and have the MARKET_KEEPER role in the store"), the `# CHECK Only [ROLE] can use`
   notes on the `unchecked_*` handlers, the role descriptions in crates/utils/src/role.rs, and for the
   instructions without a role the account documentation (owner / authority / receiver semantics).

   A row is one of
     PAdmin / PRole r / PAnyRole rs / PCpiRole r   — the entrypoint must carry exactly that guard;
     POwner evidence reason   — no role: the caller must be the owner / authority of the accounts acted
                                on; `evidence` lists the account constraints or handler checks that
                                must be present in the source (substring match on the translated facts);
     POpen evidence reason    — needs no privilege by design (views; creation of accounts derived from
                                the signer's own key; documented permissionless cranks). *)
From GV Require Import lib.Base.
From Coq Require Import String.
Open Scope string_scope.

Inductive policy :=
| PAdmin
| PRole (r : string)
| PAnyRole (rs : list string)
| PCpiRole (r : string)
| POwner (evidence : list string) (reason : string)
| POpen (evidence : list string) (reason : string).

Definition rows (prog : string) (p : policy) (names : list string) : list (string * string * policy) :=
  map (fun n => (prog, n, p)) names.

Definition own_action (kind : string) : policy :=
  (* user-created action: PDA derived from the signer's key, so a caller can only create its own *)
  POpen ["signer:owner"; "init_seeds:" ++ kind ++ ": seeds = ["; "owner.key().as_ref()"]
        "creates an action account whose address is derived from the signing owner's key".

Definition close_action (kind : string) : policy :=
  (* Close::preprocess: the executor is the action's owner, or has ORDER_KEEPER and the action is finished *)
  POwner ["signer:executor"; "handler:Close::close"; "constraint:" ++ kind ++ ": constraint = " ++ kind ++ ".load()?.header.owner == owner.key()"]
         "closable by the owner of the action, or by an ORDER_KEEPER once completed/cancelled (Close::preprocess)".

Definition view (reason : string) : policy := POpen [] reason.

Definition policy_table : list (string * string * policy) :=
  (* ================= store ================= *)
  rows "store" PAdmin
    ["update_last_restarted_slot"; "transfer_store_authority"; "enable_role"; "disable_role"; "grant_role"; "revoke_role"]
  ++ rows "store" (PRole "MARKET_KEEPER")
    ["set_token_map"; "insert_order_fee_discount_for_referred_user";
     "push_to_token_map"; "push_to_token_map_synthetic"; "toggle_token_config"; "toggle_token_price_adjustment";
     "set_feed_config_market_status_flag"; "set_expected_provider"; "set_feed_config_v2";
     "initialize_market"; "toggle_market"; "market_transfer_in"; "set_market_config_updatable"; "toggle_gt_minting";
     "initialize_market_vault"; "create_token_metadata"; "update_token_metadata";
     "initialize_gt"; "gt_set_order_fee_discount_factors";
     "initialize_glv"; "update_glv_market_config"; "toggle_glv_market_flag"; "update_glv_config"; "insert_glv_market"; "remove_glv_market";
     "close_virtual_inventory"; "disable_virtual_inventory"; "leave_disabled_virtual_inventory";
     "create_virtual_inventory_for_swaps"; "join_virtual_inventory_for_swaps"; "leave_virtual_inventory_for_swaps";
     "create_virtual_inventory_for_positions"; "join_virtual_inventory_for_positions"; "leave_virtual_inventory_for_positions"]
  ++ rows "store" (PRole "CONFIG_KEEPER") ["insert_amount"; "insert_factor"; "insert_address"]
  ++ rows "store" (PRole "FEATURE_KEEPER") ["toggle_feature"]
  ++ rows "store" (PRole "ORACLE_CONTROLLER") ["clear_all_prices"; "set_prices_from_price_feed"]
  ++ rows "store" (PRole "PRICE_KEEPER")
    ["initialize_price_feed"; "update_price_feed_with_chainlink"; "update_price_feed_with_chainlink_idempotent"]
  ++ rows "store" (PAnyRole ["MARKET_KEEPER"; "MARKET_CONFIG_KEEPER"])
    ["update_market_config"; "update_market_config_flag"; "update_market_config_with_buffer"]
  ++ rows "store" (PRole "ORDER_KEEPER")
    ["use_claimable_account"; "close_empty_claimable_account";
     "execute_deposit"; "execute_withdrawal"; "cancel_order_if_no_position";
     "execute_increase_or_swap_order_v2"; "execute_decrease_order_v2"; "liquidate"; "update_adl_state"; "auto_deleverage";
     "update_closed_state"; "update_fees_state"; "execute_shift";
     "execute_glv_deposit"; "execute_glv_withdrawal"; "create_glv_shift"; "close_glv_shift"; "execute_glv_shift"]
  ++ rows "store" (PRole "GT_CONTROLLER")
    ["gt_set_referral_reward_factors"; "gt_set_exchange_time_window"; "confirm_gt_exchange_vault_v2"; "close_gt_exchange";
     "update_gt_cumulative_inv_cost_factor"; "mint_gt_reward"]
  ++ rows "store" (PRole "MIGRATION_KEEPER") ["migrate_referral_code"]
  ++ [
  (* --- store: authority hand-overs, enforced by account constraints --- *)
  ("store", "accept_store_authority",
     POwner ["signer:next_authority"; "has_one:store.next_authority"] "only the pending next authority can accept");
  ("store", "transfer_receiver",
     POwner ["signer:authority"; "constraint:authority: constraint = authority.key() == store.load()?.receiver()"] "only the current fee receiver can nominate the next one");
  ("store", "accept_receiver",
     POwner ["signer:next_receiver"; "constraint:next_receiver: constraint = next_receiver.key() == store.load()?.next_receiver()"] "only the nominated receiver can accept");
  ("store", "claim_fees_from_market",
     POwner ["signer:authority"; "handler:validate_claim_fees_address"] "only the store's fee receiver can claim (checked in the handler)");
  (* --- store: market config buffers belong to their authority --- *)
  ("store", "initialize_market_config_buffer", POpen ["signer:authority"] "creates a new buffer account whose authority is the signer");
  ("store", "set_market_config_buffer_authority", POwner ["signer:authority"; "has_one:buffer.authority"] "buffer authority only");
  ("store", "close_market_config_buffer", POwner ["signer:authority"; "has_one:buffer.authority"] "buffer authority only");
  ("store", "push_to_market_config_buffer", POwner ["signer:authority"; "has_one:buffer.authority"] "buffer authority only");
  (* --- store: views and role checks (no state change) --- *)
  ("store", "check_admin", view "returns whether the signer is an admin");
  ("store", "check_role", view "returns whether the signer has the role");
  ("store", "has_admin", view "read-only query");
  ("store", "has_role", view "read-only query");
  ("store", "is_token_config_enabled", view "read-only query");
  ("store", "token_expected_provider", view "read-only query");
  ("store", "token_feed", view "read-only query");
  ("store", "token_timestamp_adjustment", view "read-only query");
  ("store", "token_name", view "read-only query");
  ("store", "token_decimals", view "read-only query");
  ("store", "token_precision", view "read-only query");
  ("store", "get_market_status", view "read-only query");
  ("store", "get_market_token_price", view "read-only query");
  ("store", "get_market_token_value",
     POwner ["signer:authority"; "has_one:oracle.authority"] "computes a value from the oracle account; only that oracle's authority may use it");
  ("store", "get_glv_token_value",
     POwner ["signer:authority"; "has_one:oracle.authority"] "computes a value from the oracle account; only that oracle's authority may use it");
  (* --- store: permissionless creation of fresh accounts (paid by the signer; no existing state touched) --- *)
  ("store", "initialize", POpen ["signer:payer"; "init_seeds:store: seeds = [Store::SEED"] "creates a new store (PDA of the key); the creator becomes its authority");
  ("store", "initialize_token_map", POpen ["signer:payer"] "anyone can initialize a token map; only MARKET_KEEPERs can modify it afterwards (documented)");
  ("store", "initialize_oracle", POpen ["signer:payer"] "creates a new oracle account bound to the given authority");
  ("store", "prepare_associated_token_account", POpen ["signer:payer"] "idempotent ATA creation paid by the signer");
  ("store", "initialize_callback_authority", POpen ["signer:payer"; "init_seeds:callback_authority: seeds = [CALLBACK_AUTHORITY_SEED]"] "one-off creation of the program's callback authority PDA");
  ("store", "prepare_gt_exchange_vault", POpen ["signer:payer"; "init_seeds:vault: seeds = ["] "creates the exchange vault PDA of the current time window");
  ("store", "settle_builder_fee", POpen ["constraint:order: constraint = order.load()?.header.store == store.key()"] "documented permissionless crank: pays the recorded builder fee to the recorded builder");
  (* --- store: user-owned accounts --- *)
  ("store", "create_deposit", own_action "deposit");
  ("store", "close_deposit", close_action "deposit");
  ("store", "create_withdrawal", own_action "withdrawal");
  ("store", "close_withdrawal", close_action "withdrawal");
  ("store", "prepare_position", own_action "position");
  ("store", "create_order_v2",
     POwner ["signer:owner"; "init_seeds:order: seeds = ["; "owner.key().as_ref()"; "has_one:user.owner"; "has_one:position.owner"] "order for the signer's own user/position accounts");
  ("store", "close_order_v2", close_action "order");
  ("store", "close_empty_position", POwner ["signer:owner"; "has_one:position.owner"] "position owner only");
  ("store", "prepare_trade_event_buffer", POpen ["signer:authority"; "init_seeds:event: seeds = ["; "authority.key().as_ref()"] "buffer PDA derived from the signer's key");
  ("store", "update_order_v2", POwner ["signer:owner"; "constraint:order: constraint = order.load()?.header.owner == owner.key()"] "order owner only");
  ("store", "set_should_keep_position_account", POwner ["signer:owner"; "constraint:order: constraint = order.load()?.header.owner== owner.key()"] "order owner only");
  ("store", "create_shift", own_action "shift");
  ("store", "close_shift", close_action "shift");
  ("store", "request_gt_exchange", POwner ["signer:owner"; "has_one:user.owner"] "burns the signer's own GT");
  ("store", "prepare_user", own_action "user");
  ("store", "initialize_referral_code", POwner ["signer:owner"; "has_one:user.owner"] "for the signer's own user account");
  ("store", "set_referrer", POwner ["signer:owner"; "has_one:user.owner"] "for the signer's own user account");
  ("store", "set_builder_fee_factor", POwner ["signer:owner"; "has_one:user.owner"] "for the signer's own user account");
  ("store", "transfer_referral_code", POwner ["signer:owner"; "has_one:user.owner"] "referral code owner only");
  ("store", "cancel_referral_code_transfer", POwner ["signer:owner"; "has_one:user.owner"] "referral code owner only");
  ("store", "accept_referral_code",
     POwner ["signer:next_owner"; "constraint:receiver_user: constraint = receiver_user.load()?.owner == next_owner.key()"] "only the designated receiver can accept");
  ("store", "create_glv_deposit", own_action "glv_deposit");
  ("store", "close_glv_deposit", close_action "glv_deposit");
  ("store", "create_glv_withdrawal", own_action "glv_withdrawal");
  ("store", "close_glv_withdrawal", close_action "glv_withdrawal")
  ]
  (* ================= treasury (roles checked by CPI into the store) ================= *)
  ++ rows "treasury" (PCpiRole "TREASURY_ADMIN")
    ["set_treasury_vault_config"; "set_gt_factor"; "set_buyback_factor"; "initialize_treasury_vault_config";
     "insert_token_to_treasury_vault"; "remove_token_from_treasury_vault"; "toggle_token_flag"; "set_referral_reward"]
  ++ rows "treasury" (PCpiRole "TREASURY_KEEPER")
    ["deposit_to_treasury_vault"; "confirm_gt_buyback"; "claim_fees"; "prepare_gt_bank"; "create_swap_v2"; "cancel_swap"]
  ++ rows "treasury" (PCpiRole "TREASURY_WITHDRAWER") ["withdraw_from_treasury_vault"; "sync_gt_bank_v2"]
  ++ rows "treasury" (PCpiRole "TREASURY_OWNER") ["transfer_receiver"]
  ++ [
  ("treasury", "initialize_config", POpen ["signer:payer"; "init_seeds:config: seeds = [Config::SEED, store.key().as_ref()]"] "one-off creation of the per-store treasury config PDA");
  ("treasury", "complete_gt_exchange", POwner ["signer:owner"] "completes the signer's own GT exchange (the exchange account is checked against the owner by the store CPI)")
  ]
  (* ================= timelock ================= *)
  ++ rows "timelock" (PCpiRole "TIMELOCK_ADMIN") ["initialize_config"; "increase_delay"; "cancel_instruction"; "cancel_instructions"]
  ++ rows "timelock" (PCpiRole "TIMELOCK_KEEPER") ["create_instruction_buffer"; "execute_instruction"]
  ++ rows "timelock" (PCpiRole "__TLD_ADMIN") ["revoke_role"]
  ++ rows "timelock" (PCpiRole "__TLD_MARKET_KEEPER") ["set_expected_price_provider"]
  ++ [
  ("timelock", "initialize_executor", POpen ["signer:payer"; "init_seeds:executor: seeds = ["] "creates the executor PDA of (store, role); it has no power until instructions are approved by role holders");
  ("timelock", "approve_instruction",
     POwner ["signer:authority"; "handler:validate_timelocked_role"] "approver must hold the timelocked variant of the executor's role (checked in the handler by CPI)");
  ("timelock", "approve_instructions",
     POwner ["signer:authority"; "handler:validate_timelocked_role"] "approver must hold the timelocked variant of the executor's role (checked in the handler by CPI)")
  ]
  (* ================= competition ================= *)
  ++ [
  ("competition", "initialize_competition", POpen ["signer:payer"; "init_seeds:competition: seeds = ["; "payer.key.as_ref()"] "competition PDA derived from the signer's key");
  ("competition", "create_participant_idempotent", POpen ["signer:payer"; "init_seeds:participant: seeds = ["] "creates an empty participant record; scores only change through the store's callbacks");
  ("competition", "on_created", POwner ["signer:authority"; "constraint:authority: seeds = [CALLBACK_AUTHORITY_SEED]"; "constraint:authority: seeds::program = CALLER_PROGRAM_ID"] "callable only by the store program's callback-authority PDA");
  ("competition", "on_updated", POwner ["signer:authority"; "constraint:authority: seeds = [CALLBACK_AUTHORITY_SEED]"; "constraint:authority: seeds::program = CALLER_PROGRAM_ID"] "callable only by the store program's callback-authority PDA");
  ("competition", "on_executed", POwner ["signer:authority"; "constraint:authority: seeds = [CALLBACK_AUTHORITY_SEED]"; "constraint:authority: seeds::program = CALLER_PROGRAM_ID"] "callable only by the store program's callback-authority PDA");
  ("competition", "on_closed", POwner ["signer:authority"; "constraint:authority: seeds = [CALLBACK_AUTHORITY_SEED]"; "constraint:authority: seeds::program = CALLER_PROGRAM_ID"] "callable only by the store program's callback-authority PDA");
  ("competition", "close_participant", POwner ["signer:trader"; "has_one:participant.trader"] "participant's trader only")
  ]
  (* ================= liquidity provider (single authority stored in the global state) ================= *)
  ++ rows "liquidity_provider" (POwner ["signer:authority"; "has_one:global_state.authority"] "global-state authority only")
    ["set_claim_enabled"; "set_pricing_staleness"; "update_apy_gradient_sparse"; "update_apy_gradient_range";
     "update_min_stake_value"; "transfer_authority"; "create_lp_token_controller"; "disable_lp_token_controller"]
  ++ [
  ("liquidity_provider", "initialize", POpen ["signer:authority"; "init_seeds:global_state: seeds = [GLOBAL_STATE_SEED]"] "one-off creation of the global state; the creator becomes its authority");
  ("liquidity_provider", "accept_authority", POwner ["signer:pending_authority"; "has_one:global_state.pending_authority"] "only the pending authority can accept");
  ("liquidity_provider", "stake_gm", POwner ["signer:owner"; "constraint:user_lp_token: constraint = user_lp_token.owner == owner.key()"; "init_seeds:position: seeds = ["; "owner.key().as_ref()"] "stakes the signer's own tokens into its own position");
  ("liquidity_provider", "stake_glv", POwner ["signer:owner"; "constraint:user_lp_token: constraint = user_lp_token.owner == owner.key()"; "init_seeds:position: seeds = ["; "owner.key().as_ref()"] "stakes the signer's own tokens into its own position");
  ("liquidity_provider", "calculate_gt_reward", view "read-only computation");
  ("liquidity_provider", "claim_gt", POwner ["signer:owner"; "has_one:position.owner"] "position owner only");
  ("liquidity_provider", "unstake_lp", POwner ["signer:owner"; "has_one:position.owner"] "position owner only")
  ].
