(* C19 — model.  (1) The decision "does the source of instruction i implement policy p" over the
   access table REGENERATED from the Rust source (coq/gen/C19Tables.v) and the hand-written policy
   (Policy.v).  (2) A dispatcher model of an Anchor entrypoint: signer check and account constraints,
   then the #[access_control] guard, then the handler body, committed atomically.  Definitions only. *)
From GV Require Import lib.Base gen.C19Tables C19.Policy.
From Coq Require Import String.
Open Scope string_scope.
Open Scope Z_scope.

Fixpoint contains (pat s : string) : bool :=
  match s with
  | EmptyString => String.eqb pat EmptyString
  | String _ r => String.prefix pat s || contains pat r
  end.

Definition mem (k : string) (l : list string) : bool := existsb (String.eqb k) l.

Fixpoint list_eqb (a b : list string) : bool :=
  match a, b with
  | [], [] => true
  | x :: r, y :: s => String.eqb x y && list_eqb r s
  | _, _ => false
  end.

Fixpoint lookup_policy (prog name : string) (t : list (string * string * policy)) : option policy :=
  match t with
  | [] => None
  | (p, n, pol) :: r => if String.eqb p prog && String.eqb n name then Some pol else lookup_policy prog name r
  end.

(* every evidence string occurs inside some translated fact of the instruction *)
Definition evidence_present (i : instr) (ev : list string) : bool :=
  forallb (fun e => existsb (contains e) (i_facts i)) ev.

(* a guarded entrypoint authenticates a Signer field *)
Definition authority_signs (i : instr) : bool := mem (i_authority i) (i_signers i).

Definition guard_matches (i : instr) (p : policy) : bool :=
  match p, i_guard i with
  | PAdmin, GAdmin => authority_signs i
  | PRole r, GRole r' => String.eqb r r' && authority_signs i
  | PAnyRole rs, GAny rs' => list_eqb rs rs' && authority_signs i
  | PCpiRole r, GCpiRole r' => String.eqb r r' && authority_signs i
  | POwner ev _, GNone => negb (match ev with [] => true | _ => false end) && evidence_present i ev
  | POpen ev _, GNone => evidence_present i ev
  | _, _ => false
  end.

Definition instr_ok (i : instr) : bool :=
  match lookup_policy (i_prog i) (i_name i) policy_table with
  | Some p => guard_matches i p
  | None => false
  end.

(* documentation cross-check, independent of Policy.v: where the doc comment of the entrypoint (or of
   the unchecked_* handler it calls) names roles, the guard's role is one of them *)
Definition doc_consistent (i : instr) : bool :=
  match i_doc_roles i, i_guard i with
  | [], _ => true
  | docs, GRole r => mem r docs
  | docs, GCpiRole r => mem r docs
  | docs, GAny rs => existsb (fun r => mem r docs) rs
  | _, _ => true
  end.

(* ---------- dispatcher model ---------- *)
Section Dispatch.
  Context {State : Type}.
  (* the store's view of a caller: admin?, and role lookup (None = the lookup itself fails: unknown or
     disabled role, not a member, store outdated after a cluster restart) *)
  Variable is_admin : State -> Z -> bool.
  Variable has_role : State -> Z -> string -> option bool.

  Fixpoint any_role (st : State) (who : Z) (rs : list string) : bool :=
    match rs with
    | [] => false
    | r :: rest =>
        match has_role st who r with
        | None => false                (* `store.has_role(..)?` propagates the error: rejected *)
        | Some true => true
        | Some false => any_role st who rest
        end
    end.

  Definition guard_ok (g : guard) (st : State) (who : Z) : bool :=
    match g with
    | GNone => true
    | GAdmin | GCpiAdmin => is_admin st who
    | GRole r | GCpiRole r => match has_role st who r with Some true => true | _ => false end
    | GAny rs => any_role st who rs
    end.

  (* one instruction: Anchor validates the accounts (signer flags, constraints), runs the
     access_control expression, then the body; the runtime commits all or nothing *)
  Definition exec (g : guard) (signed accounts_ok : bool) (body : State -> option State) (st : State) (who : Z)
    : State * bool :=
    if signed && accounts_ok && guard_ok g st who
    then match body st with Some st' => (st', true) | None => (st, false) end
    else (st, false).
End Dispatch.
