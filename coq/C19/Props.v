(* C19 — property theorems (pinned).  `instructions` is the access table REGENERATED from the Rust
   source of the five programs before this file is compiled; `policy_table` is hand-written. *)
From GV Require Import lib.Base gen.C19Tables C19.Policy C19.Model C19.Proofs.
From Coq Require Import String.
Open Scope string_scope.
Open Scope Z_scope.

(* every entrypoint of every program has a policy row and its source implements it: role rows carry
   exactly that #[access_control] guard on a Signer; owner/open rows carry no role guard and show the
   listed ownership evidence (account constraints / handler checks).  A removed attribute, a swapped
   only_* helper, a dropped has_one, or a new instruction without a policy row makes this fail. *)
Theorem c19_every_instruction_guarded : forall i, In i instructions ->
  exists p, lookup_policy (i_prog i) (i_name i) policy_table = Some p /\ guard_matches i p = true.
Proof.
  intros i Hin. pose proof (every_instruction_ok i Hin) as H. unfold instr_ok in H.
  destruct (lookup_policy (i_prog i) (i_name i) policy_table) as [p|]; [|discriminate].
  exists p. split; [reflexivity|exact H].
Qed.

(* the policy table and the code list the same instructions, each once *)
Theorem c19_policy_table_exact : stale_rows = [] /\ duplicate_rows = [] /\ duplicate_instructions = [].
Proof. split; [exact no_stale_rows|]. split; [exact no_duplicate_rows|exact no_duplicate_instructions]. Qed.

(* independent of Policy.v: the role installed by the attribute is a role the documentation names *)
Theorem c19_guard_matches_documentation : forall i, In i instructions -> doc_consistent i = true.
Proof.
  intros i Hin. destruct (doc_consistent i) eqn:E; [reflexivity|].
  assert (In i (filter (fun i => negb (doc_consistent i)) instructions)) as H.
  { apply filter_In. split; [exact Hin|]. rewrite E. reflexivity. }
  pose proof no_doc_mismatch as Hn. unfold doc_mismatch in Hn.
  destruct (filter (fun i => negb (doc_consistent i)) instructions); [destruct H|discriminate].
Qed.

(* dispatcher: GENERIC in the state type, the role store and the handler body *)
Theorem c19_reject_unchanged : forall (State : Type) is_admin has_role g signed accounts_ok
  (body : State -> option State) (st : State) who,
  guard_ok is_admin has_role g st who = false ->
  exec is_admin has_role g signed accounts_ok body st who = (st, false).
Proof. intros. apply reject_unchanged. assumption. Qed.

Theorem c19_unsigned_rejected : forall (State : Type) is_admin has_role g accounts_ok
  (body : State -> option State) (st : State) who,
  exec is_admin has_role g false accounts_ok body st who = (st, false).
Proof. intros. apply unsigned_rejected. Qed.

Theorem c19_any_failure_leaves_state : forall (State : Type) is_admin has_role g signed accounts_ok
  (body : State -> option State) (st st' : State) who,
  exec is_admin has_role g signed accounts_ok body st who = (st', false) -> st' = st.
Proof. intros. eapply failure_unchanged. eassumption. Qed.

Theorem c19_success_implies_privilege : forall (State : Type) is_admin has_role g signed accounts_ok
  (body : State -> option State) (st st' : State) who,
  exec is_admin has_role g signed accounts_ok body st who = (st', true) ->
  signed = true /\
  match g with
  | GNone => True
  | GAdmin | GCpiAdmin => is_admin st who = true
  | GRole r | GCpiRole r => has_role st who r = Some true
  | GAny rs => exists r, In r rs /\ has_role st who r = Some true
  end.
Proof.
  intros State ia hr g signed aok body st st' who H.
  destruct (success_needs_guard ia hr g signed aok body st who st' H) as [Hs Hg].
  split; [exact Hs|]. exact (guard_ok_meaning ia hr g st who Hg).
Qed.

(* ---- non-vacuity ---- *)
Example c19_table_nontrivial :
  (150 <=? Z.of_nat (List.length instructions)) = true
  /\ lookup_policy "store" "grant_role" policy_table = Some PAdmin
  /\ existsb (fun i => String.eqb (i_name i) "toggle_feature" && match i_guard i with GRole "FEATURE_KEEPER" => true | _ => false end) instructions = true.
Proof. repeat split; vm_compute; reflexivity. Qed.

(* the decision is falsifiable: an attribute-less toggle_feature does not implement its policy *)
Example c19_missing_attribute_detected :
  guard_matches (mkInstr "store" "toggle_feature" GNone "ToggleFeature" "authority" ["authority"] ["signer:authority"] []) (PRole "FEATURE_KEEPER") = false
  /\ guard_matches (mkInstr "store" "toggle_feature" (GRole "MARKET_KEEPER") "ToggleFeature" "authority" ["authority"] ["signer:authority"] []) (PRole "FEATURE_KEEPER") = false
  /\ guard_matches (mkInstr "store" "toggle_feature" (GRole "FEATURE_KEEPER") "ToggleFeature" "authority" ["authority"] ["signer:authority"] []) (PRole "FEATURE_KEEPER") = true.
Proof. repeat split; vm_compute; reflexivity. Qed.

Example c19_exec_accepts_role_holder :
  let has_role (st : unit) (who : Z) (r : string) := if (who =? 7) && String.eqb r "MARKET_KEEPER" then Some true else Some false in
  exec (fun _ _ => false) has_role (GRole "MARKET_KEEPER") true true (fun s => Some s) tt 7 = (tt, true)
  /\ exec (fun _ _ => false) has_role (GRole "MARKET_KEEPER") true true (fun s => Some s) tt 8 = (tt, false).
Proof. split; vm_compute; reflexivity. Qed.
