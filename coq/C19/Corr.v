(* C19 — correspondence and oracle predicates for the cases printed by harness/src/bin/c19.rs: the
   REAL store entrypoint run in-process on a hand-built ledger, one call per (instruction, caller).
   Imports the model, the regenerated access table and the hand-written policy only. *)
From GV Require Import lib.Base gen.C19Tables C19.Policy.
From GV Require Export C19.Model.
From Coq Require Export String.
Open Scope string_scope.
Open Scope Z_scope.

Inductive case :=
| DenialCodes (not_admin permission_denied store_outdated not_signer : Z)
    (* numeric values of CoreError::{NotAnAdmin, PermissionDenied, StoreOutdated} and Anchor's AccountNotSigner *)
| Access (prog name caller : string) (signed is_admin : bool) (roles : list string)
         (needs_owner is_owner restarted : bool)
         (ok : bool) (code : Z) (touched_on_reject unchanged : bool).
    (* caller: label only.  is_admin: caller is the store authority.  roles: roles granted to the caller (all roles
       are enabled in the store).  needs_owner/is_owner: the instruction acts on an account with a recorded
       authority (next authority, receiver, buffer authority) and the caller is / is not that key.
       restarted: LastRestartSlot differs from the slot cached in the store.
       ok/code: result of the real entrypoint.  touched_on_reject: the program had modified some account byte
       when it returned the error.  unchanged: ledger after the (rolled back) call equals the ledger before. *)

(* documented denial codes (programs/store/src/lib.rs CoreError order; anchor_lang::error::ErrorCode) *)
Definition CODE_NOT_ADMIN := 6003.
Definition CODE_PERMISSION_DENIED := 6004.
Definition CODE_STORE_OUTDATED := 6039.
Definition CODE_NOT_SIGNER := 3010.
Definition CODE_HAS_ONE := 2001.
Definition denial_code (c : Z) : bool :=
  (c =? CODE_NOT_ADMIN) || (c =? CODE_PERMISSION_DENIED) || (c =? CODE_STORE_OUTDATED) || (c =? CODE_NOT_SIGNER) || (c =? CODE_HAS_ONE).

Definition find_instr (prog name : string) : option instr :=
  find (fun i => String.eqb (i_prog i) prog && String.eqb (i_name i) name) instructions.

(* the store's answers for this caller (Store::has_admin_role / Store::has_role incl. the restart rule) *)
Definition admin_of (is_admin : bool) (roles : list string) (restarted : bool) : unit -> Z -> bool :=
  fun _ _ => is_admin || (restarted && mem "RESTART_ADMIN" roles).
Definition role_of (roles : list string) (restarted : bool) : unit -> Z -> string -> option bool :=
  fun _ _ r =>
    if restarted then (if mem "RESTART_ADMIN" roles then Some true else None)   (* else Err(StoreOutdated) *)
    else match roles with [] => None (* not a member: Err(PermissionDenied) *) | _ => Some (mem r roles) end.

Definition corr_b (c : case) : bool :=
  match c with
  | DenialCodes a p o s => (a =? CODE_NOT_ADMIN) && (p =? CODE_PERMISSION_DENIED) && (o =? CODE_STORE_OUTDATED) && (s =? CODE_NOT_SIGNER)
  | Access prog name _ signed is_admin roles needs_owner is_owner restarted ok code touched unchanged =>
      match find_instr prog name with
      | None => false
      | Some i =>
          let accounts_ok := if needs_owner then is_owner else true in
          let predicted := snd (exec (admin_of is_admin roles restarted) (role_of roles restarted)
                                     (i_guard i) signed accounts_ok (fun s => Some s) tt 0) in
          Bool.eqb predicted ok
      end
  end.

(* the PROPERTY on the real outcomes, from the hand-written policy table alone *)
Definition privileged (p : policy) (is_admin : bool) (roles : list string) (is_owner restarted : bool) : bool :=
  let role_ok r := if restarted then mem "RESTART_ADMIN" roles else mem r roles in
  match p with
  | PAdmin => is_admin || (restarted && mem "RESTART_ADMIN" roles)
  | PRole r | PCpiRole r => role_ok r
  | PAnyRole rs => existsb role_ok rs
  | POwner _ _ => is_owner
  | POpen _ _ => true
  end.

Definition oracle_b (c : case) : bool :=
  match c with
  | DenialCodes _ _ _ _ => true
  | Access prog name _ signed is_admin roles needs_owner is_owner restarted ok code touched unchanged =>
      match lookup_policy prog name policy_table with
      | None => false
      | Some p =>
          let priv := signed && privileged p is_admin roles is_owner restarted in
          (* accepted only with the privilege, signed *)
          (if ok then priv else true)
          (* with the privilege, signed, on a store that is not outdated: accepted (the driver's arguments are valid) *)
          && (if priv && negb restarted then ok else true)
          (* a rejection changes nothing — not even transiently — and carries a documented denial code *)
          && (if ok then true else unchanged && negb touched && denial_code code)
      end
  end.

Definition known_b (c : case) : Z := 0.
