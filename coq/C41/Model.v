(* C41 — model of transaction packing in crates/solana-utils:
   transaction_group.rs (TransactionGroup::add / validate_one / optimize,
   TransactionGroupOptions::optimizable / optimize), instruction_group.rs (AtomicGroup::merge,
   instructions_with_options, transaction_size, transaction_size_after_merge, ParallelGroup::optimize)
   and utils/transaction_size.rs (transaction_size_with_luts).  Definitions only.

   Keys (pubkeys) are integers; lookup tables are given in BTreeMap order of their keys.
   An instruction carries an identity [i_id] (the driver stores it in the instruction data) so that
   "no drop / dup / reorder" can be stated on ids.

   Hand-modelled and trusted (tied by the differential check against bincode):
   [real_size] = length of the serialized VersionedTransaction that solana-sdk 2.1 produces for
   v0::Message::try_compile(payer, instructions, tables): compact-u16 lengths, 64-byte signatures,
   1-byte version prefix, 3-byte header, 32-byte keys and blockhash, per instruction
   1 + c16 + #accounts + c16 + #data, per used table 32 + c16 + #writable + c16 + #readonly. *)
From GV Require Import lib.Base.
Open Scope Z_scope.

Record acct := mkAcct { k_key : Z; k_signer : bool; k_writable : bool }.
Record ix := mkIx { i_id : Z; i_prog : Z; i_accs : list acct; i_dlen : Z }.
Record ag := mkAg { a_payer : Z; a_ixs : list ix; a_merge : bool }.
Record pg := mkPg { p_groups : list ag; p_merge : bool }.
Record opts := mkOpts { o_max_size : Z; o_max_ix : Z; o_memo : option Z }.
Definition luts := list (Z * list Z).

(* ---------- small set library on lists ---------- *)
Definition memz (x : Z) (l : list Z) : bool := existsb (Z.eqb x) l.
Fixpoint dedup (l : list Z) : list Z :=
  match l with
  | [] => []
  | x :: r => if memz x r then dedup r else x :: dedup r
  end.
Definition lenZ {A} (l : list A) : Z := Z.of_nat (length l).

(* ---------- fixed instructions ---------- *)
Definition CB_PROGRAM : Z := 900.        (* ComputeBudget111... *)
Definition MEMO_PROGRAM : Z := 901.      (* spl-memo *)
Definition DEFAULT_PAYER : Z := 0.       (* Pubkey::default() *)

(* set_compute_unit_limit (1 + 4 data bytes), set_compute_unit_price (1 + 8), no accounts *)
Definition cb_ixs : list ix := [mkIx (-1) CB_PROGRAM [] 5; mkIx (-2) CB_PROGRAM [] 9].
(* spl_memo::build_memo(memo, &[payer]): the payer as a read-only signer, data = memo bytes *)
Definition memo_ix (payer len : Z) : ix := mkIx (-3) MEMO_PROGRAM [mkAcct payer true false] len.

(* AtomicGroup::instructions_with_options *)
Definition ixs_with_options (with_cb : bool) (memo : option Z) (g : ag) : list ix :=
  (if with_cb then cb_ixs else []) ++
  (match memo with Some len => [memo_ix (a_payer g) len] | None => [] end) ++ a_ixs g.

(* ---------- transaction_size_with_luts ---------- *)
Definition c16 (n : Z) : Z := if n <=? 127 then 1 else if n <=? 16383 then 2 else 3.

Definition ix_size (i : ix) : Z :=
  1 + c16 (lenZ (i_accs i)) + lenZ (i_accs i) + c16 (i_dlen i) + i_dlen i.
Definition ixs_size (l : list ix) : Z := fold_left (fun s i => s + ix_size i) l 0.

Definition programs_of (l : list ix) : list Z := dedup (map i_prog l).
Definition accounts_of (payer : Z) (l : list ix) : list Z :=
  dedup (payer :: flat_map (fun i => i_prog i :: map k_key (i_accs i)) l).
Definition signers_of (payer : Z) (l : list ix) : list Z :=
  dedup (payer :: flat_map (fun i => map k_key (filter k_signer (i_accs i))) l).

(* remove from [can] every address of the table; report whether anything was removed *)
Definition table_take (can : list Z) (addrs : list Z) : list Z * bool :=
  (filter (fun k => negb (memz k addrs)) can, existsb (fun k => memz k addrs) can).

(* (remaining can_lookups, number of tables used) *)
Fixpoint lookup_pass (can : list Z) (ts : luts) : list Z * Z :=
  match ts with
  | [] => (can, 0)
  | (_, addrs) :: r =>
      let '(can', used) := table_take can addrs in
      let '(fin, n) := lookup_pass can' r in
      (fin, if used then n + 1 else n)
  end.

(* a key is writable if any of its occurrences is (the payer always is) *)
Definition writable_key (payer : Z) (l : list ix) (k : Z) : bool :=
  (k =? payer) || existsb (fun i => existsb (fun a => (k_key a =? k) && k_writable a) (i_accs i)) l.

(* per used table: its key and the two compact-u16 lengths of its writable / readonly index lists *)
Fixpoint est_tables (payer : Z) (l : list ix) (can : list Z) (ts : luts) : Z :=
  match ts with
  | [] => 0
  | (_, addrs) :: r =>
      let taken := filter (fun k => memz k addrs) can in
      let can' := filter (fun k => negb (memz k addrs)) can in
      let nw := lenZ (filter (writable_key payer l) taken) in
      let nr := lenZ taken - nw in
      (match taken with [] => 0 | _ => 32 + c16 nw + c16 nr end) + est_tables payer l can' r
  end.

Definition estimate (payer : Z) (l : list ix) (ts : luts) : Z :=
  let programs := programs_of l in
  let accounts := accounts_of payer l in
  let signers := signers_of payer l in
  let can := filter (fun k => negb (memz k programs) && negb (memz k signers)) accounts in
  let '(rest, tables) := lookup_pass can ts in
  let accounts' := dedup (rest ++ signers ++ programs) in
  let lookups := lenZ accounts - lenZ accounts' in
  c16 (lenZ signers) + lenZ signers * 64 + 3 + c16 (lenZ accounts') + lenZ accounts' * 32 + 32
  + c16 (lenZ l) + ixs_size l + lookups
  + 1 + c16 tables + est_tables payer l can ts.

(* AtomicGroup::transaction_size(true, Some(luts), options) *)
Definition group_size (with_cb : bool) (memo : option Z) (ts : luts) (g : ag) : Z :=
  estimate (a_payer g) (ixs_with_options with_cb memo g) ts.
(* AtomicGroup::transaction_size_after_merge *)
Definition merged_size (memo : option Z) (ts : luts) (x y : ag) : Z :=
  estimate (a_payer x) (ixs_with_options true memo x ++ ixs_with_options false None y) ts.

(* ---------- the serialized size (hand model of solana-sdk) ---------- *)
(* per table: the drained keys split into writable / readonly; unused tables are left out *)
Fixpoint real_tables (payer : Z) (l : list ix) (can : list Z) (ts : luts) : Z :=
  match ts with
  | [] => c16 0 - c16 0
  | (_, addrs) :: r =>
      let taken := filter (fun k => memz k addrs) can in
      let can' := filter (fun k => negb (memz k addrs)) can in
      let nw := lenZ (filter (writable_key payer l) taken) in
      let nr := lenZ taken - nw in
      (match taken with [] => 0 | _ => 32 + c16 nw + nw + c16 nr + nr end) + real_tables payer l can' r
  end.

Definition real_size (payer : Z) (l : list ix) (ts : luts) : Z :=
  let programs := programs_of l in
  let accounts := accounts_of payer l in
  let signers := signers_of payer l in
  let can := filter (fun k => negb (memz k programs) && negb (memz k signers)) accounts in
  let '(rest, tables) := lookup_pass can ts in
  let static := lenZ accounts - (lenZ can - lenZ rest) in
  c16 (lenZ signers) + lenZ signers * 64
  + 1 + 3 + c16 static + static * 32 + 32
  + c16 (lenZ l) + ixs_size l
  + c16 tables + real_tables payer l can ts.

(* ---------- merging ---------- *)
Definition ag_len (g : ag) : Z := lenZ (a_ixs g).
Definition ag_empty (g : ag) : bool := match a_ixs g with [] => true | _ => false end.

(* TransactionGroupOptions::optimizable *)
Definition optimizable (o : opts) (ts : luts) (allow : bool) (x y : ag) : bool :=
  a_merge x && a_merge y
  && (allow || (a_payer x =? a_payer y))
  && (ag_len x + ag_len y <=? o_max_ix o)
  && (merged_size (o_memo o) ts x y <=? o_max_size o).

(* AtomicGroup::merge: payer and options of the receiver are kept *)
Definition merge (x y : ag) : ag := mkAg (a_payer x) (a_ixs x ++ a_ixs y) (a_merge x).

Definition EMPTY_AG : ag := mkAg DEFAULT_PAYER [] true.     (* AtomicGroup::new(&Pubkey::default()) *)

(* TransactionGroupOptions::optimize over a slice: [cur] is groups[i], [rest] = groups[i+1..];
   returns the slice after the pass and the [merged] flag *)
Fixpoint optimize_from (o : opts) (ts : luts) (allow : bool) (cur : ag) (rest : list ag) : list ag * bool :=
  match rest with
  | [] => ([cur], false)
  | y :: r =>
      if ag_empty cur then
        let '(l, _) := optimize_from o ts allow y r in (cur :: l, true)
      else if optimizable o ts allow cur y then
        let '(l, _) := optimize_from o ts allow (merge cur y) r in (EMPTY_AG :: l, true)
      else
        let '(l, m) := optimize_from o ts allow y r in (cur :: l, m)
  end.
Definition optimize_slice (o : opts) (ts : luts) (allow : bool) (gs : list ag) : list ag * bool :=
  match gs with [] => ([], false) | x :: r => optimize_from o ts allow x r end.

(* ParallelGroup::optimize *)
Definition pg_optimize (o : opts) (ts : luts) (allow : bool) (p : pg) : pg :=
  let '(gs, merged) := optimize_slice o ts allow (p_groups p) in
  mkPg (if merged then filter (fun g => negb (ag_empty g)) gs else gs) (p_merge p).

Definition pg_single (p : pg) : option ag := match p_groups p with [g] => Some g | _ => None end.
Definition pg_empty (p : pg) : bool := match p_groups p with [] => true | _ => false end.
Definition DEFAULT_PG : pg := mkPg [] true.                  (* std::mem::take *)

(* the pass over adjacent parallel groups of TransactionGroup::optimize *)
Fixpoint tg_merge_from (o : opts) (ts : luts) (allow : bool) (cur : pg) (rest : list pg) : list pg * bool :=
  match rest with
  | [] => ([cur], false)
  | q :: r =>
      match (if p_merge cur && p_merge q then
               match pg_single cur, pg_single q with
               | Some x, Some y => if optimizable o ts allow x y then Some (x, y) else None
               | _, _ => None
               end
             else None) with
      | Some (x, y) =>
          let '(l, _) := tg_merge_from o ts allow (mkPg [merge x y] (p_merge cur)) r in (DEFAULT_PG :: l, true)
      | None =>
          let '(l, m) := tg_merge_from o ts allow q r in (cur :: l, m)
      end
  end.

Definition tg_optimize (o : opts) (ts : luts) (allow : bool) (tg : list pg) : list pg :=
  let tg1 := map (pg_optimize o ts allow) tg in
  let '(l, merged) := match tg1 with [] => ([], false) | p :: r => tg_merge_from o ts allow p r end in
  if merged then filter (fun p => negb (pg_empty p)) l else l.

(* ---------- adding ---------- *)
(* TransactionGroup::validate_one: measured with instruction_options(&Default::default()), i.e.
   compute budget AND the configured memo — the options the transaction is built with *)
Definition validate_one (o : opts) (ts : luts) (g : ag) : bool :=
  (ag_len g <=? o_max_ix o) && (group_size true (o_memo o) ts g <=? o_max_size o).

(* TransactionGroup::add: (new group list, accepted) *)
Definition tg_add (o : opts) (ts : luts) (tg : list pg) (p : pg) : list pg * bool :=
  if pg_empty p then (tg, true)
  else if forallb (validate_one o ts) (p_groups p) then (tg ++ [p], true)
  else (tg, false).

Definition tg_add_all (o : opts) (ts : luts) (ps : list pg) : list pg * list bool :=
  fold_left (fun acc p => let '(tg, oks) := acc in
                          let '(tg', ok) := tg_add o ts tg p in (tg', oks ++ [ok])) ps ([], []).
