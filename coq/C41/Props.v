(* C41 — property theorems.  Model (C41/Model.v): TransactionGroup::add / validate_one / optimize,
   TransactionGroupOptions::optimizable / optimize, ParallelGroup::optimize, AtomicGroup::merge,
   instructions_with_options, transaction_size(_after_merge), transaction_size_with_luts, and a
   hand model [real_size] of the serialized v0 transaction (trusted, tied to bincode by the
   differential check).  tg : list pg is the content of a TransactionGroup. *)
From GV Require Import lib.Base C41.Model C41.Proofs C41.Proofs2.
Open Scope Z_scope.

(* no instruction is dropped, duplicated or reordered (whole flattened sequence, any input) *)
Theorem c41_optimize_preserves_instruction_sequence : forall o ts allow tg,
  tg_ixs (tg_optimize o ts allow tg) = tg_ixs tg.
Proof. exact tg_optimize_ixs. Qed.

(* an atomic group is never split: its instructions stay one contiguous block of one final group *)
Theorem c41_atomic_never_split : forall o ts allow tg g,
  In g (tg_groups tg) -> a_ixs g <> [] ->
  exists f, In f (tg_groups (tg_optimize o ts allow tg)) /\
            exists pre post, a_ixs f = pre ++ a_ixs g ++ post.
Proof. exact tg_optimize_never_splits. Qed.

(* every final group is made of original groups by merges that `optimizable` admitted ... *)
Theorem c41_final_groups_made : forall o ts allow tg f,
  In f (tg_groups (tg_optimize o ts allow tg)) ->
  exists parts, Made o ts allow (tg_groups tg) f parts.
Proof. intros o ts allow tg f H. exact (tg_optimize_made o ts allow (tg_groups tg) tg (fun g Hg => Hg) f H). Qed.

(* ... which means: its instructions are those of its parts in order, parts are original groups,
   several parts => every part (and the result) is mergeable; without permission to change the
   payer all parts share the final payer; the final payer is the first part's payer *)
Theorem c41_made_spec : forall o ts allow S f parts, Made o ts allow S f parts ->
  a_ixs f = flat_ixs parts /\ (forall p, In p parts -> In p S) /\
  ((2 <= length parts)%nat -> a_merge f = true /\ forall p, In p parts -> a_merge p = true) /\
  (allow = false -> forall p, In p parts -> a_payer p = a_payer f) /\
  (exists p r, parts = p :: r /\ a_payer f = a_payer p).
Proof.
  intros o ts allow S f parts H. split; [eapply made_ixs; eassumption|].
  split; [eapply made_parts_orig; eassumption|].
  split; [eapply made_several_mergeable; eassumption|].
  split; [eapply made_payer; eassumption | eapply made_payer_first; eassumption].
Qed.

(* the same at the level of parallel groups: a final parallel group is the optimized form of one
   original group or a merge of SINGLE groups whose parallel groups all allowed merging; its flag
   is the first source's flag *)
Theorem c41_final_parallel_groups_made : forall o ts allow tg p,
  In p (tg_optimize o ts allow tg) -> p = DEFAULT_PG \/ exists srcs, PMade o ts allow tg p srcs.
Proof. exact tg_optimize_pmade. Qed.

Theorem c41_pmade_flags : forall o ts allow T P srcs, PMade o ts allow T P srcs ->
  (exists s r, srcs = s :: r /\ p_merge P = p_merge s) /\
  ((2 <= length srcs)%nat -> forall s, In s srcs -> p_merge s = true).
Proof. exact pmade_flags. Qed.

(* limits: everything `add` lets in passed validate_one, and after optimize every group still
   respects max_instructions_per_tx and its estimated size — measured on exactly the instruction
   list the transaction is built from (compute budget + configured memo) — is within
   max_transaction_size *)
Theorem c41_limits_respected : forall o ts allow adds f,
  In f (tg_groups (tg_optimize o ts allow (fst (tg_add_all o ts adds)))) ->
  ag_len f <= o_max_ix o /\ group_size true (o_memo o) ts f <= o_max_size o.
Proof.
  intros o ts allow adds f Hf.
  destruct (c41_final_groups_made _ _ _ _ _ Hf) as [parts Hm].
  eapply made_within; [|exact Hm].
  intros g Hg. apply validate_within. apply (tg_add_all_valid o ts adds g Hg).
Qed.

(* estimate vs serialized size: the estimate is exactly the size of the serialized transaction
   ([real_size], the hand model tied to bincode), for every payer, instruction list and tables *)
Theorem c41_estimate_eq_real : forall payer l ts, estimate payer l ts = real_size payer l ts.
Proof. exact estimate_eq_real. Qed.

(* hence every final group's serialized transaction is within max_transaction_size *)
Theorem c41_real_size_within_limit : forall o ts allow adds f,
  In f (tg_groups (tg_optimize o ts allow (fst (tg_add_all o ts adds)))) ->
  real_size (a_payer f) (ixs_with_options true (o_memo o) f) ts <= o_max_size o.
Proof.
  intros o ts allow adds f Hf. rewrite <- estimate_eq_real.
  apply (c41_limits_respected o ts allow adds f Hf).
Qed.

(* ---------- witnesses of the known findings ---------- *)
(* class 2 (repaired): 128 read-only keys served by one table are now counted exactly *)
Example c41_ex_compact_u16_counted :
  estimate 1 [mkIx 1 100 (map (fun k => mkAcct (2000 + Z.of_nat k) false false) (seq 0 128)) 4]
             [(700, map (fun k => 2000 + Z.of_nat k) (seq 0 150))]
  = real_size 1 [mkIx 1 100 (map (fun k => mkAcct (2000 + Z.of_nat k) false false) (seq 0 128)) 4]
              [(700, map (fun k => 2000 + Z.of_nat k) (seq 0 150))].
Proof. vm_compute. reflexivity. Qed.
(* class 1 (repaired): the former witness group is now rejected by validate_one *)
Example c41_ex_memo_counted :
  validate_one (mkOpts 400 14 (Some 150)) [] (mkAg 1 [mkIx 1 100 [mkAcct 2 false true] 60] true) = false.
Proof. vm_compute. reflexivity. Qed.

(* ---------- non-vacuity ---------- *)
Example c41_ex_merge :
  map (fun p => map (fun g => (a_payer g, map i_id (a_ixs g))) (p_groups p))
      (tg_optimize (mkOpts 1232 14 None) [] false
         [mkPg [mkAg 1 [mkIx 1 100 [mkAcct 2 false true] 8] true] true;
          mkPg [mkAg 1 [mkIx 2 100 [mkAcct 3 false true] 8] true; mkAg 1 [mkIx 3 100 [] 8] true] true;
          mkPg [mkAg 2 [mkIx 4 100 [] 8] true] true])
  = [[(1, [1; 2; 3])]; [(2, [4])]].
Proof. vm_compute. reflexivity. Qed.
