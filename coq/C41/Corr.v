(* C41 — correspondence, oracle and known-finding classes for harness-sdk/src/bin/c41.rs.
   Pack o luts adds allow r:
     adds   the ParallelGroups passed to TransactionGroup::add, in order
     r      PPanic | POk oks final sizes
            oks    Ok/Err of every add
            final  after optimize(allow): per parallel group (p_mergeable, [(payer, a_mergeable, ix ids)])
            sizes  per final atomic group (estimate, real bincode size; -1 = transaction cannot be built),
                   both with the options the transactions are built with (compute budget + memo) *)
From GV Require Import lib.Base.
From GV Require Export C41.Model.
Open Scope Z_scope.

Definition fgroup := (Z * bool * list Z)%type.
Inductive pres :=
| PPanic
| POk (oks : list bool) (final : list (bool * list fgroup)) (sizes : list (Z * Z)).
Inductive case :=
| Pack (o : opts) (ts : luts) (adds : list pg) (allow : bool) (r : pres).

Fixpoint list_eqb {A} (eqb : A -> A -> bool) (a b : list A) : bool :=
  match a, b with
  | [], [] => true
  | x :: r, y :: s => eqb x y && list_eqb eqb r s
  | _, _ => false
  end.
Fixpoint forall2b {A B} (f : A -> B -> bool) (a : list A) (b : list B) : bool :=
  match a, b with
  | [], [] => true
  | x :: r, y :: s => f x y && forall2b f r s
  | _, _ => false
  end.
Definition fgroup_eqb (a b : fgroup) : bool :=
  match a, b with (p, m, l), (p', m', l') => (p =? p') && Bool.eqb m m' && list_eqb Z.eqb l l' end.
Definition fpg_eqb (a b : bool * list fgroup) : bool :=
  Bool.eqb (fst a) (fst b) && list_eqb fgroup_eqb (snd a) (snd b).

Definition view_ag (g : ag) : fgroup := (a_payer g, a_merge g, map i_id (a_ixs g)).
Definition view_pg (p : pg) : bool * list fgroup := (p_merge p, map view_ag (p_groups p)).

Definition corr_b (c : case) : bool :=
  match c with
  | Pack o ts adds allow (POk oks final sizes) =>
      let '(tg, oks') := tg_add_all o ts adds in
      let fin := tg_optimize o ts allow tg in
      list_eqb Bool.eqb oks' oks
      && list_eqb fpg_eqb (map view_pg fin) final
      && forall2b (fun (g : ag) (s : Z * Z) =>
                     (group_size true (o_memo o) ts g =? fst s)
                     && ((snd s =? -1) || (real_size (a_payer g) (ixs_with_options true (o_memo o) g) ts =? snd s)))
                  (flat_map p_groups fin) sizes
  | Pack _ _ _ _ PPanic => false
  end.

(* ---------- the property on the implementation's outputs ---------- *)
Fixpoint select {A} (l : list A) (keep : list bool) : list A :=
  match l, keep with
  | x :: r, b :: k => if b then x :: select r k else select r k
  | _, _ => []
  end.

(* l occurs as a contiguous block of m *)
Fixpoint prefixZ (l m : list Z) : bool :=
  match l, m with
  | [], _ => true
  | x :: r, y :: s => (x =? y) && prefixZ r s
  | _ :: _, [] => false
  end.
Fixpoint blockZ (l m : list Z) : bool :=
  prefixZ l m || match m with [] => false | _ :: s => blockZ l s end.

Definition ids_of (g : ag) : list Z := map i_id (a_ixs g).
Definition nonempty {A} (l : list A) : bool := match l with [] => false | _ => true end.

Definition oracle_b (c : case) : bool :=
  match c with
  | Pack o ts adds allow PPanic => false
  | Pack o ts adds allow (POk oks final sizes) =>
      let accepted := select adds oks in                                  (* parallel groups that were added *)
      let orig := flat_map p_groups accepted in                           (* their atomic groups, in order *)
      let fgs := flat_map snd final in                                    (* final atomic groups, in order *)
      (Z.of_nat (length oks) =? Z.of_nat (length adds))
      && (Z.of_nat (length sizes) =? Z.of_nat (length fgs))
      (* no instruction dropped, duplicated or reordered *)
      && list_eqb Z.eqb (flat_map ids_of orig) (flat_map (fun f : fgroup => snd f) fgs)
      (* atomic groups are never split *)
      && forallb (fun g => negb (nonempty (a_ixs g)) || existsb (fun f : fgroup => blockZ (ids_of g) (snd f)) fgs) orig
      (* a final group made of several original groups: all of them (and their parallel groups, when
         they differ) allowed merging; the payer is the payer of every part unless a change is allowed *)
      && forallb (fun f : fgroup =>
           let '(payer, _, ids) := f in
           let parts := filter (fun g => nonempty (a_ixs g) && blockZ (ids_of g) ids) orig in
           let pgs := filter (fun p => existsb (fun g => nonempty (a_ixs g) && blockZ (ids_of g) ids) (p_groups p)) accepted in
           (if 2 <=? Z.of_nat (length parts) then forallb a_merge parts else true)
           && (if 2 <=? Z.of_nat (length pgs) then forallb p_merge pgs else true)
           && (allow || forallb (fun g => a_payer g =? payer) parts)
           && (negb (nonempty ids) || existsb (fun g => a_payer g =? payer) orig)
           (* instruction-count limit *)
           && (Z.of_nat (length ids) <=? o_max_ix o)) fgs
      (* size limit on what is really produced, and the estimate is never below it *)
      && forallb (fun s : Z * Z => let '(est, real) := s in
                    (real =? -1) || ((real <=? o_max_size o) && (real <=? est))) sizes
  end.

(* ---------- known-finding classes ----------
   1 MemoNotCountedOnAdd: a memo is configured; a produced transaction exceeds max_transaction_size
     although the group passed `add`: validate_one measures the group WITHOUT the memo instruction
     (default GetInstructionsOptions) while transactions are built WITH it.  Only groups that were
     never merged are affected (optimizable measures with the memo).
   2 EstimateBelowRealCompactU16: the estimate is below the serialized size by exactly the extra
     compact-u16 length bytes of address-table index lists with >= 128 entries (or >= 128 tables),
     which the estimator counts as one byte each. *)
Definition find_ix (all : list ix) (id : Z) : list ix :=
  match filter (fun i => i_id i =? id) all with x :: _ => [x] | [] => [] end.

Definition known_b (c : case) : Z :=
  match c with
  | Pack o ts adds allow (POk oks final sizes) =>
      let accepted := select adds oks in
      let orig := flat_map p_groups accepted in
      let all := flat_map a_ixs orig in
      let fgs := flat_map snd final in
      (* per final group: 0 fine, 1 explained by the memo, 2 explained by compact-u16, 9 unexplained *)
      let reason (f : fgroup) (s : Z * Z) : Z :=
        let '(payer, m, ids) := f in
        let '(est, real) := s in
        if (real =? -1) || ((real <=? o_max_size o) && (real <=? est)) then 0
        else
          let g := mkAg payer (flat_map (find_ix all) ids) m in
          let m_est := group_size true (o_memo o) ts g in
          let m_real := real_size payer (ixs_with_options true (o_memo o) g) ts in
          let memo_case := false in    (* class 1 (memo not counted by `add`) is fixed *)
          let compact_case := false in (* class 2 (compact-u16 bytes not counted) is fixed *)
          if memo_case then 1 else if compact_case then 2 else 9 in
      let rs := (fix zip (a : list fgroup) (b : list (Z * Z)) : list Z :=
                   match a, b with x :: r, y :: t => reason x y :: zip r t | _, _ => [] end) fgs sizes in
      if existsb (Z.eqb 9) rs then 0
      else if existsb (Z.eqb 1) rs && negb (existsb (Z.eqb 2) rs) then 1
      else if existsb (Z.eqb 2) rs && negb (existsb (Z.eqb 1) rs) then 2
      else 0
  | _ => 0
  end.
