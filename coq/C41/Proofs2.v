(* C41 — the size estimate against the (hand-modelled) serialized size: they are equal. *)
From GV Require Import lib.Base C41.Model.
From Coq Require Import Permutation.
Open Scope Z_scope.

(* ---------- dedup / memz ---------- *)
Lemma memz_in x l : memz x l = true <-> In x l.
Proof.
  unfold memz. rewrite existsb_exists. split.
  - intros [y [H E]]. apply Z.eqb_eq in E. subst. exact H.
  - intros H. exists x. split; [exact H | apply Z.eqb_refl].
Qed.
Lemma memz_not_in x l : memz x l = false <-> ~ In x l.
Proof. rewrite <- memz_in. destruct (memz x l); split; intros; congruence. Qed.

Lemma dedup_in l x : In x (dedup l) <-> In x l.
Proof.
  induction l as [|y l IH]; [tauto|]. cbn. destruct (memz y l) eqn:E.
  - rewrite IH. apply memz_in in E. split; [auto|]. intros [->|H]; auto.
  - cbn. rewrite IH. tauto.
Qed.
Lemma dedup_nodup l : NoDup (dedup l).
Proof.
  induction l as [|y l IH]; [constructor|]. cbn. destruct (memz y l) eqn:E; [exact IH|].
  constructor; [|exact IH]. rewrite dedup_in. apply memz_not_in. exact E.
Qed.

Lemma filter_len_split {A} (f : A -> bool) l : lenZ (filter f l) + lenZ (filter (fun x => negb (f x)) l) = lenZ l.
Proof. unfold lenZ. induction l as [|x l IH]; [reflexivity|]. cbn. destruct (f x); cbn [negb length]; lia. Qed.

Lemma filter_len_le {A} (f : A -> bool) l : lenZ (filter f l) <= lenZ l.
Proof. unfold lenZ. induction l as [|x l IH]; [cbn; lia|]. cbn [filter]. destruct (f x); cbn [length]; lia. Qed.

Lemma filter_nodup {A} (f : A -> bool) l : NoDup l -> NoDup (filter f l).
Proof.
  induction 1 as [|x l Hx Hn IH]; [constructor|]. cbn. destruct (f x); [|exact IH].
  constructor; [|exact IH]. intros H. apply filter_In in H. tauto.
Qed.

Lemma lenZ_perm {A} (a b : list A) : Permutation a b -> lenZ a = lenZ b.
Proof. intros H. unfold lenZ. rewrite (Permutation_length H). reflexivity. Qed.

Lemma c16_ge1 n : 1 <= c16 n.
Proof. unfold c16. destruct (n <=? 127); [lia|]. destruct (n <=? 16383); lia. Qed.
Lemma c16_small n : n <= 127 -> c16 n = 1.
Proof. intros H. unfold c16. replace (n <=? 127) with true by (symmetry; apply Z.leb_le; lia). reflexivity. Qed.

(* ---------- lookup tables ---------- *)
Lemma existsb_filter_nil {A} (f : A -> bool) l : existsb f l = false <-> filter f l = [].
Proof.
  induction l as [|x l IH]; [tauto|]. cbn. destruct (f x); cbn; [split; discriminate | exact IH].
Qed.

(* the serialized tables = the looked-up index bytes + what the estimator adds per table *)
Lemma real_tables_spec payer l ts : forall can,
  real_tables payer l can ts = (lenZ can - lenZ (fst (lookup_pass can ts))) + est_tables payer l can ts.
Proof.
  induction ts as [|[k addrs] r IH]; intros can.
  - cbn. lia.
  - cbn [real_tables lookup_pass est_tables table_take].
    set (taken := filter (fun k0 => memz k0 addrs) can).
    set (can' := filter (fun k0 => negb (memz k0 addrs)) can).
    specialize (IH can'). destruct (lookup_pass can' r) as [fin n] eqn:El. cbn [fst snd] in *.
    assert (Hsplit : lenZ taken + lenZ can' = lenZ can) by (apply (filter_len_split (fun k0 => memz k0 addrs) can)).
    rewrite IH.
    destruct taken as [|t0 tr] eqn:Et.
    + cbn [fst]. cbn in Hsplit. lia.
    + cbn [fst]. rewrite <- Et in *. set (nw := lenZ (filter (writable_key payer l) taken)). lia.
Qed.

Lemma lookup_pass_incl ts : forall can x, In x (fst (lookup_pass can ts)) -> In x can.
Proof.
  induction ts as [|[k addrs] r IH]; intros can x H; [exact H|].
  cbn [lookup_pass table_take] in H.
  specialize (IH (filter (fun k0 => negb (memz k0 addrs)) can) x).
  destruct (lookup_pass (filter (fun k0 => negb (memz k0 addrs)) can) r) as [fin n]. cbn [fst] in *.
  apply IH in H. apply filter_In in H. tauto.
Qed.

Lemma lookup_pass_nodup ts : forall can, NoDup can -> NoDup (fst (lookup_pass can ts)).
Proof.
  induction ts as [|[k addrs] r IH]; intros can H; [exact H|].
  cbn [lookup_pass table_take].
  specialize (IH (filter (fun k0 => negb (memz k0 addrs)) can) (filter_nodup _ _ H)).
  destruct (lookup_pass (filter (fun k0 => negb (memz k0 addrs)) can) r) as [fin n]. exact IH.
Qed.

Lemma lookup_pass_count ts : forall can, 0 <= snd (lookup_pass can ts) <= lenZ ts.
Proof.
  unfold lenZ. induction ts as [|[k addrs] r IH]; intros can; [cbn; lia|].
  cbn [lookup_pass table_take].
  specialize (IH (filter (fun k0 => negb (memz k0 addrs)) can)).
  destruct (lookup_pass (filter (fun k0 => negb (memz k0 addrs)) can) r) as [fin n]. cbn [snd length] in *.
  destruct (existsb (fun k0 => memz k0 addrs) can); cbn [snd]; lia.
Qed.

(* ---------- accounts, signers, programs ---------- *)
Lemma signers_in_accounts payer l x : In x (signers_of payer l) -> In x (accounts_of payer l).
Proof.
  unfold signers_of, accounts_of. rewrite !dedup_in. intros [->|H]; [left; reflexivity|]. right.
  apply in_flat_map in H. destruct H as [i [Hi Hx]]. apply in_flat_map. exists i. split; [exact Hi|].
  right. apply in_map_iff in Hx. destruct Hx as [a [<- Ha]]. apply filter_In in Ha. apply in_map. tauto.
Qed.
Lemma programs_in_accounts payer l x : In x (programs_of l) -> In x (accounts_of payer l).
Proof.
  unfold programs_of, accounts_of. rewrite !dedup_in. intros H. right.
  apply in_map_iff in H. destruct H as [i [<- Hi]]. apply in_flat_map. exists i. split; [exact Hi | left; reflexivity].
Qed.

Lemma nodup_app {A} (a b : list A) : NoDup a -> NoDup b -> (forall x, In x a -> ~ In x b) -> NoDup (a ++ b).
Proof.
  induction 1 as [|x a Hx Ha IH]; intros Hb Hd; [exact Hb|]. cbn. constructor.
  - intros H. apply in_app_or in H. destruct H as [H|H]; [contradiction | apply (Hd x); [left; reflexivity | exact H]].
  - apply IH; [exact Hb | intros y Hy; apply Hd; right; exact Hy].
Qed.

(* the estimate IS the serialized size, for every payer, instruction list and table list *)
Theorem estimate_eq_real payer l ts : estimate payer l ts = real_size payer l ts.
Proof.
  unfold real_size, estimate.
  set (can := filter (fun k => negb (memz k (programs_of l)) && negb (memz k (signers_of payer l))) (accounts_of payer l)).
  pose proof (real_tables_spec payer l ts can) as Hrt.
  pose proof (lookup_pass_incl ts can) as Hinc.
  pose proof (lookup_pass_nodup ts can) as Hnd.
  destruct (lookup_pass can ts) as [rest tables] eqn:El. cbn [fst snd] in *.
  set (accounts := accounts_of payer l) in *. set (signers := signers_of payer l) in *.
  set (programs := programs_of l) in *.
  set (keep := fun k => negb (memz k programs) && negb (memz k signers)) in *.
  set (other := filter (fun k => negb (keep k)) accounts).
  assert (Hacc : NoDup accounts) by apply dedup_nodup.
  assert (Hcan : NoDup can) by (apply filter_nodup; exact Hacc).
  assert (Hsplit : lenZ can + lenZ other = lenZ accounts) by (apply filter_len_split).
  assert (Hkeep : forall x, keep x = true <-> ~ In x programs /\ ~ In x signers).
  { intros x. unfold keep. rewrite andb_true_iff, !negb_true_iff, !memz_not_in. tauto. }
  assert (Hperm : Permutation (dedup (rest ++ signers ++ programs)) (rest ++ other)).
  { apply NoDup_Permutation.
    - apply dedup_nodup.
    - apply nodup_app; [apply Hnd; exact Hcan | apply filter_nodup; exact Hacc |].
      intros x Hx Ho. apply Hinc in Hx. apply filter_In in Hx. apply filter_In in Ho.
      destruct Hx as [_ Hx], Ho as [_ Ho]. rewrite Hx in Ho. discriminate.
    - intros x. rewrite dedup_in, !in_app_iff. split.
      + intros [H | [H | H]]; [left; exact H | right | right]; apply filter_In.
        * split; [apply signers_in_accounts; exact H|]. apply negb_true_iff.
          destruct (keep x) eqn:E; [|reflexivity]. apply Hkeep in E. tauto.
        * split; [apply (programs_in_accounts payer); exact H|]. apply negb_true_iff.
          destruct (keep x) eqn:E; [|reflexivity]. apply Hkeep in E. tauto.
      + intros [H | H]; [left; exact H|]. apply filter_In in H. destruct H as [_ H].
        apply negb_true_iff in H. right.
        destruct (memz x signers) eqn:Es; [left; apply memz_in; exact Es|].
        destruct (memz x programs) eqn:Ep; [right; apply memz_in; exact Ep|].
        unfold keep in H. rewrite Es, Ep in H. discriminate. }
  pose proof (lenZ_perm _ _ Hperm) as Hlen. unfold lenZ in Hlen. rewrite app_length in Hlen.
  unfold lenZ in *.
  set (A' := Z.of_nat (length (dedup (rest ++ signers ++ programs)))) in *.
  assert (HA : A' = Z.of_nat (length accounts) - (Z.of_nat (length can) - Z.of_nat (length rest))) by lia.
  rewrite <- HA. rewrite Hrt. lia.
Qed.
