(* C41 — optimize (both levels) preserves the flattened instruction sequence, never splits an
   atomic group, and only produces groups that are [Made] from original ones by admissible merges. *)
From GV Require Import lib.Base C41.Model.
Open Scope Z_scope.

Definition flat_ixs (l : list ag) : list ix := flat_map a_ixs l.
Definition tg_ixs (tg : list pg) : list ix := flat_map (fun p => flat_ixs (p_groups p)) tg.
Definition tg_groups (tg : list pg) : list ag := flat_map p_groups tg.

Lemma tg_ixs_groups tg : tg_ixs tg = flat_ixs (tg_groups tg).
Proof.
  unfold tg_ixs, tg_groups, flat_ixs. induction tg as [|p r IH]; [reflexivity|].
  cbn. rewrite flat_map_app, IH. reflexivity.
Qed.

Lemma ag_empty_ixs g : ag_empty g = true -> a_ixs g = [].
Proof. unfold ag_empty. destruct (a_ixs g); [reflexivity | discriminate]. Qed.

Lemma filter_nonempty_ixs l : flat_ixs (filter (fun g => negb (ag_empty g)) l) = flat_ixs l.
Proof.
  induction l as [|g l IH]; [reflexivity|]. cbn. destruct (ag_empty g) eqn:E; cbn.
  - rewrite (ag_empty_ixs _ E). exact IH.
  - unfold flat_ixs in *. cbn. rewrite IH. reflexivity.
Qed.

Section Opt.
  Variable o : opts.
  Variable ts : luts.
  Variable allow : bool.

  (* ---------- the instruction sequence ---------- *)
  Lemma optimize_from_ixs rest : forall cur,
    flat_ixs (fst (optimize_from o ts allow cur rest)) = a_ixs cur ++ flat_ixs rest.
  Proof.
    induction rest as [|y r IH]; intros cur; cbn [optimize_from].
    - cbn. rewrite app_nil_r. reflexivity.
    - destruct (ag_empty cur) eqn:Ee.
      + specialize (IH y). destruct (optimize_from o ts allow y r) as [l m]. cbn [fst] in *.
        unfold flat_ixs in *. cbn. rewrite IH. reflexivity.
      + destruct (optimizable o ts allow cur y).
        * specialize (IH (merge cur y)). destruct (optimize_from o ts allow (merge cur y) r) as [l m]. cbn [fst] in *.
          unfold flat_ixs in *. cbn. rewrite IH. cbn. rewrite app_assoc. reflexivity.
        * specialize (IH y). destruct (optimize_from o ts allow y r) as [l m]. cbn [fst] in *.
          unfold flat_ixs in *. cbn. rewrite IH. reflexivity.
  Qed.

  Lemma optimize_slice_ixs gs : flat_ixs (fst (optimize_slice o ts allow gs)) = flat_ixs gs.
  Proof. destruct gs as [|x r]; [reflexivity|]. cbn [optimize_slice]. rewrite optimize_from_ixs. reflexivity. Qed.

  Lemma pg_optimize_ixs p : flat_ixs (p_groups (pg_optimize o ts allow p)) = flat_ixs (p_groups p).
  Proof.
    unfold pg_optimize. pose proof (optimize_slice_ixs (p_groups p)) as H.
    destruct (optimize_slice o ts allow (p_groups p)) as [gs merged]. cbn [fst] in H. cbn [p_groups].
    destruct merged; [rewrite filter_nonempty_ixs|]; exact H.
  Qed.

  Lemma pg_single_groups p x : pg_single p = Some x -> p_groups p = [x].
  Proof. unfold pg_single. destruct (p_groups p) as [|g [|h r]]; intros H; inversion H; reflexivity. Qed.

  Lemma tg_merge_from_ixs rest : forall cur,
    tg_ixs (fst (tg_merge_from o ts allow cur rest)) = flat_ixs (p_groups cur) ++ tg_ixs rest.
  Proof.
    induction rest as [|q r IH]; intros cur; cbn [tg_merge_from].
    - cbn. rewrite app_nil_r. reflexivity.
    - destruct (if p_merge cur && p_merge q
                then match pg_single cur, pg_single q with
                     | Some x, Some y => if optimizable o ts allow x y then Some (x, y) else None
                     | _, _ => None end
                else None) as [[x y]|] eqn:E.
      + assert (Hx : p_groups cur = [x] /\ p_groups q = [y]).
        { destruct (p_merge cur && p_merge q); [|discriminate].
          destruct (pg_single cur) as [x'|] eqn:E1; [|discriminate].
          destruct (pg_single q) as [y'|] eqn:E2; [|discriminate].
          destruct (optimizable o ts allow x' y'); [|discriminate]. inversion E; subst.
          split; apply pg_single_groups; assumption. }
        destruct Hx as [Hc Hq].
        specialize (IH (mkPg [merge x y] (p_merge cur))).
        destruct (tg_merge_from o ts allow (mkPg [merge x y] (p_merge cur)) r) as [l m]. cbn [fst] in *.
        unfold tg_ixs in *. cbn [flat_map]. cbn [DEFAULT_PG p_groups flat_ixs flat_map app]. rewrite IH.
        cbn [p_groups]. rewrite Hc, Hq. unfold flat_ixs. cbn. rewrite !app_nil_r. rewrite app_assoc. reflexivity.
      + specialize (IH q). destruct (tg_merge_from o ts allow q r) as [l m]. cbn [fst] in *.
        unfold tg_ixs in *. cbn. rewrite IH. reflexivity.
  Qed.

  Lemma pg_empty_ixs p : pg_empty p = true -> flat_ixs (p_groups p) = [].
  Proof. unfold pg_empty. destruct (p_groups p); [reflexivity | discriminate]. Qed.

  Lemma filter_pg_nonempty_ixs l : tg_ixs (filter (fun p => negb (pg_empty p)) l) = tg_ixs l.
  Proof.
    induction l as [|p l IH]; [reflexivity|]. cbn. destruct (pg_empty p) eqn:E; cbn.
    - unfold tg_ixs in *. cbn. rewrite (pg_empty_ixs _ E). exact IH.
    - unfold tg_ixs in *. cbn. rewrite IH. reflexivity.
  Qed.

  Lemma map_pg_optimize_ixs tg : tg_ixs (map (pg_optimize o ts allow) tg) = tg_ixs tg.
  Proof.
    induction tg as [|p r IH]; [reflexivity|]. unfold tg_ixs in *. cbn. rewrite pg_optimize_ixs, IH. reflexivity.
  Qed.

  Theorem tg_optimize_ixs tg : tg_ixs (tg_optimize o ts allow tg) = tg_ixs tg.
  Proof.
    unfold tg_optimize. rewrite <- (map_pg_optimize_ixs tg).
    destruct (map (pg_optimize o ts allow) tg) as [|p r]; [reflexivity|].
    pose proof (tg_merge_from_ixs r p) as H.
    destruct (tg_merge_from o ts allow p r) as [l merged]. cbn [fst] in H.
    destruct merged; [rewrite filter_pg_nonempty_ixs|]; rewrite H; unfold tg_ixs; reflexivity.
  Qed.

  (* ---------- provenance: how a final group is made ---------- *)
  Variable S : list ag.                    (* the original atomic groups *)

  Inductive Made : ag -> list ag -> Prop :=
  | M_orig g : In g S -> Made g [g]
  | M_merge x y px py : Made x px -> Made y py -> optimizable o ts allow x y = true ->
      Made (merge x y) (px ++ py).

  Definition made (f : ag) : Prop := exists parts, Made f parts.

  Lemma optimize_from_made rest : forall cur, made cur -> (forall y, In y rest -> made y) ->
    forall f, In f (fst (optimize_from o ts allow cur rest)) ->
      made f \/ (f = EMPTY_AG /\ snd (optimize_from o ts allow cur rest) = true).
  Proof.
    induction rest as [|y r IH]; intros cur Hc Hr f Hf; cbn [optimize_from] in *.
    - cbn in Hf. destruct Hf as [<-|[]]. left. exact Hc.
    - assert (Hy : made y) by (apply Hr; left; reflexivity).
      assert (Hr' : forall z, In z r -> made z) by (intros; apply Hr; right; assumption).
      destruct (ag_empty cur) eqn:Ee.
      + specialize (IH y Hy Hr'). destruct (optimize_from o ts allow y r) as [l m]. cbn [fst snd] in *.
        destruct Hf as [<-|Hf]; [left; exact Hc|].
        destruct (IH f Hf) as [A | [A _]]; [left; exact A | right; auto].
      + destruct (optimizable o ts allow cur y) eqn:Eo.
        * assert (Hm : made (merge cur y)).
          { destruct Hc as [pc Hc], Hy as [py Hy]. exists (pc ++ py). apply M_merge; assumption. }
          specialize (IH (merge cur y) Hm Hr').
          destruct (optimize_from o ts allow (merge cur y) r) as [l m]. cbn [fst snd] in *.
          destruct Hf as [<-|Hf]; [right; auto|].
          destruct (IH f Hf) as [A | [A _]]; [left; exact A | right; auto].
        * specialize (IH y Hy Hr'). destruct (optimize_from o ts allow y r) as [l m]. cbn [fst snd] in *.
          destruct Hf as [<-|Hf]; [left; exact Hc|]. exact (IH f Hf).
  Qed.

  Lemma pg_optimize_made p : (forall g, In g (p_groups p) -> made g) ->
    forall f, In f (p_groups (pg_optimize o ts allow p)) -> made f.
  Proof.
    intros Hp f Hf. unfold pg_optimize in Hf. unfold optimize_slice in Hf.
    destruct (p_groups p) as [|x r] eqn:Eg; [cbn in Hf; destruct Hf|].
    pose proof (optimize_from_made r x (Hp x (or_introl eq_refl)) (fun y Hy => Hp y (or_intror Hy))) as H.
    destruct (optimize_from o ts allow x r) as [gs merged]. cbn [fst snd p_groups] in *.
    destruct merged.
    - apply filter_In in Hf. destruct Hf as [Hf Hne]. destruct (H f Hf) as [A | [A _]]; [exact A|].
      subst f. cbn in Hne. discriminate.
    - destruct (H f Hf) as [A | [_ A]]; [exact A | discriminate].
  Qed.

  Lemma tg_merge_from_made rest : forall cur, (forall g, In g (p_groups cur) -> made g) ->
    (forall q g, In q rest -> In g (p_groups q) -> made g) ->
    forall p f, In p (fst (tg_merge_from o ts allow cur rest)) -> In f (p_groups p) -> made f.
  Proof.
    induction rest as [|q r IH]; intros cur Hc Hr p f Hp Hf; cbn [tg_merge_from] in *.
    - cbn in Hp. destruct Hp as [<-|[]]. apply Hc. exact Hf.
    - assert (Hq : forall g, In g (p_groups q) -> made g) by (intros g Hg; apply (Hr q g); [left; reflexivity | exact Hg]).
      assert (Hr' : forall q0 g, In q0 r -> In g (p_groups q0) -> made g) by (intros q0 g A B; apply (Hr q0 g); [right; exact A | exact B]).
      destruct (if p_merge cur && p_merge q
                then match pg_single cur, pg_single q with
                     | Some x, Some y => if optimizable o ts allow x y then Some (x, y) else None
                     | _, _ => None end
                else None) as [[x y]|] eqn:E.
      + assert (Hx : p_groups cur = [x] /\ p_groups q = [y] /\ optimizable o ts allow x y = true).
        { destruct (p_merge cur && p_merge q); [|discriminate].
          destruct (pg_single cur) as [x'|] eqn:E1; [|discriminate].
          destruct (pg_single q) as [y'|] eqn:E2; [|discriminate].
          destruct (optimizable o ts allow x' y') eqn:Eo; [|discriminate]. inversion E; subst.
          split; [apply pg_single_groups; assumption|]. split; [apply pg_single_groups; assumption | exact Eo]. }
        destruct Hx as [Hcx [Hqy Eo]].
        assert (Hm : forall g, In g (p_groups (mkPg [merge x y] (p_merge cur))) -> made g).
        { intros g [<-|[]].
          destruct (Hc x) as [px Hpx]; [rewrite Hcx; left; reflexivity|].
          destruct (Hq y) as [py Hpy]; [rewrite Hqy; left; reflexivity|].
          exists (px ++ py). apply M_merge; assumption. }
        specialize (IH _ Hm Hr').
        destruct (tg_merge_from o ts allow (mkPg [merge x y] (p_merge cur)) r) as [l m]. cbn [fst] in *.
        destruct Hp as [<-|Hp]; [cbn in Hf; destruct Hf|]. exact (IH p f Hp Hf).
      + specialize (IH q Hq Hr'). destruct (tg_merge_from o ts allow q r) as [l m]. cbn [fst] in *.
        destruct Hp as [<-|Hp]; [apply Hc; exact Hf | exact (IH p f Hp Hf)].
  Qed.

  Theorem tg_optimize_made tg : (forall g, In g (tg_groups tg) -> In g S) ->
    forall f, In f (tg_groups (tg_optimize o ts allow tg)) -> made f.
  Proof.
    intros HS f Hf. unfold tg_groups in Hf. apply in_flat_map in Hf. destruct Hf as [p [Hp Hf]].
    assert (H1 : forall q g, In q (map (pg_optimize o ts allow) tg) -> In g (p_groups q) -> made g).
    { intros q g Hq Hg. apply in_map_iff in Hq. destruct Hq as [q0 [<- Hq0]].
      apply (pg_optimize_made q0); [|exact Hg]. intros g0 Hg0. exists [g0]. apply M_orig. apply HS.
      unfold tg_groups. apply in_flat_map. exists q0. auto. }
    unfold tg_optimize in Hp.
    destruct (map (pg_optimize o ts allow) tg) as [|p0 r] eqn:Em; [cbn in Hp; destruct Hp|].
    pose proof (tg_merge_from_made r p0 (fun g Hg => H1 p0 g (or_introl eq_refl) Hg)
                                   (fun q g Hq Hg => H1 q g (or_intror Hq) Hg)) as H.
    destruct (tg_merge_from o ts allow p0 r) as [l merged]. cbn [fst] in H.
    destruct merged; [apply filter_In in Hp; destruct Hp as [Hp _]|]; exact (H p f Hp Hf).
  Qed.

  (* ---------- what [Made] implies ---------- *)
  Lemma made_ixs f parts : Made f parts -> a_ixs f = flat_ixs parts.
  Proof.
    induction 1 as [g Hg | x y px py Hx IHx Hy IHy Ho]; [cbn; rewrite app_nil_r; reflexivity|].
    cbn [merge a_ixs]. unfold flat_ixs in *. rewrite flat_map_app, IHx, IHy. reflexivity.
  Qed.

  Lemma made_parts_orig f parts : Made f parts -> forall p, In p parts -> In p S.
  Proof.
    induction 1 as [g Hg | x y px py Hx IHx Hy IHy Ho]; intros p Hp.
    - destruct Hp as [<-|[]]. exact Hg.
    - apply in_app_or in Hp. destruct Hp; auto.
  Qed.

  Lemma made_parts_nonnil f parts : Made f parts -> parts <> [].
  Proof. induction 1 as [g Hg | x y px py Hx IHx Hy IHy Ho]; [discriminate|]. destruct px; [congruence | discriminate]. Qed.

  Lemma optimizable_spec x y : optimizable o ts allow x y = true ->
    a_merge x = true /\ a_merge y = true /\ (allow = false -> a_payer x = a_payer y) /\
    ag_len x + ag_len y <= o_max_ix o /\ merged_size (o_memo o) ts x y <= o_max_size o.
  Proof.
    unfold optimizable. intros H. repeat (apply andb_prop in H; destruct H as [H ?]).
    repeat split; auto.
    - intros ->. cbn in *. apply Z.eqb_eq. assumption.
    - apply Z.leb_le. assumption.
    - apply Z.leb_le. assumption.
  Qed.

  (* a mergeable product has only mergeable parts; a non-mergeable group is an original one *)
  Lemma made_mergeable f parts : Made f parts -> a_merge f = true -> forall p, In p parts -> a_merge p = true.
  Proof.
    induction 1 as [g Hg | x y px py Hx IHx Hy IHy Ho]; intros Hf p Hp.
    - destruct Hp as [<-|[]]. exact Hf.
    - destruct (optimizable_spec _ _ Ho) as [A [B _]]. apply in_app_or in Hp. destruct Hp; auto.
  Qed.

  Lemma made_several_mergeable f parts : Made f parts -> (2 <= length parts)%nat ->
    a_merge f = true /\ forall p, In p parts -> a_merge p = true.
  Proof.
    intros H Hl. destruct H as [g Hg | x y px py Hx Hy Ho]; [cbn in Hl; lia|].
    destruct (optimizable_spec _ _ Ho) as [A [B _]]. split; [exact A|].
    intros p Hp. apply in_app_or in Hp. destruct Hp as [Hp|Hp];
      [eapply made_mergeable; [exact Hx | exact A | exact Hp] | eapply made_mergeable; [exact Hy | exact B | exact Hp]].
  Qed.

  Lemma made_payer f parts : Made f parts -> allow = false -> forall p, In p parts -> a_payer p = a_payer f.
  Proof.
    induction 1 as [g Hg | x y px py Hx IHx Hy IHy Ho]; intros Ha p Hp.
    - destruct Hp as [<-|[]]. reflexivity.
    - destruct (optimizable_spec _ _ Ho) as [_ [_ [C _]]]. cbn [merge a_payer].
      apply in_app_or in Hp. destruct Hp as [Hp|Hp]; [auto | rewrite (IHy Ha p Hp); symmetry; auto].
  Qed.

  Lemma made_payer_first f parts : Made f parts -> exists p r, parts = p :: r /\ a_payer f = a_payer p.
  Proof.
    induction 1 as [g Hg | x y px py Hx IHx Hy IHy Ho]; [exists g, []; auto|].
    destruct IHx as [p [r [-> E]]]. exists p, (r ++ py). split; [reflexivity | exact E].
  Qed.

  (* limits *)
  Definition within (f : ag) : Prop :=
    ag_len f <= o_max_ix o /\ group_size true (o_memo o) ts f <= o_max_size o.

  Lemma merged_size_group x y : merged_size (o_memo o) ts x y = group_size true (o_memo o) ts (merge x y).
  Proof.
    unfold merged_size, group_size, ixs_with_options. cbn [merge a_payer a_ixs].
    f_equal. cbn [app]. rewrite <- !app_assoc. reflexivity.
  Qed.

  Lemma made_within f parts : (forall g, In g S -> within g) -> Made f parts -> within f.
  Proof.
    intros HS. induction 1 as [g Hg | x y px py Hx IHx Hy IHy Ho]; [auto|].
    destruct (optimizable_spec _ _ Ho) as [_ [_ [_ [D E]]]]. split.
    - unfold ag_len, lenZ in *. cbn [merge a_ixs]. rewrite app_length. lia.
    - rewrite <- merged_size_group. exact E.
  Qed.
End Opt.

(* ---------- atomic groups are never split ---------- *)
Definition contains (g : ag) (b : list ix) : Prop := exists pre post, a_ixs g = pre ++ b ++ post.
Definition blocks (b : list ix) (fs : list ag) : Prop := exists f, In f fs /\ contains f b.

Lemma contains_self g : contains g (a_ixs g).
Proof. exists [], []. rewrite app_nil_r. reflexivity. Qed.

Lemma contains_nonempty g b : contains g b -> b <> [] -> ag_empty g = false.
Proof.
  intros [pre [post E]] Hb. unfold ag_empty. rewrite E. destruct pre; cbn; [|reflexivity].
  destruct b; [congruence | reflexivity].
Qed.

Lemma contains_merge_l x y b : contains x b -> contains (merge x y) b.
Proof. intros [pre [post E]]. exists pre, (post ++ a_ixs y). cbn. rewrite E, <- !app_assoc. reflexivity. Qed.
Lemma contains_merge_r x y b : contains y b -> contains (merge x y) b.
Proof. intros [pre [post E]]. exists (a_ixs x ++ pre), post. cbn. rewrite E, <- !app_assoc. reflexivity. Qed.

Section Split.
  Variable o : opts.
  Variable ts : luts.
  Variable allow : bool.

  Lemma optimize_from_blocks rest : forall cur b, b <> [] ->
    contains cur b \/ (exists g, In g rest /\ contains g b) ->
    blocks b (fst (optimize_from o ts allow cur rest)).
  Proof.
    induction rest as [|y r IH]; intros cur b Hb H; cbn [optimize_from].
    - destruct H as [H | [g [[] _]]]. exists cur. split; [left; reflexivity | exact H].
    - assert (Hrest : ~ contains cur b -> contains y b \/ (exists g, In g r /\ contains g b)).
      { intros Hn. destruct H as [H | [g [[<-|Hg] Hc]]]; [contradiction | left; exact Hc | right; eauto]. }
      destruct (ag_empty cur) eqn:Ee.
      + assert (Hn : ~ contains cur b) by (intros Hc; rewrite (contains_nonempty _ _ Hc Hb) in Ee; discriminate).
        destruct (IH y b Hb (Hrest Hn)) as [f [Hf Hc]].
        destruct (optimize_from o ts allow y r) as [l m]. cbn [fst] in *. exists f. split; [right; exact Hf | exact Hc].
      + destruct (optimizable o ts allow cur y).
        * assert (Hm : contains (merge cur y) b \/ (exists g, In g r /\ contains g b)).
          { destruct H as [H | [g [[<-|Hg] Hc]]];
              [left; apply contains_merge_l; exact H | left; apply contains_merge_r; exact Hc | right; eauto]. }
          destruct (IH (merge cur y) b Hb Hm) as [f [Hf Hc]].
          destruct (optimize_from o ts allow (merge cur y) r) as [l m]. cbn [fst] in *.
          exists f. split; [right; exact Hf | exact Hc].
        * destruct H as [H | H'].
          -- destruct (optimize_from o ts allow y r) as [l m]. cbn [fst]. exists cur. split; [left; reflexivity | exact H].
          -- assert (Hy : contains y b \/ (exists g, In g r /\ contains g b)).
             { destruct H' as [g [[<-|Hg] Hc]]; [left; exact Hc | right; eauto]. }
             destruct (IH y b Hb Hy) as [f [Hf Hc]].
             destruct (optimize_from o ts allow y r) as [l m]. cbn [fst] in *. exists f. split; [right; exact Hf | exact Hc].
  Qed.

  Lemma pg_optimize_blocks p g : In g (p_groups p) -> a_ixs g <> [] ->
    blocks (a_ixs g) (p_groups (pg_optimize o ts allow p)).
  Proof.
    intros Hg Hne. unfold pg_optimize, optimize_slice. destruct (p_groups p) as [|x r] eqn:Eg; [destruct Hg|].
    assert (H : contains x (a_ixs g) \/ (exists g0, In g0 r /\ contains g0 (a_ixs g))).
    { destruct Hg as [<-|Hg]; [left; apply contains_self | right; exists g; split; [exact Hg | apply contains_self]]. }
    destruct (optimize_from_blocks r x (a_ixs g) Hne H) as [f [Hf Hc]].
    destruct (optimize_from o ts allow x r) as [gs merged]. cbn [fst p_groups] in *.
    exists f. split; [|exact Hc]. destruct merged; [|exact Hf].
    apply filter_In. split; [exact Hf|]. rewrite (contains_nonempty _ _ Hc Hne). reflexivity.
  Qed.

  Definition pblocks (b : list ix) (ps : list pg) : Prop := exists p, In p ps /\ blocks b (p_groups p).

  Lemma tg_merge_from_blocks rest : forall cur b, b <> [] ->
    blocks b (p_groups cur) \/ (exists q, In q rest /\ blocks b (p_groups q)) ->
    pblocks b (fst (tg_merge_from o ts allow cur rest)).
  Proof.
    induction rest as [|q r IH]; intros cur b Hb H; cbn [tg_merge_from].
    - destruct H as [H | [q [[] _]]]. exists cur. split; [left; reflexivity | exact H].
    - destruct (if p_merge cur && p_merge q
                then match pg_single cur, pg_single q with
                     | Some x, Some y => if optimizable o ts allow x y then Some (x, y) else None
                     | _, _ => None end
                else None) as [[x y]|] eqn:E.
      + assert (Hx : p_groups cur = [x] /\ p_groups q = [y]).
        { destruct (p_merge cur && p_merge q); [|discriminate].
          destruct (pg_single cur) as [x'|] eqn:E1; [|discriminate].
          destruct (pg_single q) as [y'|] eqn:E2; [|discriminate].
          destruct (optimizable o ts allow x' y'); [|discriminate]. inversion E; subst.
          split; apply pg_single_groups; assumption. }
        destruct Hx as [Hcx Hqy].
        assert (Hm : blocks b (p_groups (mkPg [merge x y] (p_merge cur))) \/ (exists q0, In q0 r /\ blocks b (p_groups q0))).
        { destruct H as [[f [Hf Hc]] | [q0 [[<-|Hq0] [f [Hf Hc]]]]].
          - left. rewrite Hcx in Hf. destruct Hf as [<-|[]]. exists (merge x y). split; [left; reflexivity | apply contains_merge_l; exact Hc].
          - left. rewrite Hqy in Hf. destruct Hf as [<-|[]]. exists (merge x y). split; [left; reflexivity | apply contains_merge_r; exact Hc].
          - right. exists q0. split; [exact Hq0 | exists f; auto]. }
        destruct (IH _ b Hb Hm) as [p [Hp Hbl]].
        destruct (tg_merge_from o ts allow (mkPg [merge x y] (p_merge cur)) r) as [l m]. cbn [fst] in *.
        exists p. split; [right; exact Hp | exact Hbl].
      + destruct H as [H | H'].
        * destruct (tg_merge_from o ts allow q r) as [l m]. cbn [fst]. exists cur. split; [left; reflexivity | exact H].
        * assert (Hq : blocks b (p_groups q) \/ (exists q0, In q0 r /\ blocks b (p_groups q0))).
          { destruct H' as [q0 [[<-|Hq0] Hbl]]; [left; exact Hbl | right; eauto]. }
          destruct (IH q b Hb Hq) as [p [Hp Hbl]].
          destruct (tg_merge_from o ts allow q r) as [l m]. cbn [fst] in *. exists p. split; [right; exact Hp | exact Hbl].
  Qed.

  Theorem tg_optimize_never_splits tg g : In g (tg_groups tg) -> a_ixs g <> [] ->
    blocks (a_ixs g) (tg_groups (tg_optimize o ts allow tg)).
  Proof.
    intros Hg Hne. unfold tg_groups in Hg. apply in_flat_map in Hg. destruct Hg as [p0 [Hp0 Hg]].
    assert (H1 : exists q, In q (map (pg_optimize o ts allow) tg) /\ blocks (a_ixs g) (p_groups q)).
    { exists (pg_optimize o ts allow p0). split; [apply in_map; exact Hp0 | apply pg_optimize_blocks; assumption]. }
    unfold tg_optimize. destruct (map (pg_optimize o ts allow) tg) as [|p r] eqn:Em; [destruct H1 as [q [[] _]]|].
    assert (H2 : blocks (a_ixs g) (p_groups p) \/ (exists q, In q r /\ blocks (a_ixs g) (p_groups q))).
    { destruct H1 as [q [[<-|Hq] Hbl]]; [left; exact Hbl | right; eauto]. }
    destruct (tg_merge_from_blocks r p (a_ixs g) Hne H2) as [p1 [Hp1 [f [Hf Hc]]]].
    destruct (tg_merge_from o ts allow p r) as [l merged]. cbn [fst] in *.
    exists f. split; [|exact Hc]. unfold tg_groups. apply in_flat_map. exists p1. split; [|exact Hf].
    destruct merged; [|exact Hp1]. apply filter_In. split; [exact Hp1|].
    unfold pg_empty. destruct (p_groups p1); [destruct Hf | reflexivity].
  Qed.
End Split.

(* ---------- adding: everything that gets in passed validate_one ---------- *)
Lemma tg_add_groups o ts tg p : (forall g, In g (tg_groups tg) -> validate_one o ts g = true) ->
  forall g, In g (tg_groups (fst (tg_add o ts tg p))) -> validate_one o ts g = true.
Proof.
  intros H g Hg. unfold tg_add in Hg. destruct (pg_empty p); [exact (H g Hg)|].
  destruct (forallb (validate_one o ts) (p_groups p)) eqn:E; [|exact (H g Hg)].
  cbn [fst] in Hg. unfold tg_groups in Hg. rewrite flat_map_app in Hg. apply in_app_or in Hg.
  destruct Hg as [Hg|Hg]; [exact (H g Hg)|]. cbn in Hg. rewrite app_nil_r in Hg.
  rewrite forallb_forall in E. exact (E g Hg).
Qed.

Lemma tg_add_all_valid o ts ps : forall g, In g (tg_groups (fst (tg_add_all o ts ps))) -> validate_one o ts g = true.
Proof.
  unfold tg_add_all.
  assert (H : forall ps tg oks, (forall g, In g (tg_groups tg) -> validate_one o ts g = true) ->
            forall g, In g (tg_groups (fst (fold_left (fun acc p => let '(tg, oks) := acc in
                          let '(tg', ok) := tg_add o ts tg p in (tg', oks ++ [ok])) ps (tg, oks)))) ->
            validate_one o ts g = true).
  { clear ps. induction ps as [|p ps IH]; intros tg oks Htg g Hg; [exact (Htg g Hg)|].
    cbn [fold_left] in Hg. destruct (tg_add o ts tg p) as [tg' ok] eqn:Ea.
    apply (IH tg' (oks ++ [ok])); [|exact Hg].
    intros g0 Hg0. apply (tg_add_groups o ts tg p Htg). rewrite Ea. exact Hg0. }
  apply H. intros g [].
Qed.

Lemma validate_within o ts g : validate_one o ts g = true -> within o ts g.
Proof.
  unfold validate_one. intros H. apply andb_prop in H. destruct H as [A B].
  apply Z.leb_le in A, B. split; [exact A | exact B].
Qed.

(* ---------- provenance at the level of parallel groups ---------- *)
Section PMadeSec.
  Variable o : opts.
  Variable ts : luts.
  Variable allow : bool.
  Variable T : list pg.                    (* the original parallel groups *)

  Inductive PMade : pg -> list pg -> Prop :=
  | PM_opt p : In p T -> PMade (pg_optimize o ts allow p) [p]
  | PM_merge P Q sp sq x y : PMade P sp -> PMade Q sq ->
      p_merge P = true -> p_merge Q = true -> pg_single P = Some x -> pg_single Q = Some y ->
      optimizable o ts allow x y = true ->
      PMade (mkPg [merge x y] (p_merge P)) (sp ++ sq).

  Lemma pg_optimize_flag p : p_merge (pg_optimize o ts allow p) = p_merge p.
  Proof. unfold pg_optimize. destruct (optimize_slice o ts allow (p_groups p)). reflexivity. Qed.

  Lemma tg_merge_from_pmade rest : forall cur sc, PMade cur sc ->
    (forall q, In q rest -> exists sq, PMade q sq) ->
    forall p, In p (fst (tg_merge_from o ts allow cur rest)) -> p = DEFAULT_PG \/ exists sp, PMade p sp.
  Proof.
    induction rest as [|q r IH]; intros cur sc Hc Hr p Hp; cbn [tg_merge_from] in *.
    - cbn in Hp. destruct Hp as [<-|[]]. right. eauto.
    - destruct (Hr q (or_introl eq_refl)) as [sq Hq].
      assert (Hr' : forall q0, In q0 r -> exists s0, PMade q0 s0) by (intros; apply Hr; right; assumption).
      destruct (if p_merge cur && p_merge q
                then match pg_single cur, pg_single q with
                     | Some x, Some y => if optimizable o ts allow x y then Some (x, y) else None
                     | _, _ => None end
                else None) as [[x y]|] eqn:E.
      + assert (Hx : p_merge cur = true /\ p_merge q = true /\ pg_single cur = Some x /\ pg_single q = Some y
                     /\ optimizable o ts allow x y = true).
        { destruct (p_merge cur) eqn:A; [|discriminate]. destruct (p_merge q) eqn:B; [|discriminate]. cbn in E.
          destruct (pg_single cur) as [x'|] eqn:E1; [|discriminate].
          destruct (pg_single q) as [y'|] eqn:E2; [|discriminate].
          destruct (optimizable o ts allow x' y') eqn:Eo; [|discriminate]. inversion E; subst. auto. }
        destruct Hx as [A [B [E1 [E2 Eo]]]].
        pose proof (PM_merge cur q sc sq x y Hc Hq A B E1 E2 Eo) as Hm.
        specialize (IH _ _ Hm Hr').
        destruct (tg_merge_from o ts allow (mkPg [merge x y] (p_merge cur)) r) as [l m]. cbn [fst] in *.
        destruct Hp as [<-|Hp]; [left; reflexivity | exact (IH p Hp)].
      + specialize (IH q sq Hq Hr'). destruct (tg_merge_from o ts allow q r) as [l m]. cbn [fst] in *.
        destruct Hp as [<-|Hp]; [right; eauto | exact (IH p Hp)].
  Qed.

  Lemma pmade_flags P srcs : PMade P srcs ->
    (exists s r, srcs = s :: r /\ p_merge P = p_merge s) /\
    ((2 <= length srcs)%nat -> forall s, In s srcs -> p_merge s = true).
  Proof.
    induction 1 as [p Hp | P Q sp sq x y HP [IHP1 IHP2] HQ [IHQ1 IHQ2] A B E1 E2 Eo].
    - split; [exists p, []; split; [reflexivity | apply pg_optimize_flag]|]. cbn. lia.
    - destruct IHP1 as [s [r [-> Es]]]. destruct IHQ1 as [s' [r' [-> Es']]]. split.
      + exists s, (r ++ s' :: r'). split; [reflexivity | exact Es].
      + intros _ z Hz.
        assert (HallP : forall z, In z (s :: r) -> p_merge z = true).
        { destruct r as [|r0 r1]; [intros z0 [<-|[]]; congruence | apply IHP2; cbn; lia]. }
        assert (HallQ : forall z, In z (s' :: r') -> p_merge z = true).
        { destruct r' as [|r0 r1]; [intros z0 [<-|[]]; congruence | apply IHQ2; cbn; lia]. }
        apply in_app_or in Hz. destruct Hz; auto.
  Qed.
End PMadeSec.

(* every final parallel group is the optimized form of an original one, or the merge of single,
   mergeable ones (an empty default group carries no instruction) *)
Theorem tg_optimize_pmade o ts allow tg p :
  In p (tg_optimize o ts allow tg) -> p = DEFAULT_PG \/ exists srcs, PMade o ts allow tg p srcs.
Proof.
  intros Hp. unfold tg_optimize in Hp.
  assert (H1 : forall q, In q (map (pg_optimize o ts allow) tg) -> exists sq, PMade o ts allow tg q sq).
  { intros q Hq. apply in_map_iff in Hq. destruct Hq as [q0 [<- Hq0]]. exists [q0]. apply PM_opt. exact Hq0. }
  destruct (map (pg_optimize o ts allow) tg) as [|p0 r] eqn:Em; [cbn in Hp; destruct Hp|].
  destruct (H1 p0 (or_introl eq_refl)) as [s0 Hs0].
  pose proof (tg_merge_from_pmade o ts allow tg r p0 s0 Hs0 (fun q Hq => H1 q (or_intror Hq))) as H.
  destruct (tg_merge_from o ts allow p0 r) as [l merged] eqn:El. cbn [fst] in H.
  destruct merged; [apply filter_In in Hp; destruct Hp as [Hp _]|]; exact (H p Hp).
Qed.
