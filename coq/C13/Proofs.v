(* C13 — proofs: cumulative factor monotone; total_borrowing = sum of per-position floors;
   pending borrowing fees defined and non-negative. *)
From GV Require Import lib.Base lib.DivLemmas C01.Model C01.Proofs FB.ResLemmas C13.Model.
Open Scope Z_scope.
Ltac Zify.zify_post_hook ::= Z.div_mod_to_equations.

(* sums over the positions of one side *)
Definition contrib (unit : Z) (l : bool) (x : bpos) : Z :=
  if Bool.eqb (x_long x) l then x_size x * x_bf x / unit else 0.
Definition sizeof (l : bool) (x : bpos) : Z := if Bool.eqb (x_long x) l then x_size x else 0.
Definition exact (l : bool) (x : bpos) : Z := if Bool.eqb (x_long x) l then x_size x * x_bf x else 0.
Definition one (l : bool) (x : bpos) : Z := if Bool.eqb (x_long x) l then 1 else 0.
Fixpoint zsum (f : bpos -> Z) (xs : list bpos) : Z :=
  match xs with [] => 0 | x :: r => f x + zsum f r end.

Lemma zsum_set_nth f xs i x x' : nth_error xs i = Some x ->
  zsum f (set_nth xs i x') = zsum f xs - f x + f x'.
Proof.
  revert i. induction xs as [|y r IH]; intros i H.
  - destruct i; discriminate.
  - destruct i; cbn in *.
    + injection H as ->. lia.
    + rewrite (IH _ H). lia.
Qed.

Lemma Forall_set_nth {A} (P : A -> Prop) l i v : Forall P l -> P v -> Forall P (set_nth l i v).
Proof.
  intros H Hv. revert i. induction H as [|x l Hx Hl IH]; intros i; cbn.
  - destruct i; constructor.
  - destruct i; constructor; auto.
Qed.

Section P.
  Variable w : Z.
  Hypothesis Hw : 1 <= w.
  Variable unit : Z.
  Hypothesis Hunit : 0 < unit.

  Let P2 : 0 < 2 ^ w. Proof. apply pow2_pos; lia. Qed.
  Let P2' : 0 < 2 ^ (w - 1). Proof. apply pow2_pos; lia. Qed.
  Let P2'' : 2 ^ w = 2 * 2 ^ (w - 1).
  Proof. replace w with (1 + (w - 1)) at 1 by lia. rewrite Z.pow_add_r by lia. reflexivity. Qed.

  (* ---- the per-second factor is an unsigned machine number ---- *)
  Lemma kink_range c e l reserved pv f : kink w unit c e l reserved pv = Ok (Some f) -> 0 <= f < 2 ^ w.
  Proof.
    unfold kink. destruct ((if l then k_opt_l c else k_opt_s c) =? 0); [discriminate|].
    intros H. rstep H usage E1. rstep H b E2. apply apply_factor_range in E2.
    destruct (((if l then k_opt_l c else k_opt_s c) <? usage) && ((if l then k_opt_l c else k_opt_s c) <? unit)).
    - rstep H df E3. rstep H add E4. rstep H divisor E5. rstep H r E6. injection H as <-.
      apply obind_some in E6. destruct E6 as (a & _ & E6). apply uadd_some in E6. lia.
    - injection H as <-. exact E2.
  Qed.

  Lemma bfps_range c e l f : bfps w unit c e l = Ok f -> 0 <= f < 2 ^ w.
  Proof.
    unfold bfps. intros H. rstep H reserved E1.
    destruct (reserved =? 0); [injection H as <-; lia|].
    destruct (b_skip c && ((l && (e_oi_l e <? e_oi_s e)) || (negb l && (e_oi_s e <? e_oi_l e)))); [injection H as <-; lia|].
    rstep H pv E2. destruct (pv =? 0); [discriminate|].
    rstep H k E3. destruct k as [g|].
    - injection H as <-. eapply kink_range; eassumption.
    - rstep H rae E4. rstep H rtp E5. apply of_opt_ok in H. eapply apply_factor_range; eassumption.
  Qed.

  Lemma next_cum_spec c e s l dur nx d : 0 <= dur ->
    next_cum w unit c e s l dur = Ok (nx, d) ->
    0 <= d < 2 ^ w /\ nx = cum s l + d /\ 0 <= cum s l + d < 2 ^ w.
  Proof.
    intros Hd. unfold next_cum. intros H. rstep H f E1. apply bfps_range in E1.
    rstep H delta E2. apply umul_some in E2. rstep H n E3. apply uadd_some in E3.
    injection H as <- <-. lia.
  Qed.

  Lemma exec_side_spec c e s l dur n s' : 0 <= dur -> 0 <= cum s l ->
    exec_side w unit c e s l dur = Ok (n, s') ->
    exists d, 0 <= d /\ n = cum s l + d /\ n < 2 ^ w /\ s' = set_cum s l n.
  Proof.
    intros Hd Hc. unfold exec_side. intros H. rstep H r E1. destruct r as [nx d].
    apply next_cum_spec in E1; [|assumption]. destruct E1 as (D1 & -> & D3). cbn [fst snd] in *.
    rstep H ds E2. apply to_signed_some in E2. destruct E2 as [E2 ->].
    rstep H v E3. injection H as <- <-.
    exists d. repeat split; try lia.
    f_equal. unfold pool_apply in E3. destruct (0 <? d) eqn:E0; apply of_opt_ok in E3.
    - apply uadd_some in E3. lia.
    - apply usub_some in E3. lia.
  Qed.

  Definition cum_ok (s : bstate) : Prop := 0 <= cum_l s < 2 ^ w /\ 0 <= cum_s s < 2 ^ w.

  (* ---- UpdateBorrowingState: cumulative factors never decrease; nothing else moves ---- *)
  Theorem execute_monotone c e s now d nl ns s' : cum_ok s ->
    execute w unit c e s now = Ok (d, nl, ns, s') ->
    cum_l s <= cum_l s' /\ cum_s s <= cum_s s' /\ cum_ok s' /\
    tb_l s' = tb_l s /\ tb_s s' = tb_s s /\ b_clock s' = now /\
    nl = cum_l s' /\ ns = cum_s s' /\ d = Z.max 0 (now - b_clock s).
  Proof.
    intros [Cl Cs]. unfold execute. intros H.
    rstep H r1 E1. destruct r1 as [n1 s1]. cbn [fst snd] in *.
    rstep H r2 E2. destruct r2 as [n2 s2]. cbn [fst snd] in *. injection H as <- <- <- <-.
    apply exec_side_spec in E1; [|unfold elapsed; lia|cbn; lia].
    destruct E1 as (d1 & D1 & -> & R1 & ->). cbn [cum set_cum cum_l cum_s tb_l tb_s b_clock] in *.
    apply exec_side_spec in E2; [|unfold elapsed; lia|cbn; lia].
    destruct E2 as (d2 & D2 & -> & R2 & ->). cbn [cum set_cum cum_l cum_s tb_l tb_s b_clock] in *.
    unfold cum_ok, elapsed; cbn. repeat split; lia.
  Qed.

  (* ---- position size change: total_borrowing moves by exactly next - previous ---- *)
  Lemma pos_change_spec s x n s' x' : 0 <= x_size x -> 0 <= x_bf x -> 0 <= n -> 0 <= cum s (x_long x) ->
    pos_change w unit s x n = Ok (s', x') ->
    x' = BP (x_long x) n (cum s (x_long x)) /\
    s' = set_tb s (x_long x) (tb s (x_long x) + n * cum s (x_long x) / unit - x_size x * x_bf x / unit) /\
    0 <= tb s' (x_long x) < 2 ^ w.
  Proof.
    intros Hs Hb Hn Hc. unfold pos_change. intros H.
    rstep H prev E1. apply apply_factor_exact in E1; [|lia..]. destruct E1 as [-> _].
    rstep H nxt E2. apply apply_factor_exact in E2; [|lia..]. destruct E2 as [-> _].
    rstep H delta E3.
    assert (0 <= x_size x * x_bf x / unit) by (apply div_nonneg; nia).
    assert (0 <= n * cum s (x_long x) / unit) by (apply div_nonneg; nia).
    apply signed_sub_exact in E3; [|lia..]. destruct E3 as [-> _].
    rstep H t E4. injection H as <- <-.
    assert (t = tb s (x_long x) + n * cum s (x_long x) / unit - x_size x * x_bf x / unit /\ 0 <= t < 2 ^ w) as [-> Ht].
    { unfold pool_apply in E4.
      destruct (0 <? n * cum s (x_long x) / unit - x_size x * x_bf x / unit) eqn:E0; apply of_opt_ok in E4.
      - apply uadd_some in E4. lia.
      - apply usub_some in E4. lia. }
    split; [reflexivity|split; [reflexivity|]]. unfold tb, set_tb in *. destruct (x_long x); cbn in *; lia.
  Qed.

  (* ---- the invariant ---- *)
  Definition pos_wf (s : bstate) (x : bpos) : Prop := 0 <= x_size x /\ 0 <= x_bf x <= cum s (x_long x).

  Definition inv (st : bstate * list bpos) : Prop :=
    let '(s, xs) := st in
    tb_l s = zsum (contrib unit true) xs /\ tb_s s = zsum (contrib unit false) xs /\
    Forall (pos_wf s) xs /\ cum_ok s.

  Definition op_ok (o : bop) : Prop := match o with OPos _ n => 0 <= n | OUpd _ _ => True end.

  Lemma cum_set_tb s l v l' : cum (set_tb s l v) l' = cum s l'.
  Proof. unfold cum, set_tb. destruct l, l'; reflexivity. Qed.

  Lemma pos_wf_mono s s' x : cum_l s <= cum_l s' -> cum_s s <= cum_s s' -> pos_wf s x -> pos_wf s' x.
  Proof. unfold pos_wf, cum. destruct (x_long x); lia. Qed.

  Lemma nth_error_In_Forall {A} (P : A -> Prop) l i x : Forall P l -> nth_error l i = Some x -> P x.
  Proof. intros H E. apply nth_error_In in E. rewrite Forall_forall in H. auto. Qed.

  Theorem hstep_inv c st o : op_ok o -> inv st ->
    let st' := hstep w unit c st o in
    inv st' /\ cum_l (fst st) <= cum_l (fst st') /\ cum_s (fst st) <= cum_s (fst st').
  Proof.
    intros Ho Hi. destruct st as [s xs]. destruct Hi as (T1 & T2 & F & C). cbn [fst].
    destruct o as [now e|i n]; cbn [hstep].
    - destruct (execute w unit c e s now) as [[[[d nl] ns] s']|k] eqn:E.
      + apply execute_monotone in E; [|assumption].
        destruct E as (M1 & M2 & C' & B1 & B2 & _). cbn [fst]. split; [|lia].
        unfold inv. rewrite B1, B2. split; [exact T1|]. split; [exact T2|]. split; [|exact C'].
        eapply Forall_impl; [|exact F]. intros x Hx. eapply pos_wf_mono; eassumption.
      + cbn [fst]. split; [|lia]. unfold inv. auto.
    - destruct (nth_error xs i) as [x|] eqn:En.
      2:{ cbn [fst]. split; [|lia]. unfold inv. auto. }
      destruct (pos_change w unit s x n) as [[s' x']|k] eqn:E.
      2:{ cbn [fst]. split; [|lia]. unfold inv. auto. }
      pose proof (nth_error_In_Forall _ _ _ _ F En) as (Hs & Hb1 & Hb2).
      destruct C as [Cl Cs].
      apply pos_change_spec in E; try assumption; [|unfold cum; destruct (x_long x); lia].
      destruct E as (-> & -> & _). cbn [fst].
      assert (cum_l (set_tb s (x_long x) (tb s (x_long x) + n * cum s (x_long x) / unit - x_size x * x_bf x / unit)) = cum_l s
              /\ cum_s (set_tb s (x_long x) (tb s (x_long x) + n * cum s (x_long x) / unit - x_size x * x_bf x / unit)) = cum_s s) as [K1 K2]
        by (unfold set_tb; destruct (x_long x); cbn; auto).
      split; [|lia]. unfold inv.
      rewrite !(zsum_set_nth _ _ _ _ _ En).
      set (Z1 := zsum (contrib unit true) xs) in *. set (Z2 := zsum (contrib unit false) xs) in *.
      split; [|split; [|split]].
      + unfold contrib, set_tb, tb, cum; cbn [x_long x_size x_bf]. destruct (x_long x); cbn; lia.
      + unfold contrib, set_tb, tb, cum; cbn [x_long x_size x_bf]. destruct (x_long x); cbn; lia.
      + apply Forall_set_nth.
        * eapply Forall_impl; [|exact F]. intros y Hy. unfold pos_wf in *. rewrite cum_set_tb. exact Hy.
        * unfold pos_wf; cbn [x_long x_size x_bf]. rewrite cum_set_tb. cbn in Ho. lia.
      + unfold cum_ok. rewrite K1, K2. split; assumption.
  Qed.
End P.
