(* C13 — property theorems only (statements pinned; closed by lemmas of Proofs.v / History.v). *)
From GV Require Import lib.Base C01.Model C13.Model C13.Proofs C13.History.
Open Scope Z_scope.

Ltac use L := intros w Hw unit Hu;
  first [exact (L w Hw unit Hu) | exact (L w Hw unit) | exact (L w unit Hu) | exact (L w unit) | exact (L w Hw) | exact (L w)].

(* the per-second borrowing factor (exponent formula or kink model) is an unsigned machine number *)
Theorem c13_factor_per_second_unsigned : forall w, 1 <= w -> forall unit, 0 < unit -> forall c e l f,
  bfps w unit c e l = Ok f -> 0 <= f < 2 ^ w.
Proof. use bfps_range. Qed.

(* UpdateBorrowingState: both cumulative factors are >= their previous values; total_borrowing and
   everything else in the projection is untouched; the report tells the new factors *)
Theorem c13_cum_factor_monotone : forall w, 1 <= w -> forall unit, 0 < unit -> forall c e s now d nl ns s',
  cum_ok w s -> execute w unit c e s now = Ok (d, nl, ns, s') ->
  cum_l s <= cum_l s' /\ cum_s s <= cum_s s' /\ cum_ok w s' /\
  tb_l s' = tb_l s /\ tb_s s' = tb_s s /\ b_clock s' = now /\
  nl = cum_l s' /\ ns = cum_s s' /\ d = Z.max 0 (now - b_clock s).
Proof. use execute_monotone. Qed.

(* a position size change settles the position at the current cumulative factor and moves the
   side's total_borrowing by exactly floor(new*F/unit) - floor(old*bf/unit) *)
Theorem c13_position_change_exact : forall w, 1 <= w -> forall unit, 0 < unit -> forall s x n s' x',
  0 <= x_size x -> 0 <= x_bf x -> 0 <= n -> 0 <= cum s (x_long x) ->
  pos_change w unit s x n = Ok (s', x') ->
  x' = BP (x_long x) n (cum s (x_long x)) /\
  s' = set_tb s (x_long x) (tb s (x_long x) + n * cum s (x_long x) / unit - x_size x * x_bf x / unit) /\
  0 <= tb s' (x_long x) < 2 ^ w.
Proof. use pos_change_spec. Qed.

(* Histories: for every interleaving of borrowing updates (any times, any market quantities) and
   position size changes (any positions, any new sizes), failed operations changing nothing:
     total_borrowing[side] = sum over positions of floor(size * factor-at-last-settle / unit)   (exactly)
     every position's factor <= the side's cumulative factor
     the cumulative factors are >= their initial values. *)
Theorem c13_total_borrowing_exact_over_histories : forall w, 1 <= w -> forall unit, 0 < unit -> forall c ops,
  Forall op_ok ops -> forall st, inv w unit st ->
  let st' := hrun w unit c st ops in
  inv w unit st' /\ cum_l (fst st) <= cum_l (fst st') /\ cum_s (fst st) <= cum_s (fst st').
Proof. use history_inv. Qed.

(* "up to per-position rounding" against the un-rounded sum *)
Theorem c13_total_borrowing_rounding : forall w, 1 <= w -> forall unit, 0 < unit -> forall s xs l,
  inv w unit (s, xs) ->
  unit * tb s l <= zsum (exact l) xs <= unit * tb s l + (unit - 1) * zsum (one l) xs.
Proof. use total_borrowing_rounding. Qed.

(* total_pending_borrowing_fees: given the side's open interest is the sum of its position sizes
   (property C07), the subtraction never fails and the result is >= 0; the only failures are a
   failing per-second factor / factor overflow (next_cum) or an overflow of floor(OI*F/unit). *)
Theorem c13_pending_borrowing_defined_nonneg : forall w, 1 <= w -> forall unit, 0 < unit -> forall c e s xs l now,
  inv w unit (s, xs) -> e_oi e l = zsum (sizeof l) xs ->
  match total_pending w unit c e s l now with
  | Ok v => exists F d, next_cum w unit c e s l (elapsed s now) = Ok (F, d) /\ cum s l <= F /\
                        v = e_oi e l * F / unit - tb s l /\ 0 <= v
  | Err k => k <> 1 \/ (exists k', next_cum w unit c e s l (elapsed s now) = Err k') \/
             (exists F d, next_cum w unit c e s l (elapsed s now) = Ok (F, d) /\ 2 ^ w <= e_oi e l * F / unit)
  end.
Proof. use total_pending_nonneg. Qed.

Theorem c13_history_pending_borrowing_nonneg : forall w, 1 <= w -> forall unit, 0 < unit -> forall c ops st e l now,
  Forall op_ok ops -> inv w unit st ->
  let st' := hrun w unit c st ops in
  e_oi e l = zsum (sizeof l) (snd st') ->
  match total_pending w unit c e (fst st') l now with
  | Ok v => 0 <= v
  | Err k => k <> 1 \/ (exists k', next_cum w unit c e (fst st') l (elapsed (fst st') now) = Err k') \/
             (exists F d, next_cum w unit c e (fst st') l (elapsed (fst st') now) = Ok (F, d) /\ 2 ^ w <= e_oi e l * F / unit)
  end.
Proof. use history_total_pending_nonneg. Qed.

(* a position's own pending borrowing fee: floor(size*(F - bf)/unit) >= 0, fails only on overflow *)
Theorem c13_position_pending_nonneg : forall w, 1 <= w -> forall unit, 0 < unit -> forall s xs x,
  inv w unit (s, xs) -> In x xs ->
  match pos_pending w unit s x with
  | Ok v => v = x_size x * (cum s (x_long x) - x_bf x) / unit /\ 0 <= v
  | Err k => k = 1 /\ 2 ^ w <= x_size x * (cum s (x_long x) - x_bf x) / unit
  end.
Proof. use pos_pending_nonneg. Qed.

Theorem c13_history_position_pending_nonneg : forall w, 1 <= w -> forall unit, 0 < unit -> forall c ops st x,
  Forall op_ok ops -> inv w unit st ->
  let st' := hrun w unit c st ops in
  In x (snd st') ->
  match pos_pending w unit (fst st') x with
  | Ok v => 0 <= v
  | Err k => k = 1 /\ 2 ^ w <= x_size x * (cum (fst st') (x_long x) - x_bf x) / unit
  end.
Proof. use history_pos_pending_nonneg. Qed.

(* ---- non-vacuity ---- *)
Definition ex_cfg : bcfg := BC (10^9) (10^9) 28 28 true 750000000 19 47 750000000 19 47 (10^9) false (2^64 - 1).
Definition ex_env : benv := BE 400000000000 123 (50000 * 10^9) (20000 * 10^9) 1000000000000 100000000000000 123 1.
Definition ex_st : bstate * list bpos := (BS 1000 2000 0 0 100, [BP true 0 0; BP false 0 0; BP true 0 0]).
Definition ex_ops : list bop :=
  [OPos 0%nat (50000 * 10^9 + 7); OUpd 5000 ex_env; OPos 2%nat (333 * 10^9 + 1); OPos 1%nat (20000 * 10^9);
   OUpd 90000 ex_env; OPos 0%nat (25000 * 10^9 + 3); OUpd 90500 ex_env; OPos 2%nat 0].

Example c13_ex_inv : inv 64 (10^9) ex_st.
Proof. unfold inv, ex_st, cum_ok, pos_wf; cbn. repeat split; try lia; repeat constructor; cbn; lia. Qed.
Example c13_ex_bfps : bfps 64 (10^9) ex_cfg ex_env true = Ok 7 /\ bfps 64 (10^9) ex_cfg ex_env false = Ok 0.
Proof. vm_compute. split; reflexivity. Qed.
Example c13_ex_hist : hrun 64 (10^9) ex_cfg ex_st ex_ops =
  (BS 633800 2000 15757500000 40000000 90500, [BP true (25000 * 10^9 + 3) 630300; BP false (20000 * 10^9) 2000; BP true 0 633800]).
Proof. vm_compute. reflexivity. Qed.
