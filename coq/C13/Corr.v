(* C13 — correspondence and oracle predicates for harness/src/bin/c13.rs.  Model.v only. *)
From GV Require Import lib.Base C01.Model.
From GV Require Export C13.Model.   (* case terms mention BC, BE, BS, BP *)
Open Scope Z_scope.

(* observed steps of a history (see c13.rs); states are projections read back from the real market:
   Upd now e r s'        : market.now := now; real update_borrowing(prices).execute();
                           e = quantities the per-second factor reads (taken from the market before the
                           call); r = Ok (duration, next long, next short) | Err kind; s' read back
                           (snapshot restored after a failed action)
   PosOp i inc ok x' s'  : real IncreasePosition (inc = true) / DecreasePosition on position i;
                           ok = it succeeded; x', s' = projections read back afterwards
   TPend l now e nc r    : nc = real next_cumulative_borrowing_factor(l, prices, passed seconds),
                           r = real total_pending_borrowing_fees(prices, l)
   PPend i r             : real pending_borrowing_fee_value of position i *)
Inductive obs :=
| Upd (now : Z) (e : benv) (r : res (Z * Z * Z)) (s' : bstate)
| PosOp (i : nat) (inc ok : bool) (x' : bpos) (s' : bstate)
| TPend (is_long : bool) (now : Z) (e : benv) (nc : res (Z * Z)) (r : res Z)
| PPend (i : nat) (r : res Z).

Inductive case :=
| Bfps (w dec : Z) (c : bcfg) (e : benv) (is_long : bool) (r : res Z)
| Hist (w dec : Z) (c : bcfg) (s0 : bstate) (xs0 : list bpos) (ops : list obs).

Definition rz_eqb (a b : res Z) : bool :=
  match a, b with Ok x, Ok y => x =? y | Err x, Err y => x =? y | _, _ => false end.
Definition rzz_eqb (a b : res (Z * Z)) : bool :=
  match a, b with Ok (x1, x2), Ok (y1, y2) => (x1 =? y1) && (x2 =? y2) | Err x, Err y => x =? y | _, _ => false end.
Definition bstate_eqb (a b : bstate) : bool :=
  (cum_l a =? cum_l b) && (cum_s a =? cum_s b) && (tb_l a =? tb_l b) && (tb_s a =? tb_s b) && (b_clock a =? b_clock b).
Definition bpos_eqb (a b : bpos) : bool :=
  Bool.eqb (x_long a) (x_long b) && (x_size a =? x_size b) && (x_bf a =? x_bf b).
Definition dflt : bpos := BP true 0 0.

Fixpoint corr_ops (w unit : Z) (c : bcfg) (s : bstate) (xs : list bpos) (ops : list obs) : bool :=
  match ops with
  | [] => true
  | Upd now e r s' :: rest =>
      match execute w unit c e s now, r with
      | Ok (d, nl, ns, sm), Ok (d', nl', ns') =>
          (d =? d') && (nl =? nl') && (ns =? ns') && bstate_eqb sm s' && corr_ops w unit c sm xs rest
      | Err k, Err k' => (k =? k') && bstate_eqb s s' && corr_ops w unit c s xs rest
      | _, _ => false
      end
  | PosOp i inc ok x' s' :: rest =>
      if ok then
        match pos_change w unit s (nth i xs dflt) (x_size x') with
        | Ok (sm, xm) => bstate_eqb sm s' && bpos_eqb xm x' && corr_ops w unit c sm (set_nth xs i xm) rest
        | Err _ => false
        end
      else bstate_eqb s s' && bpos_eqb (nth i xs dflt) x' && corr_ops w unit c s xs rest
  | TPend l now e nc r :: rest =>
      rzz_eqb (next_cum w unit c e s l (elapsed s now)) nc
      && rz_eqb (total_pending w unit c e s l now) r && corr_ops w unit c s xs rest
  | PPend i r :: rest => rz_eqb (pos_pending w unit s (nth i xs dflt)) r && corr_ops w unit c s xs rest
  end.

Definition corr_b (c : case) : bool :=
  match c with
  | Bfps w dec c e l r => rz_eqb (bfps w (10 ^ dec) c e l) r
  | Hist w dec c s0 xs0 ops => corr_ops w (10 ^ dec) c s0 xs0 ops
  end.

(* ---------------- the property, on the implementation's outputs ---------------- *)
(* total_borrowing of a side = sum over its positions of floor(size * factor-at-last-settle / unit) *)
Fixpoint sum_borrow (unit : Z) (l : bool) (xs : list bpos) : Z :=
  match xs with
  | [] => 0
  | x :: r => (if Bool.eqb (x_long x) l then x_size x * x_bf x / unit else 0) + sum_borrow unit l r
  end.
Fixpoint sum_size (l : bool) (xs : list bpos) : Z :=
  match xs with
  | [] => 0
  | x :: r => (if Bool.eqb (x_long x) l then x_size x else 0) + sum_size l r
  end.
Definition settled_ok (s : bstate) (xs : list bpos) : bool :=
  forallb (fun x => (0 <=? x_bf x) && (x_bf x <=? cum s (x_long x)) && (0 <=? x_size x)) xs.
Definition inv_ok (unit : Z) (s : bstate) (xs : list bpos) : bool :=
  (tb_l s =? sum_borrow unit true xs) && (tb_s s =? sum_borrow unit false xs) && settled_ok s xs.

Fixpoint oracle_ops (w unit : Z) (s : bstate) (xs : list bpos) (ops : list obs) : bool :=
  match ops with
  | [] => true
  | Upd now e r s' :: rest =>
      match r with
      | Ok (d, nl, ns) =>
          (cum_l s <=? cum_l s') && (cum_s s <=? cum_s s')                 (* cumulative factors never decrease *)
          && (nl =? cum_l s') && (ns =? cum_s s') && (d =? Z.max 0 (now - b_clock s))
          && (tb_l s' =? tb_l s) && (tb_s s' =? tb_s s) && (b_clock s' =? now)
          && ((0 <? d) || ((cum_l s' =? cum_l s) && (cum_s s' =? cum_s s)))
      | Err _ => bstate_eqb s s'
      end
      && inv_ok unit s' xs && oracle_ops w unit s' xs rest
  | PosOp i inc ok x' s' :: rest =>
      let xs' := if ok then set_nth xs i x' else xs in
      (if ok then (x_bf x' =? cum s (x_long x')) && Bool.eqb (x_long x') (x_long (nth i xs dflt))
                  && (cum_l s' =? cum_l s) && (cum_s s' =? cum_s s)
       else bstate_eqb s s' && bpos_eqb (nth i xs dflt) x')
      && inv_ok unit s' xs' && oracle_ops w unit s' xs' rest
  | TPend l now e nc r :: rest =>
      (* open interest of the side = sum of its position sizes (property C07; the driver tracks every position) *)
      (e_oi e l =? sum_size l xs)
      && match nc with
         | Ok (f, d) =>
             (cum s l <=? f) &&
             let t := e_oi e l * f / unit in
             if t <? 2 ^ w then match r with Ok v => (0 <=? v) && (v =? t - tb s l) | Err _ => false end
             else match r with Ok _ => false | Err _ => true end
         | Err _ => match r with Ok _ => false | Err _ => true end
         end
      && oracle_ops w unit s xs rest
  | PPend i r :: rest =>
      let x := nth i xs dflt in
      let v := x_size x * (cum s (x_long x) - x_bf x) / unit in
      (x_bf x <=? cum s (x_long x))
      && (if v <? 2 ^ w then match r with Ok v' => (0 <=? v') && (v' =? v) | Err _ => false end
          else match r with Ok _ => false | Err _ => true end)
      && oracle_ops w unit s xs rest
  end.

Definition oracle_b (c : case) : bool :=
  match c with
  | Bfps w dec c e l r => match r with Ok f => (0 <=? f) && (f <? 2 ^ w) | Err _ => true end
  | Hist w dec c s0 xs0 ops => inv_ok (10 ^ dec) s0 xs0 && oracle_ops w (10 ^ dec) s0 xs0 ops
  end.

Definition known_b (c : case) : Z := 0.
