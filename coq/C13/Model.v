(* C13 — model of
     crates/model/src/market/borrowing.rs
        BorrowingFeeMarketExt::{borrowing_factor_per_second, next_cumulative_borrowing_factor,
                                total_pending_borrowing_fees}
     crates/model/src/params/fee.rs   BorrowingFeeKinkModelParams::borrowing_factor_per_second
     crates/model/src/market/utils.rs MarketUtils::usage_factor
     crates/model/src/market/base.rs  reserved_value, pool_value_without_pnl_for_one_side
     crates/model/src/action/update_borrowing_state.rs  UpdateBorrowingState::execute
     crates/model/src/position.rs     PositionMutExt::update_total_borrowing,
                                      PositionExt::pending_borrowing_fee_value
   and of the borrowing-relevant projection of IncreasePosition / DecreasePosition
   (update_total_borrowing before the size change, then borrowing_factor := cumulative factor).
   Parametric in the bit width [w] and [unit] = 10^DECIMALS.  Definitions only.

   Error kinds: 1 = Computation(_), 3 = Convert, 5 = Overflow,
                6 = UnableToGetBorrowingFactorEmptyPoolValue, 7 = no such position (model only). *)
From GV Require Import lib.Base C01.Model.
Open Scope Z_scope.

(* configuration read by the per-second factor *)
Record bcfg := BC {
  b_exp_l : Z; b_exp_s : Z;            (* BorrowingFeeParams exponent_for_long / short *)
  b_fac_l : Z; b_fac_s : Z;            (* factor_for_long / short *)
  b_skip : bool;                       (* skip_borrowing_fee_for_smaller_side *)
  k_opt_l : Z; k_base_l : Z; k_above_l : Z;   (* kink model, long side *)
  k_opt_s : Z; k_base_s : Z; k_above_s : Z;   (* kink model, short side *)
  b_oi_reserve : Z;                    (* open_interest_reserve_factor *)
  b_ignore_oi : bool;                  (* ignore_open_interest_for_usage_factor *)
  b_max_oi : Z }.                      (* max_open_interest (both sides) *)

(* market quantities read by the per-second factor at the time of an update *)
Record benv := BE {
  e_oit_long : Z;      (* long open interest in tokens (both collaterals) *)
  e_idx_max : Z;       (* index token price, max *)
  e_oi_l : Z;          (* long open interest in usd (both collaterals) *)
  e_oi_s : Z;          (* short open interest in usd *)
  e_pool_l : Z;        (* liquidity pool long token amount *)
  e_pool_s : Z;        (* liquidity pool short token amount *)
  e_pl_min : Z;        (* long token price, min *)
  e_ps_min : Z }.      (* short token price, min *)

(* borrowing projection of the market and of a position *)
Record bstate := BS { cum_l : Z; cum_s : Z; tb_l : Z; tb_s : Z; b_clock : Z }.
Record bpos := BP { x_long : bool; x_size : Z; x_bf : Z }.

Definition cum (s : bstate) (is_long : bool) : Z := if is_long then cum_l s else cum_s s.
Definition tb (s : bstate) (is_long : bool) : Z := if is_long then tb_l s else tb_s s.
Definition set_cum (s : bstate) (is_long : bool) (v : Z) : bstate :=
  if is_long then BS v (cum_s s) (tb_l s) (tb_s s) (b_clock s) else BS (cum_l s) v (tb_l s) (tb_s s) (b_clock s).
Definition set_tb (s : bstate) (is_long : bool) (v : Z) : bstate :=
  if is_long then BS (cum_l s) (cum_s s) v (tb_s s) (b_clock s) else BS (cum_l s) (cum_s s) (tb_l s) v (b_clock s).
Definition e_oi (e : benv) (is_long : bool) : Z := if is_long then e_oi_l e else e_oi_s e.

Section C13.
  Variable w : Z.
  Variable unit : Z.

  (* MarketUtils::usage_factor *)
  Definition usage_factor (c : bcfg) (e : benv) (is_long : bool) (reserved pool_value : Z) : res Z :=
    maxres <-- of_opt 1 (apply_factor w unit pool_value (b_oi_reserve c)) ;;
    ruf <-- of_opt 1 (div_to_factor w unit reserved maxres false) ;;
    if b_ignore_oi c then Ok ruf else
    oiuf <-- of_opt 1 (div_to_factor w unit (e_oi e is_long) (b_max_oi c) false) ;;
    Ok (if oiuf <? ruf then ruf else oiuf).

  (* BorrowingFeeKinkModelParams::borrowing_factor_per_second : Ok None = model not configured *)
  Definition kink (c : bcfg) (e : benv) (is_long : bool) (reserved pool_value : Z) : res (option Z) :=
    let opt := if is_long then k_opt_l c else k_opt_s c in
    let base := if is_long then k_base_l c else k_base_s c in
    let above := if is_long then k_above_l c else k_above_s c in
    if opt =? 0 then Ok None else
    usage <-- usage_factor c e is_long reserved pool_value ;;
    b <-- of_opt 1 (apply_factor w unit usage base) ;;
    if (opt <? usage) && (opt <? unit) then
      diff <-- of_opt 1 (usub w usage opt) ;;
      add <-- (if base <? above then of_opt 1 (usub w above base) else Ok 0) ;;
      divisor <-- of_opt 1 (usub w unit opt) ;;
      r <-- of_opt 1 (a <- mul_div w add diff divisor ;; uadd w b a) ;;
      Ok (Some r)
    else Ok (Some b).

  (* BorrowingFeeMarketExt::borrowing_factor_per_second *)
  Definition bfps (c : bcfg) (e : benv) (is_long : bool) : res Z :=
    reserved <-- (if is_long then of_opt 5 (umul w (e_oit_long e) (e_idx_max e)) else Ok (e_oi_s e)) ;;
    if reserved =? 0 then Ok 0 else
    if b_skip c && ((is_long && (e_oi_l e <? e_oi_s e)) || (negb is_long && (e_oi_s e <? e_oi_l e))) then Ok 0 else
    pool_value <-- of_opt 5 (if is_long then umul w (e_pool_l e) (e_pl_min e) else umul w (e_pool_s e) (e_ps_min e)) ;;
    if pool_value =? 0 then Err 6 else
    k <-- kink c e is_long reserved pool_value ;;
    match k with
    | Some f => Ok f
    | None =>
        rae <-- of_opt 1 (apply_exponent_factor w unit reserved (if is_long then b_exp_l c else b_exp_s c)) ;;
        rtp <-- of_opt 1 (div_to_factor w unit rae pool_value false) ;;
        of_opt 1 (apply_factor w unit rtp (if is_long then b_fac_l c else b_fac_s c))
    end.

  (* next_cumulative_borrowing_factor -> (next, delta) *)
  Definition next_cum (c : bcfg) (e : benv) (s : bstate) (is_long : bool) (dur : Z) : res (Z * Z) :=
    f <-- bfps c e is_long ;;
    delta <-- of_opt 1 (umul w f dur) ;;
    nx <-- of_opt 1 (uadd w (cum s is_long) delta) ;;
    Ok (nx, delta).

  Definition pool_apply (p d : Z) : res Z :=
    if 0 <? d then of_opt 5 (uadd w p (Z.abs d)) else of_opt 1 (usub w p (Z.abs d)).

  (* UpdateBorrowingState::execute_one_side *)
  Definition exec_side (c : bcfg) (e : benv) (s : bstate) (is_long : bool) (dur : Z) : res (Z * bstate) :=
    r <-- next_cum c e s is_long dur ;;
    ds <-- of_opt 3 (to_signed w (snd r)) ;;
    v <-- pool_apply (cum s is_long) ds ;;
    Ok (fst r, set_cum s is_long v).

  Definition elapsed (s : bstate) (now : Z) : Z := Z.max 0 (now - b_clock s).

  (* UpdateBorrowingState::execute at time [now] -> ((duration, next long, next short), state) *)
  Definition execute (c : bcfg) (e : benv) (s : bstate) (now : Z) : res (Z * Z * Z * bstate) :=
    let dur := elapsed s now in
    let s0 := BS (cum_l s) (cum_s s) (tb_l s) (tb_s s) now in
    r1 <-- exec_side c e s0 true dur ;;
    r2 <-- exec_side c e (snd r1) false dur ;;
    Ok (dur, fst r1, fst r2, snd r2).

  (* PositionMutExt::update_total_borrowing followed by the size / factor assignment of
     IncreasePosition::execute (lines 487-519) and DecreasePosition::execute (611-664) *)
  Definition pos_change (s : bstate) (x : bpos) (new_size : Z) : res (bstate * bpos) :=
    prev <-- of_opt 1 (apply_factor w unit (x_size x) (x_bf x)) ;;
    let f := cum s (x_long x) in
    nxt <-- of_opt 1 (apply_factor w unit new_size f) ;;
    delta <-- of_opt 3 (signed_sub w nxt prev) ;;
    t <-- pool_apply (tb s (x_long x)) delta ;;
    Ok (set_tb s (x_long x) t, BP (x_long x) new_size f).

  (* BorrowingFeeMarketExt::total_pending_borrowing_fees at time [now] (clock not advanced) *)
  Definition total_pending (c : bcfg) (e : benv) (s : bstate) (is_long : bool) (now : Z) : res Z :=
    r <-- next_cum c e s is_long (elapsed s now) ;;
    of_opt 1 (t <- apply_factor w unit (e_oi e is_long) (fst r) ;; usub w t (tb s is_long)).

  (* PositionExt::pending_borrowing_fee_value *)
  Definition pos_pending (s : bstate) (x : bpos) : res Z :=
    d <-- of_opt 1 (usub w (cum s (x_long x)) (x_bf x)) ;;
    of_opt 1 (apply_factor w unit (x_size x) d).

  (* ---- histories ---- *)
  Inductive bop :=
  | OUpd (now : Z) (e : benv)           (* update_borrowing_state; a failed update changes nothing *)
  | OPos (i : nat) (new_size : Z).      (* position i increased / decreased to new_size; a failed action changes nothing *)

  Fixpoint set_nth {A} (l : list A) (i : nat) (v : A) : list A :=
    match l, i with
    | [], _ => []
    | _ :: r, O => v :: r
    | x :: r, S j => x :: set_nth r j v
    end.

  Definition hstep (c : bcfg) (st : bstate * list bpos) (o : bop) : bstate * list bpos :=
    let '(s, xs) := st in
    match o with
    | OUpd now e => match execute c e s now with Ok (_, s') => (s', xs) | Err _ => (s, xs) end
    | OPos i n =>
        match nth_error xs i with
        | None => (s, xs)
        | Some x => match pos_change s x n with
                    | Ok (s', x') => (s', set_nth xs i x')
                    | Err _ => (s, xs)
                    end
        end
    end.
  Definition hrun (c : bcfg) st ops := fold_left (hstep c) ops st.
End C13.
