(* C13 — histories, pending borrowing fees, rounding bound. *)
From GV Require Import lib.Base lib.DivLemmas C01.Model C01.Proofs FB.ResLemmas C13.Model C13.Proofs.
Open Scope Z_scope.
Ltac Zify.zify_post_hook ::= Z.div_mod_to_equations.

Section H.
  Variable w : Z.
  Hypothesis Hw : 1 <= w.
  Variable unit : Z.
  Hypothesis Hunit : 0 < unit.

  Let P2 : 0 < 2 ^ w. Proof. apply pow2_pos; lia. Qed.

  (* over any history of updates and position size changes the invariant holds and the
     cumulative factors are >= their initial values *)
  Theorem history_inv c ops : Forall op_ok ops -> forall st, inv w unit st ->
    let st' := hrun w unit c st ops in
    inv w unit st' /\ cum_l (fst st) <= cum_l (fst st') /\ cum_s (fst st) <= cum_s (fst st').
  Proof.
    induction 1 as [|o ops Ho _ IH]; intros st Hi; cbn.
    - split; [exact Hi|lia].
    - pose proof (hstep_inv w Hw unit Hunit c st o Ho Hi) as H1. cbv zeta in H1. destruct H1 as (J & L1 & L2).
      specialize (IH _ J). cbv zeta in IH. destruct IH as (K & M1 & M2).
      unfold hrun in *. split; [exact K|lia].
  Qed.

  (* sum of per-position floors <= floor of (sum of sizes) * F, for any F above every position's factor *)
  Lemma zsum_contrib_le_floor l F xs : 0 <= F ->
    Forall (fun x => 0 <= x_size x /\ 0 <= x_bf x /\ (x_long x = l -> x_bf x <= F)) xs ->
    zsum (contrib unit l) xs <= zsum (sizeof l) xs * F / unit /\ 0 <= zsum (sizeof l) xs /\
    0 <= zsum (contrib unit l) xs.
  Proof.
    intros HF. induction 1 as [|x r (Hs & Hb & Hle) _ IH]; cbn [zsum].
    - rewrite Z.mul_0_l, Z.div_0_l by lia. lia.
    - destruct IH as (IH1 & IH2 & IH3). unfold contrib at 1 3, sizeof at 1 3.
      destruct (Bool.eqb (x_long x) l) eqn:E.
      + apply eqb_prop in E. specialize (Hle E).
        assert (0 <= x_size x * x_bf x / unit) by (apply div_nonneg; nia).
        assert (x_size x * x_bf x / unit <= x_size x * F / unit) by (apply div_mono_num; [lia|nia]).
        pose proof (div_add_super (x_size x * F) (zsum (sizeof l) r * F) unit Hunit) as HS.
        replace (x_size x * F + zsum (sizeof l) r * F) with ((x_size x + zsum (sizeof l) r) * F) in HS by ring.
        lia.
      + rewrite !Z.add_0_l. auto.
  Qed.

  (* ---- total_pending_borrowing_fees ---- *)
  (* OI hypothesis (property C07): the side's open interest is the sum of its position sizes *)
  Theorem total_pending_nonneg c e s xs l now : inv w unit (s, xs) ->
    e_oi e l = zsum (sizeof l) xs ->
    match total_pending w unit c e s l now with
    | Ok v => exists F d, next_cum w unit c e s l (elapsed s now) = Ok (F, d) /\ cum s l <= F /\
                          v = e_oi e l * F / unit - tb s l /\ 0 <= v
    | Err k => k <> 1 \/ (exists k', next_cum w unit c e s l (elapsed s now) = Err k') \/
               (exists F d, next_cum w unit c e s l (elapsed s now) = Ok (F, d) /\ 2 ^ w <= e_oi e l * F / unit)
    end.
  Proof.
    intros (T1 & T2 & F & C) Hoi. unfold total_pending.
    destruct (next_cum w unit c e s l (elapsed s now)) as [[nx d]|k] eqn:E; cbn [rbind].
    2:{ right. left. eauto. }
    pose proof E as E'. apply next_cum_spec in E'; [|assumption|unfold elapsed; lia].
    destruct E' as (D1 & -> & D3). cbn [fst].
    assert (HC : 0 <= cum s l) by (destruct C; unfold cum; destruct l; lia).
    assert (HB : zsum (contrib unit l) xs <= zsum (sizeof l) xs * (cum s l + d) / unit /\ 0 <= zsum (sizeof l) xs /\
                 0 <= zsum (contrib unit l) xs).
    { apply zsum_contrib_le_floor; [lia|]. eapply Forall_impl; [|exact F].
      intros x (A1 & A2 & A3). repeat split; try lia. intros <-. lia. }
    assert (HT : tb s l = zsum (contrib unit l) xs) by (unfold tb; destruct l; assumption).
    destruct (apply_factor w unit (e_oi e l) (cum s l + d)) as [t|] eqn:Ea; cbn [obind of_opt].
    - apply apply_factor_exact in Ea; [|lia..]. destruct Ea as [-> Hlt].
      destruct (usub w (e_oi e l * (cum s l + d) / unit) (tb s l)) as [v|] eqn:Eu; cbn [of_opt].
      + apply usub_some in Eu. destruct Eu as [Eu ->]. exists (cum s l + d), d. repeat split; try lia; reflexivity.
      + exfalso. apply chk_u_none in Eu. rewrite Hoi, HT in *. lia.
    - right. right. exists (cum s l + d), d. split; [reflexivity|].
      unfold apply_factor in Ea. apply mul_div_none in Ea; lia.
  Qed.

  (* ---- a position's pending borrowing fee ---- *)
  Theorem pos_pending_nonneg s xs x : inv w unit (s, xs) -> In x xs ->
    match pos_pending w unit s x with
    | Ok v => v = x_size x * (cum s (x_long x) - x_bf x) / unit /\ 0 <= v
    | Err k => k = 1 /\ 2 ^ w <= x_size x * (cum s (x_long x) - x_bf x) / unit
    end.
  Proof.
    intros (_ & _ & F & C) Hin. rewrite Forall_forall in F. destruct (F x Hin) as (Hs & Hb1 & Hb2).
    assert (HC : cum s (x_long x) < 2 ^ w) by (destruct C; unfold cum; destruct (x_long x); lia).
    unfold pos_pending.
    replace (usub w (cum s (x_long x)) (x_bf x)) with (Some (cum s (x_long x) - x_bf x))
      by (symmetry; apply usub_some; lia).
    cbn [of_opt rbind].
    destruct (apply_factor w unit (x_size x) (cum s (x_long x) - x_bf x)) as [v|] eqn:E; cbn [of_opt].
    - apply apply_factor_exact in E; [|lia..]. destruct E as [-> _]. split; [reflexivity|]. apply div_nonneg; nia.
    - split; [reflexivity|]. unfold apply_factor in E. apply mul_div_none in E; lia.
  Qed.

  (* ---- "up to per-position rounding":
          unit*total <= sum size*factor <= unit*total + (unit-1) * #positions of the side ---- *)
  Theorem total_borrowing_rounding s xs l : inv w unit (s, xs) ->
    unit * tb s l <= zsum (exact l) xs <= unit * tb s l + (unit - 1) * zsum (one l) xs.
  Proof.
    intros (T1 & T2 & F & C).
    assert (HT : tb s l = zsum (contrib unit l) xs) by (unfold tb; destruct l; assumption).
    rewrite HT. clear T1 T2 HT C.
    induction F as [|x r (Hs & Hb & _) _ IH]; cbn [zsum].
    - lia.
    - unfold contrib, exact, one in *. destruct (Bool.eqb (x_long x) l).
      + pose proof (div_floor_spec (x_size x * x_bf x) unit Hunit). nia.
      + lia.
  Qed.

  (* at every point of every history *)
  Corollary history_total_pending_nonneg c ops st e l now : Forall op_ok ops -> inv w unit st ->
    let st' := hrun w unit c st ops in
    e_oi e l = zsum (sizeof l) (snd st') ->
    match total_pending w unit c e (fst st') l now with
    | Ok v => 0 <= v
    | Err k => k <> 1 \/ (exists k', next_cum w unit c e (fst st') l (elapsed (fst st') now) = Err k') \/
               (exists F d, next_cum w unit c e (fst st') l (elapsed (fst st') now) = Ok (F, d) /\ 2 ^ w <= e_oi e l * F / unit)
    end.
  Proof.
    intros Ho Hi st' Hoi. pose proof (history_inv c ops Ho st Hi) as H. cbv zeta in H. fold st' in H.
    destruct H as (J & _). destruct st' as [s' xs'] eqn:Est. cbn [fst snd] in *.
    pose proof (total_pending_nonneg c e s' xs' l now J Hoi) as HP.
    destruct (total_pending w unit c e s' l now) as [v|k]; [|exact HP].
    destruct HP as (F & d & _ & _ & _ & Hv). exact Hv.
  Qed.

  Corollary history_pos_pending_nonneg c ops st x : Forall op_ok ops -> inv w unit st ->
    let st' := hrun w unit c st ops in
    In x (snd st') ->
    match pos_pending w unit (fst st') x with
    | Ok v => 0 <= v
    | Err k => k = 1 /\ 2 ^ w <= x_size x * (cum (fst st') (x_long x) - x_bf x) / unit
    end.
  Proof.
    intros Ho Hi st' Hin. pose proof (history_inv c ops Ho st Hi) as H. cbv zeta in H. fold st' in H.
    destruct H as (J & _). destruct st' as [s' xs'] eqn:Est. cbn [fst snd] in *.
    pose proof (pos_pending_nonneg s' xs' x J Hin) as HP.
    destruct (pos_pending w unit s' x) as [v|k]; [|exact HP]. tauto.
  Qed.
End H.
