(* C07 — effect of the position actions on the open-interest / collateral-sum pools and on the
   position sizes. *)
From GV Require Import lib.Base lib.DivLemmas C01.Model C01.Proofs PS.Model PS.Lemmas PS.Actions PS.Frame C11.Proofs.
Open Scope Z_scope.
Ltac Zify.zify_post_hook ::= Z.div_mod_to_equations.

Definition oi_amt (m : market) (l c : bool) := amount (oi_pool m l) c.
Definition oit_amt (m : market) (l c : bool) := amount (oit_pool m l) c.
Definition cs_amt (m : market) (l c : bool) := amount (cs_pool m l) c.

(* [hit l c l' c' d] = d on the pool (l, c), 0 elsewhere *)
Definition hit (l c l' c' : bool) (d : Z) : Z := if Bool.eqb l l' && Bool.eqb c c' then d else 0.

Lemma view_amts m m' : view m' = view m ->
  m_cfg m' = m_cfg m /\ (forall l c, oi_amt m' l c = oi_amt m l c) /\ (forall l c, oit_amt m' l c = oit_amt m l c)
  /\ (forall l c, cs_amt m' l c = cs_amt m l c).
Proof.
  unfold view. intros H. injection H as H1 H2 H3 H4 H5 H6 H7.
  unfold oi_amt, oit_amt, cs_amt, oi_pool, oit_pool, cs_pool.
  repeat split; try assumption; intros [] c; congruence.
Qed.

Section P.
  Variable w : Z.
  Hypothesis Hw : 1 <= w.
  Variable unit : Z.
  Hypothesis Hunit : 0 < unit.

  Lemma amount_hit p p' l c d :
    amount p' l = amount p l + d -> amount p' (negb l) = amount p (negb l) ->
    amount p' c = amount p c + (if Bool.eqb l c then d else 0).
  Proof. destruct l, c; cbn; intros; lia. Qed.

  Lemma apply_delta_to_oi_spec m l c d m' :
    apply_delta_to_oi w m l c d = Ok m' ->
    m_cfg m' = m_cfg m /\
    (forall l' c', oi_amt m' l' c' = oi_amt m l' c' + hit l c l' c' d) /\
    (forall l' c', oit_amt m' l' c' = oit_amt m l' c') /\ (forall l' c', cs_amt m' l' c' = cs_amt m l' c').
  Proof.
    unfold apply_delta_to_oi. intros H. ok_step H. ok_step H.
    apply pool_apply_spec in E. destruct E as (A1 & A2 & _). clear E0.
    assert (X : m_cfg (set_oi m l x) = m_cfg m /\
      (forall l' c', oi_amt (set_oi m l x) l' c' = oi_amt m l' c' + hit l c l' c' d) /\
      (forall l' c', oit_amt (set_oi m l x) l' c' = oit_amt m l' c') /\
      (forall l' c', cs_amt (set_oi m l x) l' c' = cs_amt m l' c')).
    { split; [destruct l; reflexivity|]. split; [|split; intros [] c'; destruct l; reflexivity].
      intros l' c'. unfold oi_amt, hit.
      destruct l, l'; cbn [oi_pool set_oi m_oi_long m_oi_short Bool.eqb andb];
        try (rewrite Z.add_0_r; reflexivity);
        rewrite (amount_hit _ _ c c' d A1 A2); destruct c, c'; reflexivity. }
    destruct (m_vi_pos m).
    - ok_all H. injection H as <-.
      destruct X as (X1 & X2 & X3 & X4). repeat split; intros; rewrite <- ?X1, <- ?X2, <- ?X3, <- ?X4; destruct l; reflexivity.
    - injection H as <-. exact X.
  Qed.

  Lemma update_open_interest_spec p m a b m' :
    update_open_interest w p m a b = Ok m' -> (a = 0 -> b = 0) ->
    m_cfg m' = m_cfg m /\
    (forall l c, oi_amt m' l c = oi_amt m l c + hit (is_long p) (coll_long p) l c a) /\
    (forall l c, oit_amt m' l c = oit_amt m l c + hit (is_long p) (coll_long p) l c b) /\
    (forall l c, cs_amt m' l c = cs_amt m l c).
  Proof.
    unfold update_open_interest. intros H Hab. destruct (a =? 0) eqn:Ea.
    - injection H as <-. apply Z.eqb_eq in Ea. rewrite Ea, (Hab Ea). unfold hit.
      repeat split; intros; destruct (Bool.eqb (is_long p) l && Bool.eqb (coll_long p) c); lia.
    - ok_step H. ok_step H. injection H as <-.
      apply apply_delta_to_oi_spec in E. destruct E as (X1 & X2 & X3 & X4).
      apply pool_apply_spec in E0. destruct E0 as (A1 & A2 & _).
      split; [destruct (is_long p); exact X1|].
      split; [intros l c; rewrite <- X2; destruct (is_long p), l; reflexivity|].
      split; [|intros l c; rewrite <- X4; destruct (is_long p), l; reflexivity].
      intros l c. rewrite <- X3. unfold oit_amt, hit.
      destruct (is_long p), l; cbn [oit_pool set_oit m_oit_long m_oit_short Bool.eqb andb];
        try (rewrite Z.add_0_r; reflexivity);
        rewrite (amount_hit _ _ _ c b A1 A2); destruct (coll_long p), c; reflexivity.
  Qed.

  Lemma set_cs_amts m l cs :
    m_cfg (set_cs m l cs) = m_cfg m /\
    (forall l' c', oi_amt (set_cs m l cs) l' c' = oi_amt m l' c') /\
    (forall l' c', oit_amt (set_cs m l cs) l' c' = oit_amt m l' c') /\
    (forall l' c', cs_amt (set_cs m l cs) l' c' = if Bool.eqb l l' then amount cs c' else cs_amt m l' c').
  Proof. destruct l; repeat split; intros [] c'; reflexivity. Qed.

  Lemma validate_position_sizes p m pr a b : validate_position w unit p m pr a b = Ok tt ->
    size_usd p <> 0 /\ size_tok p <> 0.
  Proof.
    unfold validate_position. intros H.
    destruct ((size_usd p =? 0) || (size_tok p =? 0)) eqn:E; [discriminate|].
    apply orb_false_iff in E. destruct E as [E1 E2]. apply Z.eqb_neq in E1, E2. split; assumption.
  Qed.

  Lemma increase_effect p m pr ci sd acc p1 m' rep :
    increase w unit p m pr ci sd acc = Ok (p1, m', rep) ->
    is_long p1 = is_long p /\ coll_long p1 = coll_long p /\
    size_usd p1 = size_usd p + sd /\
    size_tok p1 = (if size_usd p =? 0 then 0 else size_tok p) + ir_sdt rep /\
    coll p1 = coll p + ir_coll_delta rep /\
    0 < size_usd p1 /\ 0 < size_tok p1 /\ 0 <= coll p1 /\
    m_cfg m' = m_cfg m /\
    (forall l c, oi_amt m' l c = oi_amt m l c + hit (is_long p) (coll_long p) l c sd) /\
    (forall l c, oit_amt m' l c = oit_amt m l c + hit (is_long p) (coll_long p) l c (ir_sdt rep)) /\
    (forall l c, cs_amt m' l c = cs_amt m l c + hit (is_long p) (coll_long p) l c (ir_coll_delta rep)).
  Proof.
    unfold increase. intros H.
    destruct (negb (prices_valid w pr)); [discriminate|].
    remember (if size_usd p =? 0 then _ else p) as p0 eqn:Hp0 in H.
    assert (P0 : is_long p0 = is_long p /\ coll_long p0 = coll_long p /\ coll p0 = coll p /\ size_usd p0 = size_usd p
                 /\ size_tok p0 = (if size_usd p =? 0 then 0 else size_tok p)).
    { subst p0. destruct (size_usd p =? 0); cbn; repeat split; reflexivity. }
    clear Hp0. destruct P0 as (L0 & C0 & K0 & S0 & T0).
    bind_ok H as ex Eex. destruct ex as [[[[piv pia] sdt] ep] change].
    assert (Hsdt : sd = 0 -> sdt = 0).
    { intros ->. cbn in Eex. injection Eex as _ _ <- _ _. reflexivity. }
    clear Eex.
    bind_ok H as cda0 E1. bind_ok H as fs E2. bind_ok H as tc E3. bind_ok H as tcs E4. bind_ok H as cda E5.
    bind_ok H as fr E6. bind_ok H as frs E7. bind_ok H as m1 E8. bind_ok H as fpl E9. bind_ok H as fps E10.
    bind_ok H as m2 E11. bind_ok H as cs E12. bind_ok H as coll' E13. bind_ok H as npia E14. bind_ok H as m4 E15.
    bind_ok H as next_size E16. bind_ok H as m5 E17. bind_ok H as next_tok E18.
    bind_ok H as sds E19. bind_ok H as sdts E20. bind_ok H as m6 E21.
    bind_ok H as u1 E22. bind_ok H as u2 E23. injection H as <- <- <-.
    cbn [is_long coll_long size_usd size_tok coll ir_sdt ir_coll_delta].
    apply uadd_ok in E16, E18. destruct E16 as [R16 ->]. destruct E18 as [R18 ->].
    destruct u2. apply validate_position_sizes in E23. cbn [size_usd size_tok] in E23.
    assert (Hc : coll' = coll p0 + cda /\ 0 <= coll').
    { destruct (add_with_signed w (coll p0) cda) eqn:EA; [|destruct (0 <? cda); discriminate].
      injection E13 as <-. unfold add_with_signed, uadd, usub in EA.
      destruct (0 <? cda) eqn:Ec; apply chk_u_some in EA; lia. }
    apply rsigned_ok in E19, E20. destruct E19 as [_ ->]. destruct E20 as [_ ->].
    apply update_open_interest_spec in E21; [|exact Hsdt]. cbn [is_long coll_long] in E21.
    destruct E21 as (X1 & X2 & X3 & X4).
    apply pool_apply_spec in E12. destruct E12 as (A1 & A2 & _).
    frame_eqs.
    destruct (set_cs_amts m2 (is_long p0) cs) as (K1 & K2 & K3 & K4).
    apply view_amts in E8, E11, E15, E17.
    destruct E8 as (F1 & F2 & F3 & F4). destruct E11 as (G1 & G2 & G3 & G4).
    destruct E15 as (I1 & I2 & I3 & I4). destruct E17 as (J1 & J2 & J3 & J4).
    rewrite L0, C0 in *. rewrite S0, T0, K0 in *.
    repeat split; try lia.
    - rewrite X1, J1, I1, K1, G1, F1. reflexivity.
    - intros l c. rewrite X2, J2, I2, K2, G2, F2. reflexivity.
    - intros l c. rewrite X3, J3, I3, K3, G3, F3. reflexivity.
    - intros l c. rewrite X4, J4, I4, K4. unfold hit.
      destruct (Bool.eqb (is_long p) l) eqn:El.
      + apply Bool.eqb_prop in El. subst l. unfold cs_amt in *. rewrite <- F4, <- G4.
        rewrite (amount_hit _ _ _ c cda A1 A2). cbn [andb]. reflexivity.
      + cbn [andb]. rewrite G4, F4. lia.
  Qed.

  Lemma ropp_val a r : ropp w a = Ok r -> r = - a.
  Proof.
    unfold ropp. intros H. bind_ok H as x E. apply rsigned_ok in E. destruct E as [_ ->].
    ok_inj H. apply sneg_ok in H. lia.
  Qed.

  Lemma pnl_value_sdt p m pr d a b c : pnl_value w unit p m pr d = Ok (a, b, c) -> size_delta_in_tokens w p d = Ok c.
  Proof.
    unfold pnl_value. intros H. bind_ok H as t Et. bind_ok H as sdt Es. bind_ok H as a' Ea. bind_ok H as b' Eb.
    injection H as _ _ <-. exact Es.
  Qed.

  Lemma sdt_zero p c : 0 < size_usd p -> 0 <= size_tok p -> size_delta_in_tokens w p 0 = Ok c -> c = 0.
  Proof.
    intros HS HT H. unfold size_delta_in_tokens in H.
    replace (size_usd p =? 0) with false in H by (symmetry; apply Z.eqb_neq; lia).
    destruct (is_long p); ok_inj H.
    - apply mul_div_ceil_exact in H; [|lia..]. nia.
    - apply mul_div_floor in H; [|lia..]. nia.
  Qed.

  (* check_partial_close: the executed size delta is either the whole size, or leaves tokens behind *)
  Definition partial_ok (p : position) (sd : Z) : Prop :=
    sd = size_usd p \/ (sd < size_usd p /\ exists t, size_delta_in_tokens w p sd = Ok t /\ t < size_tok p).

  Lemma decrease_effect p m pr sd0 acc cw fl p1 m' rep :
    0 < size_usd p -> 0 < size_tok p -> 0 <= coll p ->
    decrease w unit p m pr sd0 acc cw fl = Ok (p1, m', rep) ->
    is_long p1 = is_long p /\ coll_long p1 = coll_long p /\
    size_usd p1 = size_usd p - dr_size_delta rep /\ size_tok p1 = size_tok p - dr_sdt rep /\
    0 <= coll p1 <= coll p /\
    (dr_remove rep = true -> size_usd p1 = 0 /\ size_tok p1 = 0 /\ coll p1 = 0) /\
    (dr_remove rep = false -> 0 < size_usd p1 /\ 0 < size_tok p1) /\
    m_cfg m' = m_cfg m /\
    (forall l c, oi_amt m' l c = oi_amt m l c + hit (is_long p) (coll_long p) l c (- dr_size_delta rep)) /\
    (forall l c, oit_amt m' l c = oit_amt m l c + hit (is_long p) (coll_long p) l c (- dr_sdt rep)) /\
    (forall l c, cs_amt m' l c = cs_amt m l c + hit (is_long p) (coll_long p) l c (- (coll p - coll p1))).
  Proof.
    intros HS HT HC H. unfold decrease in H.
    destruct (negb (prices_valid w pr)); [discriminate|].
    replace (size_usd p =? 0) with false in H by (symmetry; apply Z.eqb_neq; lia). cbn [andb] in H.
    bind_ok H as sd1 Esd1.
    bind_ok H as pc Epc. destruct pc as [sd wd1].
    assert (Hpart : partial_ok p sd).
    { destruct (sd1 <? size_usd p) eqn:Elt.
      - bind_ok Epc as pn E1. bind_ok Epc as realized E2. bind_ok Epc as remaining E3. bind_ok Epc as nsd E4.
        bind_ok Epc as s5 E5. bind_ok Epc as x6 E6. destruct x6 as [rcv wd1'].
        bind_ok Epc as rv E7. bind_ok Epc as mcv E8. bind_ok Epc as sd3 E9. injection Epc as <- _.
        set (sd2 := if rv <? mcv then size_usd p else sd1) in *.
        destruct (sd2 <? size_usd p) eqn:Elt2.
        + bind_ok E9 as rs E10. bind_ok E9 as small E11. injection E9 as <-.
          destruct small; [left; reflexivity|].
          right. apply Z.ltb_lt in Elt2. split; [exact Elt2|].
          destruct (rs <? pp_min_size (c_pos (m_cfg m))); [discriminate|].
          bind_ok E11 as t E12. injection E11 as E11. exists t. split; [exact E12|]. apply Z.leb_gt in E11. exact E11.
        + injection E9 as <-. left. apply Z.ltb_ge in Elt2. subst sd2.
          destruct (rv <? mcv); [reflexivity|]. apply Z.ltb_lt in Elt. lia.
      - injection Epc as <- _. left. apply Z.ltb_ge in Elt.
        destruct (size_usd p <? sd0) eqn:E0.
        + destruct (fl_cap fl); [injection Esd1 as <-; reflexivity|discriminate].
        + injection Esd1 as <-. apply Z.ltb_ge in E0. lia. }
    clear Epc Esd1.
    bind_ok H as u1 Eliq. clear Eliq.
    bind_ok H as ex Eex. destruct ex as [[[piv change] diff] ep]. clear Eex.
    bind_ok H as pn Epn. destruct pn as [[base_pnl uncapped_pnl] sdt].
    apply pnl_value_sdt in Epn.
    bind_ok H as fs Efs. clear Efs.
    bind_ok H as pr_ Eproc. destruct pr_ as [st step].
    apply process_costs_good in Eproc; [|exact HC]. destruct Eproc as [Vst Cst].
    bind_ok H as wd3 Ewd3. clear Ewd3.
    set (wd := if st_coll st <? wd3 then st_coll st else wd3) in *.
    bind_ok H as x Ex. destruct x as [rem_coll out1].
    assert (Hrem : 0 <= rem_coll).
    { destruct (wd =? 0) eqn:Ew.
      - injection Ex as <- _. exact Cst.
      - bind_ok Ex as o Eo. injection Ex as <- _. subst wd. destruct (st_coll st <? wd3) eqn:E1; [lia|]. apply Z.ltb_ge in E1. lia. }
    clear Ex.
    bind_ok H as next_size Ens. apply usub_ok in Ens. destruct Ens as [Rns ->].
    bind_ok H as m2 Em2.
    bind_ok H as next_tok Ent. apply usub_ok in Ent. destruct Ent as [Rnt ->].
    set (remove := (size_usd p - sd =? 0) || (size_tok p - sdt =? 0)) in *.
    bind_ok H as y Ey. destruct y as [[[ns nt] nc] out2].
    bind_ok H as cdelta Ecd. apply usub_ok in Ecd. destruct Ecd as [Rcd ->].
    bind_ok H as ncd Encd. apply ropp_val in Encd. subst ncd.
    bind_ok H as cs Ecs. apply pool_apply_spec in Ecs. destruct Ecs as (A1 & A2 & _).
    bind_ok H as nsd Ensd. apply ropp_val in Ensd. subst nsd.
    bind_ok H as nsdt Ensdt. apply ropp_val in Ensdt. subst nsdt.
    bind_ok H as m4 Em4.
    bind_ok H as u2 Eval.
    bind_ok H as zz Ez. destruct zz as [out3 sec3]. clear Ez.
    injection H as <- <- <-.
    cbn [is_long coll_long size_usd size_tok coll dr_size_delta dr_sdt dr_remove].
    (* a removal is a close that is full on both dimensions *)
    assert (Hfull : remove = true -> sd = size_usd p /\ sdt = size_tok p).
    { intros Hr. destruct Hpart as [->|(Hlt & t & Et & Htl)].
      - split; [reflexivity|]. unfold size_delta_in_tokens in Epn. rewrite Z.eqb_refl in Epn. injection Epn as <-. reflexivity.
      - rewrite Et in Epn. injection Epn as <-. exfalso. subst remove.
        apply orb_true_iff in Hr. destruct Hr as [Hr|Hr]; apply Z.eqb_eq in Hr; lia. }
    assert (Hzero : - sd = 0 -> - sdt = 0).
    { intros Hz. assert (sd = 0) by lia. subst sd. apply sdt_zero in Epn; lia. }
    apply update_open_interest_spec in Em4; [|exact Hzero]. cbn [is_long coll_long] in Em4.
    destruct Em4 as (X1 & X2 & X3 & X4).
    destruct (set_cs_amts m2 (is_long p) cs) as (K1 & K2 & K3 & K4).
    frame_eqs. apply view_amts in Em2, Vst.
    destruct Em2 as (J1 & J2 & J3 & J4). destruct Vst as (F1 & F2 & F3 & F4).
    assert (Hst : (remove = true /\ ns = 0 /\ nt = 0 /\ nc = 0) \/
                  (remove = false /\ ns = size_usd p - sd /\ nt = size_tok p - sdt /\ nc = rem_coll)).
    { destruct remove.
      - bind_ok Ey as o Eo. injection Ey as <- <- <- _. left. repeat split; reflexivity.
      - injection Ey as <- <- <- _. right. repeat split; reflexivity. }
    assert (Hval : remove = false -> ns <> 0 /\ nt <> 0).
    { intros Hr. rewrite Hr in Eval. destruct u2. apply validate_position_sizes in Eval. exact Eval. }
    clear Eval Ey.
    split; [reflexivity|]. split; [reflexivity|].
    destruct Hst as [(Hr & -> & -> & ->)|(Hr & -> & -> & ->)].
    - destruct (Hfull Hr) as [-> ->].
      split; [lia|]. split; [lia|]. split; [lia|]. split; [intros _; repeat split; reflexivity|].
      split; [intros Hf; rewrite Hr in Hf; discriminate|].
      split; [rewrite X1, K1, J1, F1; reflexivity|].
      split; [intros l c; rewrite X2, K2, J2, F2; reflexivity|].
      split; [intros l c; rewrite X3, K3, J3, F3; reflexivity|].
      intros l c. rewrite X4, K4. unfold hit.
      destruct (Bool.eqb (is_long p) l) eqn:El.
      + apply Bool.eqb_prop in El. subst l. unfold cs_amt in *. rewrite <- F4, <- J4.
        rewrite (amount_hit _ _ _ c _ A1 A2). cbn [andb]. reflexivity.
      + cbn [andb]. rewrite J4, F4. lia.
    - destruct (Hval Hr) as [V1 V2].
      split; [reflexivity|]. split; [reflexivity|]. split; [lia|].
      split; [intros Hf; rewrite Hr in Hf; discriminate|].
      split; [intros _; lia|].
      split; [rewrite X1, K1, J1, F1; reflexivity|].
      split; [intros l c; rewrite X2, K2, J2, F2; reflexivity|].
      split; [intros l c; rewrite X3, K3, J3, F3; reflexivity|].
      intros l c. rewrite X4, K4. unfold hit.
      destruct (Bool.eqb (is_long p) l) eqn:El.
      + apply Bool.eqb_prop in El. subst l. unfold cs_amt in *. rewrite <- F4, <- J4.
        rewrite (amount_hit _ _ _ c _ A1 A2). cbn [andb]. reflexivity.
      + cbn [andb]. rewrite J4, F4. lia.
  Qed.
End P.
