(* C07 — the model lives in PS/Model.v, PS/Actions.v (increase / decrease / liquidation / ADL) and
   PS/Hist.v (worlds, operations, histories); this file only re-exports it. *)
From GV Require Export lib.Base C01.Model PS.Model PS.Actions PS.Hist.
