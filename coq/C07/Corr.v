(* C07 — open interest and collateral totals always match the open positions.
   Case type, model run and correspondence: PS/Hist.v (shared history format).
   The oracle below looks only at the states the IMPLEMENTATION went through. *)
From GV Require Export lib.Base C01.Model PS.Model PS.Actions PS.Hist.
Open Scope Z_scope.

(* sum of a field over the positions of one side / collateral token *)
Definition sum_over (f : position -> Z) (long cl : bool) (ps : list position) : Z :=
  fold_right (fun p acc => if Bool.eqb (is_long p) long && Bool.eqb (coll_long p) cl then f p + acc else acc) 0 ps.

Definition s_oi (s : mstate) (long : bool) := if long then s_oi_long s else s_oi_short s.
Definition s_oit (s : mstate) (long : bool) := if long then s_oit_long s else s_oit_short s.
Definition s_cs (s : mstate) (long : bool) := if long then s_cs_long s else s_cs_short s.

Definition sums_ok_for (wd : world) (long cl : bool) : bool :=
  let '(s, ps) := wd in
  (amount (s_oi s long) cl =? sum_over size_usd long cl ps)
  && (amount (s_oit s long) cl =? sum_over size_tok long cl ps)
  && (amount (s_cs s long) cl =? sum_over coll long cl ps).

(* a stored position is either open on both size dimensions or completely empty *)
Definition pos_shape_ok (p : position) : bool :=
  ((0 <? size_usd p) && (0 <? size_tok p) && (0 <=? coll p))
  || ((size_usd p =? 0) && (size_tok p =? 0) && (coll p =? 0)).

Definition world_ok (wd : world) : bool :=
  sums_ok_for wd true true && sums_ok_for wd true false && sums_ok_for wd false true && sums_ok_for wd false false
  && forallb pos_shape_ok (snd wd).

(* a position reported as removed has zero size and zero collateral *)
Definition removed_ok (out : outcome) : bool :=
  match out with
  | OutDec (Ok (p, _, rep)) => if dr_remove rep then (size_usd p =? 0) && (size_tok p =? 0) && (coll p =? 0) else true
  | OutAdl (Ok (p, _, rep, _, _)) => if dr_remove rep then (size_usd p =? 0) && (size_tok p =? 0) && (coll p =? 0) else true
  | _ => true
  end.

Definition oracle_b (c : case) : bool :=
  match c with
  | Hist w dec cfg s0 ps0 steps =>
      world_ok (s0, ps0)
      && forallb (fun t => let '(_, x, wd') := t in world_ok wd' && removed_ok (snd (fst x))) (impl_trace (s0, ps0) steps)
  end.

Definition known_b (c : case) : Z := 0.
