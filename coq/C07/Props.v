(* C07 — Open interest and collateral totals always match the open positions.
   Statements only; proofs in C07/Proofs.v (effect of one action) and C07/Inv.v (worlds, histories).
   [world_ok] / [removed_ok] are the predicates the oracle of C07/Corr.v evaluates on the states of the
   implementation; [step] / [run] execute the model of PS/Actions.v on a world = market state + list of
   positions, a failed operation (or one on an unknown position id) leaving the world unchanged. *)
From GV Require Import lib.Base C01.Model PS.Model PS.Actions PS.Hist C07.Corr C07.Proofs C07.Inv.
Open Scope Z_scope.

(* 1. one operation — increase, partial or full decrease, liquidation order, ADL order, fee-state update,
      successful or failed — preserves: every side's open interest in USD and in tokens and every collateral
      total equal the sums over the stored positions, and every stored position is open on both size
      dimensions or completely empty *)
Theorem c07_step_preserves_totals : forall w, 1 <= w -> forall unit cfg wd o,
  world_ok wd = true -> world_ok (step w unit cfg wd o) = true.
Proof. intros w Hw unit cfg wd o H. apply world_ok_iff. apply step_inv; [exact Hw|]. apply world_ok_iff. exact H. Qed.

(* 2. any history (any interleaving over any number of positions, any prices and configurations) *)
Theorem c07_history_preserves_totals : forall w, 1 <= w -> forall unit cfg wd ops,
  world_ok wd = true -> world_ok (run w unit cfg wd ops) = true.
Proof. intros w Hw unit cfg wd ops H. apply world_ok_iff. apply history_inv; [exact Hw|]. apply world_ok_iff. exact H. Qed.

(* 3. a position reported as removed has zero size and zero collateral *)
Theorem c07_removed_is_empty : forall w, 1 <= w -> forall unit cfg wd o,
  world_ok wd = true -> op_valid (snd wd) o = true -> removed_ok (run_op w unit cfg wd o) = true.
Proof. intros w Hw unit cfg wd o H V. apply removed_is_empty; [exact Hw| |exact V]. apply world_ok_iff. exact H. Qed.

(* 4. effect of a successful increase on the position and on the pools (exactly the deltas of the report) *)
Theorem c07_increase_effect : forall w, 1 <= w -> forall unit p m pr ci sd acc p1 m' rep,
  increase w unit p m pr ci sd acc = Ok (p1, m', rep) ->
  is_long p1 = is_long p /\ coll_long p1 = coll_long p /\
  size_usd p1 = size_usd p + sd /\
  size_tok p1 = (if size_usd p =? 0 then 0 else size_tok p) + ir_sdt rep /\
  coll p1 = coll p + ir_coll_delta rep /\
  0 < size_usd p1 /\ 0 < size_tok p1 /\ 0 <= coll p1 /\
  m_cfg m' = m_cfg m /\
  (forall l c, oi_amt m' l c = oi_amt m l c + hit (is_long p) (coll_long p) l c sd) /\
  (forall l c, oit_amt m' l c = oit_amt m l c + hit (is_long p) (coll_long p) l c (ir_sdt rep)) /\
  (forall l c, cs_amt m' l c = cs_amt m l c + hit (is_long p) (coll_long p) l c (ir_coll_delta rep)).
Proof. intros w Hw unit. exact (increase_effect w Hw unit). Qed.

(* 5. effect of a successful decrease; in particular a removal is a close that is full on BOTH size
      dimensions (the lemma the source comment in decrease_position/mod.rs argues informally):
      dr_remove -> size_usd p1 = 0 = size_usd p - dr_size_delta and size_tok p1 = 0 = size_tok p - dr_sdt *)
Theorem c07_decrease_effect : forall w, 1 <= w -> forall unit p m pr sd0 acc cw fl p1 m' rep,
  0 < size_usd p -> 0 < size_tok p -> 0 <= coll p ->
  decrease w unit p m pr sd0 acc cw fl = Ok (p1, m', rep) ->
  is_long p1 = is_long p /\ coll_long p1 = coll_long p /\
  size_usd p1 = size_usd p - dr_size_delta rep /\ size_tok p1 = size_tok p - dr_sdt rep /\
  0 <= coll p1 <= coll p /\
  (dr_remove rep = true -> size_usd p1 = 0 /\ size_tok p1 = 0 /\ coll p1 = 0) /\
  (dr_remove rep = false -> 0 < size_usd p1 /\ 0 < size_tok p1) /\
  m_cfg m' = m_cfg m /\
  (forall l c, oi_amt m' l c = oi_amt m l c + hit (is_long p) (coll_long p) l c (- dr_size_delta rep)) /\
  (forall l c, oit_amt m' l c = oit_amt m l c + hit (is_long p) (coll_long p) l c (- dr_sdt rep)) /\
  (forall l c, cs_amt m' l c = cs_amt m l c + hit (is_long p) (coll_long p) l c (- (coll p - coll p1))).
Proof. intros w Hw unit. exact (decrease_effect w Hw unit). Qed.

Theorem c07_promoted_full_close : forall w, 1 <= w -> forall unit p m pr sd0 acc cw fl p1 m' rep,
  0 < size_usd p -> 0 < size_tok p -> 0 <= coll p ->
  decrease w unit p m pr sd0 acc cw fl = Ok (p1, m', rep) -> dr_remove rep = true ->
  dr_size_delta rep = size_usd p /\ dr_sdt rep = size_tok p.
Proof.
  intros w Hw unit p m pr sd0 acc cw fl p1 m' rep HS HT HC H R.
  destruct (decrease_effect w Hw unit _ _ _ _ _ _ _ _ _ _ HS HT HC H) as (_ & _ & U & T & _ & Rm & _).
  destruct (Rm R) as (Z1 & Z2 & _). lia.
Qed.

(* 6. the invariant holds initially: no open interest, empty positions *)
Theorem c07_init : forall prim si fee imp bf tb fal fas cfal cfas vs vp n l c,
  let z := MkPool 0 0 in
  world_ok (MkMState prim si fee z z z z imp bf tb fal fas cfal cfas z z vs vp, repeat (MkPos l c 0 0 0 0 0 0 0) n) = true.
Proof.
  intros. apply world_ok_iff. split.
  - intros l' c'. cbn [fst snd].
    rewrite !sum_over_zero by (intros q Hq; apply repeat_spec in Hq; subst q; reflexivity).
    destruct l', c'; repeat split; reflexivity.
  - cbn [snd]. apply Forall_forall. intros x Hx. apply repeat_spec in Hx. subst x. right. repeat split; reflexivity.
Qed.

(* non-vacuity: a concrete history (u64/9, the crate's test configuration): two increases, a partial
   decrease with collateral withdrawal, a full close, a rejected over-sized decrease *)
Definition ex_cfg : config :=
  MkConfig (MkPosParams 1000000000 1000000000 10000000 None 5000000 5000000 2500000) (MkImpactParams 2000000000 1 2)
           (MkFeeParams 500000 700000 370000000 None) 370000000 2000000 370000000 1000000000 1000000000
           500000000 500000000 0 18446744073709551615 0 10000.
Definition ex_s0 : mstate :=
  let z := MkPool 0 0 in MkMState (MkPool 1000000000 1000000000) z z z z z z z z z z z z z z z None None.
Definition ex_ps0 := [MkPos true true 0 0 0 0 0 0 0; MkPos false false 0 0 0 0 0 0 0].
Definition pr123 := MkPrices (MkPrice 123 123) (MkPrice 123 123) (MkPrice 1 1).
Definition pr125 := MkPrices (MkPrice 125 125) (MkPrice 125 125) (MkPrice 1 1).
Definition ex_ops := [OpInc 0 pr123 100000000 80000000000 None; OpInc 1 pr123 20000000000 40000000000 None;
                      OpDec 0 pr125 40000000000 None 100000000 (MkFlags false false false);
                      OpDec 1 pr125 40000000000 None 0 (MkFlags false false false);
                      OpDec 0 pr125 50000000000 None 0 (MkFlags false false false)].
Example c07_ex_init : world_ok (ex_s0, ex_ps0) = true.
Proof. vm_compute. reflexivity. Qed.
Example c07_ex_run :
  let wd := run 64 (10 ^ 9) ex_cfg (ex_s0, ex_ps0) ex_ops in
  size_usd (get_pos (snd wd) 0) = 40000000000 /\ size_tok (get_pos (snd wd) 0) = 325203199 /\
  coll (get_pos (snd wd) 0) = 99544716 /\ s_oi_long (fst wd) = MkPool 40000000000 0 /\
  size_usd (get_pos (snd wd) 1) = 0 /\ world_ok wd = true.
Proof. vm_compute. repeat split; reflexivity. Qed.
