(* C07 — the invariant "pools = sums over the stored positions" is preserved by every operation,
   hence by every history. *)
From GV Require Import lib.Base lib.DivLemmas C01.Model C01.Proofs PS.Model PS.Lemmas PS.Actions PS.Frame PS.Hist C07.Proofs C07.Corr.
Open Scope Z_scope.

(* ---- Prop form of the oracle's invariant ---- *)
Definition pos_shape (p : position) : Prop :=
  (0 < size_usd p /\ 0 < size_tok p /\ 0 <= coll p) \/ (size_usd p = 0 /\ size_tok p = 0 /\ coll p = 0).

Definition sums (wd : world) : Prop :=
  forall l c,
    amount (s_oi (fst wd) l) c = sum_over size_usd l c (snd wd) /\
    amount (s_oit (fst wd) l) c = sum_over size_tok l c (snd wd) /\
    amount (s_cs (fst wd) l) c = sum_over coll l c (snd wd).

Definition world_inv (wd : world) : Prop := sums wd /\ Forall pos_shape (snd wd).

Lemma pos_shape_iff p : pos_shape_ok p = true <-> pos_shape p.
Proof.
  unfold pos_shape_ok, pos_shape. rewrite orb_true_iff, !andb_true_iff, !Z.ltb_lt, Z.leb_le, !Z.eqb_eq. tauto.
Qed.

Lemma world_ok_iff wd : world_ok wd = true <-> world_inv wd.
Proof.
  unfold world_ok, world_inv, sums, sums_ok_for. destruct wd as [s ps]. cbn [fst snd].
  rewrite !andb_true_iff, !Z.eqb_eq, forallb_forall, Forall_forall.
  split.
  - intros ((((A & B) & C) & D) & E). split.
    + intros [] []; tauto.
    + intros x Hx. apply pos_shape_iff. apply E. exact Hx.
  - intros [S F]. pose proof (S true true). pose proof (S true false). pose proof (S false true). pose proof (S false false).
    repeat split; try tauto. intros x Hx. apply pos_shape_iff. apply F. exact Hx.
Qed.

(* ---- sums over a list after replacing one position ---- *)
Lemma sum_over_set_pos f l c ps i q : (i < length ps)%nat ->
  sum_over f l c (set_pos ps i q) =
  sum_over f l c ps - hit (is_long (get_pos ps i)) (coll_long (get_pos ps i)) l c (f (get_pos ps i))
                   + hit (is_long q) (coll_long q) l c (f q).
Proof.
  revert i. induction ps as [|a r IH]; intros i Hi; [cbn in Hi; lia|].
  destruct i as [|j].
  - cbn [set_pos get_pos nth sum_over fold_right]. unfold hit.
    destruct (Bool.eqb (is_long a) l && Bool.eqb (coll_long a) c); destruct (Bool.eqb (is_long q) l && Bool.eqb (coll_long q) c); lia.
  - cbn [set_pos get_pos nth]. cbn [sum_over fold_right]. fold (sum_over f l c (set_pos r j q)). fold (sum_over f l c r).
    rewrite IH by (cbn in Hi; lia). unfold get_pos.
    destruct (Bool.eqb (is_long a) l && Bool.eqb (coll_long a) c); lia.
Qed.

Lemma sum_over_zero f l c ps : (forall p, In p ps -> f p = 0) -> sum_over f l c ps = 0.
Proof.
  induction ps as [|a r IH]; intros H; [reflexivity|].
  cbn [sum_over fold_right]. fold (sum_over f l c r). rewrite IH by (intros q Hq; apply H; right; exact Hq).
  rewrite (H a) by (left; reflexivity). destruct (_ && _); reflexivity.
Qed.

Lemma Forall_set_pos (P : position -> Prop) ps i q : Forall P ps -> P q -> Forall P (set_pos ps i q).
Proof.
  revert i. induction ps as [|a r IH]; intros i HF Hq; [constructor|].
  inversion HF; subst. destruct i; cbn; constructor; auto.
Qed.

Lemma get_pos_shape ps i : Forall pos_shape ps -> pos_shape (get_pos ps i).
Proof.
  intros HF. unfold get_pos. destruct (Nat.lt_ge_cases i (length ps)) as [Hlt|Hge].
  - rewrite Forall_forall in HF. apply HF. apply nth_In. exact Hlt.
  - rewrite nth_overflow by exact Hge. right. repeat split; reflexivity.
Qed.

(* ---- the market built from a state ---- *)
Lemma mk_amts cfg s l c :
  oi_amt (mk_market cfg s) l c = amount (s_oi s l) c /\
  oit_amt (mk_market cfg s) l c = amount (s_oit s l) c /\
  cs_amt (mk_market cfg s) l c = amount (s_cs s l) c.
Proof. destruct l; repeat split; reflexivity. Qed.
Lemma st_of_amts m l c :
  amount (s_oi (st_of m) l) c = oi_amt m l c /\ amount (s_oit (st_of m) l) c = oit_amt m l c /\
  amount (s_cs (st_of m) l) c = cs_amt m l c.
Proof. destruct l; repeat split; reflexivity. Qed.

Section I.
  Variable w : Z.
  Hypothesis Hw : 1 <= w.
  Variable unit : Z.
  Hypothesis Hunit : 0 < unit.
  Variable cfg : config.

  (* the generic step: a position replaced by [q], pools moved by the same deltas *)
  Lemma inv_replace s ps i q m' du dt dc :
    world_inv (s, ps) -> (i < length ps)%nat ->
    let p := get_pos ps i in
    is_long q = is_long p -> coll_long q = coll_long p ->
    size_usd q = size_usd p + du -> size_tok q = size_tok p + dt -> coll q = coll p + dc ->
    pos_shape q ->
    (forall l c, oi_amt m' l c = oi_amt (mk_market cfg s) l c + hit (is_long p) (coll_long p) l c du) ->
    (forall l c, oit_amt m' l c = oit_amt (mk_market cfg s) l c + hit (is_long p) (coll_long p) l c dt) ->
    (forall l c, cs_amt m' l c = cs_amt (mk_market cfg s) l c + hit (is_long p) (coll_long p) l c dc) ->
    world_inv (st_of m', set_pos ps i q).
  Proof.
    intros [S F] Hi p L C U T K Q O1 O2 O3. split.
    - intros l c. cbn [fst snd]. destruct (st_of_amts m' l c) as (-> & -> & ->).
      rewrite O1, O2, O3. destruct (mk_amts cfg s l c) as (-> & -> & ->).
      pose proof (S l c) as (S1 & S2 & S3). cbn [fst snd] in S1, S2, S3. rewrite S1, S2, S3.
      rewrite !sum_over_set_pos by exact Hi. fold p. rewrite L, C, U, T, K. unfold hit.
      destruct (Bool.eqb (is_long p) l && Bool.eqb (coll_long p) c); lia.
    - cbn [snd]. apply Forall_set_pos; assumption.
  Qed.

  Lemma empty_pos_fields p : is_long (empty_pos p) = is_long p /\ coll_long (empty_pos p) = coll_long p /\
    size_usd (empty_pos p) = 0 /\ size_tok (empty_pos p) = 0 /\ coll (empty_pos p) = 0.
  Proof. repeat split; reflexivity. Qed.

  (* a successful decrease (plain, liquidation or ADL) keeps the invariant *)
  Lemma inv_decrease s ps i pr sd acc wdr fl p1 m' rep :
    world_inv (s, ps) -> (i < length ps)%nat ->
    decrease w unit (get_pos ps i) (mk_market cfg s) pr sd acc wdr fl = Ok (p1, m', rep) ->
    world_inv (st_of m', set_pos ps i (stored p1 (dr_remove rep)))
    /\ (dr_remove rep = true -> size_usd p1 = 0 /\ size_tok p1 = 0 /\ coll p1 = 0).
  Proof.
    intros Inv Hi H. pose proof (get_pos_shape ps i (proj2 Inv)) as Sh.
    destruct Sh as [(HS & HT & HC)|(HS & HT & HC)].
    - pose proof (decrease_effect w Hw unit _ _ _ _ _ _ _ _ _ _ HS HT HC H)
        as (L & C & U & T & K & R1 & R2 & _ & O1 & O2 & O3).
      split; [|exact R1].
      destruct (dr_remove rep) eqn:Er; cbn [stored].
      + destruct (R1 eq_refl) as (Z1 & Z2 & Z3).
        eapply inv_replace with (du := - dr_size_delta rep) (dt := - dr_sdt rep) (dc := - (coll (get_pos ps i) - coll p1));
          try eassumption; cbn; try congruence; try lia.
        right. repeat split; reflexivity.
      + destruct (R2 eq_refl) as (P1 & P2).
        eapply inv_replace with (du := - dr_size_delta rep) (dt := - dr_sdt rep) (dc := - (coll (get_pos ps i) - coll p1));
          try eassumption; try lia.
        left. repeat split; lia.
    - exfalso. unfold decrease in H. destruct (negb (prices_valid w pr)); [discriminate|].
      rewrite HS, HT, HC in H. cbn in H. discriminate.
  Qed.

  Theorem step_inv wd o : world_inv wd -> world_inv (step w unit cfg wd o).
  Proof.
    intros Inv. destruct wd as [s ps]. unfold step. cbn [snd].
    destruct (op_valid ps o) eqn:Ev; [|exact Inv].
    destruct o as [s'|i pr ci sd acc|i pr sd acc wdr fl|i pr sd acc wdr|i pr sd acc wdr]; cbn [run_op apply_outcome op_index].
    - (* update_fees_state: none of the C07 pools is written *)
      destruct Inv as [S F]. split; [|exact F]. intros l c. specialize (S l c). cbn [fst snd] in *.
      destruct l; exact S.
    - apply Nat.ltb_lt in Ev. cbn [op_valid op_index] in Ev.
      destruct (increase w unit (get_pos ps i) (mk_market cfg s) pr ci sd acc) as [[[p1 m'] rep]|e] eqn:E; cbn; [|exact Inv].
      pose proof (increase_effect w Hw unit _ _ _ _ _ _ _ _ _ E) as (L & C & U & T & K & P1 & P2 & P3 & _ & O1 & O2 & O3).
      pose proof (get_pos_shape ps i (proj2 Inv)) as Sh.
      eapply inv_replace with (du := sd) (dt := ir_sdt rep) (dc := ir_coll_delta rep); try eassumption.
      + rewrite T. destruct Sh as [(HS & _)|(HS & HT & _)].
        * replace (size_usd (get_pos ps i) =? 0) with false by (symmetry; apply Z.eqb_neq; lia). reflexivity.
        * rewrite HS, HT. reflexivity.
      + left. repeat split; assumption.
    - apply Nat.ltb_lt in Ev. cbn [op_valid op_index] in Ev.
      destruct (decrease w unit (get_pos ps i) (mk_market cfg s) pr sd acc wdr fl) as [[[p1 m'] rep]|e] eqn:E; cbn; [|exact Inv].
      exact (proj1 (inv_decrease _ _ _ _ _ _ _ _ _ _ _ Inv Ev E)).
    - apply Nat.ltb_lt in Ev. cbn [op_valid op_index] in Ev. unfold liquidate.
      destruct (sd <? size_usd (get_pos ps i)); cbn; [exact Inv|].
      destruct (decrease w unit (get_pos ps i) (mk_market cfg s) pr sd acc wdr (MkFlags true true false)) as [[[p1 m'] rep]|e] eqn:E; cbn; [|exact Inv].
      exact (proj1 (inv_decrease _ _ _ _ _ _ _ _ _ _ _ Inv Ev E)).
    - apply Nat.ltb_lt in Ev. cbn [op_valid op_index] in Ev. unfold auto_deleverage.
      destruct (pnl_factor_exceeded_adl w unit (mk_market cfg s) pr (is_long (get_pos ps i))) as [[before|]|e0]; cbn; try exact Inv.
      destruct (decrease w unit (get_pos ps i) (mk_market cfg s) pr sd acc wdr (MkFlags true false false)) as [[[p1 m'] rep]|e] eqn:E; cbn; [|exact Inv].
      destruct (pnl_factor w unit m' pr (is_long (get_pos ps i))) as [after|]; cbn; [|exact Inv].
      destruct (negb (after <? before)); cbn; [exact Inv|].
      destruct (rsigned w (c_min_pnl_after_adl (m_cfg m'))) as [mn|]; cbn; [|exact Inv].
      destruct (after <? mn); cbn; [exact Inv|].
      exact (proj1 (inv_decrease _ _ _ _ _ _ _ _ _ _ _ Inv Ev E)).
  Qed.

  (* C07 over whole histories, failed attempts included *)
  Theorem history_inv wd ops : world_inv wd -> world_inv (run w unit cfg wd ops).
  Proof.
    revert wd. induction ops as [|o r IH]; intros wd Inv; [exact Inv|].
    cbn [run fold_left]. apply IH. apply step_inv. exact Inv.
  Qed.

  (* a position reported as removed has zero size and zero collateral *)
  Theorem removed_is_empty wd o :
    world_inv wd -> op_valid (snd wd) o = true ->
    removed_ok (run_op w unit cfg wd o) = true.
  Proof.
    intros Inv Ev. destruct wd as [s ps]. cbn [snd] in Ev.
    destruct o as [s'|i pr ci sd acc|i pr sd acc wdr fl|i pr sd acc wdr|i pr sd acc wdr]; cbn [run_op removed_ok]; try reflexivity.
    - apply Nat.ltb_lt in Ev. cbn [op_index] in Ev.
      destruct (decrease w unit (get_pos ps i) (mk_market cfg s) pr sd acc wdr fl) as [[[p1 m'] rep]|e] eqn:E; cbn; [|reflexivity].
      destruct (dr_remove rep) eqn:Er; [|reflexivity].
      destruct (proj2 (inv_decrease _ _ _ _ _ _ _ _ _ _ _ Inv Ev E) Er) as (-> & -> & ->). reflexivity.
    - apply Nat.ltb_lt in Ev. cbn [op_index] in Ev. unfold liquidate.
      destruct (sd <? size_usd (get_pos ps i)); cbn; [reflexivity|].
      destruct (decrease w unit (get_pos ps i) (mk_market cfg s) pr sd acc wdr (MkFlags true true false)) as [[[p1 m'] rep]|e] eqn:E; cbn; [|reflexivity].
      destruct (dr_remove rep) eqn:Er; [|reflexivity].
      destruct (proj2 (inv_decrease _ _ _ _ _ _ _ _ _ _ _ Inv Ev E) Er) as (-> & -> & ->). reflexivity.
    - apply Nat.ltb_lt in Ev. cbn [op_index] in Ev. unfold auto_deleverage.
      destruct (pnl_factor_exceeded_adl w unit (mk_market cfg s) pr (is_long (get_pos ps i))) as [[before|]|e0]; cbn; try reflexivity.
      destruct (decrease w unit (get_pos ps i) (mk_market cfg s) pr sd acc wdr (MkFlags true false false)) as [[[p1 m'] rep]|e] eqn:E; cbn; [|reflexivity].
      destruct (pnl_factor w unit m' pr (is_long (get_pos ps i))) as [after|]; cbn; [|reflexivity].
      destruct (negb (after <? before)); cbn; [reflexivity|].
      destruct (rsigned w (c_min_pnl_after_adl (m_cfg m'))) as [mn|]; cbn; [|reflexivity].
      destruct (after <? mn); cbn; [reflexivity|].
      destruct (dr_remove rep) eqn:Er; [|reflexivity].
      destruct (proj2 (inv_decrease _ _ _ _ _ _ _ _ _ _ _ Inv Ev E) Er) as (-> & -> & ->). reflexivity.
  Qed.
End I.
