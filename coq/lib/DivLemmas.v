(* Floor / ceiling division facts reused by the per-property proofs. *)
From GV Require Import lib.Base.
Open Scope Z_scope.

Ltac Zify.zify_post_hook ::= Z.div_mod_to_equations.

Lemma div_floor_spec a d : 0 < d -> d * (a / d) <= a < d * (a / d) + d.
Proof. intros Hd. pose proof (Z.mul_div_le a d Hd). pose proof (Z.mul_succ_div_gt a d Hd). lia. Qed.

Lemma div_floor_unique a d q : 0 < d -> d * q <= a < d * q + d -> a / d = q.
Proof. intros Hd H. symmetry. apply (Z.div_unique a d q (a - d * q)); lia. Qed.

(* ceil(a/d) = (a + d - 1) / d *)
Lemma ceil_spec a d : 0 < d -> let r := (a + d - 1) / d in d * (r - 1) < a <= d * r.
Proof. intros Hd r. subst r. pose proof (div_floor_spec (a + d - 1) d Hd). lia. Qed.

Lemma ceil_unique a d r : 0 < d -> d * (r - 1) < a <= d * r -> (a + d - 1) / d = r.
Proof. intros Hd H. apply div_floor_unique; lia. Qed.

Lemma div_mono_num a b d : 0 < d -> a <= b -> a / d <= b / d.
Proof. intros; apply Z.div_le_mono; lia. Qed.

Lemma div_nonneg a d : 0 <= a -> 0 < d -> 0 <= a / d.
Proof. intros; apply Z.div_pos; lia. Qed.

Lemma div_le_self a d : 0 <= a -> 0 < d -> a / d <= a.
Proof. intros Ha Hd. destruct (Z.eq_dec d 1) as [->|]. - rewrite Z.div_1_r; lia.
  - pose proof (Z.div_lt_upper_bound a d (a+1)). assert (a < d * (a+1)) by nia. lia. Qed.

(* floor is superadditive *)
Lemma div_add_super a b d : 0 < d -> a / d + b / d <= (a + b) / d.
Proof.
  intros Hd. apply Z.div_le_lower_bound; [lia|].
  pose proof (div_floor_spec a d Hd). pose proof (div_floor_spec b d Hd). lia.
Qed.

Lemma div_add_sub a b d : 0 < d -> (a + b) / d <= a / d + b / d + 1.
Proof.
  intros Hd.
  pose proof (div_floor_spec a d Hd). pose proof (div_floor_spec b d Hd).
  pose proof (div_floor_spec (a+b) d Hd). nia.
Qed.

Lemma mul_div_le_l a b c : 0 <= a -> 0 < c -> a * (b / c) <= a * b / c.
Proof.
  intros Ha Hc. apply Z.div_le_lower_bound; [lia|].
  pose proof (div_floor_spec b c Hc). nia.
Qed.

Lemma pow2_pos w : 0 <= w -> 0 < 2 ^ w.
Proof. intros; apply Z.pow_pos_nonneg; lia. Qed.

Lemma quot_nonneg_div a b : 0 <= a -> 0 < b -> Z.quot a b = a / b.
Proof. intros; apply Z.quot_div_nonneg; lia. Qed.

Lemma quot_neg_num a b : a <= 0 -> 0 < b -> Z.quot a b = - ((- a) / b).
Proof.
  intros Ha Hb. replace a with (- (- a)) at 1 by lia.
  rewrite Z.quot_opp_l by lia. rewrite Z.quot_div_nonneg by lia. reflexivity.
Qed.
