(* Base definitions shared by all models: machine-integer range predicates,
   checked arithmetic returning [option Z], option monad, and the case runner
   used by the correspondence check.  Definitions only. *)
From Coq Require Export ZArith List Bool Lia.
Export ListNotations.
Open Scope Z_scope.

(* ---------- option monad ---------- *)
Definition obind {A B} (a : option A) (f : A -> option B) : option B :=
  match a with Some x => f x | None => None end.
Notation "x <- a ;; b" := (obind a (fun x => b))
  (at level 61, a at next level, right associativity).

Definition omap {A B} (f : A -> B) (a : option A) : option B :=
  match a with Some x => Some (f x) | None => None end.

(* ---------- machine ranges (w = bit width) ---------- *)
Definition umax (w : Z) : Z := 2 ^ w - 1.
Definition smax (w : Z) : Z := 2 ^ (w - 1) - 1.
Definition smin (w : Z) : Z := - 2 ^ (w - 1).

Definition in_u (w z : Z) : bool := (0 <=? z) && (z <? 2 ^ w).
Definition in_s (w z : Z) : bool := (- 2 ^ (w - 1) <=? z) && (z <? 2 ^ (w - 1)).

Definition chk_u (w z : Z) : option Z := if in_u w z then Some z else None.
Definition chk_s (w z : Z) : option Z := if in_s w z then Some z else None.

(* unsigned checked ops *)
Definition uadd w a b := chk_u w (a + b).
Definition usub w a b := chk_u w (a - b).
Definition umul w a b := chk_u w (a * b).
Definition udiv (w a b : Z) : option Z := if b =? 0 then None else Some (a / b).

(* signed checked ops; Rust integer division truncates toward zero *)
Definition sadd w a b := chk_s w (a + b).
Definition ssub w a b := chk_s w (a - b).
Definition smul w a b := chk_s w (a * b).
Definition sneg w a := chk_s w (- a).
Definition sdiv (w a b : Z) : option Z :=
  if b =? 0 then None else chk_s w (Z.quot a b).

(* unsigned -> signed (TryFrom) *)
Definition to_signed (w a : Z) : option Z := if a <? 2 ^ (w - 1) then Some a else None.

(* ---------- results with an error kind ---------- *)
Inductive res (A : Type) : Type := Ok (a : A) | Err (e : Z).
Arguments Ok {A} a.
Arguments Err {A} e.
Definition rbind {A B} (a : res A) (f : A -> res B) : res B :=
  match a with Ok x => f x | Err e => Err e end.
Notation "x <-- a ;; b" := (rbind a (fun x => b))
  (at level 61, a at next level, right associativity).
Definition of_opt {A} (e : Z) (a : option A) : res A :=
  match a with Some x => Ok x | None => Err e end.

(* ---------- equality helpers used by correspondence predicates ---------- *)
Definition oeqb (a b : option Z) : bool :=
  match a, b with
  | Some x, Some y => x =? y
  | None, None => true
  | _, _ => false
  end.

Definition is_some {A} (a : option A) : bool := match a with Some _ => true | None => false end.

(* ---------- case runner ----------
   [run_cases corr oracle known cs] returns, with 0-based indices,
   (cases where model <> impl, cases where the property oracle fails on the
    implementation's output and the case is in no known class,
    (index, class) for oracle failures inside a known class). *)
Section Run.
  Context {case : Type}.
  Variable corr_b oracle_b : case -> bool.
  Variable known_b : case -> Z.

  Fixpoint run_from (i : Z) (cs : list case) (a b : list Z) (c : list (Z * Z))
    : list Z * list Z * list (Z * Z) :=
    match cs with
    | [] => (rev a, rev b, rev c)
    | x :: r =>
        let a' := if corr_b x then a else i :: a in
        let ok := oracle_b x in
        let k := known_b x in
        let b' := if ok then b else if k =? 0 then i :: b else b in
        let c' := if ok then c else if k =? 0 then c else (i, k) :: c in
        run_from (i + 1) r a' b' c'
    end.

  Definition run_cases (cs : list case) := run_from 0 cs [] [] [].
End Run.
