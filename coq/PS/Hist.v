(* PS — histories of position operations (definitions only).
   A world is a market state plus a list of positions (index = position id).  One case of the
   history driver (harness/src/bin/ps.rs) is a whole history: initial world, and for every operation the
   implementation's outcome (new position state, new market state, report — or the error kind).
   A failed operation leaves the world unchanged: this is the program-level semantics (the store runs
   the model-crate actions on a revertible buffer inside one transaction); the driver snapshots and
   restores, and records in [ax_dirty] whether the real code had written to the market/position before failing. *)
From GV Require Export lib.Base C01.Model PS.Model PS.Actions.
Open Scope Z_scope.

(* market state without the configuration (printed once per history) *)
Record mstate := MkMState {
  s_primary : pool; s_swap_impact : pool; s_fee : pool;
  s_oi_long : pool; s_oi_short : pool; s_oit_long : pool; s_oit_short : pool;
  s_impact : pool; s_bf : pool; s_tb : pool;
  s_fa_long : pool; s_fa_short : pool; s_cfa_long : pool; s_cfa_short : pool;
  s_cs_long : pool; s_cs_short : pool;
  s_vi_swap : option pool; s_vi_pos : option pool }.

Definition mk_market (c : config) (s : mstate) : market :=
  MkMarket c (s_primary s) (s_swap_impact s) (s_fee s) (s_oi_long s) (s_oi_short s) (s_oit_long s) (s_oit_short s)
           (s_impact s) (s_bf s) (s_tb s) (s_fa_long s) (s_fa_short s) (s_cfa_long s) (s_cfa_short s)
           (s_cs_long s) (s_cs_short s) (s_vi_swap s) (s_vi_pos s).
Definition st_of (m : market) : mstate :=
  MkMState (m_primary m) (m_swap_impact m) (m_fee m) (m_oi_long m) (m_oi_short m) (m_oit_long m) (m_oit_short m)
           (m_impact m) (m_bf m) (m_tb m) (m_fa_long m) (m_fa_short m) (m_cfa_long m) (m_cfa_short m)
           (m_cs_long m) (m_cs_short m) (m_vi_swap m) (m_vi_pos m).

(* update_fees_state (distribute position impact, update borrowing, update funding) is an environment
   step here: it may only write the impact pool, the borrowing factors and the funding indices *)
Definition adopt_fee_state (s s' : mstate) : mstate :=
  MkMState (s_primary s) (s_swap_impact s) (s_fee s) (s_oi_long s) (s_oi_short s) (s_oit_long s) (s_oit_short s)
           (s_impact s') (s_bf s') (s_tb s) (s_fa_long s') (s_fa_short s') (s_cfa_long s') (s_cfa_short s')
           (s_cs_long s) (s_cs_short s) (s_vi_swap s) (s_vi_pos s).

Inductive op :=
| OpFees (s' : mstate)
| OpInc (i : nat) (pr : prices) (coll_inc sd : Z) (acc : option Z)
| OpDec (i : nat) (pr : prices) (sd : Z) (acc : option Z) (wd : Z) (fl : dec_flags)
| OpLiq (i : nat) (pr : prices) (sd : Z) (acc : option Z) (wd : Z)
| OpAdl (i : nat) (pr : prices) (sd : Z) (acc : option Z) (wd : Z).

Inductive outcome :=
| OutFees
| OutInc (r : res (position * mstate * inc_report))
| OutDec (r : res (position * mstate * dec_report))
| OutAdl (r : res (position * mstate * dec_report * Z * Z)).   (* pnl factor before / after *)

(* what the driver observed around an operation *)
Record aux := MkAux {
  ax_dirty : bool;                    (* on Err: the real code had partially written market or position *)
  ax_liq_pre : res (option Z);        (* check_liquidatable(pre-state, op prices, true, true) *)
  ax_liq_post : res (option Z) }.     (* same on the post-state, when the op succeeded and the position stays open *)

Inductive case :=
| Hist (w dec : Z) (cfg : config) (s0 : mstate) (ps0 : list position) (steps : list (op * outcome * aux)).

(* ---------------------------------------------------------------- worlds *)
Definition world := (mstate * list position)%type.
Definition empty_pos (p : position) : position := MkPos (is_long p) (coll_long p) 0 0 0 0 0 0 0.
Definition dflt_pos : position := MkPos true true 0 0 0 0 0 0 0.
Definition get_pos (ps : list position) (i : nat) : position := nth i ps dflt_pos.
Fixpoint set_pos (ps : list position) (i : nat) (p : position) : list position :=
  match ps, i with
  | [], _ => []
  | _ :: r, O => p :: r
  | q :: r, S j => q :: set_pos r j p
  end.
(* the position as stored after an operation: a removed position's account is closed *)
Definition stored (p : position) (removed : bool) : position := if removed then empty_pos p else p.

Section H.
  Variable w : Z.
  Variable unit : Z.
  Variable cfg : config.

  Definition liq_state (s : mstate) (p : position) (pr : prices) : res (option Z) :=
    check_liquidatable w unit p (mk_market cfg s) pr true true.

  (* the model's outcome of one operation on a world *)
  Definition run_op (wd : world) (o : op) : outcome :=
    let '(s, ps) := wd in
    let m := mk_market cfg s in
    match o with
    | OpFees _ => OutFees
    | OpInc i pr ci sd acc =>
        OutInc (r <-- increase w unit (get_pos ps i) m pr ci sd acc ;;
                let '(p, m', rep) := r in Ok (p, st_of m', rep))
    | OpDec i pr sd acc wdr fl =>
        OutDec (r <-- decrease w unit (get_pos ps i) m pr sd acc wdr fl ;;
                let '(p, m', rep) := r in Ok (p, st_of m', rep))
    | OpLiq i pr sd acc wdr =>
        OutDec (r <-- liquidate w unit (get_pos ps i) m pr sd acc wdr ;;
                let '(p, m', rep) := r in Ok (p, st_of m', rep))
    | OpAdl i pr sd acc wdr =>
        OutAdl (r <-- auto_deleverage w unit (get_pos ps i) m pr sd acc wdr ;;
                let '(p, m', rep, b, a) := r in Ok (p, st_of m', rep, b, a))
    end.

  Definition op_index (o : op) : nat :=
    match o with OpFees _ => O | OpInc i _ _ _ _ => i | OpDec i _ _ _ _ _ => i | OpLiq i _ _ _ _ => i | OpAdl i _ _ _ _ => i end.
  Definition op_prices (o : op) : option prices :=
    match o with OpFees _ => None | OpInc _ pr _ _ _ => Some pr | OpDec _ pr _ _ _ _ => Some pr
               | OpLiq _ pr _ _ _ => Some pr | OpAdl _ pr _ _ _ => Some pr end.

  (* the world after an operation with the given outcome (failed operations change nothing) *)
  Definition apply_outcome (wd : world) (o : op) (out : outcome) : world :=
    let '(s, ps) := wd in
    match o, out with
    | OpFees s', _ => (adopt_fee_state s s', ps)
    | _, OutInc (Ok (p, s', _)) => (s', set_pos ps (op_index o) p)
    | _, OutDec (Ok (p, s', rep)) => (s', set_pos ps (op_index o) (stored p (dr_remove rep)))
    | _, OutAdl (Ok (p, s', rep, _, _)) => (s', set_pos ps (op_index o) (stored p (dr_remove rep)))
    | _, _ => wd
    end.

  (* an operation on a position id that does not exist is rejected *)
  Definition op_valid (ps : list position) (o : op) : bool :=
    match o with OpFees _ => true | _ => Nat.ltb (op_index o) (length ps) end.
  Definition step (wd : world) (o : op) : world :=
    if op_valid (snd wd) o then apply_outcome wd o (run_op wd o) else wd.
  Definition run (wd : world) (ops : list op) : world := fold_left step ops wd.
End H.

(* ---------------------------------------------------------------- equality of observations *)
Definition pool_eqb (a b : pool) := (pl a =? pl b) && (ps a =? ps b).
Definition opool_eqb (a b : option pool) :=
  match a, b with Some x, Some y => pool_eqb x y | None, None => true | _, _ => false end.
Definition mstate_eqb (a b : mstate) : bool :=
  pool_eqb (s_primary a) (s_primary b) && pool_eqb (s_swap_impact a) (s_swap_impact b) && pool_eqb (s_fee a) (s_fee b)
  && pool_eqb (s_oi_long a) (s_oi_long b) && pool_eqb (s_oi_short a) (s_oi_short b)
  && pool_eqb (s_oit_long a) (s_oit_long b) && pool_eqb (s_oit_short a) (s_oit_short b)
  && pool_eqb (s_impact a) (s_impact b) && pool_eqb (s_bf a) (s_bf b) && pool_eqb (s_tb a) (s_tb b)
  && pool_eqb (s_fa_long a) (s_fa_long b) && pool_eqb (s_fa_short a) (s_fa_short b)
  && pool_eqb (s_cfa_long a) (s_cfa_long b) && pool_eqb (s_cfa_short a) (s_cfa_short b)
  && pool_eqb (s_cs_long a) (s_cs_long b) && pool_eqb (s_cs_short a) (s_cs_short b)
  && opool_eqb (s_vi_swap a) (s_vi_swap b) && opool_eqb (s_vi_pos a) (s_vi_pos b).
Definition pos_eqb (a b : position) : bool :=
  Bool.eqb (is_long a) (is_long b) && Bool.eqb (coll_long a) (coll_long b)
  && (coll a =? coll b) && (size_usd a =? size_usd b) && (size_tok a =? size_tok b)
  && (bfac a =? bfac b) && (ffa a =? ffa b) && (cfa_l a =? cfa_l b) && (cfa_s a =? cfa_s b).
Definition oz3_eqb (a b : option (Z * Z * Z)) :=
  match a, b with
  | Some (x1, x2, x3), Some (y1, y2, y3) => (x1 =? y1) && (x2 =? y2) && (x3 =? y3)
  | None, None => true | _, _ => false end.
Definition fees_eqb (a b : fees) : bool :=
  (f_paid_value a =? f_paid_value b) && (f_order_pool a =? f_order_pool b) && (f_order_recv a =? f_order_recv b)
  && (f_order_value a =? f_order_value b) && (f_b_amount a =? f_b_amount b) && (f_b_recv a =? f_b_recv b)
  && (f_fund a =? f_fund b) && (f_claim_l a =? f_claim_l b) && (f_claim_s a =? f_claim_s b) && oz3_eqb (f_liq a) (f_liq b).
Definition inc_report_eqb (a b : inc_report) : bool :=
  (ir_impact_value a =? ir_impact_value b) && (ir_impact_amount a =? ir_impact_amount b) && (ir_sdt a =? ir_sdt b)
  && (ir_exec_price a =? ir_exec_price b) && (ir_coll_delta a =? ir_coll_delta b) && fees_eqb (ir_fees a) (ir_fees b)
  && (ir_claim_l a =? ir_claim_l b) && (ir_claim_s a =? ir_claim_s b).
Definition dec_report_eqb (a b : dec_report) : bool :=
  (dr_impact_value a =? dr_impact_value b) && (dr_impact_diff a =? dr_impact_diff b) && (dr_exec_price a =? dr_exec_price b)
  && (dr_sdt a =? dr_sdt b) && (dr_withdrawable a =? dr_withdrawable b) && (dr_size_delta a =? dr_size_delta b)
  && fees_eqb (dr_fees a) (dr_fees b) && (dr_pnl a =? dr_pnl b) && (dr_uncapped_pnl a =? dr_uncapped_pnl b)
  && oeqb (dr_insolvent_step a) (dr_insolvent_step b) && Bool.eqb (dr_remove a) (dr_remove b)
  && (dr_output a =? dr_output b) && (dr_secondary a =? dr_secondary b)
  && (dr_claim_l a =? dr_claim_l b) && (dr_claim_s a =? dr_claim_s b)
  && (dr_hold_out a =? dr_hold_out b) && (dr_hold_sec a =? dr_hold_sec b)
  && (dr_user_out a =? dr_user_out b) && (dr_user_sec a =? dr_user_sec b).

Definition res_eqb {A} (eq : A -> A -> bool) (a b : res A) : bool :=
  match a, b with Ok x, Ok y => eq x y | Err x, Err y => x =? y | _, _ => false end.
Definition outcome_eqb (a b : outcome) : bool :=
  match a, b with
  | OutFees, OutFees => true
  | OutInc x, OutInc y => res_eqb (fun u v => let '(p1, s1, r1) := u in let '(p2, s2, r2) := v in
                                             pos_eqb p1 p2 && mstate_eqb s1 s2 && inc_report_eqb r1 r2) x y
  | OutDec x, OutDec y => res_eqb (fun u v => let '(p1, s1, r1) := u in let '(p2, s2, r2) := v in
                                             pos_eqb p1 p2 && mstate_eqb s1 s2 && dec_report_eqb r1 r2) x y
  | OutAdl x, OutAdl y => res_eqb (fun u v => let '(p1, s1, r1, b1, a1) := u in let '(p2, s2, r2, b2, a2) := v in
                                             pos_eqb p1 p2 && mstate_eqb s1 s2 && dec_report_eqb r1 r2 && (b1 =? b2) && (a1 =? a2)) x y
  | _, _ => false
  end.
Definition roz_eqb (a b : res (option Z)) : bool := res_eqb oeqb a b.

Definition outcome_ok (o : outcome) : bool :=
  match o with OutFees => true | OutInc (Ok _) => true | OutDec (Ok _) => true | OutAdl (Ok _) => true | _ => false end.
Definition outcome_removed (o : outcome) : bool :=
  match o with OutDec (Ok (_, _, r)) => dr_remove r | OutAdl (Ok (_, _, r, _, _)) => dr_remove r | _ => false end.

(* ---------------------------------------------------------------- correspondence over a history *)
Section C.
  Variable w : Z.
  Variable unit : Z.
  Variable cfg : config.

  (* model outcome == recorded outcome, the liquidatability observations agree, and an
     update_fees_state step wrote nothing but the fee-state pools *)
  Definition step_corr (wd : world) (x : op * outcome * aux) : bool :=
    let '(o, out, ax) := x in
    let '(s, ps) := wd in
    match o with
    | OpFees s' => mstate_eqb (adopt_fee_state s s') s'
    | _ =>
        let mo := run_op w unit cfg wd o in
        let p := get_pos ps (op_index o) in
        outcome_eqb mo out
        && match op_prices o with
           | Some pr =>
               roz_eqb (liq_state w unit cfg s p pr) (ax_liq_pre ax)
               && (if outcome_ok mo && negb (outcome_removed mo) then
                     let '(s1, ps1) := apply_outcome wd o mo in
                     roz_eqb (liq_state w unit cfg s1 (get_pos ps1 (op_index o)) pr) (ax_liq_post ax)
                   else true)
           | None => true
           end
    end.

  Fixpoint hist_corr (wd : world) (xs : list (op * outcome * aux)) : bool :=
    match xs with
    | [] => true
    | x :: r => step_corr wd x && hist_corr (apply_outcome wd (fst (fst x)) (snd (fst x))) r
    end.
End C.

Definition corr_b (c : case) : bool :=
  match c with Hist w dec cfg s0 ps0 steps => hist_corr w (10 ^ dec) cfg (s0, ps0) steps end.

(* the worlds the IMPLEMENTATION went through (from the recorded outcomes only):
   list of (world before, step, world after) *)
Fixpoint impl_trace (wd : world) (xs : list (op * outcome * aux)) : list (world * (op * outcome * aux) * world) :=
  match xs with
  | [] => []
  | x :: r => let wd' := apply_outcome wd (fst (fst x)) (snd (fst x)) in (wd, x, wd') :: impl_trace wd' r
  end.
