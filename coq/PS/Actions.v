(* PS — model of the position actions (definitions only):
     position.rs: position_price_impact, capped impacts, pending fees, position_fees, check_collateral,
                  will_collateral_be_sufficient, check_liquidatable, validate, update_open_interest,
                  update_total_borrowing
     market/perp.rs: cap_positive/negative_position_price_impact, min_collateral_factor_for_open_interest,
                  apply_delta_to_open_interest, validate_open_interest_reserve;  market/base.rs: validate_reserve
     pool/delta.rs: PoolDelta::price_impact;  params/fee.rs: order / borrowing / liquidation fees
     action/increase_position.rs, action/decrease_position/{mod,collateral_processor,utils}.rs
     programs/store/src/ops/order.rs: the liquidation / ADL gates of execute_decrease_position
   Swap type of a decrease is always NoSwap here (swaps are modelled in coq/MK by another check). *)
From GV Require Import lib.Base C01.Model PS.Model.
Open Scope Z_scope.

(* sequencing of a unit-valued check *)
Notation "a ;;; b" := (rbind a (fun _ => b)) (at level 61, right associativity).

(* report of an increase: IncreasePositionReport *)
Record inc_report := MkIncReport {
  ir_impact_value : Z; ir_impact_amount : Z; ir_sdt : Z; ir_exec_price : Z;
  ir_coll_delta : Z; ir_fees : fees; ir_claim_l : Z; ir_claim_s : Z }.

(* report of a decrease: DecreasePositionReport *)
Record dec_report := MkDecReport {
  dr_impact_value : Z; dr_impact_diff : Z; dr_exec_price : Z; dr_sdt : Z;
  dr_withdrawable : Z; dr_size_delta : Z;          (* final (possibly promoted / capped) size delta *)
  dr_fees : fees; dr_pnl : Z; dr_uncapped_pnl : Z;
  dr_insolvent_step : option Z; dr_remove : bool;
  dr_output : Z; dr_secondary : Z;
  dr_claim_l : Z; dr_claim_s : Z;
  dr_hold_out : Z; dr_hold_sec : Z; dr_user_out : Z; dr_user_sec : Z }.

Record dec_flags := MkFlags { fl_insolvent : bool; fl_liq : bool; fl_cap : bool }.

(* state of the CollateralProcessor *)
Record pstate := MkPState {
  st_m : market; st_out : Z; st_sec : Z; st_coll : Z;
  st_hold_out : Z; st_hold_sec : Z; st_user_out : Z; st_user_sec : Z; st_fees : fees }.

Inductive pres := PCont (s : pstate) | PStop (step : Z) (s : pstate) | PErr (e : Z).
Definition pbind (a : pres) (f : pstate -> pres) : pres :=
  match a with PCont s => f s | other => other end.
Definition plift {A} (a : res A) (f : A -> pres) : pres :=
  match a with Ok x => f x | Err e => PErr e end.

Section ACT.
  Variable w : Z.
  Variable unit : Z.

  Notation rsigned := (rsigned w).
  Notation ropp := (ropp w).
  Notation af := (af w unit).

  (* ---------------------------------------------------------------- price impact (pool/delta.rs) *)
  Definition adjusted_factors (ip : impact_params) : Z * Z :=
    if ip_neg ip <? ip_pos ip then (ip_neg ip, ip_neg ip) else (ip_pos ip, ip_neg ip).

  Definition apply_factors_r (v f e : Z) : res Z :=
    match apply_factors w unit v f e with
    | Ok x => Ok x
    | Err 1 => Err E_POW
    | Err _ => Err E_OVF
    end.

  Definition signed_delta (a b : Z) (positive : bool) : res Z :=
    d <-- rsigned (Z.abs (a - b)) ;;
    if positive then Ok d else of_opt E_COMP (sneg w d).

  Definition same_side_impact (initial next : Z) (ip : impact_params) : res Z :=
    let has_pos := next <? initial in
    let fs := adjusted_factors ip in
    let f := if has_pos then fst fs else snd fs in
    a <-- apply_factors_r initial f (ip_exp ip) ;;
    b <-- apply_factors_r next f (ip_exp ip) ;;
    signed_delta a b has_pos.

  Definition cross_impact (initial next : Z) (ip : impact_params) : res Z :=
    let fs := adjusted_factors ip in
    p <-- apply_factors_r initial (fst fs) (ip_exp ip) ;;
    n <-- apply_factors_r next (snd fs) (ip_exp ip) ;;
    signed_delta p n (n <? p).

  (* PoolDelta::try_new + price_impact with both prices = 1 : (value, balance change) *)
  Definition pool_delta_impact (cl cs dl ds : Z) (ip : impact_params) : res (Z * Z) :=
    nl <-- of_opt E_COMP (add_with_signed w cl dl) ;;
    ns <-- of_opt E_COMP (add_with_signed w cs ds) ;;
    let initial := Z.abs (cl - cs) in
    let next := Z.abs (nl - ns) in
    let change := if next =? initial then B_UNCHANGED else if initial <? next then B_WORSENED else B_IMPROVED in
    let same := Bool.eqb (cl <=? cs) (nl <=? ns) in
    v <-- (if same then same_side_impact initial next ip else cross_impact initial next ip) ;;
    Ok (v, change).

  (* PositionExt::position_price_impact (include_virtual_inventory_impact = true) *)
  Definition position_price_impact (p : position) (m : market) (sd : Z) : res (Z * Z) :=
    let dl := if is_long p then sd else 0 in
    let ds := if is_long p then 0 else sd in
    let ip := c_impact (m_cfg m) in
    ol <-- pool_total w (m_oi_long m) ;;
    os <-- pool_total w (m_oi_short m) ;;
    imp <-- pool_delta_impact ol os dl ds ip ;;
    if 0 <=? fst imp then Ok imp else
    match m_vi_pos m with
    | None => Ok imp
    | Some vi =>
        lo <-- pool_cancel w vi ;;
        lo <-- (if sd <? 0 then off <-- of_opt E_COMP (sneg w sd) ;; pool_apply_both w lo off off else Ok lo) ;;
        vimp <-- pool_delta_impact (pl lo) (ps lo) dl ds ip ;;
        Ok (if fst vimp <? fst imp then vimp else imp)
    end.

  (* PerpMarketExt::cap_positive_position_price_impact *)
  Definition cap_positive_impact (m : market) (index : price) (sd impact : Z) : res Z :=
    if impact <? 0 then Ok impact else
    mx <-- of_opt E_COMP (umul w (pl (m_impact m)) (pmin index)) ;;
    mx <-- rsigned mx ;;
    let i1 := if mx <? impact then mx else impact in
    mf <-- af (Z.abs sd) (pp_max_pos_impact (c_pos (m_cfg m))) ;;
    mf <-- rsigned mf ;;
    Ok (if mf <? i1 then mf else i1).

  (* PerpMarketExt::cap_negative_position_price_impact : (capped impact, impact diff) *)
  Definition cap_negative_impact (m : market) (sd : Z) (for_liq : bool) (impact : Z) : res (Z * Z) :=
    if impact <? 0 then
      let f := if for_liq then pp_max_impact_liq (c_pos (m_cfg m)) else pp_max_neg_impact (c_pos (m_cfg m)) in
      v <-- af (Z.abs sd) f ;;
      mn <-- ropp v ;;
      if impact <? mn then
        d <-- of_opt E_COMP (ssub w mn impact) ;;
        Ok (mn, Z.abs d)
      else Ok (impact, 0)
    else Ok (impact, 0).

  (* capped_positive_position_price_impact / capped_position_price_impact *)
  Definition capped_positive_impact (p : position) (m : market) (index : price) (sd : Z) : res (Z * Z) :=
    imp <-- position_price_impact p m sd ;;
    v <-- cap_positive_impact m index sd (fst imp) ;;
    Ok (v, snd imp).
  Definition capped_impact (p : position) (m : market) (index : price) (sd : Z) : res (Z * Z * Z) :=
    imp <-- capped_positive_impact p m index sd ;;
    c <-- cap_negative_impact m sd false (fst imp) ;;
    Ok (fst c, snd imp, snd c).

  (* ---------------------------------------------------------------- fees *)
  Definition pending_borrowing_fee_value (p : position) (m : market) : res Z :=
    d <-- of_opt E_COMP (usub w (amount (m_bf m) (is_long p)) (bfac p)) ;;
    af (size_usd p) d.

  (* update_funding_state::unpack_to_funding_amount_delta *)
  Definition unpack_funding (adj latest pos_v size : Z) (round_up : bool) : option Z :=
    d <- usub w latest pos_v ;;
    a <- umul w adj unit ;;
    if round_up then mul_div_ceil w size d a else mul_div w size d a.

  Definition pending_funding_fees (p : position) (m : market) : res (Z * Z * Z) :=
    let adj := c_funding_adj (m_cfg m) in
    a <-- of_opt E_COMP (unpack_funding adj (amount (fa_pool m (is_long p)) (coll_long p)) (ffa p) (size_usd p) true) ;;
    cl <-- of_opt E_COMP (unpack_funding adj (pl (cfa_pool m (is_long p))) (cfa_l p) (size_usd p) false) ;;
    cs <-- of_opt E_COMP (unpack_funding adj (ps (cfa_pool m (is_long p))) (cfa_s p) (size_usd p) false) ;;
    Ok (a, cl, cs).

  (* LiquidationFeeParams::fee *)
  Definition liquidation_fee (m : market) (sd : Z) (cp : price) : res (Z * Z * Z) :=
    if c_liq_factor (m_cfg m) =? 0 then Ok (0, 0, 0) else
    v <-- af sd (c_liq_factor (m_cfg m)) ;;
    a <-- of_opt E_COMP (round_up_div w v (pmin cp)) ;;
    r <-- af a (c_liq_recv (m_cfg m)) ;;
    Ok (v, a, r).

  (* FeeParams::fee *)
  Definition order_fee_value (fp : fee_params) (change amount_ : Z) : option Z :=
    let factor := if change =? B_IMPROVED then fp_pos fp else fp_neg fp in
    fee <- apply_factor w unit amount_ factor ;;
    disc <- apply_factor w unit fee (match fp_discount fp with Some d => d | None => 0 end) ;;
    usub w fee disc.

  (* PositionExt::position_fees *)
  Definition position_fees (p : position) (m : market) (cp : price) (sd change : Z) (is_liq : bool) : res fees :=
    liq <-- (if is_liq then l <-- liquidation_fee m sd cp ;; Ok (Some l) else Ok None) ;;
    (if (pmin cp =? 0) || (pmax cp =? 0) then Err E_PRICES else Ok tt) ;;;
    fv <-- of_opt E_COMP (order_fee_value (c_order_fee (m_cfg m)) change sd) ;;
    fa <-- of_opt E_COMP (udiv w fv (pmin cp)) ;;
    fr <-- of_opt E_COMP (apply_factor w unit fa (fp_recv (c_order_fee (m_cfg m)))) ;;
    fpool <-- of_opt E_COMP (usub w fa fr) ;;
    bv <-- pending_borrowing_fee_value p m ;;
    ba <-- of_opt E_COMP (udiv w bv (pmin cp)) ;;
    paid <-- of_opt E_COMP (uadd w fv bv) ;;
    br <-- af ba (c_borrow_recv (m_cfg m)) ;;
    ff <-- pending_funding_fees p m ;;
    Ok (MkFees paid fpool fr fv ba br (fst (fst ff)) (snd (fst ff)) (snd ff) liq).

  Definition liq_amount (f : fees) := match f_liq f with Some (_, a, _) => a | None => 0 end.
  Definition liq_recv (f : fees) := match f_liq f with Some (_, _, r) => r | None => 0 end.

  Definition fees_for_receiver (f : fees) : res Z :=
    t <-- of_opt E_COMP (uadd w (f_order_recv f) (f_b_recv f)) ;;
    match f_liq f with Some (_, _, r) => of_opt E_COMP (uadd w t r) | None => Ok t end.
  Definition fees_for_pool (f : fees) : res Z :=
    bp <-- of_opt E_COMP (usub w (f_b_amount f) (f_b_recv f)) ;;
    t <-- of_opt E_COMP (uadd w (f_order_pool f) bp) ;;
    match f_liq f with
    | Some (_, a, r) => lp <-- of_opt E_COMP (usub w a r) ;; of_opt E_COMP (uadd w t lp)
    | None => Ok t
    end.
  Definition fees_total_excl_funding (f : fees) : res Z :=
    t <-- of_opt E_COMP (uadd w (f_order_pool f) (f_order_recv f)) ;;
    t <-- of_opt E_COMP (uadd w t (f_b_amount f)) ;;
    match f_liq f with Some (_, a, _) => of_opt E_COMP (uadd w t a) | None => Ok t end.
  Definition fees_total (f : fees) : res Z :=
    t <-- fees_total_excl_funding f ;; of_opt E_OVF (uadd w t (f_fund f)).
  (* clear_fees_excluding_funding + set_paid_order_and_borrowing_fee_value(0) *)
  Definition fees_clear (f : fees) : fees :=
    MkFees 0 0 0 0 0 0 (f_fund f) (f_claim_l f) (f_claim_s f) None.

  (* ---------------------------------------------------------------- collateral checks *)
  (* check_collateral: 0 Sufficient, 1 Zero, 2 Negative, 3 MinCollateralForLeverage, 4 MinCollateral *)
  Definition check_collateral (size mcf : Z) (mcv : option Z) (allow_zero : bool) (cv : Z) : res Z :=
    if cv <? 0 then Ok (match mcv with Some _ => 4 | None => 2 end) else
    match (match mcv with Some v => cv <? v | None => false end) with
    | true => Ok 4
    | false =>
        if negb allow_zero && (cv =? 0) then Ok 1 else
        lev <-- af size mcf ;;
        if cv <? lev then Ok 3 else Ok 0
    end.

  Definition min_cf_for_oi (m : market) (delta : Z) (long : bool) : res Z :=
    oi <-- pool_total w (oi_pool m long) ;;
    n <-- of_opt E_COMP (add_with_signed w oi delta) ;;
    af n (c_min_cf_oi_mult (m_cfg m)).

  (* PositionExt::will_collateral_be_sufficient : (sufficient?, remaining collateral value) *)
  Definition will_collateral_be_sufficient (p : position) (m : market) (pr : prices)
             (next_size next_coll realized oi_delta : Z) : res (bool * Z) :=
    let cp := coll_price pr (coll_long p) in
    v <-- of_opt E_COMP (umul w next_coll (pmin cp)) ;;
    v <-- rsigned v ;;
    v <-- (if realized <? 0 then of_opt E_COMP (sadd w v realized) else Ok v) ;;
    if v <? 0 then Ok (false, v) else
    f <-- min_cf_for_oi m oi_delta (is_long p) ;;
    let mcf := Z.max f (pp_min_cf (c_pos (m_cfg m))) in
    c <-- check_collateral next_size mcf None true v ;;
    Ok (c =? 0, v).

  (* PositionExt::check_liquidatable : None or Some reason *)
  Definition check_liquidatable (p : position) (m : market) (pr : prices) (validate_min_cv for_liq : bool)
    : res (option Z) :=
    pn <-- pnl_value w unit p m pr (size_usd p) ;;
    let pnl := fst (fst pn) in
    let cp := coll_price pr (coll_long p) in
    cv <-- of_opt E_COMP (umul w (coll p) (pmin cp)) ;;
    sd <-- ropp (size_usd p) ;;
    imp <-- position_price_impact p m sd ;;
    piv <-- (if fst imp <? 0 then c <-- cap_negative_impact m sd true (fst imp) ;; Ok (fst c) else Ok 0) ;;
    fs <-- position_fees p m cp (size_usd p) (snd imp) false ;;
    tc <-- fees_total fs ;;
    ccv <-- of_opt E_COMP (umul w tc (pmin cp)) ;;
    cvs <-- rsigned cv ;;
    rem <-- of_opt E_COMP (a <- sadd w cvs pnl ;; b <- sadd w a piv ;; c <- to_signed w ccv ;; ssub w b c) ;;
    let pp := c_pos (m_cfg m) in
    let cf := if for_liq then (match pp_min_cf_liq pp with Some f => f | None => pp_min_cf pp end) else pp_min_cf pp in
    c <-- check_collateral (size_usd p) cf (if validate_min_cv then Some (pp_min_cv pp) else None) false rem ;;
    Ok (if c =? 0 then None
        else if (c =? 1) || (c =? 2) then Some R_NOT_POSITIVE
        else if c =? 3 then Some R_MIN_COLLATERAL_FOR_LEVERAGE
        else Some R_MIN_COLLATERAL).

  (* PositionExt::validate *)
  Definition validate_position (p : position) (m : market) (pr : prices) (min_size min_cv : bool) : res Datatypes.unit :=
    if (size_usd p =? 0) || (size_tok p =? 0) then Err E_POS else
    if min_size && (size_usd p <? pp_min_size (c_pos (m_cfg m))) then Err E_POS else
    r <-- check_liquidatable p m pr min_cv false ;;
    match r with Some reason => Err (E_LIQ reason) | None => Ok tt end.

  (* ---------------------------------------------------------------- market updates *)
  (* PerpMarketMutExt::apply_delta_to_open_interest *)
  Definition apply_delta_to_oi (m : market) (long cl : bool) (d : Z) : res market :=
    oi <-- pool_apply w (oi_pool m long) cl d ;;
    (if 0 <? d then
       match uadd w (pl oi) (ps oi) with
       | Some t => if c_max_oi (m_cfg m) <? t then Err E_MAXOI else Ok tt
       | None => Err E_MAXOI
       end
     else Ok tt) ;;;
    let m1 := set_oi m long oi in
    match m_vi_pos m with
    | None => Ok m1
    | Some vi =>
        ad <-- rsigned (Z.abs d) ;;
        let increased := negb (d <? 0) in
        vi1 <-- pool_apply w vi (Bool.eqb long increased) ad ;;
        vi2 <-- pool_cancel w vi1 ;;
        Ok (set_vi_pos m1 (Some vi2))
    end.

  (* PositionMutExt::update_open_interest *)
  Definition update_open_interest (p : position) (m : market) (sd_usd sd_tok : Z) : res market :=
    if sd_usd =? 0 then Ok m else
    m1 <-- apply_delta_to_oi m (is_long p) (coll_long p) sd_usd ;;
    t <-- pool_apply w (oit_pool m1 (is_long p)) (coll_long p) sd_tok ;;
    Ok (set_oit m1 (is_long p) t).

  (* PositionMutExt::update_total_borrowing *)
  Definition update_total_borrowing (p : position) (m : market) (next_size next_bf : Z) : res market :=
    prev <-- af (size_usd p) (bfac p) ;;
    next <-- af next_size next_bf ;;
    d <-- (if prev <=? next then rsigned (next - prev) else ropp (prev - next)) ;;
    t <-- pool_apply w (m_tb m) (is_long p) d ;;
    Ok (set_tb m t).

  (* ---------------------------------------------------------------- increase *)
  Definition exec_price_increase (sd sdt : Z) (acceptable : option Z) (long : bool) : res Z :=
    if sd =? 0 then Err E_COMP else
    ep <-- of_opt E_COMP (udiv w sd sdt) ;;
    match acceptable with
    | None => Ok ep
    | Some acc => if (long && (ep <=? acc)) || (negb long && (acc <=? ep)) then Ok ep else Err E_ARG
    end.

  Definition increase (p : position) (m : market) (pr : prices) (coll_inc sd : Z) (acceptable : option Z)
    : res (position * market * inc_report) :=
    if negb (prices_valid w pr) then Err E_ARG else
    (* initialize_position_if_empty *)
    let p0 := if size_usd p =? 0
              then MkPos (is_long p) (coll_long p) (coll p) (size_usd p) 0 (bfac p)
                         (amount (fa_pool m (is_long p)) (coll_long p)) (pl (cfa_pool m (is_long p))) (ps (cfa_pool m (is_long p)))
              else p in
    let index := p_index pr in
    let long := is_long p0 in
    (* get_execution_params *)
    ex <-- (if sd =? 0 then Ok (0, 0, 0, pick index long, B_UNCHANGED) else
            sds <-- rsigned sd ;;
            imp <-- capped_positive_impact p0 m index sds ;;
            let piv := fst imp in
            pia <-- (if 0 <? piv then pm <-- rsigned (pmax index) ;; of_opt E_COMP (sdiv w piv pm)
                     else of_opt E_COMP (round_up_mag_div w (pmin index) piv)) ;;
            base <-- of_opt E_COMP (if long then udiv w sd (pmax index) else round_up_div w sd (pmin index)) ;;
            sdt <-- of_opt E_COMP (if long then add_with_signed w base pia else sub_with_signed w base pia) ;;
            ep <-- exec_price_increase sd sdt acceptable long ;;
            Ok (piv, pia, sdt, ep, snd imp)) ;;
    let '(piv, pia, sdt, ep, change) := ex in
    (* process_collateral *)
    let cp := coll_price pr (coll_long p0) in
    cda0 <-- rsigned coll_inc ;;
    fs <-- position_fees p0 m cp sd change false ;;
    tc <-- fees_total fs ;;
    tcs <-- rsigned tc ;;
    cda <-- of_opt E_COMP (ssub w cda0 tcs) ;;
    fr <-- fees_for_receiver fs ;; frs <-- rsigned fr ;;
    m1 <-- apply_fee_delta w m (coll_long p0) frs ;;
    fpl <-- fees_for_pool fs ;; fps <-- rsigned fpl ;;
    m2 <-- apply_delta w m1 (coll_long p0) fps ;;
    cs <-- pool_apply w (cs_pool m2 long) (coll_long p0) cda ;;
    let m3 := set_cs m2 long cs in
    (* execute *)
    coll' <-- (match add_with_signed w (coll p0) cda with
               | Some c => Ok c
               | None => if 0 <? cda then Err E_COMP else Err E_ARG
               end) ;;
    npia <-- of_opt E_COMP (sneg w pia) ;;
    m4 <-- apply_impact_delta w m3 npia ;;
    next_size <-- of_opt E_COMP (uadd w (size_usd p0) sd) ;;
    let next_bf := amount (m_bf m4) long in
    m5 <-- update_total_borrowing (set_pos_coll p0 coll') m4 next_size next_bf ;;
    next_tok <-- of_opt E_COMP (uadd w (size_tok p0) sdt) ;;
    let p1 := MkPos long (coll_long p0) coll' next_size next_tok next_bf
                    (amount (fa_pool m5 long) (coll_long p0)) (pl (cfa_pool m5 long)) (ps (cfa_pool m5 long)) in
    sds <-- rsigned sd ;;
    sdts <-- rsigned sdt ;;
    m6 <-- update_open_interest p1 m5 sds sdts ;;
    (if sd =? 0 then Ok tt else
       validate_reserve_with w unit m6 pr long (c_reserve (m_cfg m6)) E_RESERVE ;;;
       validate_reserve_with w unit m6 pr long (c_oi_reserve (m_cfg m6)) E_OIRESERVE ;;;
       s <-- will_collateral_be_sufficient p1 m6 pr (size_usd p1) (coll p1) 0 0 ;;
       if fst s then Ok tt else Err E_ARG) ;;;
    validate_position p1 m6 pr true true ;;;
    Ok (p1, m6, MkIncReport piv pia sdt ep cda fs (f_claim_l fs) (f_claim_s fs)).

  (* ---------------------------------------------------------------- decrease *)
  (* decrease_position/utils.rs: get_execution_price_for_decrease *)
  Definition exec_price_decrease (index : price) (size_usd_ size_tok_ sd piv : Z) (acceptable : option Z) (long : bool)
    : res Z :=
    let ep0 := pick index (negb long) in
    ep <-- (if negb (sd =? 0) && negb (size_tok_ =? 0) then
              adj <-- (if long then Ok piv else of_opt E_COMP (ssub w 0 piv)) ;;
              if (adj <? 0) && (sd <? Z.abs adj) then Err E_COMP else
              stk <-- rsigned size_tok_ ;;
              a <-- of_opt E_COMP (mul_div_signed w size_usd_ adj sd) ;;
              a <-- of_opt E_COMP (sdiv w a stk) ;;
              of_opt E_COMP (add_with_signed w ep0 a)
            else Ok ep0) ;;
    match acceptable with
    | None => Ok ep
    | Some acc => if (long && (acc <=? ep)) || (negb long && (ep <=? acc)) then Ok ep else Err E_ARG
    end.

  (* --- CollateralProcessor --- *)
  Definition out_price (pr : prices) (p : position) := coll_price pr (coll_long p).   (* output = collateral token *)
  Definition pnl_price (pr : prices) (p : position) := coll_price pr (is_long p).     (* pnl token = long token for longs *)
  Definition same_tokens (p : position) := Bool.eqb (is_long p) (coll_long p).

  (* State::do_pay_for_cost : (state, paid in collateral, paid in secondary, remaining cost) *)
  Definition pay_from (avail rem : Z) : Z * Z * Z :=     (* (paid, avail', rem') *)
    if avail =? 0 then (0, avail, rem)
    else if rem <? avail then (rem, avail - rem, 0) else (avail, 0, rem - avail).

  Definition do_pay_for_cost (pr : prices) (p : position) (s : pstate) (cost : Z) : res (pstate * Z * Z * Z) :=
    if cost =? 0 then Ok (s, 0, 0, 0) else
    rem <-- of_opt E_COMP (round_up_div w cost (pmin (out_price pr p))) ;;
    let '(paid1, out', rem1) := pay_from (st_out s) rem in
    let s1 := MkPState (st_m s) out' (st_sec s) (st_coll s) (st_hold_out s) (st_hold_sec s) (st_user_out s) (st_user_sec s) (st_fees s) in
    if rem1 =? 0 then Ok (s1, paid1, 0, 0) else
    let '(paid2, coll', rem2) := pay_from (st_coll s1) rem1 in
    paidc <-- of_opt E_COMP (uadd w paid1 paid2) ;;
    let s2 := MkPState (st_m s1) (st_out s1) (st_sec s1) coll' (st_hold_out s1) (st_hold_sec s1) (st_user_out s1) (st_user_sec s1) (st_fees s1) in
    if rem2 =? 0 then Ok (s2, paidc, 0, 0) else
    rs <-- of_opt E_COMP (mul_div w rem2 (pmin (out_price pr p)) (pmin (pnl_price pr p))) ;;
    let '(paid3, sec', rs1) := pay_from (st_sec s2) rs in
    let s3 := MkPState (st_m s2) (st_out s2) sec' (st_coll s2) (st_hold_out s2) (st_hold_sec s2) (st_user_out s2) (st_user_sec s2) (st_fees s2) in
    c <-- of_opt E_COMP (umul w rs1 (pmin (pnl_price pr p))) ;;
    Ok (s3, paidc, paid3, c).

  Definition set_st_m (s : pstate) (m : market) :=
    MkPState m (st_out s) (st_sec s) (st_coll s) (st_hold_out s) (st_hold_sec s) (st_user_out s) (st_user_sec s) (st_fees s).

  (* pay_for_cost: pay, run the receiver, stop with the step when something is left unpaid *)
  Definition pay_for_cost (pr : prices) (p : position) (s : pstate) (cost step : Z)
             (receive : pstate -> Z -> Z -> Z -> res pstate) : pres :=
    plift (do_pay_for_cost pr p s cost) (fun x =>
      let '(s1, pc, psec, rem) := x in
      plift (receive s1 pc psec rem) (fun s2 =>
        if rem =? 0 then PCont s2 else PStop step s2)).

  Definition pay_to_primary_pool (pr : prices) (p : position) (s : pstate) (pc psec : Z) : res pstate :=
    pcs <-- rsigned pc ;; pss <-- rsigned psec ;;
    m1 <-- (if pcs =? 0 then Ok (st_m s) else apply_delta w (st_m s) (coll_long p) pcs) ;;
    m2 <-- (if pss =? 0 then Ok m1 else apply_delta w m1 (is_long p) pss) ;;
    Ok (set_st_m s m2).

  Definition add_pnl_token_amount (p : position) (s : pstate) (a : Z) : res pstate :=
    if same_tokens p then
      o <-- of_opt E_COMP (uadd w (st_out s) a) ;;
      Ok (MkPState (st_m s) o (st_sec s) (st_coll s) (st_hold_out s) (st_hold_sec s) (st_user_out s) (st_user_sec s) (st_fees s))
    else
      o <-- of_opt E_COMP (uadd w (st_sec s) a) ;;
      Ok (MkPState (st_m s) (st_out s) o (st_coll s) (st_hold_out s) (st_hold_sec s) (st_user_out s) (st_user_sec s) (st_fees s)).

  Definition step_add_pnl (pr : prices) (p : position) (s : pstate) (pnl : Z) : res pstate :=
    if 0 <? pnl then
      a <-- of_opt E_COMP (udiv w (Z.abs pnl) (pmax (pnl_price pr p))) ;;
      na <-- ropp a ;;
      m1 <-- apply_delta w (st_m s) (is_long p) na ;;
      add_pnl_token_amount p (set_st_m s m1) a
    else Ok s.

  Definition step_add_impact (pr : prices) (p : position) (s : pstate) (piv : Z) : res pstate :=
    if 0 <? piv then
      a <-- of_opt E_COMP (round_up_div w (Z.abs piv) (pmin (p_index pr))) ;;
      na <-- ropp a ;;
      m1 <-- apply_impact_delta w (st_m s) na ;;
      d <-- of_opt E_COMP (udiv w (Z.abs piv) (pmax (pnl_price pr p))) ;;
      nd <-- ropp d ;;
      m2 <-- apply_delta w m1 (is_long p) nd ;;
      add_pnl_token_amount p (set_st_m s m2) d
    else Ok s.

  Definition step_funding (pr : prices) (p : position) (s : pstate) : pres :=
    let ca := f_fund (st_fees s) in
    if ca =? 0 then PCont s else
    plift (of_opt E_COMP (umul w ca (pmin (out_price pr p)))) (fun cost =>
      pay_for_cost pr p s cost S_FUNDING (fun s1 pc psec _ =>
        if psec =? 0 then Ok s1 else
        h <-- of_opt E_OVF (uadd w (st_hold_sec s1) psec) ;;
        Ok (MkPState (st_m s1) (st_out s1) (st_sec s1) (st_coll s1) (st_hold_out s1) h (st_user_out s1) (st_user_sec s1) (st_fees s1)))).

  Definition step_pnl_negative (pr : prices) (p : position) (s : pstate) (pnl : Z) : pres :=
    if pnl <? 0 then
      pay_for_cost pr p s (Z.abs pnl) S_PNL (fun s1 pc psec _ => pay_to_primary_pool pr p s1 pc psec)
    else PCont s.

  Definition step_fees (pr : prices) (p : position) (s : pstate) : pres :=
    plift (fees_total_excl_funding (st_fees s)) (fun ca =>
      if ca =? 0 then PCont s else
      plift (of_opt E_COMP (umul w ca (pmin (out_price pr p)))) (fun cost =>
        pay_for_cost pr p s cost S_FEES (fun s1 pc psec rem =>
          if (rem =? 0) && (psec =? 0) then
            fpl <-- fees_for_pool (st_fees s1) ;; fps <-- rsigned fpl ;;
            m1 <-- apply_delta w (st_m s1) (coll_long p) fps ;;
            fr <-- fees_for_receiver (st_fees s1) ;; frs <-- rsigned fr ;;
            m2 <-- apply_fee_delta w m1 (coll_long p) frs ;;
            Ok (set_st_m s1 m2)
          else
            s2 <-- pay_to_primary_pool pr p s1 pc psec ;;
            Ok (MkPState (st_m s2) (st_out s2) (st_sec s2) (st_coll s2) (st_hold_out s2) (st_hold_sec s2)
                         (st_user_out s2) (st_user_sec s2) (fees_clear (st_fees s2)))))).

  Definition step_impact_negative (pr : prices) (p : position) (s : pstate) (piv : Z) : pres :=
    if piv <? 0 then
      pay_for_cost pr p s (Z.abs piv) S_IMPACT (fun s1 pc psec _ =>
        s2 <-- pay_to_primary_pool pr p s1 pc psec ;;
        m1 <-- (if pc =? 0 then Ok (st_m s2) else
                d <-- of_opt E_COMP (mul_div w pc (pmin (out_price pr p)) (pmax (p_index pr))) ;;
                ds <-- rsigned d ;; apply_impact_delta w (st_m s2) ds) ;;
        m2 <-- (if psec =? 0 then Ok m1 else
                d <-- of_opt E_COMP (mul_div w psec (pmin (pnl_price pr p)) (pmax (p_index pr))) ;;
                ds <-- rsigned d ;; apply_impact_delta w m1 ds) ;;
        Ok (set_st_m s2 m2))
    else PCont s.

  Definition step_impact_diff (pr : prices) (p : position) (s : pstate) (diff : Z) : pres :=
    if diff =? 0 then PCont s else
    pay_for_cost pr p s diff S_DIFF (fun s1 pc psec _ =>
      uo <-- (if pc =? 0 then Ok (st_user_out s1) else of_opt E_OVF (uadd w (st_user_out s1) pc)) ;;
      us <-- (if psec =? 0 then Ok (st_user_sec s1) else of_opt E_OVF (uadd w (st_user_sec s1) psec)) ;;
      Ok (MkPState (st_m s1) (st_out s1) (st_sec s1) (st_coll s1) (st_hold_out s1) (st_hold_sec s1) uo us (st_fees s1))).

  (* CollateralProcessor::process with the closure of DecreasePosition::process_collateral (NoSwap) *)
  Definition process_costs (pr : prices) (p : position) (m : market) (fs : fees) (pnl piv diff : Z) (insolvent_ok : bool)
    : res (pstate * option Z) :=
    let s0 := MkPState m 0 0 (coll p) 0 0 0 0 fs in
    let r :=
      plift (step_add_pnl pr p s0 pnl) (fun s1 =>
      plift (step_add_impact pr p s1 piv) (fun s2 =>
      pbind (step_funding pr p s2) (fun s3 =>
      pbind (step_pnl_negative pr p s3 pnl) (fun s4 =>
      pbind (step_fees pr p s4) (fun s5 =>
      pbind (step_impact_negative pr p s5 piv) (fun s6 =>
      step_impact_diff pr p s6 diff)))))) in
    match r with
    | PCont s => Ok (s, None)
    | PStop step s => if insolvent_ok then Ok (s, Some step) else Err (E_INSOLV step)
    | PErr e => Err e
    end.

  (* DecreasePosition::try_new + execute *)
  Definition decrease (p : position) (m : market) (pr : prices) (sd0 : Z) (acceptable : option Z)
             (coll_withdraw : Z) (fl : dec_flags) : res (position * market * dec_report) :=
    if negb (prices_valid w pr) then Err E_ARG else
    if (size_usd p =? 0) && (size_tok p =? 0) && (coll p =? 0) then Err E_POS else
    (* DecreasePositionFlags::init *)
    sd1 <-- (if size_usd p <? sd0 then (if fl_cap fl then Ok (size_usd p) else Err E_ARG) else Ok sd0) ;;
    let insolvent_ok := (size_usd p =? sd1) && fl_insolvent fl in
    let wd0 := Z.min coll_withdraw (coll p) in
    let cp := coll_price pr (coll_long p) in
    (* check_partial_close *)
    pc <-- (if sd1 <? size_usd p then
              pn <-- pnl_value w unit p m pr (size_usd p) ;;
              let est := fst (fst pn) in
              realized <-- of_opt E_COMP (mul_div_signed w sd1 est (size_usd p)) ;;
              remaining <-- of_opt E_COMP (ssub w est realized) ;;
              nsd <-- ropp sd1 ;;
              s <-- will_collateral_be_sufficient p m pr (size_usd p - sd1) (coll p - wd0) realized nsd ;;
              x <-- (if fst s then Ok (snd s, wd0) else
                     if sd1 =? 0 then Err E_ARG else
                     ab <-- of_opt E_COMP (umul w wd0 (pmin cp)) ;; ab <-- rsigned ab ;;
                     v <-- of_opt E_COMP (sadd w (snd s) ab) ;;
                     Ok (v, 0)) ;;
              let '(rcv, wd1) := x in
              rv <-- of_opt E_COMP (sadd w rcv remaining) ;;
              mcv <-- rsigned (pp_min_cv (c_pos (m_cfg m))) ;;
              let sd2 := if rv <? mcv then size_usd p else sd1 in
              sd3 <-- (if sd2 <? size_usd p then
                         rs <-- of_opt E_COMP (usub w (size_usd p) sd2) ;;
                         small <-- (if rs <? pp_min_size (c_pos (m_cfg m)) then Ok true else
                                    t <-- size_delta_in_tokens w p sd2 ;; Ok (size_tok p <=? t)) ;;
                         Ok (if small then size_usd p else sd2)
                       else Ok sd2) ;;
              Ok (sd3, wd1)
            else Ok (sd1, wd0)) ;;
    let '(sd, wd1) := pc in
    (* check_close *)
    let wd2 := if (sd =? size_usd p) && negb (wd1 =? 0) then 0 else wd1 in
    (* check_liquidation *)
    (if fl_liq fl then r <-- check_liquidatable p m pr true true ;;
                       match r with Some _ => Ok tt | None => Err E_NOTLIQ end
     else Ok tt) ;;;
    let initial_coll := coll p in
    (* process_collateral: execution params *)
    ex <-- (if sd =? 0 then Ok (0, B_UNCHANGED, 0, pick (p_index pr) (negb (is_long p))) else
            nsd <-- ropp sd ;;
            imp <-- capped_impact p m (p_index pr) nsd ;;
            let '(piv, change, diff) := imp in
            ep <-- exec_price_decrease (p_index pr) (size_usd p) (size_tok p) sd piv acceptable (is_long p) ;;
            Ok (piv, change, diff, ep)) ;;
    let '(piv, change, diff, ep) := ex in
    pn <-- pnl_value w unit p m pr sd ;;
    let '(base_pnl, uncapped_pnl, sdt) := pn in
    fs <-- position_fees p m cp sd change (fl_liq fl) ;;
    pr_ <-- process_costs pr p m fs base_pnl piv diff insolvent_ok ;;
    let '(st, step) := pr_ in
    wd3 <-- (if negb (wd2 =? 0) && negb (diff =? 0) then
               da <-- of_opt E_COMP (udiv w diff (pmin cp)) ;;
               Ok (if da <? wd2 then wd2 - da else 0)
             else Ok wd2) ;;
    let wd := if st_coll st <? wd3 then st_coll st else wd3 in
    x <-- (if wd =? 0 then Ok (st_coll st, st_out st) else
           o <-- of_opt E_COMP (uadd w (st_out st) wd) ;; Ok (st_coll st - wd, o)) ;;
    let '(rem_coll, out1) := x in
    let m1 := st_m st in
    let fs1 := st_fees st in
    (* execute *)
    next_size <-- of_opt E_COMP (usub w (size_usd p) sd) ;;
    let next_bf := amount (m_bf m1) (is_long p) in
    m2 <-- update_total_borrowing p m1 next_size next_bf ;;
    next_tok <-- of_opt E_COMP (usub w (size_tok p) sdt) ;;
    let remove := (next_size =? 0) || (next_tok =? 0) in
    y <-- (if remove then o <-- of_opt E_COMP (uadd w out1 rem_coll) ;; Ok (0, 0, 0, o)
           else Ok (next_size, next_tok, rem_coll, out1)) ;;
    let '(ns, nt, nc, out2) := y in
    cdelta <-- of_opt E_COMP (usub w initial_coll nc) ;;
    ncd <-- ropp cdelta ;;
    cs <-- pool_apply w (cs_pool m2 (is_long p)) (coll_long p) ncd ;;
    let m3 := set_cs m2 (is_long p) cs in
    let p1 := MkPos (is_long p) (coll_long p) nc ns nt next_bf
                    (amount (fa_pool m3 (is_long p)) (coll_long p)) (pl (cfa_pool m3 (is_long p))) (ps (cfa_pool m3 (is_long p))) in
    nsd <-- ropp sd ;;
    nsdt <-- ropp sdt ;;
    m4 <-- update_open_interest p1 m3 nsd nsdt ;;
    (if remove then Ok tt else validate_position p1 m4 pr false false) ;;;
    (* merge outputs when pnl and collateral tokens are the same *)
    z <-- (if same_tokens p && negb (st_sec st =? 0) then
             o <-- of_opt E_COMP (uadd w out2 (st_sec st)) ;; Ok (o, 0)
           else Ok (out2, st_sec st)) ;;
    let '(out3, sec3) := z in
    Ok (p1, m4, MkDecReport piv diff ep sdt wd sd fs1 base_pnl uncapped_pnl step remove out3 sec3
                            (f_claim_l fs1) (f_claim_s fs1) (st_hold_out st) (st_hold_sec st) (st_user_out st) (st_user_sec st)).

  (* ---------------------------------------------------------------- store wrapper gates (ops/order.rs) *)
  (* Liquidation order: size_delta >= size, flags (insolvent close allowed, liquidation, no capping) *)
  Definition liquidate (p : position) (m : market) (pr : prices) (sd : Z) (acceptable : option Z) (coll_withdraw : Z)
    : res (position * market * dec_report) :=
    if sd <? size_usd p then Err E_LIQ_SIZE else
    decrease p m pr sd acceptable coll_withdraw (MkFlags true true false).

  Definition pnl_factor (m : market) (pr : prices) (long : bool) : res Z :=
    x <-- pnl_factor_with_pool_value w unit m pr long true ;; Ok (fst x).

  (* ADL order: required before, strictly lower after, not below the configured minimum *)
  Definition auto_deleverage (p : position) (m : market) (pr : prices) (sd : Z) (acceptable : option Z) (coll_withdraw : Z)
    : res (position * market * dec_report * Z * Z) :=
    ex <-- pnl_factor_exceeded_adl w unit m pr (is_long p) ;;
    match ex with
    | None => Err E_ADL_NOT_REQUIRED
    | Some before =>
        r <-- decrease p m pr sd acceptable coll_withdraw (MkFlags true false false) ;;
        let '(p1, m1, rep) := r in
        after <-- pnl_factor m1 pr (is_long p) ;;
        if negb (after <? before) then Err E_INVALID_ADL else
        mn <-- rsigned (c_min_pnl_after_adl (m_cfg m1)) ;;
        if after <? mn then Err E_INVALID_ADL else
        Ok (p1, m1, rep, before, after)
    end.
End ACT.
