(* PS — frame lemmas: which market pools each model function can change.
   [view] = the pools of the C07 invariant (open interest, open interest in tokens, collateral sums)
   plus the configuration. *)
From GV Require Import lib.Base lib.DivLemmas C01.Model C01.Proofs PS.Model PS.Lemmas PS.Actions.
Open Scope Z_scope.

Definition view (m : market) :=
  (m_cfg m, m_oi_long m, m_oi_short m, m_oit_long m, m_oit_short m, m_cs_long m, m_cs_short m).

(* generic decomposition of a hypothesis [... = Ok r] *)
Ltac ok_step H :=
  lazymatch type of H with
  | rbind _ _ = Ok _ => let x := fresh "x" in let E := fresh "E" in
      apply rbind_ok in H; destruct H as (x & E & H)
  | (if ?c then _ else _) = Ok _ => let C := fresh "C" in destruct c eqn:C
  | (match ?x with _ => _ end) = Ok _ => let C := fresh "C" in destruct x eqn:C
  | Err _ = Ok _ => discriminate H
  | of_opt _ _ = Ok _ => apply of_opt_ok in H
  end.
(* full decomposition, including the equations produced for the bound computations *)
Ltac ok_all H :=
  lazymatch type of H with
  | rbind _ _ = Ok _ => let x := fresh "x" in let E := fresh "E" in
      apply rbind_ok in H; destruct H as (x & E & H); ok_all E; ok_all H
  | (if ?c then _ else _) = Ok _ => let C := fresh "C" in destruct c eqn:C; ok_all H
  | (match ?x with _ => _ end) = Ok _ => let C := fresh "C" in destruct x eqn:C; ok_all H
  | Err _ = Ok _ => discriminate H
  | of_opt _ _ = Ok _ => apply of_opt_ok in H
  | _ => idtac
  end.

Section F.
  Variable w : Z.
  Variable unit : Z.

  Lemma pool_apply_spec p long d p' :
    pool_apply w p long d = Ok p' ->
    amount p' long = amount p long + d /\ amount p' (negb long) = amount p (negb long) /\ 0 <= amount p' long.
  Proof.
    unfold pool_apply, amt_apply. intros H.
    destruct long; destruct (0 <? d) eqn:Ed; ok_all H; injection H as <-; cbn;
      first [apply uadd_ok in E | apply usub_ok in E]; lia.
  Qed.

  Lemma apply_delta_view m long d m' : apply_delta w m long d = Ok m' -> view m' = view m.
  Proof. unfold apply_delta. intros H. ok_all H; injection H as <-; reflexivity. Qed.
  Lemma apply_fee_delta_view m long d m' : apply_fee_delta w m long d = Ok m' -> view m' = view m.
  Proof. unfold apply_fee_delta. intros H. ok_all H; injection H as <-; reflexivity. Qed.
  Lemma apply_impact_delta_view m d m' : apply_impact_delta w m d = Ok m' -> view m' = view m.
  Proof. unfold apply_impact_delta. intros H. ok_all H; injection H as <-; reflexivity. Qed.
  Lemma update_total_borrowing_view p m ns nb m' :
    update_total_borrowing w unit p m ns nb = Ok m' -> view m' = view m.
  Proof. unfold update_total_borrowing. intros H. ok_all H; injection H as <-; reflexivity. Qed.

  (* turn every call of a view-preserving function in the context into an equation on views *)
  Ltac frame_eqs :=
    repeat match goal with
    | E : apply_delta _ _ _ _ = Ok _ |- _ => apply apply_delta_view in E
    | E : apply_fee_delta _ _ _ _ = Ok _ |- _ => apply apply_fee_delta_view in E
    | E : apply_impact_delta _ _ _ = Ok _ |- _ => apply apply_impact_delta_view in E
    | E : update_total_borrowing _ _ _ _ _ _ = Ok _ |- _ => apply update_total_borrowing_view in E
    end.

  Lemma pay_to_primary_pool_view pr p s pc psec s' :
    pay_to_primary_pool w pr p s pc psec = Ok s' -> view (st_m s') = view (st_m s).
  Proof.
    unfold pay_to_primary_pool. intros H. ok_all H; injection H as <-; cbn; frame_eqs; congruence.
  Qed.

  Lemma add_pnl_token_amount_m p s a s' : add_pnl_token_amount w p s a = Ok s' -> st_m s' = st_m s.
  Proof. unfold add_pnl_token_amount. intros H. ok_all H; injection H as <-; reflexivity. Qed.

  Lemma step_add_pnl_view pr p s pnl s' : step_add_pnl w pr p s pnl = Ok s' -> view (st_m s') = view (st_m s).
  Proof.
    unfold step_add_pnl. intros H. ok_all H; [|injection H as <-; reflexivity].
    apply add_pnl_token_amount_m in H. cbn in H. frame_eqs. congruence.
  Qed.
  Lemma step_add_impact_view pr p s piv s' : step_add_impact w pr p s piv = Ok s' -> view (st_m s') = view (st_m s).
  Proof.
    unfold step_add_impact. intros H. ok_all H; [|injection H as <-; reflexivity].
    apply add_pnl_token_amount_m in H. cbn in H. frame_eqs. congruence.
  Qed.

  Lemma do_pay_for_cost_m pr p s cost s' a b c :
    do_pay_for_cost w pr p s cost = Ok (s', a, b, c) -> st_m s' = st_m s.
  Proof.
    unfold do_pay_for_cost. intros H.
    destruct (cost =? 0); [injection H as <- _ _ _; reflexivity|].
    ok_step H. destruct (pay_from (st_out s) x) as [[p1 o1] r1]. cbv zeta in H.
    destruct (r1 =? 0); [injection H as <- _ _ _; reflexivity|]. cbn [st_coll st_m] in H.
    destruct (pay_from (st_coll s) r1) as [[p2 c2] r2]. ok_step H. cbn [st_m] in H.
    destruct (r2 =? 0); [injection H as <- _ _ _; reflexivity|].
    ok_step H. cbn [st_sec] in H. destruct (pay_from (st_sec s) x1) as [[p3 s3] r3].
    ok_step H. injection H as <- _ _ _. reflexivity.
  Qed.

  Lemma pay_from_spec avail rem p a r : pay_from avail rem = (p, a, r) -> 0 <= avail -> 0 <= rem ->
    0 <= a <= avail /\ 0 <= p /\ 0 <= r /\ p + a = avail /\ p + r = rem.
  Proof.
    unfold pay_from. intros H Ha Hr. destruct (avail =? 0) eqn:E0; [injection H as <- <- <-; lia|].
    destruct (rem <? avail) eqn:E1; injection H as <- <- <-; lia.
  Qed.

  Lemma do_pay_for_cost_coll pr p s cost s' a b c :
    do_pay_for_cost w pr p s cost = Ok (s', a, b, c) -> 0 <= st_coll s -> 0 <= st_coll s'.
  Proof.
    unfold do_pay_for_cost. intros H Hc.
    destruct (cost =? 0); [injection H as <- _ _ _; exact Hc|].
    ok_step H. destruct (pay_from (st_out s) x) as [[p1 o1] r1]. cbv zeta in H.
    destruct (r1 =? 0); [injection H as <- _ _ _; exact Hc|]. cbn [st_coll st_m] in H.
    destruct (pay_from (st_coll s) r1) as [[p2 c2] r2] eqn:EP. ok_step H. cbn [st_m] in H.
    assert (0 <= c2).
    { unfold pay_from in EP. destruct (st_coll s =? 0); [injection EP as _ <- _; exact Hc|].
      destruct (r1 <? st_coll s) eqn:E1; injection EP as _ <- _; lia. }
    destruct (r2 =? 0); [injection H as <- _ _ _; exact H0|].
    ok_step H. cbn [st_sec] in H. destruct (pay_from (st_sec s) x1) as [[p3 s3] r3].
    ok_step H. injection H as <- _ _ _. exact H0.
  Qed.

  (* invariants of the processor state across a payment step, whether it continues or stops *)
  Definition pres_inv (Q : pstate -> Prop) (r : pres) : Prop :=
    match r with PCont s => Q s | PStop _ s => Q s | PErr _ => True end.

  (* [good m0 s]: the C07 pools are those of m0 and the remaining collateral is not negative *)
  Definition good (m0 : market) (s : pstate) : Prop := view (st_m s) = view m0 /\ 0 <= st_coll s.

  Lemma pay_for_cost_good m0 pr p s cost step receive :
    good m0 s ->
    (forall s1 pc psec rem s2, receive s1 pc psec rem = Ok s2 ->
       view (st_m s2) = view (st_m s1) /\ st_coll s2 = st_coll s1) ->
    pres_inv (good m0) (pay_for_cost w pr p s cost step receive).
  Proof.
    intros [HV HC] Hr. unfold pay_for_cost, plift.
    destruct (do_pay_for_cost w pr p s cost) as [[[[s1 pc] psec] rem]|e] eqn:E; [|exact I].
    pose proof (do_pay_for_cost_m _ _ _ _ _ _ _ _ E) as Em.
    pose proof (do_pay_for_cost_coll _ _ _ _ _ _ _ _ E HC) as Ec.
    destruct (receive s1 pc psec rem) as [s2|e] eqn:E2; [|exact I].
    destruct (Hr _ _ _ _ _ E2) as [R1 R2].
    assert (good m0 s2) by (split; [congruence|lia]).
    destruct (rem =? 0); exact H.
  Qed.

  Lemma pay_to_primary_pool_coll pr p s pc psec s' :
    pay_to_primary_pool w pr p s pc psec = Ok s' -> st_coll s' = st_coll s.
  Proof. unfold pay_to_primary_pool. intros H. ok_all H; injection H as <-; reflexivity. Qed.

  Lemma step_funding_good m0 pr p s : good m0 s -> pres_inv (good m0) (step_funding w pr p s).
  Proof.
    intros G. unfold step_funding. destruct (f_fund (st_fees s) =? 0); [exact G|].
    unfold plift. destruct (of_opt E_COMP (umul w (f_fund (st_fees s)) (pmin (out_price pr p)))); [|exact I].
    apply pay_for_cost_good; [exact G|].
    intros s1 pc psec rem s2 H. ok_all H; injection H as <-; split; reflexivity.
  Qed.

  Lemma step_pnl_negative_good m0 pr p s pnl : good m0 s -> pres_inv (good m0) (step_pnl_negative w pr p s pnl).
  Proof.
    intros G. unfold step_pnl_negative. destruct (pnl <? 0); [|exact G].
    apply pay_for_cost_good; [exact G|].
    intros s1 pc psec rem s2 H. split; [eapply pay_to_primary_pool_view|eapply pay_to_primary_pool_coll]; exact H.
  Qed.

  Lemma step_fees_good m0 pr p s : good m0 s -> pres_inv (good m0) (step_fees w pr p s).
  Proof.
    intros G. unfold step_fees, plift. destruct (fees_total_excl_funding w (st_fees s)) as [ca|]; [|exact I].
    destruct (ca =? 0); [exact G|].
    destruct (of_opt E_COMP (umul w ca (pmin (out_price pr p)))); [|exact I].
    apply pay_for_cost_good; [exact G|].
    intros s1 pc psec rem s2 H.
    destruct ((rem =? 0) && (psec =? 0)).
    - ok_all H. injection H as <-. cbn. frame_eqs. split; [congruence|reflexivity].
    - ok_all H. injection H as <-. cbn.
      split; [eapply pay_to_primary_pool_view|eapply pay_to_primary_pool_coll]; exact E.
  Qed.

  Lemma step_impact_negative_good m0 pr p s piv : good m0 s -> pres_inv (good m0) (step_impact_negative w pr p s piv).
  Proof.
    intros G. unfold step_impact_negative. destruct (piv <? 0); [|exact G].
    apply pay_for_cost_good; [exact G|].
    intros s1 pc psec rem s2 H.
    ok_step H. pose proof (pay_to_primary_pool_coll _ _ _ _ _ _ E) as Ec. apply pay_to_primary_pool_view in E.
    ok_all H; injection H as <-; cbn; frame_eqs; split; congruence.
  Qed.

  Lemma step_impact_diff_good m0 pr p s diff : good m0 s -> pres_inv (good m0) (step_impact_diff w pr p s diff).
  Proof.
    intros G. unfold step_impact_diff. destruct (diff =? 0); [exact G|].
    apply pay_for_cost_good; [exact G|].
    intros s1 pc psec rem s2 H. ok_all H; injection H as <-; split; reflexivity.
  Qed.

  Lemma pbind_inv Q r f :
    pres_inv Q r -> (forall s, Q s -> pres_inv Q (f s)) -> pres_inv Q (pbind r f).
  Proof. intros Hr Hf. destruct r; cbn in *; auto. Qed.

  Lemma add_pnl_token_amount_coll p s a s' : add_pnl_token_amount w p s a = Ok s' -> st_coll s' = st_coll s.
  Proof. unfold add_pnl_token_amount. intros H. ok_all H; injection H as <-; reflexivity. Qed.
  Lemma step_add_pnl_coll pr p s pnl s' : step_add_pnl w pr p s pnl = Ok s' -> st_coll s' = st_coll s.
  Proof.
    unfold step_add_pnl. intros H. ok_all H; [|injection H as <-; reflexivity].
    apply add_pnl_token_amount_coll in H. exact H.
  Qed.
  Lemma step_add_impact_coll pr p s piv s' : step_add_impact w pr p s piv = Ok s' -> st_coll s' = st_coll s.
  Proof.
    unfold step_add_impact. intros H. ok_all H; [|injection H as <-; reflexivity].
    apply add_pnl_token_amount_coll in H. exact H.
  Qed.

  (* CollateralProcessor::process only moves tokens between the primary pool, the fee pool,
     the impact pool and the outputs: the C07 pools are untouched, and the remaining
     collateral stays non-negative *)
  Lemma process_costs_good pr p m fs pnl piv diff ins st step :
    0 <= coll p ->
    process_costs w pr p m fs pnl piv diff ins = Ok (st, step) -> view (st_m st) = view m /\ 0 <= st_coll st.
  Proof.
    unfold process_costs. intros Hc H.
    set (s0 := MkPState m 0 0 (coll p) 0 0 0 0 fs) in *.
    assert (HV : pres_inv (good m)
      (plift (step_add_pnl w pr p s0 pnl) (fun s1 =>
       plift (step_add_impact w pr p s1 piv) (fun s2 =>
       pbind (step_funding w pr p s2) (fun s3 =>
       pbind (step_pnl_negative w pr p s3 pnl) (fun s4 =>
       pbind (step_fees w pr p s4) (fun s5 =>
       pbind (step_impact_negative w pr p s5 piv) (fun s6 =>
       step_impact_diff w pr p s6 diff)))))))).
    { unfold plift.
      destruct (step_add_pnl w pr p s0 pnl) as [s1|] eqn:E1; [|exact I].
      pose proof (step_add_pnl_coll _ _ _ _ _ E1) as C1. apply step_add_pnl_view in E1. cbn in E1, C1.
      destruct (step_add_impact w pr p s1 piv) as [s2|] eqn:E2; [|exact I].
      pose proof (step_add_impact_coll _ _ _ _ _ E2) as C2. apply step_add_impact_view in E2.
      assert (G2 : good m s2) by (split; [congruence|lia]).
      apply pbind_inv; [apply step_funding_good; exact G2|].
      intros s3 G3. apply pbind_inv; [apply step_pnl_negative_good; exact G3|].
      intros s4 G4. apply pbind_inv; [apply step_fees_good; exact G4|].
      intros s5 G5. apply pbind_inv; [apply step_impact_negative_good; exact G5|].
      intros s6 G6. apply step_impact_diff_good; exact G6. }
    match type of H with match ?r with _ => _ end = _ => destruct r as [s|stp s|e] end; cbn in HV.
    - injection H as <- _. exact HV.
    - destruct ins; [injection H as <- _; exact HV|discriminate].
    - discriminate.
  Qed.
End F.

Ltac frame_eqs :=
  repeat match goal with
  | E : apply_delta _ _ _ _ = Ok _ |- _ => apply apply_delta_view in E
  | E : apply_fee_delta _ _ _ _ = Ok _ |- _ => apply apply_fee_delta_view in E
  | E : apply_impact_delta _ _ _ = Ok _ |- _ => apply apply_impact_delta_view in E
  | E : update_total_borrowing _ _ _ _ _ _ = Ok _ |- _ => apply update_total_borrowing_view in E
  end.
