(* PS — basic lemmas about the result monad, the checked helpers and the pool
   operations of PS/Model.v, shared by the C07..C11 proofs. *)
From GV Require Import lib.Base lib.DivLemmas C01.Model C01.Proofs PS.Model.
Open Scope Z_scope.
Ltac Zify.zify_post_hook ::= Z.div_mod_to_equations.

Lemma rbind_ok {A B} (a : res A) (f : A -> res B) r :
  rbind a f = Ok r <-> exists x, a = Ok x /\ f x = Ok r.
Proof.
  destruct a; simpl; split; intros H; try discriminate; eauto.
  - destruct H as [x [E H]]. injection E as <-. exact H.
  - destruct H as [x [E _]]; discriminate.
Qed.

Lemma of_opt_ok {A} e (o : option A) x : of_opt e o = Ok x <-> o = Some x.
Proof. destruct o; simpl; split; intros H; try discriminate; congruence. Qed.

(* [inv_ok H]: decompose a hypothesis [... = Ok r] built from binds / of_opt *)
Ltac inv_ok H :=
  repeat match type of H with
  | rbind _ _ = Ok _ => let x := fresh "x" in let E := fresh "E" in
      apply rbind_ok in H; destruct H as (x & E & H); 
      lazymatch type of E with of_opt _ _ = Ok _ => apply of_opt_ok in E | _ => idtac end
  | of_opt _ _ = Ok _ => apply of_opt_ok in H
  | Ok _ = Ok _ => injection H as H
  end.

(* [bind_ok H as x E]: H : (x <-- a ;; f x) = Ok r  becomes  E : a = Ok x (of_opt stripped), H : f x = Ok r *)
Tactic Notation "bind_ok" hyp(H) "as" ident(x) ident(E) :=
  apply rbind_ok in H; destruct H as (x & E & H);
  lazymatch type of E with of_opt _ _ = Ok _ => apply of_opt_ok in E | _ => idtac end.
Ltac ok_inj H := lazymatch type of H with
  | of_opt _ _ = Ok _ => apply of_opt_ok in H
  | Ok _ = Ok _ => injection H as H end.

Lemma umul_ok w a b r : umul w a b = Some r <-> (0 <= a * b < 2 ^ w /\ r = a * b).
Proof. apply chk_u_some. Qed.
Lemma uadd_ok w a b r : uadd w a b = Some r <-> (0 <= a + b < 2 ^ w /\ r = a + b).
Proof. apply chk_u_some. Qed.
Lemma usub_ok w a b r : usub w a b = Some r <-> (0 <= a - b < 2 ^ w /\ r = a - b).
Proof. apply chk_u_some. Qed.
Lemma ssub_ok w a b r : ssub w a b = Some r <-> (- 2 ^ (w - 1) <= a - b < 2 ^ (w - 1) /\ r = a - b).
Proof. apply chk_s_some. Qed.
Lemma sadd_ok w a b r : sadd w a b = Some r <-> (- 2 ^ (w - 1) <= a + b < 2 ^ (w - 1) /\ r = a + b).
Proof. apply chk_s_some. Qed.
Lemma sneg_ok w a r : sneg w a = Some r <-> (- 2 ^ (w - 1) <= - a < 2 ^ (w - 1) /\ r = - a).
Proof. apply chk_s_some. Qed.
Lemma udiv_ok w a b r : udiv w a b = Some r <-> (b <> 0 /\ r = a / b).
Proof. unfold udiv. destruct (b =? 0) eqn:E; split; intros H; try discriminate; try lia. - injection H as <-. lia. - destruct H as [_ ->]. reflexivity. Qed.

Section L.
  Variable w : Z.
  Hypothesis Hw : 1 <= w.
  Variable unit : Z.
  Hypothesis Hunit : 0 < unit.

  Lemma rsigned_ok a r : rsigned w a = Ok r <-> (a < 2 ^ (w - 1) /\ r = a).
  Proof. unfold rsigned. rewrite of_opt_ok. apply to_signed_some. Qed.

  Lemma ropp_ok a r : 0 <= a -> ropp w a = Ok r -> a < 2 ^ (w - 1) /\ r = - a.
  Proof.
    intros Ha H. unfold ropp in H. inv_ok H. apply rsigned_ok in E. destruct E as [E ->].
    unfold sneg in H. apply chk_s_some in H. lia.
  Qed.

  Lemma af_ok v f r : 0 <= v -> 0 <= f -> af w unit v f = Ok r -> r = v * f / unit /\ 0 <= r < 2 ^ w.
  Proof.
    intros Hv Hf H. unfold af in H. inv_ok H. apply apply_factor_exact in H; try lia.
    destruct H as [-> H]. split; [reflexivity|]. split; [apply div_nonneg; nia|lia].
  Qed.

  (* signed mul-div is truncated division *)
  Lemma mds_quot a n d r : 0 <= a -> 0 <= d ->
    mul_div_signed w a n d = Some r -> 0 < d /\ r = Z.quot (a * n) d.
  Proof.
    intros Ha Hd H. apply mul_div_signed_exact in H; try lia.
    destruct H as (Hd0 & Habs & _ & Hp & Hn). split; [lia|].
    destruct (Z_lt_le_dec 0 n) as [Hn0|Hn0].
    - specialize (Hp Hn0). rewrite quot_nonneg_div by nia. rewrite Z.abs_eq in Habs by lia.
      rewrite (Z.abs_eq n) in Habs by lia. exact Habs.
    - specialize (Hn Hn0). rewrite quot_neg_num by nia.
      rewrite Z.abs_neq in Habs by lia. rewrite (Z.abs_neq n) in Habs by lia.
      replace (- (a * n)) with (a * - n) by lia. lia.
  Qed.

  Lemma quot_mono a b c : 0 < c -> a <= b -> Z.quot a c <= Z.quot b c.
  Proof. intros. apply Z.quot_le_mono; lia. Qed.

  Lemma quot_nonneg a c : 0 < c -> 0 <= a -> 0 <= Z.quot a c.
  Proof. intros. apply Z.quot_pos; lia. Qed.
  Lemma quot_nonpos a c : 0 < c -> a <= 0 -> Z.quot a c <= 0.
  Proof. intros Hc Ha. rewrite quot_neg_num by lia. assert (0 <= (- a) / c) by (apply div_nonneg; lia). lia. Qed.

  (* |a/c (truncated) - exact| < 1 : c*|quot| <= |a| < c*|quot| + c *)
  Lemma quot_bounds a c : 0 < c -> Z.abs (c * Z.quot a c - a) < c.
  Proof.
    intros Hc. destruct (Z_lt_le_dec a 0).
    - rewrite quot_neg_num by lia. pose proof (div_floor_spec (- a) c Hc). lia.
    - rewrite quot_nonneg_div by lia. pose proof (div_floor_spec a c Hc). lia.
  Qed.
End L.
