(* PS — position system of crates/model: executable Gallina model of
     position.rs, market/{base,perp,utils,position_impact}.rs (the parts positions use),
     pool/{mod,delta}.rs, params/{fee,position,price_impact}.rs, price.rs,
     action/increase_position.rs, action/decrease_position/{mod,collateral_processor,utils}.rs
   over the harness market (harness/src/vmarket.rs: TestPool / TestMarket / TestPosition).
   Parametric in the bit width [w] and [unit] = 10^DECIMALS.  Definitions only.

   Error kinds (variant of gmsol_model::Error, message ignored):
     1 Computation   2 InvalidArgument   3 InvalidPosition   41/42/43 Liquidatable(MinCollateral/NotPositive/MinCollateralForLeverage)
     5 NotLiquidatable   6 Overflow   7 Convert   8 MaxOpenInterestExceeded   9 InsufficientReserve
     10 InsufficientReserveForOpenInterest   110+k InsufficientFundsToPayForCosts(step k: 0 Pnl 1 Fees 2 Funding 3 Impact 4 Diff)
     12 InvalidPrices   13 PowComputation
     20 AdlNotRequired   21 InvalidAdl   22 liquidation order smaller than the position (store wrapper)            *)
From GV Require Import lib.Base C01.Model.
Open Scope Z_scope.

Definition E_COMP := 1.   Definition E_ARG := 2.    Definition E_POS := 3.
Definition E_NOTLIQ := 5. Definition E_OVF := 6.    Definition E_CONV := 7.
Definition E_MAXOI := 8.  Definition E_RESERVE := 9. Definition E_OIRESERVE := 10.
Definition E_PRICES := 12. Definition E_POW := 13.
Definition E_LIQ (reason : Z) := 40 + reason.
Definition E_INSOLV (step : Z) := 110 + step.
Definition E_ADL_NOT_REQUIRED := 20. Definition E_INVALID_ADL := 21. Definition E_LIQ_SIZE := 22.

(* liquidatable reasons *)
Definition R_MIN_COLLATERAL := 1. Definition R_NOT_POSITIVE := 2. Definition R_MIN_COLLATERAL_FOR_LEVERAGE := 3.
(* insolvent close steps *)
Definition S_PNL := 0. Definition S_FEES := 1. Definition S_FUNDING := 2. Definition S_IMPACT := 3. Definition S_DIFF := 4.
(* balance change *)
Definition B_IMPROVED := 0. Definition B_WORSENED := 1. Definition B_UNCHANGED := 2.

(* ------------------------------------------------------------------ records *)
Record pool := MkPool { pl : Z; ps : Z }.
Record price := MkPrice { pmin : Z; pmax : Z }.
Record prices := MkPrices { p_index : price; p_long : price; p_short : price }.

Record pos_params := MkPosParams {
  pp_min_size : Z;            (* min_position_size_usd *)
  pp_min_cv : Z;              (* min_collateral_value *)
  pp_min_cf : Z;              (* min_collateral_factor *)
  pp_min_cf_liq : option Z;   (* min_collateral_factor_for_liquidation *)
  pp_max_pos_impact : Z;      (* max_positive_position_impact_factor *)
  pp_max_neg_impact : Z;      (* max_negative_position_impact_factor *)
  pp_max_impact_liq : Z }.    (* max_position_impact_factor_for_liquidations *)

Record impact_params := MkImpactParams { ip_exp : Z; ip_pos : Z; ip_neg : Z }.
Record fee_params := MkFeeParams { fp_pos : Z; fp_neg : Z; fp_recv : Z; fp_discount : option Z }.

Record config := MkConfig {
  c_pos : pos_params;
  c_impact : impact_params;          (* position impact params *)
  c_order_fee : fee_params;
  c_borrow_recv : Z;                 (* borrowing fee receiver factor *)
  c_liq_factor : Z; c_liq_recv : Z;  (* liquidation fee params *)
  c_reserve : Z; c_oi_reserve : Z;
  c_max_pnl_trader : Z; c_max_pnl_adl : Z; c_min_pnl_after_adl : Z;
  c_max_oi : Z;
  c_min_cf_oi_mult : Z;              (* min_collateral_factor_for_open_interest_multiplier *)
  c_funding_adj : Z }.               (* funding_amount_per_size_adjustment *)

Record market := MkMarket {
  m_cfg : config;
  m_primary : pool; m_swap_impact : pool; m_fee : pool;
  m_oi_long : pool; m_oi_short : pool;        (* open interest, per side; long/short amount = collateral token *)
  m_oit_long : pool; m_oit_short : pool;      (* open interest in tokens *)
  m_impact : pool;                            (* position impact pool (long amount used) *)
  m_bf : pool;                                (* cumulative borrowing factor per side *)
  m_tb : pool;                                (* total borrowing per side *)
  m_fa_long : pool; m_fa_short : pool;        (* funding amount per size *)
  m_cfa_long : pool; m_cfa_short : pool;      (* claimable funding amount per size *)
  m_cs_long : pool; m_cs_short : pool;        (* collateral sum *)
  m_vi_swap : option pool; m_vi_pos : option pool }.

Record position := MkPos {
  is_long : bool; coll_long : bool;
  coll : Z; size_usd : Z; size_tok : Z;
  bfac : Z; ffa : Z; cfa_l : Z; cfa_s : Z }.

(* record updates *)
Definition set_primary m p := MkMarket (m_cfg m) p (m_swap_impact m) (m_fee m) (m_oi_long m) (m_oi_short m) (m_oit_long m) (m_oit_short m) (m_impact m) (m_bf m) (m_tb m) (m_fa_long m) (m_fa_short m) (m_cfa_long m) (m_cfa_short m) (m_cs_long m) (m_cs_short m) (m_vi_swap m) (m_vi_pos m).
Definition set_fee m p := MkMarket (m_cfg m) (m_primary m) (m_swap_impact m) p (m_oi_long m) (m_oi_short m) (m_oit_long m) (m_oit_short m) (m_impact m) (m_bf m) (m_tb m) (m_fa_long m) (m_fa_short m) (m_cfa_long m) (m_cfa_short m) (m_cs_long m) (m_cs_short m) (m_vi_swap m) (m_vi_pos m).
Definition set_oi m (long : bool) p := if long
  then MkMarket (m_cfg m) (m_primary m) (m_swap_impact m) (m_fee m) p (m_oi_short m) (m_oit_long m) (m_oit_short m) (m_impact m) (m_bf m) (m_tb m) (m_fa_long m) (m_fa_short m) (m_cfa_long m) (m_cfa_short m) (m_cs_long m) (m_cs_short m) (m_vi_swap m) (m_vi_pos m)
  else MkMarket (m_cfg m) (m_primary m) (m_swap_impact m) (m_fee m) (m_oi_long m) p (m_oit_long m) (m_oit_short m) (m_impact m) (m_bf m) (m_tb m) (m_fa_long m) (m_fa_short m) (m_cfa_long m) (m_cfa_short m) (m_cs_long m) (m_cs_short m) (m_vi_swap m) (m_vi_pos m).
Definition set_oit m (long : bool) p := if long
  then MkMarket (m_cfg m) (m_primary m) (m_swap_impact m) (m_fee m) (m_oi_long m) (m_oi_short m) p (m_oit_short m) (m_impact m) (m_bf m) (m_tb m) (m_fa_long m) (m_fa_short m) (m_cfa_long m) (m_cfa_short m) (m_cs_long m) (m_cs_short m) (m_vi_swap m) (m_vi_pos m)
  else MkMarket (m_cfg m) (m_primary m) (m_swap_impact m) (m_fee m) (m_oi_long m) (m_oi_short m) (m_oit_long m) p (m_impact m) (m_bf m) (m_tb m) (m_fa_long m) (m_fa_short m) (m_cfa_long m) (m_cfa_short m) (m_cs_long m) (m_cs_short m) (m_vi_swap m) (m_vi_pos m).
Definition set_impact m p := MkMarket (m_cfg m) (m_primary m) (m_swap_impact m) (m_fee m) (m_oi_long m) (m_oi_short m) (m_oit_long m) (m_oit_short m) p (m_bf m) (m_tb m) (m_fa_long m) (m_fa_short m) (m_cfa_long m) (m_cfa_short m) (m_cs_long m) (m_cs_short m) (m_vi_swap m) (m_vi_pos m).
Definition set_tb m p := MkMarket (m_cfg m) (m_primary m) (m_swap_impact m) (m_fee m) (m_oi_long m) (m_oi_short m) (m_oit_long m) (m_oit_short m) (m_impact m) (m_bf m) p (m_fa_long m) (m_fa_short m) (m_cfa_long m) (m_cfa_short m) (m_cs_long m) (m_cs_short m) (m_vi_swap m) (m_vi_pos m).
Definition set_cs m (long : bool) p := if long
  then MkMarket (m_cfg m) (m_primary m) (m_swap_impact m) (m_fee m) (m_oi_long m) (m_oi_short m) (m_oit_long m) (m_oit_short m) (m_impact m) (m_bf m) (m_tb m) (m_fa_long m) (m_fa_short m) (m_cfa_long m) (m_cfa_short m) p (m_cs_short m) (m_vi_swap m) (m_vi_pos m)
  else MkMarket (m_cfg m) (m_primary m) (m_swap_impact m) (m_fee m) (m_oi_long m) (m_oi_short m) (m_oit_long m) (m_oit_short m) (m_impact m) (m_bf m) (m_tb m) (m_fa_long m) (m_fa_short m) (m_cfa_long m) (m_cfa_short m) (m_cs_long m) p (m_vi_swap m) (m_vi_pos m).
Definition set_vi_swap m p := MkMarket (m_cfg m) (m_primary m) (m_swap_impact m) (m_fee m) (m_oi_long m) (m_oi_short m) (m_oit_long m) (m_oit_short m) (m_impact m) (m_bf m) (m_tb m) (m_fa_long m) (m_fa_short m) (m_cfa_long m) (m_cfa_short m) (m_cs_long m) (m_cs_short m) p (m_vi_pos m).
Definition set_vi_pos m p := MkMarket (m_cfg m) (m_primary m) (m_swap_impact m) (m_fee m) (m_oi_long m) (m_oi_short m) (m_oit_long m) (m_oit_short m) (m_impact m) (m_bf m) (m_tb m) (m_fa_long m) (m_fa_short m) (m_cfa_long m) (m_cfa_short m) (m_cs_long m) (m_cs_short m) (m_vi_swap m) p.
(* the pools an update_fees_state step (distribution / borrowing / funding) writes *)
Definition set_fee_state m imp bf fal fas cfal cfas :=
  MkMarket (m_cfg m) (m_primary m) (m_swap_impact m) (m_fee m) (m_oi_long m) (m_oi_short m) (m_oit_long m) (m_oit_short m) imp bf (m_tb m) fal fas cfal cfas (m_cs_long m) (m_cs_short m) (m_vi_swap m) (m_vi_pos m).

Definition oi_pool m (long : bool) := if long then m_oi_long m else m_oi_short m.
Definition oit_pool m (long : bool) := if long then m_oit_long m else m_oit_short m.
Definition fa_pool m (long : bool) := if long then m_fa_long m else m_fa_short m.
Definition cfa_pool m (long : bool) := if long then m_cfa_long m else m_cfa_short m.
Definition cs_pool m (long : bool) := if long then m_cs_long m else m_cs_short m.
Definition amount (p : pool) (long : bool) := if long then pl p else ps p.

Definition set_pos_state (p : position) c su st := MkPos (is_long p) (coll_long p) c su st (bfac p) (ffa p) (cfa_l p) (cfa_s p).
Definition set_pos_coll (p : position) c := MkPos (is_long p) (coll_long p) c (size_usd p) (size_tok p) (bfac p) (ffa p) (cfa_l p) (cfa_s p).
Definition set_pos_idx (p : position) b f cl cs_ := MkPos (is_long p) (coll_long p) (coll p) (size_usd p) (size_tok p) b f cl cs_.

(* Price::pick_price / pick_price_for_pnl *)
Definition pick (p : price) (maximize : bool) := if maximize then pmax p else pmin p.
Definition pick_for_pnl (p : price) (long maximize : bool) := if xorb long maximize then pmin p else pmax p.
Definition coll_price (pr : prices) (cl : bool) := if cl then p_long pr else p_short pr.

(* report of fees (PositionFees) *)
Record fees := MkFees {
  f_paid_value : Z;                         (* paid_order_and_borrowing_fee_value *)
  f_order_pool : Z; f_order_recv : Z; f_order_value : Z;
  f_b_amount : Z; f_b_recv : Z;
  f_fund : Z; f_claim_l : Z; f_claim_s : Z;
  f_liq : option (Z * Z * Z) }.             (* fee_value, fee_amount, fee_amount_for_receiver *)

Section PS.
  Variable w : Z.
  Variable unit : Z.

  Definition rsigned (a : Z) : res Z := of_opt E_CONV (to_signed w a).          (* Unsigned::to_signed *)
  Definition ropp (a : Z) : res Z := s <-- rsigned a ;; of_opt E_COMP (sneg w s). (* to_opposite_signed *)
  Definition af (v f : Z) : res Z := of_opt E_COMP (apply_factor w unit v f).

  (* ---------------------------------------------------------------- pools (harness TestPool) *)
  Definition amt_apply (a d : Z) : res Z :=
    if 0 <? d then of_opt E_OVF (uadd w a (Z.abs d)) else of_opt E_COMP (usub w a (Z.abs d)).
  Definition pool_apply (p : pool) (long : bool) (d : Z) : res pool :=
    if long then v <-- amt_apply (pl p) d ;; Ok (MkPool v (ps p))
    else v <-- amt_apply (ps p) d ;; Ok (MkPool (pl p) v).
  (* Pool::checked_apply_delta with both sides *)
  Definition pool_apply_both (p : pool) (dl ds : Z) : res pool :=
    p1 <-- pool_apply p true dl ;; pool_apply p1 false ds.
  (* Pool::checked_cancel_amounts (default implementation) *)
  Definition pool_cancel (p : pool) : res pool :=
    let m := Z.min (pl p) (ps p) in
    d <-- ropp m ;; pool_apply_both p d d.
  (* Merged balance: total of one pool *)
  Definition pool_total (p : pool) : res Z := of_opt E_OVF (uadd w (pl p) (ps p)).

  (* BaseMarketMutExt::apply_delta : primary pool and the virtual inventory for swaps *)
  Definition apply_delta (m : market) (long : bool) (d : Z) : res market :=
    p <-- pool_apply (m_primary m) long d ;;
    match m_vi_swap m with
    | None => Ok (set_primary m p)
    | Some v => v' <-- pool_apply v long d ;; Ok (set_vi_swap (set_primary m p) (Some v'))
    end.
  Definition apply_fee_delta (m : market) (long : bool) (d : Z) : res market :=
    p <-- pool_apply (m_fee m) long d ;; Ok (set_fee m p).
  Definition apply_impact_delta (m : market) (d : Z) : res market :=
    p <-- pool_apply (m_impact m) true d ;; Ok (set_impact m p).

  (* ---------------------------------------------------------------- prices *)
  Definition price_valid (p : price) : bool :=
    negb (pmin p =? 0) && negb (pmax p =? 0) && is_some (uadd w (pmin p) (pmax p)).
  Definition prices_valid (pr : prices) : bool :=
    price_valid (p_index pr) && price_valid (p_long pr) && price_valid (p_short pr).

  (* ---------------------------------------------------------------- base market *)
  Definition pool_value_one_side (m : market) (pr : prices) (long maximize : bool) : res Z :=
    if long then of_opt E_OVF (umul w (pl (m_primary m)) (pick (p_long pr) maximize))
    else of_opt E_OVF (umul w (ps (m_primary m)) (pick (p_short pr) maximize)).

  (* BaseMarketExt::pnl *)
  Definition market_pnl (m : market) (index : price) (long maximize : bool) : res Z :=
    oi <-- pool_total (oi_pool m long) ;;
    oit <-- pool_total (oit_pool m long) ;;
    if (oi =? 0) && (oit =? 0) then Ok 0 else
    let p := pick_for_pnl index long maximize in
    v <-- of_opt E_COMP (umul w oit p) ;;
    if long then a <-- rsigned v ;; b <-- rsigned oi ;; of_opt E_COMP (ssub w a b)
    else a <-- rsigned oi ;; b <-- rsigned v ;; of_opt E_COMP (ssub w a b).

  (* MarketUtils::cap_pnl *)
  Definition cap_pnl (pnl pool_value factor : Z) : res Z :=
    if 0 <? pnl then
      mx <-- af pool_value factor ;; mx <-- rsigned mx ;;
      Ok (if mx <? pnl then mx else pnl)
    else Ok pnl.

  Definition pnl_factor_with_pool_value (m : market) (pr : prices) (long maximize : bool) : res (Z * Z) :=
    pv <-- pool_value_one_side m pr long (negb maximize) ;;
    pnl <-- market_pnl m (p_index pr) long maximize ;;
    f <-- of_opt E_COMP (div_to_factor_signed w unit pnl pv) ;;
    Ok (f, pv).

  (* BaseMarketExt::pnl_factor_exceeded with kind ForAdl: Some pnl_factor when exceeded *)
  Definition pnl_factor_exceeded_adl (m : market) (pr : prices) (long : bool) : res (option Z) :=
    x <-- pnl_factor_with_pool_value m pr long true ;;
    let f := fst x in
    Ok (if (0 <? f) && (c_max_pnl_adl (m_cfg m) <? Z.abs f) then Some f else None).

  Definition reserved_value (m : market) (index : price) (long : bool) : res Z :=
    if long then t <-- pool_total (m_oit_long m) ;; of_opt E_OVF (umul w t (pmax index))
    else pool_total (m_oi_short m).

  Definition validate_reserve_with (m : market) (pr : prices) (long : bool) (factor err : Z) : res Datatypes.unit :=
    pv <-- pool_value_one_side m pr long false ;;
    mx <-- af pv factor ;;
    rv <-- reserved_value m (p_index pr) long ;;
    if mx <? rv then Err err else Ok tt.

  (* ---------------------------------------------------------------- position: pnl *)
  (* PositionExt::size_delta_in_tokens *)
  Definition size_delta_in_tokens (p : position) (d : Z) : res Z :=
    if size_usd p =? d then Ok (size_tok p)
    else if is_long p then of_opt E_COMP (mul_div_ceil w (size_tok p) d (size_usd p))
    else of_opt E_COMP (mul_div w (size_tok p) d (size_usd p)).

  (* total pnl of the position, capped by the trader pnl factor: (capped total, uncapped total) *)
  Definition total_pnl (p : position) (m : market) (pr : prices) : res (Z * Z) :=
    let ep := pick_for_pnl (p_index pr) (is_long p) false in
    pv <-- of_opt E_COMP (umul w (size_tok p) ep) ;;
    pv <-- rsigned pv ;;
    su <-- rsigned (size_usd p) ;;
    total <-- of_opt E_COMP (if is_long p then ssub w pv su else ssub w su pv) ;;
    if 0 <? total then
      poolv <-- pool_value_one_side m pr (is_long p) false ;;
      ppnl <-- market_pnl m (p_index pr) (is_long p) true ;;
      capped <-- cap_pnl ppnl poolv (c_max_pnl_trader (m_cfg m)) ;;
      if negb (capped =? ppnl) && (0 <=? capped) && (0 <? ppnl) then
        t <-- of_opt E_COMP (mul_div_signed w (Z.abs capped) total (Z.abs ppnl)) ;;
        Ok (t, total)
      else Ok (total, total)
    else Ok (total, total).

  (* PositionExt::pnl_value : (pnl_usd, uncapped_pnl_usd, size_delta_in_tokens) *)
  Definition pnl_value (p : position) (m : market) (pr : prices) (d : Z) : res (Z * Z * Z) :=
    t <-- total_pnl p m pr ;;
    sdt <-- size_delta_in_tokens p d ;;
    a <-- of_opt E_COMP (mul_div_signed w sdt (fst t) (size_tok p)) ;;
    b <-- of_opt E_COMP (mul_div_signed w sdt (snd t) (size_tok p)) ;;
    Ok (a, b, sdt).
End PS.
