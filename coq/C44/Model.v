(* C44 — multi-market swap paths.  Definitions only.

   Real code modelled:
   * crates/utils/src/swap.rs                     SwapActionParams::validated_{primary,secondary}_swap_path
   * programs/store/src/states/common/swap.rs     validate_and_init / validate_path (creation time)
   * programs/store/src/states/market/revertible/swap_market.rs
        SwapMarkets::revertible_swap, revertible_swap_for_one_side, swap_along_the_path,
        SwapDirection::swap_with_current
   * programs/store/src/states/market/revertible/market.rs   record_transferred_in/out (Bank layer)
   The single-market swap itself (gmsol_model SwapMarketMutExt::swap, property C04) is abstract here: the
   amounts coming out of each hop are an input stream [outs]; it changes pools but never the recorded
   balances, which only move through record_transferred_in/out. *)
From GV Require Import lib.Base.
Open Scope Z_scope.

(* error codes: 1 InvalidSwapPath, 2 MarketAccountIsNotProvided, 3 InvalidArgument (not a collateral token of the
   market / no-op step), 4 Model (Bank: not a collateral token), 5 InvalidSwapPathLength, 6 NotEnoughSwapMarkets,
   7 StoreMismatched, 8 DisabledMarket, 9 TokenAmountOverflow, 90 abstract swap stream exhausted *)

Definition U64_MAX : Z := 2 ^ 64 - 1.

Record mk := mkMk { mk_id : Z; mk_long : Z; mk_short : Z; mk_bl : Z; mk_bs : Z }.

Definition is_pure (m : mk) : bool := mk_long m =? mk_short m.

(* MarketMeta::to_token_side / opposite_token *)
Definition side (m : mk) (tok : Z) : option bool :=
  if tok =? mk_long m then Some true else if tok =? mk_short m then Some false else None.
Definition opposite (m : mk) (tok : Z) : option Z :=
  if tok =? mk_long m then Some (mk_short m) else if tok =? mk_short m then Some (mk_long m) else None.

(* RevertibleMarket as Bank: record_transferred_{in,out}_by_token *)
Definition rec_in (m : mk) (tok amt : Z) : res mk :=
  match side m tok with
  | None => Err 4
  | Some s =>
      if is_pure m || s then
        if U64_MAX <? mk_bl m + amt then Err 9 else Ok (mkMk (mk_id m) (mk_long m) (mk_short m) (mk_bl m + amt) (mk_bs m))
      else
        if U64_MAX <? mk_bs m + amt then Err 9 else Ok (mkMk (mk_id m) (mk_long m) (mk_short m) (mk_bl m) (mk_bs m + amt))
  end.

Definition rec_out (m : mk) (tok amt : Z) : res mk :=
  match side m tok with
  | None => Err 4
  | Some s =>
      if is_pure m || s then
        if mk_bl m - amt <? 0 then Err 9 else Ok (mkMk (mk_id m) (mk_long m) (mk_short m) (mk_bl m - amt) (mk_bs m))
      else
        if mk_bs m - amt <? 0 then Err 9 else Ok (mkMk (mk_id m) (mk_long m) (mk_short m) (mk_bl m) (mk_bs m - amt))
  end.

(* the swap markets (IndexMap keyed by market token) *)
Fixpoint find (ms : list mk) (id : Z) : option mk :=
  match ms with [] => None | m :: r => if mk_id m =? id then Some m else find r id end.
Fixpoint upd (ms : list mk) (m' : mk) : list mk :=
  match ms with [] => [] | m :: r => if mk_id m =? mk_id m' then m' :: r else m :: upd r m' end.

(* one executed hop, as reported by the SwapExecuted event *)
Record hop := mkHop { hp_market : Z; hp_in_long : bool; hp_in : Z; hp_out : Z }.

(* swap state threaded through one revertible_swap *)
Record st := mkSt {
  s_ms : list mk;          (* swap markets *)
  s_cur : mk;              (* current market *)
  s_outs : list Z;         (* remaining abstract hop outputs *)
  s_hops : list hop        (* executed hops, most recent first *)
}.

(* the abstract single-market swap inside market m: consumes one output amount *)
Definition do_swap (m : mk) (tok amt : Z) (outs : list Z) : res (Z * Z * bool * list Z) :=
  match side m tok, opposite m tok with
  | Some s, Some tok' =>
      if tok =? tok' then Err 3 else
      if amt =? 0 then Err 4 (* gmsol_model::Error::EmptySwap *) else
      match outs with
      | [] => Err 90
      | o :: r => if U64_MAX <? o then Err 9 else Ok (tok', o, s, r)
      end
  | _, _ => Err 3
  end.

(* swap_along_the_path; [first] = "idx == 0" *)
Fixpoint along (s : st) (path : list Z) (tok amt : Z) (first : bool) : res (st * Z * Z) :=
  match path with
  | [] => Ok (s, tok, amt)
  | mt :: rest =>
      match find (s_ms s) mt with
      | None => Err 2
      | Some m =>
          m1 <-- (if first then Ok m else rec_in m tok amt) ;;
          x <-- do_swap m1 tok amt (s_outs s) ;;
          let '(tok', amt', sd, outs') := x in
          m2 <-- (match rest with [] => Ok m1 | _ => rec_out m1 tok' amt' end) ;;
          along (mkSt (upd (s_ms s) m2) (s_cur s) outs' (mkHop mt sd amt amt' :: s_hops s)) rest tok' amt' false
      end
  end.

(* SwapDirection::swap_with_current *)
Definition swap_current (s : st) (tok amt : Z) : res (st * Z * Z) :=
  x <-- do_swap (s_cur s) tok amt (s_outs s) ;;
  let '(tok', amt', sd, outs') := x in
  Ok (mkSt (s_ms s) (s_cur s) outs' (mkHop (mk_id (s_cur s)) sd amt amt' :: s_hops s), tok', amt').

(* move [amt] of [tok] from a swap market to the current market / between them *)
Definition move_ms_to_cur (s : st) (id tok amt : Z) : res st :=
  match find (s_ms s) id with
  | None => Err 2
  | Some m =>
      m' <-- rec_out m tok amt ;;
      c' <-- rec_in (s_cur s) tok amt ;;
      Ok (mkSt (upd (s_ms s) m') c' (s_outs s) (s_hops s))
  end.
Definition move_cur_to_ms (s : st) (id tok amt : Z) : res st :=
  match find (s_ms s) id with
  | None => Err 2
  | Some m =>
      c' <-- rec_out (s_cur s) tok amt ;;
      m' <-- rec_in m tok amt ;;
      Ok (mkSt (upd (s_ms s) m') c' (s_outs s) (s_hops s))
  end.

Definition last_of (l : list Z) : Z := last l 0.

(* revertible_swap_for_one_side; is_into = SwapDirection::Into.
   stage_first: (From) move the input from the current market into the first market; if the path starts in
   the current market, swap there and move the result on to the next market.
   stage_rest: swap along the remaining path (minus a trailing current market), then the trailing current
   market if any, then (Into) move the output into the current market. *)
Definition stage_first (is_into : bool) (s : st) (path : list Z) (tok amt : Z) : res (st * Z * Z * list Z) :=
  match path with
  | [] => Ok (s, tok, amt, [])
  | first :: rest =>
      let cur := mk_id (s_cur s) in
      s1 <-- (if negb is_into && negb (first =? cur) then move_cur_to_ms s first tok amt else Ok s) ;;
      if first =? cur then
        y <-- swap_current s1 tok amt ;;
        let '(s2, tok2, amt2) := y in
        match rest with
        | [] => Ok (s2, tok2, amt2, rest)
        | nxt :: _ => s3 <-- move_cur_to_ms s2 nxt tok2 amt2 ;; Ok (s3, tok2, amt2, rest)
        end
      else Ok (s1, tok, amt, path)
  end.

Definition stage_rest (is_into : bool) (s4 : st) (path4 : list Z) (tok4 amt4 : Z) : res (st * Z * Z) :=
  match path4 with
  | [] => Ok (s4, tok4, amt4)
  | _ =>
      let cur := mk_id (s_cur s4) in
      let lst := last_of path4 in
      let swc := lst =? cur in
      let path5 := if swc then removelast path4 else path4 in
      y <-- along s4 path5 tok4 amt4 true ;;
      let '(s5, tok5, amt5) := y in
      z <-- (if swc then
               s6 <-- (match path5 with
                       | [] => Ok s5
                       | _ => move_ms_to_cur s5 (last_of path5) tok5 amt5
                       end) ;;
               swap_current s6 tok5 amt5
             else Ok (s5, tok5, amt5)) ;;
      let '(s7, tok7, amt7) := z in
      if is_into && negb (lst =? cur) then
        s8 <-- move_ms_to_cur s7 lst tok7 amt7 ;; Ok (s8, tok7, amt7)
      else Ok (s7, tok7, amt7)
  end.

Definition one_side (is_into : bool) (s : st) (path : list Z) (expected tok amt : Z) : res (st * Z) :=
  match find (s_ms s) (mk_id (s_cur s)) with
  | Some _ => Err 1
  | None =>
      x <-- stage_first is_into s path tok amt ;;
      let '(s4, tok4, amt4, path4) := x in
      r <-- stage_rest is_into s4 path4 tok4 amt4 ;;
      let '(s', tok', amt') := r in
      if tok' =? expected then Ok (s', amt') else Err 1
  end.

(* validated_{primary,secondary}_swap_path: market tokens of one path must be distinct *)
Fixpoint nodup_b (l : list Z) : bool :=
  match l with [] => true | x :: r => negb (existsb (Z.eqb x) r) && nodup_b r end.

(* the structural part of the final validations of revertible_swap: which markets are looked up
   (`expect("must exist")` -> panic, Err 77) and the token-side lookups of
   validate_market_balances_excluding_the_given_token_amounts (Err 3); the numeric balance checks are C22 *)
(* validate_market_balances_excluding_the_given_token_amounts, structural part: token sides (Err 3),
   u64 sums (Err 9), and `balance_excluding` underflow (Model error, Err 4) *)
Definition excl_add (m : mk) (acc : res (Z * Z)) (tok amt : Z) : res (Z * Z) :=
  a <-- acc ;;
  let '(le, se) := a in
  if amt =? 0 then Ok (le, se) else
  match side m tok with
  | None => Err 3
  | Some true => if U64_MAX <? le + amt then Err 9 else Ok (le + amt, se)
  | Some false => if U64_MAX <? se + amt then Err 9 else Ok (le, se + amt)
  end.

Definition excl_check (m : mk) (t1 a1 t2 a2 : Z) : res unit :=
  e <-- excl_add m (excl_add m (Ok (0, 0)) t1 a1) t2 a2 ;;
  let '(le, se) := e in
  if is_pure m then
    if U64_MAX <? le + se then Err 9 else
    if mk_bl m - (le + se) <? 0 then Err 4 else Ok tt
  else
    if mk_bl m - le <? 0 then Err 4 else
    if mk_bs m - se <? 0 then Err 4 else Ok tt.

Definition out_market (s : st) (id : Z) : res mk :=
  if id =? mk_id (s_cur s) then Ok (s_cur s) else
  match find (s_ms s) id with Some m => Ok m | None => Err 77 end.

Definition final_checks (is_into : bool) (s : st) (p1 p2 : list Z) (exp1 exp2 o1 o2 : Z) : res unit :=
  let cur := mk_id (s_cur s) in
  let lo := if is_into then cur else match p1 with [] => cur | _ => last_of p1 end in
  let so := if is_into then cur else match p2 with [] => cur | _ => last_of p2 end in
  if lo =? so then
    m <-- out_market s lo ;;
    excl_check m exp1 o1 exp2 o2
  else
    m1 <-- out_market s lo ;;
    _ <-- excl_check m1 exp1 o1 exp1 0 ;;
    m2 <-- out_market s so ;;
    _ <-- excl_check m2 exp2 o2 exp2 0 ;;
    (* the current market is validated last when it was not an output market *)
    Ok tt.

(* SwapMarkets::revertible_swap (the numeric balance validations are part of C22) *)
Definition revertible_swap (is_into : bool) (s : st) (p1 p2 : list Z)
           (exp1 exp2 : Z) (tin1 tin2 : option Z) (a1 a2 : Z) : res (st * Z * Z) :=
  if negb (nodup_b p1) then Err 1 else
  r1 <-- (match tin1 with
          | Some t => if a1 =? 0 then Ok (s, 0) else one_side is_into s p1 exp1 t a1
          | None => Ok (s, 0)
          end) ;;
  let '(s1, o1) := r1 in
  if negb (nodup_b p2) then Err 1 else
  r2 <-- (match tin2 with
          | Some t => if a2 =? 0 then Ok (s1, 0) else one_side is_into s1 p2 exp2 t a2
          | None => Ok (s1, 0)
          end) ;;
  let '(s2, o2) := r2 in
  _ <-- final_checks is_into s2 p1 p2 exp1 exp2 o1 o2 ;;
  Ok (s2, o1, o2).

(* SwapMarkets::new: the loaders must be distinct markets of this store, enabled, none of them the current one.
   a loader as seen by `new`: (market, store ok, enabled) *)
Fixpoint swap_markets_new (cur : Z) (seen : list Z) (loaders : list (mk * bool * bool)) : res (list mk) :=
  match loaders with
  | [] => Ok []
  | (m, store_ok, enabled) :: rest =>
      if mk_id m =? cur then Err 1 else
      if existsb (Z.eqb (mk_id m)) seen then Err 1 else
      if negb store_ok then Err 7 else
      if negb enabled then Err 8 else
      r <-- swap_markets_new cur (mk_id m :: seen) rest ;; Ok (m :: r)
  end.

(* ---------- creation time: validate_path over the market accounts ----------
   a path account as seen by validate_path: market token, long, short, store ok, enabled, address (dup check) *)
Record pacct := mkP { p_addr : Z; p_mt : Z; p_index : Z; p_long : Z; p_short : Z; p_store_ok : bool; p_enabled : bool }.

Fixpoint validate_path (seen : list Z) (path : list pacct) (cur : Z) : res (list Z * Z * list Z) :=
  (* returns (validated market tokens, final token, tokens touched) *)
  match path with
  | [] => Ok ([], cur, [])
  | p :: rest =>
      if existsb (Z.eqb (p_addr p)) seen then Err 1 else
      if negb (p_store_ok p) then Err 7 else
      if negb (p_enabled p) then Err 8 else
      if p_long p =? p_short p then Err 1 else
      nxt <-- (if cur =? p_long p then Ok (p_short p) else if cur =? p_short p then Ok (p_long p) else Err 1) ;;
      r <-- validate_path (p_addr p :: seen) rest nxt ;;
      let '(mts, fin, toks) := r in
      Ok (p_mt p :: mts, fin, p_index p :: p_long p :: p_short p :: toks)
  end.

Definition MAX_STEPS : Z := 10.
Definition MAX_TOKENS : Z := 25.

Fixpoint dedup (l : list Z) : list Z :=
  match l with [] => [] | x :: r => if existsb (Z.eqb x) r then dedup r else x :: dedup r end.

(* validate_and_init: (primary path, secondary path, distinct tokens) *)
Definition validate_and_init (cur_tokens : list Z) (plen slen : Z) (paths : list pacct)
           (tin1 tin2 tout1 tout2 : Z) : res (list Z * list Z * list Z) :=
  if MAX_STEPS <? plen + slen then Err 5 else
  if Z.of_nat (length paths) <? plen + slen then Err 6 else
  let p1 := firstn (Z.to_nat plen) paths in
  let p2 := firstn (Z.to_nat slen) (skipn (Z.to_nat plen) paths) in
  r1 <-- validate_path [] p1 tin1 ;;
  let '(m1, f1, t1) := r1 in
  if negb (f1 =? tout1) then Err 1 else
  r2 <-- validate_path [] p2 tin2 ;;
  let '(m2, f2, t2) := r2 in
  if negb (f2 =? tout2) then Err 1 else
  let toks := dedup (cur_tokens ++ t1 ++ t2) in
  if MAX_TOKENS <? Z.of_nat (length toks) then Err 1 else
  Ok (m1, m2, toks).
