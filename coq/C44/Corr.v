(* C44 — correspondence and oracle predicates for harness/src/bin/c44.rs.  Imports Model only. *)
From GV Require Export lib.Base C44.Model.
Open Scope Z_scope.

Inductive case :=
| PathValid (p1 p2 : list Z) (r1 r2 : bool)
| Create (cur_tokens : list Z) (plen slen : Z) (paths : list pacct) (tin1 tin2 tout1 tout2 : Z)
         (r : res (list Z * list Z * list Z)) (sorted : bool)
| Swap (is_into : bool) (loaders : list (mk * bool * bool)) (cur : mk) (p1 p2 : list Z) (exp1 exp2 : Z)
       (tin1 tin2 : option Z) (a1 a2 : Z) (r : res (Z * Z)) (hops : list hop)
       (ms_after : list mk) (cur_after : mk).

(* ---------------- helpers ---------------- *)
Fixpoint list_eqb (a b : list Z) : bool :=
  match a, b with
  | [], [] => true
  | x :: r, y :: s => (x =? y) && list_eqb r s
  | _, _ => false
  end.
Definition mem (x : Z) (l : list Z) : bool := existsb (Z.eqb x) l.
Definition subset (a b : list Z) : bool := forallb (fun x => mem x b) a.
Definition set_eqb (a b : list Z) : bool := subset a b && subset b a.

Definition mk_eqb (a b : mk) : bool :=
  (mk_id a =? mk_id b) && (mk_long a =? mk_long b) && (mk_short a =? mk_short b) &&
  (mk_bl a =? mk_bl b) && (mk_bs a =? mk_bs b).
Fixpoint mks_eqb (a b : list mk) : bool :=
  match a, b with
  | [], [] => true
  | x :: r, y :: s => mk_eqb x y && mks_eqb r s
  | _, _ => false
  end.
Definition hop_eqb (a b : hop) : bool :=
  (hp_market a =? hp_market b) && Bool.eqb (hp_in_long a) (hp_in_long b) && (hp_in a =? hp_in b) && (hp_out a =? hp_out b).
Fixpoint hops_eqb (a b : list hop) : bool :=
  match a, b with
  | [], [] => true
  | x :: r, y :: s => hop_eqb x y && hops_eqb r s
  | _, _ => false
  end.

(* ---------------- correspondence ---------------- *)
Definition corr_b (c : case) : bool :=
  match c with
  | PathValid p1 p2 r1 r2 => Bool.eqb (nodup_b p1) r1 && Bool.eqb (nodup_b p2) r2
  | Create cur_tokens plen slen paths tin1 tin2 tout1 tout2 r sorted =>
      match validate_and_init cur_tokens plen slen paths tin1 tin2 tout1 tout2, r with
      | Ok (m1, m2, toks), Ok (m1', m2', toks') => list_eqb m1 m1' && list_eqb m2 m2' && set_eqb toks toks' &&
                                                    (Z.of_nat (length toks) =? Z.of_nat (length toks'))
      | Err e, Err e' => e =? e'
      | _, _ => false
      end
  | Swap is_into loaders cur p1 p2 exp1 exp2 tin1 tin2 a1 a2 r hops ms_after cur_after =>
      match swap_markets_new (mk_id cur) [] loaders with
      | Err e => match r with Err e' => e =? e' | Ok _ => false end
      | Ok ms =>
          (* the abstract single-market swap is instantiated with the amounts the real swaps produced *)
          let s0 := mkSt ms cur (map hp_out hops) [] in
          match revertible_swap is_into s0 p1 p2 exp1 exp2 tin1 tin2 a1 a2, r with
          | Ok (s, o1, o2), Ok (o1', o2') =>
              (o1 =? o1') && (o2 =? o2') && hops_eqb (rev (s_hops s)) hops &&
              mks_eqb (s_ms s) ms_after && mk_eqb (s_cur s) cur_after &&
              match s_outs s with [] => true | _ => false end
          | Err e, Err e' => e =? e'
          | _, _ => false
          end
      end
  end.

(* ---------------- oracle: the property on the implementation's outputs ---------------- *)
Fixpoint has_dup (l : list Z) : bool :=
  match l with [] => false | x :: r => mem x r || has_dup r end.

(* token chain through the declared accounts: each step must use a two-token market containing the
   current token, and lead to the other token *)
Fixpoint chain_end (path : list pacct) (tok : Z) : option Z :=
  match path with
  | [] => Some tok
  | p :: r =>
      if p_long p =? p_short p then None
      else if tok =? p_long p then chain_end r (p_short p)
      else if tok =? p_short p then chain_end r (p_long p)
      else None
  end.

(* hops follow the declared path in order, chained by token and by amount *)
Fixpoint hops_follow (lookup : Z -> option mk) (path : list Z) (tok amt : Z) (hops : list hop)
  : option (Z * Z * list hop) :=
  match path with
  | [] => Some (tok, amt, hops)
  | mt :: rest =>
      match hops, lookup mt with
      | h :: hs, Some m =>
          if (hp_market h =? mt) && (hp_in h =? amt) && negb (mk_long m =? mk_short m) &&
             (if hp_in_long h then tok =? mk_long m else tok =? mk_short m)
          then hops_follow lookup rest (if hp_in_long h then mk_short m else mk_long m) (hp_out h) hs
          else None
      | _, _ => None
      end
  end.

Definition bal_of (m : mk) (tok : Z) : Z :=
  if tok =? mk_long m then mk_bl m else if tok =? mk_short m then mk_bs m else 0.
Definition total (ms : list mk) (tok : Z) : Z := fold_right (fun m acc => bal_of m tok + acc) 0 ms.

Definition oracle_b (c : case) : bool :=
  match c with
  | PathValid p1 p2 r1 r2 => Bool.eqb r1 (negb (has_dup p1)) && Bool.eqb r2 (negb (has_dup p2))
  | Create cur_tokens plen slen paths tin1 tin2 tout1 tout2 r sorted =>
      match r with
      | Ok (m1, m2, toks) =>
          sorted &&
          (* accepted only if: lengths fit, no duplicate market inside a path, every step is a real two-token
             step of the token chain, the chain ends in the declared output token, all markets are enabled
             markets of this store; the stored paths are the declared markets in order *)
          let q1 := firstn (Z.to_nat plen) paths in
          let q2 := firstn (Z.to_nat slen) (skipn (Z.to_nat plen) paths) in
          (plen + slen <=? 10) && (plen + slen <=? Z.of_nat (length paths)) &&
          negb (has_dup (map p_addr q1)) && negb (has_dup (map p_addr q2)) &&
          forallb (fun p => p_store_ok p && p_enabled p) (q1 ++ q2) &&
          match chain_end q1 tin1, chain_end q2 tin2 with
          | Some e1, Some e2 => (e1 =? tout1) && (e2 =? tout2)
          | _, _ => false
          end &&
          list_eqb m1 (map p_mt q1) && list_eqb m2 (map p_mt q2) &&
          subset cur_tokens toks &&
          forallb (fun p => mem (p_index p) toks && mem (p_long p) toks && mem (p_short p) toks) (q1 ++ q2) &&
          negb (has_dup toks)
      | Err _ => true
      end
  | Swap is_into loaders cur p1 p2 exp1 exp2 tin1 tin2 a1 a2 r hops ms_after cur_after =>
      match r with
      | Err _ => true
      | Ok (o1, o2) =>
          let before := cur :: map (fun x => fst (fst x)) loaders in
          let after := cur_after :: ms_after in
          let lookup := fun id => find before id in
          let do1 := match tin1 with Some _ => negb (a1 =? 0) | None => false end in
          let do2 := match tin2 with Some _ => negb (a2 =? 0) | None => false end in
          negb (has_dup p1) && negb (has_dup p2) &&
          (* primary hops, then secondary hops, exactly along the declared paths *)
          match (if do1 then hops_follow lookup p1 (match tin1 with Some t => t | None => 0 end) a1 hops
                 else Some (exp1, 0, hops)) with
          | Some (t1, x1, rest) =>
              (if do1 then (t1 =? exp1) && (x1 =? o1) else o1 =? 0) &&
              match (if do2 then hops_follow lookup p2 (match tin2 with Some t => t | None => 0 end) a2 rest
                     else Some (exp2, 0, rest)) with
              | Some (t2, x2, rest2) =>
                  (if do2 then (t2 =? exp2) && (x2 =? o2) else o2 =? 0) &&
                  match rest2 with [] => true | _ => false end
              | None => false
              end
          | None => false
          end &&
          (* recorded balances: every token's total over all markets involved is unchanged *)
          forallb (fun tok => total before tok =? total after tok) [0; 1; 2; 3; 8; 9] &&
          (length before =? length after)%nat
      end
  end.

Definition known_b (c : case) : Z := 0.
