(* C44 — lemmas about the swap-path model *)
From GV Require Import lib.Base C44.Model.
Open Scope Z_scope.

Ltac inv H := inversion H; subst; clear H.

(* ------------------------------------------------------------------ nodup_b *)
Lemma existsb_eqb_In x l : existsb (Z.eqb x) l = true <-> In x l.
Proof.
  rewrite existsb_exists. split.
  - intros (y & Hy & E). apply Z.eqb_eq in E. subst. auto.
  - intro H. exists x. split; auto. apply Z.eqb_refl.
Qed.

Lemma nodup_b_NoDup l : nodup_b l = true <-> NoDup l.
Proof.
  induction l; cbn.
  - split; auto. constructor.
  - rewrite Bool.andb_true_iff, Bool.negb_true_iff, IHl. split.
    + intros [H1 H2]. constructor; auto. intro Hin. apply existsb_eqb_In in Hin. congruence.
    + intro H. inv H. split; auto. destruct (existsb (Z.eqb a) l) eqn:E; auto.
      apply existsb_eqb_In in E. contradiction.
Qed.

(* ------------------------------------------------------------------ balances *)
Definition bal_of (m : mk) (tok : Z) : Z :=
  if tok =? mk_long m then mk_bl m else if tok =? mk_short m then mk_bs m else 0.
Fixpoint total (ms : list mk) (tok : Z) : Z :=
  match ms with [] => 0 | m :: r => bal_of m tok + total r tok end.
Definition same_tokens (m m' : mk) : Prop :=
  mk_id m' = mk_id m /\ mk_long m' = mk_long m /\ mk_short m' = mk_short m.

Lemma rec_in_spec m tok amt m' :
  rec_in m tok amt = Ok m' ->
  same_tokens m m' /\ (tok = mk_long m \/ tok = mk_short m) /\
  forall T, bal_of m' T = bal_of m T + (if T =? tok then amt else 0).
Proof.
  unfold rec_in, side, is_pure. intro H.
  destruct (tok =? mk_long m) eqn:El.
  - apply Z.eqb_eq in El. rewrite Bool.orb_true_r in H.
    destruct (U64_MAX <? mk_bl m + amt); [discriminate|]. inv H.
    split; [unfold same_tokens; cbn; auto|]. split; auto.
    intro T. unfold bal_of. cbn. destruct (T =? mk_long m) eqn:E; [lia|].
    destruct (T =? mk_short m); lia.
  - destruct (tok =? mk_short m) eqn:Es; [|discriminate]. apply Z.eqb_eq in Es.
    rewrite Bool.orb_false_r in H.
    destruct (mk_long m =? mk_short m) eqn:Ep.
    { apply Z.eqb_eq in Ep. apply Z.eqb_neq in El. congruence. }
    destruct (U64_MAX <? mk_bs m + amt); [discriminate|]. inv H.
    split; [unfold same_tokens; cbn; auto|]. split; auto.
    intro T. unfold bal_of. cbn. apply Z.eqb_neq in El, Ep.
    destruct (T =? mk_long m) eqn:E1.
    + apply Z.eqb_eq in E1. destruct (T =? mk_short m) eqn:E2; [apply Z.eqb_eq in E2; congruence|lia].
    + destruct (T =? mk_short m); lia.
Qed.

Lemma rec_out_spec m tok amt m' :
  rec_out m tok amt = Ok m' ->
  same_tokens m m' /\ (tok = mk_long m \/ tok = mk_short m) /\
  forall T, bal_of m' T = bal_of m T - (if T =? tok then amt else 0).
Proof.
  unfold rec_out, side, is_pure. intro H.
  destruct (tok =? mk_long m) eqn:El.
  - apply Z.eqb_eq in El. rewrite Bool.orb_true_r in H.
    destruct (mk_bl m - amt <? 0); [discriminate|]. inv H.
    split; [unfold same_tokens; cbn; auto|]. split; auto.
    intro T. unfold bal_of. cbn. destruct (T =? mk_long m) eqn:E; [lia|].
    destruct (T =? mk_short m); lia.
  - destruct (tok =? mk_short m) eqn:Es; [|discriminate]. apply Z.eqb_eq in Es.
    rewrite Bool.orb_false_r in H.
    destruct (mk_long m =? mk_short m) eqn:Ep.
    { apply Z.eqb_eq in Ep. apply Z.eqb_neq in El. congruence. }
    destruct (mk_bs m - amt <? 0); [discriminate|]. inv H.
    split; [unfold same_tokens; cbn; auto|]. split; auto.
    intro T. unfold bal_of. cbn. apply Z.eqb_neq in El, Ep.
    destruct (T =? mk_long m) eqn:E1.
    + apply Z.eqb_eq in E1. destruct (T =? mk_short m) eqn:E2; [apply Z.eqb_eq in E2; congruence|lia].
    + destruct (T =? mk_short m); lia.
Qed.

(* find / upd *)
Lemma find_id ms id m : find ms id = Some m -> mk_id m = id.
Proof.
  induction ms; cbn; [discriminate|]. destruct (mk_id a =? id) eqn:E; auto.
  intro H. inv H. apply Z.eqb_eq. auto.
Qed.

Lemma total_upd ms m m' T :
  find ms (mk_id m') = Some m -> total (upd ms m') T = total ms T - bal_of m T + bal_of m' T.
Proof.
  induction ms; cbn; [discriminate|].
  destruct (mk_id a =? mk_id m') eqn:E.
  - intro H. inv H. cbn. lia.
  - intro H. cbn. rewrite (IHms H). lia.
Qed.

Lemma find_upd_same ms m m' : find ms (mk_id m') = Some m -> find (upd ms m') (mk_id m') = Some m'.
Proof.
  induction ms; cbn; [discriminate|]. destruct (mk_id a =? mk_id m') eqn:E.
  - intros _. cbn. rewrite Z.eqb_refl. auto.
  - intro H. cbn. rewrite E. auto.
Qed.

Lemma find_upd_other ms m' id : id <> mk_id m' -> find (upd ms m') id = find ms id.
Proof.
  intro Hne. induction ms; cbn; auto. destruct (mk_id a =? mk_id m') eqn:E.
  - cbn. apply Z.eqb_eq in E. destruct (mk_id m' =? id) eqn:E1; [apply Z.eqb_eq in E1; congruence|].
    destruct (mk_id a =? id) eqn:E2; [apply Z.eqb_eq in E2; congruence|]. auto.
  - cbn. destruct (mk_id a =? id); auto.
Qed.

(* market tokens never change: [toks ms id] is the (long, short) of market id *)
Definition toks_of (ms : list mk) (id : Z) : option (Z * Z) :=
  match find ms id with Some m => Some (mk_long m, mk_short m) | None => None end.

Lemma toks_upd ms m m' id :
  find ms (mk_id m') = Some m -> mk_long m' = mk_long m -> mk_short m' = mk_short m ->
  toks_of (upd ms m') id = toks_of ms id.
Proof.
  intros Hf Hl Hs. unfold toks_of. destruct (Z.eq_dec id (mk_id m')) as [->|Hne].
  - rewrite (find_upd_same _ _ _ Hf), Hf. congruence.
  - rewrite (find_upd_other _ _ _ Hne). auto.
Qed.

(* ------------------------------------------------------------------ hops follow a path *)
(* [follows lk path tok amt hops tok' amt']: the hops are exactly one hop per market of the path, in order;
   each hop enters with the running token / amount, the market has two distinct tokens one of which is the
   running token, and the hop leaves with the other token and the hop's output amount *)
Inductive follows (lk : Z -> option (Z * Z)) : list Z -> Z -> Z -> list hop -> Z -> Z -> Prop :=
| F_nil tok amt : follows lk [] tok amt [] tok amt
| F_cons mt rest tok amt h hs tl ts tok' amt' :
    lk mt = Some (tl, ts) -> tl <> ts ->
    hp_market h = mt -> hp_in h = amt ->
    (hp_in_long h = true /\ tok = tl \/ hp_in_long h = false /\ tok = ts) ->
    follows lk rest (if hp_in_long h then ts else tl) (hp_out h) hs tok' amt' ->
    follows lk (mt :: rest) tok amt (h :: hs) tok' amt'.

Lemma follows_app lk p1 : forall p2 tok amt h1 h2 t1 a1 t2 a2,
  follows lk p1 tok amt h1 t1 a1 -> follows lk p2 t1 a1 h2 t2 a2 ->
  follows lk (p1 ++ p2) tok amt (h1 ++ h2) t2 a2.
Proof.
  induction p1; intros p2 tok amt h1 h2 t1 a1 t2 a2 H1 H2; inv H1; cbn; auto.
  econstructor; eauto.
Qed.

Lemma follows_markets lk path tok amt hops tok' amt' :
  follows lk path tok amt hops tok' amt' -> map hp_market hops = path.
Proof. induction 1; cbn; congruence. Qed.

(* do_swap: what one abstract swap step does *)
Lemma do_swap_spec m tok amt outs tok' amt' sd outs' :
  do_swap m tok amt outs = Ok (tok', amt', sd, outs') ->
  mk_long m <> mk_short m /\ outs = amt' :: outs' /\ amt <> 0 /\
  (sd = true /\ tok = mk_long m /\ tok' = mk_short m \/ sd = false /\ tok = mk_short m /\ tok' = mk_long m).
Proof.
  unfold do_swap, side, opposite. intro H.
  destruct (tok =? mk_long m) eqn:El.
  - apply Z.eqb_eq in El.
    destruct (tok =? mk_short m) eqn:Es; [discriminate|]. apply Z.eqb_neq in Es.
    destruct (amt =? 0) eqn:Ea; [discriminate|]. apply Z.eqb_neq in Ea.
    destruct outs; [discriminate|]. destruct (U64_MAX <? z); [discriminate|]. inv H.
    split; [congruence|]. split; [auto|]. split; [auto|]. left; auto.
  - destruct (tok =? mk_short m) eqn:Es; [|discriminate]. apply Z.eqb_eq in Es. apply Z.eqb_neq in El.
    destruct (tok =? mk_long m) eqn:El'; [apply Z.eqb_eq in El'; congruence|].
    destruct (amt =? 0) eqn:Ea; [discriminate|]. apply Z.eqb_neq in Ea.
    destruct outs; [discriminate|]. destruct (U64_MAX <? z); [discriminate|]. inv H.
    split; [congruence|]. split; [auto|]. split; [auto|]. right; auto.
Qed.

(* a pure (no-op) market can never perform a step *)
Lemma do_swap_pure m tok amt outs : is_pure m = true -> exists e, do_swap m tok amt outs = Err e.
Proof.
  unfold is_pure, do_swap, side, opposite. intro H. apply Z.eqb_eq in H. rewrite <- H.
  destruct (tok =? mk_long m) eqn:E; [|eauto]. rewrite E. eauto.
Qed.

(* ------------------------------------------------------------------ state-level facts *)
Definition wtotal (s : st) (T : Z) : Z := bal_of (s_cur s) T + total (s_ms s) T.

(* token lookup of a swap state: the current market or one of the swap markets *)
Definition lk (s : st) (id : Z) : option (Z * Z) :=
  if id =? mk_id (s_cur s) then Some (mk_long (s_cur s), mk_short (s_cur s)) else toks_of (s_ms s) id.

(* [ext s s' hops]: s' extends s by the hops (oldest first), consuming one abstract output per hop, and no
   market changed identity or tokens *)
Definition ext (s s' : st) (hops : list hop) : Prop :=
  s_hops s' = rev hops ++ s_hops s /\
  s_outs s = map hp_out hops ++ s_outs s' /\
  mk_id (s_cur s') = mk_id (s_cur s) /\
  (forall id, lk s' id = lk s id) /\
  (forall id, find (s_ms s') id = None <-> find (s_ms s) id = None) /\
  (forall T, wtotal s' T = wtotal s T).

Lemma ext_refl s : ext s s [].
Proof. unfold ext. cbn. repeat split; auto. Qed.

Lemma ext_trans a b c h1 h2 : ext a b h1 -> ext b c h2 -> ext a c (h1 ++ h2).
Proof.
  unfold ext. intros (H1 & O1 & I1 & L1 & F1 & T1) (H2 & O2 & I2 & L2 & F2 & T2).
  split; [rewrite H2, H1, rev_app_distr, app_assoc; auto|].
  split; [rewrite O1, O2, map_app, app_assoc; auto|].
  split; [congruence|]. split; [intro id; rewrite L2; auto|].
  split; [intro id; rewrite F2; auto|]. intro T. rewrite T2. auto.
Qed.

Lemma follows_ext_lk lk1 lk2 path tok amt hops tok' amt' :
  (forall mt, In mt path -> lk1 mt = lk2 mt) ->
  follows lk1 path tok amt hops tok' amt' -> follows lk2 path tok amt hops tok' amt'.
Proof.
  intros He H. induction H; [constructor|].
  econstructor; eauto.
  - rewrite <- He; [eauto|left; auto].
  - apply IHfollows. intros x Hx. apply He. right. auto.
Qed.

Lemma find_none_upd ms m m' id :
  find ms (mk_id m') = Some m -> (find (upd ms m') id = None <-> find ms id = None).
Proof.
  intro Hf. destruct (Z.eq_dec id (mk_id m')) as [->|Hne].
  - rewrite (find_upd_same _ _ _ Hf), Hf. split; discriminate.
  - rewrite (find_upd_other _ _ _ Hne). tauto.
Qed.

(* swap_with_current *)
Lemma swap_current_spec s tok amt s' tok' amt' :
  swap_current s tok amt = Ok (s', tok', amt') ->
  exists h, ext s s' [h] /\ follows (lk s) [mk_id (s_cur s)] tok amt [h] tok' amt'.
Proof.
  unfold swap_current, rbind. intro H.
  destruct (do_swap (s_cur s) tok amt (s_outs s)) as [[[[t a] sd] o]|] eqn:E; [|discriminate].
  inv H. apply do_swap_spec in E as (Hp & Ho & Ha & Hs).
  exists (mkHop (mk_id (s_cur s)) sd amt amt'). split.
  - unfold ext. cbn. repeat split; auto.
  - apply F_cons with (tl := mk_long (s_cur s)) (ts := mk_short (s_cur s)); cbn; auto.
    + unfold lk. rewrite Z.eqb_refl. reflexivity.
    + destruct Hs as [(-> & -> & ->)|(-> & -> & ->)]; auto.
    + destruct Hs as [(-> & -> & ->)|(-> & -> & ->)]; cbn; constructor.
Qed.

(* moving an amount between the current market and a swap market keeps every total *)
Lemma move_cur_to_ms_spec s id tok amt s' :
  find (s_ms s) (mk_id (s_cur s)) = None ->
  move_cur_to_ms s id tok amt = Ok s' -> ext s s' [] /\ find (s_ms s) id <> None.
Proof.
  unfold move_cur_to_ms, rbind. intros Hc H.
  destruct (find (s_ms s) id) as [m|] eqn:Ef; [|discriminate].
  destruct (rec_out (s_cur s) tok amt) as [c'|] eqn:Eo; [|discriminate].
  destruct (rec_in m tok amt) as [m'|] eqn:Ei; [|discriminate]. inv H.
  apply rec_out_spec in Eo as ((Ci & Cl & Cs) & _ & Co).
  apply rec_in_spec in Ei as ((Mi & Ml & Ms) & _ & Mo).
  pose proof (find_id _ _ _ Ef) as Hid. rewrite <- Mi in Hid. rewrite <- Hid in Ef.
  split; [|congruence]. unfold ext. cbn. split; [auto|]. split; [auto|]. split; [auto|]. split; [|split].
  - intro i. unfold lk. cbn. rewrite Ci, Cl, Cs. destruct (i =? mk_id (s_cur s)); auto.
    eapply toks_upd; eauto.
  - intro i. eapply find_none_upd; eauto.
  - intro T. unfold wtotal. cbn. rewrite (total_upd _ _ _ _ Ef), Co, Mo. lia.
Qed.

Lemma move_ms_to_cur_spec s id tok amt s' :
  move_ms_to_cur s id tok amt = Ok s' -> ext s s' [] /\ find (s_ms s) id <> None.
Proof.
  unfold move_ms_to_cur, rbind. intros H.
  destruct (find (s_ms s) id) as [m|] eqn:Ef; [|discriminate].
  destruct (rec_out m tok amt) as [m'|] eqn:Eo; [|discriminate].
  destruct (rec_in (s_cur s) tok amt) as [c'|] eqn:Ei; [|discriminate]. inv H.
  apply rec_out_spec in Eo as ((Mi & Ml & Ms) & _ & Mo).
  apply rec_in_spec in Ei as ((Ci & Cl & Cs) & _ & Co).
  pose proof (find_id _ _ _ Ef) as Hid. rewrite <- Mi in Hid. rewrite <- Hid in Ef.
  split; [|congruence]. unfold ext. cbn. split; [auto|]. split; [auto|]. split; [auto|]. split; [|split].
  - intro i. unfold lk. cbn. rewrite Ci, Cl, Cs. destruct (i =? mk_id (s_cur s)); auto.
    eapply toks_upd; eauto.
  - intro i. eapply find_none_upd; eauto.
  - intro T. unfold wtotal. cbn. rewrite (total_upd _ _ _ _ Ef), Co, Mo. lia.
Qed.

(* swap_along_the_path *)
Lemma along_spec : forall path s tok amt first s' tok' amt',
  along s path tok amt first = Ok (s', tok', amt') ->
  exists hops,
    s_hops s' = rev hops ++ s_hops s /\ s_outs s = map hp_out hops ++ s_outs s' /\
    s_cur s' = s_cur s /\
    (forall id, toks_of (s_ms s') id = toks_of (s_ms s) id) /\
    (forall id, find (s_ms s') id = None <-> find (s_ms s) id = None) /\
    follows (toks_of (s_ms s)) path tok amt hops tok' amt' /\
    (forall T, total (s_ms s') T = total (s_ms s) T +
               (if first then 0 else match path with [] => 0 | _ => if T =? tok then amt else 0 end)).
Proof.
  induction path as [|mt rest IH]; intros s tok amt first s' tok' amt' H; cbn [along] in H.
  - inv H. exists []. cbn. repeat split; auto; try constructor. intro T. destruct first; lia.
  - destruct (find (s_ms s) mt) as [m|] eqn:Ef; [|discriminate]. unfold rbind in H.
    destruct (if first then Ok m else rec_in m tok amt) as [m1|] eqn:E1; [|discriminate].
    destruct (do_swap m1 tok amt (s_outs s)) as [[[[t a] sd] o]|] eqn:Es; [|discriminate].
    destruct (match rest with [] => Ok m1 | _ :: _ => rec_out m1 t a end) as [m2|] eqn:E2; [|discriminate].
    apply IH in H as (hs & Hh & Ho & Hc & Hl & Hn & Hf & Ht). cbn [s_hops s_outs s_cur s_ms] in *.
    pose proof (find_id _ _ _ Ef) as Hid.
    assert (S1 : same_tokens m m1 /\ forall T, bal_of m1 T = bal_of m T + (if first then 0 else if T =? tok then amt else 0)).
    { destruct first.
      - inv E1. split; [unfold same_tokens; auto|]. intro T; lia.
      - apply rec_in_spec in E1 as (S & _ & B). split; auto. }
    destruct S1 as ((I1 & L1 & R1) & B1).
    apply do_swap_spec in Es as (Hp & Hout & Ha & Hs).
    assert (S2 : same_tokens m1 m2 /\ forall T, bal_of m2 T = bal_of m1 T - (match rest with [] => 0 | _ => if T =? t then a else 0 end)).
    { destruct rest.
      - inv E2. split; [unfold same_tokens; auto|]. intro T; lia.
      - apply rec_out_spec in E2 as (S & _ & B). split; auto. }
    destruct S2 as ((I2 & L2 & R2) & B2).
    assert (Ef' : find (s_ms s) (mk_id m2) = Some m) by (rewrite I2, I1, Hid; auto).
    exists (mkHop mt sd amt a :: hs).
    split; [rewrite Hh; cbn; rewrite <- app_assoc; reflexivity|].
    split; [rewrite Hout; cbn; rewrite Ho; reflexivity|].
    split; [auto|].
    split; [intro id; rewrite Hl; eapply toks_upd; eauto; congruence|].
    split; [intro id; rewrite Hn; eapply find_none_upd; eauto|].
    split.
    + apply F_cons with (tl := mk_long m) (ts := mk_short m); cbn; auto.
      * unfold toks_of. rewrite Ef. reflexivity.
      * congruence.
      * rewrite L1, R1 in Hs. destruct Hs as [(-> & -> & _)|(-> & -> & _)]; auto.
      * assert (Et : t = (if sd then mk_short m else mk_long m)).
        { rewrite L1, R1 in Hs. destruct Hs as [(-> & _ & ->)|(-> & _ & ->)]; reflexivity. }
        rewrite <- Et. eapply follows_ext_lk; [|exact Hf].
        intros x _. eapply toks_upd; eauto; congruence.
    + intro T. rewrite Ht, (total_upd _ _ _ _ Ef'), B2, B1.
      destruct rest; destruct first; lia.
Qed.

Lemma follows_weaken lk1 lk2 path tok amt hops tok' amt' :
  (forall mt v, lk1 mt = Some v -> lk2 mt = Some v) ->
  follows lk1 path tok amt hops tok' amt' -> follows lk2 path tok amt hops tok' amt'.
Proof.
  intros He H. induction H; [constructor|]. econstructor; eauto.
Qed.

Lemma follows_lk_ext s s' hops path tok amt hs tok' amt' :
  ext s s' hops -> follows (lk s') path tok amt hs tok' amt' -> follows (lk s) path tok amt hs tok' amt'.
Proof.
  intros (_ & _ & _ & L & _) H. eapply follows_ext_lk; [|exact H]. intros mt _. apply L.
Qed.

Lemma ext_cur_none s s' hops :
  ext s s' hops -> find (s_ms s) (mk_id (s_cur s)) = None -> find (s_ms s') (mk_id (s_cur s')) = None.
Proof. intros (_ & _ & I & _ & F & _) H. rewrite I. apply F. auto. Qed.

Lemma along_ext s path tok amt s' tok' amt' :
  find (s_ms s) (mk_id (s_cur s)) = None ->
  along s path tok amt true = Ok (s', tok', amt') ->
  exists hops, ext s s' hops /\ follows (lk s) path tok amt hops tok' amt'.
Proof.
  intros Hc H. apply along_spec in H as (hops & Hh & Ho & Hcur & Hl & Hn & Hf & Ht).
  exists hops. split.
  - unfold ext. split; [auto|]. split; [auto|]. split; [congruence|]. split; [|split; [auto|]].
    + intro id. unfold lk. rewrite Hcur, Hl. auto.
    + intro T. unfold wtotal. rewrite Hcur, Ht. lia.
  - eapply follows_weaken; [|exact Hf]. intros mt v Hv. unfold lk.
    destruct (mt =? mk_id (s_cur s)) eqn:E; auto.
    apply Z.eqb_eq in E. subst mt. unfold toks_of in Hv. rewrite Hc in Hv. discriminate.
Qed.

Lemma stage_first_spec is_into s path tok amt s4 tok4 amt4 path4 :
  find (s_ms s) (mk_id (s_cur s)) = None ->
  stage_first is_into s path tok amt = Ok (s4, tok4, amt4, path4) ->
  exists pre hops, path = pre ++ path4 /\ ext s s4 hops /\ follows (lk s) pre tok amt hops tok4 amt4.
Proof.
  intros Hc H. unfold stage_first in H. destruct path as [|first rest].
  - inv H. exists [], []. split; auto. split; [apply ext_refl|constructor].
  - unfold rbind in H.
    destruct (if negb is_into && negb (first =? mk_id (s_cur s)) then move_cur_to_ms s first tok amt else Ok s)
      as [s1|] eqn:E1; [|discriminate].
    assert (X1 : ext s s1 []).
    { destruct (negb is_into && negb (first =? mk_id (s_cur s))).
      - apply move_cur_to_ms_spec in E1 as [X _]; auto.
      - inv E1. apply ext_refl. }
    destruct (first =? mk_id (s_cur s)) eqn:Ef.
    + apply Z.eqb_eq in Ef.
      destruct (swap_current s1 tok amt) as [[[s2 tok2] amt2]|] eqn:E2; [|discriminate].
      apply swap_current_spec in E2 as (h & X2 & F2).
      assert (Hid : mk_id (s_cur s1) = mk_id (s_cur s)) by (destruct X1 as (_ & _ & I & _); auto).
      rewrite Hid, <- Ef in F2.
      assert (F2' : follows (lk s) [first] tok amt [h] tok2 amt2) by (eapply follows_lk_ext; eauto).
      destruct rest as [|nxt rest'].
      * injection H as <- <- <- <-. exists [first], [h]. split; auto. split; auto.
        change [h] with ([] ++ [h]). eapply ext_trans; eauto.
      * destruct (move_cur_to_ms s2 nxt tok2 amt2) as [s3|] eqn:E3; [|discriminate].
        injection H as <- <- <- <-.
        assert (Hc2 : find (s_ms s2) (mk_id (s_cur s2)) = None).
        { eapply ext_cur_none; [exact X2|]. eapply ext_cur_none; eauto. }
        apply move_cur_to_ms_spec in E3 as [X3 _]; auto.
        exists [first], [h]. split; auto. split; auto.
        change [h] with (([] ++ [h]) ++ []). eapply ext_trans; [eapply ext_trans; eauto|auto].
    + injection H as <- <- <- <-. exists [], []. split; auto. split; auto. constructor.
Qed.

Lemma last_of_app l x : last_of (l ++ [x]) = x.
Proof. unfold last_of. apply last_last. Qed.

Lemma stage_rest_spec is_into s4 path4 tok4 amt4 s' tok' amt' :
  find (s_ms s4) (mk_id (s_cur s4)) = None ->
  stage_rest is_into s4 path4 tok4 amt4 = Ok (s', tok', amt') ->
  exists hops, ext s4 s' hops /\ follows (lk s4) path4 tok4 amt4 hops tok' amt'.
Proof.
  intros Hc H. unfold stage_rest in H. destruct path4 as [|p0 prest] eqn:Ep.
  - inv H. exists []. split; [apply ext_refl|constructor].
  - rewrite <- Ep in *. assert (Hne : path4 <> []) by (rewrite Ep; discriminate). clear Ep.
    unfold rbind in H.
    set (cur := mk_id (s_cur s4)) in *.
    destruct (last_of path4 =? cur) eqn:Esw.
    + (* the path ends in the current market *)
      apply Z.eqb_eq in Esw.
      destruct (along s4 (removelast path4) tok4 amt4 true) as [[[s5 tok5] amt5]|] eqn:Ea; [|discriminate].
      apply along_ext in Ea as (h5 & X5 & F5); auto.
      destruct (match removelast path4 with [] => Ok s5 | _ :: _ => move_ms_to_cur s5 (last_of (removelast path4)) tok5 amt5 end)
        as [s6|] eqn:E6; [|discriminate].
      assert (X6 : ext s5 s6 []).
      { destruct (removelast path4); [inv E6; apply ext_refl|].
        apply move_ms_to_cur_spec in E6 as [X _]; auto. }
      destruct (swap_current s6 tok5 amt5) as [[[s7 tok7] amt7]|] eqn:E7; [|discriminate].
      apply swap_current_spec in E7 as (h & X7 & F7).
      assert (Hid : mk_id (s_cur s6) = cur).
      { destruct X6 as (_ & _ & I6 & _). destruct X5 as (_ & _ & I5 & _). unfold cur. congruence. }
      rewrite Hid in F7.
      assert (X57 : ext s4 s7 (h5 ++ [h])).
      { replace (h5 ++ [h]) with ((h5 ++ []) ++ [h]) by (rewrite app_nil_r; auto).
        eapply ext_trans; [eapply ext_trans; eauto|auto]. }
      assert (F7' : follows (lk s4) [cur] tok5 amt5 [h] tok7 amt7).
      { eapply (follows_lk_ext s4 s6 (h5 ++ [])); [eapply ext_trans; eauto|exact F7]. }
      assert (Hp : path4 = removelast path4 ++ [cur]).
      { rewrite <- Esw. unfold last_of. apply app_removelast_last. auto. }
      assert (Ffull : follows (lk s4) path4 tok4 amt4 (h5 ++ [h]) tok7 amt7).
      { rewrite Hp. eapply follows_app; eauto. }
      cbn [negb] in H. rewrite Bool.andb_false_r in H. inv H.
      exists (h5 ++ [h]). auto.
    + destruct (along s4 path4 tok4 amt4 true) as [[[s5 tok5] amt5]|] eqn:Ea; [|discriminate].
      apply along_ext in Ea as (h5 & X5 & F5); auto.
      cbn [negb] in H. rewrite Bool.andb_true_r in H. destruct is_into.
      * destruct (move_ms_to_cur s5 (last_of path4) tok5 amt5) as [s8|] eqn:E8; [|discriminate]. inv H.
        apply move_ms_to_cur_spec in E8 as [X8 _].
        exists h5. split; auto. replace h5 with (h5 ++ []) by apply app_nil_r. eapply ext_trans; eauto.
      * inv H. exists h5. auto.
Qed.

(* revertible_swap_for_one_side *)
Theorem one_side_spec is_into s path expected tok amt s' out :
  one_side is_into s path expected tok amt = Ok (s', out) ->
  find (s_ms s) (mk_id (s_cur s)) = None /\
  exists hops, ext s s' hops /\ follows (lk s) path tok amt hops expected out.
Proof.
  unfold one_side. intro H.
  destruct (find (s_ms s) (mk_id (s_cur s))) eqn:Hc; [discriminate|]. split; auto.
  unfold rbind in H.
  destruct (stage_first is_into s path tok amt) as [[[[s4 tok4] amt4] path4]|] eqn:E1; [|discriminate].
  destruct (stage_rest is_into s4 path4 tok4 amt4) as [[[s7 tok7] amt7]|] eqn:E2; [|discriminate].
  destruct (tok7 =? expected) eqn:Ee; [|discriminate]. apply Z.eqb_eq in Ee. inv H.
  apply stage_first_spec in E1 as (pre & h1 & Hp & X1 & F1); auto.
  apply stage_rest_spec in E2 as (h2 & X2 & F2); [|eapply ext_cur_none; eauto].
  exists (h1 ++ h2). split; [eapply ext_trans; eauto|].
  rewrite Hp. eapply follows_app; [exact F1|]. eapply follows_lk_ext; eauto.
Qed.

(* a successful step never goes through a pure (no-op) market, and never repeats ... the markets on the
   path all have two distinct tokens *)
Lemma follows_no_pure lk0 path tok amt hops tok' amt' :
  follows lk0 path tok amt hops tok' amt' ->
  Forall (fun mt => exists l s, lk0 mt = Some (l, s) /\ l <> s) path.
Proof. induction 1; constructor; eauto. Qed.

(* SwapMarkets::revertible_swap *)
Theorem revertible_swap_spec is_into s p1 p2 exp1 exp2 tin1 tin2 a1 a2 s' o1 o2 :
  revertible_swap is_into s p1 p2 exp1 exp2 tin1 tin2 a1 a2 = Ok (s', o1, o2) ->
  NoDup p1 /\ NoDup p2 /\
  exists h1 h2,
    ext s s' (h1 ++ h2) /\
    match tin1 with
    | Some t => if a1 =? 0 then h1 = [] /\ o1 = 0 else follows (lk s) p1 t a1 h1 exp1 o1
    | None => h1 = [] /\ o1 = 0
    end /\
    match tin2 with
    | Some t => if a2 =? 0 then h2 = [] /\ o2 = 0 else follows (lk s) p2 t a2 h2 exp2 o2
    | None => h2 = [] /\ o2 = 0
    end.
Proof.
  unfold revertible_swap. intro H.
  destruct (nodup_b p1) eqn:N1; cbn [negb] in H; [|discriminate]. apply nodup_b_NoDup in N1.
  unfold rbind in H.
  destruct (match tin1 with Some t => if a1 =? 0 then Ok (s, 0) else one_side is_into s p1 exp1 t a1 | None => Ok (s, 0) end)
    as [[s1 x1]|] eqn:E1; [|discriminate].
  destruct (nodup_b p2) eqn:N2; cbn [negb] in H; [|discriminate]. apply nodup_b_NoDup in N2.
  destruct (match tin2 with Some t => if a2 =? 0 then Ok (s1, 0) else one_side is_into s1 p2 exp2 t a2 | None => Ok (s1, 0) end)
    as [[s2 x2]|] eqn:E2; [|discriminate].
  destruct (final_checks is_into s2 p1 p2 exp1 exp2 x1 x2); [|discriminate]. inv H.
  split; auto. split; auto.
  assert (A1 : exists h1, ext s s1 h1 /\
            match tin1 with
            | Some t => if a1 =? 0 then h1 = [] /\ o1 = 0 else follows (lk s) p1 t a1 h1 exp1 o1
            | None => h1 = [] /\ o1 = 0
            end).
  { destruct tin1 as [t|].
    - destruct (a1 =? 0).
      + inv E1. exists []. split; [apply ext_refl|auto].
      + apply one_side_spec in E1 as (_ & h & X & F). eauto.
    - inv E1. exists []. split; [apply ext_refl|auto]. }
  destruct A1 as (h1 & X1 & F1).
  assert (A2 : exists h2, ext s1 s' h2 /\
            match tin2 with
            | Some t => if a2 =? 0 then h2 = [] /\ o2 = 0 else follows (lk s1) p2 t a2 h2 exp2 o2
            | None => h2 = [] /\ o2 = 0
            end).
  { destruct tin2 as [t|].
    - destruct (a2 =? 0).
      + inv E2. exists []. split; [apply ext_refl|auto].
      + apply one_side_spec in E2 as (_ & h & X & F). eauto.
    - inv E2. exists []. split; [apply ext_refl|auto]. }
  destruct A2 as (h2 & X2 & F2).
  exists h1, h2. split; [eapply ext_trans; eauto|]. split; auto.
  destruct tin2 as [t|]; auto. destruct (a2 =? 0); auto. eapply follows_lk_ext; eauto.
Qed.

(* ------------------------------------------------------------------ creation time *)
Fixpoint chain (path : list pacct) (tok : Z) : option Z :=
  match path with
  | [] => Some tok
  | p :: r =>
      if p_long p =? p_short p then None
      else if tok =? p_long p then chain r (p_short p)
      else if tok =? p_short p then chain r (p_long p)
      else None
  end.

Lemma validate_path_spec : forall path seen cur mts fin toks,
  validate_path seen path cur = Ok (mts, fin, toks) ->
  NoDup (map p_addr path) /\ (forall p, In p path -> ~ In (p_addr p) seen) /\
  Forall (fun p => p_store_ok p = true /\ p_enabled p = true /\ p_long p <> p_short p) path /\
  mts = map p_mt path /\ chain path cur = Some fin /\
  (forall p, In p path -> In (p_index p) toks /\ In (p_long p) toks /\ In (p_short p) toks).
Proof.
  induction path as [|p rest IH]; intros seen cur mts fin toks H; cbn [validate_path] in H.
  - inv H. cbn. repeat split; auto; try constructor; intros p [].
  - destruct (existsb (Z.eqb (p_addr p)) seen) eqn:Es; [discriminate|].
    destruct (p_store_ok p) eqn:Eo; cbn [negb] in H; [|discriminate].
    destruct (p_enabled p) eqn:Ee; cbn [negb] in H; [|discriminate].
    destruct (p_long p =? p_short p) eqn:Ep; [discriminate|]. apply Z.eqb_neq in Ep.
    unfold rbind in H.
    destruct (if cur =? p_long p then Ok (p_short p) else if cur =? p_short p then Ok (p_long p) else Err 1)
      as [nxt|] eqn:En; [|discriminate].
    destruct (validate_path (p_addr p :: seen) rest nxt) as [[[m f] t]|] eqn:Er; [|discriminate]. inv H.
    apply IH in Er as (N & S & F & M & C & T).
    assert (Hns : ~ In (p_addr p) seen).
    { intro Hin. apply existsb_eqb_In in Hin. congruence. }
    split; [|split; [|split; [|split; [|split]]]].
    + cbn. constructor; auto. intro Hin. apply in_map_iff in Hin as (q & Hq & Hin).
      apply (S q Hin). left. auto.
    + intros q [<-|Hq]; auto. intro Hin. apply (S q Hq). right. auto.
    + constructor; auto.
    + cbn. congruence.
    + cbn [chain]. destruct (p_long p =? p_short p) eqn:E; [apply Z.eqb_eq in E; congruence|].
      destruct (cur =? p_long p); [inv En; auto|]. destruct (cur =? p_short p); [inv En; auto|discriminate].
    + intros q [<-|Hq].
      * cbn. tauto.
      * destruct (T q Hq) as (A & B & C'). cbn. tauto.
Qed.

Lemma dedup_In l : forall x, In x (dedup l) <-> In x l.
Proof.
  induction l; intro x; cbn; [tauto|].
  destruct (existsb (Z.eqb a) l) eqn:E.
  - rewrite IHl. split; auto. intros [<-|H]; auto. apply existsb_eqb_In. auto.
  - cbn. rewrite IHl. tauto.
Qed.

Lemma dedup_NoDup l : NoDup (dedup l).
Proof.
  induction l; cbn; [constructor|]. destruct (existsb (Z.eqb a) l) eqn:E; auto.
  constructor; auto. rewrite dedup_In. intro H. apply existsb_eqb_In in H. congruence.
Qed.

Theorem validate_and_init_spec cur_tokens plen slen paths tin1 tin2 tout1 tout2 m1 m2 toks :
  validate_and_init cur_tokens plen slen paths tin1 tin2 tout1 tout2 = Ok (m1, m2, toks) ->
  let q1 := firstn (Z.to_nat plen) paths in
  let q2 := firstn (Z.to_nat slen) (skipn (Z.to_nat plen) paths) in
  plen + slen <= MAX_STEPS /\ plen + slen <= Z.of_nat (length paths) /\
  NoDup (map p_addr q1) /\ NoDup (map p_addr q2) /\
  Forall (fun p => p_store_ok p = true /\ p_enabled p = true /\ p_long p <> p_short p) (q1 ++ q2) /\
  m1 = map p_mt q1 /\ m2 = map p_mt q2 /\
  chain q1 tin1 = Some tout1 /\ chain q2 tin2 = Some tout2 /\
  NoDup toks /\ Z.of_nat (length toks) <= MAX_TOKENS /\
  (forall t, In t cur_tokens -> In t toks) /\
  (forall p, In p (q1 ++ q2) -> In (p_index p) toks /\ In (p_long p) toks /\ In (p_short p) toks).
Proof.
  unfold validate_and_init. intro H.
  destruct (MAX_STEPS <? plen + slen) eqn:E1; [discriminate|]. apply Z.ltb_ge in E1.
  destruct (Z.of_nat (length paths) <? plen + slen) eqn:E2; [discriminate|]. apply Z.ltb_ge in E2.
  unfold rbind in H.
  destruct (validate_path [] (firstn (Z.to_nat plen) paths) tin1) as [[[a f1] t1]|] eqn:V1; [|discriminate].
  destruct (f1 =? tout1) eqn:F1; cbn [negb] in H; [|discriminate]. apply Z.eqb_eq in F1. subst f1.
  destruct (validate_path [] (firstn (Z.to_nat slen) (skipn (Z.to_nat plen) paths)) tin2) as [[[b f2] t2]|] eqn:V2;
    [|discriminate].
  destruct (f2 =? tout2) eqn:F2; cbn [negb] in H; [|discriminate]. apply Z.eqb_eq in F2. subst f2.
  destruct (MAX_TOKENS <? Z.of_nat (length (dedup (cur_tokens ++ t1 ++ t2)))) eqn:E3; [discriminate|].
  apply Z.ltb_ge in E3. inv H.
  apply validate_path_spec in V1 as (N1 & _ & A1 & M1 & C1 & T1).
  apply validate_path_spec in V2 as (N2 & _ & A2 & M2 & C2 & T2).
  cbn zeta. repeat split; auto.
  - apply Forall_app. auto.
  - apply dedup_NoDup.
  - intros t Ht. apply dedup_In. apply in_or_app. auto.
  - apply in_app_or in H as [H|H]; apply dedup_In; apply in_or_app; right; apply in_or_app;
      [left; apply (T1 p H)|right; apply (T2 p H)].
  - apply in_app_or in H as [H|H]; apply dedup_In; apply in_or_app; right; apply in_or_app;
      [left; apply (T1 p H)|right; apply (T2 p H)].
  - apply in_app_or in H as [H|H]; apply dedup_In; apply in_or_app; right; apply in_or_app;
      [left; apply (T1 p H)|right; apply (T2 p H)].
Qed.

(* amounts chain from hop to hop *)
Fixpoint chain_amounts (a : Z) (hs : list hop) (a' : Z) : Prop :=
  match hs with [] => a' = a | h :: r => hp_in h = a /\ chain_amounts (hp_out h) r a' end.

Lemma follows_chain_amounts lk0 path tok amt hops tok' amt' :
  follows lk0 path tok amt hops tok' amt' -> chain_amounts amt hops amt'.
Proof. induction 1; cbn; auto. Qed.
