From GV Require Import lib.Base C44.Model.
Open Scope Z_scope.
